// construct.hpp — implementation side of the C15 tie: emplace_back of one FixedSize / VaryingSize
// field from every source form, for a catalogue of (stored type, source type) pairs.  The
// catalogue is instantiated by generated units (tools/construct_gen.py); the values come from
// the script.  Prints what ended up in the vector and how often each source item was moved from.
#pragma once
#include <array>
#include <cstddef>
#include <cstdint>
#include <cstdio>
#include <cstdlib>
#include <cstring>
#include <deque>
#include <fstream>
#include <iterator>
#include <list>
#include <memory>
#include <sstream>
#include <string>
#include <type_traits>
#include <vector>
#include <sys/wait.h>
#include <unistd.h>

#include <cntgs/contiguous.hpp>

namespace vc
{
enum class E8 : std::uint8_t
{
};
enum E32 : int
{
    E32_MIN = -2147483647 - 1,
    E32_MAX = 2147483647
};
struct B1
{
    long b1;
};
struct B2
{
    long b2;
};
struct D : B1, B2
{
    long d;
};
static_assert(sizeof(D) == 24);
struct Fahr
{
    std::int32_t f;
};
struct Cels
{
    std::int32_t c;
    Cels() = default;
    Cels(Fahr x) : c((x.f - 32) * 5 / 9) {}
};
static_assert(std::is_trivially_copyable_v<Cels> && sizeof(Cels) == sizeof(Fahr));
struct Wrap
{
    std::int32_t w;
    operator std::int32_t() const { return w + 1; }
};
struct Mv
{
    std::int32_t v = 0;
    mutable std::int32_t moved = 0;
    Mv() = default;
    explicit Mv(std::int32_t x) : v(x) {}
    Mv(const Mv& o) : v(o.v) {}
    // deliberately NOT noexcept (Handle(Raw&&) below is): whether an rvalue range is moved from must
    // not depend on the exception specification of the item's move construction (seeded change C15h)
    Mv(Mv&& o) : v(o.v) { ++o.moved; }
    Mv& operator=(const Mv& o)
    {
        v = o.v;
        return *this;
    }
    Mv& operator=(Mv&& o) noexcept
    {
        v = o.v;
        ++o.moved;
        return *this;
    }
};
static_assert(sizeof(Mv) == 8);
// copy constructor and destructor trivial, move constructor user-provided: "trivially copy
// constructible" is not "a byte copy is as good as a move" (seeded change C15j)
struct Tok
{
    std::int32_t v = 0;
    mutable std::int32_t moved = 0;
    Tok() = default;
    explicit Tok(std::int32_t x) : v(x) {}
    Tok(const Tok&) = default;
    Tok(Tok&& o) noexcept : v(o.v) { ++o.moved; }
    Tok& operator=(const Tok&) = default;
};
static_assert(sizeof(Tok) == 8 && std::is_trivially_copy_constructible_v<Tok> && std::is_trivially_destructible_v<Tok> &&
              !std::is_trivially_copyable_v<Tok>);

// a trivially copyable source whose conversion to the stored type depends on the value category:
// Handle(Raw&&) adopts the descriptor and resets the source, Handle(const Raw&) only looks at it
struct Raw
{
    std::int32_t fd;
};
struct Handle
{
    std::int32_t fd = 0;
    std::int32_t adopted = 0;
    Handle() = default;
    Handle(const Raw& r) : fd(r.fd), adopted(0) {}
    Handle(Raw&& r) noexcept : fd(r.fd), adopted(1) { r.fd = -1; }
};
static_assert(std::is_trivially_copyable_v<Raw> && sizeof(Raw) == 4 && sizeof(Handle) == 8);

template <class T, class U>
inline constexpr bool TRACKS_MOVES = std::is_same_v<U, Mv> || std::is_same_v<U, Tok> || (std::is_same_v<U, Raw> && std::is_same_v<T, Handle>);
template <class U>
int moved_count(const U& x)
{
    if constexpr (std::is_same_v<U, Mv> || std::is_same_v<U, Tok>)
        return x.moved;
    else if constexpr (std::is_same_v<U, Raw>)
        return x.fd == -1 ? 1 : 0;
    else
        return 0;
}

inline char* arena()
{
    static char a[1 << 12];
    return a;
}

template <class U>
U make(long val)
{
    if constexpr (std::is_same_v<U, bool>)
        return val != 0;
    else if constexpr (std::is_pointer_v<U>)
        return val < 0 ? nullptr : reinterpret_cast<U>(arena() + val);   // offset of the most derived object
    else if constexpr (std::is_same_v<U, Fahr>)
        return Fahr{static_cast<std::int32_t>(val)};
    else if constexpr (std::is_same_v<U, Cels>)
    {
        Cels c;
        c.c = static_cast<std::int32_t>(val);
        return c;
    }
    else if constexpr (std::is_same_v<U, Wrap>)
        return Wrap{static_cast<std::int32_t>(val)};
    else if constexpr (std::is_same_v<U, Mv>)
        return Mv{static_cast<std::int32_t>(val)};
    else if constexpr (std::is_same_v<U, Tok>)
        return Tok{static_cast<std::int32_t>(val)};
    else if constexpr (std::is_same_v<U, Raw>)
        return Raw{static_cast<std::int32_t>(val)};
    else if constexpr (std::is_same_v<U, Handle>)
    {
        Handle hd;
        hd.fd = static_cast<std::int32_t>(val & 0xffffffffL);
        hd.adopted = static_cast<std::int32_t>(val >> 32);
        return hd;
    }
    else
        return static_cast<U>(val);
}
// pointer sources: val is the offset of the D object; a B1*/B2* source does not occur
template <class T>
void print_obj(std::string& s, const T& t)
{
    unsigned char bytes[sizeof(T) < 8 ? 8 : sizeof(T)] = {};
    std::size_t n = sizeof(T);
    if constexpr (std::is_pointer_v<T>)
    {
        const long off = reinterpret_cast<const char*>(t) - arena();
        std::memcpy(bytes, &off, 8);
    }
    else
    {
        std::memcpy(bytes, &t, sizeof(T));
    }
    static const char* d = "0123456789abcdef";
    for (std::size_t i = 0; i < n; ++i)
    {
        s.push_back(d[bytes[i] >> 4]);
        s.push_back(d[bytes[i] & 15]);
    }
}

// a contiguous container that also works for bool
template <class U>
struct Buf
{
    std::unique_ptr<U[]> p;
    std::size_t n = 0;
    explicit Buf(std::size_t k) : p(new U[k]), n(k) {}
    U* data() { return p.get(); }
    const U* data() const { return p.get(); }
    std::size_t size() const { return n; }
    U* begin() { return p.get(); }
    U* end() { return p.get() + n; }
    const U* begin() const { return p.get(); }
    const U* end() const { return p.get() + n; }
    U& operator[](std::size_t i) { return p[i]; }
};
template <class U>
using Cont = std::conditional_t<std::is_same_v<U, bool>, Buf<U>, std::vector<U>>;

// a generated input range: items are produced on dereference, and the range is SINGLE-PASS like
// an istream range - all iterators share one cursor, incrementing any of them consumes an item
// for good; it has no size().  A second traversal (e.g. a std::distance before the copy) finds
// the source exhausted: items read behind its end are 0, and the advances are counted
template <class U>
struct Gen
{
    const std::vector<long>* vals;
    mutable std::size_t cursor = 0;
    static inline long produced = 0;
    static inline long advanced = 0;
    struct It
    {
        using iterator_category = std::input_iterator_tag;
        using value_type = U;
        using difference_type = std::ptrdiff_t;
        using pointer = const U*;
        using reference = U;
        const std::vector<long>* vals;
        std::size_t* cursor;
        bool is_end;
        bool done() const { return is_end || *cursor >= vals->size(); }
        U operator*() const
        {
            ++produced;
            return make<U>(*cursor < vals->size() ? (*vals)[*cursor] : 0);
        }
        It& operator++()
        {
            ++*cursor;
            ++advanced;
            return *this;
        }
        It operator++(int)
        {
            auto c = *this;
            ++*this;
            return c;
        }
        bool operator==(const It& o) const { return done() == o.done(); }
        bool operator!=(const It& o) const { return done() != o.done(); }
    };
    It begin() const { return It{vals, &cursor, false}; }
    It end() const { return It{vals, &cursor, true}; }
};

template <class U, class C>
std::vector<std::vector<unsigned char>> snapshot(const C& c)
{
    std::vector<std::vector<unsigned char>> r;
    if constexpr (std::is_trivially_copyable_v<U>)
        for (const auto& x : c)
        {
            std::vector<unsigned char> b(sizeof(U));
            std::memcpy(b.data(), &x, sizeof(U));
            r.push_back(b);
        }
    return r;
}

// Form: 0 contiguous container, 1 std::list, 2 generated range, 3 C array (3 items), 4 pointer,
// 5 std::vector iterator, 6 std::list iterator, 7 move_iterator
template <class T, class U, int Form, bool Rvalue, bool Varying>
void run_case(const std::vector<long>& vals, std::size_t n)
{
    using Vec = std::conditional_t<Varying, cntgs::ContiguousVector<std::uint32_t, cntgs::VaryingSize<T>>,
                                   cntgs::ContiguousVector<cntgs::FixedSize<T>>>;
    auto mkvec = [&]
    {
        if constexpr (Varying)
            return Vec{1, n * sizeof(T)};
        else
            return Vec{1, {n}};
    };
    Vec v = mkvec();
    auto emplace = [&](auto&& src)
    {
        if constexpr (Varying)
            v.emplace_back(static_cast<std::uint32_t>(n), std::forward<decltype(src)>(src));
        else
            v.emplace_back(std::forward<decltype(src)>(src));
    };
    std::vector<int> moved(vals.size(), 0);
    bool have_moved = false;
    bool modified = false;
    auto fill = [&](auto& c)
    {
        std::size_t i = 0;
        for (auto& x : c) x = make<U>(vals[i++]);
    };
    auto collect = [&](auto& c)
    {
        if constexpr (TRACKS_MOVES<T, U>)
        {
            std::size_t i = 0;
            for (auto& x : c) moved[i++] = moved_count(x);
            have_moved = true;
        }
    };
    if constexpr (Form == 0 || Form == 4 || Form == 5 || Form == 7)
    {
        Cont<U> s(vals.size());
        fill(s);
        const auto before = snapshot<U>(s);
        if constexpr (Form == 0)
        {
            if constexpr (Rvalue)
                emplace(std::move(s));
            else
                emplace(s);
        }
        else if constexpr (Form == 4)
            emplace(s.data());
        else if constexpr (Form == 5)
            emplace(s.begin());
        else
            emplace(std::make_move_iterator(s.begin()));
        if (!(Form == 0 && Rvalue) && Form != 7 && snapshot<U>(s) != before) modified = true;
        collect(s);
    }
    else if constexpr (Form == 1 || Form == 6)
    {
        std::list<U> s(vals.size());
        fill(s);
        const auto before = snapshot<U>(s);
        if constexpr (Form == 1)
        {
            if constexpr (Rvalue)
                emplace(std::move(s));
            else
                emplace(s);
        }
        else
            emplace(s.begin());
        if (!(Form == 1 && Rvalue) && snapshot<U>(s) != before) modified = true;
        collect(s);
    }
    else if constexpr (Form == 8)
    {
        // a deque spreads its items over several blocks: 600 leading items are kept in front of the values
        std::deque<U> s(600 + vals.size());
        {
            std::size_t i = 0;
            for (auto it = s.begin() + 600; it != s.end(); ++it) *it = make<U>(vals[i++]);
        }
        emplace(s.begin() + 600);
        if constexpr (TRACKS_MOVES<T, U>)
        {
            std::size_t i = 0;
            for (auto it = s.begin() + 600; it != s.end(); ++it) moved[i++] = moved_count(*it);
            have_moved = true;
        }
    }
    else if constexpr (Form == 9)
    {
        // the reverse iterator visits the values in script order
        std::vector<U> s(vals.size());
        for (std::size_t i = 0; i < vals.size(); ++i) s[vals.size() - 1 - i] = make<U>(vals[i]);
        emplace(s.rbegin());
        if constexpr (TRACKS_MOVES<T, U>)
        {
            for (std::size_t i = 0; i < vals.size(); ++i) moved[i] = moved_count(s[vals.size() - 1 - i]);
            have_moved = true;
        }
    }
    else if constexpr (Form == 2)
    {
        Gen<U> g{&vals};
        Gen<U>::produced = 0;
        Gen<U>::advanced = 0;
        if constexpr (Rvalue)
            emplace(std::move(g));
        else
            emplace(g);
        if (Gen<U>::produced != static_cast<long>(n) || Gen<U>::advanced != static_cast<long>(n))
            std::printf("PATHERR consumed %ld items (%ld advances) for %zu objects\n", Gen<U>::produced, Gen<U>::advanced, n);
    }
    else
    {
        U s[3];
        fill(s);
        const auto before = snapshot<U>(s);
        if constexpr (Rvalue)
            emplace(std::move(s));
        else
            emplace(s);
        if (!Rvalue && snapshot<U>(s) != before) modified = true;
        collect(s);
    }
    std::string line = "STORED ";
    auto&& field = cntgs::get<Varying ? 1 : 0>(v[0]);
    if (field.size() != n) std::printf("PATHERR stored %zu objects instead of %zu\n", (std::size_t)field.size(), n);
    if (field.size() == 0) line += "-";
    for (std::size_t i = 0; i < field.size(); ++i)
    {
        if (i) line += ",";
        print_obj(line, field[i]);
    }
    std::printf("%s\n", line.c_str());
    std::printf("MOVED");
    for (std::size_t i = 0; i < vals.size(); ++i) std::printf(" %d", have_moved ? moved[i] : -1);
    std::printf("\n");
    if (modified) std::printf("PATHERR lvalue source modified\n");
}

using CaseFn = void (*)(const std::vector<long>&, std::size_t);

inline int run_main(int argc, char** argv, CaseFn (*lookup)(long))
{
    if (argc < 2) return 2;
    std::ifstream in(argv[1]);
    std::string line;
    std::vector<std::pair<std::string, std::vector<std::vector<long>>>> scripts;
    while (std::getline(in, line))
    {
        std::istringstream ss(line);
        std::string op;
        if (!(ss >> op) || op[0] == '#') continue;
        if (op == "BEGIN")
        {
            std::string id;
            ss >> id;
            scripts.push_back({id, {}});
        }
        else if (op == "case" && !scripts.empty())
        {
            // values up to 2^64-1: parse unsigned and keep the bit pattern
            std::vector<long> a;
            std::string tok;
            while (ss >> tok)
                a.push_back(tok[0] == '-' ? std::strtoll(tok.c_str(), nullptr, 10)
                                          : static_cast<long>(std::strtoull(tok.c_str(), nullptr, 10)));
            scripts.back().second.push_back(a);
        }
    }
    for (auto& [id, cases] : scripts)
    {
        std::printf("BEGIN %s\n", id.c_str());
        std::fflush(stdout);
        pid_t pid = fork();
        if (pid == 0)
        {
            alarm(10);
            std::size_t step = 0;
            for (auto& a : cases)
            {
                std::printf("STEP %zu\n", step++);
                // case k tc uc fc rv varying n v...
                std::vector<long> vals(a.begin() + 7, a.end());
                CaseFn f = lookup(a[0]);
                if (f)
                    f(vals, static_cast<std::size_t>(a[6]));
                else
                    std::printf("UNKNOWN-CASE %ld\n", a[0]);
                std::fflush(stdout);
            }
            _exit(0);
        }
        int status = 0;
        waitpid(pid, &status, 0);
        if (WIFSIGNALED(status)) std::printf("CRASH %d\n", WTERMSIG(status));
        std::printf("END\n");
        std::fflush(stdout);
    }
    return 0;
}
}  // namespace vc
