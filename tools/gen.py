"""Generators: parameter lists, allocator kinds, C++ unit text, and scripts (valid by
construction against a Python spec machine = a plain list of tuples)."""
import hashlib
import random
from layout import *

# ---------------------------------------------------------------- parameter lists
COUNT_TYPES = [(TUINT, 2), (TUINT, 4), (TUINT, 8), (TU8, 1), (TBLOB, 1), (TBLOB, 2), (TBLOB, 3)]


def P(kind, ty, size, align=1):
    return Param(kind, size, align, ty)


def curated_lists():
    u32 = lambda a=1: P(PLAIN, TUINT, 4, a)
    szt = lambda a=8: P(PLAIN, TUINT, 8, a)
    f32 = lambda k, a=1: P(k, TBLOB, 4, a)
    L = []
    # test/utils/typedefs.hpp
    L.append([u32(), f32(PLAIN)])                                             # Plain
    L.append([u32(), szt(), f32(VARYING)])                                    # OneVarying
    L.append([u32(), szt(), f32(VARYING), szt(), f32(VARYING)])               # TwoVarying
    L.append([u32(), f32(FIXED)])                                             # OneFixed
    L.append([f32(FIXED), u32(), f32(FIXED)])                                 # TwoFixed
    L.append([f32(FIXED), u32(), szt(), f32(VARYING)])                        # OneFixedOneVarying
    L.append([P(FIXED, TTRK, 8), P(PLAIN, TTRK, 8)])                          # OneFixedUniquePtr
    # the same typedefs with the suite's real value type (float) instead of its 4-byte stand-in
    L.append([u32(), P(FIXED, TFLT, 4, 1)])
    L.append([u32(), szt(), P(VARYING, TFLT, 4, 1)])
    L.append([szt(), P(VARYING, TTRK, 8), P(PLAIN, TTRK, 8)])                 # OneVaryingUniquePtr
    L.append([P(PLAIN, TS8, 1), u32(8)])                                      # PlainAligned
    L.append([szt(), f32(VARYING, 16), u32()])                                # OneVaryingAligned
    L.append([u32(), szt(), f32(VARYING, 8), szt(), f32(VARYING, 16)])        # TwoVaryingAligned
    L.append([u32(), f32(FIXED, 32)])                                         # OneFixedAligned
    L.append([f32(FIXED, 8), u32(16), f32(FIXED)])                            # TwoFixedAligned
    L.append([f32(FIXED, 32), P(FIXED, TUINT, 4), u32()])                     # TwoFixedAlignedAlt
    L.append([f32(FIXED, 16), u32(), szt(), f32(VARYING, 8)])                 # OneFixedOneVaryingAligned
    L.append([P(FIXED, TTRK, 32), P(PLAIN, TTRK, 32)])                        # std::string lists
    L.append([szt(), P(VARYING, TTRK, 32)])
    # boundary shapes from the case splits of the proofs / defect classes
    L.append([szt(), P(VARYING, TBLOB, 7, 8), P(PLAIN, TBLOB, 7)])            # F7 shape
    L.append([szt(), P(VARYING, TTRK, 3)])                                    # F4 shape
    L.append([P(PLAIN, TU8, 1), u32(4)])                                      # padding inside a memcmp run
    L.append([P(PLAIN, TUINT, 2), P(PLAIN, TUINT, 2)])                        # F16 shape
    L.append([P(PLAIN, TU8, 1), P(VARYING, TU8, 1)])
    L.append([P(PLAIN, TU8, 1), P(VARYING, TU8, 1, 4), P(PLAIN, TU8, 1), P(VARYING, TBYTE, 1)])
    L.append([P(PLAIN, TUINT, 2), P(VARYING, TBLOB, 3, 2), P(FIXED, TBLOB, 5, 4)])
    L.append([P(PLAIN, TBLOB, 3), P(FIXED, TUINT, 2, 2), P(PLAIN, TTRK, 5, 4)])
    L.append([P(PLAIN, TBLOB, 1, 64)])
    L.append([P(FIXED, TBLOB, 3, 1)])
    L.append([P(PLAIN, TUINT, 4, 4), P(VARYING, TBLOB, 6, 4), P(PLAIN, TUINT, 2, 2), P(VARYING, TBLOB, 1, 16), P(FIXED, TBLOB, 2, 8)])
    L.append([P(PLAIN, TUINT, 4, 4), P(VARYING, TTRK, 12, 8), P(FIXED, TBLOB, 1)])
    L.append([P(PLAIN, TBLOB, 5), P(PLAIN, TBLOB, 2, 2), P(PLAIN, TBLOB, 9, 8)])
    # trivially destructible but not trivially movable, and the reverse
    L.append([szt(), P(VARYING, TTRKC, 8, 8), P(PLAIN, TUINT, 4, 4)])
    L.append([P(FIXED, TTRKC, 12, 4), P(PLAIN, TTRKC, 4, 4)])
    L.append([P(PLAIN, TTRKC, 4, 4), P(PLAIN, TBLOB, 4, 4), P(FIXED, TTRK, 8, 8)])
    # only the copy / only the move constructor non-trivial (trivially destructible)
    L.append([P(PLAIN, TUINT, 4, 4), P(FIXED, TTRKCC, 4, 4)])
    L.append([szt(), P(VARYING, TTRKCC, 4, 4), P(PLAIN, TTRKMC, 8, 8)])
    L.append([P(FIXED, TTRKMC, 3), P(PLAIN, TU8, 1)])
    L.append([szt(), P(VARYING, TTRKMC, 8, 8)])
    # trivial for one of the two assignment operators only (copy / move run tables differ)
    L.append([P(PLAIN, TUINT, 4, 4), P(FIXED, TTRKMA, 4, 4), P(PLAIN, TTRKCA, 2)])
    L.append([szt(), P(VARYING, TBLOB, 3), P(PLAIN, TTRKMA, 8, 8), P(PLAIN, TTRKCA, 4, 4)])
    out, seen = [], set()
    for l in L:
        if wf(l) and list_key_(l) not in seen:
            seen.add(list_key_(l))
            out.append(l)
    return out


def list_key_(L):
    return tuple(p.key() for p in L)


FLOAT_SPECIALS = {
    4: [[0, 0, 0, 0], [0, 0, 0, 128], [0, 0, 128, 63], [0, 0, 128, 191], [0, 0, 0, 64], [0, 0, 128, 127], [0, 0, 128, 255],
        [1, 0, 0, 0], [1, 0, 0, 128], [0, 0, 0, 63]],
    8: [[0] * 8, [0] * 7 + [128], [0] * 6 + [240, 63], [0] * 6 + [240, 191], [0] * 7 + [64], [0] * 6 + [240, 127],
        [0] * 6 + [240, 255], [1] + [0] * 7, [1] + [0] * 6 + [128], [0] * 6 + [224, 63]],
}


def is_nan(o):
    v = sum(b << (8 * i) for i, b in enumerate(o)) & ((1 << (8 * len(o) - 1)) - 1)
    return v > {4: 0x7F800000, 8: 0x7FF0000000000000}[len(o)]


def rand_float(rng, size, domain):
    """the object representation of a float / double that is NOT a NaN: +-0, +-1, 2, +-inf,
    +-denormal, .5 - so that +0 == -0 and sign-magnitude ordering are exercised -, or random
    bytes with the top exponent bit cleared"""
    r = rng.random()
    if r < 0.45:
        return list(rng.choice(FLOAT_SPECIALS[size][:2 + 2 * domain]))
    if r < 0.6:
        return list(rng.choice(FLOAT_SPECIALS[size]))
    o = [rng.randrange(256) for _ in range(size)]
    o[-1] &= 0xBF
    return o


def random_param(rng, kind, count_field=False):
    if count_field:
        ty, size = rng.choice(COUNT_TYPES)
    else:
        r = rng.random()
        if r < 0.45:
            ty, size = TBLOB, rng.choice([1, 2, 3, 4, 5, 6, 7, 8, 9, 12, 16, 24])
        elif r < 0.60:
            ty, size = rng.choice([TUINT, TSINT]), rng.choice([2, 4, 8])
        elif r < 0.72:
            ty, size = rng.choice([TU8, TS8, TBYTE]), 1
        elif r < 0.78:
            ty, size = TFLT, rng.choice([4, 8])
        elif r < 0.81:
            ty, size = TSW, rng.choice([1, 2, 3, 4, 8])
        else:
            ty, size = rng.choice([TTRK, TTRK, TTRK, TTRKC, TTRKC, TTRKCC, TTRKMC]), rng.choice([1, 3, 4, 8, 12, 32])
    r = rng.random()
    if r < 0.4:
        al = 1
    else:
        al = rng.choice([1, 2, 4, 8, 16, 32, 64]) if r > 0.9 else rng.choice([2, 4, 8, 16])
    return Param(kind, size, al, ty)


def random_list(rng):
    n = rng.choice([1, 2, 2, 3, 3, 4, 5])
    shape = rng.random()
    L = []
    i = 0
    while len(L) < n:
        if shape < 0.25:
            kind = PLAIN
        elif shape < 0.5:
            kind = rng.choice([PLAIN, FIXED, FIXED])
        else:
            kind = rng.choice([PLAIN, FIXED, VARYING, VARYING])
        if kind == VARYING:
            L.append(random_param(rng, PLAIN, count_field=True))
            L.append(random_param(rng, VARYING))
        else:
            L.append(random_param(rng, kind))
    if nfixed(L) > 6:
        return random_list(rng)
    # a non-trivial type in 1/3 of the lists only (they are slower and noisier)
    if rng.random() < 0.6:
        for p in L:
            if p.ty in (TTRK, TTRKC, TTRKCC, TTRKMC):
                p.ty = TBLOB
    return L if wf(L) else random_list(rng)


AKINDS_ALL = [(a, b, c, d, e) for a in (0, 1) for b in (0, 1) for c in (0, 1) for d in (0, 1) for e in (0, 1)]


def list_key(L):
    return tuple(p.key() for p in L)


def unit_text(L, K):
    ps = ", ".join("P<%d,%d,%d,%d>" % (p.kind, p.ty, p.size, p.align) for p in L)
    k = ",".join("true" if x else "false" for x in K)
    return ('#include "driver.hpp"\nusing namespace vh;\nusing A = LedgerAlloc<std::byte,%s>;\n'
            'int main(int argc, char** argv) { return run_main<A, %s>(argc, argv); }\n' % (k, ps))


def header_text(L, K, statics=()):
    s = "K %d %d %d %d %d\n" % tuple(K)
    for p in L:
        s += "P %d %d %d %d\n" % (p.kind, p.size, p.align, p.ty)
    for st in statics:
        s += st + "\n"
    return s


# ---------------------------------------------------------------- spec machine
def le(v, n):
    return [(v >> (8 * i)) & 255 for i in range(n)]


class SpecVec:
    """A vector as a plain list of tuples plus the documented limits."""

    def __init__(self, L, cap, budget, fixed, aid, K):
        self.L, self.cap, self.budget, self.fixed, self.aid, self.K = L, cap, budget, list(fixed), aid, K
        self.elems = []
        self.null = False          # no memory (default constructed / moved-from)
        sz = esize(L, fixed)
        self.stride = sz[1]
        self.block = units(L, needed(cap, budget, sz)) * SA(L)

    def clone(self):
        c = SpecVec.__new__(SpecVec)
        c.__dict__.update(self.__dict__)
        c.elems = [e for e in self.elems]
        c.fixed = list(self.fixed)
        return c

    def counts(self, tup):
        return [len(f) for f in tup]

    def vbytes(self, tup):
        return sum(len(f) * p.size for f, p in zip(tup, self.L) if p.kind == VARYING)

    def payload(self):
        return sum(self.vbytes(t) for t in self.elems)

    def end_after(self, elems):
        a = 0
        for t in elems:
            a = first_align(self.L, a)
            _, a = place(self.L, self.counts(t), a)
        return a

    def extents(self, elems):
        out, a = [], 0
        for t in elems:
            a = first_align(self.L, a)
            b = a
            _, a = place(self.L, self.counts(t), a)
            out.append((b, a))
        return out

    def erase_overlaps(self, i, j):
        """known finding (C01/C06): on a non-trivially-relocatable VaryingSize list erase
        re-emplaces every following element and destroys its source afterwards; when an
        element is moved by fewer bytes than it is long, target and source overlap"""
        if all_triv(self.L) or not has_varying(self.L):
            return False
        before = self.extents(self.elems)
        after = self.extents(self.elems[:i] + self.elems[j:])
        for k in range(j, len(self.elems)):
            (s0, s1), (t0, t1) = before[k], after[k - (j - i)]
            if s0 - t0 < s1 - s0:
                return True
        return False

    def fits(self, tup, strict_block=True):
        if self.null or len(self.elems) >= self.cap:
            return False
        if self.payload() + self.vbytes(tup) > self.budget:
            return False
        if strict_block and self.end_after(self.elems + [tup]) > self.block:
            return False
        return True


class ScriptGen:
    def __init__(self, L, K, rng, nslots=1, domain=3, allow_overlap=False):
        self.L, self.K, self.rng = L, K, rng
        self.allow_overlap = allow_overlap
        self.lines = []
        self.slots = [None] * 4
        self.domain = domain
        self.stats = {}

    def stat(self, k):
        self.stats[k] = self.stats.get(k, 0) + 1

    # ---- values
    def rand_obj(self, p):
        rng = self.rng
        if p.ty == TFLT:
            return rand_float(rng, p.size, self.domain)
        if rng.random() < 0.7:
            b = rng.randrange(1, 1 + self.domain)
            return [b] * p.size if rng.random() < 0.5 else [rng.randrange(1, 1 + self.domain) for _ in range(p.size)]
        return [rng.randrange(256) for _ in range(p.size)]

    def rand_tuple(self, fixed, maxvar=None, want_bytes=None):
        """one element; VaryingSize counts are random (biased small, sometimes 0)"""
        L, rng = self.L, self.rng
        tup = [None] * len(L)
        for k, p in enumerate(L):
            if p.kind == VARYING:
                hi = 6 if maxvar is None else maxvar
                c = rng.choice([0, 0, 1, 1, 2, 3, hi]) if hi > 0 else 0
                c = min(c, hi, 256 ** min(L[k - 1].size, 8) - 1)
                tup[k] = [self.rand_obj(p) for _ in range(c)]
                tup[k - 1] = [le(c, L[k - 1].size)]
        fi = 0
        for k, p in enumerate(L):
            if p.kind == FIXED:
                tup[k] = [self.rand_obj(p) for _ in range(fixed[fi])]
                fi += 1
            elif p.kind == PLAIN and tup[k] is None:
                tup[k] = [self.rand_obj(p)]
        return tup

    def emplace_line(self, s, tup):
        out = ["emplace", str(s)]
        for f in tup:
            out.append(str(len(f)))
            for o in f:
                out += [str(b) for b in o]
        return " ".join(out)

    # ---- operations (each returns False when not applicable in the current state)
    def op_mkvec(self, s, cap=None, budget=None, fixed=None, aid=None):
        rng, L = self.rng, self.L
        if cap is None:
            cap = rng.choice([0, 1, 2, 3, 4, 5, 8])
        if fixed is None:
            fixed = [rng.choice([0, 1, 1, 2, 3, 5]) for _ in range(nfixed(L))]
        if budget is None:
            budget = 0
            if has_varying(L):
                per = sum(p.size for p in L if p.kind == VARYING)
                budget = rng.choice([0, per, 2 * per * max(cap, 1), 3 * per * max(cap, 1), rng.randrange(0, 64)])
        if aid is None:
            aid = rng.choice([1, 1, 2, 3])
        self.slots[s] = SpecVec(L, cap, budget, fixed, aid, self.K)
        self.lines.append("mkvec %d %d %d %d %d %s" % (s, cap, budget, aid, len(fixed), " ".join(map(str, fixed))))
        self.stat("mkvec")
        return True

    def op_emplace(self, s, strict_block=True):
        v = self.slots[s]
        if v is None or v.null or len(v.elems) >= v.cap:
            return False
        room = v.budget - v.payload()
        per = [p.size for p in self.L if p.kind == VARYING]
        maxvar = (room // max(sum(per), 1)) if per else None
        for _ in range(4):
            tup = self.rand_tuple(v.fixed, maxvar)
            if v.fits(tup, strict_block):
                v.elems.append(tup)
                self.lines.append(self.emplace_line(s, tup))
                self.stat("emplace")
                return True
            maxvar = 0 if maxvar is not None else None
        return False

    def op_emplaceat(self, s, need_slack=True):
        """emplace(position, args...) on a list without VaryingSize parameter; with need_slack the
        vector keeps room for one more element afterwards (the call shifts the elements through
        the bytes behind data_end(): the recorded finding emplace-position-scratch)"""
        v = self.slots[s]
        if v is None or v.null or has_varying(self.L) or len(v.elems) + (2 if need_slack else 1) > v.cap:
            return False
        tup = self.rand_tuple(v.fixed)
        pos = self.rng.choice([0, len(v.elems), self.rng.randrange(0, len(v.elems) + 1)])
        v.elems.insert(pos, tup)
        self.lines.append(self.emplace_line(s, tup).replace("emplace %d" % s, "emplaceat %d %d" % (s, pos), 1))
        self.stat("emplaceat")
        self.stat("emplaceat-%s" % ("begin" if pos == 0 and len(v.elems) > 1 else "end" if pos == len(v.elems) - 1 else "middle"))
        return True

    def op_popback(self, s):
        v = self.slots[s]
        if v is None or v.null or not v.elems:
            return False
        v.elems.pop()
        self.lines.append("popback %d" % s)
        self.stat("popback")
        return True

    def op_erase(self, s):
        v = self.slots[s]
        if v is None or v.null or not v.elems:
            return False
        i = self.rng.randrange(len(v.elems))
        if v.erase_overlaps(i, i + 1):
            if not self.allow_overlap:
                return False
            self.stat("erase-overlap(known finding)")
        del v.elems[i]
        self.lines.append("erase %d %d" % (s, i))
        self.stat("erase")
        return True

    def op_eraserange(self, s):
        v = self.slots[s]
        if v is None or v.null:
            return False
        n = len(v.elems)
        i = self.rng.randrange(n + 1)
        j = self.rng.randrange(i, n + 1)
        if i != j and v.erase_overlaps(i, j):
            if not self.allow_overlap:
                return False
            self.stat("erase-overlap(known finding)")
        del v.elems[i:j]
        self.lines.append("eraserange %d %d %d" % (s, i, j))
        self.stat("eraserange" if i != j else "eraserange-empty")
        return True

    def op_clear(self, s):
        v = self.slots[s]
        if v is None:
            return False
        v.elems = []
        self.lines.append("clear %d" % s)
        self.stat("clear")
        return True

    def op_reserve(self, s, grow=None):
        v = self.slots[s]
        if v is None or v.null:
            return False
        rng = self.rng
        if grow is None:
            grow = rng.random() < 0.7
        if grow:
            n = v.cap + rng.choice([1, 1, 2, 3, 8])
            b = v.payload() + rng.choice([0, 1, 7, 16, 40]) if has_varying(self.L) else 0
            if has_varying(self.L) and rng.random() < 0.3:
                b = max(b, v.budget)
            sz = esize(self.L, v.fixed)
            newblock = units(self.L, (needed(n, b, sz) if has_varying(self.L) else b + sz[1] * n)) * SA(self.L)
            if v.end_after(v.elems) > newblock:
                return False
            v.cap, v.budget, v.block = n, b, newblock
            self.stat("reserve-grow")
        else:
            n = rng.randrange(0, v.cap + 1)
            b = rng.choice([0, 5, 100])
            self.stat("reserve-noop")
        self.lines.append("reserve %d %d %d" % (s, n, b))
        return True

    def op_destroy(self, s):
        if self.slots[s] is None:
            return False
        self.slots[s] = None
        self.lines.append("destroy %d" % s)
        self.stat("destroy")
        return True

    def finish(self):
        for s in range(4):
            if self.slots[s] is not None:
                self.op_destroy(s)
        return self.lines


def gen_history(L, K, rng, nsteps, allow_overlap=False):
    """single-vector history: construction, emplace_back, pop_back, erase, clear, reserve"""
    g = ScriptGen(L, K, rng, allow_overlap=allow_overlap)
    if rng.random() < 0.2:
        g.lines.append("pagemode 2")
        g.stat("fence-pages")
    g.op_mkvec(0)
    ops = [(g.op_emplace, 10), (g.op_popback, 2), (g.op_erase, 3), (g.op_eraserange, 2), (g.op_clear, 1), (g.op_reserve, 3)]
    tot = sum(w for _, w in ops)
    for _ in range(nsteps):
        r = rng.randrange(tot)
        for f, w in ops:
            if r < w:
                if not f(0):
                    # not applicable: try to make room / refill instead
                    (g.op_reserve(0, True) if f == g.op_emplace else g.op_emplace(0))
                break
            r -= w
        if g.stats.get("erase-overlap(known finding)"):
            # the overlapping erase has clobbered live objects (known finding): whatever
            # follows runs on corrupted counts in implementation and model alike
            break
        if rng.random() < 0.1:
            g.lines.append("junk %d" % rng.choice([0, 85, 170, 255]))
    return g.finish(), g.stats


def gen_emplace_at(L, K, rng, nsteps, noslack=False):
    """single-vector history with emplace(position, ...) among the other operations, on a list
    without VaryingSize parameter and with trivially relocatable types.  noslack: the history
    ENDS in an emplace(position) that fills the vector (known finding emplace-position-scratch)"""
    g = ScriptGen(L, K, rng)
    if rng.random() < 0.4:
        g.lines.append("pagemode 2")
        g.stat("fence-pages")
    g.op_mkvec(0, cap=rng.choice([2, 3, 4, 5, 8]))
    ops = [(g.op_emplace, 6), (g.op_emplaceat, 8), (g.op_popback, 2), (g.op_erase, 2), (g.op_eraserange, 1), (g.op_clear, 1), (g.op_reserve, 2)]
    tot = sum(w for _, w in ops)
    for _ in range(nsteps):
        r = rng.randrange(tot)
        for f, w in ops:
            if r < w:
                if not f(0):
                    (g.op_reserve(0, True) if f in (g.op_emplace, g.op_emplaceat) else g.op_emplace(0))
                break
            r -= w
        if rng.random() < 0.1:
            g.lines.append("junk %d" % rng.choice([0, 85, 170, 255]))
    if noslack:
        v = g.slots[0]
        while len(v.elems) + 1 < v.cap:
            g.op_emplace(0)
        if len(v.elems) + 1 != v.cap or not g.op_emplaceat(0, need_slack=False):
            return None
        g.stat("emplaceat-noslack(known finding)")
    return g.finish(), g.stats


def gen_overlap_erase(L, K, rng, tries=12):
    """a history on a non-trivially-relocatable VaryingSize list that ENDS in an erase which
    moves an element forward by fewer bytes than it is long (the recorded C01/C06 finding:
    contents are clobbered there).  What such an erase does to the allocator, the block and the
    elements in front is still specified (C16, C07): the scripts are judged by the oracle alone"""
    if all_triv(L) or not has_varying(L):
        return None
    for _ in range(tries):
        lines, st = gen_history(L, K, rng, rng.randrange(8, 30), allow_overlap=True)
        if st.get("erase-overlap(known finding)"):
            st = dict(st)
            st["overlap-erase-oracle-only"] = 1
            return lines, st
    return None


def gen_fill(L, K, rng, strict_block, via_reserve=False):
    """fill a vector to its documented limits: N elements, B bytes of varying payload
    distributed adversarially; with strict_block=False only the DOCUMENTED preconditions
    are respected (C02)"""
    g = ScriptGen(L, K, rng)
    cap = rng.choice([1, 2, 3, 4, 6])
    fixed = [rng.choice([0, 1, 2, 3, 4, 7]) for _ in range(nfixed(L))]
    per = [p.size for p in L if p.kind == VARYING]
    budget = 0
    plan = []
    if per:
        # choose counts first, budget = exactly what they need
        for _ in range(cap):
            tup = g.rand_tuple(fixed, rng.choice([0, 1, 2, 3, 5, 9]))
            plan.append(tup)
        budget = sum(sum(len(f) * p.size for f, p in zip(t, L) if p.kind == VARYING) for t in plan)
    else:
        plan = [g.rand_tuple(fixed) for _ in range(cap)]
    if via_reserve:
        # construct smaller (possibly with some elements), then reserve(n, b) and fill to the
        # limits that reserve promised
        c0 = rng.randrange(0, cap)
        pre = plan[:rng.randrange(0, c0 + 1)]
        b0 = sum(sum(len(f) * p.size for f, p in zip(t, L) if p.kind == VARYING) for t in pre)
        g.op_mkvec(0, c0, b0, fixed)
        v = g.slots[0]
        for tup in pre:
            if v.fits(tup, True):
                v.elems.append(tup)
                g.lines.append(g.emplace_line(0, tup))
        plan = plan[len(v.elems):] if len(v.elems) == len(pre) else []
        sz = esize(L, fixed)
        v.cap, v.budget = cap, budget
        v.block = units(L, (needed(cap, budget, sz) if has_varying(L) else budget + sz[1] * cap)) * SA(L)
        g.lines.append("reserve 0 %d %d" % (cap, budget))
        g.stat("reserve-grow")
    else:
        g.op_mkvec(0, cap, budget, fixed)
    v = g.slots[0]
    for tup in plan:
        if v.fits(tup, strict_block):
            v.elems.append(tup)
            g.lines.append(g.emplace_line(0, tup))
            g.stat("emplace")
    return g.finish(), g.stats


def script_id(lines):
    return hashlib.sha1("\n".join(lines).encode()).hexdigest()[:10]


# ---------------------------------------------------------------- special members
def gen_special(L, K, rng, nsteps):
    """several vectors, allocator identities, copy/move construction and assignment, swap,
    interleaved with ordinary operations; both operands are observed after every step"""
    g = ScriptGen(L, K, rng)
    g.moved = [False] * 4

    def live():
        return [s for s in range(4) if g.slots[s] is not None]

    def usable():
        return [s for s in live() if not g.slots[s].null]

    def mk(s):
        if rng.random() < 0.12:
            g.lines.append("default %d" % s)
            v = SpecVec(L, 0, 0, [0] * nfixed(L), 0, K)
            v.null = True
            v.block = 0
            g.slots[s] = v
            g.stat("default")
        else:
            g.op_mkvec(s, aid=rng.choice([1, 1, 2, 3]))

    def alloc_eq(a, b):
        return bool(K[3]) or a == b

    def pick2(xs):
        """two operands: different ones nine times out of ten (self-assignment / self-swap stay covered)"""
        a = rng.choice(xs)
        others = [x for x in xs if x != a]
        return (a, rng.choice(others)) if others and rng.random() < 0.9 else (a, a)

    mk(0)
    for _ in range(nsteps):
        r = rng.random()
        free = [s for s in range(4) if g.slots[s] is None]
        lv = live()
        if r < 0.12 and free:
            mk(rng.choice(free))
        elif r < 0.40 and usable():
            s = rng.choice(usable())
            if not g.op_emplace(s):
                g.op_reserve(s, True)
        elif r < 0.46 and usable():
            s = rng.choice(usable())
            rng.choice([g.op_popback, g.op_erase, g.op_clear, g.op_eraserange])(s)
        elif r < 0.52 and usable():
            g.op_reserve(rng.choice(usable()))
        elif r < 0.62 and free and lv:
            # copy construction (not from a moved-from vector)
            src = rng.choice(lv)
            if g.moved[src]:
                continue
            d = rng.choice(free)
            v = g.slots[src].clone()
            v.aid = v.aid + 100 if K[4] else v.aid
            if v.null:
                v.null = False      # owns a (zero-sized) block now
                v.block = 0
            g.slots[d] = v
            g.moved[d] = False
            g.lines.append("copyctor %d %d" % (d, src))
            g.stat("copyctor")
        elif r < 0.72 and len(lv) >= 1:
            d, src = pick2(lv)
            if g.moved[src] and d != src:
                continue
            if d != src:
                dv, sv = g.slots[d], g.slots[src]
                v = sv.clone()
                v.aid = sv.aid if K[0] else dv.aid
                # copy assignment always allocates a block of the source's size (allocate first, then destroy)
                v.null = False
                g.slots[d] = v
                g.moved[d] = False
                g.stat("copyassign" + ("-grow" if v.block != dv.block else "-reuse"))
            else:
                g.stat("copyassign-self")
            g.lines.append("copyassign %d %d" % (d, src))
        elif r < 0.80 and free and lv:
            src, d = rng.choice(lv), rng.choice(free)
            g.slots[d] = g.slots[src].clone()
            g.moved[d] = g.moved[src]
            m = SpecVec(L, 0, 0, [0] * nfixed(L), g.slots[src].aid, K)
            m.null = True
            m.block = 0
            g.slots[src] = m
            g.moved[src] = True
            g.lines.append("movector %d %d" % (d, src))
            g.stat("movector")
        elif r < 0.90 and lv:
            d, src = pick2(lv)
            if d != src:
                dv, sv = g.slots[d], g.slots[src]
                if K[3] or K[1] or dv.aid == sv.aid:
                    v = sv.clone()
                    v.aid = sv.aid if K[1] else dv.aid
                    g.slots[d] = v
                    g.moved[d] = g.moved[src]
                    m = SpecVec(L, 0, 0, [0] * nfixed(L), sv.aid, K)
                    m.null = True
                    m.block = 0
                    g.slots[src] = m
                    g.moved[src] = True
                    g.stat("moveassign-steal")
                else:
                    if g.moved[src] or sv.null:
                        continue
                    # element-wise: the source keeps its (moved-from) elements; with trivially
                    # copyable types their values are unchanged, otherwise unspecified: the
                    # source is only destroyed / cleared / assigned to afterwards
                    v = sv.clone()
                    v.aid = dv.aid
                    if not dv.null and dv.block >= sv.block:
                        v.block = dv.block
                    else:
                        # recorded finding move-assign-units (C05): the new block is requested as
                        # memory_consumption() UNITS - SA times the source's bytes
                        v.block = sv.block * SA(L)
                    v.null = False
                    g.slots[d] = v
                    g.moved[d] = False
                    if not all_triv(L):
                        g.moved[src] = "elems"
                    g.stat("moveassign-elementwise")
            else:
                g.stat("moveassign-self")
            g.lines.append("moveassign %d %d" % (d, src))
        elif r < 0.96 and lv:
            a, b = pick2(lv)
            if a != b:
                x, y = g.slots[a], g.slots[b]
                if not K[2] and not alloc_eq(x.aid, y.aid):
                    continue
                nx, ny = y.clone(), x.clone()
                if not K[2]:
                    nx.aid, ny.aid = x.aid, y.aid
                g.slots[a], g.slots[b] = nx, ny
                g.moved[a], g.moved[b] = g.moved[b], g.moved[a]
            g.lines.append("swap %d %d" % (a, b))
            g.stat("swap")
        elif lv:
            s = rng.choice(lv)
            g.op_destroy(s)
            g.moved[s] = False
        if rng.random() < 0.08:
            g.lines.append("junk %d" % rng.choice([0, 85, 170, 255]))
        if any(v is not None and v.block > (1 << 20) for v in g.slots):
            # a chain of element-wise move assignments multiplies the footprint by the storage
            # alignment each time (that finding): 5 bytes become gigabytes after five of them on
            # a 64-aligned list, and every later copy carries the size along.  The script ends
            # here - what the growth means for C05 is judged where it happens
            g.stat("footprint-explosion-stop")
            break
    return g.finish(), g.stats


# ---------------------------------------------------------------- empty states (C18)
def gen_empty(L, K, rng):
    """vectors that are default-constructed, have capacity 0, never held an element, or were
    emptied by pop_back / erase / clear; then every operation C18 names, then reserve +
    emplace_back so that they must behave like any other vector"""
    g = ScriptGen(L, K, rng)
    g.lines.append("junk %d" % rng.choice([0, 85, 170, 255]))
    how = rng.choice(["default", "cap0", "fresh", "popped", "erased", "cleared", "range-erased"])
    g.stat("empty-by-" + how)
    if how == "default":
        g.lines.append("default 0")
        v = SpecVec(L, 0, 0, [0] * nfixed(L), 0, K)
        v.null = True
        v.block = 0
        g.slots[0] = v
    elif how == "cap0":
        g.op_mkvec(0, cap=0, budget=rng.choice([0, 0, 16]) if has_varying(L) else 0)
    else:
        g.op_mkvec(0, cap=rng.choice([1, 2, 4]))
        if how != "fresh":
            n = 0
            for _ in range(rng.choice([1, 1, 2, 3])):
                n += 1 if g.op_emplace(0) else 0
            if how == "popped":
                for _ in range(n):
                    g.op_popback(0)
            elif how == "erased":
                for _ in range(n):
                    v = g.slots[0]
                    if v.elems and not v.erase_overlaps(0, 1):
                        del v.elems[0]
                        g.lines.append("erase 0 0")
                    elif v.elems:
                        g.op_popback(0)
            elif how == "cleared":
                g.op_clear(0)
            else:
                v = g.slots[0]
                g.lines.append("eraserange 0 0 %d" % len(v.elems))
                v.elems = []
    v = g.slots[0]
    # operations on the empty vector
    for _ in range(rng.randrange(1, 6)):
        r = rng.random()
        if r < 0.2:
            g.lines.append("clear 0")
        elif r < 0.4:
            g.lines.append("eraserange 0 0 0")
        elif r < 0.55 and g.slots[1] is None:
            c = v.clone()
            c.aid = c.aid + 100 if K[4] else c.aid
            if c.null:
                c.null = False
                c.block = 0
            g.slots[1] = c
            g.lines.append("copyctor 1 0")
        elif r < 0.65:
            g.lines.append("swap 0 0")
        elif r < 0.75:
            g.lines.append("reserve 0 0 0")
        elif r < 0.85:
            g.lines.append("observe 0")
        else:
            g.lines.append("junk %d" % rng.choice([0, 85, 170, 255]))
    # comparing the empty vector with other EMPTY vectors: of another capacity, with other fixed
    # sizes, default-constructed (seeded change C18g)
    if rng.random() < 0.5 and g.slots[3] is None:
        if rng.random() < 0.3:
            g.lines.append("default 3")
            w = SpecVec(L, 0, 0, [0] * nfixed(L), 0, K)
            w.null = True
            w.block = 0
            g.slots[3] = w
        else:
            g.op_mkvec(3, cap=rng.choice([0, 1, 3]), fixed=[rng.choice([0, 1, 2, 3, 4, 7]) for _ in range(nfixed(L))])
        g.lines.append("cmpvec 0 3")
        g.lines.append("cmpvec 3 0")
        g.stat("compare-two-empty-vectors")
        # ... and swapping them: each is the other afterwards, fixed sizes included, and goes on
        # as such (seeded change C18j: swap left the fixed sizes behind)
        s0, s3 = g.slots[0], g.slots[3]
        if (K[2] or K[3] or s0.aid == s3.aid) and rng.random() < 0.7:
            a0, a3 = s0.aid, s3.aid
            g.slots[0], g.slots[3] = s3, s0
            if not K[2]:
                g.slots[0].aid, g.slots[3].aid = a0, a3
            g.lines.append("swap 0 3")
            g.stat("swap-two-empty-vectors")
    # copying the empty vector over another vector - of the same or another capacity, with other
    # fixed sizes and byte budget, holding elements or not (seeded change C18d)
    if rng.random() < 0.5:
        sv = g.slots[0]
        g.op_mkvec(2, cap=sv.cap if rng.random() < 0.6 else None,
                   fixed=[rng.choice([0, 1, 2, 3, 4, 7]) for _ in range(nfixed(L))])
        for _ in range(rng.choice([0, 0, 1, 2])):
            g.op_emplace(2)
        dv = g.slots[2]
        c = sv.clone()
        c.aid = sv.aid if K[0] else dv.aid
        c.null = False
        g.slots[2] = c
        g.lines.append("copyassign 2 0")
        g.stat("copyassign-from-empty" + ("-same-capacity" if dv.cap == sv.cap else ""))
    # ... and then it behaves like any other vector
    for s in (0, 1, 2, 3):
        v = g.slots[s]
        if v is None:
            continue
        n = rng.choice([1, 2, 3, 5])
        sz = esize(L, v.fixed)
        per = sum(p.size for p in L if p.kind == VARYING)
        b = per * n * rng.choice([0, 1, 3]) if per else 0
        # reserve(n, b) does something only when n EXCEEDS the capacity (C10): with n == capacity
        # the block stays what it was, whatever b is
        grows = n > v.cap
        v.cap, v.budget, v.null = max(v.cap, n) if grows else v.cap, b if grows else v.budget, False if grows else v.null
        if grows:
            v.block = units(L, (needed(n, b, sz) if has_varying(L) else b + sz[1] * n)) * SA(L)
        g.lines.append("reserve %d %d %d" % (s, n, b))
        if v.null:
            continue
        for _ in range(n):
            g.op_emplace(s)
        if rng.random() < 0.5:
            g.op_erase(s)
        if rng.random() < 0.5:
            g.op_clear(s)
            g.op_emplace(s)
    return g.finish(), g.stats


# ---------------------------------------------------------------- comparisons (C13, C14)
def mutate_tuple(g, L, tup, fixed, rng):
    """a tuple related to `tup`: equal, differing in one object, or with a VaryingSize field
    that is a strict prefix / extension of the original (count field kept consistent)"""
    t = [[list(o) for o in f] for f in tup]
    r = rng.random()
    if r < 0.35:
        return t
    k = rng.randrange(len(L))
    p = L[k]
    if p.kind == VARYING and r < 0.7:
        f = t[k]
        if f and rng.random() < 0.5:
            f.pop()
        elif len(f) + 1 < 256 ** min(L[k - 1].size, 8):
            f.append(g.rand_obj(p))
        t[k - 1] = [le(len(f), L[k - 1].size)]
        return t
    if p.kind == PLAIN and k + 1 < len(L) and L[k + 1].kind == VARYING:
        k += 1          # do not edit a count field on its own
        p = L[k]
    if t[k]:
        j = rng.randrange(len(t[k]))
        o = t[k][j]
        b = rng.randrange(len(o))
        o[b] = (o[b] + rng.choice([1, 1, 2, 255, 128])) % 256
        if p.ty == TFLT and is_nan(o):
            o[-1] &= 0xBF          # NaN is outside the domain of C13 / C14 (== must be reflexive)
    return t


def resplit_elements(L, tuples, fixed, rng):
    """other fixed sizes with the same number of bytes per element, and the tuples' bytes cut
    into fields of those sizes (plain fields keep one object); None when there is no other
    distribution"""
    fx = [k for k, p in enumerate(L) if p.kind == FIXED]
    total = sum(fixed[n] * L[k].size for n, k in enumerate(fx))
    for _ in range(20):
        cand = [rng.choice([0, 1, 2, 3, 4]) for _ in fx]
        if cand != list(fixed) and sum(c * L[k].size for c, k in zip(cand, fx)) == total:
            break
    else:
        return None
    out = []
    for t in tuples:
        flat = [b for f in t for o in f for b in o]
        nt, pos, fi = [], 0, 0
        for p in L:
            cnt = 1
            if p.kind == FIXED:
                cnt = cand[fi]
                fi += 1
            nt.append([flat[pos + q * p.size: pos + (q + 1) * p.size] for q in range(cnt)])
            pos += cnt * p.size
        if pos != len(flat):
            return None
        for f, p in zip(nt, L):
            if p.ty == TFLT:
                for o in f:
                    if is_nan(o):
                        o[-1] &= 0xBF
        out.append(nt)
    return cand, out


def gen_compare(L, K, rng):
    """two or three vectors with related contents (equal / one field differs / strict prefix /
    empty / different fixed sizes), built under different junk fills, capacities and
    allocators; then every operator on every pair of vectors and on pairs of elements"""
    g = ScriptGen(L, K, rng, domain=rng.choice([2, 3]))
    if rng.random() < 0.4:
        # every block flush against an inaccessible page: a comparison that READS behind the
        # smaller operand's block faults (seeded change C02h)
        g.lines.append("pagemode 2")
        g.stat("fence-pages")
    nf = nfixed(L)
    fixed0 = [rng.choice([0, 1, 2, 2, 3]) for _ in range(nf)]
    if nf == len(L) and rng.random() < 0.2:
        fixed0 = [0] * nf          # elements of zero bytes: only their number distinguishes vectors
        g.stat("cmp-zero-byte-elements")
    nv = rng.choice([2, 2, 3])
    base = []
    for s in range(nv):
        g.lines.append("junk %d" % rng.choice([0, 85, 170, 255, 1, 2, 3]))
        fixed = list(fixed0)
        if s and nf and rng.random() < 0.2:
            fixed[rng.randrange(nf)] = rng.choice([0, 1, 2, 3, 4])
            g.stat("cmp-different-fixed-sizes")
        how = rng.choice(["same", "same", "mutated", "prefix", "longer", "empty", "fresh"]) if s else "fresh"
        resplit = None
        if s and base and nf >= 2 and not has_varying(L) and fixed == fixed0 and rng.random() < 0.3:
            # the SAME bytes cut into fields of other sizes: another distribution of the fixed sizes
            # with the same number of bytes per element (seeded change C13g: equal concatenated
            # bytes must not make elements with different field sizes compare equal)
            resplit = resplit_elements(L, base, fixed0, rng)
        if resplit is not None:
            fixed, how = resplit[0], "resplit"
        g.stat("cmp-operand-" + how)
        n = rng.choice([1, 2, 3, 4])
        if how == "resplit":
            tuples = resplit[1]
        elif how == "empty":
            tuples = []
        elif how == "fresh" or fixed != fixed0 or not base:
            tuples = [g.rand_tuple(fixed, 3) for _ in range(n)]
        else:
            tuples = [[[list(o) for o in f] for f in t] for t in base]
            if how == "mutated" and tuples:
                i = rng.randrange(len(tuples))
                tuples[i] = mutate_tuple(g, L, tuples[i], fixed, rng)
            elif how == "prefix" and tuples:
                tuples = tuples[:rng.randrange(len(tuples))]
            elif how == "longer":
                tuples = tuples + [g.rand_tuple(fixed, 3)]
        if s == 0:
            base = tuples
        cap = len(tuples) + rng.choice([0, 0, 1, 3])
        pay = sum(sum(len(f) * p.size for f, p in zip(t, L) if p.kind == VARYING) for t in tuples)
        # budget generous enough for the layout to fit whatever the order of sizes
        g.op_mkvec(s, cap=cap, budget=(pay + rng.choice([0, 0, 8, 40])) if has_varying(L) else 0, fixed=fixed, aid=rng.choice([1, 2]))
        v = g.slots[s]
        # leave stale bytes behind: emplace and remove something first
        if rng.random() < 0.3 and cap > 0:
            if g.op_emplace(s):
                rng.choice([g.op_popback, g.op_clear])(s)
        for t in tuples:
            if v.fits(t, True):
                v.elems.append(t)
                g.lines.append(g.emplace_line(s, t))
                g.stat("emplace")
        if rng.random() < 0.15 and v.elems and not v.erase_overlaps(0, 1):
            del v.elems[0]
            g.lines.append("erase %d 0" % s)
    if rng.random() < 0.1:
        g.lines.append("default 3")
        d = SpecVec(L, 0, 0, [0] * nf, 0, K)
        d.null = True
        d.block = 0
        g.slots[3] = d
    live = [s for s in range(4) if g.slots[s] is not None]
    for a in live:
        for b in live:
            g.lines.append("cmpvec %d %d" % (a, b))
            g.stat("cmpvec")
    pairs = [(a, i, b, j) for a in live for b in live for i in range(len(g.slots[a].elems)) for j in range(len(g.slots[b].elems))]
    rng.shuffle(pairs)
    # the pairs a lexicographical comparison of two vectors looks at come first
    aligned = [q for q in pairs if q[1] == q[3] and q[0] != q[2]]
    pairs = aligned + [q for q in pairs if q not in set(aligned)][:16]
    for a, i, b, j in pairs:
        g.lines.append("cmpref %d %d %d %d" % (a, i, b, j))
        g.stat("cmpref")
    return g.finish(), g.stats


# ---------------------------------------------------------------- references, iterators, algorithms (C11)
def can_assign(L):
    return all(p.kind != VARYING or p.ty not in (TTRK, TTRKMA, TTRKCA) for p in L)


def can_swap(L):
    return all(p.kind != VARYING or p.ty not in (TTRK, TTRKC, TBYTE, TTRKMA, TTRKMC, TSW) for p in L)


def gen_proxy(L, K, rng):
    """one or two vectors whose elements all have the same field sizes; reference assignment
    (copy from const / lvalue references, move from rvalue references, through iterators),
    swap / iter_swap, writes through every access path, iterator arithmetic, rotate / reverse
    / swap_ranges, interleaved with the ordinary operations"""
    g = ScriptGen(L, K, rng, domain=3)
    nf = nfixed(L)
    fixed = [rng.choice([0, 1, 2, 3]) for _ in range(nf)]
    vcounts = {k: rng.choice([0, 1, 2, 3]) for k, p in enumerate(L) if p.kind == VARYING}
    per = sum(vcounts[k] * L[k].size for k in vcounts)

    def tup():
        t = g.rand_tuple(fixed, 0)
        for k, c in vcounts.items():
            t[k] = [g.rand_obj(L[k]) for _ in range(c)]
            t[k - 1] = [le(c, L[k - 1].size)]
        return t

    nv = rng.choice([1, 2, 2])
    for s in range(nv):
        if rng.random() < 0.3:
            g.lines.append("junk %d" % rng.choice([0, 85, 170, 255]))
        n = rng.choice([2, 3, 4, 5, 6])
        g.op_mkvec(s, cap=n + rng.choice([0, 1, 2]), budget=per * (n + 2) if has_varying(L) else 0, fixed=fixed, aid=rng.choice([1, 2]))
        for _ in range(n):
            t = tup()
            v = g.slots[s]
            if v.fits(t, True):
                v.elems.append(t)
                g.lines.append(g.emplace_line(s, t))
    live = [s for s in range(nv) if g.slots[s].elems]
    if not live:
        return g.finish(), g.stats
    ca, cs = can_assign(L), can_swap(L)
    for _ in range(rng.randrange(6, 22)):
        r = rng.random()
        a, b = rng.choice(live), rng.choice(live)
        na, nb = len(g.slots[a].elems), len(g.slots[b].elems)
        if r < 0.22 and ca:
            i, j = rng.randrange(na), rng.randrange(nb)
            if a == b and rng.random() < 0.1:
                j = i
            form = rng.choice([0, 1, 2, 2, 3])
            src = g.slots[b].elems[j]
            g.slots[a].elems[i] = [[list(o) for o in f] for f in src]
            if form == 2 and not (a == b and i == j):
                g.slots[b].elems[j] = [[[238] * p.size for _ in f] if p.ty in (TTRK, TTRKMA) else f for f, p in zip(src, L)]
            g.lines.append("refassign %d %d %d %d %d" % (a, i, b, j, form))
            g.stat("refassign-" + ["const", "lvalue", "move", "iterator"][form] + ("-self" if a == b and i == j else ""))
        elif r < 0.40 and cs:
            i, j = rng.randrange(na), rng.randrange(nb)
            x, y = g.slots[a].elems[i], g.slots[b].elems[j]
            g.slots[a].elems[i], g.slots[b].elems[j] = y, x
            g.lines.append("refswap %d %d %d %d %d" % (a, i, b, j, rng.choice([0, 1, 2, 3])))
            g.stat("refswap" + ("-self" if a == b and i == j else ""))
        elif r < 0.58:
            i = rng.randrange(na)
            ks = [k for k, p in enumerate(L) if p.ty not in (TTRK, TTRKMA, TTRKCA) and g.slots[a].elems[i][k] and
                  not (p.kind == PLAIN and k + 1 < len(L) and L[k + 1].kind == VARYING)]
            if not ks:
                continue
            k = rng.choice(ks)
            o = rng.randrange(len(g.slots[a].elems[i][k]))
            val = g.rand_obj(L[k])
            g.slots[a].elems[i][k][o] = val
            path = rng.randrange(6)
            g.lines.append("write %d %d %d %d %d %s" % (a, i, k, o, path, " ".join(map(str, val))))
            g.stat("write-path%d" % path)
        elif r < 0.72:
            g.lines.append("iter %d %d %d" % (a, rng.randrange(na + 1), rng.randrange(na + 1)))
            g.stat("iter")
        elif r < 0.90 and ca and cs:
            kind = rng.choice([0, 0, 1, 2])
            es = g.slots[a].elems
            if kind == 0:
                if na >= 2 and rng.random() < 0.85:
                    lo = rng.randrange(na - 1)
                    hi = rng.randrange(lo + 2, na + 1)
                    mid = rng.randrange(lo + 1, hi)
                else:
                    lo = rng.randrange(na + 1)
                    hi = rng.randrange(lo, na + 1)
                    mid = rng.randrange(lo, hi + 1)
                es[lo:hi] = es[mid:hi] + es[lo:mid]
                g.lines.append("algo 0 %d %d %d %d %d" % (a, lo, mid, hi, a))
                g.stat("rotate" + ("-trivial" if mid in (lo, hi) else ""))
            elif kind == 1:
                lo = rng.randrange(na + 1)
                hi = rng.randrange(lo, na + 1)
                es[lo:hi] = es[lo:hi][::-1]
                g.lines.append("algo 1 %d %d %d %d %d" % (a, lo, lo, hi, a))
                g.stat("reverse")
            else:
                lo = rng.randrange(na + 1)
                hi = rng.randrange(lo, na + 1)
                n = hi - lo
                if a == b:
                    if hi + n > na:
                        continue
                    c = rng.randrange(hi, na - n + 1)
                else:
                    if n > nb:
                        continue
                    c = rng.randrange(0, nb - n + 1)
                x, y = es[lo:hi], g.slots[b].elems[c:c + n]
                es[lo:hi] = y
                g.slots[b].elems[c:c + n] = x
                g.lines.append("algo 2 %d %d %d %d %d" % (a, lo, hi, c, b))
                g.stat("swap_ranges" + ("-same-vector" if a == b else ""))
        elif r < 0.95:
            i = rng.randrange(na)
            g.lines.append("cmpref %d %d %d %d" % (a, i, b, rng.randrange(nb)))
            g.stat("cmpref")
        else:
            v = g.slots[a]
            if len(v.elems) < v.cap:
                t = tup()
                if v.fits(t, True):
                    v.elems.append(t)
                    g.lines.append(g.emplace_line(a, t))
                    g.stat("emplace")
    return g.finish(), g.stats


# ---------------------------------------------------------------- elements (C12)
def gen_elem(L, K, rng, moved_targets=False):
    """vectors plus up to four ContiguousElement slots: construction from const / lvalue /
    rvalue references with and without allocator, copy / move (also allocator-extended),
    copy / move assignment between elements of different varying sizes and allocators, swap,
    element = reference, reference = element, comparisons, then mutation of one side to
    show independence"""
    g = ScriptGen(L, K, rng, domain=3)
    nf = nfixed(L)
    fixed = [rng.choice([0, 1, 2, 3]) for _ in range(nf)]
    ca = can_assign(L)
    nv = rng.choice([1, 2])
    for s in range(nv):
        if rng.random() < 0.4:
            g.lines.append("junk %d" % rng.choice([0, 85, 170, 255]))
        n = rng.choice([2, 3, 4])
        per = sum(p.size for p in L if p.kind == VARYING)
        g.op_mkvec(s, cap=n + 1, budget=per * 4 * (n + 1) if has_varying(L) else 0, fixed=fixed, aid=rng.choice([1, 2]))
        for _ in range(n):
            g.op_emplace(s)
    vs = [s for s in range(nv) if g.slots[s].elems]
    if not vs:
        return g.finish(), g.stats
    E = [None] * 4          # dict(t, aid, null)
    shape = lambda t: [len(f) for f in t]
    scrib = lambda t, ctor=False: [[[238] * p.size for _ in f] if p.ty in ((TTRK, TTRKC, TTRKMC) if ctor else (TTRK, TTRKMA)) else f for f, p in zip(t, L)]
    aeq = lambda a, b: bool(K[3]) or a == b
    fixed_path = not has_varying(L) and (not K[0] or K[3])

    def live():
        return [e for e in range(4) if E[e] is not None and not E[e]["null"]]

    for _ in range(rng.randrange(8, 26)):
        r = rng.random()
        free = [e for e in range(4) if E[e] is None]
        lv = live()
        if r < 0.22 and free:
            e, s = rng.choice(free), rng.choice(vs)
            i = rng.randrange(len(g.slots[s].elems))
            form = rng.choice([0, 1, 2])
            aid = rng.choice([-1, 1, 2, 3])
            t = g.slots[s].elems[i]
            E[e] = {"t": [[list(o) for o in f] for f in t], "aid": max(aid, 0), "null": False}
            if form == 2:
                g.slots[s].elems[i] = scrib(t, True)
            g.lines.append("efromref %d %d %d %d %d" % (e, s, i, form, aid))
            g.stat("efromref-" + ["const", "lvalue", "move"][form] + ("-default-alloc" if aid < 0 else ""))
        elif r < 0.30 and free and lv:
            d, s = rng.choice(free), rng.choice(lv)
            if rng.random() < 0.5:
                E[d] = {"t": E[s]["t"], "aid": E[s]["aid"] + 100 if K[4] else E[s]["aid"], "null": False}
                g.lines.append("ecopy %d %d" % (d, s))
                g.stat("ecopy")
            else:
                aid = rng.choice([1, 2, 3])
                E[d] = {"t": E[s]["t"], "aid": aid, "null": False}
                g.lines.append("ecopyalloc %d %d %d" % (d, s, aid))
                g.stat("ecopyalloc")
        elif r < 0.38 and free and lv:
            d, s = rng.choice(free), rng.choice(lv)
            if rng.random() < 0.5:
                E[d] = E[s]
                E[s] = {"t": None, "aid": E[d]["aid"], "null": True}
                g.lines.append("emove %d %d" % (d, s))
                g.stat("emove")
            else:
                aid = rng.choice([1, 2, 3])
                if K[3] or aid == E[s]["aid"]:
                    E[d] = E[s]
                    E[s] = {"t": None, "aid": E[d]["aid"], "null": True}
                    g.stat("emovealloc-steal")
                else:
                    E[d] = {"t": E[s]["t"], "aid": aid, "null": False}
                    E[s] = {"t": scrib(E[s]["t"], True), "aid": E[s]["aid"], "null": False}
                    g.stat("emovealloc-elementwise")
                g.lines.append("emovealloc %d %d %d" % (d, s, aid))
        elif r < 0.52 and lv:
            s = rng.choice(lv)
            cands = [e for e in range(4) if E[e] is not None and (not E[e]["null"] or moved_targets)]
            d = rng.choice([e for e in cands if e != s] or cands) if rng.random() < 0.9 else s
            if d != s:
                if fixed_path and not E[d]["null"] and (shape(E[d]["t"]) != shape(E[s]["t"]) or not ca):
                    continue
                size_rel = "into-moved-from" if E[d]["null"] else "same-size" if shape(E[d]["t"]) == shape(E[s]["t"]) else "different-size"
                E[d] = {"t": E[s]["t"], "aid": E[s]["aid"] if K[0] else E[d]["aid"], "null": False}
                g.stat("ecopyassign-" + ("fieldwise-" if fixed_path else "realloc-") + size_rel)
            else:
                g.stat("ecopyassign-self")
            g.lines.append("ecopyassign %d %d" % (d, s))
        elif r < 0.66 and lv:
            s = rng.choice(lv)
            cands = [e for e in range(4) if E[e] is not None and (not E[e]["null"] or moved_targets)]
            d = rng.choice([e for e in cands if e != s] or cands) if rng.random() < 0.9 else s
            if d != s:
                if K[3] or K[1] or E[d]["aid"] == E[s]["aid"]:
                    E[d] = {"t": E[s]["t"], "aid": E[s]["aid"] if K[1] else E[d]["aid"], "null": False}
                    E[s] = {"t": None, "aid": E[s]["aid"], "null": True}
                    g.stat("emoveassign-steal")
                else:
                    if not has_varying(L) and not E[d]["null"] and (shape(E[d]["t"]) != shape(E[s]["t"]) or not ca):
                        continue
                    g.stat("emoveassign-elementwise-" + ("into-moved-from" if E[d]["null"] else
                           "same-size" if shape(E[d]["t"]) == shape(E[s]["t"]) else "different-size"))
                    was_null = E[d]["null"]
                    E[d] = {"t": E[s]["t"], "aid": E[d]["aid"], "null": False}
                    E[s] = {"t": scrib(E[s]["t"], has_varying(L) or was_null), "aid": E[s]["aid"], "null": False}
            else:
                g.stat("emoveassign-self")
            g.lines.append("emoveassign %d %d" % (d, s))
        elif r < 0.72:
            cands = [e for e in range(4) if E[e] is not None]
            if len(cands) < 1:
                continue
            a, b = rng.choice(cands), rng.choice(cands)
            if a != b:
                if not K[2] and not aeq(E[a]["aid"], E[b]["aid"]):
                    continue
                x, y = dict(E[b]), dict(E[a])
                if not K[2]:
                    x["aid"], y["aid"] = E[a]["aid"], E[b]["aid"]
                E[a], E[b] = x, y
            g.lines.append("eswap %d %d" % (a, b))
            g.stat("eswap")
        elif r < 0.80 and lv and ca:
            e, s = rng.choice(lv), rng.choice(vs)
            idx = [i for i, t in enumerate(g.slots[s].elems) if shape(t) == shape(E[e]["t"])]
            if not idx:
                continue
            i = rng.choice(idx)
            if rng.random() < 0.5:
                form = rng.choice([0, 1, 2])
                t = g.slots[s].elems[i]
                E[e] = {"t": [[list(o) for o in f] for f in t], "aid": E[e]["aid"], "null": False}
                if form == 2:
                    g.slots[s].elems[i] = scrib(t)
                g.lines.append("eassignref %d %d %d %d" % (e, s, i, form))
                g.stat("element=reference-" + ["const", "lvalue", "move"][form])
            else:
                form = rng.choice([0, 2])
                g.slots[s].elems[i] = [[list(o) for o in f] for f in E[e]["t"]]
                if form == 2:
                    E[e] = {"t": scrib(E[e]["t"]), "aid": E[e]["aid"], "null": False}
                g.lines.append("refassigne %d %d %d %d" % (s, i, e, form))
                g.stat("reference=element-" + ("move" if form == 2 else "const"))
        elif r < 0.88 and lv:
            a = rng.choice(lv)
            if rng.random() < 0.5:
                g.lines.append("ecmpe %d %d" % (a, rng.choice(lv)))
                g.stat("ecmpe")
            else:
                s = rng.choice(vs)
                g.lines.append("ecmpr %d %d %d" % (a, s, rng.randrange(len(g.slots[s].elems))))
                g.stat("ecmpr")
            if rng.random() < 0.3:
                s = rng.choice(vs)
                g.lines.append("ebyteprobe %d %d" % (s, rng.randrange(len(g.slots[s].elems))))
                g.stat("ebyteprobe")
        elif r < 0.94:
            # independence: change the vector, then look at the elements (and the reverse)
            s = rng.choice(vs)
            v = g.slots[s]
            i = rng.randrange(len(v.elems))
            ks = [k for k, p in enumerate(L) if p.ty not in (TTRK, TTRKMA, TTRKCA) and v.elems[i][k] and
                  not (p.kind == PLAIN and k + 1 < len(L) and L[k + 1].kind == VARYING)]
            if ks:
                k = rng.choice(ks)
                o = rng.randrange(len(v.elems[i][k]))
                val = g.rand_obj(L[k])
                v.elems[i][k][o] = val
                g.lines.append("write %d %d %d %d %d %s" % (s, i, k, o, 0, " ".join(map(str, val))))
                g.stat("write-vector")
            for e in live():
                g.lines.append("eobserve %d" % e)
        else:
            cands = [e for e in range(4) if E[e] is not None]
            if cands:
                e = rng.choice(cands)
                E[e] = None
                g.lines.append("edestroy %d" % e)
                g.stat("edestroy")
                for s in vs:
                    g.lines.append("observe %d" % s)
    for e in range(4):
        if E[e] is not None:
            g.lines.append("edestroy %d" % e)
    return g.finish(), g.stats


# ---------------------------------------------------------------- allocation failure (C17)
ALLOC_OPS = ("mkvec", "reserve", "copyctor", "copyassign", "moveassign", "efromref", "ecopy", "ecopyalloc",
             "emovealloc", "ecopyassign", "emoveassign")
RETRY_OPS = ("reserve", "copyassign", "ecopyassign")


def fault_variants(lines, maxk):
    """for every step of a valid history that may allocate and every k < maxk: the history up
    to that step, 'fail the (k+1)-th allocation from now', the step, a retry where that is
    valid whether or not the step threw, then destruction of everything"""
    out = []
    for i, l in enumerate(lines):
        op = l.split()[0]
        if op not in ALLOC_OPS:
            continue
        for k in range(maxk):
            v = lines[:i] + ["failat %d" % k, l]
            if op in RETRY_OPS:
                v.append(l)
            v += ["destroy %d" % s for s in range(4)] + ["edestroy %d" % s for s in range(4)]
            out.append(v)
    return out


# ---------------------------------------------------------------- read-only sharing (C19)
def gen_shared(L, K, rng, nthreads=4):
    """build one or two vectors through an arbitrary history (every block on its own pages),
    write-protect the vector objects, their data blocks and address tables, then run the whole
    catalogue of const operations - single threaded and from several threads"""
    g = ScriptGen(L, K, rng)
    g.lines.append("pagemode 1")
    g.op_mkvec(0)
    for _ in range(rng.randrange(2, 12)):
        r = rng.random()
        if r < 0.6:
            if not g.op_emplace(0):
                g.op_reserve(0, True)
        elif r < 0.75:
            g.op_erase(0)
        elif r < 0.9:
            g.op_reserve(0)
        else:
            g.op_popback(0)
    # the second vector: a copy, or a copy that was then changed, or an unrelated one
    how = rng.choice(["copy", "copy-changed", "other"])
    g.stat("shared-second-" + how)
    if how == "other":
        g.op_mkvec(1)
        for _ in range(rng.randrange(0, 4)):
            g.op_emplace(1)
    else:
        v = g.slots[0].clone()
        v.aid = v.aid + 100 if K[4] else v.aid
        g.slots[1] = v
        g.lines.append("copyctor 1 0")
        if how == "copy-changed":
            if not g.op_popback(1):
                g.op_reserve(1, True)
                g.op_emplace(1)
    for s in (0, 1):
        g.lines.append("protect %d" % s)
    for (s, t) in ((0, 1), (1, 0), (0, 0)):
        g.lines.append("constops %d %d" % (s, t))
        g.stat("constops")
    g.lines.append("threads 0 1 %d" % nthreads)
    g.lines.append("threads 1 1 %d" % nthreads)
    g.stat("threads")
    for s in (0, 1):
        g.lines.append("unprotect %d" % s)
    # ... and the vectors are still ordinary vectors afterwards
    g.op_emplace(0) or g.op_popback(0)
    return g.finish(), g.stats


def gen_fault_moved_from(L, K, rng):
    """allocation failure while assigning INTO a moved-from vector / element (the target owns
    nothing, so every assignment path has to allocate)"""
    out = []
    for kind in ("vec-copy", "vec-move", "elem-copy", "elem-move"):
        for k in range(3 if has_varying(L) else 2):
            g = ScriptGen(L, K, rng)
            g.op_mkvec(0, cap=3, aid=1)
            g.op_emplace(0)
            g.op_emplace(0)
            if kind.startswith("vec"):
                g.lines.append("movector 1 0")          # 0 is moved-from now
                fixed = g.slots[0].fixed
                g.op_mkvec(2, cap=2, fixed=fixed, aid=2)
                g.op_emplace(2)
                g.lines.append("failat %d" % k)
                g.lines.append(("copyassign" if kind == "vec-copy" else "moveassign") + " 0 2")
            else:
                if not g.slots[0].elems:
                    continue
                g.lines.append("efromref 0 0 0 0 1")
                g.lines.append("emove 1 0")             # element 0 is moved-from now
                g.lines.append("efromref 2 0 %d 0 2" % (len(g.slots[0].elems) - 1))
                g.lines.append("failat %d" % k)
                g.lines.append(("ecopyassign" if kind == "elem-copy" else "emoveassign") + " 0 2")
            lines = g.lines + ["destroy %d" % s for s in range(4)] + ["edestroy %d" % s for s in range(4)]
            out.append(lines)
    return out


def gen_move_smaller_block(L, K, rng):
    """element-wise move assignment (unequal non-propagating allocators) into a target that
    has MORE capacity but a SMALLER block than the source (few but large elements into many
    but small ones): the target's block must not be reused"""
    g = ScriptGen(L, K, rng)
    if not has_varying(L):
        return None
    per = sum(p.size for p in L if p.kind == VARYING)
    fixed = [rng.choice([0, 1, 2]) for _ in range(nfixed(L))]
    g.op_mkvec(0, cap=rng.choice([4, 6, 8]), budget=0, fixed=fixed, aid=1)
    # the source's block is made larger than the target's, with less capacity
    cap1 = rng.choice([1, 2, 3])
    budget1 = per * 8
    while SpecVec(L, cap1, budget1, fixed, 2, K).block <= g.slots[0].block + 2 * per:
        budget1 += per * 8
    g.op_mkvec(1, cap=cap1, budget=budget1, fixed=fixed, aid=2)
    v = g.slots[1]
    for _ in range(v.cap):
        # use (nearly) the whole budget so that the data does not fit the target's block
        room = v.budget - v.payload()
        share = max(room // max(per, 1) // max(v.cap - len(v.elems), 1), 0)
        tup = g.rand_tuple(fixed, 0)
        for k, p in enumerate(L):
            if p.kind == VARYING:
                c = min(share, 256 ** min(L[k - 1].size, 8) - 1)
                tup[k] = [g.rand_obj(p) for _ in range(c)]
                tup[k - 1] = [le(c, L[k - 1].size)]
        if v.fits(tup, True):
            v.elems.append(tup)
            g.lines.append(g.emplace_line(1, tup))
    if rng.random() < 0.5:
        g.op_emplace(0)
    dv, sv = g.slots[0], g.slots[1]
    nv = sv.clone()
    nv.aid = dv.aid
    g.slots[0] = nv
    g.lines.append("moveassign 0 1")
    g.lines.append("observe 0")
    g.stat("moveassign-more-capacity-smaller-block")
    return g.finish(), g.stats


def gen_move_elementwise(L, K, rng):
    """element-wise move assignment (unequal, non-propagating, not always-equal allocators)
    into a NON-EMPTY target, with the source's data fitting the target's block (block reused)
    or not (new block): the old elements must be destroyed before the incoming ones are
    constructed on their storage"""
    g = ScriptGen(L, K, rng)
    fixed = [rng.choice([0, 1, 2, 3]) for _ in range(nfixed(L))]
    fixed2 = fixed if rng.random() < 0.4 else [rng.choice([0, 1, 2, 3]) for _ in range(nfixed(L))]
    g.op_mkvec(0, cap=rng.choice([2, 3, 4, 6]), fixed=fixed, aid=1)
    g.op_mkvec(1, cap=rng.choice([1, 2, 3, 4]), fixed=fixed2, aid=2)
    for _ in range(rng.randrange(1, 5)):
        if not g.op_emplace(0):
            g.op_reserve(0, True)
    for _ in range(rng.randrange(0, 4)):
        g.op_emplace(1)
    dv, sv = g.slots[0], g.slots[1]
    if sv.null:
        return None
    nv = sv.clone()
    nv.aid = dv.aid
    reuse = (not dv.null) and dv.block >= sv.block
    if reuse:
        nv.block = dv.block
    nv.null = False
    g.slots[0] = nv
    g.moved = [False, "elems" if not all_triv(L) else False, False, False]
    g.lines.append("moveassign 0 1")
    g.lines.append("observe 0")
    g.stat("moveassign-elementwise-nonempty-target-" + ("reuse" if reuse else "newblock") + ("" if dv.elems else "(empty)"))
    r = rng.random()
    if r < 0.4:
        g.op_emplace(0)
    elif r < 0.8:
        # fill the target up to the capacity it reports now: the block it kept or got must hold
        # max_element_count elements, not just the ones moved in
        n = 0
        while n < 8 and g.op_emplace(0):
            n += 1
        g.lines.append("observe 0")
        g.stat("moveassign-elementwise-then-filled")
    return g.finish(), g.stats


def gen_moved_from(L, K, rng):
    """a vector emptied by move construction or by a stealing move assignment (equal
    allocators), then used as any other vector: observed, assigned to (element-wise move from
    an unequal allocator with a smaller / larger block, stealing move, copy), cleared,
    copied from, and filled again"""
    g = ScriptGen(L, K, rng)
    fixed = [rng.choice([0, 1, 2, 3]) for _ in range(nfixed(L))]
    g.op_mkvec(1, cap=rng.choice([1, 2, 3, 4]), fixed=fixed, aid=1)
    for _ in range(rng.randrange(0, 4)):
        g.op_emplace(1)
    sv = g.slots[1]
    how = rng.choice(["movector", "steal-assign", "steal-assign"])
    if how == "movector":
        g.slots[0] = sv.clone()
        g.lines.append("movector 0 1")
    else:
        g.op_mkvec(0, cap=rng.choice([0, 1, 2, 3]), fixed=fixed, aid=1)
        if rng.random() < 0.5:
            g.op_emplace(0)
        g.slots[0] = sv.clone()
        g.lines.append("moveassign 0 1")
    m = SpecVec(L, 0, 0, [0] * nfixed(L), sv.aid, K)
    m.null = True
    m.block = 0
    g.slots[1] = m
    g.stat("moved-from-by-" + how)
    g.lines.append("observe 1")
    # (copying FROM or reserving a moved-from vector is not among the operations C09 grants a
    # moved-from vector - "destroyed, cleared, assigned to and swapped"; with a VaryingSize
    # list it reads through the stale end pointer the moved-from locator keeps: DESIGN 12.12)
    act = rng.choice(["move-other-aid", "move-other-aid", "move-same-aid", "copyassign", "clear", "swap", "eraserange"])
    g.stat("moved-from-then-" + act)
    if act in ("move-other-aid", "move-same-aid", "copyassign"):
        aid2 = 2 if act == "move-other-aid" else rng.choice([1, 2])
        fixed2 = fixed if rng.random() < 0.7 else [rng.choice([0, 1, 2, 3]) for _ in range(nfixed(L))]
        g.op_mkvec(2, cap=rng.choice([1, 1, 2, 3, 6]), fixed=fixed2, aid=aid2)
        for _ in range(rng.randrange(0, 4)):
            g.op_emplace(2)
        dv, s2 = g.slots[1], g.slots[2]
        if act == "copyassign":
            v = s2.clone()
            v.aid = s2.aid if K[0] else dv.aid
            v.null = False
            g.slots[1] = v
            g.lines.append("copyassign 1 2")
        elif K[3] or K[1] or dv.aid == s2.aid:
            v = s2.clone()
            v.aid = s2.aid if K[1] else dv.aid
            g.slots[1] = v
            m2 = SpecVec(L, 0, 0, [0] * nfixed(L), s2.aid, K)
            m2.null = True
            m2.block = 0
            g.slots[2] = m2
            g.lines.append("moveassign 1 2")
        else:
            v = s2.clone()
            v.aid = dv.aid
            v.null = False            # a moved-from target owns nothing: a block of the source's size is allocated
            g.slots[1] = v
            g.lines.append("moveassign 1 2")
            if not all_triv(L):
                # the source keeps moved-from objects: only destroyed afterwards
                pass
        g.lines.append("observe 1")
    elif act == "clear":
        g.lines.append("clear 1")
    elif act == "eraserange":
        g.lines.append("eraserange 1 0 0")
    else:
        # swap with the vector that took its contents (allocators equal: always allowed)
        x, y = g.slots[0], g.slots[1]
        g.slots[0], g.slots[1] = y.clone(), x.clone()
        g.lines.append("swap 0 1")
    # ... and it can be filled like any other vector
    v = g.slots[1]
    if v is not None and not v.null and rng.random() < 0.7:
        if not g.op_emplace(1):
            g.op_reserve(1, True)
            g.op_emplace(1)
    return g.finish(), g.stats
