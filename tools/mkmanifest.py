#!/usr/bin/env python3
"""Writes /verif/MANIFEST.json from the table below (kept in one place so that the claims,
the commands and the not_applicable list cannot drift apart)."""
import json, os
ROOT = os.path.dirname(os.path.dirname(os.path.abspath(__file__)))
props = [json.loads(l)["id"] for l in open(os.path.join(ROOT, "properties.jsonl"))]

NOTE = ("Trusted base: Coq 8.16.1 kernel (vm_compute in Examples only, no native_compute); theorems closed under the global "
        "context (Print Assumptions captured on every run); extraction with ExtrOcamlBasic only + ocaml/driver.ml; the "
        "correspondence (harness/driver.hpp, tools/*.py, g++ -O0) ties the hand-written model to /repo's working tree on the "
        "sampled inputs only. Assumes no size_t overflow, allocator returns distinct suitably aligned blocks.")

CLAIMS = {
 "C01": ("refinement proof (Rep invariant, induction over histories; trivially relocatable lists: every operation; non-trivial value types: every operation except erase with a tail) + differential correspondence",
         "Theorem C01_refinement(_every_step): for every well-formed list of trivially relocatable types and every valid history the byte-level model "
         "reads back exactly the spec list of tuples (Refine.v). C01_refinement_every_list / C01_step_every_list (NtRefine.v): the same for EVERY well-formed list, non-trivial value types included, over emplace_back, pop_back, clear, erase of the last element, erase(first,end()) and reserve (destruction scribbles over the destroyed objects only; relocation through copy/move constructors reproduces every byte). "
         "erase with elements behind the erased ones on non-trivial lists is the recorded known finding and is decided by the correspondence + oracle. Tie: random histories on ~55 lists, full observation streams.",
         "5 C01"),
 "C03": ("proof by induction over the parameter list (abstract-state invariant) + correspondence",
         "Theorem C03_placement_aligned: soundness of the compile-time trailing-alignment analysis for every list, count vector and SA-aligned address; "
         "relocation by multiples of SA keeps alignment; the as-written bit tricks equal the mathematical functions below 2^62. Tie: every field address of every element in random histories.",
         "5 C03"),
 "C04": ("proof by induction over the parameter list + correspondence",
         "Theorem C04_fields_ordered_disjoint_inside / C04_first_field_at_element_start for every list; element ordering at vector level follows from the Rep invariant (elems_ordered). "
         "Tie: field/element extents, get_fixed_size, iterator.data() vs reference.data_begin().",
         "5 C04"),
 "C05": ("proof (tight packing as part of the representation invariant, preserved by every operation: induction over histories) + correspondence",
         "Theorems C05_fields_tightly_packed (every field at the least aligned address after its predecessor, every list), C05_elements_tightly_packed, C05_fixed_element_size_exact, and at history level C05_represented_states_are_tightly_packed / C05_every_history_tightly_packed(_every_list): after EVERY valid history (every well-formed list; erase with a tail only on trivially relocatable lists) element i starts exactly at align_for_first_parameter(end of element i-1), element 0 at the start of the block, data_end() is the end of the last element or the aligned address behind it (Rep.r_tight, proved per operation in Refine.v). PARTIAL: footprint clause (iii) across copy/move/assignment is checked by the correspondence and oracle. "
         "Tie: field addresses vs greedy layout, memory_consumption().",
         "5 C05"),
 "C02": ("proof (capacity arithmetic: all-fixed lists exactly, VaryingSize lists with a benign tail by induction over the size computation; Rep bounds) + refutation witness for the remaining lists + correspondence with guard zones",
         "Theorems C02_fixed_capacity_sufficient (every list without VaryingSize parameter: N elements fit the block, via esize_spec), C02_varying_capacity_sufficient (every well-formed list whose tail is benign - last parameter VaryingSize, or a storage-aligned parameter behind the last VaryingSize one: N elements placed as emplace_back does with any varying counts of total payload <= B end inside SA*units(needed N B (esize L fixed)); NeededThm.v: aligned_size_in_memory over-approximates the bytes the placement uses and keeps address = offset modulo bracket), C02_every_history_stays_inside_the_block (construction then ANY valid history incl. erase and reserve within the documented limits - a ghost budget follows the history - keeps every element inside the owned block; invariant BInv = Rep with tight packing + needed(capacity,budget) <= block; trivially relocatable lists with benign tail; C02_every_history_stays_inside_the_block_every_list: every well-formed list with benign tail incl. non-trivial value types), C02_single_element_fits (every list), C02_elements_inside_data (Rep: every element inside [data_begin,data_end)), "
         "C02_varying_capacity_refuted (vm_compute witness that the formula under-estimates a list with a 1-aligned tail behind the last VaryingSize parameter, tail_ok = false = known finding). "
         "Tie: fills to the documented limits under a guard-zone allocator, field extents vs memory_consumption(); an overrun on a list with benign tail is never accepted as the known finding.",
         "5 C02"),
 "C06": ("proof (element-level lifetime balance; history level: exact construct/destroy lists per operation and multiset balance over a whole life, every list with non-trivial types) + correspondence with instrumented value types",
         "Theorems C06_emplace_constructs_each_object_once, C06_destruct_destroys_each_object_once, C06_emplace_then_destruct_balanced for every parameter list. History level (LifeHist.v): C06_step_turns_held_objects_into_held_objects (in any represented state emplace_back / pop_back / clear / erase(first,end()) / reserve construct and destroy exactly the objects they add or remove - a growing reserve constructs every object once in the new block and destroys every object of the moved-from old block once) and C06_whole_life_objects_balanced (construction, any valid history, destruction: constructions and destructions coincide as multisets of (block, offset, size)). "
         "PARTIAL: erase with a tail on non-trivial lists (known finding), a no-duplicates statement over the whole event log, and copy/move assignment between vectors are decided by the correspondence: registry of live instrumented objects (overlap, double construction/destruction, clobbered shadow bytes), event streams vs model, relocation-through-constructor oracle.",
         "5 C06"),
 "C07": ("proof (ledger automaton invariant over histories) + correspondence with a ledger allocator",
         "Theorem C07_whole_life_balanced(_every_list): construction, ANY history, destruction leaves the allocation ledger empty - for EVERY parameter list and EVERY operation, erase with a tail on non-trivial lists included (NtLedger.v); C07_step_balanced(_every_list); C07_destroy_returns_everything for every list. "
         "Tie: every allocate/deallocate of the implementation (identity, unit size, count, block) vs the model's, guard zones, leak oracle at the end of every script, special-member histories over 6 (quick) / 32 (thorough) allocator kinds.",
         "5 C07"),
 "C08": ("proof (case analysis over allocator traits on the world model) + correspondence over allocator kinds",
         "Theorems C08_copy_construction / copy_assignment / move_assignment / move_assignment_elementwise / swap: allocator identity after every special member for every allocator kind, with value semantics; C08_*_every_list (NtWorld.v): copy construction, copy assignment and move assignment (both paths) for EVERY well-formed list, non-trivial value types included. Tie: get_allocator() and the allocating identity of every block in special-member histories.",
         "5 C08"),
 "C09": ("proof (world-level refinement: relocate_rep) + correspondence on multi-vector histories",
         "Theorems C09_copy_construction / copy_assignment / move_assignment / swap / moved_from_state: targets represent the source's list of tuples, sources unchanged (or moved-from), for every list of trivially relocatable types, allocator kind, target state; C09_copy_construction_every_list / _copy_assignment_every_list / _move_assignment_every_list (NtWorld.v): the same for EVERY well-formed list, non-trivial value types included (relocation through copy/move constructors reproduces every byte; copies leave the source record untouched; an element-wise move leaves the source its block with moved-from objects). Tie: both operands observed after every step of random copy/move/swap histories.",
         "5 C09"),
 "C10": ("proof (corollary of the refinement) + correspondence; known finding on the capacity promise",
         "Theorems C10_reserve_keeps_contents (Rep preserved, capacity = max, fixed sizes kept) and C10_reserve_within_capacity_is_noop. The promise 'n elements / b bytes then fit': C10_reserve_reestablishes_the_budget and C10_after_reserve_everything_fits (history invariant of C02: after a growing reserve(n, b) any valid history up to n elements / b bytes keeps every element inside the new block; trivially relocatable lists with benign tail; known finding for the other lists). Tie: histories with reserve at every fill level; reserve-then-fill-to-the-limits under guard zones.",
         "5 C10"),
 "C16": ("proof (event and address lemmas on the model) + correspondence with ledger allocator",
         "Theorems C16_*: emplace_back/pop_back/clear never call the allocator and keep the block (every list); erase and erase(first,last) likewise (every list, C16_erase(_range)_no_allocation_every_list); reserve within capacity is the identity; stored elements keep their addresses; swap exchanges blocks. "
         "Tie: per-step allocation events, block ids and object offsets before/after each operation, incl. swap and move construction.",
         "5 C16"),
 "C18": ("proof (empty-state invariant zero_inv, refinement from the empty state) + correspondence on an empty-state script family",
         "Theorems C18_*: fresh, emptied and default-constructed vectors have size 0, data_end()=data_begin(), no uninitialised slot is consulted (model reads of unwritten slots would yield -1 offsets and disagree), clear keeps them empty. "
         "Tie: family of default-constructed / zero-capacity / never-filled / emptied-three-ways vectors under alternating junk fills, followed by reserve+emplace_back.",
         "5 C18"),
 "C13": ("proof (operator== of references and of vectors, on the element-wise AND the whole-buffer path = equality of the stored tuples, for every list, every represented state and arbitrary junk) + correspondence under alternating junk with a content oracle",
         "Theorem C13_vector_equality_is_content_equality: for every well-formed list and every pair of represented states (after any two valid histories, C01) vector == is equality of the two lists of tuples - element-wise path via C13_reference_equality_is_content_equality (memcmp-able runs byte-wise, other fields object-wise; RunsThm.runs_structure/runs_tight, run_bytes_spec), whole-buffer path via FastEq.v (tight packing is part of Rep: under IS_PADDING_FREE the bytes [data_begin,data_end) are the concatenation of all field bytes, which determines the tuples). Reflexive, symmetric, != negation for arbitrary memory. The first proof attempt exposed a genuine defect (vectors of zero-byte elements equal whatever their size), fixed. "
         "Tie: related vectors under different junk fills / capacities / histories / allocators, all operators on all pairs, content oracle, static RUNS/PADFREE lines, static sweep.",
         "5 C13"),
 "C14": ("proof (element < is a strict partial order that is a function of the two tuples only; == excludes <; derived operators) + refutation witness (known finding) + correspondence with a law-checking oracle",
         "Theorems C14_*: for every well-formed list the element-level < equals a function of the two stored tuples (C14_reference_less_depends_on_content_only: independent of memory, position, junk, capacity, fixed sizes), is irreflexive, asymmetric and transitive for arbitrary memory, a == b implies neither a < b nor b < a; vector < is irreflexive; > <= >= are derived as stated; field order is a strict weak order. C14_vector_less_transitive_refuted: vm_compute witness that vector < is not transitive (element < is a product order over the compared runs) = known finding less-product-order. "
         "C14_vector_less_fast_path_is_lexicographic_on_content: on the whole-buffer path vector < is std::lexicographical_compare over the two lists of tuples ordered by their bytes, in every pair of represented states. PARTIAL: 'vector < is lexicographical_compare under element <' on the element-wise path is by definition of the model (elems_less) and decided by the tie: all six operators on pairs of vectors/elements over a 2-3 value domain; the oracle checks the laws on the implementation's own results (irreflexive, asymmetric, transitive, consistent with ==, content-only, vector < = lexicographical_compare under the observed element <).",
         "5 C14"),
 "C11": ("proof (reference copy-assignment reproduces the source tuple and reference swap exchanges the two tuples, for every list and run-table shape; structure and disjointness of the assign/swap run tables; iterators = index arithmetic) + correspondence on reference/iterator/algorithm histories with a content oracle",
         "Theorem C11_reference_assignment_copies_the_values: for every well-formed list and every shape of the run table, `target = source` (copy form) between element references of equal field sizes in different vectors leaves the target element holding exactly the source's tuple, the source untouched and every byte outside the target element's extent unchanged (AssignThm.v: each step of ElementTraits::assign writes the source byte at the same offset from the element start; RunsThm: the table covers every field; layouts of equally sized elements at storage-aligned addresses are translates). C11_reference_swap_exchanges_the_values (SwapThm.v): swap between references of equal field sizes in different vectors leaves each element holding exactly the other's tuple, nothing else touched - every list and run-table shape; uses C11_runs_do_not_overlap (the runs of calculate_consecutive_indices are pairwise disjoint). C11_reference_move_assignment_moves_the_values (MoveThm.v): the move form over the move run table - target gets the source's tuple, the source holds moved-from objects exactly in the not trivially move-assignable fields. C11_*_table_covers_every_field / _runs_hold_only_*: no field skipped, no non-trivial object moved byte-wise. C11_iterators_are_indices. "
         "PARTIAL: assignment and swap within one vector, iter_swap and rotate / reverse / swap_ranges are modelled as written and decided by the tie: histories of reference assignment in four forms, swap/iter_swap, writes through six access paths incl. structured bindings, iterator batteries on const and mutable iterators, std algorithms, on lists covering every run-table shape up to four fields; content oracle = a Python list of tuples; access paths cross-checked in every observation; static sweep of the run tables.",
         "5 C11"),
 "C12": ("proof (element construction, copy construction, copy assignment on both paths, stealing move assignment, swap: the target holds exactly the source's tuple; moved-from state) + correspondence on element histories over allocator kinds with a content oracle",
         "Theorems C12_*: for every well-formed list of trivially copy/move-constructible types an element constructed from a reference (any aligned source position, junk, copy or move form) owns a fresh block that holds exactly the source tuple with the field table of that tuple, source unchanged, units = rounded-up byte size; copy construction likewise; copy assignment on the re-allocating path into ANY target (moved-from or not, any size) and - for every value-type category and run-table shape - on the field-wise path of FixedSize/plain lists leaves the target holding the source's tuple with the right allocator; stealing move assignment hands over block and tuple; swap exchanges contents and (POCS) allocators; a moved-from element owns nothing. "
         "PARTIAL: element-wise move assignment between unequal allocators, allocator-extended move, reference<->element assignment and the constructor paths of non-trivial value types are modelled as written (Elem.v) and decided by the tie: element histories on ~55 lists x 8 (quick) / 32 (thorough) allocator kinds incl. assignment into moved-from elements, different varying sizes, default and explicit allocators; per step fields, allocator, block identity and units vs model, a Python content oracle, block-sharing check, get<I>/structured bindings/reference-from-element path agreement, element comparisons by content. Not exercised: the alias cntgs::ContiguousElement (F23).",
         "5 C12"),
 "C15": ("proof (dispatch soundness over a type universe x source forms: stored = T(item); memcpy only where representation-preserving; move counts) + refutation of the pinned rule + correspondence on a catalogue of 640 instantiated cases with an independent conversion oracle",
         "Theorems C15_*: for every stored/source type of the modelled universe (bool, integers and enumerations of every width and signedness, float/double, pointers with base-class offset, trivially copyable classes with converting constructor / conversion operator, a class with user-provided copy/move, a trivially copyable source whose conversion adopts from an rvalue: Handle <- Raw), every source form (contiguous container, node-based container, generated range, C array, pointer, contiguous iterator, other iterator, move_iterator) x lvalue/rvalue and every length: the stored objects are item by item repr(T(source item)) - T(std::move(source item)) where the dispatch consumes rvalues (convm) -, exactly n of them; MEMCPY_COMPATIBLE implies the conversion keeps the object representation; lvalue ranges are not moved from, rvalue ranges / move_iterators once per consumed item. C15_pinned_rule_refuted: the pinned tree's rule fails (bool <- uint8_t{2}); repaired by a fix commit. "
         "Tie: ~690 instantiations (48 type pairs x 13 FixedSize forms + 4 VaryingSize forms) of real emplace_back, values incl. extremes and lengths 0..5, iterator sources longer than the parameter; stored bytes, move counters of an instrumented class, items consumed from a generated range, source unchanged; vs the extracted model and vs a Python static_cast oracle.",
         "5 C15"),
 "C17": ("proof (every allocating operation allocates before any other effect; a failed step changes nothing and returns its blocks) + exhaustive fault enumeration against the real library",
         "Theorems C17_*_allocates_first: for every parameter list, allocator kind and operand state the model's construction, reserve, copy construction, copy assignment, move assignment between unequal allocators and the element's construction / copy / move assignment emit ALL their allocations before any construction, destruction, move or release (induction over the event producers). C17_failed_step_changes_nothing / _returns_its_blocks: a step whose k-th allocation fails leaves all vectors and elements as they were (strong guarantee) and releases the blocks it obtained. Scope: only the allocator throws. "
         "Tie (this is where the real code is decided; it did terminate, double-free and double-destroy before four fix commits): for generated vector / element / single-vector histories every allocating step x every allocation index (1st, 2nd, 3rd) fails in turn - ~1700 (quick) fault scripts on 18 lists x 6 allocator kinds; after the throw every live vector and element is observed and compared with the model and with the unchanged spec state; guard zones, double free, leak check after destroying everything, live-object registry; retry of the failed operation.",
         "5 C17"),
 "C19": ("proof over all interleavings of the footprints of const operations (partial: memory model not modelled) + mprotect tie of the footprints to the code",
         "PARTIAL. Theorem C19_const_operations_never_conflict: for every parameter list, vector state, number of threads, programs of const operations (queries, element access, iteration, comparison, copying, element construction) and every interleaving of their accesses, no two accesses of different threads conflict; from: reads touch only shared state, writes only memory the executing thread obtained during the operation; distinct vectors have disjoint locations. Footprints are defined from the model's own functions. "
         "Tie: the vector object, its data block and its address table are on pages of their own and write-protected; the catalogue of const operations (all accessors, iteration over references, all six operators against a copy / changed copy / unrelated vector, copy construction, elements from front/back references) runs single threaded and from 4 (quick) / 16 (thorough) threads; a store into shared state is a SIGSEGV reported with the script as replay; results are compared with the model's. NOT exhibited: hardware/compiler memory model and the allocator's own synchronisation; the thorough tier runs the same scripts under ThreadSanitizer as supporting evidence only.",
         "5 C19"),
}

checks = []
for p in props:
    if p in CLAIMS:
        tech, text, ref = CLAIMS[p]
        checks.append({
            "property_id": p,
            "quick_cmd": "python3 tools/check.py --property %s --tier quick" % p,
            "thorough_cmd": "python3 tools/check.py --property %s --tier thorough" % p,
            "evidence_file": "evidence/%s.json" % p,
            "replay_cmd_template": "python3 tools/replay.py {path} %s" % p,
            "engine": "coq-model+correspondence",
            "level_claimed": {"category": "proof", "text": text, "design_ref": "DESIGN.md section %s" % ref.replace("5 C", "5, C")},
            "level_note": NOTE,
            "technique": tech,
        })
NA = {"C20": "statement about C++ well-formedness (overload resolution/SFINAE) of the real headers: no executable Gallina model can express it; deciding it by compiling an instantiation matrix would be enumeration, a different technique (DESIGN.md section 5, C20)"}
na = [{"property_id": p, "reason": NA.get(p, "check under construction in this session (model/theorems not finished yet)")} for p in props if p not in CLAIMS]
m = {
 "version": 1,
 "setup_cmd": "make -C /verif setup",
 "hooks": {"guard": "CNTGS_VERIF", "enable": "-DCNTGS_VERIF is passed on every harness compile; no hook exists in /repo (the harness uses the public API and -fno-access-control)",
           "baseline_off_cmd": "sh /verif/tools/repo_test.sh", "source_commits": [], "add_only": True},
 "engines": [{"name": "coq-model+correspondence", "path": "coq/ tools/check.py harness/driver.hpp ocaml/driver.ml",
              "serves_properties": sorted(CLAIMS), "kind_free_text": "Coq 8.16 proofs about a hand-written executable model; model extracted to OCaml and run against the real headers on generated scripts"}],
 "checks": checks,
 "not_applicable": na,
 "notes": "fix: commits in /repo repair genuine defects found by the correspondence (see known_findings.txt, DESIGN.md section 7).",
}
json.dump(m, open(os.path.join(ROOT, "MANIFEST.json"), "w"), indent=1)
print("claimed:", sorted(CLAIMS), "not applicable:", [x["property_id"] for x in na])
