"""Property oracles evaluated on the IMPLEMENTATION's observations (never on the model's):
they look for a concrete input on which a property fails.  The spec machine here is the
simplest possible one: a vector is a Python list of tuples."""
import re
import layout as lay


class Invalid(Exception):
    """the script violates a documented precondition (never generated; used by shrinking)"""


# ---------------------------------------------------------------- spec interpreter
class AVec:
    def __init__(self):
        self.elems, self.cap, self.budget, self.fixed, self.aid, self.null = [], 0, 0, [], 0, True
        self.moved = False

    def copy(self):
        c = AVec()
        c.__dict__.update(self.__dict__)
        c.elems = list(self.elems)
        c.fixed = list(self.fixed)
        return c


def parse_emplace(L, toks):
    vals, at = [], 0
    for p in L:
        n = toks[at]
        at += 1
        objs = []
        for _ in range(n):
            objs.append(tuple(toks[at:at + p.size]))
            at += p.size
        vals.append(tuple(objs))
    return tuple(vals)


def soccc(K, a):
    return a + 100 if K[4] else a


def alloc_eq(K, a, b):
    return bool(K[3]) or a == b


def simulate(L, K, lines, thrown=()):
    """-> list (one entry per step) of dict: 'slots' {s: AVec or None}, 'res', 'op'.
    Raises Invalid if a documented precondition is violated.  Steps whose index is in
    `thrown` threw std::bad_alloc: they must not have changed anything (C17)."""
    slots = {}
    eslots = {}       # element slots: dict(t=tuple, aid=int, null=bool)
    out = []

    def scribbled(t, ctor=False):
        """moved-from instrumented objects are filled with 0xEE: by the move ASSIGNMENT of TTrk,
        by the move CONSTRUCTOR of TTrk and TTrkC"""
        tys = (lay.TTRK, lay.TTRKC, lay.TTRKMC) if ctor else (lay.TTRK, lay.TTRKMA)
        return tuple(tuple((238,) * p.size for _ in f) if p.ty in tys else f for f, p in zip(t, L))

    def shape(t):
        return [len(f) for f in t]

    def need_elem(s, live=True):
        e = eslots.get(s)
        if e is None or (live and e["null"]):
            raise Invalid("element slot %d not usable" % s)
        return e

    for lineno, line in enumerate(lines):
        t = line.split()
        op, a = t[0], [int(x) for x in t[1:]]
        res = None
        touched = []
        if lineno in thrown:
            op = "thrown:" + op
            touched = [s for s, v in slots.items() if v is not None]
        elif op == "failat":
            pass
        elif op in ("mkvec", "default", "copyctor", "movector") and slots.get(a[0]) is not None:
            raise Invalid("construction into an occupied vector slot")
        elif op in ("efromref", "ecopy", "ecopyalloc", "emove", "emovealloc") and eslots.get(a[0]) is not None:
            raise Invalid("construction into an occupied element slot")
        elif op == "mkvec":
            v = AVec()
            v.cap, v.budget, v.aid, v.null = a[1], a[2], a[3], False
            v.fixed = a[5:5 + a[4]]
            slots[a[0]] = v
            touched = [a[0]]
        elif op == "default":
            slots[a[0]] = AVec()
            slots[a[0]].fixed = [0] * lay.nfixed(L)
            touched = [a[0]]
        elif op == "emplace":
            v = slots[a[0]]
            tup = parse_emplace(L, a[1:])
            if v.null or v.moved or len(v.elems) >= v.cap:
                raise Invalid("emplace beyond capacity")
            fi = 0
            for k, p in enumerate(L):
                if p.kind == lay.FIXED:
                    if len(tup[k]) != v.fixed[fi]:
                        raise Invalid("fixed size mismatch")
                    fi += 1
                if p.kind == lay.PLAIN and len(tup[k]) != 1:
                    raise Invalid("plain count")
                if p.kind == lay.VARYING:
                    c = sum(b << (8 * i) for i, b in enumerate(tup[k - 1][0]))
                    if c != len(tup[k]):
                        raise Invalid("count field mismatch")
            pay = sum(len(f) * p.size for t_ in v.elems + [tup] for f, p in zip(t_, L) if p.kind == lay.VARYING)
            if pay > v.budget:
                raise Invalid("payload beyond budget")
            v.elems.append(tup)
            touched = [a[0]]
        elif op == "emplaceat":
            # emplace(position, args...): an ordinary insert (lists without VaryingSize parameter)
            v = slots[a[0]]
            tup = parse_emplace(L, a[2:])
            if v.null or v.moved or len(v.elems) >= v.cap or not (0 <= a[1] <= len(v.elems)) or lay.has_varying(L):
                raise Invalid("emplace(position) beyond capacity / out of range")
            fi = 0
            for k, p in enumerate(L):
                if p.kind == lay.FIXED:
                    if len(tup[k]) != v.fixed[fi]:
                        raise Invalid("fixed size mismatch")
                    fi += 1
                if p.kind == lay.PLAIN and len(tup[k]) != 1:
                    raise Invalid("plain count")
            v.elems.insert(a[1], tup)
            res = a[1]
            touched = [a[0]]
        elif op == "popback":
            v = slots[a[0]]
            if v.null or not v.elems:
                raise Invalid("pop_back on empty")
            v.elems.pop()
            touched = [a[0]]
        elif op == "erase":
            v = slots[a[0]]
            if v.null or not (0 <= a[1] < len(v.elems)):
                raise Invalid("erase out of range")
            del v.elems[a[1]]
            res = a[1]
            touched = [a[0]]
        elif op == "eraserange":
            v = slots[a[0]]
            if not (0 <= a[1] <= a[2] <= len(v.elems)):
                raise Invalid("erase range")
            if v.null and (a[1] or a[2]):
                raise Invalid("erase range")
            del v.elems[a[1]:a[2]]
            res = a[1]
            touched = [a[0]]
        elif op == "clear":
            slots[a[0]].elems = []
            touched = [a[0]]
        elif op == "reserve":
            v = slots[a[0]]
            if v.moved:
                raise Invalid("reserve on moved-from")
            if a[1] > v.cap:
                pay = sum(len(f) * p.size for t_ in v.elems for f, p in zip(t_, L) if p.kind == lay.VARYING)
                if lay.has_varying(L) and a[2] < pay:
                    raise Invalid("reserve budget below stored payload")
                v.cap, v.budget = a[1], a[2]
                v.null = False
                v.moved = False
            touched = [a[0]]
        elif op == "destroy":
            slots[a[0]] = None
            touched = [a[0]]
        elif op == "copyctor":
            s = slots[a[1]]
            if s.moved:
                raise Invalid("copy of moved-from")
            d = s.copy()
            d.aid = soccc(K, s.aid)
            d.null = False if not s.null else False
            # a copy of a default-constructed vector owns a (zero-sized) block
            slots[a[0]] = d
            touched = [a[0], a[1]]
        elif op == "copyassign":
            if a[0] != a[1]:
                s, d0 = slots[a[1]], slots[a[0]]
                if s.moved:
                    raise Invalid("copy of moved-from")
                d = s.copy()
                d.aid = s.aid if K[0] else d0.aid
                d.null = False
                slots[a[0]] = d
            touched = [a[0], a[1]]
        elif op == "movector":
            s = slots[a[1]]
            d = s.copy()
            slots[a[0]] = d
            m = AVec()
            m.aid, m.moved, m.cap = s.aid, True, 0
            m.fixed = list(s.fixed)
            slots[a[1]] = m
            touched = [a[0], a[1]]
        elif op == "moveassign":
            if a[0] != a[1]:
                s, d0 = slots[a[1]], slots[a[0]]
                if K[3] or K[1] or s.aid == d0.aid:
                    d = s.copy()
                    d.aid = s.aid if K[1] else d0.aid
                    slots[a[0]] = d
                    m = AVec()
                    m.aid, m.moved = s.aid, True
                    m.fixed = list(s.fixed)
                    slots[a[1]] = m
                else:
                    if s.moved:
                        raise Invalid("element-wise move from moved-from")
                    d = s.copy()
                    d.aid = d0.aid
                    d.null = False
                    slots[a[0]] = d
                    s.moved_elems = True   # elements are in a moved-from state; values unspecified
            touched = [a[0], a[1]]
        elif op == "swap":
            if a[0] != a[1]:
                x, y = slots[a[0]], slots[a[1]]
                if not K[2] and not alloc_eq(K, x.aid, y.aid):
                    raise Invalid("swap of unequal non-propagating allocators")
                nx, ny = y.copy(), x.copy()
                if not K[2]:
                    nx.aid, ny.aid = x.aid, y.aid
                slots[a[0]], slots[a[1]] = nx, ny
            touched = [a[0], a[1]]
        elif op == "ebyteprobe":
            v = slots.get(a[0])
            if v is None or not (0 <= a[1] < len(v.elems)):
                raise Invalid("byte-allocator element from a missing element")
        elif op in ("junk", "pagemode", "protect", "unprotect", "constops", "threads") or op.startswith("thrown:"):
            if op in ("constops", "threads") and (slots.get(a[0]) is None or slots.get(a[1]) is None):
                raise Invalid("const operations on a missing vector")
            if op == "constops":
                touched = [a[0]]
        elif op in ("refassign", "refswap"):
            d, sv = slots.get(a[0]), slots.get(a[2])
            if d is None or sv is None or not (0 <= a[1] < len(d.elems)) or not (0 <= a[3] < len(sv.elems)):
                raise Invalid("reference to a missing element")
            if [len(f) for f in d.elems[a[1]]] != [len(f) for f in sv.elems[a[3]]]:
                raise Invalid("references with different field sizes")
            x, y = d.elems[a[1]], sv.elems[a[3]]
            if op == "refswap":
                d.elems[a[1]], sv.elems[a[3]] = y, x
            else:
                d.elems[a[1]] = y
                if a[4] == 2 and not (a[0] == a[2] and a[1] == a[3]):
                    # moved-from objects of the instrumented type are scribbled with 0xEE
                    sv.elems[a[3]] = tuple(tuple((238,) * p.size for _ in f) if p.ty in (lay.TTRK, lay.TTRKMA) else f for f, p in zip(y, L))
            touched = [a[0]] + ([a[2]] if a[2] != a[0] else [])
        elif op == "write":
            v = slots.get(a[0])
            if v is None or not (0 <= a[1] < len(v.elems)) or not (0 <= a[3] < len(v.elems[a[1]][a[2]])):
                raise Invalid("write to a missing object")
            k = a[2]
            if L[k].kind == lay.PLAIN and k + 1 < len(L) and L[k + 1].kind == lay.VARYING:
                raise Invalid("write to a count field")
            t = [list(f) for f in v.elems[a[1]]]
            t[k][a[3]] = tuple(a[5:5 + L[k].size])
            v.elems[a[1]] = tuple(tuple(f) for f in t)
            touched = [a[0]]
        elif op == "algo":
            v, v2 = slots.get(a[1]), slots.get(a[5])
            if v is None or not (0 <= a[2] <= a[3] <= len(v.elems)):
                raise Invalid("algorithm range")
            shapes = lambda es: {tuple(len(f) for f in t) for t in es}
            if a[0] == 0:
                if not (a[3] <= a[4] <= len(v.elems)) or len(shapes(v.elems[a[2]:a[4]])) > 1:
                    raise Invalid("rotate range")
                v.elems[a[2]:a[4]] = v.elems[a[3]:a[4]] + v.elems[a[2]:a[3]]
            elif a[0] == 1:
                if not (a[2] <= a[4] <= len(v.elems)) or len(shapes(v.elems[a[2]:a[4]])) > 1:
                    raise Invalid("reverse range")
                v.elems[a[2]:a[4]] = v.elems[a[2]:a[4]][::-1]
            else:
                n = a[3] - a[2]
                if v2 is None or not (0 <= a[4] and a[4] + n <= len(v2.elems)):
                    raise Invalid("swap_ranges range")
                if a[1] == a[5] and not (a[4] >= a[3] or a[4] + n <= a[2]):
                    raise Invalid("swap_ranges overlap")
                if len(shapes(v.elems[a[2]:a[3]] + v2.elems[a[4]:a[4] + n])) > 1:
                    raise Invalid("swap_ranges shapes")
                x, y = v.elems[a[2]:a[3]], v2.elems[a[4]:a[4] + n]
                v.elems[a[2]:a[3]] = y
                v2.elems[a[4]:a[4] + n] = x
            touched = [a[1]] + ([a[5]] if a[0] == 2 and a[5] != a[1] else [])
        elif op == "iter":
            v = slots.get(a[0])
            if v is None or not (0 <= a[1] <= len(v.elems)) or not (0 <= a[2] <= len(v.elems)):
                raise Invalid("iterator position")
        elif op == "efromref":
            v = slots.get(a[1])
            if v is None or not (0 <= a[2] < len(v.elems)) or getattr(v, "moved_elems", False):
                raise Invalid("element from a missing reference")
            t = v.elems[a[2]]
            eslots[a[0]] = {"t": t, "aid": max(a[4], 0), "null": False}
            if a[3] == 2:
                v.elems[a[2]] = scribbled(t, ctor=True)
            touched = [a[1]]
        elif op in ("ecopy", "ecopyalloc"):
            e = need_elem(a[1])
            eslots[a[0]] = {"t": e["t"], "aid": soccc(K, e["aid"]) if op == "ecopy" else a[2], "null": False}
        elif op == "emove":
            e = need_elem(a[1], live=False)
            eslots[a[0]] = dict(e)
            eslots[a[1]] = {"t": None, "aid": e["aid"], "null": True}
        elif op == "emovealloc":
            e = need_elem(a[1])
            if K[3] or a[2] == e["aid"]:
                eslots[a[0]] = dict(e)
                eslots[a[1]] = {"t": None, "aid": e["aid"], "null": True}
            else:
                eslots[a[0]] = {"t": e["t"], "aid": a[2], "null": False}
                eslots[a[1]] = {"t": scribbled(e["t"], ctor=True), "aid": e["aid"], "null": False}
        elif op == "ecopyassign":
            if a[0] != a[1]:
                d, e = need_elem(a[0], live=False), need_elem(a[1])
                fixed_path = not lay.has_varying(L) and (not K[0] or K[3])
                if fixed_path and not d["null"] and shape(d["t"]) != shape(e["t"]):
                    raise Invalid("field-wise element assignment needs a target of equal sizes")
                eslots[a[0]] = {"t": e["t"], "aid": e["aid"] if K[0] else d["aid"], "null": False}
        elif op == "emoveassign":
            if a[0] != a[1]:
                d, e = need_elem(a[0], live=False), need_elem(a[1], live=False)
                if K[3] or K[1] or d["aid"] == e["aid"]:
                    eslots[a[0]] = {"t": e["t"], "aid": e["aid"] if K[1] else d["aid"], "null": e["null"]}
                    eslots[a[1]] = {"t": None, "aid": e["aid"], "null": True}
                else:
                    if e["null"]:
                        raise Invalid("element-wise move from a moved-from element")
                    if not lay.has_varying(L) and not d["null"] and shape(d["t"]) != shape(e["t"]):
                        raise Invalid("field-wise element assignment needs a target of equal sizes")
                    eslots[a[0]] = {"t": e["t"], "aid": d["aid"], "null": False}
                    eslots[a[1]] = {"t": scribbled(e["t"], ctor=lay.has_varying(L) or d["null"]), "aid": e["aid"], "null": False}
        elif op == "eswap":
            if a[0] != a[1]:
                x, y = need_elem(a[0], live=False), need_elem(a[1], live=False)
                if not K[2] and not alloc_eq(K, x["aid"], y["aid"]):
                    raise Invalid("swap of elements with unequal non-propagating allocators")
                nx, ny = dict(y), dict(x)
                if not K[2]:
                    nx["aid"], ny["aid"] = x["aid"], y["aid"]
                eslots[a[0]], eslots[a[1]] = nx, ny
        elif op == "eassignref":
            e, v = need_elem(a[0]), slots.get(a[1])
            if v is None or not (0 <= a[2] < len(v.elems)) or shape(v.elems[a[2]]) != shape(e["t"]):
                raise Invalid("element = reference of different sizes")
            t = v.elems[a[2]]
            e["t"] = t
            if a[3] == 2:
                v.elems[a[2]] = scribbled(t)
            touched = [a[1]]
        elif op == "refassigne":
            v, e = slots.get(a[0]), need_elem(a[2])
            if v is None or not (0 <= a[1] < len(v.elems)) or shape(v.elems[a[1]]) != shape(e["t"]):
                raise Invalid("reference = element of different sizes")
            v.elems[a[1]] = e["t"]
            if a[3] == 2:
                e["t"] = scribbled(e["t"])
            touched = [a[0]]
        elif op == "edestroy":
            eslots[a[0]] = None
        elif op == "eobserve":
            pass
        elif op == "ecmpe":
            need_elem(a[0]); need_elem(a[1])
        elif op == "ecmpr":
            need_elem(a[0])
            v = slots.get(a[1])
            if v is None or not (0 <= a[2] < len(v.elems)):
                raise Invalid("comparison with a missing reference")
        elif op == "cmpvec":
            if slots.get(a[0]) is None or slots.get(a[1]) is None:
                raise Invalid("comparison of a destroyed vector")
        elif op == "cmpref":
            x, y = slots.get(a[0]), slots.get(a[2])
            if x is None or y is None or not (0 <= a[1] < len(x.elems)) or not (0 <= a[3] < len(y.elems)):
                raise Invalid("comparison of a missing element")
            if getattr(x, "moved_elems", False) or getattr(y, "moved_elems", False):
                raise Invalid("comparison of moved-from elements")
        elif op == "observe":
            touched = [a[0]]
        else:
            raise Invalid("unknown op " + op)
        out.append({"op": op, "args": a, "res": res, "touched": touched,
                    "slots": {s: (v.copy() if v is not None else None) for s, v in slots.items()},
                    "eslots": {s: (dict(e) if e is not None else None) for s, e in eslots.items()}})
    return out


# ---------------------------------------------------------------- observation parser
def parse_obs(lines):
    """-> (steps, markers): steps = list of dict(events, res, vecs {slot: dict}, gone, null)"""
    steps, markers = [], []
    cur, vec, elem = None, None, None
    for l in lines:
        t = l.split()
        if not t:
            continue
        if t[0] == "STEP":
            cur = {"events": [], "res": None, "vecs": {}, "gone": [], "null": {}, "markers": []}
            steps.append(cur)
            vec = None
            continue
        if cur is None:
            markers.append(l)
            continue
        if t[0] == "EV":
            cur["events"].append(t[1:])
        elif t[0] == "RES":
            cur["res"] = int(t[1])
        elif t[0] == "CMP":
            cur.setdefault("cmps", []).append([int(x) for x in t[1:]])
            cur["cmp"] = cur["cmps"][0]
        elif t[0] == "ITER":
            cur["iter"] = [int(x) for x in t[1:]]
        elif t[0] == "VEC":
            f = t.index("F")
            vec = {"size": int(t[2]), "cap": int(t[3]), "cons": int(t[4]), "aid": int(t[5]), "bid": int(t[6]),
                   "dbeg": int(t[7]), "dend": int(t[8]), "fixed": [int(x) for x in t[f + 1:]], "elems": []}
            cur["vecs"][int(t[1])] = vec
        elif t[0] == "ELEM":
            elem = {"aid": int(t[2]), "bid": int(t[3]), "units": int(t[4]), "fields": []}
            cur.setdefault("elems", {})[int(t[1])] = elem
            vec = None
        elif t[0] == "ENULL":
            cur.setdefault("enull", []).append(int(t[1]))
        elif t[0] == "EGONE":
            cur.setdefault("egone", []).append(int(t[1]))
        elif t[0] == "E":
            elem = {"off": int(t[2]), "fields": []}
            if vec is not None:
                vec["elems"].append(elem)
        elif t[0] == "F":
            if elem is not None:
                elem["fields"].append((int(t[2]), int(t[3]), "" if t[4] == "-" else t[4]))
        elif t[0] == "NULL":
            cur["null"][int(t[1])] = int(t[2])
        elif t[0] == "GONE":
            cur["gone"].append(int(t[1]))
        else:
            cur["markers"].append(l)
            markers.append(l)
    return steps, markers


def hexof(objs):
    return "".join("%02x" % b for o in objs for b in o)


# ---------------------------------------------------------------- oracles
MARKER_PROPS = {
    "GUARD": {"C02", "C10", "C17", "C09", "C01", "C12", "C11"},
    "BADFREE": {"C07", "C17"},
    "LIFE": {"C06", "C17"},
    "PATHERR access-paths": {"C11"},
    "PATHERR iterator-data": {"C04", "C11"},
    "PATHERR element-outside-block": {"C02"},
    "PATHERR element-beyond-data-end": {"C04", "C02"},
    "PATHERR consumption-exceeds-block": {"C02", "C07"},
    "PATHERR empty": {"C01", "C18"},
    "PATHERR begin-end": {"C01", "C18", "C11"},
    "PATHERR distance": {"C11", "C01"},
    "PATHERR const-data": {"C11"},
    "PATHERR cmp-operand-kind": {"C13", "C14"},
    "PATHERR const-iterator": {"C11"},
    "PATHERR iterator-conversion": {"C11"},
    "UNSUPPORTED": {"C11", "C12"},
    "PATHERR copy-of-shared-vector-differs": {"C19", "C09"},
    "PATHERR element-of-shared-vector-differs": {"C19", "C12"},
    "PATHERR element-access-paths": {"C12", "C11"},
    "PATHERR element-structured-bindings": {"C12", "C11"},
    "PATHERR element-outside-own-block": {"C12", "C02"},
    "PATHERR foreign-data-block": {"C08", "C07", "C09"},
    "PATHERR foreign-table-block": {"C08", "C07", "C09"},
    "PATHERR foreign-element-block": {"C12", "C08"},
    "FOREIGNFREE": {"C08", "C07", "C12"},
}


# ---------------------------------------------------------------- C15: T(source item)
def _c15_conv(U, T, v):
    """static_cast<T>(u) on Python integers; independent of the Coq model"""
    import construct_gen as cg
    if U == 18 and T != 18:
        v = v + 1                       # Wrap::operator int32_t
        v = ((v + 2 ** 31) % 2 ** 32) - 2 ** 31
    if T == 0:
        return 1 if v != 0 else 0
    if T in (9, 10):
        return float(v)
    if T in (13, 14, 15):
        return v + {13: 0, 14: 8, 15: 0}[T] if U == 13 else v
    if T == 17 and U == 16:
        x = (v - 32) * 5
        return abs(x) // 9 * (1 if x >= 0 else -1)      # truncation toward zero
    bits = 8 * cg.SIZE[T]
    v = int(v) % 2 ** bits
    if T in cg.SIGNED and v >= 2 ** (bits - 1):
        v -= 2 ** bits
    return v


def _c15_repr(T, x):
    import struct
    import construct_gen as cg
    if T == 9:
        return struct.pack("<f", x).hex()
    if T == 10:
        return struct.pack("<d", x).hex()
    n = cg.SIZE[T]
    return (int(x) % 2 ** (8 * n)).to_bytes(n, "little").hex()


def oracle_C15_lines(lines, il):
    v = []
    steps, markers = parse_obs(il)
    raw = {}
    cur = -1
    for l in il:
        t = l.split()
        if not t:
            continue
        if t[0] == "STEP":
            cur = int(t[1])
            raw[cur] = {}
        elif t[0] in ("STORED", "MOVED") and cur >= 0:
            raw[cur][t[0]] = t[1:]
        elif t[0] in ("PATHERR", "UNKNOWN-CASE", "CRASH"):
            v.append("step %d: %s" % (cur, l))
    for i, line in enumerate(lines):
        a = [int(x) for x in line.split()[1:]]
        k, T, U, f, rv, var, n = a[:7]
        vals = a[7:]
        ob = raw.get(i)
        if ob is None or "STORED" not in ob:
            v.append("step %d: no result for case %d" % (i, k))
            continue
        moves = f == 7 or (f in (0, 1, 2, 3) and rv)       # deque / reverse iterators (8, 9) copy
        if T == 21 and U == 20:
            # Handle(Raw&&) adopts (second word 1), Handle(const Raw&) does not
            # (the items of a generated range, form 2, are temporaries)
            exp = ",".join((x % 2 ** 32 + (2 ** 32 if (moves or f == 2) else 0)).to_bytes(8, "little").hex() for x in vals[:n]) or "-"
        elif T in (20, 21):
            exp = ",".join((x % 2 ** (8 * (4 if T == 20 else 8))).to_bytes(4 if T == 20 else 8, "little").hex() for x in vals[:n]) or "-"
        else:
            exp = ",".join(_c15_repr(T, _c15_conv(U, T, x)) for x in vals[:n]) or "-"
        got = ob["STORED"][0] if ob["STORED"] else "-"
        if got != exp:
            v.append("step %d case %d (stored type %d <- source type %d, form %d%s%s): stored %s, T(source item) is %s" % (
                i, k, T, U, f, " rvalue" if rv else "", " varying" if var else "", got, exp))
        if U in (19, 22) or (U == 20 and T == 21):
            expm = [1 if (moves and j < n) else 0 for j in range(len(vals))]
            if f == 2:
                expm = None                # generated items are temporaries
            gotm = [int(x) for x in ob.get("MOVED", [])]
            if expm is not None and gotm != expm:
                v.append("step %d case %d: source items moved from %r times, expected %r" % (i, k, gotm, expm))
    return v[:5]


def check(prop, L, K, lines, il, expect=None):
    if prop == "C15":
        return oracle_C15_lines(lines, il)
    """list of violation descriptions of property `prop` visible in the implementation's
    observation lines `il` of script `lines`"""
    v = []
    steps, markers = parse_obs(il)
    where = {}
    for i, st in enumerate(steps):
        for m in st["markers"]:
            where.setdefault(m, i)
    for m in markers:
        if m.startswith("CRASH") or m.startswith("EXIT") or m.startswith("TERMINATE"):
            v.append("implementation ended abnormally: " + m + (" (in step %d)" % (len(steps) - 1) if steps else ""))
        for key, props in MARKER_PROPS.items():
            if m.startswith(key) and prop in props:
                v.append("marker: " + m + (" (in step %d)" % where[m] if m in where else ""))
    thrown = set()
    n = -1
    for l in il:
        if l.startswith("STEP "):
            n = int(l.split()[1])
        elif l.startswith("THROW"):
            thrown.add(n)
    try:
        spec = simulate(L, K, lines, thrown)
    except Invalid as e:
        return v + ["script invalid: %s" % e] if False else v
    except Exception:
        return v
    fn = globals().get("oracle_" + prop)
    if fn is not None:
        try:
            v += fn(L, K, lines, steps, spec)
        except Exception as e:      # malformed observations are themselves suspicious
            v.append("oracle could not interpret observations: %r" % (e,))
    return v


def each_vec(steps, spec):
    for i, (st, sp) in enumerate(zip(steps, spec)):
        for s, ov in st["vecs"].items():
            av = sp["slots"].get(s)
            if av is not None:
                yield i, s, ov, av, sp


def oracle_C01(L, K, lines, steps, spec):
    v = []
    for i, (st, sp) in enumerate(zip(steps, spec)):
        if sp["res"] is not None and st["res"] is not None and st["res"] != sp["res"]:
            v.append("step %d %s: erase returned index %d, expected %d" % (i, sp["op"], st["res"], sp["res"]))
        if sp["op"] not in ("mkvec", "emplace", "popback", "erase", "eraserange", "clear", "reserve", "observe"):
            continue
        for s in sp["touched"]:
            av = sp["slots"].get(s)
            if av is None:
                continue
            if s in st["null"]:
                if st["null"][s] != len(av.elems):
                    v.append("step %d: size() = %d, sequence has %d" % (i, st["null"][s], len(av.elems)))
                continue
            ov = st["vecs"].get(s)
            if ov is None:
                continue
            if ov["size"] != len(av.elems):
                v.append("step %d %s: size() = %d, sequence has %d elements" % (i, sp["op"], ov["size"], len(av.elems)))
                continue
            if ov["cap"] != av.cap:
                v.append("step %d %s: capacity() = %d, expected %d" % (i, sp["op"], ov["cap"], av.cap))
            if getattr(av, "moved_elems", False):
                continue
            for e, (oe, ae) in enumerate(zip(ov["elems"], av.elems)):
                for k, ((off, cnt, hx), af) in enumerate(zip(oe["fields"], ae)):
                    if cnt != len(af) or hx != hexof(af):
                        v.append("step %d %s: element %d field %d reads %s x%d, sequence holds %s x%d" % (
                            i, sp["op"], e, k, hx or "-", cnt, hexof(af) or "-", len(af)))
                        break
    return v[:5]


def content_mismatches(L, steps, spec, ops=None):
    """every observed vector holds exactly the spec's tuples (all access paths are checked
    against each other by the harness itself: PATHERR lines)"""
    v = []
    for i, (st, sp) in enumerate(zip(steps, spec)):
        if ops is not None and sp["op"] not in ops:
            continue
        for s, ov in st["vecs"].items():
            av = sp["slots"].get(s)
            if av is None or getattr(av, "moved_elems", False):
                continue
            if ov["size"] != len(av.elems):
                v.append("step %d %s: size() = %d, sequence has %d elements" % (i, sp["op"], ov["size"], len(av.elems)))
                continue
            for e, (oe, ae) in enumerate(zip(ov["elems"], av.elems)):
                for k, ((off, cnt, hx), af) in enumerate(zip(oe["fields"], ae)):
                    if cnt != len(af) or hx != hexof(af):
                        v.append("step %d %s: slot %d element %d field %d reads %s x%d, expected %s x%d" % (
                            i, sp["op"], s, e, k, hx or "-", cnt, hexof(af) or "-", len(af)))
                        break
    return v


def oracle_C11(L, K, lines, steps, spec):
    v = content_mismatches(L, steps, spec)
    for i, (st, sp) in enumerate(zip(steps, spec)):
        if sp["op"] == "iter" and "iter" in st:
            a = sp["args"]
            n = len(sp["slots"][a[0]].elems)
            ii, j = a[1], a[2]
            exp = [ii - j, int(ii == j), int(ii != j), int(ii < j), int(ii <= j), int(ii > j), int(ii >= j), j, ii,
                   ii + 1, ii, ii, n, 0]
            if st["iter"] != exp:
                v.append("step %d iter %d %d: iterator expressions give %r, index arithmetic gives %r" % (i, ii, j, st["iter"], exp))
        # swap(reference, reference) exchanges objects of a type with its own swap THROUGH that
        # swap - once per object (the instrumented types report it) - and never behind its back
        if sp["op"] == "refswap" and i > 0:
            a = sp["args"]
            if not (a[0] == a[2] and a[1] == a[3]):
                t = sp["slots"][a[0]].elems[a[1]]
                want = sum(len(f) for f, p in zip(t, L) if p.ty in (lay.TTRK, lay.TSW))
                got = sum(1 for e in st["events"] if e[0] == "SW")
                if got != want:
                    v.append("step %d refswap: the value types' own swap ran %d times, the swapped elements hold %d objects of such types" % (i, got, want))
    return v[:5]


def oracle_C12(L, K, lines, steps, spec):
    """elements hold exactly the spec's tuple in a block of their own allocator, vectors are
    untouched except where the operation says so; comparisons with elements are by content"""
    v = content_mismatches(L, steps, spec)
    for i, l in enumerate(lines):
        if l.startswith("ebyteprobe") and i < len(steps):
            ok = [m for m in steps[i]["markers"] if m.startswith("EBYTE")]
            if not ok or ok[0].split()[1] != "1":
                v.append("step %d: an element over an allocator of std::byte (cntgs::ContiguousElement) is not a faithful, suitably aligned deep copy: %r" % (i, ok))
    for i, (st, sp) in enumerate(zip(steps, spec)):
        for s, oe in st.get("elems", {}).items():
            ae = sp["eslots"].get(s)
            if ae is None or ae["null"]:
                v.append("step %d %s: element slot %d is live but should be %s" % (i, sp["op"], s, "destroyed" if ae is None else "moved-from"))
                continue
            for k, ((off, cnt, hx), af) in enumerate(zip(oe["fields"], ae["t"])):
                if cnt != len(af) or hx != hexof(af):
                    v.append("step %d %s: element %d field %d reads %s x%d, expected %s x%d" % (i, sp["op"], s, k, hx or "-", cnt, hexof(af) or "-", len(af)))
                    break
            if not alloc_eq(K, oe["aid"], ae["aid"]):
                v.append("step %d %s: element %d get_allocator() is %d, expected %d" % (i, sp["op"], s, oe["aid"], ae["aid"]))
            # its block comes from its own allocator and from nobody else's vector
            for vs, ov in st["vecs"].items():
                if ov["bid"] == oe["bid"]:
                    v.append("step %d %s: element %d shares block %d with vector %d" % (i, sp["op"], s, oe["bid"], vs))
        for s in st.get("enull", []):
            ae = sp["eslots"].get(s)
            # (an element without any bytes - every fixed size zero - owns a block of zero
            # units, which an allocator may represent by a null pointer)
            if ae is not None and not ae["null"] and any(len(f) for f in ae["t"]):
                v.append("step %d %s: element %d lost its memory" % (i, sp["op"], s))
        if sp["op"] in ("ecmpe", "ecmpr") and "cmps" in st:
            a = sp["args"]
            kx = elem_key(L, sp["eslots"][a[0]]["t"])
            ky = elem_key(L, sp["eslots"][a[1]]["t"]) if sp["op"] == "ecmpe" else elem_key(L, sp["slots"][a[1]].elems[a[2]])
            for n, (c, (p, q)) in enumerate(zip(st["cmps"], [(kx, ky), (ky, kx)])):
                eq, ne, lt, le, gt, ge = c
                if bool(eq) != (p == q) or eq == ne:
                    v.append("step %d %s: operator== is %d for operands whose contents are %s" % (i, sp["op"], eq, "equal" if p == q else "different"))
                if (lt and gt) or (lt and eq) or le != (not gt) or ge != (not lt) or (p == q and (lt or gt)):
                    v.append("step %d %s: relational operators inconsistent: %r" % (i, sp["op"], c))
            if len(st["cmps"]) == 2 and (st["cmps"][0][2] != st["cmps"][1][4] or st["cmps"][0][4] != st["cmps"][1][2]):
                v.append("step %d ecmpr: element < reference and reference > element disagree" % i)
    return v[:5]


def oracle_C17(L, K, lines, steps, spec):
    """after a thrown allocation every operand is exactly what it was (strong guarantee: holds
    for every allocating operation of the repaired library), nothing leaked or freed twice,
    every object destroyed once: contents, sizes, capacities, allocators, elements, ledger"""
    v = content_mismatches(L, steps, spec)
    v += oracle_C12(L, K, lines, steps, spec)
    for i, (st, sp) in enumerate(zip(steps, spec)):
        if not sp["op"].startswith("thrown:"):
            continue
        for s, ov in st["vecs"].items():
            av = sp["slots"].get(s)
            if av is None:
                v.append("step %d %s threw but vector %d exists afterwards" % (i, sp["op"], s))
                continue
            if ov["cap"] != av.cap:
                v.append("step %d %s threw: capacity() of vector %d changed to %d (was %d)" % (i, sp["op"], s, ov["cap"], av.cap))
            if not alloc_eq(K, ov["aid"], av.aid):
                v.append("step %d %s threw: allocator of vector %d changed" % (i, sp["op"], s))
            if i > 0:
                for j in range(i - 1, -1, -1):
                    if s in steps[j]["vecs"]:
                        if steps[j]["vecs"][s]["bid"] != ov["bid"] or steps[j]["vecs"][s]["cons"] != ov["cons"]:
                            v.append("step %d %s threw: vector %d changed its block" % (i, sp["op"], s))
                        break
        for s in sp["slots"]:
            if sp["slots"][s] is not None and s not in st["vecs"] and s not in st["null"]:
                v.append("step %d %s threw: vector %d was not observable afterwards" % (i, sp["op"], s))
        # allocate first: before the failing allocation the step has done nothing but allocate,
        # afterwards it only returns the blocks it had just obtained (theorems C17_*_allocates_first
        # on the implementation's own event stream)
        evs = st["events"]
        k = next((n for n, e in enumerate(evs) if e[0] == "AFAIL"), None)
        if k is not None:
            got = set()
            for e in evs[:k]:
                if e[0] == "A":
                    got.add(e[-1])
                else:
                    v.append("step %d %s threw: before the failing allocation the operation had already done %s" % (i, sp["op"], " ".join(e)))
                    break
            for e in evs[k + 1:]:
                if not (e[0] == "D" and e[-1] in got):
                    v.append("step %d %s threw: after the failing allocation the operation did %s (more than returning the blocks it had just obtained)" % (i, sp["op"], " ".join(e)))
                    break
    v += oracle_C07(L, K, lines, steps, spec)
    v += oracle_C06(L, K, lines, steps, spec)
    return v[:5]


def oracle_C19(L, K, lines, steps, spec):
    """const operations on a write-protected vector: a store into shared state is a SIGSEGV
    (reported by check() as abnormal end); the values read are the spec's; threads agree"""
    v = content_mismatches(L, steps, spec)
    for i, l in enumerate(lines):
        if l.startswith("threads") and i < len(steps):
            ok = [m for m in steps[i]["markers"] if m.startswith("THREADS")]
            if not ok or ok[0].split()[2] != "1":
                v.append("step %d: threads running the const catalogue disagree or did not finish: %r" % (i, ok))
    # "never interfere even when the vectors were copied from one another": a copy is made
    # through the value types' own copy constructors (bytes that were merely duplicated would
    # share whatever the values own) - the construction events of the copying steps (C06)
    v += oracle_C06(L, K, lines, steps, spec)
    return v[:5]


def oracle_C02(L, K, lines, steps, spec):
    v = []
    for i, s, ov, av, sp in each_vec(steps, spec):
        if ov["dend"] - ov["dbeg"] > ov["cons"]:
            v.append("step %d: data_end()-data_begin() = %d exceeds memory_consumption() = %d" % (i, ov["dend"] - ov["dbeg"], ov["cons"]))
        for e, oe in enumerate(ov["elems"]):
            for k, (off, cnt, hx) in enumerate(oe["fields"]):
                if off < 0 or off + cnt * L[k].size > ov["cons"]:
                    v.append("step %d: element %d field %d occupies [%d,%d) outside the %d byte block" % (i, e, k, off, off + cnt * L[k].size, ov["cons"]))
    return v[:5]


def oracle_C03(L, K, lines, steps, spec):
    v = []
    for i, s, ov, av, sp in each_vec(steps, spec):
        for e, oe in enumerate(ov["elems"]):
            for k, (off, cnt, hx) in enumerate(oe["fields"]):
                if off % L[k].align:
                    v.append("step %d %s: element %d field %d (AlignAs %d) at block offset %d" % (i, sp["op"], e, k, L[k].align, off))
    return v[:5]


def oracle_C04(L, K, lines, steps, spec):
    v = []
    for i, s, ov, av, sp in each_vec(steps, spec):
        prev_end = ov["dbeg"]
        if ov["fixed"] != av.fixed:
            v.append("step %d: get_fixed_size = %r, constructed with %r" % (i, ov["fixed"], av.fixed))
        for e, oe in enumerate(ov["elems"]):
            if oe["off"] < prev_end:
                v.append("step %d %s: element %d starts at %d before the end %d of its predecessor" % (i, sp["op"], e, oe["off"], prev_end))
            a = oe["off"]
            fi = 0
            for k, (off, cnt, hx) in enumerate(oe["fields"]):
                if off < a:
                    v.append("step %d %s: element %d field %d at %d overlaps/precedes previous field end %d" % (i, sp["op"], e, k, off, a))
                a = off + cnt * L[k].size
                if L[k].kind == lay.FIXED:
                    if fi < len(av.fixed) and cnt != av.fixed[fi]:
                        v.append("step %d: FixedSize field %d has %d objects, expected %d" % (i, k, cnt, av.fixed[fi]))
                    fi += 1
                if L[k].kind == lay.VARYING and e < len(av.elems) and not getattr(av, "moved_elems", False):
                    if cnt != len(av.elems[e][k]):
                        v.append("step %d: VaryingSize field %d of element %d has %d objects, emplaced with %d" % (i, k, e, cnt, len(av.elems[e][k])))
            prev_end = a
        if ov["elems"] and prev_end > ov["dend"]:
            v.append("step %d %s: last element ends at %d beyond data_end() %d" % (i, sp["op"], prev_end, ov["dend"]))
    return v[:5]


def oracle_C05(L, K, lines, steps, spec):
    v = []
    S = lay.SA(L)
    for i, s, ov, av, sp in each_vec(steps, spec):
        prev_end = 0
        for e, oe in enumerate(ov["elems"]):
            want = lay.align_up(prev_end, S)
            if oe["off"] != want:
                v.append("step %d %s: element %d at %d, lowest %d-aligned address after its predecessor is %d" % (i, sp["op"], e, oe["off"], S, want))
            a = oe["off"]
            for k, (off, cnt, hx) in enumerate(oe["fields"]):
                want = lay.align_up(a, L[k].align)
                if off != want:
                    v.append("step %d %s: element %d field %d at %d, lowest aligned address is %d" % (i, sp["op"], e, k, off, want))
                a = off + cnt * L[k].size
            prev_end = a
        if not lay.has_varying(L) and ov["size"] == ov["cap"] and ov["cap"] > 0 and sp["op"] in ("emplace",):
            # a full vector without VaryingSize uses exactly memory_consumption() bytes, rounded up to SA
            used = prev_end
            if lay.align_up(used, S) != ov["cons"] and not _grown(spec, sp, s):
                v.append("step %d: full all-fixed vector uses %d bytes, memory_consumption() = %d" % (i, used, ov["cons"]))
    v += oracle_C05_footprint(L, K, lines, steps, spec)
    return v[:5]


def oracle_C05_footprint(L, K, lines, steps, spec):
    """(iii) no operation makes a vector consume more than the largest of: before, the
    source, a fresh vector with the same capacity and payload budget"""
    v = []
    S = lay.SA(L)
    for i in range(1, min(len(steps), len(spec))):
        sp = spec[i]
        if sp["op"] not in ("reserve", "copyctor", "copyassign", "movector", "moveassign", "swap"):
            continue
        a = sp["args"]
        d = a[0]
        after = steps[i]["vecs"].get(d)
        if after is None:
            continue
        cands = []
        before = steps[i - 1]["vecs"].get(d)
        # the last observation of the operands before this step
        def last_obs(slot):
            for j in range(i - 1, -1, -1):
                if slot in steps[j]["vecs"]:
                    return steps[j]["vecs"][slot]
                if slot in steps[j]["null"] or slot in steps[j]["gone"]:
                    return None
            return None
        b = last_obs(d)
        if b is not None and sp["op"] not in ("copyctor", "movector"):
            cands.append(b["cons"])
        if sp["op"] != "reserve":
            sobs = last_obs(a[1])
            if sobs is not None:
                cands.append(sobs["cons"])
        av = sp["slots"].get(d)
        if av is not None:
            sz = lay.esize(L, av.fixed)
            cands.append(lay.units(L, lay.needed(av.cap, av.budget, sz)) * S)
            if not lay.has_varying(L):
                cands.append(lay.units(L, av.budget + sz[1] * av.cap) * S)
        if cands and after["cons"] > max(cands):
            v.append("step %d %s: memory_consumption() = %d exceeds before/source/fresh = %r" % (i, sp["op"], after["cons"], cands))
    return v


def _grown(spec, sp, s):
    """clause (ii) speaks about a vector whose block was obtained for its capacity; a block kept
    across reserve / assignment / swap is governed by clause (iii) (never more than before,
    than the source, than a fresh vector) and may legitimately be larger than the contents"""
    return any(x["op"] in ("reserve", "moveassign", "copyassign", "swap", "movector") for x in spec)


def oracle_C10(L, K, lines, steps, spec):
    v = []
    for i in range(1, min(len(steps), len(spec))):
        sp = spec[i]
        if sp["op"] != "reserve":
            continue
        s = sp["args"][0]
        before, after = steps[i - 1]["vecs"].get(s), steps[i]["vecs"].get(s)
        if before is None or after is None:
            continue
        if after["cap"] < before["cap"]:
            v.append("step %d: reserve reduced capacity %d -> %d" % (i, before["cap"], after["cap"]))
        if after["size"] != before["size"]:
            v.append("step %d: reserve changed size %d -> %d" % (i, before["size"], after["size"]))
        if after["fixed"] != before["fixed"]:
            v.append("step %d: reserve changed fixed sizes" % i)
        bv = [[(c, h) for (_, c, h) in e["fields"]] for e in before["elems"]]
        avv = [[(c, h) for (_, c, h) in e["fields"]] for e in after["elems"]]
        if bv != avv and after["size"] == before["size"]:
            v.append("step %d: reserve changed stored values" % i)
        n = sp["args"][1]
        if n <= before["cap"]:
            if steps[i]["events"]:
                v.append("step %d: reserve(%d) within capacity %d touched the allocator" % (i, n, before["cap"]))
            if after != before:
                v.append("step %d: reserve(%d) within capacity %d changed the vector" % (i, n, before["cap"]))
        elif after["cap"] != n:
            v.append("step %d: reserve(%d) left capacity %d" % (i, n, after["cap"]))
    return v[:5]


STABLE_OPS = ("emplace", "popback", "clear", "erase", "eraserange")


def oracle_C16(L, K, lines, steps, spec):
    v = []
    last = {}      # slot -> its most recent observation (every operation observes what it touches)

    def where(ov):
        return [[(f[0], f[1]) for f in e["fields"]] for e in ov["elems"]]

    for i in range(0, min(len(steps), len(spec))):
        sp = spec[i]
        op = sp["op"]
        # swap / move construction exchange / hand over ownership: every stored object keeps the
        # address it had in the OTHER vector (seeded change C16i: swap left the fixed sizes behind)
        if op in ("swap", "movector") and len(sp["args"]) >= 2 and sp["args"][0] != sp["args"][1]:
            x, y = sp["args"][0], sp["args"][1]
            pairs = ((y, x), (x, y)) if op == "swap" else ((y, x),)
            for src, dst in pairs:
                b, a = last.get(src), steps[i]["vecs"].get(dst)
                if b is None or a is None:
                    continue
                if a["bid"] != b["bid"] or a["dbeg"] != b["dbeg"]:
                    v.append("step %d %s: vector %d does not hold the block vector %d held" % (i, op, dst, src))
                elif where(a) != where(b):
                    v.append("step %d %s: objects of vector %d are not where they were in vector %d: %r -> %r" % (i, op, dst, src, where(b)[:2], where(a)[:2]))
                elif a["fixed"] != b["fixed"]:
                    v.append("step %d %s: vector %d has fixed sizes %r, vector %d had %r" % (i, op, dst, a["fixed"], src, b["fixed"]))
        prev = dict(last)
        for s_, ov_ in steps[i]["vecs"].items():
            last[s_] = ov_
        for s_ in steps[i].get("null", {}):
            last.pop(s_, None)
        for s_ in steps[i].get("gone", []):
            last.pop(s_, None)
        if i == 0:
            continue
        if not sp["args"]:
            continue
        s = sp["args"][0]
        before, after = steps[i - 1]["vecs"].get(s), steps[i]["vecs"].get(s)
        noop_reserve = op == "reserve" and before is not None and sp["args"][1] <= before["cap"]
        allocs = [e for e in steps[i]["events"] if e[0] in ("A", "D")]
        if (op in STABLE_OPS or noop_reserve or op in ("swap", "movector")) and allocs:
            v.append("step %d %s: allocator called: %s" % (i, op, " ".join(allocs[0])))
        if before is None or after is None:
            continue
        if op in STABLE_OPS or noop_reserve:
            if after["bid"] != before["bid"] or after["dbeg"] != before["dbeg"] or after["cap"] != before["cap"]:
                v.append("step %d %s: block/data_begin()/capacity() changed" % (i, op))
            keep = len(before["elems"])
            if op == "popback":
                keep -= 1
            elif op == "clear":
                keep = 0
            elif op in ("erase", "eraserange"):
                keep = sp["args"][1]
            for e in range(min(keep, len(after["elems"]), len(before["elems"]))):
                bo = [f[0] for f in before["elems"][e]["fields"]]
                ao = [f[0] for f in after["elems"][e]["fields"]]
                if bo != ao:
                    v.append("step %d %s: objects of element %d moved: %r -> %r" % (i, op, e, bo, ao))
                    break
    return v[:5]


def oracle_C18(L, K, lines, steps, spec):
    v = []
    for i, (st, sp) in enumerate(zip(steps, spec)):
        for s in sp["touched"]:
            av = sp["slots"].get(s)
            if av is None or av.elems:
                continue
            if s in st["null"]:
                if st["null"][s] != 0:
                    v.append("step %d %s: empty vector reports size() %d" % (i, sp["op"], st["null"][s]))
                continue
            ov = st["vecs"].get(s)
            if ov is None:
                continue
            if ov["size"] != 0:
                v.append("step %d %s: empty vector reports size() %d" % (i, sp["op"], ov["size"]))
            if ov["dbeg"] != ov["dend"]:
                v.append("step %d %s: empty vector has data_begin() %d != data_end() %d" % (i, sp["op"], ov["dbeg"], ov["dend"]))
            if not (0 <= ov["dbeg"] <= ov["cons"]):
                v.append("step %d %s: data_begin() of empty vector outside its block (offset %d)" % (i, sp["op"], ov["dbeg"]))
    # comparison is well defined on empty vectors: == / < as for any other content
    v += oracle_C13(L, K, lines, steps, spec)
    v += oracle_C14(L, K, lines, steps, spec)
    # ... and then it behaves like any other vector: contents and alignment of what is stored afterwards
    v += oracle_C03(L, K, lines, steps, spec)
    v += content_mismatches(L, steps, spec)
    return v[:5]


# ---------------------------------------------------------------- comparisons

def obj_key(p, o):
    """total order key of one object = the value type's own operator<"""
    if p.ty in (lay.TUINT, lay.TU8, lay.TBYTE):
        return sum(b << (8 * i) for i, b in enumerate(o))
    if p.ty in (lay.TSINT, lay.TS8):
        v = sum(b << (8 * i) for i, b in enumerate(o))
        return v - (1 << (8 * len(o))) if v >> (8 * len(o) - 1) else v
    if p.ty == lay.TFLT:
        # IEEE-754 sign-magnitude (the generators produce no NaN): +0 and -0 have the same key
        v = sum(b << (8 * i) for i, b in enumerate(o))
        h = 1 << (8 * len(o) - 1)
        return -(v - h) if v >= h else v
    return tuple(o)


def elem_key(L, t):
    return tuple(tuple(obj_key(p, o) for o in f) for f, p in zip(t, L))


def cmp_operands(L, sp):
    """spec-level keys of the operands of a comparison step (Python tuple comparison is
    lexicographic with 'strict prefix is less': exactly std::tuple / std::vector semantics)"""
    a = sp["args"]
    if sp["op"] == "cmpvec":
        x, y = sp["slots"][a[0]], sp["slots"][a[1]]
        if getattr(x, "moved_elems", False) or getattr(y, "moved_elems", False):
            return None
        return tuple(elem_key(L, t) for t in x.elems), tuple(elem_key(L, t) for t in y.elems), ("vec", a[0], a[1])
    if sp["op"] == "cmpref":
        x, y = sp["slots"][a[0]], sp["slots"][a[2]]
        return elem_key(L, x.elems[a[1]]), elem_key(L, y.elems[a[3]]), ("ref", a[0], a[1], a[2], a[3])
    return None


def oracle_C13(L, K, lines, steps, spec):
    v = []
    for i, (st, sp) in enumerate(zip(steps, spec)):
        ops = cmp_operands(L, sp)
        if ops is None or "cmp" not in st:
            continue
        kx, ky, what = ops
        eq, ne = st["cmp"][0], st["cmp"][1]
        if bool(eq) != (kx == ky):
            v.append("step %d %s %s: operator== is %d but the operands %s the same elements, field sizes and values" % (
                i, sp["op"], what[1:], eq, "hold" if kx == ky else "do not hold"))
        if eq == ne:
            v.append("step %d %s: operator!= (%d) is not the negation of operator== (%d)" % (i, sp["op"], ne, eq))
    return v[:5]


def oracle_C14(L, K, lines, steps, spec):
    """C14 fixes the LAWS of the operators, that they depend on content only, and that the
    vector order is the lexicographical comparison under the element order; it does not say
    which strict order the element-level < is (the library's is a product order over the
    compared runs).  All of that is checked on the implementation's own results."""
    v = []
    seen = {}
    elem_lt = {}     # (content key, content key) -> observed element-level <
    vec_obs = []
    for i, (st, sp) in enumerate(zip(steps, spec)):
        ops = cmp_operands(L, sp)
        if ops is None or "cmp" not in st:
            continue
        kx, ky, what = ops
        eq, ne, lt, le, gt, ge = st["cmp"]
        if lt and eq:
            v.append("step %d %s %s: a < b and a == b" % (i, sp["op"], what[1:]))
        if lt and gt:
            v.append("step %d %s %s: a < b and b < a (not asymmetric)" % (i, sp["op"], what[1:]))
        if le != (not gt) or ge != (not lt):
            v.append("step %d %s %s: <= / >= are not the negations of > / <" % (i, sp["op"], what[1:]))
        if kx == ky and (lt or gt):
            v.append("step %d %s %s: operands with equal contents but a < b or b < a" % (i, sp["op"], what[1:]))
        seen[what] = (lt, gt)
        if what[0] == "ref":
            for key, val in (((kx, ky), lt), ((ky, kx), gt)):
                if key in elem_lt and elem_lt[key] != val:
                    v.append("step %d cmpref %s: element-level < differs between operands of equal contents" % (i, what[1:]))
                elem_lt[key] = val
        else:
            vec_obs.append((i, kx, ky, lt, gt, what))
    # vector < vector is std::lexicographical_compare under the element-level <
    for i, kx, ky, lt, gt, what in vec_obs:
        for a, b, obs, nm in ((kx, ky, lt, "<"), (ky, kx, gt, ">")):
            exp = None
            for ea, eb in zip(a, b):
                if (ea, eb) not in elem_lt or (eb, ea) not in elem_lt:
                    exp = "unknown"
                    break
                if elem_lt[(ea, eb)]:
                    exp = True
                    break
                if elem_lt[(eb, ea)]:
                    exp = False
                    break
            if exp is None:
                exp = len(a) < len(b)
            if exp != "unknown" and bool(obs) != exp:
                v.append("step %d cmpvec %s: operator%s is %d, the lexicographical comparison of the element sequences under the element-level < gives %d" % (i, what[1:], nm, obs, exp))
    # laws over the observed relation: irreflexive, mutually consistent, transitive
    rel = {}
    for what, (lt, gt) in seen.items():
        if what[0] == "vec":
            x, y = ("v", what[1]), ("v", what[2])
        else:
            x, y = ("r", what[1], what[2]), ("r", what[3], what[4])
        rel[(x, y)] = lt
        if x == y and lt:
            v.append("a < a holds for %r (not irreflexive)" % (x,))
    for (x, y), lt in rel.items():
        gt = seen[("vec", x[1], y[1]) if x[0] == "v" else ("ref", x[1], x[2], y[1], y[2])][1]
        if (y, x) in rel and rel[(y, x)] != gt:
            v.append("a > b (%d) differs from b < a (%d) for %r %r" % (gt, rel[(y, x)], x, y))
    nodes = {x for (x, _) in rel} | {y for (_, y) in rel}
    for x in nodes:
        for y in nodes:
            if rel.get((x, y)):
                for z in nodes:
                    if rel.get((y, z)) and (x, z) in rel and not rel[(x, z)]:
                        v.append("not transitive: a < b and b < c but not a < c for %r %r %r" % (x, y, z))
    return v[:5]


def live_blocks_after(steps):
    live = {}
    bad = []
    for i, st in enumerate(steps):
        for e in st["events"]:
            if e[0] == "A":
                live[int(e[4])] = (int(e[1]), int(e[2]), int(e[3]))
            elif e[0] == "D":
                b = int(e[4])
                if b not in live:
                    bad.append("step %d: block %d returned twice or never allocated" % (i, b))
                    continue
                aid, unit, n = live.pop(b)
                if (unit, n) != (int(e[2]), int(e[3])):
                    bad.append("step %d: block %d allocated as %d x %d bytes, returned as %d x %d" % (i, b, n, unit, int(e[3]), int(e[2])))
                if aid != int(e[1]):
                    bad.append(("aid", i, b, aid, int(e[1])))
    return live, bad


def oracle_C07(L, K, lines, steps, spec):
    v = []
    live, bad = live_blocks_after(steps)
    for b in bad:
        if isinstance(b, tuple):
            _, i, blk, a1, a2 = b
            if not alloc_eq(K, a1, a2):
                v.append("step %d: block %d allocated by allocator %d, returned through unequal allocator %d" % (i, blk, a1, a2))
        else:
            v.append(b)
    if spec and all(x is None for x in spec[-1]["slots"].values()) and len(steps) == len(spec) and \
            all(x is None for x in spec[-1].get("eslots", {}).values()):
        for b, (aid, unit, n) in live.items():
            v.append("all containers destroyed, block %d (%d x %d bytes, allocator %d) never returned" % (b, n, unit, aid))
    return v[:5]


def oracle_C08(L, K, lines, steps, spec):
    v = []
    owner = {}
    for i, (st, sp) in enumerate(zip(steps, spec)):
        for e in st["events"]:
            if e[0] == "A":
                owner[int(e[4])] = int(e[1])
        for s, ov in st["vecs"].items():
            av = sp["slots"].get(s)
            if av is None:
                continue
            if sp["op"] in ("copyctor", "copyassign", "moveassign", "swap", "movector", "mkvec") and ov["aid"] != av.aid and not (sp["op"] in ("moveassign", "copyassign", "swap") and K[3] and False):
                v.append("step %d %s: get_allocator() is %d, allocator_traits prescribe %d" % (i, sp["op"], ov["aid"], av.aid))
            if ov["bid"] in owner and not alloc_eq(K, owner[ov["bid"]], ov["aid"]):
                v.append("step %d %s: vector with allocator %d owns block %d of allocator %d" % (i, sp["op"], ov["aid"], ov["bid"], owner[ov["bid"]]))
        # ... and the same for every ContiguousElement: get_allocator() as allocator_traits
        # prescribe, and no block of an allocator unequal to it (seeded changes C07i, C08i)
        for s, oe in st.get("elems", {}).items():
            ae = sp.get("eslots", {}).get(s)
            if ae is None:
                continue
            if sp["op"] in ("efromref", "ecopy", "ecopyalloc", "emove", "emovealloc", "ecopyassign", "emoveassign", "eswap") and oe["aid"] != ae["aid"]:
                v.append("step %d %s: element %d get_allocator() is %d, allocator_traits prescribe %d" % (i, sp["op"], s, oe["aid"], ae["aid"]))
            if oe["bid"] in owner and not alloc_eq(K, owner[oe["bid"]], oe["aid"]):
                v.append("step %d %s: element %d with allocator %d owns block %d of allocator %d" % (i, sp["op"], s, oe["aid"], oe["bid"], owner[oe["bid"]]))
    return v[:5]


def oracle_C09(L, K, lines, steps, spec):
    v = []
    for i, (st, sp) in enumerate(zip(steps, spec)):
        if sp["op"] not in ("copyctor", "copyassign", "movector", "moveassign", "swap") and i > 0 and spec[i - 1]["op"] not in ("copyctor", "copyassign", "movector", "moveassign", "swap"):
            pass
        for s in sp["touched"]:
            av = sp["slots"].get(s)
            if av is None:
                continue
            if s in st["null"]:
                if st["null"][s] != len(av.elems):
                    v.append("step %d %s: slot %d size() = %d, expected %d" % (i, sp["op"], s, st["null"][s], len(av.elems)))
                continue
            ov = st["vecs"].get(s)
            if ov is None:
                continue
            if ov["size"] != len(av.elems):
                v.append("step %d %s: slot %d size() = %d, expected %d" % (i, sp["op"], s, ov["size"], len(av.elems)))
                continue
            if ov["fixed"] != av.fixed and not av.moved:
                v.append("step %d %s: slot %d fixed sizes %r, expected %r" % (i, sp["op"], s, ov["fixed"], av.fixed))
            if getattr(av, "moved_elems", False):
                continue
            for e, (oe, ae) in enumerate(zip(ov["elems"], av.elems)):
                for k, ((off, cnt, hx), af) in enumerate(zip(oe["fields"], ae)):
                    if cnt != len(af) or hx != hexof(af):
                        v.append("step %d %s: slot %d element %d field %d reads %s, expected %s" % (i, sp["op"], s, e, k, hx or "-", hexof(af) or "-"))
                        break
    return v[:5]


def oracle_C06_relocation(L, K, lines, steps, spec):
    """relocation goes through the value type's own copy/move constructor unless the type
    is trivially copyable: a growing reserve / a copy must report one move/copy construction
    per stored object of a non-trivially-constructible type"""
    v = []
    if all(not lay.ntc(p) for p in L):
        return v
    for i in range(1, min(len(steps), len(spec))):
        sp = spec[i]
        op, a = sp["op"], sp["args"]
        if op == "reserve":
            before = spec[i - 1]["slots"].get(a[0])
            if before is None or a[1] <= before.cap:
                continue
            src, kinds, mv = before, ("MC",), True
        elif op in ("copyctor", "copyassign") and a[0] != a[1]:
            src, kinds, mv = spec[i - 1]["slots"].get(a[1]), ("CC",), False
        else:
            continue
        if src is None:
            continue
        want = sum(len(f) for t in src.elems for f, p in zip(t, L) if lay.ntc(p, mv))
        got = sum(1 for e in steps[i]["events"] if e[0] in kinds)
        if got != want:
            v.append("step %d %s: %d objects of non-trivially-constructible types had to be relocated through their constructor, %d %s events seen" % (i, op, want, got, "/".join(kinds)))
    return v


def oracle_C06(L, K, lines, steps, spec):
    """live instrumented objects (constructed - destroyed) are exactly the objects of
    non-trivial fields of the logically held elements"""
    v = oracle_C06_relocation(L, K, lines, steps, spec)
    if v:
        return v[:5]
    if all(not lay.ntc(p) and not lay.ntd(p) for p in L) or any(p.ty in (lay.TTRKC, lay.TTRKCC, lay.TTRKMC) for p in L):
        # objects of trivially destructible instrumented types never report their end of
        # life: for such lists the event streams are compared with the model's only
        return v
    live = {}
    for i, (st, sp) in enumerate(zip(steps, spec)):
        for e in st["events"]:
            if e[0] in ("CT", "CC", "MC"):
                key = (int(e[1]), int(e[2]))
                if key in live:
                    v.append("step %d: object constructed on live object at block %d offset %d" % (i, key[0], key[1]))
                live[key] = int(e[3])
            elif e[0] == "DT":
                key = (int(e[1]), int(e[2]))
                if key not in live:
                    v.append("step %d: destructor on dead object at block %d offset %d" % (i, key[0], key[1]))
                live.pop(key, None)
        want = 0
        for s, av in sp["slots"].items():
            if av is None:
                continue
            for t in av.elems:
                want += sum(len(f) for f, p in zip(t, L) if p.ty == lay.TTRK)
        for s, ae in sp.get("eslots", {}).items():
            if ae is not None and not ae["null"]:
                want += sum(len(f) for f, p in zip(ae["t"], L) if p.ty == lay.TTRK)
        if len(live) != want:
            v.append("step %d %s: %d live instrumented objects, the containers logically hold %d" % (i, sp["op"], len(live), want))
            break
    return v[:5]


# ---------------------------------------------------------------- known findings
def tail_ok(L):
    """NeededThm.tail_ok (SA L) true L: the lists for which the needed-memory formula is PROVED
    sufficient (C02_varying_capacity_sufficient) - an overrun there is never the known finding"""
    S0, b = lay.SA(L), True
    for i, p in enumerate(L):
        if i == len(L) - 1:
            return p.kind == lay.VARYING or b or p.align == S0
        b = False if p.kind == lay.VARYING else (b or p.align == S0)
    return b


def list_has_tail_after_varying(L):
    last = max((i for i, p in enumerate(L) if p.kind == lay.VARYING), default=None)
    return last is not None and last != len(L) - 1 and not tail_ok(L)


KEYS = {
    # C02/C10: block overrun within the documented limits, on a list with a plain/fixed
    # parameter after its last VaryingSize parameter (needed-memory under-estimate)
    "needed-tail-after-varying": lambda prop, v: list_has_tail_after_varying(v["L"]) and v["kind"] in ("oracle", "correspondence") and
        any(("GUARD" in x or "outside the" in x or "element-outside-block" in x or "exceeds memory_consumption" in x) for x in (v.get("oracle") or []) + [v["detail"]]),
}


def erase_overlap_key(prop, v):
    """C01/C06: the first failing step is an erase on a non-trivially-relocatable VaryingSize
    list that moves some element by fewer bytes than the element is long"""
    import gen
    L = v["L"]
    if lay.all_triv(L) or not lay.has_varying(L) or not v.get("script"):
        return False
    texts = (v.get("oracle") or []) + [v["detail"]]
    m = None
    for x in texts:
        m = re.match(r"step (\d+)", x) or m
    # replay the spec machine up to the first erase whose move overlaps
    try:
        spec = simulate(L, v["K"], v["script"])
    except Exception:
        return False
    first_overlap = None
    for i, sp in enumerate(spec):
        if sp["op"] in ("erase", "eraserange") and i > 0:
            s = sp["args"][0]
            before = spec[i - 1]["slots"].get(s)
            if before is None:
                continue
            a, b = (sp["args"][1], sp["args"][1] + 1) if sp["op"] == "erase" else (sp["args"][1], sp["args"][2])
            sv = gen.SpecVec(L, 0, 0, before.fixed, 0, v["K"])
            sv.elems = [[list(f) for f in t] for t in before.elems]
            if a != b and sv.erase_overlaps(a, b):
                first_overlap = i
                break
    if first_overlap is None:
        return False
    # the finding explains a failure at or after that step only
    steps = [int(mm.group(1)) for x in texts for mm in [re.match(r"step (\d+)", x)] if mm]
    return (not steps) or min(steps) >= first_overlap


KEYS["erase-nontrivial-overlap"] = erase_overlap_key


def move_assign_units_key(prop, v):
    """C05: element-wise move assignment (unequal, non-propagating, not always-equal
    allocators) into a smaller vector allocates SA times the source's block"""
    K = v["K"]
    if K[1] or K[3] or lay.SA(v["L"]) <= 1:
        return False
    texts = (v.get("oracle") or []) + [v["detail"]]
    return any(re.match(r"step \d+ moveassign: memory_consumption\(\)", x) for x in texts)


KEYS["move-assign-units"] = move_assign_units_key


def emplace_position_scratch_key(prop, v):
    """C02: emplace(position, args...) shifts the elements through the bytes BEHIND data_end():
    it needs room for one element more than the vector holds afterwards.  Explains an
    out-of-block access (guard zone, fence page) in a step that is an emplace(position) after
    which the vector is full, on a list without VaryingSize parameter - and nothing earlier"""
    L = v["L"]
    if lay.has_varying(L) or not v.get("script"):
        return False
    texts = (v.get("oracle") or []) + [v["detail"]]
    if not any(("GUARD" in x or "ended abnormally: CRASH SIGSEGV" in x) for x in texts):
        return False
    steps = [int(mm.group(1)) for x in texts for mm in [re.search(r"\(in step (\d+)\)", x) or re.match(r"step (\d+)", x)] if mm]
    if not steps:
        return False
    try:
        spec = simulate(L, v["K"], v["script"])
    except Exception:
        return False
    i = min(steps)
    if i >= len(spec) or spec[i]["op"] != "emplaceat":
        return False
    after = spec[i]["slots"].get(spec[i]["args"][0])
    return after is not None and len(after.elems) == after.cap


KEYS["emplace-position-scratch"] = emplace_position_scratch_key


def less_product_order_key(prop, v):
    """C14: element-level < is the conjunction of < over the compared runs/fields (a strict
    partial order); std::lexicographical_compare over it is not transitive.  Explains a
    transitivity failure of vector < on a list whose elements have two or more components"""
    if lay.lex_components(v["L"]) < 2:
        return False
    texts = (v.get("oracle") or []) + [v["detail"]]
    return all(x.startswith("not transitive") and "('v'," in x for x in texts)


KEYS["less-product-order"] = less_product_order_key


# findings the model carries exactly: a violation only counts as that finding when the model
# predicts the very same observations (modulo alarm lines) - a different defect at the same
# call site changes what the implementation does and is reported as a violation
MODEL_CARRIES = {"needed-tail-after-varying", "move-assign-units", "less-product-order", "emplace-position-scratch"}


def known_key(prop, v, known):
    for k in known:
        f = KEYS.get(k["key"])
        if f is not None and f(prop, v):
            if k["key"] in MODEL_CARRIES and not v.get("model_agrees", False):
                continue
            return k
    return None
