#!/usr/bin/env python3
"""check.py --property Cxx --tier quick|thorough [--replay FILE]

Decides one property: (1) the Coq development builds from clean sources with the
property's theorems present and free of forbidden constructs; (2) the real headers of
/repo's working tree are compiled into generated harness units and run on generated
scripts; the OCaml extraction of the Coq model predicts the observations; the streams are
compared (the correspondence); (3) on a disagreement the failing script is shrunk and a
property oracle looks for a concrete input on which the property fails on the
implementation.  Exit 0 / exit 1 + 'VIOLATION property=<id> replay=<path>'."""
import argparse
import concurrent.futures as cf
import hashlib
import json
import os
import random
import re
import subprocess
import sys
import time

HERE = os.path.dirname(os.path.abspath(__file__))
ROOT = os.path.dirname(HERE)
sys.path.insert(0, HERE)
import gen
import layout as lay
import oracles
import families

REPO = os.environ.get("CNTGS_REPO", "/repo")
BUILD = os.path.join(ROOT, "build")
MODEL = os.path.join(BUILD, "model", "model_run")
CXXFLAGS = ["-std=c++17", "-O0", "-fno-access-control", "-DNDEBUG", "-DCNTGS_VERIF", "-w", "-pthread"]


def sh(cmd, **kw):
    try:
        return subprocess.run(cmd, stdout=subprocess.PIPE, stderr=subprocess.STDOUT, text=True, **kw)
    except subprocess.TimeoutExpired as e:
        out = e.stdout or ""
        if isinstance(out, bytes):
            out = out.decode(errors="replace")
        return subprocess.CompletedProcess(cmd, 124, out + "\nTIMEOUT after %ss: %s\n" % (kw.get("timeout"), " ".join(map(str, cmd[:3]))), None)


# ---------------------------------------------------------------- proof step
FORBIDDEN = re.compile(r"\b(Admitted|admit|Axiom|Parameter|Conjecture|bypass_check|Unset Guard|type-in-type|Admit Obligations)\b")


def proof_step(prop, tier):
    """Build the Coq development (incremental full .vo build), make sure the property
    file exists, contains no forbidden construct, and collect Print Assumptions output."""
    info = {"obligations": 0, "discharged": 0, "theorems": [], "assumptions": {}, "errors": []}
    coqdir = os.path.join(ROOT, "coq")
    if tier == "thorough":
        sh(["make", "-C", ROOT, "clean"])
    r = sh(["make", "-C", ROOT, "setup"], timeout=3000)
    if r.returncode != 0:
        info["errors"].append("coq/model build failed:\n" + r.stdout[-3000:])
    # forbidden constructs anywhere in the development
    for fn in sorted(os.listdir(coqdir)):
        if fn.endswith(".v"):
            text = open(os.path.join(coqdir, fn)).read()
            text_nc = re.sub(r"\(\*.*?\*\)", "", text, flags=re.S)
            for m in FORBIDDEN.finditer(text_nc):
                info["errors"].append("%s: forbidden construct %r" % (fn, m.group(0)))
    pf = os.path.join(coqdir, "Properties_%s.v" % prop)
    if not os.path.exists(pf):
        info["errors"].append("no theorem file Properties_%s.v" % prop)
        return info
    text = open(pf).read()
    thms = re.findall(r"^\s*Theorem\s+(\w+)", text, flags=re.M)
    info["theorems"] = thms
    info["obligations"] = len(thms)
    vo = pf[:-2] + ".vo"
    if os.path.exists(vo) and os.path.getmtime(vo) >= os.path.getmtime(pf):
        info["discharged"] = len(thms)
    else:
        info["errors"].append("Properties_%s.vo missing or stale" % prop)
    # Print Assumptions output (re-run coqc on the property file only: seconds)
    r = sh(["coqc", "-Q", coqdir, "Cntgs", pf], cwd=coqdir, timeout=900)
    if r.returncode != 0:
        info["errors"].append("coqc Properties_%s.v failed:\n%s" % (prop, r.stdout[-2000:]))
        info["discharged"] = 0
    out = r.stdout
    closed = out.count("Closed under the global context")
    axioms = re.findall(r"^(\w[\w.']*)\s*:", out, flags=re.M)
    info["assumptions"] = {"closed_under_global_context": closed, "axioms_listed": sorted(set(axioms))}
    allowed = set()
    for a in set(axioms):
        if a not in allowed:
            info["errors"].append("theorem depends on axiom %s" % a)
    if tier == "thorough":
        r = sh(["coqchk", "-silent", "-o", "-Q", coqdir, "Cntgs", "Cntgs.Properties_%s" % prop], cwd=coqdir, timeout=3000)
        info["coqchk"] = r.stdout[-1500:]
        if r.returncode != 0:
            info["errors"].append("coqchk failed")
    return info


# ---------------------------------------------------------------- units
def src_hash():
    h = hashlib.sha1()
    for base in [os.path.join(REPO, "src", "cntgs"), os.path.join(ROOT, "harness")]:
        for dp, dn, fns in sorted(os.walk(base)):
            dn.sort()
            for fn in sorted(fns):
                p = os.path.join(dp, fn)
                h.update(p.encode())
                h.update(open(p, "rb").read())
    h.update(" ".join(CXXFLAGS).encode())
    return h.hexdigest()[:16]


def build_unit(args):
    text, shash, extra = args
    key = hashlib.sha1((shash + text + " ".join(extra)).encode()).hexdigest()[:16]
    d = os.path.join(BUILD, "units", shash, key)
    exe = os.path.join(d, "unit")
    if os.path.exists(exe):
        return exe, None, True
    os.makedirs(d, exist_ok=True)
    # two jobs of one run can share a unit: private file names, atomic publish
    import threading
    uniq = "%d_%d" % (os.getpid(), threading.get_ident())
    src = os.path.join(d, "unit_%s.cpp" % uniq)
    open(src, "w").write(text)
    tmp = exe + ".tmp" + uniq
    r = sh(["g++"] + CXXFLAGS + extra + ["-I" + os.path.join(REPO, "src"), "-I" + os.path.join(ROOT, "harness"), src, "-o", tmp], timeout=600)
    try:
        os.remove(src)
    except OSError:
        pass
    if r.returncode != 0:
        return None, r.stdout, False
    os.replace(tmp, exe)
    return exe, None, False


def prune_cache(shash_keep):
    """drop unit binaries built for other source trees (disk is limited).  Units live under
    build/units/<hash of headers + harness + flags>/; directories of other hashes are removed
    once they have not been used for three hours, so that two runs on different trees (a
    seeded change in a scratch worktree next to the unchanged tree) do not evict each other"""
    ud = os.path.join(BUILD, "units")
    os.makedirs(os.path.join(ud, shash_keep), exist_ok=True)
    os.utime(os.path.join(ud, shash_keep), None)
    now = time.time()
    for name in os.listdir(ud):
        p = os.path.join(ud, name)
        if name == shash_keep:
            continue
        try:
            if not os.path.isdir(p) or now - os.path.getmtime(p) > 3 * 3600:
                subprocess.run(["rm", "-rf", p])
        except OSError:
            pass


# ---------------------------------------------------------------- running
def split_blocks(text):
    """-> (header lines, {script id: [lines]})"""
    header, blocks, cur = [], {}, None
    for line in text.splitlines():
        if line.startswith("BEGIN "):
            cur = line.split()[1]
            blocks[cur] = []
        elif line == "END":
            cur = None
        elif cur is None:
            header.append(line)
        else:
            blocks[cur].append(line)
    return header, blocks


def canon(lines):
    """drop model-only RAW lines; events within one step compare as a multiset"""
    out, evs = [], []
    for l in lines:
        if l.startswith("RAW"):
            continue
        if l.startswith("EV "):
            evs.append(l)
            continue
        if evs:
            out += sorted(evs)
            evs = []
        out.append(l)
    out += sorted(evs)
    return out


def run_pair(exe, script_path):
    ri = sh([exe, script_path], timeout=900)
    rm = sh([MODEL, script_path], timeout=900)
    if os.environ.get("VERIF_DUMP"):
        open(os.environ["VERIF_DUMP"] + ".impl", "w").write(ri.stdout)
        open(os.environ["VERIF_DUMP"] + ".model", "w").write(rm.stdout)
    return ri.stdout, rm.stdout, ri.returncode, rm.returncode


MARKERS = ("GUARD", "LIFE", "BADFREE", "PATHERR", "CRASH", "EXIT")


def strip_markers(lines):
    """alarm lines exist on the implementation side only; two streams that differ in nothing
    else agree: the faithful model carries the same behaviour"""
    # (lifetime events of objects that end up outside their block cannot be attributed by the
    # harness: they are not part of this comparison either; allocation events are)
    return [l for l in lines if not l.startswith(MARKERS) and not (l.startswith("EV ") and l.split()[1] not in ("A", "D", "AFAIL"))]


def model_agrees(impl, model):
    """the faithful model predicts the implementation's observations (alarm lines aside).  Once
    the implementation has written outside its block (guard zone hit, element outside the
    block) or died, what it shows afterwards is not meaningful - the harness restores the guard
    bytes the element was written over: agreement is required up to that point"""
    cut = None
    for i, l in enumerate(impl):
        if l.startswith("CRASH") or l.startswith("GUARD") or l.startswith("PATHERR element-outside-block"):
            cut = i
            break
    a = canon(strip_markers(impl if cut is None else impl[:cut]))
    b = canon(strip_markers(model))
    if cut is None:
        return first_diff(a, b) is None
    # the last (incomplete) step of the prefix: compare line by line up to the cut
    last = max((i for i, l in enumerate(a) if l.startswith("STEP")), default=0)
    return a[:last] == b[:last] and all(x in b[last:last + 4 * (len(a) - last) + 8] for x in a[last:])


def first_diff(a, b):
    for i, (x, y) in enumerate(zip(a, b)):
        if x != y:
            return i, x, y
    if len(a) != len(b):
        i = min(len(a), len(b))
        return i, (a[i] if i < len(a) else "<end>"), (b[i] if i < len(b) else "<end>")
    return None


# ---------------------------------------------------------------- known findings
def load_known():
    known = []
    p = os.path.join(ROOT, "known_findings.txt")
    if os.path.exists(p):
        for line in open(p):
            line = line.strip()
            if line.startswith("known:"):
                m = re.match(r"known:\s+property=(\w+)\s+key=(\S+)\s+(.*)", line)
                if m:
                    known.append({"property": m.group(1), "key": m.group(2), "what": m.group(3)})
    return known


def main():
    ap = argparse.ArgumentParser()
    ap.add_argument("--property", required=True)
    ap.add_argument("--tier", default=os.environ.get("VERIF_TIER", "quick"))
    ap.add_argument("--replay")
    ap.add_argument("--skip-proof", action="store_true")
    args = ap.parse_args()
    prop, tier = args.property, args.tier
    seed = int(os.environ.get("VERIF_SEED", "1"))
    t0 = time.time()
    fam = families.FAMILIES[prop]

    proof = {"obligations": 0, "discharged": 0, "theorems": [], "errors": [], "assumptions": {}}
    if not args.skip_proof:
        proof = proof_step(prop, tier)
    if not os.path.exists(MODEL):
        print("model runner missing; run make -C /verif setup")
        sys.exit(2)

    shash = src_hash()
    prune_cache(shash)
    rng = random.Random(seed * 7919 + sum(map(ord, prop)))
    os.makedirs(os.path.join(BUILD, "run", prop), exist_ok=True)
    rundir = os.path.join(BUILD, "run", prop)

    violations = []     # dicts: kind, detail, replay text
    known_hits = {}
    stats = {"units": 0, "units_cached": 0, "scripts": 0, "steps": 0, "ops": {}, "lines_compared": 0,
             "disagreements": 0, "lists": []}
    samples = []

    if args.replay:
        jobs = families.replay_jobs(args.replay)
    else:
        jobs = fam.corpus(prop) + fam.jobs(rng, tier)           # list of Job(L, K, header_statics, scripts=[(id, lines, expect)], extra flags)

    # compile
    texts = [(gen.unit_text(j.L, j.K) if j.unit_text is None else j.unit_text, shash, j.cxx_extra) for j in jobs]
    tc = time.time()
    with cf.ThreadPoolExecutor(max_workers=16) as ex:
        built = list(ex.map(build_unit, texts))
    stats["t_compile"] = round(time.time() - tc, 1)
    runnable = []
    for j, (exe, err, cached) in zip(jobs, built):
        stats["units"] += 1
        stats["units_cached"] += 1 if cached else 0
        if exe is None:
            violations.append({"kind": "does-not-compile", "L": j.L, "K": j.K, "detail": err[-3000:], "script": [],
                               "header": gen.header_text(j.L, j.K)})
            continue
        j.exe = exe
        runnable.append(j)

    def run_job(j):
        path = os.path.join(rundir, "job_%s.script" % hashlib.sha1((repr(j.L) + repr(j.K) + j.tag).encode()).hexdigest()[:12])
        with open(path, "w") as f:
            if getattr(j, "raw_file", None) is not None:
                f.write(j.raw_file)
            else:
                f.write(gen.header_text(j.L, j.K, j.statics))
                for sid, lines, _ in j.scripts:
                    f.write("BEGIN %s\n%s\nEND\n" % (sid, "\n".join(lines)))
        return (j,) + run_pair(j.exe, path)

    tr = time.time()
    with cf.ThreadPoolExecutor(max_workers=16) as ex:
        results = list(ex.map(run_job, runnable))
    stats["t_run"] = round(time.time() - tr, 1)

    def evaluate(results):
        for j, iout, mout, irc, mrc in results:
            ih, ib = split_blocks(iout)
            mh, mb = split_blocks(mout)
            stats["lists"].append(repr(j.L))
            if mrc != 0:
                violations.append({"kind": "model-runner-failed", "L": j.L, "K": j.K, "detail": mout[-2000:], "script": [],
                                   "header": gen.header_text(j.L, j.K, j.statics)})
                continue
            # static layout lines
            d = None if getattr(j, "skip_header", False) else first_diff(ih, mh)
            static_ok = d is None
            stats["lines_compared"] += len(mh)
            if d is not None:
                stats["disagreements"] += 1
                violations.append({"kind": "static-layout-disagrees", "L": j.L, "K": j.K,
                                   "detail": "impl: %s | model: %s" % (d[1], d[2]), "script": [],
                                   "header": gen.header_text(j.L, j.K, j.statics)})
            for sid, lines, expect in j.scripts:
                stats["scripts"] += 1
                stats["steps"] += len(lines)
                for l in lines:
                    o = l.split()[0]
                    stats["ops"][o] = stats["ops"].get(o, 0) + 1
                il, ml = canon(ib.get(sid, ["<missing>"])), canon(mb.get(sid, ["<missing>"]))
                stats["lines_compared"] += len(ml)
                if len(samples) < 3 and len(lines) > 3:
                    samples.append({"list": repr(j.L), "alloc_kind": list(j.K), "script": lines[:12]})
                # the property oracle runs on the implementation's own observations
                ov = oracles.check(prop, j.L, j.K, lines, ib.get(sid, ["<missing>"]), expect)
                # scripts that deliberately enter a region where model and implementation are known
                # to differ (recorded finding of ANOTHER property) are judged by the oracle alone
                oracle_only = isinstance(expect, dict) and expect.get("oracle_only")
                d = None if oracle_only else first_diff(il, ml)
                if oracle_only:
                    stats["oracle_only_scripts"] = stats.get("oracle_only_scripts", 0) + 1
                if d is not None:
                    stats["disagreements"] += 1
                if (ov or d is not None) and getattr(j, "lists", None):
                    # static sweep: the replay is an ordinary unit of that list with the same static lines
                    Lx = j.lists[sid]
                    violations.append({"kind": "static-layout-disagrees", "L": Lx, "K": j.K,
                                       "detail": "impl: %s | model: %s" % (d[1], d[2]) if d is not None else ov[0],
                                       "script": [], "header": gen.header_text(Lx, j.K, lines)})
                elif ov or d is not None:
                    violations.append({"kind": "oracle" if ov else "correspondence", "L": j.L, "K": j.K,
                                       "detail": (ov[0] if ov else "impl: %s | model: %s (line %d)" % (d[1], d[2], d[0])),
                                       "oracle": ov, "script": lines, "sid": sid, "job": j,
                                       "signature": ("o:" + re.sub(r"[0-9]+", "#", ov[0])[:48]) if ov else
                                                    "d:%s|%s" % ((d[1].split() or ["<end>"])[0], (d[2].split() or ["<end>"])[0]),
                                       "model_agrees": static_ok and model_agrees(ib.get(sid, []), mb.get(sid, [])),
                                       "model_agrees_static": static_ok,
                                       "header": gen.header_text(j.L, j.K, j.statics)})


    evaluate(results)

    # ---- a broken static layout on a swept list: search that list for a failing input
    swept = [v for v in violations if v["kind"] == "static-layout-disagrees" and not v["script"] and v["L"]]
    if swept and not args.replay:
        def flips(v):
            """does the differing static line change a decision of the placement code? (a trailing
            alignment that differs without crossing the next field's alignment changes nothing)"""
            m = re.match(r"impl: TRAILS ([\d ]+) \| model: TRAILS ([\d ]+)", v["detail"])
            if not m:
                return 1
            a, b = [int(x) for x in m.group(1).split()], [int(x) for x in m.group(2).split()]
            L = v["L"]
            nxt = [p.align for p in L[1:]] + [lay.SA(L)]
            return 0 if any((x < al) != (y < al) for x, y, al in zip(a, b, nxt)) else 2
        swept.sort(key=flips)
        seen_l, extra = set(), []
        for v in swept:
            key = repr(v["L"])
            if key in seen_l or len(extra) >= 16:
                continue
            seen_l.add(key)
            extra += families.followup_jobs(prop, v["L"], rng)
        built = []
        with cf.ThreadPoolExecutor(max_workers=16) as ex:
            built = list(ex.map(build_unit, [(gen.unit_text(j.L, j.K), shash, j.cxx_extra) for j in extra]))
        more = []
        for j, (exe, err, cached) in zip(extra, built):
            if exe is not None:
                j.exe = exe
                more.append(j)
        with cf.ThreadPoolExecutor(max_workers=16) as ex:
            evaluate(list(ex.map(run_job, more)))
        stats["followup_units"] = len(more)

    # ---- verdict
    known = [k for k in load_known() if k["property"] == prop]
    reported = []
    os.makedirs(os.path.join(ROOT, "replays"), exist_ok=True)
    exit_code = 0
    for e in proof["errors"]:
        path = os.path.join(ROOT, "replays", "%s_proof.txt" % prop)
        open(path, "w").write("proof obligation / development check failed for %s:\n%s\n" % (prop, e))
        print("VIOLATION property=%s replay=%s no-failing-input-found" % (prop, path))
        exit_code = 1
        break
    # group violations; shrink the first few
    seen_kinds = set()
    ts = time.time()
    nshrunk = 0
    # failing inputs found by the oracle are reported first
    violations.sort(key=lambda v: {"oracle": 0, "does-not-compile": 1, "correspondence": 2}.get(v["kind"], 3))
    for v in violations:
        v0 = None
        if v["kind"] in ("oracle", "correspondence") and not args.replay and nshrunk < 4:
            nshrunk += 1
            v0 = v
            v = families.shrink(v, prop, run_pair, canon, split_blocks, first_diff, oracles, rundir, strip_markers)
        if v0 is not None and v is not v0:
            v = dict(v)
            v.setdefault("unshrunk_detail", v0["detail"])
            v.setdefault("unshrunk_len", len(v0["script"]))
            v.setdefault("unshrunk_script", list(v0["script"]))
        kkey = oracles.known_key(prop, v, known)
        if os.environ.get("CHECK_DEBUG"):
            print("DEBUG %s kind=%s known=%s agrees=%s L=%r K=%r :: %s" % (prop, v["kind"], kkey and kkey["key"], v.get("model_agrees"), v["L"], v["K"], v["detail"][:200].replace("\n", " ")), file=sys.stderr)
        if kkey is not None:
            known_hits.setdefault(kkey["key"], kkey)
            continue
        sig = (v["kind"], (v.get("oracle") or [v["detail"]])[0][:40])
        if sig in seen_kinds and len(reported) >= 3:
            continue
        seen_kinds.add(sig)
        rid = hashlib.sha1((v["header"] + "\n".join(v["script"]) + v["detail"]).encode()).hexdigest()[:10]
        path = os.path.join(ROOT, "replays", "%s_%s.script" % (prop, rid))
        with open(path, "w") as f:
            f.write("# property %s: %s\n# %s\n# list %r  allocator kind %r\n" % (prop, v["kind"], v["detail"].replace("\n", "\n# "), v["L"], v["K"]))
            if v.get("unshrunk_detail") and v["unshrunk_detail"] != v["detail"]:
                f.write("# before shrinking (%d operations): %s\n" % (v["unshrunk_len"], v["unshrunk_detail"].replace("\n", " ")))
                for l in v.get("unshrunk_script", [])[:200]:
                    f.write("#   %s\n" % l)
            f.write(v["header"])
            f.write("BEGIN replay\n%s\nEND\n" % "\n".join(v["script"]))
        tail = "" if v.get("oracle") or v["kind"] == "does-not-compile" and False else ""
        if not v.get("oracle"):
            tail = " no-failing-input-found"
        if len(reported) < 5:
            print("VIOLATION property=%s replay=%s%s" % (prop, path, tail))
        reported.append(path)
        exit_code = 1
    for k in known_hits.values():
        print("KNOWN-FINDING: property=%s %s" % (prop, k["what"]))

    # ---- evidence
    ev = {
        "property_id": prop, "tier": tier, "seed": seed, "level": "proof",
        "coverage": {
            "obligations": proof["obligations"], "discharged": proof["discharged"],
            "checker_cmd": "make -C /verif setup (coq_makefile full .vo build) && coqc -Q coq Cntgs coq/Properties_%s.v%s" % (prop, "; coqchk -o" if tier == "thorough" else ""),
            "trusted_base": ["Coq 8.16.1 kernel (vm_compute used in Examples)", "extraction (ExtrOcamlBasic only) + ocaml/driver.ml",
                             "harness/driver.hpp + tools/*.py (correspondence check)", "g++ 12.2 -O0"],
            "theorems": proof["theorems"], "print_assumptions": proof.get("assumptions", {}),
            "correspondence": {k: stats[k] for k in ("units", "units_cached", "scripts", "steps", "lines_compared", "disagreements")},
            "ops_distribution": stats["ops"], "generator_stats": fam.stats(),
            "lists": sorted(set(stats["lists"]))[:60],
            "evaluations": stats["scripts"], "distinct_nontrivial": len({tuple(s[1]) for j in jobs for s in j.scripts if len(s[1]) > 2}),
            "rule": "scripts generated from VERIF_SEED against a spec machine; non-trivial = more than 2 operations; distinct by text",
            "samples": samples or [{"note": "no script with more than 3 steps in this run"}],
            "known_findings_hit": sorted(known_hits),
        },
        "assumptions": ["no size_t overflow", "allocator returns distinct suitably aligned blocks",
                        "model and implementation agree beyond the sampled inputs (tested, not proved)"],
        "wall_s": round(time.time() - t0, 2), "violations": len(reported),
    }
    # a run without the proof step (development only) is not evidence: keep it out of evidence/
    evdir = os.path.join(BUILD, "evidence_skip_proof") if (args.skip_proof or args.replay) else os.path.join(ROOT, "evidence")
    os.makedirs(evdir, exist_ok=True)
    json.dump(ev, open(os.path.join(evdir, "%s.json" % prop), "w"), indent=1)
    print("timing: compile %.1fs run %.1fs shrink %.1fs" % (stats.get("t_compile", 0), stats.get("t_run", 0), time.time() - ts))
    print("%s %s: %d units, %d scripts, %d steps, %d lines compared, %d disagreements, %d violations, %d known; %.1fs" % (
        prop, tier, stats["units"], stats["scripts"], stats["steps"], stats["lines_compared"], stats["disagreements"], len(reported), len(known_hits), time.time() - t0))
    sys.exit(exit_code)


if __name__ == "__main__":
    main()
