"""C15: catalogue of (stored type, source type, source form) cases, the C++ units that
instantiate them, and scripts with the values."""
import hashlib

CXX = {0: "bool", 1: "std::uint8_t", 2: "signed char", 3: "std::uint16_t", 4: "std::int16_t", 5: "std::uint32_t",
       6: "std::int32_t", 7: "std::uint64_t", 8: "std::int64_t", 9: "float", 10: "double", 11: "vc::E8", 12: "vc::E32",
       13: "vc::D*", 14: "vc::B2*", 15: "vc::B1*", 16: "vc::Fahr", 17: "vc::Cels", 18: "vc::Wrap", 19: "vc::Mv", 20: "vc::Raw", 21: "vc::Handle", 22: "vc::Tok"}
SIZE = {0: 1, 1: 1, 2: 1, 3: 2, 4: 2, 5: 4, 6: 4, 7: 8, 8: 8, 9: 4, 10: 8, 11: 1, 12: 4, 13: 8, 14: 8, 15: 8, 16: 4, 17: 4, 18: 4, 19: 8, 20: 4, 21: 8, 22: 8}
SIGNED = {2, 4, 6, 8, 12, 16, 17, 18}
# (T, U): stored type <- source type
PAIRS = [(1, 1), (6, 6), (9, 9), (10, 10), (7, 7), (0, 0), (11, 11), (16, 16), (19, 19), (13, 13),
         (0, 1), (0, 2), (1, 0), (2, 1), (1, 2), (3, 4), (4, 3), (5, 6), (6, 5), (7, 8), (8, 7),
         (5, 9), (9, 5), (9, 6), (6, 9), (10, 8), (8, 10), (7, 10), (10, 7),
         (6, 12), (5, 12), (8, 12), (12, 12),      # unscoped enum -> integers (a scoped enum or an enum target is not constructible from an integer)
         (3, 1), (5, 1), (4, 6), (0, 5),
         (14, 13), (15, 13),
         (17, 16), (6, 18), (8, 18), (5, 18),
         (21, 20), (20, 20), (21, 21),
         (22, 22)]           # trivially copy constructible, move constructor user-provided            # Handle <- Raw: T(item) vs T(std::move(item)) differ for a trivially copyable source
FORMS_FIXED = [(0, 0), (0, 1), (1, 0), (1, 1), (2, 0), (3, 0), (3, 1), (4, 0), (5, 0), (6, 0), (7, 0), (8, 0), (9, 0)]
FORMS_VARYING = [(0, 0), (0, 1), (1, 0), (2, 0)]


def catalogue():
    cases = []
    for (t, u) in PAIRS:
        for (f, rv) in FORMS_FIXED:
            if u == 0 and f in (5, 7, 9):
                continue                # no std::vector<bool>::iterator games
            cases.append((t, u, f, rv, 0))
        for (f, rv) in FORMS_VARYING:
            cases.append((t, u, f, rv, 1))
    return cases


NUNITS = 6


def unit_texts():
    cases = catalogue()
    units = []
    for j in range(NUNITS):
        body = ['#include "construct.hpp"', "static vc::CaseFn lookup(long k) {", "    switch (k) {"]
        for k, (t, u, f, rv, var) in enumerate(cases):
            if k % NUNITS == j:
                body.append("    case %d: return &vc::run_case<%s, %s, %d, %s, %s>;" % (
                    k, CXX[t], CXX[u], f, "true" if rv else "false", "true" if var else "false"))
        body += ["    default: return nullptr;", "    }", "}",
                 "int main(int argc, char** argv) { return vc::run_main(argc, argv, &lookup); }", ""]
        units.append("\n".join(body))
    return units


def rand_value(u, rng, t=None):
    """a value of source type u (biased to the interesting ones); conversions to and from
    floating point only see small non-negative integers (exactly representable)"""
    if t in (9, 10) and u not in (9, 10):
        return rng.choice([0, 1, 2, 3, 7, 100, 255]) if u != 0 else rng.choice([0, 1])
    if u == 0:
        return rng.choice([0, 1])
    if u == 13:
        return 24 * rng.randrange(0, 100)
    if u in (9, 10):
        return rng.choice([0, 1, 2, 3, 7, 255, 256, 1000, 65535, 100000])
    if u in (19, 22):
        return rng.choice([0, 1, 2, 77, 12345, 2 ** 31 - 1])
    if u == 20:
        return rng.choice([0, 1, 2, 77, 12345, 2 ** 31 - 1])
    if u == 21:
        return rng.choice([0, 1, 2, 77, 12345, 2 ** 31 - 1]) + rng.choice([0, 1]) * 2 ** 32
    bits = 8 * SIZE[u]
    if u in (16, 17):
        return rng.choice([-40, 0, 31, 32, 33, 100, 212, -1, 10 ** 8, -10 ** 8, 451])     # (f - 32) * 5 must not overflow
    if u == 18:
        return rng.choice([-40, 0, 31, 32, 33, 100, 212, -1, 2 ** 31 - 3, -2 ** 31, 451])
    if u in SIGNED:
        return rng.choice([0, 1, 2, -1, -2, 2 ** (bits - 1) - 1, -2 ** (bits - 1), 100 % 2 ** (bits - 1), rng.randrange(-2 ** (bits - 1), 2 ** (bits - 1))])
    return rng.choice([0, 1, 2, 3, 2 ** bits - 1, 2 ** (bits - 1), 128 % 2 ** bits, rng.randrange(0, 2 ** bits)])


def gen_scripts(rng, unit, nscripts):
    """scripts for unit number `unit`: every case of the unit with lengths 0..5"""
    cases = [(k, c) for k, c in enumerate(catalogue()) if k % NUNITS == unit]
    scripts = []
    stats = {}
    for _ in range(nscripts):
        lines = []
        for k, (t, u, f, rv, var) in cases:
            if f == 3:
                n, extra = 3, 0
            else:
                n = rng.choice([0, 1, 2, 3, 5])
                # iterator forms: more items are available than the parameter holds
                extra = rng.choice([0, 0, 2]) if f in (4, 5, 6, 7, 8, 9) else 0
                if f == 8:
                    n = rng.choice([0, 1, 3, 5, 40])     # long enough to cross a deque block
            if u == 9 and t in (5, 6) or u == 10 and t in (7, 8):
                pass
            vals = [rand_value(u, rng, t) for _ in range(n + extra)]
            lines.append("case %d %d %d %d %d %d %d %s" % (k, t, u, f, rv, var, n, " ".join(map(str, vals))))
            key = "form%d%s%s" % (f, "-rvalue" if rv else "", "-varying" if var else "")
            stats[key] = stats.get(key, 0) + 1
            stats["len%d" % n] = stats.get("len%d" % n, 0) + 1
        sid = hashlib.sha1("\n".join(lines).encode()).hexdigest()[:10]
        scripts.append((sid, lines, None))
    return scripts, stats
