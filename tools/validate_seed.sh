#!/bin/bash
# validate_seed.sh <id> <worktree> <props...>: confirm a seeded change (suite passes, demo
# fails with / passes without), run the given property checks with it applied to /repo,
# record everything in /verif/seeded/<id>/.
id=$1; wt=$2; shift 2
out=/verif/seeded/$id; mkdir -p $out
cp $wt/patch.diff $out/patch.diff; cp $wt/demo.cpp $out/demo.cpp 2>/dev/null; cp $wt/NOTES.md $out/NOTES.agent.md 2>/dev/null
log=$out/validation.log; : > $log
echo "== suite with the change (worktree $wt)" >> $log
( cd $wt && git diff --stat -- src | tail -1 ) >> $log
if [ ! -f $wt/_build/build.ninja ]; then cmake -G Ninja -S $wt -B $wt/_build -DCMAKE_BUILD_TYPE=RelWithDebInfo -DCMAKE_CXX_FLAGS=-Wno-error -DCNTGS_BUILD_TESTS=ON -DCNTGS_DISCOVER_TESTS=ON >/dev/null 2>&1; fi
cmake --build $wt/_build -- -k 0 >/dev/null 2>&1
suite=$(ctest --test-dir $wt/_build -j8 --timeout 900 2>&1 | grep -E "tests passed" )
echo "$suite" >> $log
echo "== demo" >> $log
g++ -std=c++17 -O1 -I$wt/src $out/demo.cpp -o /tmp/demo_mut_$id 2>>$log; timeout 60 /tmp/demo_mut_$id >/dev/null 2>&1; with=$?
g++ -std=c++17 -O1 -I/repo/src $out/demo.cpp -o /tmp/demo_orig_$id 2>>$log; timeout 60 /tmp/demo_orig_$id >/dev/null 2>&1; without=$?
echo "demo exit with change: $with, without: $without" >> $log
rm -f /tmp/demo_mut_$id /tmp/demo_orig_$id
echo "== checks with the change applied to /repo" >> $log
# SEED_VIA_WORKTREE=1: /repo is in use (a vp run reads it) - point the checks at the worktree,
# which carries the same change, instead of applying the patch to /repo
if [ -n "$SEED_VIA_WORKTREE" ]; then
  git -C /repo apply --check $out/patch.diff || { echo "PATCH DOES NOT APPLY" >> $log; cat $log; exit 1; }
  export CNTGS_REPO=${SEED_CHECK_REPO:-$wt}; echo "(checks pointed at $CNTGS_REPO through CNTGS_REPO)" >> $log
else
  git -C /repo apply $out/patch.diff || { echo "PATCH DOES NOT APPLY" >> $log; cat $log; exit 1; }
fi
caught=""
for p in "$@"; do
  r=$(cd /verif && python3 tools/check.py --property $p --skip-proof 2>&1 | grep -E "^VIOLATION|^$p quick" | head -3)
  echo "$p: $r" >> $log
  echo "$r" | grep -q "^VIOLATION" && caught="$caught $p"
done
[ -n "$SEED_VIA_WORKTREE" ] || git -C /repo checkout -- .
unset CNTGS_REPO
echo "caught by:$caught" >> $log
python3 - "$id" "$suite" "$with" "$without" "$caught" "$@" <<'PY'
import json,sys
id,suite,w,wo,caught=sys.argv[1:6]; props=sys.argv[6:]
notes=open('/verif/seeded/%s/NOTES.agent.md'%id).read() if True else ''
json.dump({"id":id,"breaks_property":props[0] if props else None,"checks_run":props,"caught_by":caught.split(),
 "suite_with_change":suite,"demo_exit_with_change":int(w),"demo_exit_without_change":int(wo),
 "needs_to_manifest":"see NOTES.agent.md (written by the independent sub-agent that produced the change)",
 "what_was_run":"tools/validate_seed.sh: ctest in a scratch worktree with the change; demo.cpp compiled against changed and unchanged headers; git -C /repo apply; tools/check.py --property <each> ; git -C /repo checkout -- ."},
 open('/verif/seeded/%s/meta.json'%id,'w'),indent=1)
PY
cat $log
