"""Script families per property, shrinking, replay."""
import hashlib
import os
import random
import re
import gen
import layout as lay
import oracles


class Job:
    """one harness unit (parameter list + allocator kind) with its scripts"""

    def __init__(self, L, K, scripts, statics=(), tag="", unit_text=None, cxx_extra=(), skip_header=False):
        self.L, self.K, self.scripts, self.statics, self.tag = L, K, scripts, list(statics), tag
        self.unit_text, self.cxx_extra, self.exe = unit_text, list(cxx_extra), None
        self.skip_header = skip_header      # units that are not instantiated for a parameter list
        self.raw_file = None                # script file text written as is (static sweep)


K_DEFAULT = (0, 0, 0, 1, 0)     # like std::allocator: always equal, nothing propagates
K_PMR = (0, 0, 0, 0, 0)         # like polymorphic_allocator: stateful, nothing propagates


def statics_for(L, rng, n=4):
    out = []
    nf = lay.nfixed(L)
    for _ in range(n):
        f = [rng.choice([0, 1, 2, 3, 5, 8]) for _ in range(nf)]
        out.append("static %d %s" % (nf, " ".join(map(str, f))))
        out.append("needed %d %d %d %s" % (rng.choice([0, 1, 2, 5, 17]), rng.choice([0, 1, 7, 64]) if lay.has_varying(L) else 0, nf, " ".join(map(str, f))))
    return out


class Family:
    def __init__(self):
        self._stats = {}

    def stats(self):
        return self._stats

    def add_stats(self, st):
        for k, v in st.items():
            self._stats[k] = self._stats.get(k, 0) + v

    def lists(self, rng, tier, nrandom):
        Ls = gen.curated_lists()
        seen = {gen.list_key(l) for l in Ls}
        n = nrandom if tier == "quick" else nrandom * 6
        while n > 0:
            l = gen.random_list(rng)
            if gen.list_key(l) not in seen:
                seen.add(gen.list_key(l))
                Ls.append(l)
                n -= 1
        return Ls

    def corpus(self, prop):
        """regression corpus: minimal replays of repaired defects, run first"""
        d = os.path.join(os.path.dirname(os.path.dirname(os.path.abspath(__file__))), "corpus")
        jobs = []
        if os.path.isdir(d):
            for fn in sorted(os.listdir(d)):
                if fn.endswith(".script"):
                    head = open(os.path.join(d, fn)).read()
                    m = re.search(r"^# properties: (.*)$", head, flags=re.M)
                    if m and prop not in m.group(1).split():
                        continue
                    jobs += replay_jobs(os.path.join(d, fn), tag="corpus:" + fn)
        return jobs


class HistFamily(Family):
    """random single-vector histories + fills to the documented limits"""

    def __init__(self, nlists=24, nhist=14, nfill=6, strict_block=True, steps=(6, 40), fill_only=False, allow_overlap=False, via_reserve=False):
        super().__init__()
        self.nlists, self.nhist, self.nfill, self.strict_block, self.steps, self.fill_only = nlists, nhist, nfill, strict_block, steps, fill_only
        self.allow_overlap = allow_overlap
        self.via_reserve = via_reserve

    def jobs(self, rng, tier):
        mult = 1 if tier == "quick" else 5
        jobs = []
        for L in self.lists(rng, tier, self.nlists):
            scripts = []
            if not self.fill_only:
                for _ in range(self.nhist * mult):
                    lines, st = gen.gen_history(L, K_DEFAULT, rng, rng.randrange(*self.steps), self.allow_overlap)
                    self.add_stats(st)
                    scripts.append((gen.script_id(lines), lines, None))
            for _ in range(self.nfill * mult):
                lines, st = gen.gen_fill(L, K_DEFAULT, rng, self.strict_block, self.via_reserve)
                self.add_stats(st)
                scripts.append((gen.script_id(lines), lines, None))
            jobs.append(Job(L, K_DEFAULT, scripts, statics_for(L, rng), tag="hist"))
        return jobs


def cover_categories(Ls, n, rng):
    """n lists that cover the value-type categories: lists are grouped by the set of special
    value-type classes they contain (instrumented types by which special members are
    non-trivial, floating point, std::byte) and by having a VaryingSize parameter; the groups
    are visited round-robin, so that every category present gets a list before any gets two"""
    special = (lay.TTRK, lay.TTRKC, lay.TTRKCC, lay.TTRKMC, lay.TTRKMA, lay.TTRKCA, lay.TFLT, lay.TBYTE, lay.TSW)
    groups = {}
    for L in Ls:
        key = (frozenset(p.ty for p in L if p.ty in special), lay.has_varying(L))
        groups.setdefault(key, []).append(L)
    keys = sorted(groups, key=lambda k: (sorted(k[0]), k[1]))
    rng.shuffle(keys)
    for k in keys:
        rng.shuffle(groups[k])
    out = []
    while len(out) < n and any(groups[k] for k in keys):
        for k in keys:
            if groups[k] and len(out) < n:
                out.append(groups[k].pop())
    return out


class OverlapEraseFamily(Family):
    """histories ending in an overlapping erase on non-trivially-relocatable VaryingSize lists,
    oracle only (seeded change C16g): the erase path that re-emplaces element by element"""

    def __init__(self, nscripts=10):
        super().__init__()
        self.nscripts = nscripts

    def corpus(self, prop):
        return []

    def jobs(self, rng, tier):
        mult = 1 if tier == "quick" else 5
        jobs = []
        Ls = [L for L in gen.curated_lists() if not lay.all_triv(L) and lay.has_varying(L)]
        for L in Ls[:(4 if tier == "quick" else 12)]:
            scripts = []
            for _ in range(self.nscripts * mult):
                r = gen.gen_overlap_erase(L, K_DEFAULT, rng)
                if r is not None:
                    self.add_stats(r[1])
                    scripts.append((gen.script_id(r[0]), r[0], {"oracle_only": True}))
            if scripts:
                jobs.append(Job(L, K_DEFAULT, scripts, tag="overlap"))
        return jobs


class EmplaceAtFamily(Family):
    """histories with emplace(position, args...) on lists without VaryingSize parameter and with
    trivially relocatable types (C02: no operation reads or writes outside the block); every
    third script ends in the emplace(position) that fills the vector (recorded finding)"""

    def __init__(self, nlists=6, nscripts=10):
        super().__init__()
        self.nlists, self.nscripts = nlists, nscripts

    def corpus(self, prop):
        return []

    def jobs(self, rng, tier):
        mult = 1 if tier == "quick" else 5
        jobs = []
        Ls = [L for L in gen.curated_lists() if lay.all_triv(L) and not lay.has_varying(L)]
        more = [L for L in self.lists(rng, tier, 40) if lay.all_triv(L) and not lay.has_varying(L)]
        seen, pick = set(), []
        for L in Ls + more:
            k = lay.list_repr(L) if hasattr(lay, "list_repr") else repr(L)
            if k not in seen:
                seen.add(k)
                pick.append(L)
        rng.shuffle(pick)
        for L in pick[:(self.nlists if tier == "quick" else 3 * self.nlists)]:
            scripts = []
            for j in range(self.nscripts * mult):
                r = gen.gen_emplace_at(L, K_DEFAULT, rng, rng.randrange(6, 24), noslack=(j % 3 == 2))
                if r is not None:
                    self.add_stats(r[1])
                    scripts.append((gen.script_id(r[0]), r[0], None))
            if scripts:
                jobs.append(Job(L, K_DEFAULT, scripts, tag="emplaceat"))
        return jobs


class SpecialFamily(Family):
    """copy/move/swap histories over several vectors, for a covering set of allocator kinds"""

    def __init__(self, nlists=10, nscripts=10, kinds=None):
        super().__init__()
        self.nlists, self.nscripts, self.kinds = nlists, nscripts, kinds

    def jobs(self, rng, tier):
        mult = 1 if tier == "quick" else 5
        kinds = self.kinds or [K_DEFAULT, K_PMR, (1, 1, 1, 0, 0), (0, 1, 0, 0, 1), (1, 0, 1, 0, 1), (1, 1, 1, 1, 0)]
        if tier != "quick":
            kinds = gen.AKINDS_ALL
        jobs = []
        Ls = self.lists(rng, tier, self.nlists)
        Ls = cover_categories(Ls, 16 if tier == "quick" else 60, rng)
        for li, L in enumerate(Ls):
            # covering design: every list gets two kinds, rotating
            # the second kind of every list is one under which move assignment between unequal
            # allocators goes element by element (neither POCMA nor always-equal): those paths
            # (block reused / replaced, fixed sizes carried over) are exercised on EVERY list
            elementwise = [K_PMR, (1, 0, 1, 0, 1), (1, 0, 0, 0, 0), (0, 0, 1, 0, 0)]
            for K in ([kinds[li % len(kinds)], elementwise[li % len(elementwise)]] if tier == "quick" else rng.sample(kinds, 4)):
                scripts = []
                for _ in range(self.nscripts * mult):
                    lines, st = gen.gen_special(L, K, rng, rng.randrange(6, 30))
                    self.add_stats(st)
                    scripts.append((gen.script_id(lines), lines, None))
                if not (K[1] or K[3]):
                    for _ in range(4 * mult):
                        r = gen.gen_move_smaller_block(L, K, rng)
                        if r is not None:
                            self.add_stats(r[1])
                            scripts.append((gen.script_id(r[0]), r[0], None))
                    for _ in range(6 * mult):
                        r = gen.gen_move_elementwise(L, K, rng)
                        if r is not None:
                            self.add_stats(r[1])
                            scripts.append((gen.script_id(r[0]), r[0], None))
                for _ in range(4 * mult):
                    lines, st = gen.gen_moved_from(L, K, rng)
                    self.add_stats(st)
                    scripts.append((gen.script_id(lines), lines, None))
                jobs.append(Job(L, K, scripts, tag="special"))
        return jobs


class EmptyFamily(Family):
    """empty / zero-capacity / default-constructed vectors (C18)"""

    def __init__(self, nlists=20, nscripts=14):
        super().__init__()
        self.nlists, self.nscripts = nlists, nscripts

    def jobs(self, rng, tier):
        mult = 1 if tier == "quick" else 5
        jobs = []
        for li, L in enumerate(self.lists(rng, tier, self.nlists)):
            K = [K_DEFAULT, K_PMR, (1, 1, 1, 0, 1)][li % 3]
            scripts = []
            for _ in range(self.nscripts * mult):
                lines, st = gen.gen_empty(L, K, rng)
                self.add_stats(st)
                scripts.append((gen.script_id(lines), lines, None))
            for _ in range(6 * mult):
                lines, st = gen.gen_moved_from(L, K, rng)
                self.add_stats(st)
                scripts.append((gen.script_id(lines), lines, None))
            jobs.append(Job(L, K, scripts, tag="empty"))
        return jobs


class CompareFamily(Family):
    """related vectors under different junk / capacity / allocator, all operators (C13, C14)"""

    def __init__(self, nlists=22, nscripts=16, select=None):
        super().__init__()
        self.nlists, self.nscripts, self.select = nlists, nscripts, select

    def extra_lists(self):
        P, lay_ = gen.P, lay
        return [
            [P(lay_.PLAIN, lay_.TU8, 1), P(lay_.PLAIN, lay_.TUINT, 4, 4)],                 # padding inside a memcmp run
            [P(lay_.PLAIN, lay_.TUINT, 2), P(lay_.PLAIN, lay_.TUINT, 2)],                  # two runs? one run, product order shape
            [P(lay_.PLAIN, lay_.TBLOB, 2), P(lay_.PLAIN, lay_.TBLOB, 2)],                  # manual fields only
            [P(lay_.PLAIN, lay_.TU8, 1), P(lay_.FIXED, lay_.TU8, 1)],                      # all-byte fixed list: whole-buffer paths
            [P(lay_.FIXED, lay_.TU8, 1), P(lay_.FIXED, lay_.TBYTE, 1)],                    # two spans in one run
            [P(lay_.FIXED, lay_.TU8, 1), P(lay_.PLAIN, lay_.TU8, 1), P(lay_.FIXED, lay_.TU8, 1)],      # span, plain, span: the same bytes cut differently
            [P(lay_.FIXED, lay_.TUINT, 2), P(lay_.PLAIN, lay_.TSINT, 2), P(lay_.PLAIN, lay_.TUINT, 2), P(lay_.FIXED, lay_.TUINT, 2)],
            [P(lay_.PLAIN, lay_.TU8, 1), P(lay_.VARYING, lay_.TU8, 1), P(lay_.PLAIN, lay_.TU8, 1)],
            [P(lay_.PLAIN, lay_.TU8, 1), P(lay_.VARYING, lay_.TU8, 1), P(lay_.PLAIN, lay_.TU8, 1), P(lay_.VARYING, lay_.TBYTE, 1)],
            [P(lay_.PLAIN, lay_.TUINT, 4), P(lay_.VARYING, lay_.TSINT, 2)],
            [P(lay_.PLAIN, lay_.TU8, 1, 4), P(lay_.FIXED, lay_.TU8, 1, 2)],                # byte types with AlignAs
            [P(lay_.FIXED, lay_.TBLOB, 3), P(lay_.PLAIN, lay_.TS8, 1)],
            [P(lay_.PLAIN, lay_.TSINT, 4), P(lay_.FIXED, lay_.TUINT, 2), P(lay_.PLAIN, lay_.TU8, 1)],
            [P(lay_.PLAIN, lay_.TBLOB, 1), P(lay_.VARYING, lay_.TU8, 1), P(lay_.PLAIN, lay_.TBYTE, 1)],  # count outside the run
            [P(lay_.FIXED, lay_.TTRK, 4), P(lay_.PLAIN, lay_.TU8, 1)],
            # floating point: not integral, never on a memcmp path; +0 == -0, sign-magnitude order
            [P(lay_.PLAIN, lay_.TFLT, 4)],
            [P(lay_.FIXED, lay_.TFLT, 4), P(lay_.PLAIN, lay_.TFLT, 4)],
            [P(lay_.PLAIN, lay_.TUINT, 8, 8), P(lay_.VARYING, lay_.TFLT, 8), P(lay_.PLAIN, lay_.TFLT, 8)],
            [P(lay_.PLAIN, lay_.TU8, 1), P(lay_.PLAIN, lay_.TFLT, 4, 4), P(lay_.PLAIN, lay_.TUINT, 4)],
            [P(lay_.PLAIN, lay_.TFLT, 8), P(lay_.FIXED, lay_.TFLT, 4)],
            # memcmp-able lists with a VaryingSize field: no padding inside an element, gaps between elements
            [P(lay_.PLAIN, lay_.TUINT, 8, 8), P(lay_.VARYING, lay_.TUINT, 4)],
            [P(lay_.PLAIN, lay_.TUINT, 2, 2), P(lay_.VARYING, lay_.TU8, 1)],
            [P(lay_.PLAIN, lay_.TU8, 1, 4), P(lay_.VARYING, lay_.TBYTE, 1)],
            [P(lay_.PLAIN, lay_.TUINT, 4, 4), P(lay_.VARYING, lay_.TSINT, 2), P(lay_.PLAIN, lay_.TU8, 1)],
            # all-byte fixed lists with AlignAs: stride padding only
            [P(lay_.FIXED, lay_.TU8, 1, 4)],
            [P(lay_.PLAIN, lay_.TBYTE, 1, 2), P(lay_.FIXED, lay_.TU8, 1)],
            [P(lay_.PLAIN, lay_.TU8, 1), P(lay_.PLAIN, lay_.TBLOB, 2), P(lay_.PLAIN, lay_.TU8, 1), P(lay_.PLAIN, lay_.TU8, 1)],
        ]

    def jobs(self, rng, tier):
        mult = 1 if tier == "quick" else 5
        jobs = []
        Ls = [l for l in self.extra_lists() if lay.wf(l)]
        seen = {gen.list_key(l) for l in Ls}
        for l in self.lists(rng, tier, self.nlists):
            if gen.list_key(l) not in seen:
                seen.add(gen.list_key(l))
                Ls.append(l)
        if self.select is not None:
            Ls = [L for L in Ls if self.select(L)]
        for li, L in enumerate(Ls):
            K = [K_DEFAULT, K_PMR][li % 2]
            scripts = []
            for _ in range(self.nscripts * mult):
                lines, st = gen.gen_compare(L, K, rng)
                self.add_stats(st)
                scripts.append((gen.script_id(lines), lines, None))
            jobs.append(Job(L, K, scripts, tag="compare"))
        return jobs


class ProxyFamily(Family):
    """references, iterators and permuting algorithms (C11)"""

    def __init__(self, nlists=22, nscripts=14):
        super().__init__()
        self.nlists, self.nscripts = nlists, nscripts

    def extra_lists(self):
        P, l = gen.P, lay
        return [
            # every shape of the run tables over up to four fields (t = trivial, n = instrumented)
            [P(l.PLAIN, l.TUINT, 4), P(l.PLAIN, l.TTRK, 4)],
            [P(l.PLAIN, l.TTRK, 4), P(l.PLAIN, l.TUINT, 4)],
            [P(l.PLAIN, l.TUINT, 2), P(l.PLAIN, l.TTRK, 3), P(l.PLAIN, l.TBLOB, 5, 4)],
            [P(l.PLAIN, l.TTRK, 3), P(l.PLAIN, l.TU8, 1), P(l.PLAIN, l.TUINT, 4, 4), P(l.PLAIN, l.TTRK, 8, 8)],
            [P(l.PLAIN, l.TU8, 1), P(l.PLAIN, l.TUINT, 4, 4), P(l.PLAIN, l.TTRK, 2), P(l.PLAIN, l.TBLOB, 3)],
            [P(l.FIXED, l.TBLOB, 3), P(l.FIXED, l.TTRK, 4), P(l.PLAIN, l.TUINT, 8, 8)],
            [P(l.PLAIN, l.TUINT, 4), P(l.FIXED, l.TBLOB, 4), P(l.FIXED, l.TTRK, 8)],          # the suite's partially trivial swap
            [P(l.PLAIN, l.TTRKC, 4, 4), P(l.PLAIN, l.TBYTE, 1), P(l.FIXED, l.TUINT, 2, 2)],    # assignable but not swappable
            [P(l.PLAIN, l.TUINT, 8, 8), P(l.VARYING, l.TBLOB, 3), P(l.PLAIN, l.TTRK, 4, 4)],
            [P(l.PLAIN, l.TU8, 1), P(l.VARYING, l.TUINT, 4, 4), P(l.PLAIN, l.TU8, 1), P(l.VARYING, l.TBLOB, 5, 2)],
            [P(l.FIXED, l.TTRK, 8), P(l.PLAIN, l.TTRK, 8)],
            # types that are trivial for ONE of the two assignments: the copy and the move run table differ
            [P(l.PLAIN, l.TUINT, 4), P(l.PLAIN, l.TTRKMA, 4), P(l.FIXED, l.TTRKCA, 4)],
            [P(l.PLAIN, l.TTRKMA, 8, 8), P(l.PLAIN, l.TUINT, 4, 4), P(l.PLAIN, l.TTRKCA, 2)],
            [P(l.FIXED, l.TTRKCA, 3), P(l.PLAIN, l.TU8, 1), P(l.FIXED, l.TTRKMA, 4, 4)],
            [P(l.PLAIN, l.TUINT, 8, 8), P(l.VARYING, l.TBLOB, 3), P(l.PLAIN, l.TTRKMA, 4, 4), P(l.PLAIN, l.TTRKCA, 4)],
            # trivially copyable types with an ADL swap of their own: assigned bytewise, swapped through
            # their swap (seeded change C11j: the ADL-swap detection tested rvalues)
            [P(l.PLAIN, l.TUINT, 4), P(l.PLAIN, l.TSW, 4), P(l.FIXED, l.TSW, 2)],
            [P(l.PLAIN, l.TSW, 8, 8), P(l.PLAIN, l.TU8, 1)],
            [P(l.FIXED, l.TUINT, 2, 2), P(l.PLAIN, l.TSW, 3), P(l.PLAIN, l.TBLOB, 2)],
        ]

    def jobs(self, rng, tier):
        mult = 1 if tier == "quick" else 5
        jobs = []
        Ls = [x for x in self.extra_lists() if lay.wf(x)]
        seen = {gen.list_key(x) for x in Ls}
        for x in self.lists(rng, tier, self.nlists):
            if gen.list_key(x) not in seen:
                seen.add(gen.list_key(x))
                Ls.append(x)
        for li, L in enumerate(Ls):
            K = [K_DEFAULT, K_PMR][li % 2]
            scripts = []
            for _ in range(self.nscripts * mult):
                lines, st = gen.gen_proxy(L, K, rng)
                self.add_stats(st)
                scripts.append((gen.script_id(lines), lines, None))
            jobs.append(Job(L, K, scripts, tag="proxy"))
        return jobs


class ElemFamily(Family):
    """ContiguousElement value semantics (C12) over a covering set of allocator kinds"""

    def __init__(self, nlists=20, nscripts=12, moved_targets=True, select=None):
        super().__init__()
        self.nlists, self.nscripts, self.moved_targets, self.select = nlists, nscripts, moved_targets, select

    def jobs(self, rng, tier):
        mult = 1 if tier == "quick" else 5
        kinds = [K_DEFAULT, K_PMR, (1, 1, 1, 0, 0), (0, 1, 0, 0, 1), (1, 0, 1, 0, 1), (1, 1, 1, 1, 0), (1, 0, 0, 0, 0), (0, 0, 1, 0, 0)]
        if tier != "quick":
            kinds = gen.AKINDS_ALL
        jobs = []
        Ls = self.lists(rng, tier, self.nlists)
        if self.select is not None:
            Ls = [L for L in Ls if self.select(L)]
        for li, L in enumerate(Ls):
            K = kinds[(li * 5 + 1) % len(kinds)]
            scripts = []
            for _ in range(self.nscripts * mult):
                lines, st = gen.gen_elem(L, K, rng, moved_targets=self.moved_targets)
                self.add_stats(st)
                scripts.append((gen.script_id(lines), lines, None))
            jobs.append(Job(L, K, scripts, tag="elem"))
        return jobs


class ConstructFamily(Family):
    """emplace_back from every source form for a catalogue of type pairs (C15)"""

    def __init__(self, nscripts=3):
        super().__init__()
        self.nscripts = nscripts

    def corpus(self, prop):
        return []

    def jobs(self, rng, tier):
        import construct_gen as cg
        mult = 1 if tier == "quick" else 8
        jobs = []
        for j, text in enumerate(cg.unit_texts()):
            scripts, st = cg.gen_scripts(rng, j, self.nscripts * mult)
            self.add_stats(st)
            jobs.append(Job([], K_DEFAULT, scripts, tag="construct%d" % j, unit_text=text, skip_header=True))
        return jobs


class FaultFamily(Family):
    """exhaustive fault enumeration: every allocation of every allocating step of valid
    vector / element histories fails in turn (C17)"""

    def __init__(self, nlists=14, nbase=2):
        super().__init__()
        self.nlists, self.nbase = nlists, nbase

    def jobs(self, rng, tier):
        mult = 1 if tier == "quick" else 4
        kinds = [K_PMR, (1, 1, 1, 0, 0), (0, 1, 0, 0, 1), (1, 0, 1, 0, 1), K_DEFAULT, (1, 0, 0, 0, 0)]
        if tier != "quick":
            kinds = gen.AKINDS_ALL
        jobs = []
        Ls = self.lists(rng, tier, self.nlists)
        rng.shuffle(Ls)
        for li, L in enumerate(Ls[:(18 if tier == "quick" else 70)]):
            K = kinds[li % len(kinds)]
            maxk = 3 if lay.has_varying(L) else 2
            scripts = []
            for _ in range(self.nbase * mult):
                for base, st in (gen.gen_special(L, K, rng, rng.randrange(5, 14)), gen.gen_elem(L, K, rng, moved_targets=True),
                                 gen.gen_history(L, K, rng, rng.randrange(4, 10))):
                    base = list(base)
                    while base and (base[-1].startswith("destroy") or base[-1].startswith("edestroy")):
                        base.pop()          # only the final clean-up; the variants destroy everything themselves
                    for v in gen.fault_variants(base, maxk):
                        scripts.append((gen.script_id(v), v, None))
                        self.add_stats({"fault-at-" + v[len(v) - 9 - (1 if v[-9].split()[0] == v[-10].split()[0] else 0)].split()[0]: 1})
            for v in gen.gen_fault_moved_from(L, K, rng):
                scripts.append((gen.script_id(v), v, None))
                self.add_stats({"fault-assign-into-moved-from": 1})
            jobs.append(Job(L, K, scripts, tag="fault"))
        # element-wise move assignment (unequal, non-propagating allocators) into a NON-EMPTY target,
        # block reused or not, and the moved-from family, under every failing allocation: on lists
        # with instrumented types, where destroying before allocating is visible (seed C17c)
        Lt = [L for L in Ls if not lay.all_triv(L)] + [L for L in Ls if lay.all_triv(L)]
        for li, L in enumerate(Lt[:(6 if tier == "quick" else 24)]):
            K = [K_PMR, (1, 0, 1, 0, 1), (1, 0, 0, 0, 0)][li % 3]
            maxk = 3 if lay.has_varying(L) else 2
            scripts = []
            for _ in range(3 * mult):
                for r in (gen.gen_move_elementwise(L, K, rng), gen.gen_moved_from(L, K, rng)):
                    if r is None:
                        continue
                    base = list(r[0])
                    while base and base[-1].startswith("destroy"):
                        base.pop()
                    for v in gen.fault_variants(base, maxk):
                        scripts.append((gen.script_id(v), v, None))
                        self.add_stats({"fault-elementwise-move-or-moved-from": 1})
            if scripts:
                jobs.append(Job(L, K, scripts, tag="fault-move"))
        return jobs


class SharedFamily(Family):
    """const operations on write-protected shared vectors, single threaded and from several
    threads; thorough tier adds a ThreadSanitizer build (C19)"""

    def __init__(self, nlists=14, nscripts=8):
        super().__init__()
        self.nlists, self.nscripts = nlists, nscripts

    def jobs(self, rng, tier):
        jobs = []
        Ls = self.lists(rng, tier, self.nlists)
        # layouts on which the comparison operators take their whole-buffer / run-wise fast paths,
        # with and without padding behind the elements (seeded change C19g: a "logically const"
        # normalisation of padding bytes inside operator==)
        P = lay.Param
        extra = [[P(lay.PLAIN, 4, 8, lay.TUINT), P(lay.PLAIN, 1, 1, lay.TU8)],
                 [P(lay.FIXED, 2, 8, lay.TUINT)],
                 [P(lay.FIXED, 1, 4, lay.TU8), P(lay.PLAIN, 1, 1, lay.TBYTE)],
                 [P(lay.PLAIN, 8, 8, lay.TUINT), P(lay.FIXED, 2, 2, lay.TSINT)]]
        extra += [L for L in CompareFamily().extra_lists() if not lay.has_varying(L) and all(p.ty in (lay.TUINT, lay.TSINT, lay.TU8, lay.TS8, lay.TBYTE) for p in L)]
        seen = {gen.list_key(L) for L in Ls}
        for L in extra:
            if gen.list_key(L) not in seen:
                seen.add(gen.list_key(L))
                Ls.append(L)
        for li, L in enumerate(Ls):
            K = [K_DEFAULT, K_PMR, (1, 1, 1, 0, 1)][li % 3]
            scripts = []
            for _ in range(self.nscripts * (1 if tier == "quick" else 3)):
                lines, st = gen.gen_shared(L, K, rng, nthreads=4 if tier == "quick" else 16)
                self.add_stats(st)
                scripts.append((gen.script_id(lines), lines, None))
            jobs.append(Job(L, K, scripts, tag="shared"))
            if tier != "quick" and li % 8 == 0:
                # supporting evidence only: the same scripts under ThreadSanitizer
                jobs.append(Job(L, K, scripts[:4], tag="shared-tsan", cxx_extra=["-fsanitize=thread", "-g", "-O1"]))
        return jobs


class SweepFamily(Family):
    """static sweep: the compile-time layout machinery (storage alignment, trailing
    alignments, run tables, padding-free flag, element sizes and needed memory for several
    fixed-size vectors) of a few hundred random parameter lists per run, without any vector
    operation - a change to the layout calculus is visible on every list that reaches the
    changed branch, not only on the few dozen lists the operation families instantiate"""

    def __init__(self, nunits=3, per_unit=80):
        super().__init__()
        self.nunits, self.per_unit = nunits, per_unit

    def corpus(self, prop):
        return []

    def jobs(self, rng, tier):
        nunits = self.nunits if tier == "quick" else self.nunits * 4
        jobs = []
        seen = set()
        for u in range(nunits):
            Ls = []
            while len(Ls) < self.per_unit:
                L = gen.random_list(rng)
                if gen.list_key(L) in seen:
                    continue
                seen.add(gen.list_key(L))
                Ls.append(L)
            text = ['#include "driver.hpp"', "using namespace vh;", "using A = LedgerAlloc<std::byte,false,false,false,true,false>;",
                    "int main(int argc, char** argv) {", "  if (argc < 2) return 2;", "  auto sec = parse_sections(argv[1]);"]
            raw, scripts = [], []
            for i, L in enumerate(Ls):
                sid = "u%dl%d" % (u, i)
                ps = ", ".join("P<%d,%d,%d,%d>" % (p.kind, p.ty, p.size, p.align) for p in L)
                text.append('  static_section<A, %s>("%s", sec);' % (ps, sid))
                lines = statics_for(L, rng, n=5)
                raw.append("LIST %s" % sid)
                raw += ["P %d %d %d %d" % (p.kind, p.size, p.align, p.ty) for p in L]
                raw += lines + ["ENDLIST"]
                scripts.append((sid, lines, None))
                self.add_stats({"sweep-lists": 1, "sweep-lists-with-varying" if lay.has_varying(L) else "sweep-lists-fixed-or-plain": 1})
            text += ["  return 0;", "}", ""]
            j = Job([], K_DEFAULT, scripts, tag="sweep%d" % u, unit_text="\n".join(text), skip_header=True)
            j.raw_file = "\n".join(raw) + "\n"
            j.lists = {"u%dl%d" % (u, i): L for i, L in enumerate(Ls)}
            jobs.append(j)
        return jobs


class Multi(Family):
    def __init__(self, *fams):
        super().__init__()
        self.fams = fams

    def jobs(self, rng, tier):
        out = []
        for f in self.fams:
            out += f.jobs(rng, tier)
        return out

    def stats(self):
        st = {}
        for f in self.fams:
            for k, v in f.stats().items():
                st[k] = st.get(k, 0) + v
        return st


FAMILIES = {}


def followup_jobs(prop, L, rng):
    """operation scripts for ONE list on which the static sweep found a disagreement, so that
    the property's oracle can look for a concrete failing input there"""
    scripts = []
    K = K_DEFAULT
    if prop in ("C13", "C14"):
        for _ in range(10):
            lines, _ = gen.gen_compare(L, K, rng)
            scripts.append((gen.script_id(lines), lines, None))
    elif prop == "C11":
        for _ in range(10):
            lines, _ = gen.gen_proxy(L, K, rng)
            scripts.append((gen.script_id(lines), lines, None))
    else:
        strict = prop not in ("C02", "C10")
        for _ in range(8):
            lines, _ = gen.gen_history(L, K, rng, rng.randrange(6, 30), False)
            scripts.append((gen.script_id(lines), lines, None))
        for _ in range(6):
            lines, _ = gen.gen_fill(L, K, rng, strict, prop == "C10")
            scripts.append((gen.script_id(lines), lines, None))
    return [Job(L, K, scripts, statics_for(L, rng), tag="followup")]


def replay_jobs(path, tag="replay"):
    """a replay file is a script file (header + BEGIN/END blocks)"""
    L, K, statics, scripts, cur = [], K_DEFAULT, [], [], None
    for line in open(path):
        t = line.split()
        if not t or t[0].startswith("#"):
            continue
        if t[0] == "K":
            K = tuple(int(x) for x in t[1:])
        elif t[0] == "P":
            k, sz, al, ty = (int(x) for x in t[1:])
            L.append(lay.Param(k, sz, al, ty))
        elif t[0] in ("static", "needed"):
            statics.append(line.strip())
        elif t[0] == "BEGIN":
            cur = (t[1], [])
        elif t[0] == "END":
            scripts.append((cur[0], cur[1], None))
            cur = None
        elif cur is not None:
            cur[1].append(line.strip())
    return [Job(L, K, scripts, statics, tag=tag + path)]


def shrink(v, prop, run_pair, canon, split_blocks, first_diff, orc, rundir, strip_markers=None, budget=80):
    """delta debugging on the op list: drop operations while the script stays valid and
    still shows an oracle violation (preferred) or a disagreement"""
    j = v.get("job")
    if j is None or not v["script"]:
        return v
    want_oracle = bool(v.get("oracle"))

    def signature(ov, d):
        # what kind of failure it is, with positions and numbers blanked: a candidate that fails
        # in a DIFFERENT way (say, an element pushed over the end of the block because the
        # dropped operation was the reserve that made room) is not a smaller instance of this one
        if ov:
            return "o:" + re.sub(r"[0-9]+", "#", ov[0])[:48]
        if d is None:
            return None
        return "d:%s|%s" % ((d[1].split() or ["<end>"])[0], (d[2].split() or ["<end>"])[0])

    sig0 = v.get("signature")

    def bad(lines):
        try:
            oracles.simulate(j.L, j.K, lines)
        except Exception:
            return None
        path = os.path.join(rundir, "shrink.script")
        with open(path, "w") as f:
            f.write(gen.header_text(j.L, j.K))
            f.write("BEGIN s\n%s\nEND\n" % "\n".join(lines))
        iout, mout, irc, mrc = run_pair(j.exe, path)
        _, ib = split_blocks(iout)
        _, mb = split_blocks(mout)
        il, ml = canon(ib.get("s", [])), canon(mb.get("s", []))
        ov = orc.check(prop, j.L, j.K, lines, ib.get("s", []))
        d = first_diff(il, ml)
        agrees = strip_markers is not None and first_diff(canon(strip_markers(ib.get("s", []))), canon(strip_markers(mb.get("s", [])))) is None
        if sig0 is not None and signature(ov if want_oracle or ov else None, d) != sig0:
            return None
        if want_oracle:
            return (ov, d, agrees) if ov else None
        return (ov, d, agrees) if (ov or d is not None) else None

    lines = list(v["script"])
    best = None
    changed = True
    while changed and budget > 0:
        changed = False
        for i in range(len(lines) - 1, -1, -1):
            if budget <= 0:
                break
            cand = lines[:i] + lines[i + 1:]
            if not cand:
                continue
            budget -= 1
            r = bad(cand)
            if r is not None:
                lines, best, changed = cand, r, True
    if best is not None:
        ov, d, agrees = best
        v = dict(v)
        # a known finding is one the faithful model reproduces: keep the static-layout verdict of the job
        v["model_agrees"] = bool(v.get("model_agrees_static", True)) and agrees
        v["script"] = lines
        v["oracle"] = ov
        v["detail"] = ov[0] if ov else "impl: %s | model: %s (line %d)" % (d[1], d[2], d[0])
    return v


FAMILIES["C09"] = SpecialFamily()
# "a vector or element": element histories over the covering set of allocator kinds as well
# (seeded change C08i: element move assignment lost the allocator propagation)
FAMILIES["C08"] = Multi(SpecialFamily(), ElemFamily(nlists=6, nscripts=12))
for p in ("C03", "C04"):
    # states reached through copy / move / swap between vectors of different fixed sizes count as
    # reachable states of the layout properties too (seeded change C04d)
    FAMILIES[p] = Multi(HistFamily(), SpecialFamily(nlists=6, nscripts=8), SweepFamily())
FAMILIES["C10"] = Multi(HistFamily(strict_block=False, nhist=10, nfill=10, via_reserve=True), SweepFamily(nunits=2))
FAMILIES["C16"] = Multi(HistFamily(nlists=16, nhist=8), SpecialFamily(nlists=6, nscripts=8), OverlapEraseFamily())
FAMILIES["C18"] = Multi(EmptyFamily(), HistFamily(nlists=8, nhist=6, nfill=2))
FAMILIES["C01"] = Multi(HistFamily(allow_overlap=True), SpecialFamily(nlists=6, nscripts=8), SweepFamily())
FAMILIES["C05"] = Multi(HistFamily(nlists=16, nhist=8), SpecialFamily(nlists=6, nscripts=8), SweepFamily())
# "a vector or ContiguousElement": element histories too (seeded change C07i: element copy
# assignment kept a block of the old allocator under a propagating unequal allocator)
FAMILIES["C07"] = Multi(HistFamily(nlists=16, nhist=8), SpecialFamily(nlists=6, nscripts=8), OverlapEraseFamily(),
                        ElemFamily(nlists=6, nscripts=12))
# "every object stored in a vector or ContiguousElement": element histories on the lists with
# instrumented value types as well (seeded change C06f)
FAMILIES["C06"] = Multi(HistFamily(nlists=16, nhist=8, allow_overlap=True), SpecialFamily(nlists=6, nscripts=8),
                        ElemFamily(nlists=6, nscripts=14, select=lambda L: any(lay.ntc(p) or lay.ntd(p) for p in L)))
# "no operation READS or writes outside the memory": the comparison operators on memcmp-able
# lists (whole-buffer and run-wise fast paths), blocks flush against inaccessible pages (seed C02h)
# copy / move / assignment / swap under every allocator trait combination stay inside the block too
# (seed C02n: element-wise move assignment keeps a block that only fits the elements moved)
FAMILIES["C02"] = Multi(HistFamily(strict_block=False, nhist=6, nfill=16), SweepFamily(), EmplaceAtFamily(),
                        SpecialFamily(nlists=6, nscripts=6),
                        CompareFamily(nlists=4, nscripts=10, select=lambda L: all(p.ty in (lay.TUINT, lay.TSINT, lay.TU8, lay.TS8, lay.TBYTE) for p in L)))
FAMILIES["C13"] = Multi(CompareFamily(), SweepFamily(nunits=2))
FAMILIES["C14"] = Multi(CompareFamily(), SweepFamily(nunits=2))
FAMILIES["C11"] = Multi(ProxyFamily(), SweepFamily(nunits=2))
FAMILIES["C12"] = ElemFamily()
FAMILIES["C15"] = ConstructFamily()
FAMILIES["C17"] = FaultFamily()
FAMILIES["C19"] = SharedFamily()
