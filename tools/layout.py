"""Python transcription of coq/Layout.v, used only by the script GENERATOR (to produce
scripts that respect the documented preconditions and to aim at layout boundaries) and by
the failing-input search.  It is not part of the trusted base of any theorem: the model
that the implementation is compared with is the OCaml extraction of the Coq definitions."""

PLAIN, FIXED, VARYING = 0, 1, 2
TBLOB, TUINT, TSINT, TU8, TS8, TBYTE, TTRK, TTRKC, TTRKMA, TTRKCA, TFLT, TTRKCC, TTRKMC, TSW = range(14)


class Param:
    __slots__ = ("kind", "size", "align", "ty")

    def __init__(self, kind, size, align, ty):
        self.kind, self.size, self.align, self.ty = kind, size, align, ty

    def key(self):
        return (self.kind, self.size, self.align, self.ty)

    def __repr__(self):
        return "%s%s%d@%d" % ("PFV"[self.kind], "BUSusyTCMAFcmw"[self.ty], self.size, self.align)


def align_up(x, a):
    return (x + a - 1) // a * a


def lowbit(v):
    return v & -v if v > 0 else 0


def tr_align(b, a):
    return min(lowbit(b), a)


def largest(L):
    res, acc, n = [], 0, 0
    for p in L:
        acc = max(acc, p.align)
        n += 1
        if p.kind == VARYING:
            res += [acc] * n
            acc, n = 0, 0
    res += [acc] * n
    return res


def SA(L):
    return max([0] + largest(L))


def tr_step(p, st):
    off, br = st
    if p.kind == PLAIN:
        no = p.size if br < p.align else off + (align_up(off, p.align) - off + p.size)
        br2 = max(br, p.align)
        return (no, br2), tr_align(no, br2)
    ao = align_up(off, p.align)
    br2 = max(br, p.align)
    leading = max(p.align, tr_align(ao, br2))
    t = tr_align(p.size, leading)
    return (0, t), t


def trails(L):
    st = (0, SA(L))
    out = []
    for p in L:
        st, t = tr_step(p, st)
        out.append(t)
    return out


def prevs(L):
    return [SA(L)] + trails(L)


def prev_tr(L, k):
    return SA(L) if k == 0 else trails(L)[k - 1]


def next_al(L, k):
    return SA(L) if k + 1 == len(L) else largest(L)[k + 1]


def align_if(c, a, x):
    return align_up(x, a) if c else x


def asz(p, prev, nxt, off, al, fixed):
    if p.kind == VARYING:
        if al < p.align:
            ao = align_up(off, al) + p.align - al
        else:
            ao = align_if(prev < p.align, p.align, off)
        tr = min(al, tr_align(p.size, lowbit(ao)))
        nd = nxt - tr if tr < nxt else 0
        return (0, ao - off, nd, tr)
    vs = p.size * fixed if p.kind == FIXED else p.size
    if al < p.align:
        ao = align_up(off, al) + p.align - al
        no, sz = vs, ao - off + vs
    else:
        ao = align_if(prev < p.align, p.align, off)
        sz = ao - off + vs
        no = off + sz
    po = align_if(tr_align(p.size, p.align) < nxt, nxt, no)
    return (no, sz, po - no, max(al, p.align))


def fixed_counts(L, fixed):
    out, f = [], list(fixed)
    for p in L:
        if p.kind == FIXED:
            out.append(f.pop(0) if f else 0)
        else:
            out.append(0)
    return out


def esize(L, fixed):
    size = off = pad = 0
    al = SA(L)
    fc = fixed_counts(L, fixed)
    for k, p in enumerate(L):
        no, nsz, npad, nal = asz(p, prev_tr(L, k), next_al(L, k), off, al, fc[k])
        size += nsz
        off, pad, al = no, npad, nal
    return size, size + pad


def needed(n, b, sz):
    size, stride = sz
    padding = 0 if n == 0 else stride - size
    return b + stride * n - padding


def units(L, nbytes):
    s = SA(L)
    return nbytes // s + (0 if nbytes % s == 0 else 1)


def place(L, cnts, a):
    pv = prevs(L)
    out = []
    for k, p in enumerate(L):
        a2 = align_if(pv[k] < p.align, p.align, a)
        out.append(a2)
        a = a2 + cnts[k] * p.size
    return out, a


def first_align(L, a):
    return align_if(prev_tr(L, len(L)) < SA(L), SA(L), a)


def has_varying(L):
    return any(p.kind == VARYING for p in L)


def nfixed(L):
    return sum(1 for p in L if p.kind == FIXED)


def ntc(p, mv=None):
    """non-trivial copy (mv False) / move (mv True) constructor; mv None: either"""
    if mv is None:
        return p.ty in (TTRK, TTRKC, TTRKCC, TTRKMC)
    return p.ty in ((TTRK, TTRKC, TTRKMC) if mv else (TTRK, TTRKC, TTRKCC))


def ntd(p):
    return p.ty == TTRK


def all_triv(L):
    """trivially relocatable: move constructor and destructor trivial (what erase / reserve dispatch on)"""
    return all(not ntc(p, True) and not ntd(p) for p in L)


def wf(L):
    if not L or L[0].kind == VARYING:
        return False
    for i, p in enumerate(L):
        if p.size < 1 or p.align & (p.align - 1) or p.align < 1:
            return False
        if p.kind == VARYING and L[i - 1].kind != PLAIN:
            return False
    return True


# ---------------------------------------------------------------- run tables (elementTraits.hpp)
def lxm(p):
    return p.ty in (TU8, TBYTE)


def eqm(p):
    return p.ty in (TUINT, TSINT, TU8, TS8, TBYTE)


def runs(pred, bpad, bspan, L):
    """calculate_consecutive_indices: 'S' skip, 'M' manual, or the index of the run's last field"""
    out = ["S"] * len(L)
    pv = prevs(L)
    index = 0
    for i, p in enumerate(L):
        if pred(p):
            if bpad and i != 0 and pv[i] < p.align:
                index = i
            out[index] = i
            if bspan and p.kind != PLAIN:
                index = i + 1
        else:
            index = i + 1
            out[i] = "M"
    return out


def lex_components(L):
    return sum(1 for x in runs(lxm, True, False, L) if x != "S")
