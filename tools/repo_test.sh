#!/bin/sh
# Rebuild /repo/_build (keep going past the stale examples/benchmarks that never built)
# and run the pinned suite; prints the ctest summary.
cmake --build /repo/_build -- -k 0 >/tmp/repo_build.log 2>&1
grep -E "^FAILED" /tmp/repo_build.log | grep -v "example/\|benchmark/" 
ctest --test-dir /repo/_build -j8 --timeout 900 2>&1 | grep -E "tests passed|tests failed|Failed|\*\*\*" | head -20
