#!/usr/bin/env python3
"""replay.py FILE [--shrink PROP]: run one replay/script file on both sides, print the first differences."""
import sys, os
sys.path.insert(0, os.path.dirname(os.path.abspath(__file__)))
import check, gen, families, oracles
path = sys.argv[1]
jobs = families.replay_jobs(path)
sh = check.src_hash()
for j in jobs:
    exe, err, _ = check.build_unit((gen.unit_text(j.L, j.K), sh, []))
    if exe is None:
        print("DOES NOT COMPILE\n", err[-3000:]); continue
    tmp = "/tmp/replay.script"
    with open(tmp, "w") as f:
        f.write(gen.header_text(j.L, j.K, j.statics))
        for sid, lines, _ in j.scripts:
            f.write("BEGIN %s\n%s\nEND\n" % (sid, "\n".join(lines)))
    iout, mout, irc, mrc = check.run_pair(exe, tmp)
    ih, ib = check.split_blocks(iout); mh, mb = check.split_blocks(mout)
    if ih != mh: print("HEADER DIFF\n impl:", ih, "\n model:", mh)
    for sid, lines, _ in j.scripts:
        il, ml = check.canon(ib.get(sid, [])), check.canon(mb.get(sid, []))
        d = check.first_diff(il, ml)
        print("script", sid, "list", j.L, "K", j.K, "diff:", d)
        if d:
            i = d[0]
            print("--- impl"); print("\n".join(il[max(0,i-12):i+6]))
            print("--- model"); print("\n".join(ml[max(0,i-12):i+6]))
        for p in sys.argv[2:]:
            print("oracle", p, oracles.check(p, j.L, j.K, lines, ib.get(sid, [])))
