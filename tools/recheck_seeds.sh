#!/bin/bash
# re-run, for every seeded change that still applies to /repo's HEAD, the checks that are on
# record as catching it; prints one line per (seed, property).  /repo is restored afterwards.
cd /verif
for d in seeded/*/; do
  id=$(basename $d)
  props=$(python3 -c "import json;print(' '.join(json.load(open('$d/meta.json'))['caught_by']))")
  if ! git -C /repo apply --check /verif/$d/patch.diff 2>/dev/null; then echo "$id: patch no longer applies to HEAD (library changed at that site)"; continue; fi
  git -C /repo apply /verif/$d/patch.diff
  for p in $props; do
    out=$(python3 tools/check.py --property $p --skip-proof 2>&1)
    n=$(echo "$out" | grep -c '^VIOLATION'); nf=$(echo "$out" | grep '^VIOLATION' | grep -vc 'no-failing-input-found')
    echo "$id: $p -> $n VIOLATION lines ($nf with a concrete failing input)"
  done
  git -C /repo checkout -- .
done
git -C /repo status --short | head -3
