#!/bin/bash
# re-run, for every seeded change that still applies to /repo's HEAD, the checks that are on
# record as catching it (RECHECK_PRIMARY=1: only the seed's own property); prints one line per
# (seed, property).  /repo is never touched: the change is applied in a scratch worktree of
# /repo's HEAD and the checks are pointed at it through CNTGS_REPO.
cd /verif
wt=/tmp/recheck_wt
git -C /repo worktree remove --force $wt 2>/dev/null; git -C /repo worktree prune
git -C /repo worktree add -f $wt HEAD >/dev/null 2>&1 || { echo "cannot create $wt"; exit 1; }
for d in seeded/*/; do
  id=$(basename $d)
  props=$(python3 -c "import json;d=json.load(open('$d/meta.json'));c=d['caught_by'];print(' '.join(c[:1] if '$RECHECK_PRIMARY' else c))")
  git -C $wt checkout -q -- . 
  if ! git -C $wt apply --check /verif/$d/patch.diff 2>/dev/null; then echo "$id: patch no longer applies to HEAD (library changed at that site)"; continue; fi
  git -C $wt apply /verif/$d/patch.diff
  for p in $props; do
    out=$(CNTGS_REPO=$wt python3 tools/check.py --property $p --skip-proof 2>&1)
    n=$(echo "$out" | grep -c '^VIOLATION'); nf=$(echo "$out" | grep '^VIOLATION' | grep -vc 'no-failing-input-found')
    echo "$id: $p -> $n VIOLATION lines ($nf with a concrete failing input)"
  done
done
git -C /repo worktree remove --force $wt; git -C /repo worktree prune
git -C /repo status --short | head -3
