#!/bin/bash
# run every claimed check (quick tier) and print one summary line each
cd "$(dirname "$0")/.."
for p in $(python3 -c "import json;print(' '.join(c['property_id'] for c in json.load(open('MANIFEST.json'))['checks']))"); do
  out=$(python3 tools/check.py --property $p --tier ${1:-quick} ${2:-} 2>&1); rc=$?
  echo "$p rc=$rc $(echo "$out" | grep -c '^VIOLATION') violations, $(echo "$out" | grep -c '^KNOWN-FINDING') known | $(echo "$out" | tail -1)"
done
