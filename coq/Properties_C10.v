(* C10 — reserve only ever adds room and never changes contents. *)
From Coq Require Import ZArith List Bool.
From Cntgs Require Import Base Layout Mem Vector Spec Rep Refine NeededThm C02Hist NtRefine C02HistNt.
Import ListNotations.
Local Open Scope Z_scope.

(* reserve(n, b) keeps the represented list of tuples (hence size() and every stored
   value), the fixed sizes, and makes capacity() = max(capacity(), n); for every list of
   trivially relocatable types, every state and every junk content of the new block *)
Theorem C10_reserve_keeps_contents : forall L,
  wf_plist L = true -> all_triv L = true -> forall v l n b junk bid tbid, Rep L v l ->
  Rep L (fst (reserve L v n b junk bid tbid)) l /\
  v_cap (fst (reserve L v n b junk bid tbid)) = Z.max (v_cap v) n /\
  v_fixed (fst (reserve L v n b junk bid tbid)) = v_fixed v.
Proof. exact reserve_rep. Qed.
Print Assumptions C10_reserve_keeps_contents.

(* when n does not exceed capacity() it does nothing at all: same state, no event *)
Theorem C10_reserve_within_capacity_is_noop : forall L v n b junk bid tbid,
  n <= v_cap v -> reserve L v n b junk bid tbid = (v, []).
Proof. exact reserve_noop. Qed.
Print Assumptions C10_reserve_within_capacity_is_noop.

(* the promise: after reserve(n, b) with n > capacity(), n elements / b bytes of varying
   payload fit.  One step of the history invariant: a growing reserve re-establishes
   "needed(capacity, budget) <= block" for the new capacity and budget b ... *)
Theorem C10_reserve_reestablishes_the_budget : forall L, wf_plist L = true -> all_triv L = true ->
  tail_ok (SA L) true L = true -> forall junk v s B n b, BInv L v s B ->
  0 <= b -> (s_cap s < n -> tpayload L (s_elems s) <= b) ->
  BInv L (vstep L junk v (SReserve n b)) (sstep s (SReserve n b)) (if s_cap s <? n then b else B).
Proof.
  intros L Hwf Ht Htl junk v s B n b HI Hb Hp.
  exact (binv_step L Hwf Ht Htl junk v s B (SReserve n b) HI I (conj Hb Hp)).
Qed.
Print Assumptions C10_reserve_reestablishes_the_budget.

(* ... and whatever valid history follows (emplace_back up to the new capacity and the new
   budget included) keeps every element inside the block *)
Theorem C10_after_reserve_everything_fits : forall L cap budget fixed aid junk bid tbid h,
  wf_plist L = true -> all_triv L = true -> tail_ok (SA L) true L = true ->
  0 <= cap -> 0 <= budget -> Forall (fun c => 0 <= c) fixed ->
  let v0 := fst (mkvec L cap budget fixed aid junk bid tbid) in
  let s0 := {| s_cap := cap; s_elems := [] |} in
  shist_valid L (fixed_counts L fixed) s0 h -> bhist_valid L s0 budget h ->
  let v := vrun L junk v0 h in
  let l := s_elems (srun s0 h) in
  exists offs, RepO L v l offs /\
    Forall2 (fun a t => 0 <= a /\ elem_end L a t <= SA L * v_units v) offs l.
Proof. exact every_element_inside_block_every_history. Qed.
Print Assumptions C10_after_reserve_everything_fits.

(* ... and for every well-formed list with a benign tail, non-trivial value types included *)
Theorem C10_after_reserve_everything_fits_every_list : forall L cap budget fixed aid junk bid tbid h,
  wf_plist L = true -> tail_ok (SA L) true L = true ->
  0 <= cap -> 0 <= budget -> Forall (fun c => 0 <= c) fixed ->
  let v0 := fst (mkvec L cap budget fixed aid junk bid tbid) in
  let s0 := {| s_cap := cap; s_elems := [] |} in
  shist_valid L (fixed_counts L fixed) s0 h -> bhist_valid L s0 budget h -> nt_hist_okx L s0 h ->
  let v := vrun L junk v0 h in
  let l := s_elems (srun s0 h) in
  exists offs, RepO L v l offs /\
    Forall2 (fun a t => 0 <= a /\ elem_end L a t <= SA L * v_units v) offs l.
Proof. exact every_element_inside_block_every_history_ntx. Qed.
Print Assumptions C10_after_reserve_everything_fits_every_list.
