(* C10 — reserve only ever adds room and never changes contents. *)
From Coq Require Import ZArith List Bool.
From Cntgs Require Import Base Layout Mem Vector Spec Rep Refine.
Import ListNotations.
Local Open Scope Z_scope.

(* reserve(n, b) keeps the represented list of tuples (hence size() and every stored
   value), the fixed sizes, and makes capacity() = max(capacity(), n); for every list of
   trivially relocatable types, every state and every junk content of the new block *)
Theorem C10_reserve_keeps_contents : forall L,
  wf_plist L = true -> all_triv L = true -> forall v l n b junk bid tbid, Rep L v l ->
  Rep L (fst (reserve L v n b junk bid tbid)) l /\
  v_cap (fst (reserve L v n b junk bid tbid)) = Z.max (v_cap v) n /\
  v_fixed (fst (reserve L v n b junk bid tbid)) = v_fixed v.
Proof. exact reserve_rep. Qed.
Print Assumptions C10_reserve_keeps_contents.

(* when n does not exceed capacity() it does nothing at all: same state, no event *)
Theorem C10_reserve_within_capacity_is_noop : forall L v n b junk bid tbid,
  n <= v_cap v -> reserve L v n b junk bid tbid = (v, []).
Proof. exact reserve_noop. Qed.
Print Assumptions C10_reserve_within_capacity_is_noop.
