(* C11 — references and iterators are faithful proxies for the stored elements.
   Proved here, for EVERY well-formed parameter list and EVERY shape of the run table:
   * `target = source` (copy form) between element references of equal field sizes in
     different vectors leaves the target element holding exactly the source's tuple, does
     not touch the source and changes nothing outside the target element's extent
     (C11_reference_assignment_copies_the_values; AssignThm.v: every step of
     ElementTraits::assign - memmove of a run [begin K, end INDEX) or object-wise
     assignment of a MANUAL field - writes at a target address the source byte at the same
     offset from the element start, and the run table covers every field);
   * the run tables that drive assignment and swap cover every field exactly by "MANUAL"
     or "inside one run of consecutive trivially assignable / swappable fields": no field is
     skipped and no non-trivial object is ever moved byte-wise;
   * iterator expressions are index arithmetic.
   * swap(a, b) between element references of equal field sizes in different vectors leaves
     each element holding exactly the tuple the other one held and touches nothing outside the
     two extents (C11_reference_swap_exchanges_the_values; SwapThm.v: besides coverage this
     needs the runs of the table to be pairwise disjoint, C11_runs_do_not_overlap);
   * `target = std::move(source)` between references in different vectors leaves the target
     holding the source's tuple; the source keeps its bytes except in the fields the move table
     assigns object by object, which hold moved-from objects
     (C11_reference_move_assignment_moves_the_values; MoveThm.v);
   * WITHIN ONE VECTOR (both references see every write; SameVec.v): for two elements whose
     extents do not overlap, v[i] = v[j], v[i] = std::move(v[j]) and swap(v[i], v[j]) are the
     two-memory runs glued together - same events, and at every address the single memory
     holds what the target memory of the two-memory run holds inside the target element and
     what its source memory holds elsewhere (C11_same_vector_runs_are_the_glued_two_vector_runs);
     hence C11_same_vector_assignment, C11_same_vector_move_assignment, C11_same_vector_swap.
   * at the level of the abstract list (RefUpdate.v): in every represented state - what every
     valid history reaches (C01) - `v[i] = v[j]` (i <> j, equal field sizes) represents the list
     with element i replaced by element j, and swap(v[i], v[j]) the list with the two
     exchanged, at the same offsets: no other element and no bookkeeping changes
     (C11_assignment_through_references_updates_the_list, C11_swap_through_references_exchanges).
   * self-assignment (copy and move form) and self-swap of an element change no byte, whatever
     the field table and run table (C11_self_assignment_changes_nothing); the represented
     list is unchanged (C11_self_assignment_keeps_the_list).
   * sequences of exchanges within one vector (World.swaps: what std::reverse / rotate /
     swap_ranges perform through iter_swap) represent the list with the same exchanges applied
     (C11_exchange_sequences_refine), and for std::reverse the result is, element by element,
     the mirrored segment (C11_reverse_reverses).
   PARTIAL: that libstdc++'s algorithms perform exactly these iter_swap sequences (rotate is
   modelled by the three reversals that give the same result) are modelled as written and decided by the correspondence
   check and its content oracle (DESIGN.md, C11); in the model all access paths are the same
   function. *)
From Coq Require Import ZArith List Bool Lia.
From Cntgs Require Import Base Layout Mem Vector Proxy World Spec Rep CompareThm RunsThm ElemThm CmpContent AssignThm SwapThm MoveThm SameVec CompareThm RefUpdate Refine NtRefine World.
Import ListNotations.
Local Open Scope Z_scope.

Theorem C11_reference_assignment_copies_the_values : forall L, wf_plist L = true ->
  forall ts td fcs fcd, tuple_ok L fcs 0 ts -> tuple_ok L fcd 0 td -> cnts_of td = cnts_of ts ->
  forall ms md sa da, 0 <= sa /\ (SA L | sa) -> 0 <= da /\ (SA L | da) -> elem_at L ms sa ts ->
  forall sb db,
  let x' := fst (assign_all false L sb db (ref_fl L ts sa) (ref_fl L td da)
                            {| m_s := ms; m_d := md; m_same := false |} (seq 0 (length L))) in
  m_s x' = ms /\
  elem_at L (m_d x') da ts /\
  (forall y, ~ (da <= y < da + (elem_end L sa ts - sa)) -> m_d x' y = md y).
Proof. exact ref_assign_copy. Qed.
Print Assumptions C11_reference_assignment_copies_the_values.

Theorem C11_assign_table_covers_every_field : forall mv L j, (j < length L)%nat ->
  covered (runs_asg mv L) j.
Proof. intros mv L. exact (proj1 (runs_asg_structure mv L)). Qed.
Print Assumptions C11_assign_table_covers_every_field.

Theorem C11_assign_runs_hold_only_trivially_assignable_fields : forall mv L,
  sound (tasg mv) L (runs_asg mv L) (length L).
Proof. intros mv L. exact (proj2 (runs_asg_structure mv L)). Qed.
Print Assumptions C11_assign_runs_hold_only_trivially_assignable_fields.

Theorem C11_swap_table_covers_every_field : forall L j, (j < length L)%nat ->
  covered (runs_swp L) j.
Proof. intros L. exact (proj1 (runs_swp_structure L)). Qed.
Print Assumptions C11_swap_table_covers_every_field.

Theorem C11_swap_runs_hold_only_trivially_swappable_fields : forall L,
  sound tswp L (runs_swp L) (length L).
Proof. intros L. exact (proj2 (runs_swp_structure L)). Qed.
Print Assumptions C11_swap_runs_hold_only_trivially_swappable_fields.

(* iterator arithmetic and comparisons are those of the indices *)
Theorem C11_iterators_are_indices : forall i j n,
  iter_battery i j n =
  [ i - j; b2z (i =? j); b2z (negb (i =? j)); b2z (i <? j); b2z (i <=? j); b2z (j <? i); b2z (j <=? i);
    j; i; i + 1; i; i; n; 0 ].
Proof. intros i j n. unfold iter_battery. repeat f_equal; lia. Qed.
Print Assumptions C11_iterators_are_indices.

(* non-vacuity: the partially trivial swap of the suite (int, FixedSize<float>,
   FixedSize<unique_ptr>) has one run over the two trivial fields and one MANUAL field *)
Example C11_partially_trivial_tables :
  let L := [ {| pk := Plain; psz := 4; pal := 1; pty := TUInt |};
             {| pk := Fixed; psz := 4; pal := 1; pty := TBlob |};
             {| pk := Fixed; psz := 8; pal := 1; pty := TTrk |} ] in
  runs_swp L = [REnd 1; RSkip; RManual] /\ runs_asg false L = [REnd 1; RSkip; RManual] /\
  runs_asg true L = [REnd 1; RSkip; RManual].
Proof. vm_compute. repeat split; reflexivity. Qed.

(* the copy and the move table differ where a type is trivial for one assignment only: a
   handle with a user-provided move assignment (TTrkMA) is memmoved by a copy assignment and
   assigned object by object by a move assignment; the reverse for TTrkCA *)
Example C11_copy_and_move_tables_differ :
  let L := [ {| pk := Plain; psz := 4; pal := 1; pty := TUInt |};
             {| pk := Plain; psz := 4; pal := 1; pty := TTrkMA |};
             {| pk := Fixed; psz := 4; pal := 1; pty := TTrkCA |} ] in
  runs_asg false L = [REnd 1; RSkip; RManual] /\ runs_asg true L = [REnd 0; RManual; REnd 2] /\
  runs_swp L = [REnd 0; RManual; REnd 2].
Proof. vm_compute. repeat split; reflexivity. Qed.

(* swap between element references in different vectors, every list and run-table shape *)
Theorem C11_reference_swap_exchanges_the_values : forall L, wf_plist L = true ->
  forall tx ty fcx fcy, tuple_ok L fcx 0 tx -> tuple_ok L fcy 0 ty -> cnts_of ty = cnts_of tx ->
  forall mx my xa ya, 0 <= xa /\ (SA L | xa) -> 0 <= ya /\ (SA L | ya) ->
  elem_at L mx xa tx -> elem_at L my ya ty ->
  forall xb yb,
  let x' := fst (swap_all L xb yb (ref_fl L tx xa) (ref_fl L ty ya)
                          {| m_s := mx; m_d := my; m_same := false |} (seq 0 (length L))) in
  elem_at L (m_s x') xa ty /\ elem_at L (m_d x') ya tx /\
  (forall y, ~ (xa <= y < xa + (elem_end L xa tx - xa)) -> m_s x' y = mx y) /\
  (forall y, ~ (ya <= y < ya + (elem_end L xa tx - xa)) -> m_d x' y = my y).
Proof. exact ref_swap_exchanges. Qed.
Print Assumptions C11_reference_swap_exchanges_the_values.

(* the runs of the tables are pairwise disjoint: behind the first field of a run the table
   holds nothing up to the run's end - no second run, no MANUAL entry *)
Theorem C11_runs_do_not_overlap : forall pred bpad bspan L,
  separated (runs pred bpad bspan L) (length L).
Proof. exact runs_separated. Qed.
Print Assumptions C11_runs_do_not_overlap.

(* move form: the target gets the source's tuple; the source is scribbled (moved-from objects,
   0xEE in the model) exactly on the byte ranges of the fields that are not trivially
   move-assignable (MANUAL in the move table) and keeps every other byte *)
Theorem C11_reference_move_assignment_moves_the_values : forall L, wf_plist L = true ->
  forall tx ty fcx fcy, tuple_ok L fcx 0 tx -> tuple_ok L fcy 0 ty -> cnts_of ty = cnts_of tx ->
  forall mx my xa ya, 0 <= xa /\ (SA L | xa) -> 0 <= ya /\ (SA L | ya) -> elem_at L mx xa tx ->
  forall sb db,
  let x' := fst (assign_all true L sb db (ref_fl L tx xa) (ref_fl L ty ya)
                            {| m_s := mx; m_d := my; m_same := false |} (seq 0 (length L))) in
  elem_at L (m_d x') ya tx /\
  (forall y, ~ (ya <= y < ya + (elem_end L xa tx - xa)) -> m_d x' y = my y) /\
  (forall y, m_s x' y = if existsb (fun k => man L k && MoveThm.rx L tx xa k y) (seq 0 (length L)) then 238 else mx y).
Proof. exact ref_move_assign. Qed.
Print Assumptions C11_reference_move_assignment_moves_the_values.

(* ---------- both references into ONE vector ---------- *)
Theorem C11_same_vector_runs_are_the_glued_two_vector_runs : forall L, wf_plist L = true ->
  forall ts td fcs fcd, tuple_ok L fcs 0 ts -> tuple_ok L fcd 0 td -> cnts_of td = cnts_of ts ->
  forall m sa da, 0 <= sa /\ (SA L | sa) -> 0 <= da /\ (SA L | da) ->
  let len := elem_end L sa ts - sa in
  sa + len <= da \/ da + len <= sa ->
  forall mv sb db,
  let one := {| m_s := m; m_d := m; m_same := true |} in
  let two := {| m_s := m; m_d := m; m_same := false |} in
  (let x := assign_all mv L sb db (ref_fl L ts sa) (ref_fl L td da) one (seq 0 (length L)) in
   let y := assign_all mv L sb db (ref_fl L ts sa) (ref_fl L td da) two (seq 0 (length L)) in
   simr (inr da len) (fst x) (fst y) /\ snd x = snd y) /\
  (let x := swap_all L sb db (ref_fl L ts sa) (ref_fl L td da) one (seq 0 (length L)) in
   let y := swap_all L sb db (ref_fl L ts sa) (ref_fl L td da) two (seq 0 (length L)) in
   simr (inr da len) (fst x) (fst y) /\ snd x = snd y).
Proof.
  intros L Hwf ts td fcs fcd Hts Htd Hcn m sa da Hsa Hda len Hd mv sb db. split.
  - exact (assign_same_is_glued L Hwf ts td fcs fcd Hts Htd Hcn m sa da Hsa Hda Hd mv sb db).
  - exact (swap_same_is_glued L Hwf ts td fcs fcd Hts Htd Hcn m sa da Hsa Hda Hd sb db).
Qed.
Print Assumptions C11_same_vector_runs_are_the_glued_two_vector_runs.

Theorem C11_same_vector_assignment : forall L, wf_plist L = true ->
  forall ts td fcs fcd, tuple_ok L fcs 0 ts -> tuple_ok L fcd 0 td -> cnts_of td = cnts_of ts ->
  forall m sa da, 0 <= sa /\ (SA L | sa) -> 0 <= da /\ (SA L | da) -> elem_at L m sa ts ->
  let len := elem_end L sa ts - sa in
  sa + len <= da \/ da + len <= sa ->
  forall sb db,
  let x' := fst (assign_all false L sb db (ref_fl L ts sa) (ref_fl L td da)
                            {| m_s := m; m_d := m; m_same := true |} (seq 0 (length L))) in
  (forall a, m_s x' a = m_d x' a) /\
  elem_at L (m_d x') da ts /\
  (forall y, ~ (da <= y < da + len) -> m_d x' y = m y).
Proof. exact same_vector_copy_assign. Qed.
Print Assumptions C11_same_vector_assignment.

Theorem C11_same_vector_move_assignment : forall L, wf_plist L = true ->
  forall ts td fcs fcd, tuple_ok L fcs 0 ts -> tuple_ok L fcd 0 td -> cnts_of td = cnts_of ts ->
  forall m sa da, 0 <= sa /\ (SA L | sa) -> 0 <= da /\ (SA L | da) -> elem_at L m sa ts ->
  let len := elem_end L sa ts - sa in
  sa + len <= da \/ da + len <= sa ->
  forall sb db,
  let x' := fst (assign_all true L sb db (ref_fl L ts sa) (ref_fl L td da)
                            {| m_s := m; m_d := m; m_same := true |} (seq 0 (length L))) in
  (forall a, m_s x' a = m_d x' a) /\
  elem_at L (m_d x') da ts /\
  (forall y, ~ (da <= y < da + len) ->
     m_d x' y = if existsb (fun k => man L k && MoveThm.rx L ts sa k y) (seq 0 (length L)) then 238 else m y).
Proof. exact same_vector_move_assign. Qed.
Print Assumptions C11_same_vector_move_assignment.

Theorem C11_same_vector_swap : forall L, wf_plist L = true ->
  forall ts td fcs fcd, tuple_ok L fcs 0 ts -> tuple_ok L fcd 0 td -> cnts_of td = cnts_of ts ->
  forall m sa da, 0 <= sa /\ (SA L | sa) -> 0 <= da /\ (SA L | da) -> elem_at L m sa ts ->
  let len := elem_end L sa ts - sa in
  sa + len <= da \/ da + len <= sa ->
  elem_at L m da td ->
  forall xb yb,
  let x' := fst (swap_all L xb yb (ref_fl L ts sa) (ref_fl L td da)
                          {| m_s := m; m_d := m; m_same := true |} (seq 0 (length L))) in
  (forall a, m_s x' a = m_d x' a) /\
  elem_at L (m_d x') sa td /\ elem_at L (m_d x') da ts /\
  (forall y, ~ (sa <= y < sa + len) -> ~ (da <= y < da + len) -> m_d x' y = m y).
Proof. exact same_vector_swap. Qed.
Print Assumptions C11_same_vector_swap.

(* non-vacuity: two elements of (uint16, FixedSize<Trk,2>, uint8) in one memory (junk 0xAA),
   16 bytes apart: after swap(v[0], v[1]) executed in ONE memory each holds the other's tuple *)
Example C11_same_vector_example :
  let L := [ {| pk := Plain; psz := 2; pal := 2; pty := TUInt |};
             {| pk := Fixed; psz := 2; pal := 1; pty := TTrk |};
             {| pk := Plain; psz := 1; pal := 1; pty := TU8 |} ] in
  let t0 : tuple := [[[1; 0]]; [[2; 2]; [3; 3]]; [[4]]] in
  let t1 : tuple := [[[5; 0]]; [[6; 6]; [7; 7]]; [[8]]] in
  let m0 := fst (fst (store L t1 0%nat (fst (fst (store L t0 0%nat (mfill 170) 0))) 16)) in
  elem_at L m0 0 t0 /\ elem_at L m0 16 t1 /\ elem_end L 0 t0 - 0 = 7 /\
  let x' := fst (swap_all L 0%nat 0%nat (ref_fl L t0 0) (ref_fl L t1 16)
                          {| m_s := m0; m_d := m0; m_same := true |} (seq 0 (length L))) in
  elem_at L (m_d x') 0 t1 /\ elem_at L (m_d x') 16 t0 /\ m_d x' 7 = 170 /\ m_d x' 23 = 170.
Proof. vm_compute. repeat split; reflexivity. Qed.

(* ---------- and at the level of the represented list ---------- *)
Theorem C11_assignment_through_references_updates_the_list : forall L, wf_plist L = true ->
  forall v l offs, RepO L v l offs ->
  forall i j, (i < length l)%nat -> (j < length l)%nat -> i <> j ->
  cnts_of (nth i l []) = cnts_of (nth j l []) ->
  let r := ref_assign false L true v (Z.of_nat i) v (Z.of_nat j) in
  RepO L (fst (fst r)) (upd i (nth j l []) l) offs /\
  (forall a, v_mem (snd (fst r)) a = v_mem (fst (fst r)) a).
Proof. exact ref_assign_refines_update. Qed.
Print Assumptions C11_assignment_through_references_updates_the_list.

Theorem C11_swap_through_references_exchanges : forall L, wf_plist L = true ->
  forall v l offs, RepO L v l offs ->
  forall i j, (i < length l)%nat -> (j < length l)%nat -> i <> j ->
  cnts_of (nth i l []) = cnts_of (nth j l []) ->
  let r := ref_swap L true v (Z.of_nat i) v (Z.of_nat j) in
  RepO L (fst (fst r)) (upd i (nth j l []) (upd j (nth i l []) l)) offs /\
  (forall a, v_mem (snd (fst r)) a = v_mem (fst (fst r)) a).
Proof. exact ref_swap_refines_exchange. Qed.
Print Assumptions C11_swap_through_references_exchanges.

(* ---------- self-assignment and self-swap ---------- *)
Theorem C11_self_assignment_changes_nothing : forall L sb db fl m ks,
  (forall mv, let x' := fst (assign_all mv L sb db fl fl {| m_s := m; m_d := m; m_same := true |} ks) in
              (forall z, m_s x' z = m z) /\ (forall z, m_d x' z = m z)) /\
  (let x' := fst (swap_all L sb db fl fl {| m_s := m; m_d := m; m_same := true |} ks) in
   (forall z, m_s x' z = m z) /\ (forall z, m_d x' z = m z)).
Proof.
  intros L sb db fl m ks. split.
  - intros mv. exact (self_assignment_changes_nothing mv L sb db fl m ks).
  - exact (self_swap_changes_nothing L sb db fl m ks).
Qed.
Print Assumptions C11_self_assignment_changes_nothing.

Theorem C11_self_assignment_keeps_the_list : forall L, wf_plist L = true -> forall v l offs i, RepO L v l offs ->
  (forall mv, let r := ref_assign mv L true v i v i in RepO L (fst (fst r)) l offs /\ RepO L (snd (fst r)) l offs) /\
  (let r := ref_swap L true v i v i in RepO L (fst (fst r)) l offs /\ RepO L (snd (fst r)) l offs).
Proof.
  intros L Hwf v l offs i R. split.
  - intros mv. exact (self_assign_refines_identity L Hwf v l offs i mv R).
  - exact (self_swap_refines_identity L Hwf v l offs i R).
Qed.
Print Assumptions C11_self_assignment_keeps_the_list.

(* lists without a VaryingSize parameter: all elements of a vector have the same field sizes, so
   after EVERY valid history from construction any two different elements can be assigned to /
   swapped with each other through references, and the vector then represents the updated /
   exchanged list *)
Theorem C11_reference_assignment_and_swap_after_every_history : forall L cap budget fixed aid junk bid tbid h,
  wf_plist L = true -> has_varying L = false -> 0 <= cap -> Forall (fun c => 0 <= c) fixed ->
  let v0 := fst (mkvec L cap budget fixed aid junk bid tbid) in
  let s0 := {| s_cap := cap; s_elems := [] |} in
  shist_valid L (fixed_counts L fixed) s0 h -> nt_hist_okx L s0 h ->
  let v := vrun L junk v0 h in
  let l := s_elems (srun s0 h) in
  forall i j, (i < length l)%nat -> (j < length l)%nat -> i <> j ->
  Rep L (fst (fst (ref_assign false L true v (Z.of_nat i) v (Z.of_nat j)))) (upd i (nth j l []) l) /\
  Rep L (fst (fst (ref_swap L true v (Z.of_nat i) v (Z.of_nat j)))) (upd i (nth j l []) (upd j (nth i l []) l)).
Proof.
  intros L cap budget fixed aid junk bid tbid h Hwf Hv Hcap Hfx. cbv zeta. intros Hh Hn i j Hi Hj Hij.
  destruct (rep_every_history_nt L cap budget fixed aid junk bid tbid h Hwf Hcap Hfx Hh Hn) as [offs R].
  split; exists offs.
  - exact (ref_assign_refines_update_fixed L Hwf Hv _ _ offs i j R Hi Hj Hij).
  - exact (ref_swap_refines_exchange_fixed L Hwf Hv _ _ offs i j R Hi Hj Hij).
Qed.
Print Assumptions C11_reference_assignment_and_swap_after_every_history.

(* ---------- permuting algorithms: sequences of exchanges within one vector ---------- *)
Theorem C11_exchange_sequences_refine : forall L, wf_plist L = true -> has_varying L = false ->
  forall (ps : list (nat * nat)) n v l offs, RepO L v l offs -> length l = n ->
  Forall (fun ij => (fst ij < n)%nat /\ (snd ij < n)%nat /\ fst ij <> snd ij) ps ->
  let zs := map (fun ij => (Z.of_nat (fst ij), Z.of_nat (snd ij))) ps in
  RepO L (fst (swaps L true v v zs)) (fold_left lswap ps l) offs.
Proof. exact swaps_refine_exchanges. Qed.
Print Assumptions C11_exchange_sequences_refine.

(* std::reverse(begin() + a, begin() + c): the vector afterwards represents a list that holds, at
   every position k of [a, c), what position a + c - 1 - k held, and is unchanged elsewhere *)
Theorem C11_reverse_reverses : forall L, wf_plist L = true -> has_varying L = false ->
  forall v l offs a c, RepO L v l offs -> (a <= c)%nat -> (c <= length l)%nat ->
  exists l', RepO L (fst (swaps L true v v (rev_pairs (Z.of_nat a) (Z.of_nat c)))) l' offs /\
    forall k, nth k l' [] = if ((a <=? k) && (k <? c))%nat then nth (a + c - 1 - k) l [] else nth k l [].
Proof.
  intros L Hwf Hv v l offs a c R Hac Hcl. exists (fold_left lswap (rev_pairs_nat a c) l). split.
  - exact (reverse_refines L Hwf Hv v l offs a c R Hac Hcl).
  - exact (reverse_elementwise l a c Hac Hcl).
Qed.
Print Assumptions C11_reverse_reverses.

(* std::rotate(begin() + a, begin() + b, begin() + c) (the three reversals): the vector afterwards
   represents the list rotated left by b - a inside [a, c) *)
Theorem C11_rotate_rotates : forall L, wf_plist L = true -> has_varying L = false ->
  forall v l offs a b c, RepO L v l offs -> (a <= b)%nat -> (b <= c)%nat -> (c <= length l)%nat ->
  exists l', RepO L (fst (swaps L true v v (rev_pairs (Z.of_nat a) (Z.of_nat b) ++ rev_pairs (Z.of_nat b) (Z.of_nat c) ++
                                            rev_pairs (Z.of_nat a) (Z.of_nat c)))) l' offs /\
    forall k, nth k l' [] =
      if ((a <=? k) && (k <? c))%nat
      then (if (k <? a + (c - b))%nat then nth (k + (b - a)) l [] else nth (k - (c - b)) l [])
      else nth k l [].
Proof.
  intros L Hwf Hv v l offs a b c R Hab Hbc Hcl.
  exists (fold_left lswap (rev_pairs_nat a b ++ rev_pairs_nat b c ++ rev_pairs_nat a c) l). split.
  - exact (rotate_refines L Hwf Hv v l offs a b c R Hab Hbc Hcl).
  - exact (rotate_elementwise l a b c Hab Hbc Hcl).
Qed.
Print Assumptions C11_rotate_rotates.

(* std::swap_ranges(begin() + a, begin() + b, begin() + c) inside one vector, ranges not overlapping:
   the two segments change places, everything else stays *)
Theorem C11_swap_ranges_swaps : forall L, wf_plist L = true -> has_varying L = false ->
  forall v l offs a b c, RepO L v l offs -> (a <= b)%nat -> (b <= length l)%nat ->
  (c + (b - a) <= length l)%nat -> (b <= c \/ c + (b - a) <= a)%nat ->
  exists l', RepO L (fst (swaps L true v v (range_pairs (Z.of_nat a) (Z.of_nat b) (Z.of_nat c)))) l' offs /\
    forall k, nth k l' [] =
      if ((a <=? k) && (k <? b))%nat then nth (k - a + c) l []
      else if ((c <=? k) && (k <? c + (b - a)))%nat then nth (k - c + a) l [] else nth k l [].
Proof.
  intros L Hwf Hv v l offs a b c R Hab Hbl Hcl Hd. exists (fold_left lswap (range_pairs_nat a b c) l). split.
  - exact (swap_ranges_refines L Hwf Hv v l offs a b c R Hab Hbl Hcl Hd).
  - exact (swap_ranges_elementwise l a b c Hab Hbl Hcl Hd).
Qed.
Print Assumptions C11_swap_ranges_swaps.

(* the hypotheses of the history-level theorems are satisfiable: (uint16, FixedSize<Trk<2>>, uint8),
   fixed size 2, three elements left after a history with pop_back, erase and reserve *)
Definition c11L : list param :=
  [ {| pk := Plain; psz := 2; pal := 2; pty := TUInt |};
    {| pk := Fixed; psz := 2; pal := 1; pty := TTrk |};
    {| pk := Plain; psz := 1; pal := 1; pty := TU8 |} ].
Definition c11t (b : Z) : tuple := [[[b; 0]]; [[b; b]; [b + 1; b + 1]]; [[b]]].
Definition c11H : list sop :=
  [SEmplace (c11t 1); SEmplace (c11t 2); SPopBack; SEmplace (c11t 3); SReserve 5 0; SEmplace (c11t 4); SEmplace (c11t 5); SErase 3].
Example C11_history_level_applies :
  wf_plist c11L = true /\ has_varying c11L = false /\
  shist_valid c11L (fixed_counts c11L [2]) {| s_cap := 3; s_elems := [] |} c11H /\
  nt_hist_okx c11L {| s_cap := 3; s_elems := [] |} c11H /\
  s_elems (srun {| s_cap := 3; s_elems := [] |} c11H) = [c11t 1; c11t 3; c11t 4].
Proof.
  split; [reflexivity|]. split; [reflexivity|]. split; [|split].
  - cbn. repeat split; try lia; try discriminate; repeat constructor.
  - apply nt_hist_okx_fixed. reflexivity.
  - reflexivity.
Qed.

(* ---------- between two vectors, at the level of the represented lists ---------- *)
Theorem C11_assignment_between_vectors_updates_the_list : forall L, wf_plist L = true ->
  forall vd vs ld ls od os, RepO L vd ld od -> RepO L vs ls os ->
  forall i j, (i < length ld)%nat -> (j < length ls)%nat ->
  cnts_of (nth i ld []) = cnts_of (nth j ls []) ->
  let r := ref_assign false L false vd (Z.of_nat i) vs (Z.of_nat j) in
  RepO L (fst (fst r)) (upd i (nth j ls []) ld) od /\ RepO L (snd (fst r)) ls os.
Proof. exact ref_assign_refines_update_two. Qed.
Print Assumptions C11_assignment_between_vectors_updates_the_list.

Theorem C11_swap_between_vectors_exchanges : forall L, wf_plist L = true ->
  forall vd vs ld ls od os, RepO L vd ld od -> RepO L vs ls os ->
  forall i j, (i < length ld)%nat -> (j < length ls)%nat ->
  cnts_of (nth i ld []) = cnts_of (nth j ls []) ->
  let r := ref_swap L false vd (Z.of_nat i) vs (Z.of_nat j) in
  RepO L (fst (fst r)) (upd i (nth j ls []) ld) od /\ RepO L (snd (fst r)) (upd j (nth i ld []) ls) os.
Proof. exact ref_swap_refines_exchange_two. Qed.
Print Assumptions C11_swap_between_vectors_exchanges.
