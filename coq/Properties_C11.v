(* C11 — references and iterators are faithful proxies for the stored elements.
   Proved here, for EVERY well-formed parameter list and EVERY shape of the run table:
   * `target = source` (copy form) between element references of equal field sizes in
     different vectors leaves the target element holding exactly the source's tuple, does
     not touch the source and changes nothing outside the target element's extent
     (C11_reference_assignment_copies_the_values; AssignThm.v: every step of
     ElementTraits::assign - memmove of a run [begin K, end INDEX) or object-wise
     assignment of a MANUAL field - writes at a target address the source byte at the same
     offset from the element start, and the run table covers every field);
   * the run tables that drive assignment and swap cover every field exactly by "MANUAL"
     or "inside one run of consecutive trivially assignable / swappable fields": no field is
     skipped and no non-trivial object is ever moved byte-wise;
   * iterator expressions are index arithmetic.
   * swap(a, b) between element references of equal field sizes in different vectors leaves
     each element holding exactly the tuple the other one held and touches nothing outside the
     two extents (C11_reference_swap_exchanges_the_values; SwapThm.v: besides coverage this
     needs the runs of the table to be pairwise disjoint, C11_runs_do_not_overlap);
   * `target = std::move(source)` between references in different vectors leaves the target
     holding the source's tuple; the source keeps its bytes except in the fields the move table
     assigns object by object, which hold moved-from objects
     (C11_reference_move_assignment_moves_the_values; MoveThm.v);
   PARTIAL: assignment and swap within one vector, and the permuting algorithms
   (which are compositions of these) are modelled as written and decided by the correspondence
   check and its content oracle (DESIGN.md, C11); in the model all access paths are the same
   function. *)
From Coq Require Import ZArith List Bool Lia.
From Cntgs Require Import Base Layout Mem Vector Proxy World Spec Rep CompareThm RunsThm ElemThm CmpContent AssignThm SwapThm MoveThm.
Import ListNotations.
Local Open Scope Z_scope.

Theorem C11_reference_assignment_copies_the_values : forall L, wf_plist L = true ->
  forall ts td fcs fcd, tuple_ok L fcs 0 ts -> tuple_ok L fcd 0 td -> cnts_of td = cnts_of ts ->
  forall ms md sa da, 0 <= sa /\ (SA L | sa) -> 0 <= da /\ (SA L | da) -> elem_at L ms sa ts ->
  forall sb db,
  let x' := fst (assign_all false L sb db (ref_fl L ts sa) (ref_fl L td da)
                            {| m_s := ms; m_d := md; m_same := false |} (seq 0 (length L))) in
  m_s x' = ms /\
  elem_at L (m_d x') da ts /\
  (forall y, ~ (da <= y < da + (elem_end L sa ts - sa)) -> m_d x' y = md y).
Proof. exact ref_assign_copy. Qed.
Print Assumptions C11_reference_assignment_copies_the_values.

Theorem C11_assign_table_covers_every_field : forall mv L j, (j < length L)%nat ->
  covered (runs_asg mv L) j.
Proof. intros mv L. exact (proj1 (runs_asg_structure mv L)). Qed.
Print Assumptions C11_assign_table_covers_every_field.

Theorem C11_assign_runs_hold_only_trivially_assignable_fields : forall mv L,
  sound (tasg mv) L (runs_asg mv L) (length L).
Proof. intros mv L. exact (proj2 (runs_asg_structure mv L)). Qed.
Print Assumptions C11_assign_runs_hold_only_trivially_assignable_fields.

Theorem C11_swap_table_covers_every_field : forall L j, (j < length L)%nat ->
  covered (runs_swp L) j.
Proof. intros L. exact (proj1 (runs_swp_structure L)). Qed.
Print Assumptions C11_swap_table_covers_every_field.

Theorem C11_swap_runs_hold_only_trivially_swappable_fields : forall L,
  sound tswp L (runs_swp L) (length L).
Proof. intros L. exact (proj2 (runs_swp_structure L)). Qed.
Print Assumptions C11_swap_runs_hold_only_trivially_swappable_fields.

(* iterator arithmetic and comparisons are those of the indices *)
Theorem C11_iterators_are_indices : forall i j n,
  iter_battery i j n =
  [ i - j; b2z (i =? j); b2z (negb (i =? j)); b2z (i <? j); b2z (i <=? j); b2z (j <? i); b2z (j <=? i);
    j; i; i + 1; i; i; n; 0 ].
Proof. intros i j n. unfold iter_battery. repeat f_equal; lia. Qed.
Print Assumptions C11_iterators_are_indices.

(* non-vacuity: the partially trivial swap of the suite (int, FixedSize<float>,
   FixedSize<unique_ptr>) has one run over the two trivial fields and one MANUAL field *)
Example C11_partially_trivial_tables :
  let L := [ {| pk := Plain; psz := 4; pal := 1; pty := TUInt |};
             {| pk := Fixed; psz := 4; pal := 1; pty := TBlob |};
             {| pk := Fixed; psz := 8; pal := 1; pty := TTrk |} ] in
  runs_swp L = [REnd 1; RSkip; RManual] /\ runs_asg false L = [REnd 1; RSkip; RManual] /\
  runs_asg true L = [REnd 1; RSkip; RManual].
Proof. vm_compute. repeat split; reflexivity. Qed.

(* the copy and the move table differ where a type is trivial for one assignment only: a
   handle with a user-provided move assignment (TTrkMA) is memmoved by a copy assignment and
   assigned object by object by a move assignment; the reverse for TTrkCA *)
Example C11_copy_and_move_tables_differ :
  let L := [ {| pk := Plain; psz := 4; pal := 1; pty := TUInt |};
             {| pk := Plain; psz := 4; pal := 1; pty := TTrkMA |};
             {| pk := Fixed; psz := 4; pal := 1; pty := TTrkCA |} ] in
  runs_asg false L = [REnd 1; RSkip; RManual] /\ runs_asg true L = [REnd 0; RManual; REnd 2] /\
  runs_swp L = [REnd 0; RManual; REnd 2].
Proof. vm_compute. repeat split; reflexivity. Qed.

(* swap between element references in different vectors, every list and run-table shape *)
Theorem C11_reference_swap_exchanges_the_values : forall L, wf_plist L = true ->
  forall tx ty fcx fcy, tuple_ok L fcx 0 tx -> tuple_ok L fcy 0 ty -> cnts_of ty = cnts_of tx ->
  forall mx my xa ya, 0 <= xa /\ (SA L | xa) -> 0 <= ya /\ (SA L | ya) ->
  elem_at L mx xa tx -> elem_at L my ya ty ->
  forall xb yb,
  let x' := fst (swap_all L xb yb (ref_fl L tx xa) (ref_fl L ty ya)
                          {| m_s := mx; m_d := my; m_same := false |} (seq 0 (length L))) in
  elem_at L (m_s x') xa ty /\ elem_at L (m_d x') ya tx /\
  (forall y, ~ (xa <= y < xa + (elem_end L xa tx - xa)) -> m_s x' y = mx y) /\
  (forall y, ~ (ya <= y < ya + (elem_end L xa tx - xa)) -> m_d x' y = my y).
Proof. exact ref_swap_exchanges. Qed.
Print Assumptions C11_reference_swap_exchanges_the_values.

(* the runs of the tables are pairwise disjoint: behind the first field of a run the table
   holds nothing up to the run's end - no second run, no MANUAL entry *)
Theorem C11_runs_do_not_overlap : forall pred bpad bspan L,
  separated (runs pred bpad bspan L) (length L).
Proof. exact runs_separated. Qed.
Print Assumptions C11_runs_do_not_overlap.

(* move form: the target gets the source's tuple; the source is scribbled (moved-from objects,
   0xEE in the model) exactly on the byte ranges of the fields that are not trivially
   move-assignable (MANUAL in the move table) and keeps every other byte *)
Theorem C11_reference_move_assignment_moves_the_values : forall L, wf_plist L = true ->
  forall tx ty fcx fcy, tuple_ok L fcx 0 tx -> tuple_ok L fcy 0 ty -> cnts_of ty = cnts_of tx ->
  forall mx my xa ya, 0 <= xa /\ (SA L | xa) -> 0 <= ya /\ (SA L | ya) -> elem_at L mx xa tx ->
  forall sb db,
  let x' := fst (assign_all true L sb db (ref_fl L tx xa) (ref_fl L ty ya)
                            {| m_s := mx; m_d := my; m_same := false |} (seq 0 (length L))) in
  elem_at L (m_d x') ya tx /\
  (forall y, ~ (ya <= y < ya + (elem_end L xa tx - xa)) -> m_d x' y = my y) /\
  (forall y, m_s x' y = if existsb (fun k => man L k && MoveThm.rx L tx xa k y) (seq 0 (length L)) then 238 else mx y).
Proof. exact ref_move_assign. Qed.
Print Assumptions C11_reference_move_assignment_moves_the_values.
