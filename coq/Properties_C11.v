(* C11 — references and iterators are faithful proxies for the stored elements.
   Proved here, for EVERY parameter list: the run tables that drive reference assignment
   and swap cover every field exactly by "assign/swap it with the value type's own
   operation" (MANUAL) or "inside one run of consecutive fields that are all trivially
   assignable / swappable", so no field is skipped and no non-trivial object is ever moved
   byte-wise; iterator expressions are index arithmetic.
   That assignment / swap / the permuting algorithms then reproduce exactly the source
   element's values is decided by the correspondence check and its content oracle
   (DESIGN.md, C11); in the model all access paths are the same function (vfl/obs_elem). *)
From Coq Require Import ZArith List Bool Lia.
From Cntgs Require Import Base Layout Mem Vector Proxy World CompareThm RunsThm.
Import ListNotations.
Local Open Scope Z_scope.

Theorem C11_assign_table_covers_every_field : forall L j, (j < length L)%nat ->
  covered (runs_asg L) j.
Proof. intros L. exact (proj1 (runs_asg_structure L)). Qed.
Print Assumptions C11_assign_table_covers_every_field.

Theorem C11_assign_runs_hold_only_trivially_assignable_fields : forall L,
  sound tasg L (runs_asg L) (length L).
Proof. intros L. exact (proj2 (runs_asg_structure L)). Qed.
Print Assumptions C11_assign_runs_hold_only_trivially_assignable_fields.

Theorem C11_swap_table_covers_every_field : forall L j, (j < length L)%nat ->
  covered (runs_swp L) j.
Proof. intros L. exact (proj1 (runs_swp_structure L)). Qed.
Print Assumptions C11_swap_table_covers_every_field.

Theorem C11_swap_runs_hold_only_trivially_swappable_fields : forall L,
  sound tswp L (runs_swp L) (length L).
Proof. intros L. exact (proj2 (runs_swp_structure L)). Qed.
Print Assumptions C11_swap_runs_hold_only_trivially_swappable_fields.

(* iterator arithmetic and comparisons are those of the indices *)
Theorem C11_iterators_are_indices : forall i j n,
  iter_battery i j n =
  [ i - j; b2z (i =? j); b2z (negb (i =? j)); b2z (i <? j); b2z (i <=? j); b2z (j <? i); b2z (j <=? i);
    j; i; i + 1; i; i; n; 0 ].
Proof. intros i j n. unfold iter_battery. repeat f_equal; lia. Qed.
Print Assumptions C11_iterators_are_indices.

(* non-vacuity: the partially trivial swap of the suite (int, FixedSize<float>,
   FixedSize<unique_ptr>) has one run over the two trivial fields and one MANUAL field *)
Example C11_partially_trivial_tables :
  let L := [ {| pk := Plain; psz := 4; pal := 1; pty := TUInt |};
             {| pk := Fixed; psz := 4; pal := 1; pty := TBlob |};
             {| pk := Fixed; psz := 8; pal := 1; pty := TTrk |} ] in
  runs_swp L = [REnd 1; RSkip; RManual] /\ runs_asg L = [REnd 1; RSkip; RManual].
Proof. vm_compute. split; reflexivity. Qed.
