(* Refine.v — refinement of the byte-level vector model to a plain list of tuples
   (property C01 and its corollaries C10, C16, C18, vector-level C03/C04), for parameter
   lists whose value types are all trivially relocatable ([all_triv]).  Each operation
   preserves the representation invariant [Rep] and produces the spec machine's result. *)
From Coq Require Import ZArith Lia List Bool.
From Cntgs Require Import Base BaseLemmas Layout LayoutThm Mem MemLemmas Vector Spec Rep ElemLemmas Ordered EsizeThm.
Import ListNotations.
Local Open Scope Z_scope.

Lemma wf_plist_varying L : wf_plist L = true -> wf_varying false L = true.
Proof. unfold wf_plist. destruct L; [discriminate|]. rewrite andb_true_iff. tauto. Qed.

Lemma nth_firstn_ {A} (l : list A) n i d : (i < n)%nat -> nth i (firstn n l) d = nth i l d.
Proof.
  revert n i. induction l as [|x l IH]; intros [|n] [|i] H; cbn; auto; try lia. apply IH. lia.
Qed.

Lemma upd_length {A} (l : list A) n x : length (upd n x l) = length l.
Proof. revert n. induction l as [|y l IH]; intros [|n]; cbn; auto. Qed.

Lemma upd_firstn_snoc {A} (l : list A) x : forall n, (n < length l)%nat ->
  firstn (S n) (upd n x l) = firstn n l ++ [x].
Proof.
  induction l as [|y l IH]; intros [|n] H; cbn in *; try lia; auto.
  f_equal. apply IH. lia.
Qed.

Lemma firstn_upd_ge {A} (l : list A) x : forall n k, (k <= n)%nat -> firstn k (upd n x l) = firstn k l.
Proof.
  induction l as [|y l IH]; intros [|n] [|k] H; cbn; auto; try lia. f_equal. apply IH. lia.
Qed.

Lemma In_firstn_ {A} (l : list A) n x : In x (firstn n l) -> In x l.
Proof. revert n. induction l as [|y l IH]; intros [|n]; cbn; auto; try tauto. intros [->|H]; eauto. Qed.

Lemma Forall2_firstn_ {A B} (P : A -> B -> Prop) l1 l2 n : Forall2 P l1 l2 -> Forall2 P (firstn n l1) (firstn n l2).
Proof. intros H. revert n. induction H; intros [|n]; cbn; constructor; auto. Qed.

Lemma firstn_firstn_le_ {A} (l : list A) n k : (n <= k)%nat -> firstn n (firstn k l) = firstn n l.
Proof. intros H. rewrite firstn_firstn. now rewrite Nat.min_l. Qed.

Lemma nth_upd_same {A} (l : list A) x d : forall n, (n < length l)%nat -> nth n (upd n x l) d = x.
Proof. induction l as [|y l IH]; intros [|n] H; cbn in *; try lia; auto. apply IH. lia. Qed.

Lemma skipn_seq_ n : forall s k, skipn k (seq s n) = seq (s + k) (n - k).
Proof.
  induction n as [|n IH]; intros s [|k]; cbn [seq skipn Nat.sub]; try reflexivity.
  - now rewrite Nat.add_0_r.
  - rewrite IH. f_equal. lia.
Qed.

Lemma In_skipn_ {A} (l : list A) n x : In x (skipn n l) -> In x l.
Proof. revert n. induction l as [|y l IH]; intros [|n]; cbn; auto. intros H. right. eauto. Qed.

Lemma Forall2_skipn_ {A B} (P : A -> B -> Prop) l1 l2 n : Forall2 P l1 l2 -> Forall2 P (skipn n l1) (skipn n l2).
Proof. intros H. revert n. induction H; intros [|n]; cbn; try constructor; auto. Qed.

Lemma Forall2_map_l_ {A B C} (P : C -> B -> Prop) (f : A -> C) l1 l2 :
  Forall2 (fun a b => P (f a) b) l1 l2 -> Forall2 P (map f l1) l2.
Proof. induction 1; cbn; constructor; auto. Qed.

Lemma seq_shift_by a b n : map (fun i => (i + a)%nat) (seq b n) = seq (b + a) n.
Proof.
  revert b. induction n as [|n IH]; intros b; cbn [seq map]; [reflexivity|].
  f_equal. rewrite IH. reflexivity.
Qed.

Section Refine.
  Variable L : list param.
  Hypothesis Hwf : wf_plist L = true.
  Hypothesis Htriv : all_triv L = true.

  Let HF : Forall wfp L := wf_plist_Forall L Hwf.
  Let Hne : L <> [] := wf_plist_nonempty L Hwf.
  Let HSp : 0 < SA L := pow2_pos _ (SA_pow2 L HF Hne).

  Lemma Hct : all_ctriv true L = true.
  Proof. unfold all_triv in Htriv. apply andb_true_iff in Htriv. tauto. Qed.
  Lemma Hdt : all_dtriv L = true.
  Proof. unfold all_triv in Htriv. apply andb_true_iff in Htriv. tauto. Qed.

  Lemma pal_div_SA d : (SA L | d) -> forall p, In p L -> (pal p | d).
  Proof. intros Hd p Hp. eapply Z.divide_trans; [apply SA_div; eauto|exact Hd]. Qed.

  Lemma elem_at_ext m m' a t fc : tuple_ok L fc 0 t ->
    (forall x, a <= x < elem_end L a t -> m' x = m x) -> elem_at L m a t -> elem_at L m' a t.
  Proof. intros Ht Hx H. unfold elem_at in *. eapply elem_from_ext; eauto. Qed.

  Lemma elem_at_shift m m' a t fc d : tuple_ok L fc 0 t -> (SA L | d) ->
    (forall x, a <= x < elem_end L a t -> m' (x + d) = m x) -> elem_at L m a t -> elem_at L m' (a + d) t.
  Proof.
    intros Ht Hd Hx H. unfold elem_at in *. eapply elem_from_shift; eauto. apply pal_div_SA; auto.
  Qed.

  (* ---------------- observations ---------------- *)
  Lemma rep_eaddr v l offs i : RepO L v l offs -> (i < length l)%nat ->
    eaddr L v (Z.of_nat i) = nth i offs 0.
  Proof.
    intros R Hi. pose proof (r_loc _ _ _ _ R) as Hl. unfold eaddr.
    destruct (has_varying L).
    - destruct Hl as (_ & _ & Hs & _). unfold slotv, slot. rewrite Nat2Z.id.
      rewrite <- (nth_firstn_ _ (length l)) by lia. rewrite Hs.
      pose proof (eo_length _ _ _ _ _ (r_order _ _ _ _ R)) as Hlen.
      rewrite (nth_indep _ None (Some 0)) by (rewrite map_length; lia).
      rewrite (map_nth Some offs 0 i). reflexivity.
    - destruct Hl as (_ & -> & _).
      rewrite (nth_indep _ 0 (v_stride v * Z.of_nat 0)) by (rewrite map_length, seq_length; lia).
      rewrite (map_nth (fun i => v_stride v * Z.of_nat i) (seq 0 (length l)) 0%nat i).
      rewrite seq_nth by lia. reflexivity.
  Qed.

  Lemma rep_vsize v l offs : RepO L v l offs -> vsize L v = Z.of_nat (length l).
  Proof.
    intros R. pose proof (r_loc _ _ _ _ R) as Hl. unfold vsize. destruct (has_varying L); tauto.
  Qed.

  Lemma read_elem_spec m a t fc fixed : fc = fixed_counts L fixed ->
    tuple_ok L fc 0 t -> elem_at L m a t -> read_elem L fixed m a = t.
  Proof.
    intros -> Ht He. unfold read_elem, load.
    rewrite (load_from_spec L (prevs L) _ m a t 0 0 false); auto.
    - cbn [fst]. eapply read_fields_spec; eauto.
    - apply wf_plist_varying; auto.
    - destruct L; auto.
  Qed.

  (* what a user can read: size() and every field of every element, through the load path *)
  Theorem rep_obs v l : Rep L v l ->
    vsize L v = Z.of_nat (length l) /\
    forall i, (i < length l)%nat ->
      read_elem L (v_fixed v) (v_mem v) (eaddr L v (Z.of_nat i)) = nth i l [].
  Proof.
    intros [offs R]. split; [eapply rep_vsize; eauto|]. intros i Hi.
    rewrite (rep_eaddr v l offs i R Hi).
    pose proof (eo_length _ _ _ _ _ (r_order _ _ _ _ R)) as Hlen.
    eapply read_elem_spec; [reflexivity| |].
    - pose proof (r_tuples _ _ _ _ R) as Ht. rewrite Forall_forall in Ht. apply Ht. apply nth_In. lia.
    - pose proof (r_elems _ _ _ _ R) as He.
      clear - He Hi Hlen. revert i l Hi Hlen He. induction offs as [|a offs IH]; intros i [|t l] Hi Hlen He; cbn in *; try lia.
      inversion He; subst. destruct i; [assumption|]. apply IH; auto; lia.
  Qed.

  (* ---------------- emplace_back ---------------- *)
  Lemma store_spec vals bid m a fc : tuple_ok L fc 0 vals ->
    let r := store L vals bid m a in
    snd r = elem_end L a vals /\ elem_at L (fst (fst r)) a vals /\
    (forall x, x < a \/ snd r <= x -> fst (fst r) x = m x) /\ a <= snd r.
  Proof.
    intros Ht. unfold store, elem_end, elem_at, place.
    apply (store_from_spec L (prevs L) vals bid m a fc 0); auto.
    unfold prevs, trails. cbn [length]. rewrite trails_from_length. lia.
  Qed.

  Lemma Forall2_elem_at_ext m m' offs l fc hi :
    Forall (tuple_ok L fc 0) l ->
    Forall2 (fun a t => 0 <= a /\ (SA L | a) /\ elem_end L a t <= hi) offs l ->
    (forall x, 0 <= x < hi -> m' x = m x) ->
    Forall2 (fun a t => elem_at L m a t) offs l -> Forall2 (fun a t => elem_at L m' a t) offs l.
  Proof.
    intros Ht Hb Hx H. revert Ht Hb. induction H as [|a t offs l Hat _ IH]; intros Ht Hb; constructor.
    - inversion Ht; subst. inversion Hb as [|? ? ? ? (B1 & B2 & B3) _]; subst.
      apply (elem_at_ext m m' a t fc H1); [|exact Hat]. intros x Hxx. apply Hx. lia.
    - inversion Ht; subst. inversion Hb; subst. apply IH; auto.
  Qed.

  Theorem emplace_rep v l t :
    Rep L v l -> Z.of_nat (length l) < v_cap v -> tuple_ok L (fixed_counts L (v_fixed v)) 0 t ->
    Rep L (fst (emplace_back L v t)) (l ++ [t]).
  Proof.
    intros [offs R] Hcap Ht.
    pose proof (r_loc _ _ _ _ R) as Hloc. pose proof (r_order _ _ _ _ R) as Hord.
    pose proof (eo_length _ _ _ _ _ Hord) as Hlen.
    pose proof (eo_end_le L Hwf _ _ _ _ Hord) as Hend.
    pose proof (eo_bounds L Hwf _ _ _ _ Hord) as Hb.
    unfold emplace_back. unfold dend in *. destruct (has_varying L) eqn:Hv.
    - (* address table *)
      destruct Hloc as (Hsz & Hsl & Hfs & Hla).
      set (a := first_align L (v_last v)) in *.
      pose proof (first_align_ge L (v_last v) Hwf) as Hage. fold a in Hage.
      pose proof (store_spec t (bidn (v_bid v)) (v_mem v) a _ Ht) as Hs. cbv zeta in Hs.
      destruct (store L t (bidn (v_bid v)) (v_mem v) a) as [[m' evs] e]. cbn [fst snd] in *.
      destruct Hs as (He & Hel & Hfr & Hae).
      exists (offs ++ [a]). constructor; cbn [v_fixed v_mem v_cap v_tbl v_last set_tbl set_mem set_slots t_size t_slots fst].
      + apply Forall_app. split; [exact (r_tuples _ _ _ _ R)|constructor; auto].
      + apply Forall2_app.
        * eapply Forall2_elem_at_ext; [exact (r_tuples _ _ _ _ R)|exact Hb| |exact (r_elems _ _ _ _ R)].
          intros x Hx. apply Hfr. left. lia.
        * constructor; [exact Hel|constructor].
      + unfold dend. rewrite Hv. cbn [v_last set_tbl set_mem]. rewrite He. eapply eo_snoc; eauto; try lia.
      + rewrite app_length. cbn [length]. lia.
      + rewrite Hv. rewrite app_length. cbn [length].
        assert (Hn : Z.to_nat (t_size (v_tbl v)) = length l) by lia. rewrite Hn.
        repeat split.
        * lia.
        * rewrite upd_length. exact Hsl.
        * replace (length l + 1)%nat with (S (length l)) by lia.
          rewrite upd_firstn_snoc by lia. rewrite Hfs, map_app. reflexivity.
        * rewrite He. apply first_align_end; auto; [eapply tuple_ok_cnt_ok; eauto|lia].
      + unfold dend. rewrite Hv. cbn [v_last set_tbl set_mem]. rewrite He.
        eapply et_snoc; [exact (r_tight _ _ _ _ R)|unfold dend; rewrite Hv; reflexivity|].
        apply first_align_idem; auto. eapply eo_end_first_align; [exact Hwf|exact Hord| |lia|].
        * eapply Forall_impl; [|exact (r_tuples _ _ _ _ R)]. intros u Hu. eapply tuple_ok_cnt_ok; eauto.
        * rewrite first_align_aligned; auto; apply Z.divide_0_r.
    - (* count and stride *)
      destruct Hloc as (Hcnt & Hoffs & Hst). destruct Hst as (Hs0 & HsS & Hsfit).
      set (a := v_stride v * v_count v) in *.
      assert (HaS : (SA L | a)) by (apply Z.divide_mul_l; auto).
      assert (Ha0 : 0 <= a) by (apply Z.mul_nonneg_nonneg; lia).
      pose proof (store_spec t (bidn (v_bid v)) (v_mem v) a _ Ht) as Hs. cbv zeta in Hs.
      destruct (store L t (bidn (v_bid v)) (v_mem v) a) as [[m' evs] e]. cbn [fst snd] in *.
      destruct Hs as (He & Hel & Hfr & Hae).
      exists (offs ++ [a]). constructor; cbn [v_fixed v_mem v_cap v_count v_stride set_count set_mem fst].
      + apply Forall_app. split; [exact (r_tuples _ _ _ _ R)|constructor; auto].
      + apply Forall2_app.
        * eapply Forall2_elem_at_ext; [exact (r_tuples _ _ _ _ R)|exact Hb| |exact (r_elems _ _ _ _ R)].
          intros x Hx. apply Hfr. left. unfold a. lia.
        * constructor; [exact Hel|constructor].
      + unfold dend. rewrite Hv. cbn [v_stride v_count set_count set_mem].
        eapply eo_weaken_hi; [eapply eo_snoc; eauto; unfold a; lia|].
        specialize (Hsfit t a Ht Ha0 HaS). unfold a in *. lia.
      + rewrite app_length. cbn [length]. lia.
      + rewrite Hv. rewrite app_length. cbn [length]. split; [|split; [|exact (conj Hs0 (conj HsS Hsfit))]].
        * lia.
        * rewrite Nat.add_1_r, seq_S, map_app. cbn [map Nat.add]. rewrite Hoffs at 1. unfold a. rewrite Hcnt. reflexivity.
      + unfold dend. rewrite Hv. cbn [v_stride v_count set_count set_mem].
        pose proof (r_tight _ _ _ _ R) as HT. unfold dend in HT. rewrite Hv in HT.
        assert (Hidem : first_align L (first_align L (eo_end L 0 offs l)) = first_align L (eo_end L 0 offs l)).
        { apply first_align_idem; auto. eapply eo_end_first_align; [exact Hwf|exact Hord| |lia|].
          - eapply Forall_impl; [|exact (r_tuples _ _ _ _ R)]. intros u Hu. eapply tuple_ok_cnt_ok; eauto.
          - rewrite first_align_aligned; auto; apply Z.divide_0_r. }
        assert (Hafa : a = first_align L a) by (symmetry; apply first_align_aligned; auto).
        pose proof (et_snoc L 0 offs l _ a t HT Hafa Hidem) as Hsn.
        destruct (Hsfit t a Ht Ha0 HaS) as [_ Hex].
        (* the new end of data is the aligned address behind the new element *)
        eapply et_set_hi; [exact Hsn|]. right.
        rewrite eo_end_snoc by auto. rewrite Hex. unfold a. ring.
  Qed.

  (* ---------------- resize: pop_back, clear, tail erase ---------------- *)
  Lemma destruct_elem_triv v i : destruct_elem L v i = (v, []).
  Proof. unfold destruct_elem. now rewrite Hdt. Qed.

  Lemma nth_map_seq (f : nat -> Z) n i : (i < n)%nat -> nth i (map f (seq 0 n)) 0 = f i.
  Proof.
    intros Hi. rewrite (nth_indep _ 0 (f 0%nat)) by (rewrite map_length, seq_length; lia).
    rewrite (map_nth f (seq 0 n) 0%nat i), seq_nth by lia. reflexivity.
  Qed.

  Lemma firstn_map_seq (f : nat -> Z) n k : (k <= n)%nat -> firstn k (map f (seq 0 n)) = map f (seq 0 k).
  Proof.
    intros Hk. rewrite firstn_map. f_equal. replace n with (k + (n - k))%nat by lia.
    rewrite seq_app, firstn_app, seq_length, Nat.sub_diag. cbn [firstn]. rewrite app_nil_r.
    apply firstn_all2. rewrite seq_length. lia.
  Qed.

  Theorem resize_rep v l n : Rep L v l -> (n <= length l)%nat ->
    Rep L (resize L v (Z.of_nat n)) (firstn n l).
  Proof.
    intros [offs R] Hn.
    pose proof (r_loc _ _ _ _ R) as Hloc. pose proof (r_order _ _ _ _ R) as Hord.
    pose proof (eo_length _ _ _ _ _ Hord) as Hlen.
    assert (Hfl : length (firstn n l) = n) by (rewrite firstn_length; lia).
    unfold resize. unfold dend in *. destruct (has_varying L) eqn:Hv.
    - destruct Hloc as (Hsz & Hsl & Hfs & Hla). rewrite Hsz.
      destruct (Z.ltb_spec (Z.of_nat n) (Z.of_nat (length l))) as [Hlt|Hge].
      + assert (Hnl : (n < length l)%nat) by lia.
        assert (Hslot : slotv v (Z.of_nat n) = nth n offs 0).
        { rewrite <- (rep_eaddr v l offs n R Hnl). unfold eaddr. now rewrite Hv. }
        destruct (eo_end_firstn_le L n 0 offs l _ Hord ltac:(lia)) as [Hle HdS].
        exists (firstn n offs). constructor; cbn [v_fixed v_mem v_cap v_tbl v_last set_tbl set_slots t_size t_slots].
        * apply Forall_forall. intros t Ht. pose proof (r_tuples _ _ _ _ R) as HT. rewrite Forall_forall in HT.
          apply HT. eapply In_firstn_; eauto.
        * apply Forall2_firstn_. exact (r_elems _ _ _ _ R).
        * unfold dend. rewrite Hv. cbn [v_last set_tbl]. rewrite Hslot.
          eapply eo_weaken_hi; [eapply eo_firstn; eauto|exact Hle].
        * rewrite Hfl. pose proof (r_cap _ _ _ _ R). lia.
        * rewrite Hv, Hfl. repeat split; auto.
          -- rewrite <- (firstn_firstn_le_ _ n (length l)) by lia. rewrite Hfs. apply firstn_map.
          -- rewrite Hslot. rewrite first_align_aligned; auto.
        * unfold dend. rewrite Hv. cbn [v_last set_tbl]. rewrite Hslot.
          eapply et_firstn; [exact (r_tight _ _ _ _ R)|lia].
      + assert (n = length l) by lia. subst n. rewrite firstn_all. exists offs. exact R.
    - destruct Hloc as (Hcnt & Hoffs & Hst).
      exists (firstn n offs). constructor; cbn [v_fixed v_mem v_cap v_count v_stride set_count].
      + apply Forall_forall. intros t Ht. pose proof (r_tuples _ _ _ _ R) as HT. rewrite Forall_forall in HT.
        apply HT. eapply In_firstn_; eauto.
      + apply Forall2_firstn_. exact (r_elems _ _ _ _ R).
      + unfold dend. rewrite Hv. cbn [v_count v_stride set_count].
        destruct (Nat.eq_dec n (length l)) as [->|Hneq].
        * rewrite firstn_all, <- Hlen, firstn_all, Hlen, <- Hcnt. exact Hord.
        * destruct (eo_end_firstn_le L n 0 offs l _ Hord ltac:(lia)) as [Hle HdS].
          rewrite Hoffs in Hle at 2. rewrite nth_map_seq in Hle by lia.
          eapply eo_weaken_hi; [eapply eo_firstn; eauto|exact Hle].
      + rewrite Hfl. pose proof (r_cap _ _ _ _ R). lia.
      + rewrite Hv, Hfl. split; [reflexivity|]. split; [|exact Hst]. rewrite Hoffs. apply firstn_map_seq. lia.
      + pose proof (r_tight _ _ _ _ R) as HT. unfold dend in *. rewrite Hv in *. cbn [v_count v_stride set_count].
        destruct (Nat.eq_dec n (length l)) as [->|Hneq].
        * rewrite firstn_all, <- Hlen, firstn_all, Hlen, <- Hcnt. exact HT.
        * replace (v_stride v * Z.of_nat n) with (nth n offs 0).
          -- eapply et_firstn; [exact HT|lia].
          -- rewrite Hoffs. rewrite nth_map_seq by lia. reflexivity.
  Qed.

  (* ---------------- reserve ---------------- *)
  Lemma insert_into_triv_gen mv destr v bid junk : all_ctriv mv L = true ->
    insert_into mv destr L v bid junk =
      (v, mcopy (v_mem v) 0 junk 0 (dend L v), [ERaw bid 0 (dend L v)]).
  Proof. intros Hc. unfold insert_into. rewrite Hc, Hdt, orb_true_r. reflexivity. Qed.
  (* the moving form (reserve, element-wise move assignment) *)
  Lemma insert_into_triv destr v bid junk :
    insert_into true destr L v bid junk =
      (v, mcopy (v_mem v) 0 junk 0 (dend L v), [ERaw bid 0 (dend L v)]).
  Proof. apply insert_into_triv_gen. exact Hct. Qed.

  Theorem reserve_rep v l n b junk bid tbid : Rep L v l ->
    Rep L (fst (reserve L v n b junk bid tbid)) l /\
    v_cap (fst (reserve L v n b junk bid tbid)) = Z.max (v_cap v) n /\
    v_fixed (fst (reserve L v n b junk bid tbid)) = v_fixed v.
  Proof.
    intros [offs R]. unfold reserve.
    destruct (Z.ltb_spec (v_cap v) n) as [Hlt|Hge]; [|cbn [fst]; split; [exists offs; exact R|split; [lia|reflexivity]]].
    rewrite insert_into_triv. cbn [fst v_cap v_fixed]. split; [|split; [lia|reflexivity]].
    pose proof (r_loc _ _ _ _ R) as Hloc. pose proof (r_order _ _ _ _ R) as Hord.
    pose proof (eo_length _ _ _ _ _ Hord) as Hlen.
    pose proof (eo_bounds L Hwf _ _ _ _ Hord) as Hb.
    pose proof (r_cap _ _ _ _ R) as Hcap.
    exists offs. constructor; cbn [v_fixed v_mem v_cap v_count v_stride v_tbl v_last].
    - exact (r_tuples _ _ _ _ R).
    - eapply Forall2_elem_at_ext; [exact (r_tuples _ _ _ _ R)|exact Hb| |exact (r_elems _ _ _ _ R)].
      intros x Hx. rewrite mcopy_in by lia. f_equal. lia.
    - unfold dend in *. destruct (has_varying L); exact Hord.
    - lia.
    - destruct (has_varying L) eqn:Hv.
      + destruct Hloc as (Hsz & Hsl & Hfs & Hla). cbn [tbl_relocate t_size t_slots].
        assert (Hn : Z.to_nat (t_size (v_tbl v)) = length l) by lia.
        repeat split; auto.
        * rewrite firstn_length, app_length, repeat_length. lia.
        * rewrite firstn_firstn, Nat.min_l by lia. rewrite Hn.
          rewrite firstn_app, firstn_length. rewrite firstn_firstn, Nat.min_id.
          replace (length l - Init.Nat.min (length l) (length (t_slots (v_tbl v))))%nat with 0%nat by lia.
          cbn [firstn]. rewrite app_nil_r. exact Hfs.
      + exact Hloc.
    - pose proof (r_tight _ _ _ _ R) as HT. unfold dend in *. destruct (has_varying L); exact HT.
  Qed.

  (* ---------------- erase: move the tail forward, then shrink ---------------- *)
  Lemma rep_mem_ext v l offs m' : RepO L v l offs ->
    (forall x, 0 <= x < dend L v -> m' x = v_mem v x) -> RepO L (set_mem v m') l offs.
  Proof.
    intros R Hx. pose proof (eo_bounds L Hwf _ _ _ _ (r_order _ _ _ _ R)) as Hb.
    constructor; cbn [set_mem v_fixed v_mem v_cap v_count v_stride v_tbl v_last].
    - exact (r_tuples _ _ _ _ R).
    - eapply Forall2_elem_at_ext; [exact (r_tuples _ _ _ _ R)|exact Hb|exact Hx|exact (r_elems _ _ _ _ R)].
    - exact (r_order _ _ _ _ R).
    - exact (r_cap _ _ _ _ R).
    - exact (r_loc _ _ _ _ R).
    - exact (r_tight _ _ _ _ R).
  Qed.

  Lemma Forall2_elem_at_shift m m' offs l fc lo hi d :
    Forall (tuple_ok L fc 0) l -> (SA L | d) ->
    Forall2 (fun a t => lo <= a /\ (SA L | a) /\ elem_end L a t <= hi) offs l ->
    (forall x, lo <= x < hi -> m' (x + d) = m x) ->
    Forall2 (fun a t => elem_at L m a t) offs l ->
    Forall2 (fun a t => elem_at L m' a t) (map (fun x => x + d) offs) l.
  Proof.
    intros Ht Hd Hb Hx H. revert Ht Hb. induction H as [|a t o' l' Hat _ IH]; intros Ht Hb; cbn [map]; constructor.
    - inversion Ht; subst. inversion Hb as [|? ? ? ? (B1 & B2 & B3) _]; subst.
      apply (elem_at_shift m m' a t fc d H1 Hd); [|exact Hat]. intros x Hxx. apply Hx. lia.
    - inversion Ht; subst. inversion Hb; subst. apply IH; auto.
  Qed.

  Lemma eo_change_lo lo lo' a offs t l hi :
    elems_ordered L lo (a :: offs) (t :: l) hi -> lo' <= a -> elems_ordered L lo' (a :: offs) (t :: l) hi.
  Proof. cbn. tauto. Qed.

  Lemma move_main v l offs (to from : nat) :
    RepO L v l offs -> (to < from)%nat -> (from < length l)%nat ->
    let a_to := nth to offs 0 in
    let b0 := nth from offs 0 in
    let diff := b0 - a_to in
    let m' := mmove (v_mem v) b0 a_to (dend L v - b0) in
    let offs' := firstn to offs ++ map (fun x => x + - diff) (skipn from offs) in
    let l' := firstn to l ++ skipn from l in
    (SA L | diff) /\
    Forall (tuple_ok L (fixed_counts L (v_fixed v)) 0) l' /\
    Forall2 (fun a t => elem_at L m' a t) offs' l' /\
    elems_ordered L 0 offs' l' (dend L v - diff) /\
    elems_tight L 0 offs' l' (dend L v - diff).
  Proof.
    intros R Htf Hfn. cbv zeta.
    pose proof (r_order _ _ _ _ R) as Hord. pose proof (eo_length _ _ _ _ _ Hord) as Hlen.
    pose proof (r_tuples _ _ _ _ R) as HT. pose proof (r_elems _ _ _ _ R) as HE.
    destruct (eo_end_firstn_le L to 0 offs l _ Hord ltac:(lia)) as [HleA HdA].
    destruct (eo_end_firstn_le L from 0 offs l _ Hord ltac:(lia)) as [HleB HdB].
    set (a_to := nth to offs 0) in *. set (b0 := nth from offs 0) in *. set (diff := b0 - a_to).
    assert (HdS : (SA L | diff)) by (apply Z.divide_sub_r; auto).
    assert (HdS' : (SA L | - diff)) by (apply Z.divide_opp_r; auto).
    pose proof (eo_firstn L to _ _ _ _ Hord) as HoA.
    pose proof (eo_skipn L from _ _ _ _ Hord) as HoB.
    pose proof (eo_bounds L Hwf _ _ _ _ HoA) as HbA.
    (* the tail is non-empty and starts at b0 *)
    assert (Hsk : exists r, skipn from offs = b0 :: r).
    { destruct (skipn from offs) as [|x r] eqn:Ex.
      - apply (f_equal (@length Z)) in Ex. rewrite skipn_length in Ex. cbn in Ex. lia.
      - exists r. f_equal. unfold b0. rewrite <- (firstn_skipn from offs) at 1.
        rewrite Ex, app_nth2 by (rewrite firstn_length; lia).
        rewrite firstn_length, Nat.min_l by lia. now rewrite Nat.sub_diag. }
    destruct Hsk as [rB HskB].
    assert (HskL : exists t0 rl, skipn from l = t0 :: rl).
    { destruct (skipn from l) as [|x r] eqn:Ex.
      - apply (f_equal (@length tuple)) in Ex. rewrite skipn_length in Ex. cbn in Ex. lia.
      - eauto. }
    destruct HskL as (t0 & rL & HskL).
    assert (HoB' : elems_ordered L b0 (skipn from offs) (skipn from l) (dend L v)).
    { rewrite HskB, HskL in *. eapply eo_change_lo; [exact HoB|lia]. }
    pose proof (eo_bounds L Hwf _ _ _ _ HoB') as HbB.
    split; [exact HdS|]. split; [|split; [|split]].
    - apply Forall_app. split; apply Forall_forall; intros t Ht; rewrite Forall_forall in HT; apply HT;
        [eapply In_firstn_; eauto|eapply In_skipn_; eauto].
    - apply Forall2_app.
      + (* elements in front of the gap: untouched *)
        assert (HEA := Forall2_firstn_ _ _ _ to HE).
        eapply Forall2_elem_at_ext; [| exact HbA | | exact HEA].
        * apply Forall_forall. intros t Ht. rewrite Forall_forall in HT. apply HT. eapply In_firstn_; eauto.
        * intros x Hx. apply mmove_out. lia.
      + (* elements behind the gap: translated by -diff *)
        assert (HEB := Forall2_skipn_ _ _ _ from HE).
        eapply Forall2_elem_at_shift; [| exact HdS' | exact HbB | | exact HEB].
        * apply Forall_forall. intros t Ht. rewrite Forall_forall in HT. apply HT. eapply In_skipn_; eauto.
        * intros x Hx. rewrite mmove_in by (unfold diff; lia). f_equal. unfold diff. lia.
    - apply eo_app; [rewrite !firstn_length; lia|]. split; [exact HoA|].
      pose proof (eo_shift L Hwf _ _ _ _ (- diff) HdS' HoB') as Hsh.
      rewrite HskB, HskL in *. cbn [map] in *.
      replace (dend L v - diff) with (dend L v + - diff) by lia.
      eapply eo_change_lo; [exact Hsh|]. unfold diff. lia.
    - (* tight packing: the tail is translated as a whole onto the slot of element [to] *)
      pose proof (r_tight _ _ _ _ R) as HTi.
      pose proof (et_firstn L to 0 offs l _ HTi ltac:(lia)) as HtA.
      pose proof (et_skipn L from 0 offs l _ HTi) as HtB.
      pose proof (et_shift L Hwf _ _ _ _ (- diff) HdS' HtB) as HtS.
      pose proof (et_nth L to 0 offs l _ HTi ltac:(lia)) as Hnth. fold a_to in Hnth.
      rewrite HskB, HskL in *. cbn [map] in *.
      replace (dend L v - diff) with (dend L v + - diff) by lia.
      eapply et_app; [exact HtA|].
      eapply et_change_lo; [exact HtS|]. rewrite <- Hnth. unfold diff. lia.
  Qed.

  Lemma mmove_zero m src dst x : mmove m src dst 0 x = m x.
  Proof. apply mmove_out. lia. Qed.

  Theorem move_resize_rep v l (to from : nat) :
    Rep L v l -> (to < from)%nat -> (from <= length l)%nat ->
    Rep L (resize L (fst (move_forward_triv L v (Z.of_nat from) (Z.of_nat to)))
                  (Z.of_nat (length l - (from - to))))
          (firstn to l ++ skipn from l).
  Proof.
    intros [offs R] Htf Hfl.
    pose proof (r_loc _ _ _ _ R) as Hloc. pose proof (r_order _ _ _ _ R) as Hord.
    pose proof (eo_length _ _ _ _ _ Hord) as Hlen. pose proof (r_cap _ _ _ _ R) as Hcap.
    destruct (Nat.eq_dec from (length l)) as [Heq|Hneq].
    - (* nothing behind the erased elements *)
      subst from. rewrite skipn_all, app_nil_r.
      replace (length l - (length l - to))%nat with to by lia.
      unfold move_forward_triv. destruct (has_varying L) eqn:Hv.
      + destruct Hloc as (Hsz & _). rewrite Hsz, Z.eqb_refl. cbn [andb fst].
        apply resize_rep; [exists offs; exact R|lia].
      + cbn [andb fst]. apply resize_rep; [|lia]. exists offs. apply rep_mem_ext; auto.
        intros x Hx. unfold eaddr, dend. rewrite Hv. destruct Hloc as (Hcnt & _). rewrite Hcnt.
        replace (v_stride v * Z.of_nat (length l) - v_stride v * Z.of_nat (length l)) with 0 by lia.
        apply mmove_zero.
    - assert (Hfn : (from < length l)%nat) by lia.
      pose proof (move_main v l offs to from R Htf Hfn) as HM. cbv zeta in HM.
      destruct HM as (HdS & HT' & HE' & HO' & HTi').
      rewrite <- (rep_eaddr v l offs to R ltac:(lia)) in *.
      rewrite <- (rep_eaddr v l offs from R Hfn) in *.
      set (tgt := eaddr L v (Z.of_nat to)) in *. set (src := eaddr L v (Z.of_nat from)) in *.
      set (diff := src - tgt) in *.
      set (m' := mmove (v_mem v) src tgt (dend L v - src)) in *.
      set (N := (length l - (from - to))%nat).
      assert (HlN : length (firstn to l ++ skipn from l) = N).
      { rewrite app_length, firstn_length, skipn_length. unfold N. lia. }
      unfold move_forward_triv. fold tgt src diff m'.
      exists (firstn to offs ++ map (fun x => x + - diff) (skipn from offs)).
      unfold resize. destruct (has_varying L) eqn:Hv.
      + destruct Hloc as (Hsz & Hsl & Hfs & Hla).
        replace (Z.of_nat from =? t_size (v_tbl v)) with false by (symmetry; apply Z.eqb_neq; lia).
        cbn [andb fst v_tbl set_tbl set_mem set_slots t_size t_slots].
        replace (Z.of_nat N <? t_size (v_tbl v)) with true by (symmetry; apply Z.ltb_lt; unfold N; lia).
        rewrite !Nat2Z.id.
        set (k := Z.to_nat (t_size (v_tbl v) - Z.of_nat from)).
        assert (Hk : k = (length l - from)%nat) by (unfold k; lia).
        assert (HN : (to + k = N)%nat) by (unfold N; lia).
        set (sl := shift_slots (t_slots (v_tbl v)) from to diff k).
        assert (Hsll : length sl = length (t_slots (v_tbl v))).
        { unfold sl, shift_slots. rewrite !app_length, map_length, !firstn_length, !skipn_length. lia. }
        assert (Hslot : slotv (set_tbl (set_mem v m')
                         (set_slots (v_tbl v) (upd (to + k) (Some (v_last v - diff)) sl) (t_size (v_tbl v)))
                         (v_last v)) (Z.of_nat N) = v_last v - diff).
        { unfold slotv, slot. cbn [v_tbl set_tbl set_slots t_slots]. rewrite Nat2Z.id, <- HN.
          rewrite nth_upd_same; [reflexivity|]. lia. }
        rewrite Hslot.
        constructor; cbn [v_fixed v_mem v_cap v_tbl v_last set_tbl set_mem set_slots t_size t_slots].
        * exact HT'.
        * exact HE'.
        * unfold dend in *. rewrite Hv in *. cbn [v_last set_tbl]. exact HO'.
        * rewrite HlN. unfold N. lia.
        * rewrite Hv, HlN. repeat split.
          -- rewrite upd_length, Hsll. exact Hsl.
          -- rewrite <- HN. rewrite firstn_upd_ge by lia. unfold sl, shift_slots.
             rewrite app_assoc, firstn_app.
             assert (Hl1 : length (firstn to (t_slots (v_tbl v)) ++
                              map (option_map (fun x => x - diff)) (firstn k (skipn from (t_slots (v_tbl v))))) = (to + k)%nat).
             { rewrite app_length, map_length, !firstn_length, skipn_length. lia. }
             rewrite Hl1, Nat.sub_diag. cbn [firstn]. rewrite app_nil_r.
             rewrite firstn_all2 by lia. rewrite map_app. f_equal.
             ++ rewrite <- firstn_map, <- Hfs. rewrite firstn_firstn, Nat.min_l by lia. reflexivity.
             ++ rewrite firstn_skipn_comm. replace (from + k)%nat with (length l) by lia.
                rewrite Hfs, skipn_map, !map_map. apply map_ext. intros x. cbn. f_equal; try lia.
          -- replace (v_last v - diff) with (v_last v + - diff) by lia.
             rewrite first_align_shift by (auto; apply Z.divide_opp_r; auto).
             apply Z.divide_add_r; auto; apply Z.divide_opp_r; auto.
        * unfold dend in *. rewrite Hv in *. cbn [v_last set_tbl]. exact HTi'.
      + destruct Hloc as (Hcnt & Hoffs & Hst). cbn [andb fst].
        constructor; cbn [v_fixed v_mem v_cap v_count v_stride set_count set_mem].
        * exact HT'.
        * exact HE'.
        * unfold dend in *. rewrite Hv in *. cbn [v_count v_stride set_count set_mem].
          replace (v_stride v * Z.of_nat N) with (v_stride v * v_count v - diff); [exact HO'|].
          unfold diff, src, tgt, eaddr, N. rewrite Hv, Hcnt. rewrite Nat2Z.inj_sub by lia. rewrite Nat2Z.inj_sub by lia. lia.
        * rewrite HlN. unfold N. lia.
        * rewrite Hv, HlN. split; [reflexivity|]. split; [|exact Hst].
          rewrite Hoffs. rewrite firstn_map_seq by lia. rewrite skipn_map, skipn_seq_, map_map.
          replace N with (to + (length l - from))%nat by (unfold N; lia).
          rewrite seq_app, map_app. f_equal. cbn [Nat.add].
          replace (seq from (length l - from)) with (seq (to + (from - to)) (length l - from)) by (f_equal; lia).
          rewrite <- (seq_shift_by (from - to) to (length l - from)). rewrite map_map. apply map_ext. intros i.
          unfold diff, src, tgt, eaddr. rewrite Hv. lia.
        * unfold dend in *. rewrite Hv in *. cbn [v_count v_stride set_count set_mem].
          replace (v_stride v * Z.of_nat N) with (v_stride v * v_count v - diff); [exact HTi'|].
          unfold diff, src, tgt, eaddr, N. rewrite Hv, Hcnt. rewrite Nat2Z.inj_sub by lia. rewrite Nat2Z.inj_sub by lia. lia.
  Qed.

  (* ---------------- the public operations ---------------- *)
  Lemma move_forward_triv_eq v from to : move_forward L v from to = move_forward_triv L v from to.
  Proof. unfold move_forward. now rewrite Htriv. Qed.

  Theorem pop_back_rep v l : Rep L v l -> l <> [] -> Rep L (fst (pop_back L v)) (removelast l).
  Proof.
    intros R Hl. unfold pop_back. rewrite destruct_elem_triv. cbn [fst].
    rewrite (proj1 (rep_obs v l R)). rewrite removelast_firstn_len.
    replace (Z.of_nat (length l) - 1) with (Z.of_nat (Init.Nat.pred (length l))) by (destruct l; [congruence|cbn [length]; lia]).
    apply resize_rep; auto. lia.
  Qed.

  Theorem clear_rep v l : Rep L v l -> Rep L (fst (clear L v)) [].
  Proof.
    intros R. unfold clear. rewrite Hdt. cbn [fst]. change 0 with (Z.of_nat 0).
    change (@nil tuple) with (firstn 0 l). apply resize_rep; auto. lia.
  Qed.

  Theorem erase_rep v l i : Rep L v l -> 0 <= i < Z.of_nat (length l) ->
    Rep L (fst (erase L v i)) (remove_range (Z.to_nat i) (S (Z.to_nat i)) l).
  Proof.
    intros R Hi. unfold erase. rewrite destruct_elem_triv, move_forward_triv_eq.
    rewrite (proj1 (rep_obs v l R)).
    destruct (move_forward_triv L v (i + 1) i) as [v2 e2] eqn:Em. cbn [fst].
    pose proof (move_resize_rep v l (Z.to_nat i) (S (Z.to_nat i)) R ltac:(lia) ltac:(lia)) as H.
    replace (Z.of_nat (S (Z.to_nat i))) with (i + 1) in H by lia.
    rewrite Z2Nat.id in H by lia. rewrite Em in H. cbn [fst] in H.
    replace (Z.of_nat (length l - (S (Z.to_nat i) - Z.to_nat i))) with (Z.of_nat (length l) - 1) in H by lia.
    exact H.
  Qed.

  Theorem erase_range_rep v l i j : Rep L v l -> 0 <= i <= j -> j <= Z.of_nat (length l) ->
    Rep L (fst (erase_range L v i j)) (remove_range (Z.to_nat i) (Z.to_nat j) l).
  Proof.
    intros R Hi Hj. unfold erase_range. rewrite Hdt, move_forward_triv_eq.
    rewrite (proj1 (rep_obs v l R)). unfold remove_range.
    destruct (Z.ltb_spec j (Z.of_nat (length l))) as [Hlt|Hge]; destruct (Z.eqb_spec i j) as [Heq|Hneq]; cbn [andb negb].
    - (* empty range *)
      subst j. cbn [fst]. rewrite Z.sub_diag, Z.sub_0_r, firstn_skipn.
      rewrite <- (firstn_all l) at 2. apply resize_rep; auto.
    - (* elements behind the range move forward *)
      destruct (move_forward_triv L v j i) as [v2 e2] eqn:Em. cbn [fst].
      pose proof (move_resize_rep v l (Z.to_nat i) (Z.to_nat j) R ltac:(lia) ltac:(lia)) as H.
      rewrite !Z2Nat.id in H by lia. rewrite Em in H. cbn [fst] in H.
      replace (Z.of_nat (length l - (Z.to_nat j - Z.to_nat i))) with (Z.of_nat (length l) - (j - i)) in H by lia.
      exact H.
    - subst j. cbn [fst]. rewrite Z.sub_diag, Z.sub_0_r, firstn_skipn.
      rewrite <- (firstn_all l) at 2. apply resize_rep; auto.
    - (* the tail is erased *)
      cbn [fst]. assert (j = Z.of_nat (length l)) by lia. subst j.
      rewrite Nat2Z.id, skipn_all, app_nil_r.
      replace (Z.of_nat (length l) - (Z.of_nat (length l) - i)) with (Z.of_nat (Z.to_nat i)) by lia.
      apply resize_rep; auto. lia.
  Qed.

  (* ---------------- construction ---------------- *)
  Theorem mkvec_rep cap budget fixed aid junk bid tbid : 0 <= cap ->
    (has_varying L = false -> stride_ok L (fixed_counts L fixed) (snd (esize L fixed))) ->
    let v := fst (mkvec L cap budget fixed aid junk bid tbid) in
    Rep L v [] /\ v_cap v = cap /\ v_fixed v = fixed.
  Proof.
    intros Hcap Hst. cbv zeta. unfold mkvec. cbn [fst v_cap v_fixed]. split; [|auto].
    exists []. constructor; cbn [v_fixed v_mem v_cap v_count v_stride v_tbl v_last length]; auto.
    - unfold dend. cbn [v_last v_stride v_count]. destruct (has_varying L); cbn; lia.
    - destruct (has_varying L) eqn:Hv; cbn [t_size t_slots firstn map seq].
      + repeat split; auto.
        * rewrite repeat_length. lia.
        * rewrite first_align_aligned; auto; apply Z.divide_0_r.
      + split; [reflexivity|]. split; [reflexivity|]. apply Hst; reflexivity.
    - left. unfold dend. cbn [v_last v_stride v_count]. destruct (has_varying L); lia.
  Qed.

  (* ---------------- histories ---------------- *)
  Definition cap_ok (v : vec) (s : svec) : Prop := v_cap v = s_cap s.

  Theorem vstep_rep junk v s o :
    Rep L v (s_elems s) -> cap_ok v s -> svalid L (fixed_counts L (v_fixed v)) s o ->
    Rep L (vstep L junk v o) (s_elems (sstep s o)) /\ cap_ok (vstep L junk v o) (sstep s o) /\
    v_fixed (vstep L junk v o) = v_fixed v.
  Proof.
    intros R Hc Hv. unfold cap_ok in *. destruct o as [t| |i|i j| |n b]; cbn [vstep sstep s_elems s_cap svalid] in *.
    - destruct Hv as [Hlt Ht]. split; [apply emplace_rep; auto; lia|].
      unfold emplace_back. destruct (has_varying L); destruct (store _ _ _ _ _) as [[m evs] e]; cbn; auto.
    - split; [apply pop_back_rep; auto|]. unfold pop_back. rewrite destruct_elem_triv. cbn [fst].
      unfold resize. destruct (has_varying L); [destruct (_ <? _)|]; cbn; auto.
    - split; [apply erase_rep; auto|]. unfold erase. rewrite destruct_elem_triv, move_forward_triv_eq.
      unfold move_forward_triv. destruct (has_varying L && _); cbn [fst];
        unfold resize; destruct (has_varying L); cbn [fst]; try destruct (_ <? _); cbn; auto.
    - destruct Hv as [Hi Hj]. split; [apply erase_range_rep; auto|]. unfold erase_range. rewrite Hdt, move_forward_triv_eq.
      destruct ((j <? vsize L v) && negb (i =? j)); cbn [fst].
      + unfold move_forward_triv. destruct (has_varying L && _); cbn [fst];
          unfold resize; destruct (has_varying L); cbn [fst]; try destruct (_ <? _); cbn; auto.
      + unfold resize; destruct (has_varying L); cbn [fst]; try destruct (_ <? _); cbn; auto.
    - split; [apply (clear_rep v (s_elems s)); auto|]. unfold clear. rewrite Hdt. cbn [fst].
      unfold resize. destruct (has_varying L); [destruct (_ <? _)|]; cbn; auto.
    - destruct (reserve_rep v (s_elems s) n b junk O O R) as (H1 & H2 & H3). split; [exact H1|]. split; [lia|exact H3].
  Qed.

  Fixpoint vrun (junk : mem) (v : vec) (h : list sop) : vec :=
    match h with [] => v | o :: h' => vrun junk (vstep L junk v o) h' end.
  Fixpoint srun (s : svec) (h : list sop) : svec :=
    match h with [] => s | o :: h' => srun (sstep s o) h' end.

  (* Every valid history: the byte-level vector represents exactly the list of tuples the
     spec machine holds — after every prefix, hence after every step. *)
  Theorem vrun_rep junk h : forall v s,
    Rep L v (s_elems s) -> cap_ok v s -> shist_valid L (fixed_counts L (v_fixed v)) s h ->
    Rep L (vrun junk v h) (s_elems (srun s h)) /\ cap_ok (vrun junk v h) (srun s h).
  Proof.
    induction h as [|o h IH]; intros v s R Hc Hv; cbn [vrun srun shist_valid] in *; [auto|].
    destruct Hv as [Hv1 Hv2].
    destruct (vstep_rep junk v s o R Hc Hv1) as (R' & Hc' & Hf).
    apply IH; auto. rewrite Hf. exact Hv2.
  Qed.

  Lemma shist_valid_app fc h1 : forall s h2, shist_valid L fc s (h1 ++ h2) -> shist_valid L fc s h1.
  Proof. induction h1 as [|o h1 IH]; intros s h2 H; cbn in *; [exact I|]. destruct H as [H1 H2]. split; eauto. Qed.
End Refine.

Theorem step_refines : forall L junk v s o,
  wf_plist L = true -> all_triv L = true ->
  Rep L v (s_elems s) -> v_cap v = s_cap s -> svalid L (fixed_counts L (v_fixed v)) s o ->
  Rep L (vstep L junk v o) (s_elems (sstep s o)) /\ v_cap (vstep L junk v o) = s_cap (sstep s o).
Proof.
  intros L junk v s o Hwf Ht R Hc Hv. destruct (vstep_rep L Hwf Ht junk v s o R Hc Hv) as (A & B & _). split; auto.
Qed.

Theorem refinement_from_construction : forall L cap budget fixed aid junk bid tbid h,
  wf_plist L = true -> all_triv L = true -> 0 <= cap -> Forall (fun c => 0 <= c) fixed ->
  let v0 := fst (mkvec L cap budget fixed aid junk bid tbid) in
  let s0 := {| s_cap := cap; s_elems := [] |} in
  shist_valid L (fixed_counts L fixed) s0 h ->
  let v := vrun L junk v0 h in
  let s := srun s0 h in
  vsize L v = Z.of_nat (length (s_elems s)) /\
  v_cap v = s_cap s /\
  forall i, (i < length (s_elems s))%nat ->
    read_elem L (v_fixed v) (v_mem v) (eaddr L v (Z.of_nat i)) = nth i (s_elems s) [].
Proof.
  intros L cap budget fixed aid junk bid tbid h Hwf Ht Hcap Hfx. cbv zeta. intros Hv.
  assert (Hst : has_varying L = false -> stride_ok L (fixed_counts L fixed) (snd (esize L fixed))).
  { intros Hnv. apply esize_stride_ok; auto. apply fixed_counts_nonneg; auto. }
  destruct (mkvec_rep L Hwf cap budget fixed aid junk bid tbid Hcap Hst) as (R0 & Hc0 & Hf0).
  cbv zeta in *.
  destruct (vrun_rep L Hwf Ht junk h _ {| s_cap := cap; s_elems := [] |} R0 Hc0) as (R & Hc).
  { rewrite Hf0. exact Hv. }
  destruct (rep_obs L Hwf Ht _ _ R) as (H1 & H2). auto.
Qed.

Theorem refinement_every_prefix : forall L cap budget fixed aid junk bid tbid h1 h2,
  wf_plist L = true -> all_triv L = true -> 0 <= cap -> Forall (fun c => 0 <= c) fixed ->
  let v0 := fst (mkvec L cap budget fixed aid junk bid tbid) in
  let s0 := {| s_cap := cap; s_elems := [] |} in
  shist_valid L (fixed_counts L fixed) s0 (h1 ++ h2) ->
  let v := vrun L junk v0 h1 in
  let s := srun s0 h1 in
  vsize L v = Z.of_nat (length (s_elems s)) /\
  v_cap v = s_cap s /\
  forall i, (i < length (s_elems s))%nat ->
    read_elem L (v_fixed v) (v_mem v) (eaddr L v (Z.of_nat i)) = nth i (s_elems s) [].
Proof.
  intros L cap budget fixed aid junk bid tbid h1 h2 Hwf Ht Hcap Hst. cbv zeta. intros Hv.
  apply refinement_from_construction; auto. eapply shist_valid_app; eauto.
Qed.

Theorem reserve_noop : forall L v n b junk bid tbid,
  n <= v_cap v -> reserve L v n b junk bid tbid = (v, []).
Proof.
  intros L v n b junk bid tbid H. unfold reserve.
  replace (v_cap v <? n) with false by (symmetry; apply Z.ltb_ge; lia). reflexivity.
Qed.
