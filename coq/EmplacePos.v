(* emplace(position, args...) (vector.hpp:174-188) on lists WITHOUT a VaryingSize parameter:
   the vector afterwards represents the list with the new tuple inserted at the position -
   and the call writes the bytes of one element BEHIND the new end of data (the scratch copy
   of the new element): the recorded finding emplace-position-scratch (C02). *)
From Coq Require Import ZArith Lia List Bool.
From Cntgs Require Import Base BaseLemmas Layout LayoutThm Mem MemLemmas Vector Spec Rep ElemLemmas Ordered
  EsizeThm Refine RefUpdate NtBase FixedErase.
Import ListNotations.
Local Open Scope Z_scope.

Definition linsert (i : nat) (t : tuple) (l : list tuple) : list tuple := firstn i l ++ t :: skipn i l.

Lemma linsert_length i t l : (i <= length l)%nat -> length (linsert i t l) = S (length l).
Proof.
  intros Hi. unfold linsert. rewrite app_length, firstn_length. cbn [length]. rewrite skipn_length. lia.
Qed.

Lemma linsert_nth i t l k : (i <= length l)%nat ->
  nth k (linsert i t l) [] = if (k <? i)%nat then nth k l [] else if (k =? i)%nat then t else nth (k - 1) l [].
Proof.
  intros Hi. unfold linsert.
  destruct (Nat.ltb_spec k i) as [Hlt|Hge].
  - rewrite app_nth1 by (rewrite firstn_length; lia). apply nth_firstn_. exact Hlt.
  - rewrite app_nth2 by (rewrite firstn_length; lia). rewrite firstn_length.
    replace (Init.Nat.min i (length l)) with i by lia.
    destruct (Nat.eqb_spec k i) as [->|Hne].
    + rewrite Nat.sub_diag. reflexivity.
    + replace (k - i)%nat with (S (k - i - 1)) by lia. cbn [nth]. rewrite nth_skipn_. f_equal. lia.
Qed.

Section EmplacePos.
  Variable L : list param.
  Hypothesis Hwf : wf_plist L = true.
  Hypothesis Hv : has_varying L = false.

  Variables (v : vec) (l : list tuple) (offs : list Z).
  Hypothesis R : RepO L v l offs.
  Let S := v_stride v.
  Let n := length l.
  Let fc := fixed_counts L (v_fixed v).

  Theorem emplace_pos_rep i t : (i <= n)%nat -> Z.of_nat n < v_cap v -> tuple_ok L fc 0 t ->
    let v' := fst (emplace_pos L v (Z.of_nat i) t) in
    Rep L v' (linsert i t l) /\ v_cap v' = v_cap v /\ v_fixed v' = v_fixed v.
  Proof.
    intros Hi Hcap Ht. cbv zeta.
    destruct (fixed_loc L Hv v l offs R) as (Hcnt & _ & Hst).
    assert (E1 : exists m1 e1, emplace_back L v t = (set_count (set_mem v m1) (v_count v + 1), e1)).
    { unfold emplace_back. rewrite Hv. destruct (store L t _ _ _) as [[m evs] e]. eauto. }
    destruct E1 as (m1 & e1 & E1).
    pose proof (emplace_rep L Hwf v l t (ex_intro _ offs R) Hcap Ht) as R1. rewrite E1 in R1. cbn [fst] in R1.
    unfold emplace_pos. rewrite E1. cbn [fst].
    set (v1 := set_count (set_mem v m1) (v_count v + 1)) in *.
    destruct R1 as [offs1 R1].
    destruct (fixed_loc L Hv v1 _ offs1 R1) as (_ & Ho1 & _).
    change (v_stride v1) with S in Ho1. rewrite app_length in Ho1. cbn [length] in Ho1. fold n in Ho1.
    unfold dend, eaddr. rewrite Hv. change (v_stride v1) with S. change (v_count v1) with (v_count v + 1).
    change (v_mem v1) with m1. fold S. rewrite Hcnt. fold n.
    set (bc := S * (Z.of_nat n + 1) - S * Z.of_nat n).
    assert (Ebc : bc = S) by (unfold bc; ring).
    set (src := S * Z.of_nat i).
    set (be := S * (Z.of_nat n + 1)).
    set (mm1 := mmove m1 src (src + bc) (be - src)).
    set (m2 := mmove mm1 be src bc).
    change (set_mem v1 m2) with (set_mem v1 m2).
    split; [|split; reflexivity].
    exists offs1.
    destruct Hst as (HS0 & HSd & Hfit).
    assert (Hslot : forall k, 0 <= S * Z.of_nat k /\ (SA L | S * Z.of_nat k)).
    { intros k. split; [nia|apply Z.divide_mul_l; exact HSd]. }
    assert (Htl : forall k, (k < n)%nat -> tuple_ok L fc 0 (nth k l [])).
    { intros k Hk. pose proof (r_tuples _ _ _ _ R) as H. rewrite Forall_forall in H. apply H. apply nth_In. exact Hk. }
    assert (Hfits : forall k u, tuple_ok L fc 0 u -> elem_end L (S * Z.of_nat k) u <= S * Z.of_nat k + S).
    { intros k u Hu. destruct (Hslot k) as [A B]. exact (proj1 (Hfit u _ Hu A B)). }
    assert (Hold : forall k, (k <= n)%nat -> elem_at L m1 (S * Z.of_nat k) (nth k (l ++ [t]) [])).
    { intros k Hk. apply (orig_elem L Hv v1 _ offs1 R1 k). rewrite app_length. cbn [length]. fold n. lia. }
    assert (Hlen' : length (linsert i t l) = Datatypes.S n) by (apply linsert_length; exact Hi).
    apply (rep_same_shape L v1 (l ++ [t]) offs1 (linsert i t l) m2 R1).
    - (* all tuples of a list without VaryingSize parameter have the same shape *)
      apply (Forall2_of_nth _ ([] : tuple) ([] : tuple)); [rewrite app_length, Hlen'; cbn [length]; fold n; lia|].
      intros k Hk. rewrite app_length in Hk. cbn [length] in Hk. fold n in Hk. cbn beta.
      assert (T1 : tuple_ok L fc 0 (nth k (l ++ [t]) [])).
      { destruct (Nat.lt_ge_cases k n) as [A|A]; [rewrite app_nth1 by exact A; apply Htl; exact A|].
        rewrite app_nth2 by exact A. fold n. replace (k - n)%nat with 0%nat by lia. exact Ht. }
      assert (T2 : tuple_ok L fc 0 (nth k (linsert i t l) [])).
      { rewrite (linsert_nth i t l k Hi). destruct (k <? i)%nat eqn:E1'; [apply Htl; apply Nat.ltb_lt in E1'; lia|].
        destruct (k =? i)%nat eqn:E2; [exact Ht|]. apply Nat.ltb_ge in E1'. apply Nat.eqb_neq in E2. apply Htl. lia. }
      exact (cnts_no_varying L fc 0 0 _ _ Hv T2 T1).
    - apply Forall_forall. intros u Hu. destruct (In_nth _ _ ([] : tuple) Hu) as (k & Hk & <-).
      rewrite Hlen' in Hk. rewrite (linsert_nth i t l k Hi).
      destruct (k <? i)%nat eqn:E1'; [apply Htl; apply Nat.ltb_lt in E1'; lia|].
      destruct (k =? i)%nat eqn:E2; [exact Ht|]. apply Nat.ltb_ge in E1'. apply Nat.eqb_neq in E2. apply Htl. lia.
    - apply (Forall2_of_nth _ 0 ([] : tuple)); [rewrite Ho1, map_length, seq_length, Hlen'; lia|].
      intros k Hk. rewrite Ho1, map_length, seq_length in Hk. cbn beta.
      rewrite Ho1. rewrite (nth_indep _ 0 (S * Z.of_nat 0)) by (rewrite map_length, seq_length; lia).
      rewrite (map_nth (fun q => S * Z.of_nat q)), seq_nth by lia. cbn [Nat.add].
      rewrite (linsert_nth i t l k Hi).
      destruct (Nat.ltb_spec k i) as [Hlt|Hge].
      + (* in front of the position: untouched *)
        pose proof (Hold k ltac:(lia)) as Ho. rewrite app_nth1 in Ho by (fold n; lia).
        apply (elem_at_ext L Hwf m1 m2 _ _ fc (Htl k ltac:(lia))); [|exact Ho].
        intros x Hx. pose proof (Hfits k _ (Htl k ltac:(lia))) as Hf.
        unfold m2. rewrite mmove_out by (unfold src; nia).
        unfold mm1. apply mmove_out. unfold src. rewrite Ebc. nia.
      + destruct (Nat.eqb_spec k i) as [->|Hne].
        * (* the position: the new element, through the scratch copy behind the end *)
          pose proof (Hold n (le_n _)) as Ho. rewrite app_nth2 in Ho by (fold n; lia).
          fold n in Ho. rewrite Nat.sub_diag in Ho. cbn [nth] in Ho.
          replace (S * Z.of_nat i) with (S * Z.of_nat n + (S * Z.of_nat i - S * Z.of_nat n)) by ring.
          apply (elem_at_shift L Hwf m1 m2 _ _ fc _ Ht); [|intros x Hx|exact Ho].
          { apply Z.divide_sub_r; apply Z.divide_mul_l; exact HSd. }
          pose proof (Hfits n _ Ht) as Hf.
          unfold m2. rewrite mmove_in by (unfold src; rewrite Ebc; nia).
          unfold mm1. rewrite mmove_in by (unfold src, be; rewrite Ebc; nia).
          f_equal. unfold src, be. rewrite Ebc. ring.
        * (* behind the position: moved up by one stride *)
          assert (Hk1 : (k - 1 < n)%nat) by lia.
          pose proof (Hold (k - 1)%nat ltac:(lia)) as Ho. rewrite app_nth1 in Ho by (fold n; lia).
          replace (S * Z.of_nat k) with (S * Z.of_nat (k - 1) + S) by nia.
          apply (elem_at_shift L Hwf m1 m2 _ _ fc _ (Htl _ Hk1)); [exact HSd|intros x Hx|exact Ho].
          pose proof (Hfits (k - 1)%nat _ (Htl _ Hk1)) as Hf.
          unfold m2. rewrite mmove_out by (unfold src; rewrite Ebc; nia).
          unfold mm1. rewrite mmove_in by (unfold src, be; rewrite Ebc; nia).
          f_equal. rewrite Ebc. ring.
  Qed.

  (* what the call writes: the bytes [S*(i+1), S*(n+2)) - one element beyond the n+1 elements
     the vector holds afterwards *)
  Theorem emplace_pos_writes i t : (i <= n)%nat ->
    In (ERaw (bidn (v_bid v)) (S * (Z.of_nat i + 1)) (S * (Z.of_nat n + 2)))
       (snd (emplace_pos L v (Z.of_nat i) t)).
  Proof.
    intros Hi. destruct (fixed_loc L Hv v l offs R) as (Hcnt & _ & _).
    assert (E1 : exists m1 e1, emplace_back L v t = (set_count (set_mem v m1) (v_count v + 1), e1)).
    { unfold emplace_back. rewrite Hv. destruct (store L t _ _ _) as [[m evs] e]. eauto. }
    destruct E1 as (m1 & e1 & E1).
    unfold emplace_pos. rewrite E1. cbn [snd].
    unfold dend, eaddr. rewrite Hv. cbn [v_stride v_count set_count set_mem]. fold S. rewrite Hcnt. fold n.
    apply in_or_app. right. left. f_equal; ring.
  Qed.
End EmplacePos.

(* C16 / C07: emplace(position) within capacity never touches the allocator and keeps block
   and capacity (every list: the events are those of emplace_back plus raw byte moves) *)
From Cntgs Require Import StableThm.
Theorem emplace_pos_no_alloc L v i t :
  no_alloc (snd (emplace_pos L v i t)) /\ v_bid (fst (emplace_pos L v i t)) = v_bid v /\
  v_cap (fst (emplace_pos L v i t)) = v_cap v.
Proof.
  unfold emplace_pos. destruct (emplace_back_no_alloc L v t) as (H1 & H2 & H3).
  destruct (emplace_back L v t) as [v1 e1]. cbn [fst snd] in *.
  split; [apply no_alloc_app; [exact H1|reflexivity]|]. split; [exact H2|exact H3].
Qed.

(* emplace(position) followed by erase(position) gives back the list (trivially relocatable
   lists without VaryingSize parameter: the two operations the model covers there) *)
Lemma remove_range_linsert i t (l : list tuple) : (i <= length l)%nat ->
  remove_range i (S i) (linsert i t l) = l.
Proof.
  intros Hi. unfold remove_range, linsert.
  rewrite firstn_app, firstn_firstn, Nat.min_id, firstn_length.
  replace (Init.Nat.min i (length l)) with i by lia. rewrite Nat.sub_diag. cbn [firstn]. rewrite app_nil_r.
  replace (S i) with (length (firstn i l) + 1)%nat by (rewrite firstn_length; lia).
  rewrite skipn_app, firstn_length. replace (Init.Nat.min i (length l)) with i by lia.
  rewrite skipn_all2 by (rewrite firstn_length; lia).
  replace (i + 1 - i)%nat with 1%nat by lia. cbn [skipn app]. apply firstn_skipn.
Qed.

Theorem emplace_then_erase L : wf_plist L = true -> has_varying L = false -> all_triv L = true ->
  forall v l offs, RepO L v l offs ->
  forall i t, (i <= length l)%nat -> Z.of_nat (length l) < v_cap v ->
  tuple_ok L (fixed_counts L (v_fixed v)) 0 t ->
  Rep L (fst (erase L (fst (emplace_pos L v (Z.of_nat i) t)) (Z.of_nat i))) l.
Proof.
  intros Hwf Hv Ht v l offs R i t Hi Hcap Htup.
  destruct (emplace_pos_rep L Hwf Hv v l offs R i t Hi Hcap Htup) as (R' & _ & _).
  pose proof (erase_rep L Hwf Ht _ _ (Z.of_nat i) R' ltac:(rewrite linsert_length by exact Hi; lia)) as H.
  rewrite Nat2Z.id, remove_range_linsert in H by exact Hi. exact H.
Qed.
