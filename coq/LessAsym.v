(* LessAsym.v — vector < is asymmetric, and a strict prefix is less, in every pair of
   represented states of EVERY parameter list (C14, vector level).
   The element-level < is a product order over the runs (known finding: not a strict weak
   order), so transitivity of the vector order fails (C14_vector_less_transitive_refuted);
   what the lexicographical loop does keep, with an element order that is merely irreflexive
   and asymmetric, is proved here on both paths (whole-buffer and element-wise):
     a < b  ->  not (b < a);     l1 a strict prefix of l2  ->  v1 < v2  and not (v2 < v1);
     lists of different lengths that agree (field-wise ==) on the shorter one are ordered by length. *)
From Coq Require Import ZArith List Bool Lia.
From Cntgs Require Import Base BaseLemmas Layout LayoutThm Mem MemLemmas Vector Proxy Spec Rep ElemLemmas
     Ordered Refine CompareThm RunsThm ElemThm CmpContent TightThm FastEq FastLess LessVec.
Import ListNotations.
Local Open Scope Z_scope.

(* ---------- the lexicographical loop over an order that is only asymmetric ---------- *)
Section LexWeak.
  Variable A : Type.
  Variable lt : A -> A -> bool.
  Hypothesis Ha : forall a b, lt a b = true -> lt b a = false.

  Lemma lexb_asym_weak : forall a b, lexb A lt a b = true -> lexb A lt b a = false.
  Proof.
    induction a as [|x a IH]; intros [|y b]; cbn [lexb]; try congruence.
    destruct (lt x y) eqn:Exy.
    - intros _. rewrite (Ha _ _ Exy). reflexivity.
    - destruct (lt y x) eqn:Eyx; [congruence|]. apply IH.
  Qed.

  (* a strict prefix is less, whatever the element order *)
  Lemma lexb_prefix : (forall a, lt a a = false) ->
    forall a c, c <> [] -> lexb A lt a (a ++ c) = true /\ lexb A lt (a ++ c) a = false.
  Proof.
    intros Hi. induction a as [|x a IH]; intros c Hc.
    - destruct c; [congruence|]. cbn [app lexb]. split; reflexivity.
    - cbn [app lexb]. rewrite Hi. apply IH. exact Hc.
  Qed.
End LexWeak.

Lemma lexl_lexb {A} (lt : A -> A -> bool) : forall a b, lexl lt a b = lexb A lt a b.
Proof. induction a as [|x a IH]; intros [|y b]; cbn [lexl lexb]; rewrite ?IH; reflexivity. Qed.

(* ---------- the element-level < on tuples is asymmetric and irreflexive ---------- *)
Lemma tuple_less_one_asym0 L t1 t2 : L <> [] ->
  tuple_less_one L t1 t2 O = true -> tuple_less_one L t2 t1 O = false.
Proof.
  intros HL. unfold tuple_less_one.
  pose proof (runs_first_not_skip lxm true false L HL) as Hns. fold (runs_lex L) in Hns. unfold not_skip in Hns.
  destruct (nth 0 (runs_lex L) RSkip) as [| |e]; [congruence| |].
  - apply span_lt_asym.
  - apply lex_lt_asym.
Qed.

Lemma tuple_less_asym L : L <> [] -> forall t1 t2, tuple_less L t1 t2 = true -> tuple_less L t2 t1 = false.
Proof.
  intros HL t1 t2 H. unfold tuple_less in *. rewrite forallb_forall in H.
  destruct (forallb (tuple_less_one L t2 t1) _) eqn:E; [|reflexivity].
  rewrite forallb_forall in E.
  pose proof (tuple_less_one_asym0 L t1 t2 HL (H _ (in_seq0_len L HL))) as Hx.
  rewrite (E _ (in_seq0_len L HL)) in Hx. discriminate.
Qed.

Lemma tuple_less_irrefl L : L <> [] -> forall t, tuple_less L t t = false.
Proof.
  intros HL t. destruct (tuple_less L t t) eqn:E; [|reflexivity].
  pose proof (tuple_less_asym L HL t t E). congruence.
Qed.

(* ---------- vector level, both paths ---------- *)
Section VecLessLaws.
  Variable L : list param.
  Hypothesis Hwf : wf_plist L = true.
  Hypothesis HL : L <> [].
  Variables (v1 v2 : vec) (l1 l2 : list tuple).
  Hypothesis R1 : Rep L v1 l1.
  Hypothesis R2 : Rep L v2 l2.

  Let cond a b := forallb lxm L && negb (has_varying L) && padfree L && list_eqb (v_fixed a) (v_fixed b).

  Lemma cond_sym : cond v1 v2 = cond v2 v1.
  Proof. unfold cond. rewrite (list_eqb_sym (v_fixed v1)). reflexivity. Qed.

  (* on either path the result is a lexicographical loop over the two lists of tuples under an
     asymmetric, irreflexive element order (bytes on the fast path, the element < otherwise) *)
  Lemma vec_less_some_lex :
    exists lt : tuple -> tuple -> bool,
      (forall a b, lt a b = true -> lt b a = false) /\ (forall a, lt a a = false) /\
      vec_less L v1 v2 = lexb _ lt l1 l2 /\ vec_less L v2 v1 = lexb _ lt l2 l1.
  Proof.
    destruct (cond v1 v2) eqn:Hc.
    - pose proof Hc as Hc'. rewrite cond_sym in Hc'. unfold cond in Hc, Hc'.
      assert (Hpf : padfree L = true).
      { apply andb_true_iff in Hc. destruct Hc as [Hc _]. apply andb_true_iff in Hc. destruct Hc as [_ Hc]. exact Hc. }
      assert (Hnv : has_varying L = false).
      { apply andb_true_iff in Hc. destruct Hc as [Hc _]. apply andb_true_iff in Hc. destruct Hc as [Hc _].
        apply andb_true_iff in Hc. destruct Hc as [_ Hc]. apply negb_true_iff in Hc. exact Hc. }
      exists (fun a b => lex_lt (ebytes a) (ebytes b)). split; [|split; [|split]].
      + intros a b. apply lex_lt_asym.
      + intros a. apply lex_lt_irrefl.
      + rewrite (vec_less_content_fast L Hwf Hpf Hnv v1 l1 v2 l2 R1 R2 Hc), lexl_lexb.
        clear. revert l2. induction l1 as [|x a IH]; intros [|y b]; cbn [map lexb]; rewrite ?IH; reflexivity.
      + rewrite (vec_less_content_fast L Hwf Hpf Hnv v2 l2 v1 l1 R2 R1 Hc'), lexl_lexb.
        clear. revert l1. induction l2 as [|x a IH]; intros [|y b]; cbn [map lexb]; rewrite ?IH; reflexivity.
    - pose proof Hc as Hc'. rewrite cond_sym in Hc'. unfold cond in Hc, Hc'.
      destruct R1 as [o1 R1']. destruct R2 as [o2 R2'].
      exists (tuple_less L). split; [|split; [|split]].
      + apply tuple_less_asym. exact HL.
      + apply tuple_less_irrefl. exact HL.
      + exact (vec_less_content_elementwise L Hwf v1 v2 l1 l2 o1 o2 R1' R2' Hc).
      + exact (vec_less_content_elementwise L Hwf v2 v1 l2 l1 o2 o1 R2' R1' Hc').
  Qed.

  Theorem vec_less_asym : vec_less L v1 v2 = true -> vec_less L v2 v1 = false.
  Proof.
    destruct vec_less_some_lex as (lt & Ha & _ & E1 & E2). rewrite E1, E2.
    apply lexb_asym_weak. exact Ha.
  Qed.

  Theorem vec_less_strict_prefix : forall c, c <> [] -> l2 = l1 ++ c ->
    vec_less L v1 v2 = true /\ vec_less L v2 v1 = false.
  Proof.
    intros c Hc E. destruct vec_less_some_lex as (lt & _ & Hi & E1 & E2). rewrite E1, E2, E.
    apply lexb_prefix; assumption.
  Qed.

  (* the empty vector is below every non-empty one and above none *)
  Corollary vec_less_empty : l1 = [] -> vec_less L v1 v2 = negb (Z.of_nat (length l2) =? 0) /\ vec_less L v2 v1 = false.
  Proof.
    intros E. destruct vec_less_some_lex as (lt & _ & _ & E1 & E2). rewrite E1, E2, E.
    destruct l2; cbn [lexb length]; split; reflexivity.
  Qed.
End VecLessLaws.

(* ---------- == and < are consistent at vector level: equal vectors are not ordered ---------- *)
Lemma eqm_all_noflt L : forallb eqm L = true -> noflt L.
Proof.
  intros H j Hj. rewrite forallb_forall in H. apply eqm_not_flt. apply H. apply nth_In. exact Hj.
Qed.

Lemma lxm_eqm p : lxm p = true -> eqm p = true.
Proof. unfold lxm, eqm. destruct (pty p); congruence. Qed.

Lemma tuple_eqv_sym L t1 t2 : tuple_eqv L t1 t2 -> tuple_eqv L t2 t1.
Proof. intros H j Hj. rewrite span_eq_sym. apply H. exact Hj. Qed.

Lemma lexb_eqv_lists L : L <> [] -> forall l1 l2 : list tuple, length l1 = length l2 ->
  (forall i, (i < length l1)%nat -> tuple_eqv L (nth i l1 []) (nth i l2 [])) ->
  lexb _ (tuple_less L) l1 l2 = false.
Proof.
  intros HL. induction l1 as [|x a IH]; intros [|y b] Hlen H; cbn [length] in Hlen; try lia; cbn [lexb]; [reflexivity|].
  pose proof (H O ltac:(cbn [length]; lia)) as H0. cbn [nth] in H0.
  rewrite (eqv_tuples_not_less L HL x y H0), (eqv_tuples_not_less L HL y x (tuple_eqv_sym L x y H0)).
  apply IH; [lia|]. intros i Hi. exact (H (S i) ltac:(cbn [length]; lia)).
Qed.

Section VecEqualNotLess.
  Variable L : list param.
  Hypothesis Hwf : wf_plist L = true.
  Hypothesis HL : L <> [].
  Variables (v1 v2 : vec) (l1 l2 : list tuple).
  Hypothesis R1 : Rep L v1 l1.
  Hypothesis R2 : Rep L v2 l2.

  Lemma vec_equal_not_less_one : vec_equal L v1 v2 = true -> vec_less L v1 v2 = false.
  Proof.
    intros He.
    destruct (forallb eqm L && padfree L && list_eqb (v_fixed v1) (v_fixed v2)) eqn:Hc.
    - (* whole-buffer ==: the two lists are identical *)
      assert (Hnf : noflt L).
      { apply eqm_all_noflt. apply andb_true_iff in Hc. destruct Hc as [Hc _]. apply andb_true_iff in Hc. tauto. }
      apply (vec_equal_content L v1 l1 v2 l2 Hwf Hnf R1 R2) in He. subst l2.
      destruct (vec_less_some_lex L Hwf HL v1 v2 l1 l1 R1 R2) as (lt & _ & Hi & E1 & _).
      rewrite E1. apply lexb_irrefl. exact Hi.
    - (* element-wise ==: same length, field-wise equal elements; then < cannot take the whole-buffer path *)
      destruct (forallb lxm L && negb (has_varying L) && padfree L && list_eqb (v_fixed v1) (v_fixed v2)) eqn:Hl.
      + exfalso. apply andb_true_iff in Hl. destruct Hl as [Hl Hfx]. apply andb_true_iff in Hl. destruct Hl as [Hl Hpf].
        apply andb_true_iff in Hl. destruct Hl as [Hl _].
        assert (Hq : forallb eqm L = true).
        { rewrite forallb_forall in *. intros p Hp. apply lxm_eqm. apply Hl. exact Hp. }
        rewrite Hq, Hpf, Hfx in Hc. discriminate.
      + destruct R1 as [o1 R1']. destruct R2 as [o2 R2'].
        rewrite (vec_less_content_elementwise L Hwf v1 v2 l1 l2 o1 o2 R1' R2' Hl).
        apply (vec_equal_eqv_elementwise L Hwf v1 v2 l1 l2 o1 o2 R1' R2' Hc) in He. destruct He as [Hlen Hq].
        apply lexb_eqv_lists; assumption.
  Qed.
End VecEqualNotLess.

Theorem vec_equal_not_less L : wf_plist L = true -> L <> [] -> forall v1 l1 v2 l2, Rep L v1 l1 -> Rep L v2 l2 ->
  vec_equal L v1 v2 = true -> vec_less L v1 v2 = false /\ vec_less L v2 v1 = false.
Proof.
  intros Hwf HL v1 l1 v2 l2 R1 R2 He. split.
  - exact (vec_equal_not_less_one L Hwf HL v1 v2 l1 l2 R1 R2 He).
  - apply (vec_equal_not_less_one L Hwf HL v2 v1 l2 l1 R2 R1). rewrite vec_equal_sym. exact He.
Qed.

Theorem vec_less_not_equal : forall L, wf_plist L = true -> L <> [] ->
  forall v1 l1 v2 l2, Rep L v1 l1 -> Rep L v2 l2 ->
  vec_less L v1 v2 = true -> vec_equal L v1 v2 = false /\ vec_equal L v2 v1 = false.
Proof.
  intros L Hwf HL v1 l1 v2 l2 R1 R2 Hlt.
  assert (H : vec_equal L v1 v2 = false).
  { destruct (vec_equal L v1 v2) eqn:E; [|reflexivity].
    destruct (vec_equal_not_less L Hwf HL v1 l1 v2 l2 R1 R2 E) as [H _]. congruence. }
  split; [exact H|]. rewrite vec_equal_sym. exact H.
Qed.

(* the hypotheses are satisfiable: three represented states over (uint32, VaryingSize<uint32>)
   with different capacities, junk and histories - a strict prefix, and an ordered pair *)
Definition laV0 := vrun fxL (fun _ => 51) (fst (mkvec fxL 3 40 [] 0 (fun _ => 51) 5 6)) [SEmplace fxA].
Example less_laws_apply :
  wf_plist fxL = true /\ fxL <> [] /\
  Rep fxL laV0 [fxA] /\ Rep fxL fxV1 ([fxA] ++ [fxB]) /\ Rep fxL fxV3 [fxA; fxC] /\
  vec_less fxL laV0 fxV1 = true /\ vec_less fxL fxV1 laV0 = false /\
  vec_less fxL fxV3 fxV1 = true /\ vec_less fxL fxV1 fxV3 = false /\
  vec_equal fxL fxV1 fxV2 = true /\ vec_less fxL fxV1 fxV2 = false.
Proof.
  assert (Hwf : wf_plist fxL = true) by reflexivity.
  assert (Htr : all_triv fxL = true) by reflexivity.
  split; [reflexivity|]. split; [discriminate|].
  split; [|split; [|split; [|vm_compute; repeat split; reflexivity]]].
  - apply (rep_every_history fxL 3 40 [] 0 (fun _ => 51) 5%nat 6%nat [SEmplace fxA] Hwf Htr); [lia|constructor|].
    cbn. repeat split; try lia; repeat constructor.
  - apply (rep_every_history fxL 2 12 [] 0 (fun _ => 170) 1%nat 2%nat [SEmplace fxA; SEmplace fxB] Hwf Htr); [lia|constructor|].
    cbn. repeat split; try lia; repeat constructor.
  - apply (rep_every_history fxL 4 64 [] 0 (fun _ => 85) 3%nat 4%nat [SEmplace fxA; SEmplace fxC] Hwf Htr); [lia|constructor|].
    cbn. repeat split; try lia; repeat constructor.
Qed.
