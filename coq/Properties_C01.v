(* C01 — a vector behaves like a plain sequence of tuples under any operation history.
   Statements only; the proofs are in Refine.v. *)
From Coq Require Import ZArith Lia List Bool.
From Cntgs Require Import Base Layout Mem Vector Spec Rep Refine NtRefine.
Import ListNotations.
Local Open Scope Z_scope.

(* For EVERY well-formed parameter list whose value types are trivially relocatable,
   every capacity, fixed sizes, junk contents of fresh memory and EVERY history of
   emplace_back / pop_back / erase / erase(first,last) / clear / reserve that respects the
   documented preconditions: size(), capacity() and every field of every element, read
   back through the load path from the bytes of the block, are those of a plain list of
   tuples subjected to the same operations. *)
Theorem C01_refinement : forall L cap budget fixed aid junk bid tbid h,
  wf_plist L = true -> all_triv L = true -> 0 <= cap -> Forall (fun c => 0 <= c) fixed ->
  let v0 := fst (mkvec L cap budget fixed aid junk bid tbid) in
  let s0 := {| s_cap := cap; s_elems := [] |} in
  shist_valid L (fixed_counts L fixed) s0 h ->
  let v := vrun L junk v0 h in
  let s := srun s0 h in
  vsize L v = Z.of_nat (length (s_elems s)) /\
  v_cap v = s_cap s /\
  forall i, (i < length (s_elems s))%nat ->
    read_elem L (v_fixed v) (v_mem v) (eaddr L v (Z.of_nat i)) = nth i (s_elems s) [].
Proof. exact refinement_from_construction. Qed.
Print Assumptions C01_refinement.

(* ... and the same after every prefix of the history, i.e. after every single step *)
Theorem C01_refinement_every_step : forall L cap budget fixed aid junk bid tbid h1 h2,
  wf_plist L = true -> all_triv L = true -> 0 <= cap -> Forall (fun c => 0 <= c) fixed ->
  let v0 := fst (mkvec L cap budget fixed aid junk bid tbid) in
  let s0 := {| s_cap := cap; s_elems := [] |} in
  shist_valid L (fixed_counts L fixed) s0 (h1 ++ h2) ->
  let v := vrun L junk v0 h1 in
  let s := srun s0 h1 in
  vsize L v = Z.of_nat (length (s_elems s)) /\
  v_cap v = s_cap s /\
  forall i, (i < length (s_elems s))%nat ->
    read_elem L (v_fixed v) (v_mem v) (eaddr L v (Z.of_nat i)) = nth i (s_elems s) [].
Proof. exact refinement_every_prefix. Qed.
Print Assumptions C01_refinement_every_step.

(* one step: the representation invariant is preserved and the capacity follows the spec *)
Theorem C01_step : forall L junk v s o,
  wf_plist L = true -> all_triv L = true ->
  Rep L v (s_elems s) -> v_cap v = s_cap s -> svalid L (fixed_counts L (v_fixed v)) s o ->
  Rep L (vstep L junk v o) (s_elems (sstep s o)) /\ v_cap (vstep L junk v o) = s_cap (sstep s o).
Proof. exact step_refines. Qed.
Print Assumptions C01_step.

(* non-vacuity: a valid history on a mixed list with unequal elements, an erase in front
   of a larger element, a reserve and an emplace_back after the erase *)
Definition exL : list param :=
  [ {| pk := Plain; psz := 2; pal := 1; pty := TUInt |};
    {| pk := Varying; psz := 3; pal := 4; pty := TBlob |};
    {| pk := Fixed; psz := 1; pal := 1; pty := TU8 |} ].
Definition exH : list sop :=
  [ SEmplace [[[1; 0]]; [[7; 7; 7]]; [[5]; [6]]];
    SEmplace [[[3; 0]]; [[1; 1; 1]; [2; 2; 2]; [3; 3; 3]]; [[8]; [9]]];
    SEmplace [[[0; 0]]; []; [[4]; [4]]];
    SErase 0;
    SReserve 9 64;
    SEmplace [[[2; 0]]; [[9; 9; 9]; [8; 8; 8]]; [[1]; [2]]];
    SEraseRange 1 2;
    SPopBack ].
Example C01_example :
  wf_plist exL = true /\ all_triv exL = true /\
  shist_valid exL (fixed_counts exL [2]) {| s_cap := 3; s_elems := [] |} exH /\
  let v := vrun exL (mfill 170) (fst (mkvec exL 3 30 [2] 1 (mfill 170) 0%nat 1%nat)) exH in
  vsize exL v = 1 /\
  read_elem exL (v_fixed v) (v_mem v) (eaddr exL v 0) = [[[3; 0]]; [[1; 1; 1]; [2; 2; 2]; [3; 3; 3]]; [[8]; [9]]].
Proof.
  split; [reflexivity|]. split; [reflexivity|]. split.
  - cbn. repeat (split; try lia; try (repeat constructor)); discriminate.
  - vm_compute. split; reflexivity.
Qed.

(* ... and for EVERY well-formed parameter list, NON-trivial value types included
   (NtRefine.v): destruction scribbles over the destroyed objects only (pop_back, clear,
   erase(first, end())), relocation through copy / move constructors on reserve reproduces
   every byte (objects are visited in increasing address order, the moved-from bytes left in
   the source lie behind the cursor).  The only operation not covered for non-trivial lists
   is erase() with elements behind the erased ones (nt_ok): it re-emplaces every following
   element and is the recorded known finding erase-nontrivial-overlap. *)
Theorem C01_refinement_every_list : forall L cap budget fixed aid junk bid tbid h,
  wf_plist L = true -> 0 <= cap -> Forall (fun c => 0 <= c) fixed ->
  let v0 := fst (mkvec L cap budget fixed aid junk bid tbid) in
  let s0 := {| s_cap := cap; s_elems := [] |} in
  shist_valid L (fixed_counts L fixed) s0 h -> nt_hist_ok L s0 h ->
  let v := vrun L junk v0 h in
  let s := srun s0 h in
  vsize L v = Z.of_nat (length (s_elems s)) /\
  v_cap v = s_cap s /\
  forall i, (i < length (s_elems s))%nat ->
    read_elem L (v_fixed v) (v_mem v) (eaddr L v (Z.of_nat i)) = nth i (s_elems s) [].
Proof. exact refinement_every_list. Qed.
Print Assumptions C01_refinement_every_list.

Theorem C01_step_every_list : forall L, wf_plist L = true -> forall junk v s o,
  Rep L v (s_elems s) -> v_cap v = s_cap s -> svalid L (fixed_counts L (v_fixed v)) s o -> nt_ok L s o ->
  Rep L (vstep L junk v o) (s_elems (sstep s o)) /\ v_cap (vstep L junk v o) = s_cap (sstep s o) /\
  v_fixed (vstep L junk v o) = v_fixed v.
Proof. exact vstep_rep_nt. Qed.
Print Assumptions C01_step_every_list.

(* ... and on a list WITHOUT a VaryingSize parameter no restriction is left at all: erase()
   with elements behind the erased ones move-constructs them forward field by field
   (FixedErase.v: the loop invariant `linv` over the fixed stride, element j+k of the old list
   at slot j after step k), whatever the value types are.  nt_okx = (no VaryingSize) \/ nt_ok. *)
Theorem C01_refinement_every_list_weaker_restriction : forall L cap budget fixed aid junk bid tbid h,
  wf_plist L = true -> 0 <= cap -> Forall (fun c => 0 <= c) fixed ->
  let v0 := fst (mkvec L cap budget fixed aid junk bid tbid) in
  let s0 := {| s_cap := cap; s_elems := [] |} in
  shist_valid L (fixed_counts L fixed) s0 h -> nt_hist_okx L s0 h ->
  let v := vrun L junk v0 h in
  let s := srun s0 h in
  vsize L v = Z.of_nat (length (s_elems s)) /\
  v_cap v = s_cap s /\
  forall i, (i < length (s_elems s))%nat ->
    read_elem L (v_fixed v) (v_mem v) (eaddr L v (Z.of_nat i)) = nth i (s_elems s) [].
Proof. exact refinement_every_list_x. Qed.
Print Assumptions C01_refinement_every_list_weaker_restriction.

Theorem C01_fixed_size_lists_every_history : forall L cap budget fixed aid junk bid tbid h,
  wf_plist L = true -> has_varying L = false -> 0 <= cap -> Forall (fun c => 0 <= c) fixed ->
  let v0 := fst (mkvec L cap budget fixed aid junk bid tbid) in
  let s0 := {| s_cap := cap; s_elems := [] |} in
  shist_valid L (fixed_counts L fixed) s0 h ->
  let v := vrun L junk v0 h in
  let s := srun s0 h in
  vsize L v = Z.of_nat (length (s_elems s)) /\
  v_cap v = s_cap s /\
  forall i, (i < length (s_elems s))%nat ->
    read_elem L (v_fixed v) (v_mem v) (eaddr L v (Z.of_nat i)) = nth i (s_elems s) [].
Proof. exact refinement_fixed_list_every_history. Qed.
Print Assumptions C01_fixed_size_lists_every_history.

Theorem C01_step_every_list_weaker_restriction : forall L, wf_plist L = true -> forall junk v s o,
  Rep L v (s_elems s) -> v_cap v = s_cap s -> svalid L (fixed_counts L (v_fixed v)) s o -> nt_okx L s o ->
  Rep L (vstep L junk v o) (s_elems (sstep s o)) /\ v_cap (vstep L junk v o) = s_cap (sstep s o) /\
  v_fixed (vstep L junk v o) = v_fixed v.
Proof. exact vstep_rep_ntx. Qed.
Print Assumptions C01_step_every_list_weaker_restriction.

(* satisfiable with a non-trivially relocatable list and erase() in the middle:
   (uint32, FixedSize<Tracked 8-byte type> x 2), four elements, erase(1), erase(0, 1) *)
Definition c01fL : list param :=
  [ {| pk := Plain; psz := 4; pal := 4; pty := TUInt |};
    {| pk := Fixed; psz := 8; pal := 8; pty := TTrk |} ].
Definition c01ft (b : Z) : tuple := [[[b; 0; 0; 0]]; [[b; 1; 0; 0; 0; 0; 0; 0]; [b; 2; 0; 0; 0; 0; 0; 0]]].
Definition c01fH : list sop :=
  [SEmplace (c01ft 1); SEmplace (c01ft 2); SEmplace (c01ft 3); SEmplace (c01ft 4); SErase 1; SEraseRange 0 1].
Example C01_fixed_size_lists_every_history_applies :
  wf_plist c01fL = true /\ has_varying c01fL = false /\ all_triv c01fL = false /\
  shist_valid c01fL (fixed_counts c01fL [2]) {| s_cap := 4; s_elems := [] |} c01fH /\
  ~ nt_hist_ok c01fL {| s_cap := 4; s_elems := [] |} c01fH /\
  s_elems (srun {| s_cap := 4; s_elems := [] |} c01fH) = [c01ft 3; c01ft 4] /\
  (let v := vrun c01fL (fun _ => 170) (fst (mkvec c01fL 4 0 [2] 0 (fun _ => 170) 1%nat 2%nat)) c01fH in
   read_elem c01fL (v_fixed v) (v_mem v) (eaddr c01fL v 1) = c01ft 4).
Proof.
  split; [reflexivity|]. split; [reflexivity|]. split; [reflexivity|]. split; [|split; [|split]].
  - cbn. repeat split; try lia; try discriminate; repeat constructor.
  - cbn. unfold nt_ok. cbn. intros (_ & _ & _ & _ & [H|H] & _); [discriminate|lia].
  - reflexivity.
  - vm_compute. reflexivity.
Qed.
