(* ElemLife.v — lifetime of the objects stored in a ContiguousElement (C06, elements).
   An element constructed from a reference (copy or move form) constructs, through the value
   type's own copy / move constructor, exactly the objects of the fields whose constructor of
   that form is not trivial - at the placement of the tuple at offset 0 of the element's own
   block - and destroys nothing; destroying the element destroys exactly the objects of the
   non-trivially destructible fields at the same addresses.  For lists whose value types are
   non-trivially constructible exactly when they are non-trivially destructible the two
   coincide: every object of the element is constructed once and destroyed once. *)
From Coq Require Import ZArith Lia List Bool Permutation.
From Cntgs Require Import Base BaseLemmas Layout LayoutThm Mem MemLemmas Vector Proxy Elem Spec Rep ElemLemmas
     Ordered Refine LifeThm CompareThm RunsThm ElemThm CmpContent LifeHist.
Import ListNotations.
Local Open Scope Z_scope.

(* construct_if_non_trivial<UseMove>(source, target) *)
Lemma construct_fields_born mv sb db L : forall xs ys cnts ms md,
  length xs = length L -> length ys = length L -> length cnts = length L ->
  keep born (snd (construct_fields mv L (combine xs cnts) (combine ys cnts) sb db ms md)) =
    tag db (obj_addrs (ntc mv) L ys cnts) /\
  keep died (snd (construct_fields mv L (combine xs cnts) (combine ys cnts) sb db ms md)) = [].
Proof.
  induction L as [|p L IH]; intros xs ys cnts ms md Hx Hy Hc; [split; reflexivity|].
  destruct xs as [|x xs]; [discriminate|]. destruct ys as [|y ys]; [discriminate|].
  destruct cnts as [|c cnts]; [discriminate|].
  cbn [combine construct_fields obj_addrs].
  destruct (ntc mv p).
  - pose proof (relocate_objs_born mv p sb db (Z.to_nat c) ms md x y) as Ho.
    destruct (relocate_objs mv p sb db ms md x y (Z.to_nat c)) as [[ms1 md1] e1]. cbn [snd] in Ho.
    specialize (IH xs ys cnts ms1 md1 ltac:(cbn in Hx; lia) ltac:(cbn in Hy; lia) ltac:(cbn in Hc; lia)).
    destruct (construct_fields mv L (combine xs cnts) (combine ys cnts) sb db ms1 md1) as [[ms2 md2] e2]. cbn [snd] in *.
    destruct Ho as [O1 O2]. destruct IH as [I1 I2]. rewrite !keep_app, O1, O2, I1, I2, tag_app. split; reflexivity.
  - specialize (IH xs ys cnts ms md ltac:(cbn in Hx; lia) ltac:(cbn in Hy; lia) ltac:(cbn in Hc; lia)).
    destruct (construct_fields mv L (combine xs cnts) (combine ys cnts) sb db ms md) as [[ms2 md2] e2]. cbn [snd app] in *.
    exact IH.
Qed.

Section ElemLife.
  Variable L : list param.
  Hypothesis Hwf : wf_plist L = true.
  Variables (t : tuple) (fc : list Z).
  Hypothesis Ht : tuple_ok L fc 0 t.

  Let cn := cnts_of t.

  Lemma cn_length : length cn = length L.
  Proof. unfold cn. exact (cnts_length L t fc Ht). Qed.
  Lemma place_length a : length (fst (place L cn a)) = length L.
  Proof. unfold place. apply place_from_fst_length; [rewrite (prevs_length L); lia|exact cn_length]. Qed.

  (* value_type{reference} - copy form and move form *)
  Theorem elem_from_ref_objects mv ms a sb aid junk nb :
    let evs := snd (elem_from_ref mv L ms (ref_fl L t a) sb aid junk nb) in
    keep born evs = tag nb (eobjs (ntc mv) L 0 t) /\ keep died evs = [].
  Proof.
    cbv zeta. unfold elem_from_ref, store_and_load, fl_at0.
    rewrite (ref_fl_snd L t a fc Ht). fold cn.
    set (md0 := mcopy ms _ junk 0 _).
    change (ref_fl L t a) with (combine (fst (place L cn a)) cn).
    pose proof (construct_fields_born mv sb nb L (fst (place L cn a)) (fst (place L cn 0)) cn ms md0
                  (place_length a) (place_length 0) cn_length) as H.
    destruct (construct_fields mv L (combine (fst (place L cn a)) cn) (combine (fst (place L cn 0)) cn) sb nb ms md0)
      as [[ms1 md1] evs]. cbn [snd] in *. destruct H as [B D].
    cbn [keep born died]. unfold eobjs. fold cn. split; assumption.
  Qed.

  (* ~value_type *)
  Theorem elem_destroy_objects e b : e_bid e = Some b -> e_fl e = ref_fl L t 0 ->
    keep died (elem_destroy L e) = tag b (eobjs ntd L 0 t) /\ keep born (elem_destroy L e) = [].
  Proof.
    intros Hb Hf. unfold elem_destroy, elem_destruct, elem_dealloc. rewrite Hb.
    destruct (all_dtriv L) eqn:Hd.
    - cbn [app keep born died]. unfold eobjs. rewrite (obj_addrs_none ntd L _ _ Hd). split; reflexivity.
    - rewrite Hf. unfold ref_fl. fold cn.
      pose proof (destruct_fields_died L (fst (place L cn 0)) cn b (e_mem e) (place_length 0) cn_length) as H.
      destruct (destruct_fields L (combine (fst (place L cn 0)) cn) b (e_mem e)) as [m1 evs]. cbn [snd] in H.
      destruct H as [D B]. rewrite !keep_app, D, B. cbn [keep born died app]. rewrite app_nil_r.
      unfold eobjs. fold cn. split; reflexivity.
  Qed.

  (* constructed once, destroyed once *)
  Theorem elem_life_balanced mv ms a sb aid junk nb :
    (forall p, In p L -> ntc mv p = ntd p) ->
    let r := elem_from_ref mv L ms (ref_fl L t a) sb aid junk nb in
    let e := snd (fst r) in
    keep born (snd r) = keep died (elem_destroy L e) /\ keep died (snd r) = [] /\ keep born (elem_destroy L e) = [].
  Proof.
    intros Hs. cbv zeta.
    destruct (elem_from_ref_objects mv ms a sb aid junk nb) as [B D]. cbv zeta in B, D.
    assert (He : e_bid (snd (fst (elem_from_ref mv L ms (ref_fl L t a) sb aid junk nb))) = Some nb /\
                 e_fl (snd (fst (elem_from_ref mv L ms (ref_fl L t a) sb aid junk nb))) = ref_fl L t 0).
    { unfold elem_from_ref, store_and_load, fl_at0. rewrite (ref_fl_snd L t a fc Ht).
      destruct (construct_fields mv L _ _ sb nb ms _) as [[ms1 md1] evs]. cbn [fst snd e_bid e_fl]. split; reflexivity. }
    destruct He as [Hb Hf].
    destruct (elem_destroy_objects _ nb Hb Hf) as [D2 B2].
    rewrite B, D, D2, B2. repeat split; try reflexivity.
    unfold eobjs. f_equal. apply (obj_addrs_same mv L); exact Hs.
  Qed.
End ElemLife.
