(* Rep.v — the representation invariant: which states of the byte-level vector model
   represent which list of tuples.  Definitions only. *)
From Coq Require Import ZArith List Bool.
From Cntgs Require Import Base Layout Mem Vector Spec.
Import ListNotations.
Local Open Scope Z_scope.

Definition cnts_of (t : tuple) : list Z := map (fun f => Z.of_nat (length f)) t.

(* the bytes of tuple [t] are stored from address [a] on, field k at the address the
   placement function assigns to it *)
Fixpoint elem_from (L : list param) (pv : list Z) (m : mem) (a : Z) (t : tuple) : Prop :=
  match L, pv, t with
  | p :: L', pt :: pv', f :: t' =>
      let a' := align_if (pt <? pal p) (pal p) a in
      mread m a' (length (concat f)) = concat f /\
      elem_from L' pv' m (a' + Z.of_nat (length f) * psz p) t'
  | [], _, [] => True
  | _, _, _ => False
  end.
Definition elem_at (L : list param) (m : mem) (a : Z) (t : tuple) : Prop :=
  elem_from L (prevs L) m a t.

(* end address of tuple [t] stored at [a] *)
Definition elem_end (L : list param) (a : Z) (t : tuple) : Z := snd (place L (cnts_of t) a).

(* elements at offsets [offs]: each SA-aligned, in order, disjoint, between lo and hi *)
Fixpoint elems_ordered (L : list param) (lo : Z) (offs : list Z) (l : list tuple) (hi : Z) : Prop :=
  match offs, l with
  | [], [] => lo <= hi
  | a :: offs', t :: l' =>
      lo <= a /\ (SA L | a) /\ elems_ordered L (elem_end L a t) offs' l' hi
  | _, _ => False
  end.

(* tight packing (C05): every element starts where align_for_first_parameter puts it after
   the end of its predecessor (the first one after address [lo]), and the end of the data
   is the end of the last element or the aligned address behind it (pop_back / erase leave
   data_end at the start of the removed element) *)
Fixpoint elems_tight (L : list param) (lo : Z) (offs : list Z) (l : list tuple) (hi : Z) : Prop :=
  match offs, l with
  | [], [] => hi = lo \/ hi = first_align L lo
  | a :: offs', t :: l' => a = first_align L lo /\ elems_tight L (elem_end L a t) offs' l' hi
  | _, _ => False
  end.

(* [stride_ok]: an element of an all-fixed list fits into one stride, and the stride is
   exactly the distance to the next suitably aligned address (discharged for the stride the
   library computes by the theorem esize_stride_ok) *)
Definition stride_ok (L : list param) (fc : list Z) (stride : Z) : Prop :=
  0 <= stride /\ (SA L | stride) /\
  forall t a, tuple_ok L fc 0 t -> 0 <= a -> (SA L | a) ->
    elem_end L a t <= a + stride /\ first_align L (elem_end L a t) = a + stride.

Record RepO (L : list param) (v : vec) (l : list tuple) (offs : list Z) : Prop := {
  r_tuples : Forall (tuple_ok L (fixed_counts L (v_fixed v)) 0) l;
  r_elems : Forall2 (fun a t => elem_at L (v_mem v) a t) offs l;
  r_order : elems_ordered L 0 offs l (dend L v);
  r_cap : Z.of_nat (length l) <= v_cap v;
  r_loc :
    if has_varying L then
      t_size (v_tbl v) = Z.of_nat (length l) /\
      Z.of_nat (length (t_slots (v_tbl v))) = v_cap v /\
      firstn (length l) (t_slots (v_tbl v)) = map Some offs /\
      (SA L | first_align L (v_last v))
    else
      v_count v = Z.of_nat (length l) /\
      offs = map (fun i => v_stride v * Z.of_nat i) (seq 0 (length l)) /\
      stride_ok L (fixed_counts L (v_fixed v)) (v_stride v);
  r_tight : elems_tight L 0 offs l (dend L v)
}.

Definition Rep (L : list param) (v : vec) (l : list tuple) : Prop := exists offs, RepO L v l offs.

(* the model operation corresponding to a spec operation, for a single vector whose
   allocations get fresh junk memory [junk] (block ids are irrelevant for the values) *)
Definition vstep (L : list param) (junk : mem) (v : vec) (o : sop) : vec :=
  match o with
  | SEmplace t => fst (emplace_back L v t)
  | SPopBack => fst (pop_back L v)
  | SErase i => fst (erase L v i)
  | SEraseRange i j => fst (erase_range L v i j)
  | SClear => fst (clear L v)
  | SReserve n b => fst (reserve L v n b junk O O)
  end.
