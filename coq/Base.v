(* Base.v — size_t arithmetic of src/cntgs/detail/memory.hpp.

   Two versions of each primitive:
   * [align64], [lowbit64], [tr_align64]: the C++ expressions AS WRITTEN
     (memory.hpp:160-163, 213-222), with the 64-bit wrap-around of size_t explicit;
   * [align_up], [lowbit], [tr_align]: their mathematical meaning on unbounded Z.
   [align64_spec] / [lowbit64_spec] prove that they coincide in the no-overflow
   domain (alignments 2^k with k < 62, positions < 2^62).  Everything above this file
   uses the mathematical versions; the leaf-grid correspondence compares the C++
   functions with BOTH extracted versions. *)
From Coq Require Import ZArith Lia List Bool.
Local Open Scope Z_scope.

(* ---------- as written ---------- *)
Definition W := 2^64.
Definition wrap (x : Z) := x mod W.
(* (position - 1u + alignment) & (alignment * numeric_limits<size_t>::max()) *)
Definition align64 (pos a : Z) : Z := Z.land (wrap (pos - 1 + a)) (wrap (a * (W - 1))).
(* value & (~value + T{1}) *)
Definition lowbit64 (v : Z) : Z := Z.land v (wrap (Z.lnot v + 1)).
(* (std::min)(extract_lowest_set_bit(byte_size), alignment) *)
Definition tr_align64 (bytes a : Z) : Z := Z.min (lowbit64 bytes) a.

(* ---------- mathematical ---------- *)
Definition align_up (x a : Z) : Z := ((x + a - 1) / a) * a.

Fixpoint lowbit_pos (p : positive) : positive :=
  match p with
  | xO q => xO (lowbit_pos q)
  | _ => xH
  end.
Definition lowbit (v : Z) : Z := match v with Zpos p => Zpos (lowbit_pos p) | _ => 0 end.
Definition tr_align (bytes a : Z) : Z := Z.min (lowbit bytes) a.

(* ---------- powers of two ---------- *)
Definition pow2 (a : Z) : Prop := exists k, 0 <= k /\ a = 2 ^ k.

(* decidable version for boolean well-formedness predicates *)
Definition is_pow2b (a : Z) : bool :=
  match a with Zpos p => Pos.eqb (lowbit_pos p) p | _ => false end.
