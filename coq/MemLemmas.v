From Coq Require Import ZArith Lia List Bool.
From Cntgs Require Import Mem.
Import ListNotations.
Local Open Scope Z_scope.

Lemma inr_true a n x : inr a n x = true <-> a <= x < a + n.
Proof. unfold inr. rewrite andb_true_iff, Z.leb_le, Z.ltb_lt. tauto. Qed.
Lemma inr_false a n x : inr a n x = false <-> ~ (a <= x < a + n).
Proof. rewrite <- inr_true. destruct (inr a n x); split; congruence. Qed.

Lemma mread_length m a n : length (mread m a n) = n.
Proof. unfold mread. now rewrite map_length, seq_length. Qed.

Lemma mread_ext m m' a n : (forall x, a <= x < a + Z.of_nat n -> m x = m' x) -> mread m a n = mread m' a n.
Proof. intros H. unfold mread. apply map_ext_in. intros i Hi. apply in_seq in Hi. apply H. lia. Qed.

Lemma mread_nth m a n i : (i < n)%nat -> nth i (mread m a n) 0 = m (a + Z.of_nat i).
Proof.
  intros Hi. unfold mread.
  rewrite (nth_indep _ 0 (m (a + Z.of_nat 0))) by (rewrite map_length, seq_length; lia).
  rewrite (map_nth (fun i => m (a + Z.of_nat i)) (seq 0 n) 0%nat i).
  rewrite seq_nth by lia. reflexivity.
Qed.

Lemma mread_mwrite_same m a bs : mread (mwrite m a bs) a (length bs) = bs.
Proof.
  apply nth_ext with (d := 0) (d' := 0); [apply mread_length|].
  intros i Hi. rewrite mread_length in Hi. rewrite mread_nth by lia. unfold mwrite.
  replace (inr a (Z.of_nat (length bs)) (a + Z.of_nat i)) with true
    by (symmetry; apply inr_true; lia).
  f_equal. lia.
Qed.

Lemma mwrite_out m a bs x : ~ (a <= x < a + Z.of_nat (length bs)) -> mwrite m a bs x = m x.
Proof. intros H. unfold mwrite. apply inr_false in H. now rewrite H. Qed.

Lemma mread_mwrite_disj m a bs a' n :
  a' + Z.of_nat n <= a \/ a + Z.of_nat (length bs) <= a' -> mread (mwrite m a bs) a' n = mread m a' n.
Proof. intros H. apply mread_ext. intros x Hx. apply mwrite_out. lia. Qed.

Lemma mmove_in m src dst n x : dst <= x < dst + n -> mmove m src dst n x = m (x - dst + src).
Proof. intros H. unfold mmove. apply inr_true in H. now rewrite H. Qed.
Lemma mmove_out m src dst n x : ~ (dst <= x < dst + n) -> mmove m src dst n x = m x.
Proof. intros H. unfold mmove. apply inr_false in H. now rewrite H. Qed.

Lemma mread_mmove_in m src dst len a n :
  dst <= a -> a + Z.of_nat n <= dst + len -> mread (mmove m src dst len) a n = mread m (a - dst + src) n.
Proof.
  intros H1 H2. unfold mread. apply map_ext_in. intros i Hi. apply in_seq in Hi.
  rewrite mmove_in by lia. f_equal. lia.
Qed.

Lemma mread_mmove_out m src dst len a n :
  a + Z.of_nat n <= dst \/ dst + len <= a -> mread (mmove m src dst len) a n = mread m a n.
Proof. intros H. apply mread_ext. intros x Hx. apply mmove_out. lia. Qed.

Lemma mcopy_in ms src m dst n x : dst <= x < dst + n -> mcopy ms src m dst n x = ms (x - dst + src).
Proof. intros H. unfold mcopy. apply inr_true in H. now rewrite H. Qed.
Lemma mcopy_out ms src m dst n x : ~ (dst <= x < dst + n) -> mcopy ms src m dst n x = m x.
Proof. intros H. unfold mcopy. apply inr_false in H. now rewrite H. Qed.

Lemma mread_mcopy_in ms src m dst len a n :
  dst <= a -> a + Z.of_nat n <= dst + len -> mread (mcopy ms src m dst len) a n = mread ms (a - dst + src) n.
Proof.
  intros H1 H2. unfold mread. apply map_ext_in. intros i Hi. apply in_seq in Hi.
  rewrite mcopy_in by lia. f_equal. lia.
Qed.

Lemma enc_length n v : length (enc n v) = n.
Proof. revert v; induction n; simpl; auto. Qed.
Lemma dec_enc n : forall v, 0 <= v < 256 ^ Z.of_nat n -> dec (enc n v) = v.
Proof.
  induction n as [|n IH]; intros v Hv.
  - simpl in *. lia.
  - cbn [enc dec]. rewrite IH.
    + pose proof (Z.div_mod v 256). lia.
    + rewrite Nat2Z.inj_succ, Z.pow_succ_r in Hv by lia.
      split; [apply Z.div_pos; lia|]. apply Z.div_lt_upper_bound; lia.
Qed.

Lemma list_eqb_eq a : forall b, list_eqb a b = true <-> a = b.
Proof.
  induction a as [|x a IH]; intros [|y b]; cbn [list_eqb]; try (split; congruence).
  rewrite andb_true_iff, Z.eqb_eq, IH. split; [intros [-> ->]; reflexivity|intros H; inversion H; auto].
Qed.
