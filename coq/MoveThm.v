(* MoveThm.v — `target = std::move(source)` between element references (C11, move form).
   For every well-formed parameter list and EVERY shape of the move run table: after a move
   assignment between references of equal field sizes in different vectors the target
   element holds exactly the tuple the source held; the source keeps the fields of the
   trivially move-assignable runs and holds moved-from objects (0xEE in the model) in the
   fields that were assigned object by object; nothing outside the two extents changes.
   Same skeleton as SwapThm.v (a step reads where no earlier step has written: the runs of
   the table are pairwise disjoint). *)
From Coq Require Import ZArith List Bool Lia.
From Cntgs Require Import Base BaseLemmas Layout LayoutThm Mem MemLemmas Vector Proxy Spec Rep ElemLemmas
     CompareThm RunsThm ElemThm CmpContent AssignThm SwapThm.
Import ListNotations.
Local Open Scope Z_scope.

Lemma nth_repeat_238 n i : (0 <= i < Z.of_nat n) -> nth (Z.to_nat i) (repeat 238 n) 0 = 238.
Proof.
  intros Hi. assert (H : (Z.to_nat i < n)%nat) by lia. revert H. generalize (Z.to_nat i). clear.
  induction n as [|n IH]; intros [|k] H; cbn [repeat nth]; try lia; auto. apply IH. lia.
Qed.

(* ---------- object-wise move assignment of a MANUAL field ---------- *)
Lemma assign_objs_move p sb db : 0 < psz p -> forall n x sa da, m_same x = false ->
  let x' := fst (assign_objs true p sb db x sa da n) in
  m_same x' = false /\
  (forall y, m_s x' y = if inr sa (Z.of_nat n * psz p) y then 238 else m_s x y) /\
  (forall y, m_d x' y = if inr da (Z.of_nat n * psz p) y then m_s x (y - da + sa) else m_d x y).
Proof.
  intros Hp. induction n as [|n IH]; intros x sa da Hs; cbv zeta.
  - cbn [assign_objs fst]. split; [exact Hs|]. split; intros y.
    + destruct (inr sa (Z.of_nat 0 * psz p) y) eqn:E; [apply inr_true in E; lia|reflexivity].
    + destruct (inr da (Z.of_nat 0 * psz p) y) eqn:E; [apply inr_true in E; lia|reflexivity].
  - cbn [assign_objs]. rewrite Hs. cbn [andb negb].
    set (bs := mread (m_s x) sa (Z.to_nat (psz p))).
    set (x2 := wr_s (wr_d x da bs) sa (moved_bytes (psz p))).
    assert (H1 : m_same x2 = false /\
                 (forall y, m_s x2 y = if inr sa (psz p) y then 238 else m_s x y) /\
                 (forall y, m_d x2 y = if inr da (psz p) y then m_s x (y - da + sa) else m_d x y)).
    { unfold x2, wr_s, wr_d. rewrite Hs. cbn [m_s m_d m_same]. split; [reflexivity|]. split; intros y.
      - rewrite mwrite_at. unfold moved_bytes. rewrite repeat_length, Z2Nat.id by lia.
        destruct (inr sa (psz p) y) eqn:E; [|reflexivity].
        apply inr_true in E. apply nth_repeat_238. lia.
      - unfold bs. rewrite mwrite_mread_at by lia. rewrite Z2Nat.id by lia. reflexivity. }
    destruct H1 as (M1 & S1 & D1).
    specialize (IH x2 (sa + psz p) (da + psz p) M1). cbv zeta in IH.
    destruct (assign_objs true p sb db x2 (sa + psz p) (da + psz p) n) as [x3 evs]. cbn [fst] in *.
    destruct IH as (I1 & I2 & I3). split; [exact I1|].
    replace (Z.of_nat (S n) * psz p) with (Z.of_nat n * psz p + psz p) by (rewrite Nat2Z.inj_succ; ring).
    assert (Hq : 0 <= Z.of_nat n * psz p) by (apply Z.mul_nonneg_nonneg; lia).
    set (q := Z.of_nat n * psz p) in *. clearbody q.
    split; intros y.
    + rewrite I2, S1.
      destruct (inr (sa + psz p) q y) eqn:E1; destruct (inr sa (psz p) y) eqn:E2; destruct (inr sa (q + psz p) y) eqn:E3.
      all: repeat match goal with
                  | H : inr _ _ _ = true |- _ => apply inr_true in H
                  | H : inr _ _ _ = false |- _ => apply inr_false in H
                  end.
      all: try reflexivity. all: exfalso; lia.
    + rewrite I3, D1, S1.
      destruct (inr (da + psz p) q y) eqn:E1; destruct (inr da (psz p) y) eqn:E2; destruct (inr da (q + psz p) y) eqn:E3;
        try destruct (inr sa (psz p) (y - (da + psz p) + (sa + psz p))) eqn:E4.
      all: repeat match goal with
                  | H : inr _ _ _ = true |- _ => apply inr_true in H
                  | H : inr _ _ _ = false |- _ => apply inr_false in H
                  end.
      all: try reflexivity. all: try (f_equal; lia). all: exfalso; lia.
Qed.

Section MoveAssign.
  Variable L : list param.
  Hypothesis Hwf : wf_plist L = true.
  Variables (tx ty : tuple) (fcx fcy : list Z).
  Hypothesis Htx : tuple_ok L fcx 0 tx.
  Hypothesis Hty : tuple_ok L fcy 0 ty.
  Hypothesis Hcn : cnts_of ty = cnts_of tx.          (* equal field sizes *)
  Variables (mx my : mem) (xa ya : Z).               (* the two memories and element starts *)
  Hypothesis Hxa : 0 <= xa /\ (SA L | xa).
  Hypothesis Hya : 0 <= ya /\ (SA L | ya).
  Hypothesis Hex : elem_at L mx xa tx.
  Hypothesis Hey : elem_at L my ya ty.

  Let cn := cnts_of tx.
  Let Ax := fst (place L cn xa).
  Let Ay := fst (place L cn ya).
  Let n := length L.
  Let R := runs_asg true L.

  Lemma Ay_Ax j : (j < n)%nat -> nth j Ay 0 = nth j Ax 0 + (ya - xa).
  Proof. intros Hj. exact (Ad_As L Hwf tx fcx Htx xa ya Hxa Hya j Hj). Qed.

  (* number of bytes step k handles *)
  Definition slen (k : nat) : Z :=
    match nth k R RSkip with
    | RSkip => 0
    | RManual => nth k cn 0 * psz (nth k L pparam0)
    | REnd e => nth e Ax 0 + nth e cn 0 * psz (nth e L pparam0) - nth k Ax 0
    end.
  Definition rx (k : nat) (y : Z) : bool := inr (nth k Ax 0) (slen k) y.
  Definition ry (k : nat) (y : Z) : bool := inr (nth k Ay 0) (slen k) y.

  Lemma ry_rx k y : (k < n)%nat -> ry k y = rx k (y - ya + xa).
  Proof.
    intros Hk. unfold ry, rx. rewrite (Ay_Ax k Hk).
    destruct (inr (nth k Ax 0 + (ya - xa)) (slen k) y) eqn:E1; destruct (inr (nth k Ax 0) (slen k) (y - ya + xa)) eqn:E2; auto;
      repeat match goal with
             | H : inr _ _ _ = true |- _ => apply inr_true in H
             | H : inr _ _ _ = false |- _ => apply inr_false in H
             end; exfalso; lia.
  Qed.

  Let flx := ref_fl L tx xa.
  Let fly := ref_fl L ty ya.

  Lemma nth_flx j : (j < n)%nat -> nth j flx fld0 = (nth j Ax 0, nth j cn 0).
  Proof. intros Hj. exact (nth_fls L tx fcx Htx xa j Hj). Qed.
  Lemma nth_fly j : (j < n)%nat -> nth j fly fld0 = (nth j Ay 0, nth j cn 0).
  Proof. intros Hj. exact (nth_fld L tx ty fcy Hty Hcn ya j Hj). Qed.

  Lemma run_bounds k e : nth k R RSkip = REnd e -> (k <= e < n)%nat.
  Proof. intros Hk. destruct (runs_asg_structure true L) as [_ [Hs1 _]]. destruct (Hs1 _ _ Hk) as [Hb _]. exact Hb. Qed.

  Lemma slen_nonneg k : (k < n)%nat -> 0 <= slen k.
  Proof.
    intros Hk. unfold slen. destruct (nth k R RSkip) as [| |e] eqn:Ek; [lia|apply (len_nonneg L Hwf tx k Hk)|].
    pose proof (run_bounds k e Ek) as Hb.
    pose proof (As_mono L Hwf tx fcx Htx xa (e - k) k ltac:(fold n; lia)) as H1. replace (k + (e - k))%nat with e in H1 by lia.
    pose proof (len_nonneg L Hwf tx e ltac:(fold n; lia)) as H2. fold cn in H1, H2. fold Ax in H1. lia.
  Qed.

  (* an earlier step has not touched what a later step reads *)
  Lemma range_below k' k y : (k' < k)%nat -> (k < n)%nat -> rx k y = true -> rx k' y = false.
  Proof.
    intros Hlt Hk Hr. unfold rx in *. apply inr_true in Hr. apply inr_false.
    assert (Hact : nth k R RSkip <> RSkip).
    { intros E. unfold slen in Hr. fold R in Hr. rewrite E in Hr. lia. }
    assert (Hmono : forall j, (j < k)%nat -> nth j Ax 0 + nth j cn 0 * psz (nth j L pparam0) <= nth k Ax 0).
    { intros j Hj. pose proof (As_step L Hwf tx fcx Htx xa j ltac:(fold n; lia)) as H1.
      pose proof (As_mono L Hwf tx fcx Htx xa (k - S j) (S j) ltac:(fold n; lia)) as H2.
      replace (S j + (k - S j))%nat with k in H2 by lia. fold cn in H1, H2. fold Ax in H1, H2. lia. }
    unfold slen. fold R. destruct (nth k' R RSkip) as [| |e'] eqn:Ek'.
    - lia.
    - pose proof (Hmono k' Hlt). lia.
    - pose proof (run_bounds k' e' Ek') as Hb.
      assert (He : (e' < k)%nat).
      { destruct (Nat.lt_ge_cases e' k) as [H|H]; [exact H|].
        exfalso. apply Hact. apply (runs_asg_separated true L k' e' Ek'). lia. }
      pose proof (Hmono e' He). lia.
  Qed.

  Lemma existsb_below k y : (k < n)%nat -> rx k y = true -> existsb (fun k' => rx k' y) (seq 0 k) = false.
  Proof.
    intros Hk Hr. destruct (existsb (fun k' => rx k' y) (seq 0 k)) eqn:E; [|reflexivity].
    apply existsb_exists in E. destruct E as (k' & Hin & Hr'). apply in_seq in Hin.
    rewrite (range_below k' k y ltac:(lia) Hk Hr) in Hr'. discriminate.
  Qed.

  Lemma existsb_ry_rx m y : (m <= n)%nat ->
    existsb (fun k' => ry k' y) (seq 0 m) = existsb (fun k' => rx k' (y - ya + xa)) (seq 0 m).
  Proof.
    intros Hm. induction m as [|m IH]; [reflexivity|].
    rewrite seq_S, !existsb_app. cbn [Nat.add existsb]. rewrite IH by lia. rewrite (ry_rx m y) by lia. reflexivity.
  Qed.

  (* every byte of every field is exchanged *)
  Lemma field_covered_x j y : (j < n)%nat ->
    nth j Ax 0 <= y < nth j Ax 0 + nth j cn 0 * psz (nth j L pparam0) ->
    existsb (fun k => rx k y) (seq 0 n) = true.
  Proof.
    intros Hj Hy. destruct (runs_asg_structure true L) as [Hcov _].
    apply existsb_exists. destruct (Hcov j Hj) as [Hm | (k & e & Hke & Hk)].
    - exists j. split; [apply in_seq; lia|]. unfold rx, slen, R. rewrite Hm. apply inr_true. lia.
    - pose proof (run_bounds k e Hk) as Hb. exists k. split; [apply in_seq; lia|].
      unfold rx, slen, R. rewrite Hk. apply inr_true.
      pose proof (As_mono L Hwf tx fcx Htx xa (j - k) k ltac:(fold n; lia)) as M1. replace (k + (j - k))%nat with j in M1 by lia.
      pose proof (As_end_mono L Hwf tx fcx Htx xa (e - j) j ltac:(fold n; lia)) as M2. replace (j + (e - j))%nat with e in M2 by lia.
      fold cn in M1, M2. fold Ax in M1, M2. lia.
  Qed.

  (* nothing outside the element's extent is touched *)
  Lemma rx_inside k y : (k < n)%nat -> rx k y = true -> xa <= y < xa + (elem_end L xa tx - xa).
  Proof.
    intros Hk H.
    assert (HlenA : length Ax = n).
    { unfold Ax, place. apply place_from_fst_length; [rewrite (prevs_length L); lia|apply (cn_len L tx fcx Htx)]. }
    assert (Hfirst : nth 0 Ax 0 = xa).
    { rewrite (nth0_hd Ax xa) by (intros E; rewrite E in HlenA; cbn [length] in HlenA; lia).
      exact (place_first L cn xa Hwf (tuple_ok_cnt_ok L _ _ _ Htx) (proj1 Hxa) (proj2 Hxa)). }
    (* reuse the bound proved for the assignment table: the end of every field lies inside *)
    assert (Hlast : forall j, (j < n)%nat ->
              nth j Ax 0 + nth j cn 0 * psz (nth j L pparam0) <= elem_end L xa tx).
    { intros j Hj. pose proof (As_end_mono L Hwf tx fcx Htx xa (n - 1 - j) j ltac:(fold n; lia)) as M.
      replace (j + (n - 1 - j))%nat with (n - 1)%nat in M by lia.
      assert (Hend : nth (n - 1) Ax 0 + nth (n - 1) cn 0 * psz (nth (n - 1) L pparam0) = snd (place L cn xa)).
      { pose proof (place_from_last L (prevs L) cn xa (wf_plist_nonempty L Hwf)
                      ltac:(rewrite (prevs_length L); lia) (cn_len L tx fcx Htx)) as Hl.
        unfold fend in Hl. fold (place L cn xa) in Hl. rewrite <- Hl.
        assert (Hlen2 : length (combine (fst (place L cn xa)) cn) = n).
        { rewrite combine_length. fold Ax. rewrite HlenA. unfold cn. rewrite (cn_len L tx fcx Htx). apply Nat.min_id. }
        rewrite (last_nth_ (combine (fst (place L cn xa)) cn) fld0), Hlen2.
        rewrite (last_nth_ L pparam0). fold n.
        pose proof (nth_flx (n - 1) ltac:(lia)) as E. unfold flx, ref_fl in E. fold cn in E. rewrite E. reflexivity. }
      unfold elem_end. fold cn. fold cn in M. fold Ax in M. lia. }
    pose proof (As_mono L Hwf tx fcx Htx xa k 0 ltac:(fold n; lia)) as M0. cbn [Nat.add] in M0. fold cn in M0. fold Ax in M0.
    unfold rx, slen in H. fold R in H. apply inr_true in H.
    destruct (nth k R RSkip) as [| |e] eqn:Ek; [lia| |].
    - pose proof (Hlast k Hk). lia.
    - pose proof (run_bounds k e Ek) as Hb. pose proof (Hlast e ltac:(lia)). lia.
  Qed.


  Definition man (k : nat) : bool := match nth k R RSkip with RManual => true | _ => false end.

  (* one step of ElementTraits::assign<true> *)
  Lemma assign_one_move sb db x k : (k < n)%nat -> m_same x = false ->
    let x' := fst (assign_one true L sb db flx fly x k) in
    m_same x' = false /\
    (forall y, m_s x' y = if man k && rx k y then 238 else m_s x y) /\
    (forall y, m_d x' y = if ry k y then m_s x (y - ya + xa) else m_d x y).
  Proof.
    intros Hk Hs. cbv zeta. unfold assign_one, man, rx, ry, slen. fold R.
    destruct (nth k R RSkip) as [| |e] eqn:Ek.
    - cbn [fst andb]. split; [exact Hs|]. split; intros y; [reflexivity|].
      destruct (inr (nth k Ay 0) 0 y) eqn:E; [apply inr_true in E; lia|reflexivity].
    - rewrite nth_flx, nth_fly by exact Hk. cbn [fst snd andb].
      pose proof (assign_objs_move (nth k L pparam0) sb db (psz_pos L Hwf k Hk)
                    (Z.to_nat (nth k cn 0)) x (nth k Ax 0) (nth k Ay 0) Hs) as H.
      cbv zeta in H. rewrite Z2Nat.id in H by apply (cn_nonneg L tx).
      destruct H as (H1 & H2 & H3). split; [exact H1|]. split; intros y.
      + apply H2.
      + rewrite H3. destruct (inr _ _ y); [|reflexivity]. f_equal. rewrite (Ay_Ax k Hk). lia.
    - pose proof (run_bounds k e Ek) as Hb.
      rewrite !nth_flx, nth_fly by lia. unfold fend. cbn [fst snd andb].
      set (len := nth e Ax 0 + nth e cn 0 * psz (nth e L pparam0) - nth k Ax 0).
      assert (Hlen : 0 <= len).
      { pose proof (slen_nonneg k Hk) as H. unfold slen in H. fold R in H. rewrite Ek in H. exact H. }
      unfold wr_d. rewrite Hs. cbn [m_s m_d m_same]. split; [reflexivity|]. split; intros y; [reflexivity|].
      rewrite mwrite_mread_at by lia. rewrite Z2Nat.id by exact Hlen.
      destruct (inr (nth k Ay 0) len y); [|reflexivity]. f_equal. rewrite (Ay_Ax k Hk). lia.
  Qed.

  Lemma existsb_man_below k y : (k < n)%nat -> rx k y = true ->
    existsb (fun k' => man k' && rx k' y) (seq 0 k) = false.
  Proof.
    intros Hk Hr. destruct (existsb (fun k' => man k' && rx k' y) (seq 0 k)) eqn:E; [|reflexivity].
    apply existsb_exists in E. destruct E as (k' & Hin & Hr'). apply in_seq in Hin.
    apply andb_true_iff in Hr'. destruct Hr' as [_ Hr'].
    rewrite (range_below k' k y ltac:(lia) Hk Hr) in Hr'. discriminate.
  Qed.

  Lemma assign_all_move sb db : forall m k0 x, (k0 + m <= n)%nat -> m_same x = false ->
    (forall y, m_s x y = if existsb (fun k => man k && rx k y) (seq 0 k0) then 238 else mx y) ->
    (forall y, m_d x y = if existsb (fun k => ry k y) (seq 0 k0) then mx (y - ya + xa) else my y) ->
    let x' := fst (assign_all true L sb db flx fly x (seq k0 m)) in
    (forall y, m_s x' y = if existsb (fun k => man k && rx k y) (seq 0 (k0 + m)) then 238 else mx y) /\
    (forall y, m_d x' y = if existsb (fun k => ry k y) (seq 0 (k0 + m)) then mx (y - ya + xa) else my y).
  Proof.
    induction m as [|m IH]; intros k0 x Hk Hs HS HD; cbv zeta.
    - cbn [seq assign_all fst]. rewrite Nat.add_0_r. split; assumption.
    - cbn [seq assign_all].
      pose proof (assign_one_move sb db x k0 ltac:(lia) Hs) as H1. cbv zeta in H1.
      destruct (assign_one true L sb db flx fly x k0) as [x1 e1]. cbn [fst] in H1. destruct H1 as (M1 & S1 & D1).
      specialize (IH (S k0) x1 ltac:(lia) M1).
      assert (HS1 : forall y, m_s x1 y = if existsb (fun k => man k && rx k y) (seq 0 (S k0)) then 238 else mx y).
      { intros y. rewrite S1, seq_S, existsb_app. cbn [Nat.add existsb]. rewrite orb_false_r.
        destruct (man k0 && rx k0 y) eqn:Er.
        - rewrite orb_true_r. reflexivity.
        - rewrite orb_false_r. apply HS. }
      assert (HD1 : forall y, m_d x1 y = if existsb (fun k => ry k y) (seq 0 (S k0)) then mx (y - ya + xa) else my y).
      { intros y. rewrite D1, seq_S, existsb_app. cbn [Nat.add existsb]. rewrite orb_false_r.
        destruct (ry k0 y) eqn:Er.
        - rewrite orb_true_r. rewrite HS.
          rewrite (ry_rx k0 y) in Er by lia.
          rewrite (existsb_man_below k0 _ ltac:(lia) Er). reflexivity.
        - rewrite orb_false_r. apply HD. }
      specialize (IH HS1 HD1). cbv zeta in IH.
      destruct (assign_all true L sb db flx fly x1 (seq (S k0) m)) as [x2 e2]. cbn [fst] in *.
      replace (k0 + S m)%nat with (S k0 + m)%nat by lia. exact IH.
  Qed.

  Theorem ref_move_assign sb db :
    let x' := fst (assign_all true L sb db flx fly {| m_s := mx; m_d := my; m_same := false |} (seq 0 n)) in
    elem_at L (m_d x') ya tx /\
    (forall y, ~ (ya <= y < ya + (elem_end L xa tx - xa)) -> m_d x' y = my y) /\
    (forall y, m_s x' y = if existsb (fun k => man k && rx k y) (seq 0 n) then 238 else mx y).
  Proof.
    pose proof (assign_all_move sb db n 0 {| m_s := mx; m_d := my; m_same := false |} ltac:(lia) eq_refl
                  ltac:(intros; reflexivity) ltac:(intros; reflexivity)) as H. cbv zeta in H. cbn [Nat.add] in H.
    cbv zeta. destruct (assign_all true L sb db flx fly _ (seq 0 n)) as [x' evs]. cbn [fst] in *.
    destruct H as [HS HD].
    pose proof (tuple_ok_length _ _ _ _ Htx) as Hlx.
    split; [|split; [|exact HS]].
    - unfold elem_at. apply elem_from_of_fields; [exact Hlx|rewrite (prevs_length L); lia|].
      intros j Hj. fold (place L (cnts_of tx) ya). fold cn. fold Ay.
      change (concat (nth j tx [])) with (fb tx j).
      transitivity (mread mx (nth j Ax 0) (length (fb tx j))); [|exact (field_bytes L mx xa tx Hex j Hj)].
      unfold mread. apply map_ext_in. intros i Hi. apply in_seq in Hi. rewrite HD.
      assert (Hlen : Z.of_nat (length (fb tx j)) = nth j cn 0 * psz (nth j L pparam0)).
      { apply (fb_len L Hwf tx fcx Htx j Hj). }
      rewrite (existsb_ry_rx n _ ltac:(lia)).
      rewrite (field_covered_x j (nth j Ay 0 + Z.of_nat i - ya + xa) Hj) by (rewrite (Ay_Ax j Hj); lia).
      f_equal. rewrite (Ay_Ax j Hj). lia.
    - intros y Hy. rewrite HD. rewrite (existsb_ry_rx n _ ltac:(lia)).
      destruct (existsb (fun k => rx k (y - ya + xa)) (seq 0 n)) eqn:E; [|reflexivity].
      exfalso. apply existsb_exists in E. destruct E as (k & Hk & Hr). apply in_seq in Hk.
      apply Hy. pose proof (rx_inside k _ ltac:(lia) Hr). lia.
  Qed.
End MoveAssign.

(* ---------- field-wise move assignment between elements (FixedSize / plain lists, unequal
   non-propagating allocators, the target owns a block) ---------- *)
From Cntgs Require Import Elem.
Theorem elem_move_assign_fieldwise_spec L : wf_plist L = true ->
  forall d src ts td fcs fcd junk nb,
  tuple_ok L fcs 0 ts -> tuple_ok L fcd 0 td -> cnts_of td = cnts_of ts ->
  elem_holds L src ts -> elem_holds L d td -> e_aid d <> e_aid src ->
  (fixed_or_plain L && match e_bid d with Some _ => true | None => false end) = true ->
  let '(d', src', evs, nb') := elem_move_assign false false L d src junk nb in
  elem_holds L d' ts /\ e_bid d' = e_bid d /\ e_units d' = e_units d /\ e_aid d' = e_aid d /\
  e_bid src' = e_bid src /\ nb' = nb.
Proof.
  intros Hwf d src ts td fcs fcd junk nb Hts Htd Hcn [Hes Hfs] [Hed Hfd] Hne Hpath.
  unfold elem_move_assign. cbn [orb].
  replace (e_aid d =? e_aid src) with false by (symmetry; apply Z.eqb_neq; exact Hne).
  rewrite Hpath. unfold assign_fl. rewrite Hfs, Hfd.
  pose proof (ref_move_assign L Hwf ts td fcs fcd Hts Htd Hcn (e_mem src) (e_mem d) 0 0
                ltac:(split; [lia|apply Z.divide_0_r]) ltac:(split; [lia|apply Z.divide_0_r]) Hes
                (bidn (e_bid src)) (bidn (e_bid d))) as H.
  cbv zeta in H.
  destruct (assign_all true L (bidn (e_bid src)) (bidn (e_bid d)) (ref_fl L ts 0) (ref_fl L td 0)
              {| m_s := e_mem src; m_d := e_mem d; m_same := false |} (seq 0 (length L))) as [x evs].
  cbn [fst] in H. destruct H as (H2 & _ & _).
  unfold elem_holds. cbn [e_mem e_fl e_bid e_units e_aid set_emem]. repeat split; try assumption.
  rewrite Hfd. unfold ref_fl. rewrite Hcn. reflexivity.
Qed.
