(* EsizeThm.v — for lists WITHOUT VaryingSize parameter the compile-time/run-time size
   computation (calculate_element_size) agrees with the placement: an element stored at a
   storage-aligned address occupies exactly [size] bytes and the stride is the least
   multiple of the storage alignment >= size (C05 ii, and the [stride_ok] hypothesis of the
   refinement theorems). *)
From Coq Require Import ZArith Lia List Bool.
From Cntgs Require Import Base BaseLemmas Layout LayoutThm Mem Vector Spec Rep ElemLemmas.
Import ListNotations.
Local Open Scope Z_scope.

(* object counts of an element of a list without VaryingSize parameter *)
Fixpoint cnts_match (L : list param) (fc cnts : list Z) : Prop :=
  match L, cnts with
  | [], [] => True
  | p :: L', c :: cnts' =>
      c = (match pk p with Plain => 1 | _ => hd 0 fc end) /\ 0 <= c /\ cnts_match L' (tl fc) cnts'
  | _, _ => False
  end.

Section Esize.
  Variable L0 : list param.
  Hypothesis Hwf0 : wf_plist L0 = true.
  Let S0 := SA L0.
  Let HF0 : Forall wfp L0 := wf_plist_Forall L0 Hwf0.
  Let Hne0 : L0 <> [] := wf_plist_nonempty L0 Hwf0.
  Let HS : pow2 S0 := SA_pow2 L0 HF0 Hne0.
  Let HSp : 0 < S0 := pow2_pos _ HS.

  Lemma asz_novar p prev next off fixed :
    is_varying p = false -> pal p <= S0 ->
    asz p prev next off S0 fixed =
      (let vs := match pk p with Fixed => psz p * fixed | _ => psz p end in
       let ao := align_if (prev <? pal p) (pal p) off in
       let no := off + (ao - off + vs) in
       (no, ao - off + vs, align_if (tr_align (psz p) (pal p) <? next) next no - no, Z.max S0 (pal p))).
  Proof.
    intros Hv Hle. unfold asz. unfold is_varying in Hv.
    destruct (pk p) eqn:Hk; cbn [kind_eqb] in Hv; try discriminate;
      replace (S0 <? pal p) with false by (symmetry; apply Z.ltb_ge; lia); reflexivity.
  Qed.

  Lemma esize_from_spec L : forall k fc cnts st prev size off pad a,
    Forall wfp L ->
    (forall p, In p L -> is_varying p = false /\ pal p <= S0 /\ (pal p | S0)) ->
    cnts_match L fc cnts ->
    Inv st prev (a + off) -> 0 <= a -> (S0 | a) -> 0 <= off ->
    (forall j, (j <= length L)%nat -> prev_tr L0 (k + j) = nth j (prev :: trails_from L st) 0) ->
    (k + length L = length L0)%nat ->
    size = off ->
    let e := snd (place_from L (prev :: trails_from L st) cnts (a + off)) in
    let r := esize_from L0 L k fc size off pad S0 in
    (L <> [] -> fst r = e - a /\ snd r = align_up (e - a) S0) /\
    (L = [] -> r = (size, size + pad)).
  Proof.
    induction L as [|p L IH]; intros k fc cnts st prev size off pad a Hwf Hnv Hcm HI Ha HaS Hoff Hpv Hlen Hsz.
    - cbv zeta. split; [congruence|]. intros _. reflexivity.
    - cbv zeta. split; [|discriminate]. intros _.
      destruct cnts as [|c cnts]; [contradiction|]. destruct Hcm as (Hc & Hc0 & Hcm).
      apply Forall_cons_iff in Hwf. destruct Hwf as [Hwp HwL]. destruct Hwp as [Hs Hal].
      destruct (Hnv p ltac:(left; reflexivity)) as (Hv & Hple & Hpd).
      pose proof (pow2_pos _ Hal) as Halp.
      assert (Hcnt : cnt_ok p c).
      { split; [lia|]. intros Hk. rewrite Hk in Hc. exact Hc. }
      pose proof (step_sound p st prev (a + off) c (conj Hs Hal) Hcnt HI) as Hst. cbv zeta in Hst.
      destruct Hst as (Hal' & Hge' & Etight & HI').
      cbn [esize_from trails_from].
      assert (Hp0 : prev_tr L0 k = prev).
      { specialize (Hpv 0%nat ltac:(lia)). rewrite Nat.add_0_r in Hpv. exact Hpv. }
      rewrite Hp0. fold S0. rewrite asz_novar by auto. cbv zeta.
      destruct (tr_step p st) as [st' t] eqn:Ets. cbn [fst snd] in HI'.
      cbn [place_from].
      set (a' := align_if (prev <? pal p) (pal p) (a + off)) in *.
      set (ao := align_if (prev <? pal p) (pal p) off).
      (* relative and absolute aligned positions agree *)
      assert (Eao : a' = a + ao).
      { unfold a', ao, align_if. destruct (prev <? pal p) eqn:Hc'.
        - replace (a + off) with (off + a) by lia.
          rewrite align_up_shift; [ring|exact Halp|eapply Z.divide_trans; [exact Hpd|exact HaS]].
        - reflexivity. }
      set (vs := match pk p with Fixed => psz p * hd 0 fc | _ => psz p end).
      assert (Evs : vs = c * psz p).
      { unfold vs. rewrite Hc. unfold is_varying in Hv. destruct (pk p); cbn [kind_eqb] in Hv; try discriminate; ring. }
      assert (Hao : off <= ao) by (unfold ao; apply align_if_ge_; auto).
      assert (Hvs0 : 0 <= vs) by (rewrite Evs; apply Z.mul_nonneg_nonneg; lia).
      replace (Z.max S0 (pal p)) with S0 by lia.
      set (no := off + (ao - off + vs)).
      assert (Eno : a' + c * psz p = a + no) by (unfold no; lia).
      rewrite Eno in *.
      destruct L as [|q L'].
      + (* last parameter: its padding decides the stride *)
        cbn [esize_from place_from trails_from snd fst].
        assert (Hnext : next_al L0 k = S0).
        { unfold next_al. cbn [length] in Hlen. replace (Nat.eqb (S k) (length L0)) with true; [reflexivity|].
          symmetry. apply Nat.eqb_eq. lia. }
        rewrite Hnext. replace (a + no - a) with no by lia. split; [lia|].
        replace (size + (ao - off + vs)) with no by (unfold no; lia).
        unfold align_if. destruct (Z.ltb_spec (tr_align (psz p) (pal p)) S0) as [Hlt|Hge]; [lia|].
        (* trailing alignment >= storage alignment: the end is already storage-aligned *)
        unfold tr_align in Hge.
        destruct (lowbit_spec (psz p) Hs) as [Hlp Hld].
        assert (HpS : pal p = S0) by lia.
        assert (HSpsz : (S0 | psz p)).
        { eapply Z.divide_trans; [|exact Hld]. apply pow2_divide; auto. lia. }
        assert (HSno : (S0 | no)).
        { replace no with ((a' + c * psz p) - a) by lia. apply Z.divide_sub_r; auto.
          apply Z.divide_add_r; [rewrite <- HpS; exact Hal'|apply Z.divide_mul_r; exact HSpsz]. }
        rewrite align_up_id by auto. lia.
      + specialize (IH (S k) (tl fc) cnts st' t (size + (ao - off + vs)) no
                       (align_if (tr_align (psz p) (pal p) <? next_al L0 k) (next_al L0 k) no - no) a HwL).
        cbv zeta in IH.
        destruct IH as [IH _]; auto.
        * intros r Hr. apply Hnv. right; exact Hr.
        * unfold no. lia.
        * intros j Hj. specialize (Hpv (S j) ltac:(cbn [length] in *; lia)).
          replace (S k + j)%nat with (k + S j)%nat by lia. rewrite Hpv. cbn [trails_from]. rewrite Ets. reflexivity.
        * cbn [length] in *. lia.
        * unfold no. lia.
        * specialize (IH ltac:(discriminate)).
          destruct (place_from (q :: L') (t :: trails_from (q :: L') st') cnts (a + no)) as [rr e] eqn:Ep.
          cbn [fst snd] in *. exact IH.
  Qed.

  Hypothesis Hnovar : has_varying L0 = false.

  Lemma novar_all p : In p L0 -> is_varying p = false /\ pal p <= S0 /\ (pal p | S0).
  Proof.
    intros Hp. split; [|split; [apply SA_ge; auto|apply SA_div; auto]].
    unfold has_varying in Hnovar. destruct (is_varying p) eqn:E; [|reflexivity].
    exfalso. assert (existsb is_varying L0 = true) by (apply existsb_exists; eauto). congruence.
  Qed.

  (* size and stride computed by the library vs. the placement of an element *)
  Theorem esize_spec fixed cnts a :
    cnts_match L0 (fixed_counts L0 fixed) cnts -> 0 <= a -> (S0 | a) ->
    fst (esize L0 fixed) = snd (place L0 cnts a) - a /\
    snd (esize L0 fixed) = align_up (snd (place L0 cnts a) - a) S0.
  Proof.
    intros Hcm Ha HaS. unfold esize, place, prevs, trails.
    pose proof (esize_from_spec L0 0%nat (fixed_counts L0 fixed) cnts (0, S0) S0 0 0 0 a HF0 novar_all Hcm) as H.
    cbv zeta in H. rewrite Z.add_0_r in H.
    assert (HI : Inv (0, S0) S0 a) by (apply Inv_init; auto).
    assert (Hpv : forall j, (j <= length L0)%nat -> prev_tr L0 (0 + j) = nth j (S0 :: trails_from L0 (0, S0)) 0).
    { intros j Hj. unfold prev_tr, trails. destruct j; reflexivity. }
    destruct (H HI Ha HaS ltac:(lia) Hpv ltac:(lia) eq_refl) as [H1 _].
    exact (H1 Hne0).
  Qed.
End Esize.

(* tuples of an all-fixed list have the counts the fixed sizes dictate *)
Lemma tuple_ok_cnts_match L : forall fc prevc t,
  (forall p, In p L -> is_varying p = false) ->
  tuple_ok L fc prevc t -> cnts_match L fc (cnts_of t).
Proof.
  induction L as [|p L IH]; intros fc prevc t Hnv H.
  - destruct t; [exact I|destruct fc; contradiction].
  - destruct fc as [|c fc]; [contradiction|]. destruct t as [|f t]; [contradiction|].
    destruct H as (Ho & Hc & Ht). cbn [cnts_of map cnts_match hd tl].
    split; [|split; [lia|]].
    + rewrite Hc. pose proof (Hnv p ltac:(left; reflexivity)) as Hv. unfold is_varying in Hv.
      destruct (pk p); cbn [kind_eqb] in Hv; try discriminate; reflexivity.
    + eapply IH; eauto. intros q Hq. apply Hnv. right; exact Hq.
Qed.

Lemma fixed_counts_length L : forall fixed, length (fixed_counts L fixed) = length L.
Proof. induction L as [|p L IH]; intros fixed; cbn [fixed_counts length]; [reflexivity|]. destruct (is_fixed p); cbn [length]; f_equal; apply IH. Qed.

(* canonical object counts of an all-fixed list *)
Fixpoint canon_cnts (L : list param) (fc : list Z) : list Z :=
  match L with
  | [] => []
  | p :: L' => (match pk p with Plain => 1 | _ => hd 0 fc end) :: canon_cnts L' (tl fc)
  end.

Lemma canon_cnts_match L : forall fc, Forall (fun c => 0 <= c) fc -> (length L <= length fc)%nat ->
  cnts_match L fc (canon_cnts L fc).
Proof.
  induction L as [|p L IH]; intros fc Hfc Hl; cbn [canon_cnts cnts_match]; [exact I|].
  destruct fc as [|c fc]; [cbn in Hl; lia|]. inversion Hfc; subst. cbn [hd tl].
  split; [reflexivity|]. split; [destruct (pk p); lia|]. apply IH; auto. cbn in Hl. lia.
Qed.

(* the stride the library computes satisfies [stride_ok] *)
Theorem esize_stride_ok L fixed : wf_plist L = true -> has_varying L = false ->
  Forall (fun c => 0 <= c) (fixed_counts L fixed) ->
  stride_ok L (fixed_counts L fixed) (snd (esize L fixed)).
Proof.
  intros Hwf Hnv Hfc.
  pose proof (wf_plist_Forall _ Hwf) as HF. pose proof (wf_plist_nonempty _ Hwf) as Hne.
  pose proof (pow2_pos _ (SA_pow2 L HF Hne)) as HSp.
  assert (Hall : forall p, In p L -> is_varying p = false).
  { intros p Hp. apply (novar_all L Hwf Hnv p Hp). }
  (* the stride, seen through the canonical count vector at address 0 *)
  destruct (esize_spec L Hwf Hnv fixed (canon_cnts L (fixed_counts L fixed)) 0) as [_ E0]; auto; try lia.
  { apply canon_cnts_match; auto. rewrite fixed_counts_length. lia. }
  { apply Z.divide_0_r. }
  assert (Hge0 : 0 <= snd (place L (canon_cnts L (fixed_counts L fixed)) 0)).
  { unfold place. apply place_from_end_ge; auto.
    pose proof (canon_cnts_match L (fixed_counts L fixed) Hfc ltac:(rewrite fixed_counts_length; lia)) as Hm.
    clear - Hm. revert Hm. generalize (fixed_counts L fixed). induction L as [|p L IH]; intros fc Hm; cbn [canon_cnts] in *; constructor.
    - cbn [cnts_match] in Hm. tauto.
    - cbn [cnts_match] in Hm. apply (IH (tl fc)). tauto. }
  split; [|split].
  - rewrite E0. pose proof (align_up_ge (snd (place L (canon_cnts L (fixed_counts L fixed)) 0) - 0) (SA L) HSp). lia.
  - rewrite E0. apply align_up_div; auto.
  - intros t a Ht Ha HaS.
    destruct (esize_spec L Hwf Hnv fixed (cnts_of t) a) as [_ E]; auto.
    { eapply tuple_ok_cnts_match; eauto. }
    pose proof (first_align_end L (cnts_of t) a Hwf (tuple_ok_cnt_ok L _ _ t Ht) Ha HaS) as (_ & _ & Efa).
    cbv zeta in Efa.
    unfold elem_end. rewrite E.
    pose proof (align_up_ge (snd (place L (cnts_of t) a) - a) (SA L) HSp). split; [lia|].
    rewrite Efa. replace (snd (place L (cnts_of t) a)) with (snd (place L (cnts_of t) a) - a + a) at 1 by lia.
    rewrite align_up_shift by auto. lia.
Qed.

(* C05 (ii): an element of a list without VaryingSize parameter occupies exactly [size]
   bytes, and the stride is the least multiple of the storage alignment >= size *)
Theorem esize_exact L fixed t a : wf_plist L = true -> has_varying L = false ->
  tuple_ok L (fixed_counts L fixed) 0 t -> 0 <= a -> (SA L | a) ->
  elem_end L a t = a + fst (esize L fixed) /\
  snd (esize L fixed) = align_up (fst (esize L fixed)) (SA L).
Proof.
  intros Hwf Hnv Ht Ha HaS.
  assert (Hall : forall p, In p L -> is_varying p = false).
  { intros p Hp. apply (novar_all L Hwf Hnv p Hp). }
  destruct (esize_spec L Hwf Hnv fixed (cnts_of t) a) as [E1 E2]; auto.
  { eapply tuple_ok_cnts_match; eauto. }
  unfold elem_end. rewrite E2, E1. split; [lia|reflexivity].
Qed.

Lemma fixed_counts_nonneg L : forall fixed, Forall (fun c => 0 <= c) fixed ->
  Forall (fun c => 0 <= c) (fixed_counts L fixed).
Proof.
  induction L as [|p L IH]; intros fixed H; cbn [fixed_counts]; [constructor|].
  destruct (is_fixed p).
  - constructor; [destruct H; cbn; lia|]. apply IH. destruct H; cbn; auto.
  - constructor; [lia|]. apply IH; auto.
Qed.
