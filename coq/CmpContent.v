(* CmpContent.v — equality of element references is equality of logical content (C13):
   for every well-formed parameter list, two elements stored anywhere (any memory, any
   junk around them) compare equal with the library's operator== exactly when they hold
   the same tuple.  The proof goes through the structure of the run table (RunsThm):
   a run compared byte-wise contains no alignment padding and at most one span, at its
   end, so its bytes are the concatenation of its fields' bytes. *)
From Coq Require Import ZArith List Bool Lia.
From Cntgs Require Import Base BaseLemmas Layout LayoutThm Mem MemLemmas Vector Proxy Spec Rep ElemLemmas Ordered Refine
     CompareThm RunsThm ElemThm.
Import ListNotations.
Local Open Scope Z_scope.

(* ---------- addresses of the fields of an element ---------- *)
Lemma place_from_nth0 L pv cnts a p pt c :
  fst (place_from (p :: L) (pt :: pv) (c :: cnts) a) =
  align_if (pt <? pal p) (pal p) a :: fst (place_from L pv cnts (align_if (pt <? pal p) (pal p) a + c * psz p)).
Proof.
  cbn [place_from]. destruct (place_from L pv cnts _) as [r e]. reflexivity.
Qed.

Lemma place_from_nth_succ : forall L pv cnts a j,
  (S j < length L)%nat -> (length L <= length pv)%nat -> length cnts = length L ->
  let A := fst (place_from L pv cnts a) in
  nth (S j) A 0 =
    align_if (nth (S j) pv 0 <? pal (nth (S j) L pparam0)) (pal (nth (S j) L pparam0))
             (nth j A 0 + nth j cnts 0 * psz (nth j L pparam0)).
Proof.
  induction L as [|p L IH]; intros pv cnts a j Hj Hpv Hc; [cbn [length] in Hj; lia|].
  destruct pv as [|pt pv]; [cbn [length] in Hpv; lia|]. destruct cnts as [|c cnts]; [discriminate|].
  cbv zeta. rewrite place_from_nth0.
  set (a' := align_if (pt <? pal p) (pal p) a).
  destruct j as [|j].
  - (* field 1 follows field 0 *)
    destruct L as [|q L]; [cbn [length] in Hj; lia|].
    destruct pv as [|qt pv]; [cbn [length] in Hpv; lia|]. destruct cnts as [|d cnts]; [discriminate|].
    rewrite place_from_nth0. cbn [nth]. reflexivity.
  - cbn [nth]. specialize (IH pv cnts (a' + c * psz p) j).
    cbv zeta in IH. apply IH; cbn [length] in *; lia.
Qed.

(* every field of a stored element holds the bytes of the tuple's field *)
Lemma elem_from_field : forall L pv m a t j,
  elem_from L pv m a t -> (j < length L)%nat -> (length L <= length pv)%nat ->
  mread m (nth j (fst (place_from L pv (cnts_of t) a)) 0) (length (concat (nth j t []))) = concat (nth j t []).
Proof.
  induction L as [|p L IH]; intros pv m a t j H Hj Hpv; [cbn [length] in Hj; lia|].
  destruct pv as [|pt pv]; [cbn [length] in Hpv; lia|]. destruct t as [|f t]; [contradiction|].
  cbn [elem_from] in H. destruct H as [H1 H2].
  cbn [cnts_of map]. fold (cnts_of t). rewrite place_from_nth0.
  destruct j as [|j]; cbn [nth]; [exact H1|].
  apply IH; [exact H2|cbn [length] in *; lia|cbn [length] in *; lia].
Qed.

(* per-field consequences of tuple_ok *)
Lemma tuple_ok_field : forall L fc prevc t j, tuple_ok L fc prevc t -> (j < length L)%nat ->
  objs_ok (nth j L pparam0) (nth j t []) /\
  (pk (nth j L pparam0) = Plain -> length (nth j t []) = 1%nat).
Proof.
  induction L as [|p L IH]; intros fc prevc t j H Hj; [cbn [length] in Hj; lia|].
  destruct fc as [|c fc]; [contradiction|]. destruct t as [|f t]; [contradiction|].
  destruct H as (Ho & Hc & Ht).
  destruct j as [|j]; cbn [nth].
  - split; [exact Ho|]. intros Hp. rewrite Hp in Hc. lia.
  - eapply IH; [exact Ht|cbn [length] in Hj; lia].
Qed.

Lemma nth_cnts_of t j : nth j (cnts_of t) 0 = Z.of_nat (length (nth j t [])).
Proof.
  unfold cnts_of. revert j. induction t as [|f t IH]; intros [|j]; cbn [map nth length]; auto.
Qed.

(* ---------- the bytes of a run without padding ---------- *)
Section RunBytes.
  Variable L : list param.
  Hypothesis Hwf : wf_plist L = true.
  Variables (m : mem) (a : Z) (t : tuple) (fc : list Z).
  Hypothesis Ht : tuple_ok L fc 0 t.
  Hypothesis He : elem_at L m a t.

  Let HF : Forall wfp L := wf_plist_Forall L Hwf.
  Let A := fst (place L (cnts_of t) a).
  Definition fb (t' : tuple) (j : nat) : list Z := concat (nth j t' []).

  Lemma Hpvlen : (length L <= length (prevs L))%nat.
  Proof. rewrite (prevs_length L). lia. Qed.
  Lemma Hclen : length (cnts_of t) = length L.
  Proof. unfold cnts_of. rewrite map_length. eapply tuple_ok_length; eauto. Qed.

  Lemma psz_pos j : (j < length L)%nat -> 0 < psz (nth j L pparam0).
  Proof.
    intros Hj. rewrite Forall_forall in HF. destruct (HF (nth j L pparam0)); [apply nth_In; exact Hj|assumption].
  Qed.

  Lemma fb_len j : (j < length L)%nat ->
    Z.of_nat (length (fb t j)) = nth j (cnts_of t) 0 * psz (nth j L pparam0).
  Proof.
    intros Hj. unfold fb. rewrite nth_cnts_of.
    apply concat_length_objs; [apply psz_pos; exact Hj|].
    exact (proj1 (tuple_ok_field L fc 0 t j Ht Hj)).
  Qed.

  Lemma field_bytes j : (j < length L)%nat -> mread m (nth j A 0) (length (fb t j)) = fb t j.
  Proof.
    intros Hj. unfold fb, A, place. apply elem_from_field; [exact He|exact Hj|exact Hpvlen].
  Qed.

  Lemma concat_map_snoc {X} (f : nat -> list X) xs y :
    concat (map f (xs ++ [y])) = concat (map f xs) ++ f y.
  Proof. rewrite map_app, concat_app. cbn [map concat]. rewrite app_nil_r. reflexivity. Qed.

  (* the bytes from the begin of field k to the end of field k+d, when no field behind k is
     preceded by an alignment step *)
  Lemma run_span : forall d k, (k + d < length L)%nat ->
    (forall j, (k < j <= k + d)%nat -> (nth j (prevs L) 0 <? pal (nth j L pparam0)) = false) ->
    nth (k + d) A 0 + nth (k + d) (cnts_of t) 0 * psz (nth (k + d) L pparam0)
      = nth k A 0 + Z.of_nat (length (concat (map (fb t) (seq k (S d))))) /\
    mread m (nth k A 0) (length (concat (map (fb t) (seq k (S d))))) = concat (map (fb t) (seq k (S d))).
  Proof.
    induction d as [|d IH]; intros k Hk Hnp.
    - rewrite Nat.add_0_r. cbn [seq map concat]. rewrite app_nil_r. split.
      + rewrite fb_len by lia. reflexivity.
      + apply field_bytes. lia.
    - assert (Hk' : (k + d < length L)%nat) by lia.
      destruct (IH k Hk' ltac:(intros j Hj; apply Hnp; lia)) as [IH1 IH2].
      rewrite seq_S, concat_map_snoc, app_length.
      set (pre := concat (map (fb t) (seq k (S d)))) in *.
      assert (Hnext : nth (S (k + d)) A 0 = nth k A 0 + Z.of_nat (length pre)).
      { unfold A, place. rewrite place_from_nth_succ; [|lia|exact Hpvlen|exact Hclen].
        rewrite (Hnp (S (k + d))) by lia. unfold align_if. fold (place L (cnts_of t) a). fold A. exact IH1. }
      replace (k + S d)%nat with (S (k + d)) by lia. split.
      + rewrite Hnext, Nat2Z.inj_add, (fb_len (S (k + d))) by lia. lia.
      + rewrite mread_app, IH2. f_equal. rewrite <- Hnext. apply field_bytes. lia.
  Qed.

  (* what a reference to the element holds *)
  Let fl := ref_fl L t a.

  Lemma nth_fl j : (j < length L)%nat -> nth j fl fld0 = (nth j A 0, nth j (cnts_of t) 0).
  Proof.
    intros Hj. unfold fl, ref_fl. fold A.
    assert (Hl : length A = length (cnts_of t)).
    { unfold A, place. rewrite place_from_fst_length; [symmetry; exact Hclen|exact Hpvlen|exact Hclen]. }
    rewrite (nth_indep _ fld0 (0, 0)) by (rewrite combine_length, Hl, Nat.min_id, Hclen; exact Hj).
    apply combine_nth. exact Hl.
  Qed.

  Lemma run_bytes_spec k e : (k <= e < length L)%nat ->
    (forall j, (k < j <= e)%nat -> (nth j (prevs L) 0 <? pal (nth j L pparam0)) = false) ->
    run_bytes L m fl k e = concat (map (fb t) (seq k (S (e - k)))).
  Proof.
    intros Hke Hnp. unfold run_bytes. rewrite !nth_fl by lia. unfold fend. cbn [fst snd].
    destruct (run_span (e - k) k ltac:(lia) ltac:(intros j Hj; apply Hnp; lia)) as [H1 H2].
    replace (k + (e - k))%nat with e in H1 by lia.
    rewrite H1. replace (nth k A 0 + Z.of_nat _ - nth k A 0) with (Z.of_nat (length (concat (map (fb t) (seq k (S (e - k))))))) by lia.
    rewrite Nat2Z.id. exact H2.
  Qed.

  Lemma fld_objs_spec j : (j < length L)%nat -> fld_objs L m fl j = nth j t [].
  Proof.
    intros Hj. unfold fld_objs. rewrite nth_fl by exact Hj. rewrite nth_cnts_of.
    apply read_objs_concat.
    - apply psz_pos. exact Hj.
    - exact (proj1 (tuple_ok_field L fc 0 t j Ht Hj)).
    - apply field_bytes. exact Hj.
  Qed.
End RunBytes.

(* ---------- equal bytes of a run = equal fields ---------- *)
Lemma concat_chunks_inj (s : nat) : (0 < s)%nat -> forall f1 f2 : list (list Z),
  Forall (fun o => length o = s) f1 -> Forall (fun o => length o = s) f2 ->
  concat f1 = concat f2 -> f1 = f2.
Proof.
  intros Hs. induction f1 as [|x f1 IH]; intros [|y f2] H1 H2 Hc; [reflexivity| | |].
  - exfalso. apply Forall_inv in H2. cbn [concat] in Hc.
    destruct y as [|z y]; [cbn [length] in H2; lia|discriminate].
  - exfalso. apply Forall_inv in H1. cbn [concat] in Hc.
    destruct x as [|z x]; [cbn [length] in H1; lia|discriminate].
  - pose proof (Forall_inv H1) as Hx. pose proof (Forall_inv H2) as Hy.
    pose proof (Forall_inv_tail H1) as H1'. pose proof (Forall_inv_tail H2) as H2'.
    cbn [concat] in Hc. apply app_eq_len in Hc; [|cbn beta in *; congruence]. destruct Hc as [-> Hc].
    f_equal. apply IH; assumption.
Qed.

(* no floating-point field *)
Definition noflt (L : list param) : Prop := forall j, (j < length L)%nat -> pty (nth j L pparam0) <> TFlt.

Section TwoOperands.
  Variable L : list param.
  Hypothesis Hwf : wf_plist L = true.
  Variables (t1 t2 : tuple) (fc1 fc2 : list Z).
  Hypothesis Ht1 : tuple_ok L fc1 0 t1.
  Hypothesis Ht2 : tuple_ok L fc2 0 t2.

  Let HF : Forall wfp L := wf_plist_Forall L Hwf.

  Lemma field_eq_of_bytes j : (j < length L)%nat -> fb t1 j = fb t2 j -> nth j t1 [] = nth j t2 [].
  Proof.
    intros Hj Hb. unfold fb in Hb.
    pose proof (psz_pos L Hwf j Hj) as Hp.
    apply (concat_chunks_inj (Z.to_nat (psz (nth j L pparam0)))); [lia| | |exact Hb].
    - exact (proj1 (tuple_ok_field L fc1 0 t1 j Ht1 Hj)).
    - exact (proj1 (tuple_ok_field L fc2 0 t2 j Ht2 Hj)).
  Qed.

  Lemma plain_field_len (t : tuple) fc j : tuple_ok L fc 0 t -> (j < length L)%nat ->
    is_plain (nth j L pparam0) = true -> length (fb t j) = Z.to_nat (psz (nth j L pparam0)).
  Proof.
    intros Ht Hj Hpl. destruct (tuple_ok_field L fc 0 t j Ht Hj) as [Ho H1].
    unfold is_plain in Hpl. destruct (pk (nth j L pparam0)) eqn:E; try discriminate.
    specialize (H1 eq_refl). unfold fb. destruct (nth j t []) as [|o [|o' r]]; cbn [length] in H1; try lia.
    inversion Ho as [|? ? Hol _]; subst. cbn [concat]. rewrite app_nil_r. exact Hol.
  Qed.

  (* equal bytes of a run whose fields - except possibly the last - are plain: every field
     of the run is equal *)
  Lemma run_fields_eq : forall d k, (k + d < length L)%nat ->
    (forall j, (k <= j < k + d)%nat -> is_plain (nth j L pparam0) = true) ->
    concat (map (fb t1) (seq k (S d))) = concat (map (fb t2) (seq k (S d))) ->
    forall j, (k <= j <= k + d)%nat -> nth j t1 [] = nth j t2 [].
  Proof.
    induction d as [|d IH]; intros k Hk Hpl Hc j Hj.
    - cbn [seq map concat] in Hc. rewrite !app_nil_r in Hc.
      assert (j = k) by lia. subst j. apply field_eq_of_bytes; [lia|exact Hc].
    - change (seq k (S (S d))) with (k :: seq (S k) (S d)) in Hc. cbn [map concat] in Hc.
      apply app_eq_len in Hc.
      + destruct Hc as [Hk1 Hrest]. destruct (Nat.eq_dec j k) as [->|Hne].
        * apply field_eq_of_bytes; [lia|exact Hk1].
        * apply (IH (S k)); [lia| |exact Hrest|lia]. intros i Hi. apply Hpl. lia.
      + rewrite (plain_field_len t1 fc1 k Ht1) by (try lia; apply Hpl; lia).
        rewrite (plain_field_len t2 fc2 k Ht2) by (try lia; apply Hpl; lia). reflexivity.
  Qed.

  Variables (m1 m2 : mem) (a1 a2 : Z).
  Hypothesis He1 : elem_at L m1 a1 t1.
  Hypothesis He2 : elem_at L m2 a2 t2.

  (* field-wise content equivalence: each field's objects are equal under the value type's own
     == (identity of the object representations, except floating point) *)
  Definition tuple_eqv : Prop :=
    forall j, (j < length L)%nat -> span_eq (pty (nth j L pparam0)) (nth j t1 []) (nth j t2 []) = true.

  Lemma eqm_not_flt p : eqm p = true -> pty p <> TFlt.
  Proof. unfold eqm. destruct (pty p); congruence. Qed.

  Theorem elem_equal_content_eqv :
    elem_equal L m1 (ref_fl L t1 a1) m2 (ref_fl L t2 a2) = true <-> tuple_eqv.
  Proof.
    destruct (runs_eq_structure L) as [Hcov [Hs1 Hs2]].
    pose proof (runs_tight eqm true true L) as Htight. fold (runs_eq L) in Htight.
    split.
    - intros H. unfold elem_equal in H. rewrite forallb_forall in H.
      intros j Hj. destruct (Hcov j Hj) as [Hm | (k & e & Hke & Hk)].
      + specialize (H j ltac:(apply in_seq; lia)). unfold equal_one in H. rewrite Hm in H.
        rewrite (fld_objs_spec L Hwf m1 a1 t1 fc1 Ht1 He1 j Hj) in H.
        rewrite (fld_objs_spec L Hwf m2 a2 t2 fc2 Ht2 He2 j Hj) in H.
        exact H.
      + destruct (Hs1 _ _ Hk) as [Hb _]. destruct (Htight _ _ Hk) as [Tpad Tplain].
        specialize (H k ltac:(apply in_seq; lia)). unfold equal_one in H. rewrite Hk in H.
        rewrite (run_bytes_spec L Hwf m1 a1 t1 fc1 Ht1 He1 k e ltac:(lia)) in H
          by (intros i Hi; apply Tpad; [exact Hi|reflexivity]).
        rewrite (run_bytes_spec L Hwf m2 a2 t2 fc2 Ht2 He2 k e ltac:(lia)) in H
          by (intros i Hi; apply Tpad; [exact Hi|reflexivity]).
        apply list_eqb_eq in H.
        rewrite (run_fields_eq (e - k) k ltac:(lia) ltac:(intros i Hi; apply Tplain; [lia|reflexivity]) H j ltac:(lia)).
        apply span_eq_refl.
    - intros E. unfold elem_equal. apply forallb_forall. intros k Hk. apply in_seq in Hk.
      unfold equal_one. destruct (nth k (runs_eq L) RSkip) as [| |e] eqn:Ek; [reflexivity| |].
      + rewrite (fld_objs_spec L Hwf m1 a1 t1 fc1 Ht1 He1 k ltac:(lia)).
        rewrite (fld_objs_spec L Hwf m2 a2 t2 fc2 Ht2 He2 k ltac:(lia)).
        apply E. lia.
      + destruct (Hs1 _ _ Ek) as [Hb Hpred]. destruct (Htight _ _ Ek) as [Tpad _].
        rewrite (run_bytes_spec L Hwf m1 a1 t1 fc1 Ht1 He1 k e ltac:(lia))
          by (intros i Hi; apply Tpad; [exact Hi|reflexivity]).
        rewrite (run_bytes_spec L Hwf m2 a2 t2 fc2 Ht2 He2 k e ltac:(lia))
          by (intros i Hi; apply Tpad; [exact Hi|reflexivity]).
        apply list_eqb_eq. f_equal. apply map_ext_in. intros i Hi. apply in_seq in Hi.
        unfold fb. f_equal.
        apply (span_eq_eq (pty (nth i L pparam0))); [apply eqm_not_flt; apply Hpred; lia|apply E; lia].
  Qed.

  (* without floating-point fields equivalence is identity *)
  Hypothesis Hnf : noflt L.

  Lemma tuple_eqv_eq : tuple_eqv <-> t1 = t2.
  Proof.
    split.
    - intros E. apply (nth_ext _ _ [] []).
      + rewrite (tuple_ok_length L fc1 0 t1 Ht1), (tuple_ok_length L fc2 0 t2 Ht2). reflexivity.
      + intros j Hj. rewrite (tuple_ok_length L fc1 0 t1 Ht1) in Hj.
        apply (span_eq_eq (pty (nth j L pparam0)) (Hnf j Hj)). apply E. exact Hj.
    - intros E j Hj. rewrite E. apply span_eq_refl.
  Qed.

  Theorem elem_equal_content :
    elem_equal L m1 (ref_fl L t1 a1) m2 (ref_fl L t2 a2) = true <-> t1 = t2.
  Proof. rewrite elem_equal_content_eqv. exact tuple_eqv_eq. Qed.
End TwoOperands.

(* ---------- lifted to vectors: references into vectors that represent lists of tuples ---------- *)
Lemma Forall2_nth_ {X Y} (P : X -> Y -> Prop) : forall (l1 : list X) (l2 : list Y) d1 d2 i,
  Forall2 P l1 l2 -> (i < length l1)%nat -> P (nth i l1 d1) (nth i l2 d2).
Proof.
  induction l1 as [|x l1 IH]; intros l2 d1 d2 i H Hi; [cbn [length] in Hi; lia|].
  inversion H as [|? y ? l2' Hxy Hr]; subst. destruct i as [|i]; cbn [nth]; [exact Hxy|].
  apply IH; [exact Hr|cbn [length] in Hi; lia].
Qed.

Section VectorLevel.
  Variable L : list param.
  Hypothesis Hwf : wf_plist L = true.

  Let HF : Forall wfp L := wf_plist_Forall L Hwf.

  Lemma rep_ref v l offs i : RepO L v l offs -> (i < length l)%nat ->
    tuple_ok L (fixed_counts L (v_fixed v)) 0 (nth i l []) /\
    elem_at L (v_mem v) (nth i offs 0) (nth i l []) /\
    vfl L v (Z.of_nat i) = ref_fl L (nth i l []) (nth i offs 0).
  Proof.
    intros R Hi.
    pose proof (eo_length _ _ _ _ _ (r_order _ _ _ _ R)) as Hlen.
    assert (Ht : tuple_ok L (fixed_counts L (v_fixed v)) 0 (nth i l [])).
    { pose proof (r_tuples _ _ _ _ R) as H. rewrite Forall_forall in H. apply H. apply nth_In. exact Hi. }
    assert (He : elem_at L (v_mem v) (nth i offs 0) (nth i l [])).
    { apply (Forall2_nth_ _ offs l 0 [] i (r_elems _ _ _ _ R)). lia. }
    split; [exact Ht|]. split; [exact He|].
    unfold vfl. rewrite (rep_eaddr L v l offs i R Hi). unfold load.
    rewrite (load_from_spec L (prevs L) _ (v_mem v) _ (nth i l []) 0 0 false); auto.
    - apply wf_plist_varying. exact Hwf.
    - destruct L; auto.
  Qed.

  (* lists without floating-point fields: equality of content is identity of the tuples (with
     them it is the field-wise equivalence of elem_equal_content_eqv) *)
  Hypothesis Hnf : noflt L.

  Theorem ref_equal_content v1 l1 v2 l2 i j : Rep L v1 l1 -> Rep L v2 l2 ->
    (i < length l1)%nat -> (j < length l2)%nat ->
    (ref_equal L v1 (Z.of_nat i) v2 (Z.of_nat j) = true <-> nth i l1 [] = nth j l2 []).
  Proof.
    intros [o1 R1] [o2 R2] Hi Hj.
    destruct (rep_ref v1 l1 o1 i R1 Hi) as (Ht1 & He1 & Hf1).
    destruct (rep_ref v2 l2 o2 j R2 Hj) as (Ht2 & He2 & Hf2).
    unfold ref_equal. rewrite Hf1, Hf2.
    eapply elem_equal_content; eauto.
  Qed.

  (* the element-wise path of vector == (four-iterator std::equal) *)
  Theorem elems_equal_content v1 l1 v2 l2 : Rep L v1 l1 -> Rep L v2 l2 ->
    (elems_equal L v1 v2 = true <-> l1 = l2).
  Proof.
    intros Rp1 Rp2. pose proof Rp1 as [o1 R1]. pose proof Rp2 as [o2 R2].
    unfold elems_equal. rewrite (rep_vsize L v1 l1 o1 R1), (rep_vsize L v2 l2 o2 R2).
    rewrite andb_true_iff, Z.eqb_eq, forallb_forall, Nat2Z.id. split.
    - intros [Hlen Hall]. apply Nat2Z.inj in Hlen. apply (nth_ext _ _ [] []); [exact Hlen|].
      intros i Hi. assert (Hi2 : (i < length l2)%nat) by (rewrite <- Hlen; exact Hi).
      apply (ref_equal_content v1 l1 v2 l2 i i Rp1 Rp2 Hi Hi2).
      apply Hall. apply in_seq. lia.
    - intros ->. split; [reflexivity|]. intros i Hi. apply in_seq in Hi.
      apply (ref_equal_content v1 l2 v2 l2 i i Rp1 Rp2); [lia|lia|reflexivity].
  Qed.

  (* vector ==, whenever it takes the element-wise path: lists whose value types are not all
     memcmp-able or that may contain padding, or operands with different fixed sizes *)
  Theorem vec_equal_content_elementwise v1 l1 v2 l2 : Rep L v1 l1 -> Rep L v2 l2 ->
    (forallb eqm L && padfree L && list_eqb (v_fixed v1) (v_fixed v2)) = false ->
    (vec_equal L v1 v2 = true <-> l1 = l2).
  Proof.
    intros R1 R2 Hc. unfold vec_equal. rewrite Hc. apply elems_equal_content; assumption.
  Qed.
End VectorLevel.

Lemma forallb_ext_in_ {X} (f g : X -> bool) l : (forall x, In x l -> f x = g x) -> forallb f l = forallb g l.
Proof.
  induction l as [|x l IH]; intros H; [reflexivity|]. cbn [forallb].
  rewrite (H x (or_introl eq_refl)), IH; [reflexivity|]. intros y Hy. apply H. right. exact Hy.
Qed.

(* ---------- operator< depends on the contents only (C14) ---------- *)
(* the element-level < computed from the TUPLES alone: same run table, the bytes of a run are
   the concatenated bytes of its fields *)
Definition tuple_less_one (L : list param) (t1 t2 : tuple) (k : nat) : bool :=
  match nth k (runs_lex L) RSkip with
  | RSkip => true
  | RManual => span_lt (pty (nth k L pparam0)) (nth k t1 []) (nth k t2 [])
  | REnd e => lex_lt (concat (map (fb t1) (seq k (S (e - k))))) (concat (map (fb t2) (seq k (S (e - k)))))
  end.
Definition tuple_less (L : list param) (t1 t2 : tuple) : bool :=
  forallb (tuple_less_one L t1 t2) (seq 0 (length L)).

Section LessContent.
  Variable L : list param.
  Hypothesis Hwf : wf_plist L = true.
  Variables (t1 t2 : tuple) (fc1 fc2 : list Z) (m1 m2 : mem) (a1 a2 : Z).
  Hypothesis Ht1 : tuple_ok L fc1 0 t1.
  Hypothesis Ht2 : tuple_ok L fc2 0 t2.
  Hypothesis He1 : elem_at L m1 a1 t1.
  Hypothesis He2 : elem_at L m2 a2 t2.

  Theorem elem_less_content :
    elem_less L m1 (ref_fl L t1 a1) m2 (ref_fl L t2 a2) = tuple_less L t1 t2.
  Proof.
    destruct (runs_lex_structure L) as [_ [Hs1 _]].
    pose proof (runs_tight lxm true false L) as Htight. fold (runs_lex L) in Htight.
    unfold elem_less, tuple_less. apply forallb_ext_in_. intros k Hk. apply in_seq in Hk.
    unfold less_one, tuple_less_one. destruct (nth k (runs_lex L) RSkip) as [| |e] eqn:Ek; [reflexivity| |].
    - rewrite (fld_objs_spec L Hwf m1 a1 t1 fc1 Ht1 He1 k ltac:(lia)).
      rewrite (fld_objs_spec L Hwf m2 a2 t2 fc2 Ht2 He2 k ltac:(lia)). reflexivity.
    - destruct (Hs1 _ _ Ek) as [Hb _]. destruct (Htight _ _ Ek) as [Tpad _].
      rewrite (run_bytes_spec L Hwf m1 a1 t1 fc1 Ht1 He1 k e ltac:(lia))
        by (intros i Hi; apply Tpad; [exact Hi|reflexivity]).
      rewrite (run_bytes_spec L Hwf m2 a2 t2 fc2 Ht2 He2 k e ltac:(lia))
        by (intros i Hi; apply Tpad; [exact Hi|reflexivity]).
      reflexivity.
  Qed.
End LessContent.

(* a == b implies neither a < b nor b < a, wherever and in whatever memory the operands live *)
Lemma span_eq_not_lt t : forall a b, span_eq t a b = true -> span_lt t a b = false.
Proof.
  induction a as [|x a IH]; intros [|y b]; cbn [span_eq span_lt]; try congruence.
  intros H. apply andb_true_iff in H. destruct H as [Ho Hs].
  destruct (obj_lt t x y) eqn:E1; [apply obj_lt_not_eq in E1; congruence|].
  destruct (obj_lt t y x) eqn:E2; [apply obj_lt_not_eq in E2; rewrite obj_eq_sym in E2; congruence|].
  apply IH. exact Hs.
Qed.

Lemma lxm_not_flt p : lxm p = true -> pty p <> TFlt.
Proof. unfold lxm. destruct (pty p); congruence. Qed.

Lemma eqv_tuples_not_less L : L <> [] -> forall t1 t2,
  (forall j, (j < length L)%nat -> span_eq (pty (nth j L pparam0)) (nth j t1 []) (nth j t2 []) = true) ->
  tuple_less L t1 t2 = false.
Proof.
  intros HL t1 t2 E. apply not_true_iff_false. intros H. unfold tuple_less in H. rewrite forallb_forall in H.
  specialize (H O (in_seq0_len L HL)). unfold tuple_less_one in H.
  pose proof (runs_first_not_skip lxm true false L HL) as Hns. fold (runs_lex L) in Hns. unfold not_skip in Hns.
  assert (H0 : (0 < length L)%nat) by (destruct L; [congruence|cbn [length]; lia]).
  destruct (nth 0 (runs_lex L) RSkip) as [| |e] eqn:Ek; [congruence| |].
  - rewrite (span_eq_not_lt _ _ _ (E O H0)) in H. discriminate.
  - destruct (runs_lex_structure L) as [_ [Hs1 _]]. destruct (Hs1 _ _ Ek) as [Hb Hpred].
    assert (Hsame : map (fb t1) (seq 0 (S (e - 0))) = map (fb t2) (seq 0 (S (e - 0)))).
    { apply map_ext_in. intros i Hi. apply in_seq in Hi. unfold fb. f_equal.
      apply (span_eq_eq (pty (nth i L pparam0))); [apply lxm_not_flt; apply Hpred; lia|apply E; lia]. }
    rewrite Hsame, lex_lt_irrefl in H. discriminate.
Qed.

Theorem equal_elements_are_not_less L : wf_plist L = true ->
  forall t1 t2 fc1 fc2 m1 m2 a1 a2,
  tuple_ok L fc1 0 t1 -> tuple_ok L fc2 0 t2 -> elem_at L m1 a1 t1 -> elem_at L m2 a2 t2 ->
  elem_equal L m1 (ref_fl L t1 a1) m2 (ref_fl L t2 a2) = true ->
  elem_less L m1 (ref_fl L t1 a1) m2 (ref_fl L t2 a2) = false /\
  elem_less L m2 (ref_fl L t2 a2) m1 (ref_fl L t1 a1) = false.
Proof.
  intros Hwf t1 t2 fc1 fc2 m1 m2 a1 a2 Ht1 Ht2 He1 He2 Heq.
  apply (elem_equal_content_eqv L Hwf t1 t2 fc1 fc2 Ht1 Ht2 m1 m2 a1 a2 He1 He2) in Heq.
  assert (HL : L <> []) by (apply wf_plist_nonempty; exact Hwf).
  rewrite (elem_less_content L Hwf t1 t2 fc1 fc2 m1 m2 a1 a2 Ht1 Ht2 He1 He2).
  rewrite (elem_less_content L Hwf t2 t1 fc2 fc1 m2 m1 a2 a1 Ht2 Ht1 He2 He1).
  split; apply eqv_tuples_not_less; try exact HL.
  - exact Heq.
  - intros j Hj. rewrite span_eq_sym. apply Heq. exact Hj.
Qed.
