(* AddrStable.v — element addresses are a function of the stored content (C16, every list).
   Tight packing is part of the representation invariant, so in every represented state the
   offset of element k is determined by the tuples in front of it (LifeHist.cpos).  Hence two
   represented states of vectors whose lists share a prefix place the elements of that prefix
   at the same offsets: whatever operation keeps a prefix of the list - emplace_back, pop_back,
   erase / erase(first,last) for the elements in front, reserve within capacity - keeps the
   addresses of those elements relative to data_begin(); that the block itself is not replaced
   is the ledger theorem (no allocation: C16_*_no_allocation). *)
From Coq Require Import ZArith Lia List Bool.
From Cntgs Require Import Base BaseLemmas Layout LayoutThm Mem MemLemmas Vector Spec Rep ElemLemmas Ordered
     Refine LifeHist.
Import ListNotations.
Local Open Scope Z_scope.

Theorem addresses_from_content L v l offs k : RepO L v l offs -> (k < length l)%nat ->
  eaddr L v (Z.of_nat k) = nth k (cpos L 0 l) 0.
Proof. intros R Hk. rewrite (rep_eaddr L v l offs k R Hk). rewrite (rep_cpos L v l offs R). reflexivity. Qed.

Lemma nth_firstn_ {A} (d : A) : forall n k (l : list A), (k < n)%nat -> nth k (firstn n l) d = nth k l d.
Proof.
  induction n as [|n IH]; intros k l Hk; [lia|]. destruct l as [|x l]; [destruct k; reflexivity|].
  destruct k as [|k]; [reflexivity|]. cbn [firstn nth]. apply IH. lia.
Qed.

Theorem common_prefix_same_addresses L v l offs v' l' offs' n k :
  RepO L v l offs -> RepO L v' l' offs' -> firstn n l = firstn n l' ->
  (k < n)%nat -> (k < length l)%nat -> (k < length l')%nat ->
  eaddr L v' (Z.of_nat k) = eaddr L v (Z.of_nat k).
Proof.
  intros R R' Hp Hk Hl Hl'.
  rewrite (addresses_from_content L v l offs k R Hl), (addresses_from_content L v' l' offs' k R' Hl').
  rewrite <- (nth_firstn_ 0 n k (cpos L 0 l) Hk), <- (nth_firstn_ 0 n k (cpos L 0 l') Hk).
  rewrite <- !cpos_firstn, Hp. reflexivity.
Qed.
