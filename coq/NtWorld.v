(* NtWorld.v — copy construction, copy assignment, move assignment (stealing and
   element-wise) for EVERY well-formed parameter list, non-trivial value types included
   (C09, C08): the target represents the source's list of tuples with the allocator the
   traits dictate; copies leave the source untouched; an element-wise move leaves the source
   with moved-from objects (only its memory differs). *)
From Coq Require Import ZArith Lia List Bool.
From Cntgs Require Import Base BaseLemmas Layout LayoutThm Mem MemLemmas Vector World Spec Rep ElemLemmas Ordered
  EsizeThm Refine WorldThm NtRefine LifeHist.
Import ListNotations.
Local Open Scope Z_scope.

Lemma set_mem_same v : set_mem v (v_mem v) = v.
Proof. destruct v; reflexivity. Qed.

(* copying (mv = false) does not touch the source *)
Lemma relocate_objs_copy_src p sbid bid : forall n ms m src dst,
  fst (fst (relocate_objs false p sbid bid ms m src dst n)) = ms.
Proof.
  induction n as [|n IH]; intros ms m src dst; [reflexivity|]. cbn [relocate_objs].
  specialize (IH ms (mwrite m dst (mread ms src (Z.to_nat (psz p)))) (src + psz p) (dst + psz p)).
  destruct (relocate_objs false p sbid bid ms _ (src + psz p) (dst + psz p) n) as [[a b] c]. exact IH.
Qed.

Lemma relocate_fields_copy_src sbid bid L : forall fl ms m d,
  fst (fst (relocate_fields false L fl sbid bid ms m d)) = ms.
Proof.
  induction L as [|p L IH]; intros fl ms m d; [reflexivity|]. destruct fl as [|[a c] fl]; [reflexivity|].
  cbn [relocate_fields]. destruct (ntc _ p).
  - pose proof (relocate_objs_copy_src p sbid bid (Z.to_nat c) ms m a (a + d)) as H.
    destruct (relocate_objs false p sbid bid ms m a (a + d) (Z.to_nat c)) as [[ms1 m1] e1]. cbn [fst] in H. subst ms1.
    specialize (IH fl ms m1 d). destruct (relocate_fields false L fl sbid bid ms m1 d) as [[a2 b2] c2]. exact IH.
  - specialize (IH fl ms m d). destruct (relocate_fields false L fl sbid bid ms m d) as [[a2 b2] c2]. exact IH.
Qed.

Lemma relocate_elems_copy_src L bid : forall n src m i,
  fst (fst (relocate_elems false L src bid m i n)) = src.
Proof.
  induction n as [|n IH]; intros src m i; [reflexivity|]. cbn [relocate_elems].
  pose proof (relocate_fields_copy_src (bidn (v_bid src)) bid L (fst (load L (v_fixed src) (v_mem src) (eaddr L src i))) (v_mem src) m 0) as H.
  destruct (relocate_fields false L _ (bidn (v_bid src)) bid (v_mem src) m 0) as [[ms1 m1] e1]. cbn [fst] in H. subst ms1.
  rewrite set_mem_same. specialize (IH src m1 (i + 1)).
  destruct (relocate_elems false L src bid m1 (i + 1) n) as [[a b] c]. exact IH.
Qed.

Lemma insert_into_copy_src L v bid junk : fst (fst (insert_into false false L v bid junk)) = v.
Proof.
  unfold insert_into. cbn [negb orb andb]. rewrite andb_true_r.
  destruct (all_ctriv _ L); [reflexivity|].
  pose proof (relocate_elems_copy_src L bid (Z.to_nat (vsize L v)) v (mcopy (v_mem v) 0 junk 0 (dend L v)) 0) as H.
  destruct (relocate_elems false L v bid _ 0 _) as [[s1 m1] e1]. exact H.
Qed.

Section NtWorld.
  Variable L : list param.
  Hypothesis Hwf : wf_plist L = true.

  Theorem copy_ctor_spec_nt K src l junk nb :
    Rep L src l ->
    let '(d, src', evs, nb') := copy_ctor K L src junk nb in
    Rep L d l /\ src' = src /\ v_aid d = soccc K (v_aid src) /\
    v_cap d = v_cap src /\ v_fixed d = v_fixed src /\ v_bid d = Some nb.
  Proof.
    intros [offs R]. unfold copy_ctor.
    pose proof (insert_into_mem L Hwf false false src l offs nb junk R) as Hm.
    pose proof (insert_into_copy_src L src nb junk) as Hs.
    destruct (insert_into false false L src nb junk) as [[s1 m] e1]. cbn [fst snd] in *.
    repeat split; auto.
    apply (relocate_rep L Hwf); auto; [exists offs; exact R|]. exact (r_cap _ _ _ _ R).
  Qed.

  Theorem copy_assign_spec_nt K d src l junk nb :
    Rep L src l ->
    let '(d', src', evs, nb') := copy_assign K L d src junk nb in
    Rep L d' l /\ src' = src /\
    v_aid d' = (if pocca K then v_aid src else v_aid d) /\
    v_cap d' = v_cap src /\ v_fixed d' = v_fixed src.
  Proof.
    intros [offs R]. unfold copy_assign.
    pose proof (insert_into_mem L Hwf false false src l offs nb junk R) as Hm.
    pose proof (insert_into_copy_src L src nb junk) as Hs.
    destruct (insert_into false false L src nb junk) as [[s1 m] e1]. cbn [fst snd] in *.
    destruct (if all_dtriv L then (d, []) else destruct_range L d 0 (Z.to_nat (vsize L d))) as [d1 e2].
    repeat split; auto.
    apply (relocate_rep L Hwf); auto; [exists offs; exact R|]. exact (r_cap _ _ _ _ R).
  Qed.

  Theorem steal_spec_nt K d src l :
    Rep L src l ->
    let '(d', src', evs) := steal K L d src in
    Rep L d' l /\ src' = moved_from src /\ v_bid d' = v_bid src /\
    v_aid d' = (if pocma K then v_aid src else v_aid d).
  Proof.
    intros R. unfold steal.
    destruct (if all_dtriv L then (d, []) else destruct_range L d 0 (Z.to_nat (vsize L d))) as [d1 e1].
    split; [apply rep_retag; auto|]. auto.
  Qed.

  (* move assignment, both paths: the target represents the source's former list; the source is
     moved-from (stolen) or keeps its block with moved-from objects *)
  Theorem move_assign_spec_nt K d src l junk nb :
    Rep L src l ->
    let '(d', src', evs, nb') := move_assign K L d src junk nb in
    Rep L d' l /\
    v_aid d' = (if pocma K then v_aid src else v_aid d) /\
    (src' = moved_from src \/ exists ms, src' = set_mem src ms).
  Proof.
    intros R. unfold move_assign.
    destruct (always_eq K || pocma K || (v_aid d =? v_aid src)) eqn:Hc.
    - pose proof (steal_spec_nt K d src l R) as Hs. destruct (steal K L d src) as [[d1 s1] e].
      destruct Hs as (H1 & H2 & H3 & H4). auto.
    - assert (Hpm : pocma K = false).
      { destruct (pocma K); [rewrite orb_true_r in Hc; discriminate|reflexivity]. }
      rewrite Hpm. destruct R as [offs R].
      assert (Hsrc : forall bid jk, exists ms, fst (fst (insert_into true false L src bid jk)) = set_mem src ms).
      { intros bid jk. unfold insert_into. cbn [negb orb andb]. rewrite andb_true_r.
        destruct (all_ctriv _ L); [exists (v_mem src); cbn [fst]; symmetry; apply set_mem_same|].
        rewrite (rep_vsize L src l offs R), Nat2Z.id.
        destruct (relocate_elems_src L Hwf bid src l offs R (length l) 0 (v_mem src) (mcopy (v_mem src) 0 jk 0 (dend L src))
                    ltac:(lia) ltac:(intros; reflexivity) ltac:(intros; lia)) as (msf & E & _).
        rewrite set_mem_same in E. change (Z.of_nat 0) with 0 in E.
        destruct (relocate_elems true L src bid _ 0 (length l)) as [[s1 m1] e1]. cbn [fst] in *. exists msf. exact E. }
      destruct (consumption L d <? consumption L src).
      + pose proof (insert_into_mem L Hwf true false src l offs nb junk R) as Hm. destruct (Hsrc nb junk) as [ms Hms].
        destruct (if all_dtriv L then (d, []) else destruct_range L d 0 (Z.to_nat (vsize L d))) as [d1 e1].
        destruct (insert_into true false L src nb junk) as [[s1 m] e2]. cbn [fst snd] in *.
        split; [|split; [reflexivity|right; exists ms; exact Hms]].
        apply (relocate_rep L Hwf); auto; [exists offs; exact R|]. exact (r_cap _ _ _ _ R).
      + destruct (if all_dtriv L then (d, []) else destruct_range L d 0 (Z.to_nat (vsize L d))) as [d1 e1].
        pose proof (insert_into_mem L Hwf true false src l offs (bidn (v_bid d1)) (v_mem d1) R) as Hm.
        destruct (Hsrc (bidn (v_bid d1)) (v_mem d1)) as [ms Hms].
        destruct (insert_into true false L src (bidn (v_bid d1)) (v_mem d1)) as [[s1 m] e2]. cbn [fst snd] in *.
        split; [|split; [reflexivity|right; exists ms; exact Hms]].
        apply (relocate_rep L Hwf); auto; [exists offs; exact R|]. exact (r_cap _ _ _ _ R).
  Qed.
End NtWorld.
