(* Elem.v — executable model of BasicContiguousElement (src/cntgs/element.hpp): an element
   owns one block obtained from its own allocator and a reference (field table) into it.
   Offsets are relative to the element's memory_begin().  Definitions only. *)
From Coq Require Import ZArith List Bool.
From Cntgs Require Import Base Layout Mem Vector Proxy.
Import ListNotations.
Local Open Scope Z_scope.

Record elem := {
  e_bid : option nat;        (* memory_.get(); None after a move *)
  e_units : Z;               (* memory_.size(), in Aligned<SA> units *)
  e_aid : Z;                 (* memory_.get_allocator() *)
  e_mem : mem;
  e_fl : list (Z * Z)        (* reference_: (offset, object count) of every field *)
}.

Definition set_emem (e : elem) (m : mem) : elem :=
  {| e_bid := e_bid e; e_units := e_units e; e_aid := e_aid e; e_mem := m; e_fl := e_fl e |}.

(* BasicContiguousReference::size_in_bytes(): data_end() of the last field - data_begin() of the first *)
Definition ref_bytes (L : list param) (fl : list (Z * Z)) : Z :=
  fend (last L pparam0) (last fl fld0) - fst (hd fld0 fl).

(* load_element_at<ContiguousReferenceSizeGetter>(target, source): the field table of an
   element stored at offset 0 with the source's object counts *)
Definition fl_at0 (L : list param) (fls : list (Z * Z)) : list (Z * Z) :=
  combine (fst (place L (map snd fls) 0)) (map snd fls).

(* construct_if_non_trivial<UseMove>(source, target): copy/move-construct the objects of
   the fields whose type is not trivially copy/move constructible *)
Fixpoint construct_fields (mv : bool) (L : list param) (fls fld : list (Z * Z)) (sb db : nat) (ms md : mem)
  : mem * mem * list ev :=
  match L, fls, fld with
  | p :: L', (sa, c) :: fls', (da, _) :: fld' =>
      let '(ms1, md1, e1) :=
        if ntc mv p then relocate_objs mv p sb db ms md sa da (Z.to_nat c) else (ms, md, []) in
      let '(ms2, md2, e2) := construct_fields mv L' fls' fld' sb db ms1 md1 in
      (ms2, md2, e1 ++ e2)
  | _, _, _ => (ms, md, [])
  end.

(* store_and_load(source, memory_size, target_memory): memcpy of [n] bytes, then the
   non-trivial fields are constructed on top.  Returns (source memory, target memory,
   target field table, events) *)
Definition store_and_load (mv : bool) (L : list param) (ms : mem) (fls : list (Z * Z)) (sb : nat)
           (n : Z) (md : mem) (db : nat) : mem * mem * list (Z * Z) * list ev :=
  let sa := fst (hd fld0 fls) in
  let md0 := mcopy ms sa md 0 n in
  let fld := fl_at0 L fls in
  let '(ms1, md1, evs) := construct_fields mv L fls fld sb db ms md0 in
  (ms1, md1, fld, ERaw db 0 n :: evs).

(* ---------- constructors ---------- *)
(* from a reference (element.hpp:47-61): allocate_memory(size_in_bytes, allocator) *)
Definition elem_from_ref (mv : bool) (L : list param) (ms : mem) (fls : list (Z * Z)) (sb : nat)
           (aid : Z) (junk : mem) (nb : nat) : mem * elem * list ev :=
  let n := ref_bytes L fls in
  let u := units L n in
  let '(ms1, md1, fld, evs) := store_and_load mv L ms fls sb n junk nb in
  (ms1, {| e_bid := Some nb; e_units := u; e_aid := aid; e_mem := md1; e_fl := fld |},
   EAlloc aid (SA L) u nb :: evs).

(* copy constructor (element.hpp:63-66): memory_(other.memory_) allocates other.size() units
   from select_on_container_copy_construction *)
Definition elem_copy (L : list param) (src : elem) (aid : Z) (junk : mem) (nb : nat) : elem * list ev :=
  let n := ref_bytes L (e_fl src) in
  let '(_, md1, fld, evs) := store_and_load false L (e_mem src) (e_fl src) (bidn (e_bid src)) n junk nb in
  ({| e_bid := Some nb; e_units := e_units src; e_aid := aid; e_mem := md1; e_fl := fld |},
   EAlloc aid (SA L) (e_units src) nb :: evs).

(* allocator-extended copy (element.hpp:74-80): allocate_memory(size_in_bytes, allocator) *)
Definition elem_copy_alloc (L : list param) (src : elem) (aid : Z) (junk : mem) (nb : nat) : elem * list ev :=
  let n := ref_bytes L (e_fl src) in
  let u := units L n in
  let '(_, md1, fld, evs) := store_and_load false L (e_mem src) (e_fl src) (bidn (e_bid src)) n junk nb in
  ({| e_bid := Some nb; e_units := u; e_aid := aid; e_mem := md1; e_fl := fld |},
   EAlloc aid (SA L) u nb :: evs).

Definition elem_moved_from (e : elem) : elem :=
  {| e_bid := None; e_units := 0; e_aid := e_aid e; e_mem := e_mem e; e_fl := e_fl e |}.

(* allocator-extended move (element.hpp:90-97, acquire_memory / acquire_reference) *)
Definition elem_move_alloc (ae : bool) (L : list param) (src : elem) (aid : Z) (junk : mem) (nb : nat)
  : elem * elem * list ev * bool :=
  if ae || (aid =? e_aid src) then (src, elem_moved_from src, [], false)
  else
    let n := ref_bytes L (e_fl src) in
    let '(ms1, md1, fld, evs) := store_and_load true L (e_mem src) (e_fl src) (bidn (e_bid src)) n junk nb in
    ({| e_bid := Some nb; e_units := e_units src; e_aid := aid; e_mem := md1; e_fl := fld |},
     set_emem src ms1, EAlloc aid (SA L) (e_units src) nb :: evs, true).

(* ---------- destructor (element.hpp:99, 413-421) ---------- *)
Definition elem_destruct (L : list param) (e : elem) : elem * list ev :=
  match e_bid e with
  | Some b => if all_dtriv L then (e, [])
              else let '(m, evs) := destruct_fields L (e_fl e) b (e_mem e) in (set_emem e m, evs)
  | None => (e, [])
  end.
Definition elem_dealloc (L : list param) (e : elem) : list ev :=
  match e_bid e with Some b => [EDealloc (e_aid e) (SA L) (e_units e) b] | None => [] end.
Definition elem_destroy (L : list param) (e : elem) : list ev :=
  let '(_, e1) := elem_destruct L e in e1 ++ elem_dealloc L e.

(* ---------- reference assignment into / out of an element ---------- *)
Definition assign_fl (mv : bool) (L : list param) (same : bool) (ms : mem) (fls : list (Z * Z)) (sb : nat)
           (md : mem) (fld : list (Z * Z)) (db : nat) : mem * mem * list ev :=
  let '(x, evs) := assign_all mv L sb db fls fld {| m_s := ms; m_d := md; m_same := same |} (seq 0 (length L)) in
  (m_s x, m_d x, evs).

(* ---------- copy assignment (element.hpp:102-109, 311-333) ---------- *)
Definition has_span (L : list param) : bool := existsb (fun p => negb (is_plain p)) L.
Definition fixed_or_plain (L : list param) : bool := negb (has_varying L).

Definition elem_copy_assign (pocca ae : bool) (L : list param) (d src : elem) (junk : mem) (nb : nat)
  : elem * list ev * nat :=
  (* field-wise only into an element that has storage (a moved-from one has none) *)
  if fixed_or_plain L && (negb pocca || ae) && (match e_bid d with Some _ => true | None => false end) then
    let '(_, md, evs) := assign_fl false L false (e_mem src) (e_fl src) (bidn (e_bid src))
                                   (e_mem d) (e_fl d) (bidn (e_bid d)) in
    ({| e_bid := e_bid d; e_units := e_units d; e_aid := if pocca then e_aid src else e_aid d;
        e_mem := md; e_fl := e_fl d |}, evs, nb)
  else
    (* the new block is allocated first (from the allocator the element will have afterwards) *)
    let a := if pocca then e_aid src else e_aid d in
    let ea := [EAlloc a (SA L) (e_units src) nb] in
    let '(d1, e1) := elem_destruct L d in
    let n := ref_bytes L (e_fl src) in
    let '(_, md, fld, e3) := store_and_load false L (e_mem src) (e_fl src) (bidn (e_bid src)) n junk nb in
    ({| e_bid := Some nb; e_units := e_units src; e_aid := a; e_mem := md; e_fl := fld |},
     ea ++ e1 ++ elem_dealloc L d1 ++ e3, S nb).

(* ---------- move assignment (element.hpp:111-119, 335-378) ---------- *)
Definition elem_steal (pocma : bool) (L : list param) (d src : elem) : elem * elem * list ev :=
  let '(d1, e1) := elem_destruct L d in
  ({| e_bid := e_bid src; e_units := e_units src; e_aid := if pocma then e_aid src else e_aid d;
      e_mem := e_mem src; e_fl := e_fl src |}, elem_moved_from src, e1 ++ elem_dealloc L d1).

Definition elem_move_assign (pocma ae : bool) (L : list param) (d src : elem) (junk : mem) (nb : nat)
  : elem * elem * list ev * nat :=
  if ae || pocma || (e_aid d =? e_aid src) then
    let '(d1, s1, e) := elem_steal pocma L d src in (d1, s1, e, nb)
  else if fixed_or_plain L && (match e_bid d with Some _ => true | None => false end) then
    let '(ms, md, evs) := assign_fl true L false (e_mem src) (e_fl src) (bidn (e_bid src))
                                    (e_mem d) (e_fl d) (bidn (e_bid d)) in
    (set_emem d md, set_emem src ms, evs, nb)
  else
    let n := ref_bytes L (e_fl src) in
    (* the byte size is compared with a number of units (element.hpp:358): a new block is
       requested more often than necessary, never too rarely *)
    if e_units d <? n then
      let ea := [EAlloc (e_aid d) (SA L) (e_units src) nb] in
      let '(d1, e1) := elem_destruct L d in
      let '(ms, md, fld, e2) := store_and_load true L (e_mem src) (e_fl src) (bidn (e_bid src)) n junk nb in
      ({| e_bid := Some nb; e_units := e_units src; e_aid := e_aid d; e_mem := md; e_fl := fld |},
       set_emem src ms, ea ++ e1 ++ e2 ++ elem_dealloc L d1, S nb)
    else
      let '(d1, e1) := elem_destruct L d in
      let '(ms, md, fld, e2) := store_and_load true L (e_mem src) (e_fl src) (bidn (e_bid src)) n
                                               (e_mem d1) (bidn (e_bid d1)) in
      ({| e_bid := e_bid d1; e_units := e_units d1; e_aid := e_aid d1; e_mem := md; e_fl := fld |},
       set_emem src ms, e1 ++ e2, nb).

(* ---------- swap (element.hpp:140-144; allocator.hpp swap) ---------- *)
Definition elem_swap (pocs : bool) (a b : elem) : elem * elem :=
  let mk (x y : elem) :=
    {| e_bid := e_bid y; e_units := e_units y; e_aid := if pocs then e_aid y else e_aid x;
       e_mem := e_mem y; e_fl := e_fl y |} in
  (mk a b, mk b a).

(* ---------- comparisons: an element compares through its reference ---------- *)
Definition cmp_fl (L : list param) (m1 : mem) (fl1 : list (Z * Z)) (m2 : mem) (fl2 : list (Z * Z)) : list bool :=
  six (elem_equal L m1 fl1 m2 fl2) (elem_less L m1 fl1 m2 fl2) (elem_less L m2 fl2 m1 fl1).
