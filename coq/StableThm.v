(* StableThm.v — no hidden reallocation (C16) and empty vectors (C18): facts about the
   model's operations that the refinement proof does not state. *)
From Coq Require Import ZArith Lia List Bool.
From Cntgs Require Import Base BaseLemmas Layout LayoutThm Mem MemLemmas Vector World Spec Rep ElemLemmas Ordered EsizeThm Refine.
Import ListNotations.
Local Open Scope Z_scope.

Definition is_alloc_ev (e : ev) : bool :=
  match e with EAlloc _ _ _ _ | EDealloc _ _ _ _ => true | _ => false end.
Definition no_alloc (evs : list ev) : Prop := forallb (fun e => negb (is_alloc_ev e)) evs = true.

Lemma no_alloc_app a b : no_alloc a -> no_alloc b -> no_alloc (a ++ b).
Proof. unfold no_alloc. intros Ha Hb. rewrite forallb_app, Ha, Hb. reflexivity. Qed.

Lemma no_alloc_obj_events mk a sz n : (forall x, is_alloc_ev (mk x) = false) -> no_alloc (obj_events mk a sz n).
Proof.
  intros H. unfold no_alloc, obj_events. rewrite forallb_forall. intros e He.
  apply in_map_iff in He. destruct He as [j [<- _]]. now rewrite H.
Qed.

(* ---- the element-level helpers never call the allocator, whatever the value types ---- *)
Lemma store_from_no_alloc L : forall pv vals bid m a, no_alloc (snd (fst (store_from L pv vals bid m a))).
Proof.
  induction L as [|p L IH]; intros pv vals bid m a; [reflexivity|].
  destruct pv as [|pt pv]; [reflexivity|]. destruct vals as [|f vals]; [reflexivity|].
  cbn [store_from]. specialize (IH pv vals bid (mwrite m (align_if (pt <? pal p) (pal p) a) (concat f))
                                   (align_if (pt <? pal p) (pal p) a + Z.of_nat (length f) * psz p)).
  destruct (store_from L pv vals bid _ _) as [[m2 evs2] e]. cbn [fst snd] in *.
  apply no_alloc_app; auto. destruct (ntc _ p); [|reflexivity]. apply no_alloc_obj_events. reflexivity.
Qed.

Lemma destruct_fields_no_alloc L : forall fl bid m, no_alloc (snd (destruct_fields L fl bid m)).
Proof.
  induction L as [|p L IH]; intros fl bid m; [reflexivity|].
  destruct fl as [|[a c] fl]; [reflexivity|]. cbn [destruct_fields].
  specialize (IH fl bid (if ntd p then scribble m a (psz p) (Z.to_nat c) (dead_bytes (psz p)) else m)).
  destruct (destruct_fields L fl bid _) as [m2 evs2]. cbn [snd] in *.
  apply no_alloc_app; auto. destruct (ntd p); [|reflexivity]. apply no_alloc_obj_events. reflexivity.
Qed.

Lemma destruct_elem_no_alloc L v i : no_alloc (snd (destruct_elem L v i)) /\ v_bid (fst (destruct_elem L v i)) = v_bid v.
Proof.
  unfold destruct_elem. destruct (all_dtriv L); [split; reflexivity|].
  pose proof (destruct_fields_no_alloc L (fst (load L (v_fixed v) (v_mem v) (eaddr L v i))) (bidn (v_bid v)) (v_mem v)) as H.
  destruct (destruct_fields L _ _ _) as [m evs]. cbn [fst snd] in *. split; auto.
Qed.

Lemma destruct_range_no_alloc L : forall n v i, no_alloc (snd (destruct_range L v i n)) /\ v_bid (fst (destruct_range L v i n)) = v_bid v.
Proof.
  induction n as [|n IH]; intros v i; [split; reflexivity|]. cbn [destruct_range].
  destruct (destruct_elem_no_alloc L v i) as [H1 H2]. destruct (destruct_elem L v i) as [v1 e1]. cbn [fst snd] in *.
  destruct (IH v1 (i + 1)) as [H3 H4]. destruct (destruct_range L v1 (i + 1) n) as [v2 e2]. cbn [fst snd] in *.
  split; [apply no_alloc_app; auto|congruence].
Qed.

Lemma resize_bid L v n : v_bid (resize L v n) = v_bid v.
Proof. unfold resize. destruct (has_varying L); [destruct (_ <? _)|]; reflexivity. Qed.

(* ---- C16: emplace_back within capacity, pop_back, clear never touch the allocator and keep the block,
        for EVERY parameter list (trivial or not) ---- *)
Theorem emplace_back_no_alloc L v t :
  no_alloc (snd (emplace_back L v t)) /\ v_bid (fst (emplace_back L v t)) = v_bid v /\
  v_cap (fst (emplace_back L v t)) = v_cap v.
Proof.
  unfold emplace_back, store. destruct (has_varying L).
  - pose proof (store_from_no_alloc L (prevs L) t (bidn (v_bid v)) (v_mem v) (first_align L (v_last v))) as H.
    destruct (store_from L _ _ _ _ _) as [[m evs] e]. cbn [fst snd] in *. auto.
  - pose proof (store_from_no_alloc L (prevs L) t (bidn (v_bid v)) (v_mem v) (v_stride v * v_count v)) as H.
    destruct (store_from L _ _ _ _ _) as [[m evs] e]. cbn [fst snd] in *. auto.
Qed.

Theorem pop_back_no_alloc L v :
  no_alloc (snd (pop_back L v)) /\ v_bid (fst (pop_back L v)) = v_bid v.
Proof.
  unfold pop_back. destruct (destruct_elem_no_alloc L v (vsize L v - 1)) as [H1 H2].
  destruct (destruct_elem L v (vsize L v - 1)) as [v1 e1]. cbn [fst snd] in *.
  split; auto. now rewrite resize_bid.
Qed.

Theorem clear_no_alloc L v :
  no_alloc (snd (clear L v)) /\ v_bid (fst (clear L v)) = v_bid v.
Proof.
  unfold clear. destruct (all_dtriv L); cbn [fst snd].
  - split; [reflexivity|apply resize_bid].
  - destruct (destruct_range_no_alloc L (Z.to_nat (vsize L v)) v 0) as [H1 H2].
    destruct (destruct_range L v 0 _) as [v1 e1]. cbn [fst snd] in *. split; auto. now rewrite resize_bid.
Qed.

(* erase: trivially relocatable lists *)
Ltac split_ifs :=
  repeat match goal with
         | |- context [if ?c then _ else _] => destruct c
         end.

Theorem erase_no_alloc L v i : all_triv L = true ->
  no_alloc (snd (erase L v i)) /\ v_bid (fst (erase L v i)) = v_bid v.
Proof.
  intros Ht. pose proof Ht as Ht'. unfold all_triv in Ht'. apply andb_true_iff in Ht'. destruct Ht' as [Hc Hd].
  unfold erase, destruct_elem, move_forward. rewrite Ht, Hd.
  unfold move_forward_triv. split_ifs; cbn [fst snd]; (split; [reflexivity|rewrite resize_bid; reflexivity]).
Qed.

Theorem erase_range_no_alloc L v i j : all_triv L = true ->
  no_alloc (snd (erase_range L v i j)) /\ v_bid (fst (erase_range L v i j)) = v_bid v.
Proof.
  intros Ht. pose proof Ht as Ht'. unfold all_triv in Ht'. apply andb_true_iff in Ht'. destruct Ht' as [Hc Hd].
  unfold erase_range, move_forward. rewrite Ht, Hd.
  unfold move_forward_triv. split_ifs; cbn [fst snd]; (split; [reflexivity|rewrite resize_bid; reflexivity]).
Qed.

(* ---- C16: the elements in front keep their addresses ---- *)
Lemma nth_upd_other {A} (l : list A) x d : forall n i, i <> n -> nth i (upd n x l) d = nth i l d.
Proof.
  induction l as [|y l IH]; intros [|n] [|i] H; cbn; auto; try congruence.
Qed.

Theorem emplace_back_addresses_stable L v t i : 0 <= i < vsize L v ->
  eaddr L (fst (emplace_back L v t)) i = eaddr L v i.
Proof.
  intros Hi. unfold emplace_back, eaddr, vsize in *. destruct (has_varying L).
  - destruct (store L t _ _ _) as [[m evs] e]. cbn [fst]. unfold slotv, slot.
    cbn [v_tbl set_tbl set_mem set_slots t_slots]. rewrite nth_upd_other by lia. reflexivity.
  - destruct (store L t _ _ _) as [[m evs] e]. reflexivity.
Qed.

Lemma resize_addresses_stable L v n i : eaddr L (resize L v n) i = eaddr L v i.
Proof. unfold resize, eaddr. destruct (has_varying L); [destruct (_ <? _)|]; reflexivity. Qed.

Theorem pop_back_addresses_stable L v i : all_triv L = true ->
  eaddr L (fst (pop_back L v)) i = eaddr L v i.
Proof.
  intros Ht. unfold all_triv in Ht. apply andb_true_iff in Ht. destruct Ht as [Hc Hd].
  unfold pop_back, destruct_elem. rewrite Hd. cbn [fst]. apply resize_addresses_stable.
Qed.

Lemma nth_app_l_ {A} (l1 l2 : list A) i d : (i < length l1)%nat -> nth i (l1 ++ l2) d = nth i l1 d.
Proof. intros H. apply app_nth1. exact H. Qed.

(* erase(position) / erase(first,last): the elements in front of the erased position stay
   where they are (their table slots / stride offsets are not touched) *)
Theorem move_forward_addresses_stable L v from to i :
  0 <= i < to -> to <= from -> (Z.to_nat to <= length (t_slots (v_tbl v)))%nat \/ has_varying L = false ->
  eaddr L (fst (move_forward_triv L v from to)) i = eaddr L v i.
Proof.
  intros Hi Htf Hlen. unfold move_forward_triv. destruct (has_varying L && _) eqn:Hg; [reflexivity|].
  unfold eaddr. destruct (has_varying L) eqn:Hv; [|reflexivity].
  cbn [fst]. unfold slotv, slot. cbn [v_tbl set_tbl set_mem set_slots t_slots].
  destruct Hlen as [Hlen|Hlen]; [|discriminate].
  rewrite nth_upd_other by lia. unfold shift_slots.
  rewrite nth_app_l_ by (rewrite firstn_length; lia).
  rewrite nth_firstn_ by lia. reflexivity.
Qed.

(* ---- C16: swap and move construction exchange ownership without any allocator call:
        in the model they are exchanges of records and emit no event at all ---- *)
Theorem swap_exchanges_blocks K a b :
  v_bid (fst (swap_vec K a b)) = v_bid b /\ v_bid (snd (swap_vec K a b)) = v_bid a /\
  v_cap (fst (swap_vec K a b)) = v_cap b /\ v_cap (snd (swap_vec K a b)) = v_cap a.
Proof. unfold swap_vec. cbn. auto. Qed.

(* ---- C18: empty vectors ---- *)
(* element 0 starts at offset 0 and an empty vector has data_end() = data_begin() *)
Definition zero_inv (L : list param) (v : vec) : Prop :=
  (0 < vsize L v -> eaddr L v 0 = 0) /\ (vsize L v = 0 -> dend L v = 0).

Lemma zero_inv_mkvec L cap budget fixed aid junk bid tbid :
  zero_inv L (fst (mkvec L cap budget fixed aid junk bid tbid)).
Proof.
  unfold zero_inv, mkvec, vsize, eaddr, dend. cbn [fst v_tbl v_count v_last v_stride t_size].
  destruct (has_varying L); cbn [t_size]; split; intros; lia.
Qed.

Lemma zero_inv_emplace L v t : wf_plist L = true -> 0 <= vsize L v ->
  (has_varying L = true -> (Z.to_nat (t_size (v_tbl v)) < length (t_slots (v_tbl v)))%nat) ->
  zero_inv L v -> zero_inv L (fst (emplace_back L v t)).
Proof.
  intros Hwf Hs0 Hlen [H1 H2]. unfold zero_inv, emplace_back, vsize, eaddr, dend in *.
  destruct (has_varying L) eqn:Hv.
  - destruct (store L t _ _ _) as [[m evs] e] eqn:Es. cbn [fst v_tbl set_tbl set_mem set_slots t_size t_slots v_last].
    split; [|intros; lia]. intros _. unfold slotv, slot in *. cbn [v_tbl set_tbl set_mem set_slots t_slots].
    destruct (Z.eq_dec (t_size (v_tbl v)) 0) as [E0|Ene].
    + rewrite E0. cbn [Z.to_nat]. rewrite nth_upd_same by (specialize (Hlen eq_refl); rewrite E0 in Hlen; exact Hlen).
      rewrite (H2 E0). apply first_align_aligned; auto. apply Z.divide_0_r.
    + rewrite nth_upd_other by lia. apply H1. lia.
  - destruct (store L t _ _ _) as [[m evs] e]. cbn [fst v_count v_stride set_count set_mem].
    split; intros; lia.
Qed.

Lemma zero_inv_resize L v n : 0 <= n -> zero_inv L v -> zero_inv L (resize L v n).
Proof.
  intros Hn [H1 H2]. unfold zero_inv, resize, vsize, eaddr, dend in *.
  destruct (has_varying L) eqn:Hv.
  - destruct (Z.ltb_spec n (t_size (v_tbl v))) as [Hlt|Hge]; [|split; auto].
    cbn [v_tbl set_tbl set_slots t_size v_last]. unfold slotv, slot in *. cbn [v_tbl set_tbl set_slots t_slots].
    split; [intros; apply H1; lia|]. intros ->. apply H1. lia.
  - cbn [v_count v_stride set_count]. split; intros; lia.
Qed.

(* pop_back / clear / construction keep the invariant; so an emptied vector has
   size() = 0, begin() = end(), data_begin() = data_end() = start of the block *)
Theorem clear_empty L v : all_triv L = true -> 0 <= vsize L v -> zero_inv L v ->
  let v' := fst (clear L v) in
  vsize L v' = 0 /\ dend L v' = 0 /\ zero_inv L v'.
Proof.
  intros Ht Hs Hz. unfold all_triv in Ht. apply andb_true_iff in Ht. destruct Ht as [Hc Hd].
  cbv zeta. unfold clear. rewrite Hd. cbn [fst].
  pose proof (zero_inv_resize L v 0 ltac:(lia) Hz) as Hz'.
  assert (Hsz : vsize L (resize L v 0) = 0).
  { unfold resize, vsize in *. destruct (has_varying L); [|reflexivity].
    destruct (Z.ltb_spec 0 (t_size (v_tbl v))); cbn [v_tbl set_tbl set_slots t_size]; lia. }
  split; [exact Hsz|]. split; [apply Hz'; exact Hsz|exact Hz'].
Qed.

(* a default-constructed vector: no memory, size 0, nothing to free, clear() keeps it empty *)
Theorem default_vector_empty L :
  vsize L (vec_default L) = 0 /\ v_bid (vec_default L) = None /\ dend L (vec_default L) = 0 /\
  destroy L (vec_default L) = [] /\ vsize L (fst (clear L (vec_default L))) = 0.
Proof.
  unfold vsize, dend, destroy, dealloc_tbl, dealloc_mem, clear, resize, vsize.
  destruct (has_varying L) eqn:Hv; destruct (all_dtriv L) eqn:Ht;
    cbn [vec_default v_tbl v_count v_bid v_last v_stride tbl0 t_size t_bid Z.to_nat destruct_range fst snd app set_count];
    repeat split; try reflexivity; try lia.
Qed.

(* the moved-from state: no memory, size 0, destruction frees nothing *)
Theorem moved_from_empty L v :
  vsize L (moved_from v) = 0 /\ v_bid (moved_from v) = None /\ destroy L (moved_from v) = [].
Proof.
  unfold vsize, destroy, dealloc_tbl, dealloc_mem, moved_from.
  destruct (has_varying L); cbn; repeat split; reflexivity.
Qed.
