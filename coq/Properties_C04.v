(* C04 — fields and elements are laid out in order, inside their element, without overlap. *)
From Coq Require Import ZArith List Bool.
From Cntgs Require Import Base BaseLemmas Layout LayoutThm Mem Vector Proxy Spec Rep Refine NtRefine LayoutHist.
Import ListNotations.
Local Open Scope Z_scope.

(* The byte extents [x_k, x_k + cnt_k * sizeof T_k) of the fields of one element, in
   parameter order, are ordered and pairwise disjoint and lie inside
   [element start, element end) = [ref.data_begin(), ref.data_end()). *)
Theorem C04_fields_ordered_disjoint_inside : forall L cnts a,
  wf_plist L = true -> Forall2 cnt_ok L cnts -> 0 <= a -> (SA L | a) ->
  ordered_from a (extents L cnts (fst (place L cnts a))) (snd (place L cnts a)).
Proof. exact place_ordered. Qed.
Print Assumptions C04_fields_ordered_disjoint_inside.

(* data_begin() of a reference (address of its first field) is the element's address,
   which is what iterator.data() returns *)
Theorem C04_first_field_at_element_start : forall L cnts a,
  wf_plist L = true -> Forall2 cnt_ok L cnts -> 0 <= a -> (SA L | a) ->
  hd a (fst (place L cnts a)) = a.
Proof. exact place_first. Qed.
Print Assumptions C04_first_field_at_element_start.

Example C04_example :
  let L := [ {| pk := Fixed; psz := 3; pal := 2; pty := TBlob |};
             {| pk := Plain; psz := 2; pal := 8; pty := TUInt |};
             {| pk := Varying; psz := 5; pal := 4; pty := TBlob |} ] in
  wf_plist L = true /\
  extents L [2; 1; 3] (fst (place L [2; 1; 3] 16)) = [(16, 22); (24, 26); (28, 43)] /\
  snd (place L [2; 1; 3] 16) = 43.
Proof. vm_compute. repeat split; reflexivity. Qed.

(* ---------- vector level: what the library computes when element i is accessed ----------
   In EVERY represented state (Rep: list of tuples, offsets, bookkeeping - what every valid
   history reaches) the field table loaded for element i (address and object count of each
   field) is the placement of that element's tuple: the element starts at a multiple of the
   storage alignment and every field at a multiple of its parameter's alignment (C03); every
   field has exactly the object count of the stored tuple, the first field starts at the
   element start, the byte extents of the fields are ordered, disjoint and inside the
   element, the element ends before data_end() and before every later element starts (C04).
   Offsets are relative to the block, whose base the allocator aligns to the storage unit. *)
Theorem C04_represented_states : forall L, wf_plist L = true -> forall v l offs, RepO L v l offs ->
  forall i, (i < length l)%nat ->
    let t := nth i l [] in
    let a := eaddr L v (Z.of_nat i) in
    let fl := vfl L v (Z.of_nat i) in
    0 <= a /\ (SA L | a) /\
    Forall2 (fun p x => (pal p | x)) L (map fst fl) /\
    map snd fl = cnts_of t /\
    hd a (map fst fl) = a /\
    ordered_from a (extents L (cnts_of t) (map fst fl)) (elem_end L a t) /\
    elem_end L a t <= dend L v /\
    (forall k, (i < k < length l)%nat -> elem_end L a t <= eaddr L v (Z.of_nat k)).
Proof. exact rep_element_layout. Qed.
Print Assumptions C04_represented_states.

(* ... hence after EVERY valid history of emplace_back / pop_back / erase / clear / reserve from
   construction, for every well-formed list (erase with elements behind the erased ones on
   trivially relocatable lists and on lists
   without a VaryingSize parameter, NtRefine.nt_hist_okx) *)
Theorem C04_every_history : forall L cap budget fixed aid junk bid tbid h,
  wf_plist L = true -> 0 <= cap -> Forall (fun c => 0 <= c) fixed ->
  let v0 := fst (mkvec L cap budget fixed aid junk bid tbid) in
  let s0 := {| s_cap := cap; s_elems := [] |} in
  shist_valid L (fixed_counts L fixed) s0 h -> nt_hist_okx L s0 h ->
  let v := vrun L junk v0 h in
  let l := s_elems (srun s0 h) in
  forall i, (i < length l)%nat ->
    let t := nth i l [] in
    let a := eaddr L v (Z.of_nat i) in
    let fl := vfl L v (Z.of_nat i) in
    0 <= a /\ (SA L | a) /\
    Forall2 (fun p x => (pal p | x)) L (map fst fl) /\
    map snd fl = cnts_of t /\
    hd a (map fst fl) = a /\
    ordered_from a (extents L (cnts_of t) (map fst fl)) (elem_end L a t) /\
    elem_end L a t <= dend L v /\
    (forall k, (i < k < length l)%nat -> elem_end L a t <= eaddr L v (Z.of_nat k)).
Proof. exact layout_every_history. Qed.
Print Assumptions C04_every_history.
