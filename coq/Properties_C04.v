(* C04 — fields and elements are laid out in order, inside their element, without overlap. *)
From Coq Require Import ZArith List Bool.
From Cntgs Require Import Base BaseLemmas Layout LayoutThm.
Import ListNotations.
Local Open Scope Z_scope.

(* The byte extents [x_k, x_k + cnt_k * sizeof T_k) of the fields of one element, in
   parameter order, are ordered and pairwise disjoint and lie inside
   [element start, element end) = [ref.data_begin(), ref.data_end()). *)
Theorem C04_fields_ordered_disjoint_inside : forall L cnts a,
  wf_plist L = true -> Forall2 cnt_ok L cnts -> 0 <= a -> (SA L | a) ->
  ordered_from a (extents L cnts (fst (place L cnts a))) (snd (place L cnts a)).
Proof. exact place_ordered. Qed.
Print Assumptions C04_fields_ordered_disjoint_inside.

(* data_begin() of a reference (address of its first field) is the element's address,
   which is what iterator.data() returns *)
Theorem C04_first_field_at_element_start : forall L cnts a,
  wf_plist L = true -> Forall2 cnt_ok L cnts -> 0 <= a -> (SA L | a) ->
  hd a (fst (place L cnts a)) = a.
Proof. exact place_first. Qed.
Print Assumptions C04_first_field_at_element_start.

Example C04_example :
  let L := [ {| pk := Fixed; psz := 3; pal := 2; pty := TBlob |};
             {| pk := Plain; psz := 2; pal := 8; pty := TUInt |};
             {| pk := Varying; psz := 5; pal := 4; pty := TBlob |} ] in
  wf_plist L = true /\
  extents L [2; 1; 3] (fst (place L [2; 1; 3] 16)) = [(16, 22); (24, 26); (28, 43)] /\
  snd (place L [2; 1; 3] 16) = 43.
Proof. vm_compute. repeat split; reflexivity. Qed.
