(* NeededThm.v — the memory the library requests is enough (C02 a), for parameter lists
   whose LAST parameter is a VaryingSize one: N elements whose varying payload adds up to at
   most B bytes, stored one after the other as emplace_back does, end inside the
   calculate_needed_memory_size(N, B, calculate_element_size(fixed sizes)) bytes.
   (Lists without VaryingSize parameter: EsizeThm / C02Thm.  Lists with a plain or FixedSize
   parameter BEHIND their last VaryingSize one: refuted, C02Thm.needed_refuted - the known
   finding.)
   The proof runs two abstract interpretations of the element side by side with its concrete
   placement: the trailing-alignment analysis (LayoutThm.step_sound) tells which alignment
   steps the code takes, and the size computation aligned_size_in_memory is shown to
   over-approximate the bytes used, keeping "address = offset modulo bracket". *)
From Coq Require Import ZArith Lia List Bool.
From Cntgs Require Import Base BaseLemmas Layout LayoutThm Mem Vector Spec Rep ElemLemmas EsizeThm C02Thm.
Import ListNotations.
Local Open Scope Z_scope.

(* ---------- arithmetic of align_up ---------- *)
Lemma pad_bound x off al pal : pow2 al -> pow2 pal -> al < pal -> 0 <= off -> (al | x - off) ->
  align_up x pal - x <= align_up off al - off + pal - al.
Proof.
  intros Hal Hpal Hlt Hoff [q Hq].
  pose proof (pow2_pos _ Hal) as Hap. pose proof (pow2_pos _ Hpal) as Hpp.
  set (d := align_up off al - off).
  pose proof (align_up_ge off al Hap) as Hd. fold d in Hd.
  set (y := x + d).
  assert (Hy : (al | y)).
  { unfold y, d. replace (x + (align_up off al - off)) with (q * al + align_up off al) by lia.
    apply Z.divide_add_r; [apply Z.divide_factor_r|apply align_up_div; exact Hap]. }
  pose proof (align_up_mono x y pal Hpp ltac:(unfold y; lia)) as Hm.
  set (z := align_up y pal) in *.
  pose proof (align_up_ge y pal Hpp) as Hz. fold z in Hz.
  pose proof (align_up_div y pal Hpp) as Hzd. fold z in Hzd.
  assert (Hdiv : (al | pal)) by (apply pow2_divide; auto; lia).
  assert (Hzy : (al | z - y)).
  { apply Z.divide_sub_r; [eapply Z.divide_trans; eauto|exact Hy]. }
  destruct Hzy as [m Hm1]. destruct Hdiv as [r Hr].
  assert (m <= r - 1) by nia.
  assert (z - y <= pal - al) by nia.
  unfold y in *. lia.
Qed.

Lemma pad_exact x off al pal : pow2 al -> pow2 pal -> pal <= al -> (al | x - off) ->
  align_up x pal - x = align_up off pal - off.
Proof.
  intros Hal Hpal Hle [q Hq]. pose proof (pow2_pos _ Hpal) as Hpp.
  replace x with (off + q * al) by lia.
  rewrite align_up_shift; [lia|exact Hpp|].
  apply Z.divide_mul_r. apply pow2_divide; auto.
Qed.

(* object counts of an element: 1 for plain, the fixed size for FixedSize, anything for VaryingSize *)
(* an address that is a multiple of [t] needs at most [s - t] bytes to reach a multiple of [s] *)
Lemma align_gap x t s : pow2 t -> pow2 s -> t <= s -> (t | x) -> align_up x s - x <= s - t.
Proof.
  intros Ht Hs Hle Hx.
  pose proof (pow2_pos _ Ht) as Htp. pose proof (pow2_pos _ Hs) as Hsp.
  pose proof (align_up_ge x s Hsp) as Hge. pose proof (align_up_div x s Hsp) as Hd.
  assert (Hts : (t | s)) by (apply pow2_divide; auto).
  assert (Hg : (t | align_up x s - x)).
  { apply Z.divide_sub_r; [eapply Z.divide_trans; eauto|exact Hx]. }
  destruct Hg as [q Hq]. destruct Hts as [m Hm]. rewrite Hq, Hm in *.
  assert (q < m) by nia. nia.
Qed.

Fixpoint cnts_fit (L : list param) (fc cnts : list Z) : Prop :=
  match L, cnts with
  | [], [] => True
  | p :: L', c :: cnts' =>
      0 <= c /\ (pk p = Plain -> c = 1) /\ (pk p = Fixed -> c = hd 0 fc) /\ cnts_fit L' (tl fc) cnts'
  | _, _ => False
  end.

Section Needed.
  Variable S0 : Z.
  Hypothesis HS : pow2 S0.

  (* the padding behind a plain / FixedSize last parameter is exact when the bracket is the
     storage alignment *)
  Lemma pad_nonvar sz al c xs no x' :
    0 < sz -> pow2 al -> al <= S0 -> (al | xs) -> x' = xs + c * sz -> (S0 | x' - no) ->
    align_up x' S0 - x' <= align_if (tr_align sz al <? S0) S0 no - no.
  Proof.
    intros Hs Hal Hle Hxs Ex Hd. pose proof (pow2_pos _ HS) as HSp.
    unfold align_if. destruct (Z.ltb_spec (tr_align sz al) S0) as [Hlt|Hge].
    - replace x' with (no + (x' - no)) at 1 by lia. rewrite align_up_shift by auto. lia.
    - unfold tr_align in Hge. destruct (lowbit_spec sz Hs) as [Hlp Hld].
      assert (al = S0) by lia. subst al.
      assert (HSsz : (S0 | sz)).
      { eapply Z.divide_trans; [|exact Hld]. apply pow2_divide; auto. lia. }
      assert (HSx : (S0 | x')).
      { rewrite Ex. apply Z.divide_add_r; [exact Hxs|apply Z.divide_mul_r; exact HSsz]. }
      rewrite align_up_id by auto. lia.
  Qed.

  (* one parameter: aligned_size_in_memory over-approximates the bytes the placement uses
     (the varying payload excepted) and keeps "address = offset modulo bracket" *)
  Lemma asz_step p prev next off al fixed x c st :
    wfp p -> pal p <= S0 -> cnt_ok p c -> (pk p = Fixed -> c = fixed) ->
    Inv st prev x ->
    0 <= off -> pow2 al -> al <= S0 -> (al | x - off) -> (is_varying p = true -> 0 < off) ->
    let xs := align_if (prev <? pal p) (pal p) x in
    let x' := xs + c * psz p in
    let r := asz p prev next off al fixed in
    let no := fst (fst (fst r)) in let sz := snd (fst (fst r)) in let al' := snd r in
    0 <= no /\ pow2 al' /\ al' <= S0 /\ (al' | x' - no) /\
    x' - x - (if is_varying p then c * psz p else 0) <= sz /\
    (is_plain p = true -> 0 < no) /\
    (is_varying p = true -> no = 0) /\
    (next = S0 -> is_varying p = true \/ al' = S0 -> align_up x' S0 - x' <= snd (fst r)).
  Proof.
    intros Hwfp Hple [Hc Hc1] Hcf HI Hoff Hal HalS Hcg Hvoff.
    destruct st as [soff br]. destruct HI as (_ & Hx & _ & _ & Hp & Hpd).
    pose proof (field_aligned p prev x Hwfp Hx Hp Hpd) as (Hxsd & Hxsge & Exs). cbv zeta in Hxsd, Hxsge, Exs.
    destruct Hwfp as [Hs Hpal]. pose proof (pow2_pos _ Hpal) as Hpp. pose proof (pow2_pos _ Hal) as Hap.
    cbv zeta. set (xs := align_if (prev <? pal p) (pal p) x) in *.
    assert (Hcp : 0 <= c * psz p) by (apply Z.mul_nonneg_nonneg; lia).
    (* the padding in front of the field (concrete <= abstract) and what is known about the
       aligned address, in the two alignment regimes *)
    assert (Hcase : exists ao,
              ao = (if al <? pal p then align_up off al + pal p - al
                    else align_if (prev <? pal p) (pal p) off) /\
              xs - x <= ao - off /\ off <= ao /\
              (if al <? pal p then (pal p | xs) else (al | xs - ao))).
    { destruct (Z.ltb_spec al (pal p)) as [Hlt|Hge].
      - exists (align_up off al + pal p - al). split; [reflexivity|].
        pose proof (align_up_ge off al Hap). split; [|split; [lia|exact Hxsd]].
        unfold xs, align_if. destruct (prev <? pal p).
        + pose proof (pad_bound x off al (pal p) Hal Hpal Hlt Hoff Hcg). lia.
        + lia.
      - exists (align_if (prev <? pal p) (pal p) off). split; [reflexivity|].
        unfold xs, align_if. destruct (prev <? pal p) eqn:Epv.
        + rewrite (pad_exact x off al (pal p)) by auto. pose proof (align_up_ge off (pal p) Hpp).
          split; [lia|split; [lia|]].
          pose proof (aligned_congr p prev x off al (conj Hs Hpal) Hx Hoff Hp Hpd Hal Hcg Hge) as Hac.
          cbv zeta in Hac. unfold align_if in Hac. rewrite Epv in Hac. exact Hac.
        + split; [lia|split; [lia|exact Hcg]]. }
    destruct Hcase as (ao & Eao & Hpad & Hao & Hknown).
    unfold asz. destruct (pk p) eqn:Hk.
    - (* Plain *)
      rewrite (Hc1 eq_refl), Z.mul_1_l in *.
      unfold is_varying, is_plain. rewrite Hk. cbn [kind_eqb].
      destruct (Z.ltb_spec al (pal p)) as [Hlt|Hge]; cbv zeta; rewrite <- Eao; cbn [fst snd].
      + rewrite Z.max_r by lia. repeat split; try lia; auto; try discriminate.
        { replace (xs + psz p - psz p) with xs by lia. exact Hknown. }
        intros Hn [Hv|Hal']; [discriminate|]. rewrite Hn.
        apply pad_nonvar with (c := 1) (xs := xs); auto; try lia.
        replace (xs + psz p - psz p) with xs by lia. rewrite <- Hal'. exact Hknown.
      + rewrite Z.max_l by lia. repeat split; try lia; auto; try discriminate.
        { replace (xs + psz p - (off + (ao - off + psz p))) with (xs - ao) by lia. exact Hknown. }
        intros Hn [Hv|Hal']; [discriminate|]. rewrite Hn.
        apply pad_nonvar with (c := 1) (xs := xs); auto; try lia.
        replace (xs + psz p - (off + (ao - off + psz p))) with (xs - ao) by lia. rewrite <- Hal'. exact Hknown.
    - (* Fixed *)
      rewrite (Hcf eq_refl) in *.
      unfold is_varying, is_plain. rewrite Hk. cbn [kind_eqb].
      replace (psz p * fixed) with (fixed * psz p) by ring.
      destruct (Z.ltb_spec al (pal p)) as [Hlt|Hge]; cbv zeta; rewrite <- Eao; cbn [fst snd].
      + rewrite Z.max_r by lia. repeat split; try lia; auto; try discriminate.
        { replace (xs + fixed * psz p - fixed * psz p) with xs by lia. exact Hknown. }
        intros Hn [Hv|Hal']; [discriminate|]. rewrite Hn.
        apply pad_nonvar with (c := fixed) (xs := xs); auto; try lia.
        replace (xs + fixed * psz p - fixed * psz p) with xs by lia. rewrite <- Hal'. exact Hknown.
      + rewrite Z.max_l by lia. repeat split; try lia; auto; try discriminate.
        { replace (xs + fixed * psz p - (off + (ao - off + fixed * psz p))) with (xs - ao) by lia. exact Hknown. }
        intros Hn [Hv|Hal']; [discriminate|]. rewrite Hn.
        apply pad_nonvar with (c := fixed) (xs := xs); auto; try lia.
        replace (xs + fixed * psz p - (off + (ao - off + fixed * psz p))) with (xs - ao) by lia. rewrite <- Hal'. exact Hknown.
    - (* Varying *)
      cbv zeta. rewrite <- Eao. unfold is_varying, is_plain. rewrite Hk. cbn [kind_eqb]. cbn [fst snd].
      assert (Hoffp : 0 < off) by (apply Hvoff; unfold is_varying; rewrite Hk; reflexivity).
      assert (Haop : 0 < ao) by lia.
      destruct (lowbit_spec ao Haop) as [Hlap Hlad]. destruct (lowbit_spec (psz p) Hs) as [Hlpp Hlpd].
      unfold tr_align.
      set (tr := Z.min al (Z.min (lowbit (psz p)) (lowbit ao))).
      assert (Hm : pow2 (Z.min (lowbit (psz p)) (lowbit ao))) by (apply pow2_min; auto).
      assert (Htr : pow2 tr) by (apply pow2_min; auto).
      assert (Htr_al : (tr | al)) by (apply pow2_min_div_l; auto).
      assert (Htr_m : (tr | Z.min (lowbit (psz p)) (lowbit ao))) by (apply pow2_min_div_r; auto).
      assert (Htr_psz : (tr | psz p)).
      { eapply Z.divide_trans; [exact Htr_m|]. eapply Z.divide_trans; [apply pow2_min_div_l; auto|exact Hlpd]. }
      assert (Htr_ao : (tr | ao)).
      { eapply Z.divide_trans; [exact Htr_m|]. eapply Z.divide_trans; [apply pow2_min_div_r; auto|exact Hlad]. }
      assert (Htr_xs : (tr | xs)).
      { destruct (Z.ltb_spec al (pal p)) as [Hlt|Hge].
        - eapply Z.divide_trans; [|exact Hknown]. eapply Z.divide_trans; [exact Htr_al|].
          apply pow2_divide; auto. lia.
        - replace xs with (ao + (xs - ao)) by lia. apply Z.divide_add_r; [exact Htr_ao|].
          eapply Z.divide_trans; [exact Htr_al|exact Hknown]. }
      assert (Htr_le : tr <= S0) by (unfold tr; lia).
      repeat split; try lia; auto; try discriminate.
      { rewrite Z.sub_0_r. apply Z.divide_add_r; [exact Htr_xs|]. apply Z.divide_mul_r. exact Htr_psz. }
      intros Hn _. rewrite Hn.
      assert (Htr_x' : (tr | xs + c * psz p)).
      { apply Z.divide_add_r; [exact Htr_xs|]. apply Z.divide_mul_r. exact Htr_psz. }
      pose proof (align_gap _ tr S0 Htr HS Htr_le Htr_x') as Hgap.
      destruct (Z.ltb_spec tr S0) as [Hlt|Hge]; [lia|].
      assert (tr = S0) by lia. lia.
  Qed.
End Needed.

(* when is the padding behind the last parameter computed exactly (or safely)?  If the last
   parameter is a VaryingSize one, or if a parameter with the storage alignment follows the
   last VaryingSize one ([b]: the bracket is known to be the storage alignment). *)
Fixpoint tail_ok (S0 : Z) (b : bool) (L : list param) : bool :=
  match L with
  | [] => b
  | p :: L' =>
      match L' with
      | [] => is_varying p || b || (pal p =? S0)
      | _ => tail_ok S0 (if is_varying p then false else b || (pal p =? S0)) L'
      end
  end.

Section Bound.
  Variable L0 : list param.
  Hypothesis Hwf0 : wf_plist L0 = true.
  Let S0 := SA L0.
  Let HF0 : Forall wfp L0 := wf_plist_Forall L0 Hwf0.
  Let Hne0 : L0 <> [] := wf_plist_nonempty L0 Hwf0.
  Let HS : pow2 S0 := SA_pow2 L0 HF0 Hne0.
  Let HSp : 0 < S0 := pow2_pos _ HS.

  Lemma esize_from_bound L : forall k fc cnts st prev size off pad al x pp b,
    Forall wfp L -> (forall p, In p L -> pal p <= S0) ->
    cnts_fit L fc cnts ->
    Inv st prev x -> 0 <= off -> pow2 al -> al <= S0 -> (al | x - off) ->
    wf_varying pp L = true -> (pp = true -> 0 < off) -> (b = true -> al = S0) ->
    (forall j, (j <= length L)%nat -> prev_tr L0 (k + j) = nth j (prev :: trails_from L st) 0) ->
    (k + length L = length L0)%nat ->
    let e := snd (place_from L (prev :: trails_from L st) cnts x) in
    let r := esize_from L0 L k fc size off pad al in
    e - x - vbytes L cnts <= fst r - size /\
    (L <> [] -> tail_ok S0 b L = true -> align_up e S0 - x - vbytes L cnts <= snd r - size).
  Proof.
    induction L as [|p L IH]; intros k fc cnts st prev size off pad al x pp b Hwf Hple Hcf HI Hoff Hal HalS Hcg Hwv Hpp Hb Hpv Hlen.
    - cbv zeta. cbn [place_from esize_from vbytes fst snd]. split; [lia|congruence].
    - cbv zeta. destruct cnts as [|c cnts]; [contradiction|]. destruct Hcf as (Hc0 & Hc1 & Hcfx & Hcf).
      apply Forall_cons_iff in Hwf. destruct Hwf as [Hwp HwL].
      assert (Hple_p : pal p <= S0) by (apply Hple; left; reflexivity).
      assert (Hcnt : cnt_ok p c) by (split; auto).
      cbn [wf_varying] in Hwv. apply andb_true_iff in Hwv. destruct Hwv as [Hwv1 Hwv].
      assert (Hvoff : is_varying p = true -> 0 < off).
      { intros Hv. rewrite Hv in Hwv1. auto. }
      pose proof (step_sound p st prev x c Hwp Hcnt HI) as Hst. cbv zeta in Hst.
      destruct Hst as (_ & Hge' & _ & HI').
      assert (Hp0 : prev_tr L0 k = prev).
      { specialize (Hpv 0%nat ltac:(lia)). rewrite Nat.add_0_r in Hpv. exact Hpv. }
      pose proof (asz_step S0 HS p prev (next_al L0 k) off al (hd 0 fc) x c st Hwp Hple_p Hcnt Hcfx HI Hoff Hal HalS Hcg Hvoff) as Hstep.
      cbv zeta in Hstep.
      cbn [esize_from trails_from place_from vbytes]. rewrite Hp0.
      destruct (asz p prev (next_al L0 k) off al (hd 0 fc)) as [[[no nsz] npad] nal] eqn:Easz.
      cbn [fst snd] in Hstep. destruct Hstep as (Hno & Hnal & HnalS & Hncg & Hsz & Hplain & Hvar & Hpad).
      destruct (tr_step p st) as [st' t] eqn:Ets. cbn [fst snd] in HI'.
      set (xs := align_if (prev <? pal p) (pal p) x) in *.
      set (x' := xs + c * psz p) in *.
      set (vb := if is_varying p then c * psz p else 0) in *.
      destruct L as [|q L'].
      + (* last parameter *)
        cbn [esize_from place_from trails_from vbytes snd fst]. rewrite Z.add_0_r.
        split; [lia|]. intros _ Htl. cbn [tail_ok] in Htl.
        assert (Hnext : next_al L0 k = S0).
        { unfold next_al. cbn [length] in Hlen. replace (Nat.eqb (S k) (length L0)) with true; [reflexivity|].
          symmetry. apply Nat.eqb_eq. lia. }
        assert (Hcond : is_varying p = true \/ nal = S0).
        { destruct (is_varying p) eqn:Hv; [left; reflexivity|right]. cbn [orb] in Htl.
          (* plain / FixedSize: the bracket only grows *)
          assert (Enal : nal = Z.max al (pal p)).
          { unfold asz in Easz. unfold is_varying in Hv. destruct (pk p); cbn [kind_eqb] in Hv; try discriminate;
              destruct (al <? pal p); inversion Easz; reflexivity. }
          apply orb_true_iff in Htl. destruct Htl as [Hbt|Hps].
          - rewrite (Hb Hbt) in Enal. lia.
          - apply Z.eqb_eq in Hps. lia. }
        specialize (Hpad Hnext Hcond). lia.
      + specialize (IH (S k) (tl fc) cnts st' t (size + nsz) no npad nal x' (is_plain p)
                       (if is_varying p then false else b || (pal p =? S0)) HwL).
        cbv zeta in IH.
        destruct IH as [IH1 IH2]; auto.
        * intros r Hr. apply Hple. right; exact Hr.
        * intros Hbb. destruct (is_varying p) eqn:Hv; [discriminate|].
          assert (Enal : nal = Z.max al (pal p)).
          { unfold asz in Easz. unfold is_varying in Hv. destruct (pk p); cbn [kind_eqb] in Hv; try discriminate;
              destruct (al <? pal p); inversion Easz; reflexivity. }
          apply orb_true_iff in Hbb. destruct Hbb as [Hbt|Hps].
          -- rewrite (Hb Hbt) in Enal. lia.
          -- apply Z.eqb_eq in Hps. lia.
        * intros j Hj. specialize (Hpv (S j) ltac:(cbn [length] in *; lia)).
          replace (S k + j)%nat with (k + S j)%nat by lia. rewrite Hpv. cbn [trails_from]. rewrite Ets. reflexivity.
        * cbn [length] in *. lia.
        * destruct (place_from (q :: L') (t :: trails_from (q :: L') st') cnts x') as [rr e] eqn:Ep.
          cbn [fst snd] in *.
          split; [lia|]. intros _ Htl. 
          assert (Htl' : tail_ok S0 (if is_varying p then false else b || (pal p =? S0)) (q :: L') = true) by exact Htl.
          specialize (IH2 ltac:(discriminate) Htl'). lia.
  Qed.
End Bound.

Lemma cnts_fit_cnt_ok L : forall fc cnts, cnts_fit L fc cnts -> Forall2 cnt_ok L cnts.
Proof.
  induction L as [|p L IH]; intros fc cnts H; destruct cnts as [|c cnts]; try contradiction; constructor.
  - destruct H as (H0 & H1 & _). split; auto.
  - destruct H as (_ & _ & _ & H). eapply IH; eauto.
Qed.

Lemma cnts_fit_nonneg L : forall fc cnts, cnts_fit L fc cnts -> Forall (fun c => 0 <= c) cnts.
Proof.
  induction L as [|p L IH]; intros fc cnts H; destruct cnts as [|c cnts]; try contradiction; constructor.
  - destruct H as (H0 & _). exact H0.
  - destruct H as (_ & _ & _ & H). eapply IH; eauto.
Qed.

(* ONE element stored at a storage-aligned address: it ends inside size + payload bytes,
   and (when the tail of the list is benign) the next element starts inside
   stride + payload bytes *)
Theorem element_bound L fixed cnts a :
  wf_plist L = true -> cnts_fit L (fixed_counts L fixed) cnts -> 0 <= a -> (SA L | a) ->
  let e := snd (place L cnts a) in
  e - a <= fst (esize L fixed) + vbytes L cnts /\
  (tail_ok (SA L) true L = true -> first_align L e - a <= snd (esize L fixed) + vbytes L cnts).
Proof.
  intros Hwf Hcf Ha HaS. cbv zeta.
  pose proof (wf_plist_Forall _ Hwf) as HF. pose proof (wf_plist_nonempty _ Hwf) as Hne.
  pose proof (SA_pow2 L HF Hne) as HS.
  pose proof (esize_from_bound L Hwf L 0%nat (fixed_counts L fixed) cnts (0, SA L) (SA L) 0 0 0 (SA L) a false true HF) as H.
  cbv zeta in H.
  assert (HI : Inv (0, SA L) (SA L) a) by (apply Inv_init; auto).
  assert (Hpv : forall j, (j <= length L)%nat -> prev_tr L (0 + j) = nth j (SA L :: trails_from L (0, SA L)) 0).
  { intros j Hj. unfold prev_tr, trails. destruct j; reflexivity. }
  assert (Hwv : wf_varying false L = true).
  { unfold wf_plist in Hwf. destruct L; [discriminate|]. apply andb_true_iff in Hwf. tauto. }
  destruct H as [H1 H2]; auto; try lia.
  - intros p Hp. apply SA_ge; auto.
  - rewrite Z.sub_0_r. exact HaS.
  - unfold esize, place, prevs, trails. split; [lia|].
    intros Htl. specialize (H2 Hne Htl).
    pose proof (first_align_end L cnts a Hwf (cnts_fit_cnt_ok _ _ _ Hcf) Ha HaS) as (_ & _ & E).
    cbv zeta in E. unfold place, prevs, trails in E. rewrite E. lia.
Qed.

(* emplace_back after emplace_back: [l] is the end of the previous element (0 for an empty
   vector); every element goes to first_align of that address *)
Fixpoint fill (L : list param) (cs : list (list Z)) (l : Z) : Z :=
  match cs with
  | [] => l
  | c :: r => fill L r (snd (place L c (first_align L l)))
  end.

Definition payload (L : list param) (cs : list (list Z)) : Z :=
  fold_right Z.add 0 (map (vbytes L) cs).

Lemma fill_bound L fixed : wf_plist L = true -> tail_ok (SA L) true L = true ->
  forall cs l a0, Forall (cnts_fit L (fixed_counts L fixed)) cs -> cs <> [] ->
  first_align L l = a0 -> 0 <= a0 -> (SA L | a0) ->
  fill L cs l <= a0 + snd (esize L fixed) * (Z.of_nat (length cs) - 1) + fst (esize L fixed) + payload L cs.
Proof.
  intros Hwf Htl. induction cs as [|c r IH]; intros l a0 Hcs Hne El Ha0 HaS; [congruence|].
  inversion Hcs as [|c' r' Hc Hr]; subst c' r'.
  cbn [fill]. rewrite El.
  destruct (element_bound L fixed c a0 Hwf Hc Ha0 HaS) as [H1 H2]. cbv zeta in H1, H2. specialize (H2 Htl).
  unfold payload. cbn [map fold_right]. fold (payload L r).
  set (l1 := snd (place L c a0)) in *.
  destruct r as [|c2 r].
  - cbn [fill length payload map fold_right]. lia.
  - pose proof (first_align_end L c a0 Hwf (cnts_fit_cnt_ok _ _ _ Hc) Ha0 HaS) as (Hd & Hge & _).
    cbv zeta in Hd, Hge. fold l1 in Hd, Hge.
    assert (Hl1 : a0 <= l1).
    { unfold l1, place. apply place_from_end_ge; [apply wf_plist_Forall; auto|eapply cnts_fit_nonneg; eauto]. }
    specialize (IH l1 (first_align L l1) Hr ltac:(discriminate) eq_refl ltac:(lia) Hd).
    set (s := snd (esize L fixed)) in *. set (z := fst (esize L fixed)) in *.
    change (length (c :: c2 :: r)) with (S (length (c2 :: r))). rewrite Nat2Z.inj_succ.
    set (m := Z.of_nat (length (c2 :: r))) in *.
    replace (s * (Z.succ m - 1)) with (s + s * (m - 1)) by ring.
    lia.
Qed.

(* C02 (a), worst case formula: N elements whose varying payload adds up to at most B bytes
   end inside calculate_needed_memory_size(N, B, calculate_element_size(fixed)) bytes - for
   every well-formed list whose tail is benign ([tail_ok]) *)
Theorem needed_sufficient L fixed cs B :
  wf_plist L = true -> tail_ok (SA L) true L = true ->
  Forall (cnts_fit L (fixed_counts L fixed)) cs -> payload L cs <= B -> 0 <= B ->
  fill L cs 0 <= needed (Z.of_nat (length cs)) B (esize L fixed).
Proof.
  intros Hwf Htl Hcs HB HB0.
  destruct cs as [|c r].
  - cbn [fill length]. unfold needed. destruct (esize L fixed) as [z s]. cbn. lia.
  - pose proof (fill_bound L fixed Hwf Htl (c :: r) 0 0 Hcs ltac:(discriminate)) as H.
    rewrite first_align_aligned in H by (auto; apply Z.divide_0_r).
    specialize (H eq_refl ltac:(lia) (Z.divide_0_r _)).
    unfold needed. destruct (esize L fixed) as [z s]. cbn [fst snd] in *.
    replace (Z.of_nat (length (c :: r)) =? 0) with false by (symmetry; apply Z.eqb_neq; cbn [length]; lia).
    set (m := Z.of_nat (length (c :: r))) in *.
    replace (s * (m - 1)) with (s * m - s) in H by ring. lia.
Qed.

(* which lists are covered *)
Lemma tail_ok_novar S0 L : forall b, existsb is_varying L = false -> b = true -> tail_ok S0 b L = true.
Proof.
  induction L as [|p L IH]; intros b Hnv Hb; [exact Hb|].
  cbn [existsb] in Hnv. apply orb_false_iff in Hnv. destruct Hnv as [Hp HL].
  cbn [tail_ok]. rewrite Hp, Hb. destruct L as [|q L']; [reflexivity|]. apply IH; auto.
Qed.

Lemma tail_ok_last_varying S0 L : forall b, L <> [] -> is_varying (last L {| pk := Plain; psz := 1; pal := 1; pty := TBlob |}) = true ->
  tail_ok S0 b L = true.
Proof.
  induction L as [|p L IH]; intros b Hne Hl; [congruence|].
  cbn [tail_ok]. destruct L as [|q L'].
  - cbn [last] in Hl. rewrite Hl. reflexivity.
  - apply IH; [discriminate|exact Hl].
Qed.

(* ... and therefore inside the block allocate_memory obtains for that many bytes *)
Theorem needed_sufficient_block L fixed cs B :
  wf_plist L = true -> tail_ok (SA L) true L = true ->
  Forall (cnts_fit L (fixed_counts L fixed)) cs -> payload L cs <= B -> 0 <= B ->
  0 <= fill L cs 0 <= SA L * units L (needed (Z.of_nat (length cs)) B (esize L fixed)).
Proof.
  intros Hwf Htl Hcs HB HB0.
  pose proof (needed_sufficient L fixed cs B Hwf Htl Hcs HB HB0) as H.
  pose proof (wf_plist_Forall _ Hwf) as HF. pose proof (wf_plist_nonempty _ Hwf) as Hne.
  pose proof (pow2_pos _ (SA_pow2 L HF Hne)) as HSp.
  assert (H0 : forall cs l, Forall (cnts_fit L (fixed_counts L fixed)) cs -> 0 <= l -> 0 <= fill L cs l).
  { clear - Hwf HF. induction cs as [|c r IH]; intros l Hc Hl; [exact Hl|].
    inversion Hc; subst. cbn [fill]. apply IH; auto.
    pose proof (first_align_ge L l Hwf).
    assert (first_align L l <= snd (place L c (first_align L l))).
    { unfold place. apply place_from_end_ge; auto. eapply cnts_fit_nonneg; eauto. }
    lia. }
  specialize (H0 cs 0 Hcs ltac:(lia)). split; [exact H0|].
  eapply Z.le_trans; [exact H|]. apply units_ge; auto. lia.
Qed.

(* the hypotheses are satisfiable: (uint32, VaryingSize<uint16>), three elements *)
Definition exL : list param :=
  [ {| pk := Plain; psz := 4; pal := 4; pty := TUInt |};
    {| pk := Varying; psz := 2; pal := 2; pty := TUInt |} ].
Example needed_sufficient_applies :
  wf_plist exL = true /\ tail_ok (SA exL) true exL = true /\
  Forall (cnts_fit exL (fixed_counts exL [])) [[1; 3]; [1; 0]; [1; 5]] /\
  payload exL [[1; 3]; [1; 0]; [1; 5]] = 16 /\
  fill exL [[1; 3]; [1; 0]; [1; 5]] 0 = 30 /\
  needed 3 16 (esize exL []) = 32.
Proof.
  repeat split; try reflexivity.
  repeat constructor; cbn; try lia; discriminate.
Qed.

(* the refutation witness of C02Thm lies outside: a 1-aligned plain field behind the span *)
Example f7L_tail_not_ok : tail_ok (SA f7L) true f7L = false.
Proof. reflexivity. Qed.
