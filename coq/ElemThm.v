(* ElemThm.v — a ContiguousElement constructed from a reference is a deep copy: its own
   block holds exactly the source element's tuple, the source is unchanged.  Proved for
   every well-formed parameter list of trivially copy/move-constructible types. *)
From Coq Require Import ZArith List Bool Lia.
From Cntgs Require Import Base BaseLemmas Layout LayoutThm Mem MemLemmas Vector Proxy Elem Spec Rep ElemLemmas Refine CompareThm RunsThm.
Import ListNotations.
Local Open Scope Z_scope.

Lemma construct_fields_triv mv : forall L fls fld sb db ms md,
  all_ctriv mv L = true -> construct_fields mv L fls fld sb db ms md = (ms, md, []).
Proof.
  induction L as [|p L IH]; intros fls fld sb db ms md H; [reflexivity|].
  unfold all_ctriv in H. cbn [forallb] in H. apply andb_true_iff in H. destruct H as [Hp HL].
  destruct fls as [|[sa c] fls]; [reflexivity|]. destruct fld as [|[da c'] fld]; [reflexivity|].
  cbn [construct_fields]. apply negb_true_iff in Hp. rewrite Hp.
  rewrite (IH fls fld sb db ms md HL). reflexivity.
Qed.

(* the end of the last field is the end of the element *)
Lemma place_from_last L : forall pv cnts a, L <> [] ->
  (length L <= length pv)%nat -> length cnts = length L ->
  fend (last L pparam0) (last (combine (fst (place_from L pv cnts a)) cnts) fld0)
  = snd (place_from L pv cnts a).
Proof.
  induction L as [|p L IH]; intros pv cnts a Hne Hpv Hc; [congruence|].
  destruct pv as [|pt pv]; [cbn [length] in Hpv; lia|].
  destruct cnts as [|c cnts]; [discriminate|].
  cbn [place_from].
  destruct (place_from L pv cnts (align_if (pt <? pal p) (pal p) a + c * psz p)) as [r e] eqn:E.
  cbn [fst snd combine].
  destruct L as [|q L'].
  - cbn [place_from] in E. injection E as <- <-. destruct cnts; [|discriminate].
    cbn [combine last]. unfold fend. cbn [fst snd]. reflexivity.
  - assert (Hr : combine r cnts <> []).
    { destruct pv as [|pt' pv']; [cbn [length] in Hpv; lia|]. destruct cnts as [|c' cnts']; [discriminate|].
      cbn [place_from] in E. destruct (place_from L' pv' cnts' _) as [r' e']. injection E as <- _.
      cbn [combine]. discriminate. }
    specialize (IH pv cnts (align_if (pt <? pal p) (pal p) a + c * psz p) ltac:(discriminate)
                   ltac:(cbn [length] in *; lia) ltac:(cbn [length] in *; lia)).
    rewrite E in IH. cbn [fst snd] in IH.
    change (last (p :: q :: L') pparam0) with (last (q :: L') pparam0).
    destruct (combine r cnts) as [|x xs] eqn:Ec; [congruence|].
    change (last ((align_if (pt <? pal p) (pal p) a, c) :: x :: xs) fld0) with (last (x :: xs) fld0).
    exact IH.
Qed.

Lemma place_from_fst_length L : forall pv cnts a,
  (length L <= length pv)%nat -> length cnts = length L ->
  length (fst (place_from L pv cnts a)) = length L.
Proof.
  induction L as [|p L IH]; intros pv cnts a Hpv Hc; [reflexivity|].
  destruct pv as [|pt pv]; [cbn [length] in Hpv; lia|]. destruct cnts as [|c cnts]; [discriminate|].
  cbn [place_from].
  specialize (IH pv cnts (align_if (pt <? pal p) (pal p) a + c * psz p)
                 ltac:(cbn [length] in *; lia) ltac:(cbn [length] in *; lia)).
  destruct (place_from L pv cnts _) as [r e]. cbn [fst length] in *. lia.
Qed.

Lemma map_snd_combine {A B} : forall (l1 : list A) (l2 : list B),
  length l1 = length l2 -> map snd (combine l1 l2) = l2.
Proof.
  induction l1 as [|x l1 IH]; intros [|y l2] H; cbn [combine map]; try discriminate; [reflexivity|].
  cbn [snd]. f_equal. apply IH. cbn [length] in H. lia.
Qed.

Section ElemFromRef.
  Variable L : list param.
  Hypothesis Hwf : wf_plist L = true.
  Hypothesis Hct : forall mv, all_ctriv mv L = true.

  Let HF : Forall wfp L := wf_plist_Forall L Hwf.
  Let Hne : L <> [] := wf_plist_nonempty L Hwf.

  Lemma prevs_length : length (prevs L) = S (length L).
  Proof. unfold prevs, trails. cbn [length]. f_equal. apply trails_from_length. Qed.

  (* the field table a reference to the element at [a] holds *)
  Definition ref_fl (t : tuple) (a : Z) : list (Z * Z) :=
    combine (fst (place L (cnts_of t) a)) (cnts_of t).

  Lemma cnts_length t fc : tuple_ok L fc 0 t -> length (cnts_of t) = length L.
  Proof. intros Ht. unfold cnts_of. rewrite map_length. eapply tuple_ok_length; eauto. Qed.

  Lemma ref_fl_snd t a fc : tuple_ok L fc 0 t -> map snd (ref_fl t a) = cnts_of t.
  Proof.
    intros Ht. unfold ref_fl. apply map_snd_combine. unfold place.
    rewrite place_from_fst_length; [symmetry; eapply cnts_length; eauto| |eapply cnts_length; eauto].
    rewrite prevs_length. lia.
  Qed.

  Lemma ref_fl_bytes t a fc : tuple_ok L fc 0 t -> 0 <= a -> (SA L | a) ->
    ref_bytes L (ref_fl t a) = elem_end L a t - a.
  Proof.
    intros Ht Ha Hd. unfold ref_bytes, ref_fl, elem_end, place.
    rewrite place_from_last; [|exact Hne|rewrite prevs_length; lia|eapply cnts_length; eauto].
    f_equal.
    pose proof (place_first L (cnts_of t) a Hwf (tuple_ok_cnt_ok L _ _ _ Ht) Ha Hd) as Hf.
    unfold place in Hf.
    pose proof (cnts_length t fc Ht) as Hc.
    pose proof (place_from_fst_length L (prevs L) (cnts_of t) a ltac:(rewrite prevs_length; lia) Hc) as Hl.
    destruct (fst (place_from L (prevs L) (cnts_of t) a)) as [|x xs].
    - cbn [length] in Hl. destruct L; [congruence|discriminate].
    - destruct (cnts_of t) as [|c cs]; [destruct L; [congruence|discriminate]|].
      cbn [combine hd fst] in *. exact Hf.
  Qed.

  Theorem elem_from_ref_spec mv ms a t fc sb aid junk nb :
    tuple_ok L fc 0 t -> elem_at L ms a t -> 0 <= a -> (SA L | a) ->
    let '(ms1, el, evs) := elem_from_ref mv L ms (ref_fl t a) sb aid junk nb in
    ms1 = ms /\ elem_at L (e_mem el) 0 t /\ e_fl el = ref_fl t 0 /\
    e_bid el = Some nb /\ e_aid el = aid /\ e_units el = units L (elem_end L a t - a).
  Proof.
    intros Ht He Ha Hd. unfold elem_from_ref, store_and_load.
    rewrite construct_fields_triv by (apply Hct).
    rewrite (ref_fl_bytes t a fc Ht Ha Hd).
    cbn [e_mem e_fl e_bid e_aid e_units].
    assert (Hhd : fst (hd fld0 (ref_fl t a)) = a).
    { pose proof (place_first L (cnts_of t) a Hwf (tuple_ok_cnt_ok L _ _ _ Ht) Ha Hd) as Hf.
      unfold ref_fl, place in *.
      pose proof (cnts_length t fc Ht) as Hc.
      pose proof (place_from_fst_length L (prevs L) (cnts_of t) a ltac:(rewrite prevs_length; lia) Hc) as Hl.
      destruct (fst (place_from L (prevs L) (cnts_of t) a)) as [|x xs].
      - cbn [length] in Hl. destruct L; [congruence|discriminate].
      - destruct (cnts_of t) as [|c cs]; [destruct L; [congruence|discriminate]|].
        cbn [combine hd fst] in *. exact Hf. }
    rewrite Hhd.
    repeat split.
    - (* the element's own block holds the tuple *)
      unfold elem_at in *. replace 0 with (a + - a) at 2 by lia.
      eapply (elem_from_shift L (prevs L) ms _ a t fc 0 (- a)); eauto.
      + intros p Hp. apply Z.divide_opp_r. eapply Z.divide_trans; [apply SA_div; eauto|exact Hd].
      + intros x Hx. unfold mcopy. fold (place L (cnts_of t) a) in Hx. fold (elem_end L a t) in Hx.
        assert (E : inr 0 (elem_end L a t - a) (x + - a) = true) by (apply inr_true; lia).
        rewrite E. f_equal. lia.
    - unfold fl_at0. rewrite (ref_fl_snd t a fc Ht). reflexivity.
  Qed.
End ElemFromRef.

(* ---------- copies of an element and assignment between elements ---------- *)
Section ElemCopies.
  Variable L : list param.
  Hypothesis Hwf : wf_plist L = true.
  Hypothesis Hct : forall mv, all_ctriv mv L = true.
  Hypothesis Hdt : all_dtriv L = true.

  (* an element that holds the tuple t: its block has the tuple at offset 0 and its reference
     is the field table of that tuple *)
  Definition elem_holds (e : elem) (t : tuple) : Prop :=
    elem_at L (e_mem e) 0 t /\ e_fl e = ref_fl L t 0.

  Lemma SA_div0 : (SA L | 0). Proof. apply Z.divide_0_r. Qed.

  (* copy construction: the copy holds the same tuple in a block of its own, with the
     allocator it was given; the source is not touched (it is not even an output) *)
  Theorem elem_copy_spec src t fc aid junk nb : tuple_ok L fc 0 t -> elem_holds src t ->
    let '(d, evs) := elem_copy L src aid junk nb in
    elem_holds d t /\ e_bid d = Some nb /\ e_aid d = aid /\ e_units d = e_units src.
  Proof.
    intros Ht [He Hfl]. unfold elem_copy, store_and_load.
    rewrite construct_fields_triv by (apply Hct). rewrite Hfl.
    pose proof (elem_from_ref_spec L Hwf Hct false (e_mem src) 0 t fc (bidn (e_bid src)) aid junk nb Ht He
                  ltac:(lia) SA_div0) as H.
    unfold elem_from_ref, store_and_load in H. rewrite construct_fields_triv in H by (apply Hct).
    cbn [e_mem e_fl e_bid e_aid e_units] in *.
    destruct H as (_ & H2 & H3 & _). repeat split; assumption.
  Qed.

  (* copy assignment on the general (re-allocating) path, into ANY target - whatever it held,
     moved-from or not, whatever its size: afterwards it holds the source's tuple *)
  Theorem elem_copy_assign_general_spec pocca ae d src t fc junk nb :
    tuple_ok L fc 0 t -> elem_holds src t ->
    (fixed_or_plain L && (negb pocca || ae) && match e_bid d with Some _ => true | None => false end) = false ->
    let '(d', evs, nb') := elem_copy_assign pocca ae L d src junk nb in
    elem_holds d' t /\ e_bid d' = Some nb /\ e_aid d' = (if pocca then e_aid src else e_aid d) /\
    e_units d' = e_units src.
  Proof.
    intros Ht [He Hfl] Hpath. unfold elem_copy_assign. rewrite Hpath.
    assert (Hd : elem_destruct L d = (d, [])).
    { unfold elem_destruct. destruct (e_bid d); [rewrite Hdt|]; reflexivity. }
    rewrite Hd. unfold store_and_load. rewrite construct_fields_triv by (apply Hct). rewrite Hfl.
    pose proof (elem_from_ref_spec L Hwf Hct false (e_mem src) 0 t fc (bidn (e_bid src)) 0 junk nb Ht He
                  ltac:(lia) SA_div0) as H.
    unfold elem_from_ref, store_and_load in H. rewrite construct_fields_triv in H by (apply Hct).
    cbn [e_mem e_fl e_bid e_aid e_units] in *.
    destruct H as (_ & H2 & H3 & _). repeat split; assumption.
  Qed.

  (* stealing move assignment: the target takes over the source's block and tuple, the
     source is left without memory *)
  Theorem elem_steal_spec pocma d src t : elem_holds src t ->
    let '(d', src', evs) := elem_steal pocma L d src in
    elem_holds d' t /\ e_bid d' = e_bid src /\ e_bid src' = None /\
    e_aid d' = (if pocma then e_aid src else e_aid d).
  Proof.
    intros [He Hfl]. unfold elem_steal.
    destruct (elem_destruct L d) as [d1 e1]. cbn [e_mem e_fl e_bid e_aid]. unfold elem_holds.
    cbn [e_mem e_fl]. repeat split; assumption.
  Qed.
  (* move assignment on the general path (unequal non-propagating allocators; a list with a
     VaryingSize parameter, or a target without storage): whether a new block is requested or
     the target's block is reused, the target ends up holding the source's tuple with its own
     allocator; for these (trivially constructible) types the source keeps bytes and block *)
  Theorem elem_move_assign_general_spec pocma ae d src t fc junk nb :
    tuple_ok L fc 0 t -> elem_holds src t ->
    (ae || pocma || (e_aid d =? e_aid src)) = false ->
    (fixed_or_plain L && match e_bid d with Some _ => true | None => false end) = false ->
    let '(d', src', evs, nb') := elem_move_assign pocma ae L d src junk nb in
    elem_holds d' t /\ e_aid d' = e_aid d /\
    e_bid d' = (if e_units d <? ref_bytes L (e_fl src) then Some nb else e_bid d) /\
    e_mem src' = e_mem src /\ e_fl src' = e_fl src /\ e_bid src' = e_bid src.
  Proof.
    intros Ht [He Hfl] Hns Hpath. unfold elem_move_assign. rewrite Hns, Hpath.
    assert (Hd : elem_destruct L d = (d, [])).
    { unfold elem_destruct. destruct (e_bid d); [rewrite Hdt|]; reflexivity. }
    rewrite Hd. unfold store_and_load. rewrite !construct_fields_triv by (apply Hct).
    destruct (e_units d <? ref_bytes L (e_fl src)).
    - rewrite Hfl.
      pose proof (elem_from_ref_spec L Hwf Hct true (e_mem src) 0 t fc (bidn (e_bid src)) 0 junk nb Ht He
                    ltac:(lia) SA_div0) as H.
      unfold elem_from_ref, store_and_load in H. rewrite construct_fields_triv in H by (apply Hct).
      cbn [e_mem e_fl e_bid e_aid e_units set_emem] in *.
      destruct H as (_ & H2 & H3 & _). repeat split; assumption.
    - rewrite Hfl.
      pose proof (elem_from_ref_spec L Hwf Hct true (e_mem src) 0 t fc (bidn (e_bid src)) 0 (e_mem d) (bidn (e_bid d)) Ht He
                    ltac:(lia) SA_div0) as H.
      unfold elem_from_ref, store_and_load in H. rewrite construct_fields_triv in H by (apply Hct).
      cbn [e_mem e_fl e_bid e_aid e_units set_emem] in *.
      destruct H as (_ & H2 & H3 & _). repeat split; assumption.
  Qed.
  (* allocator-extended move constructor value_type(std::move(e), alloc): with an equal (or
     always-equal) allocator the new element takes over block and tuple and the source is left
     without memory; otherwise it gets a block of its own from the given allocator holding the
     tuple, and the source keeps its block *)
  Theorem elem_move_alloc_spec ae src t fc aid junk nb : tuple_ok L fc 0 t -> elem_holds src t ->
    let '(d, src', evs, fresh) := elem_move_alloc ae L src aid junk nb in
    elem_holds d t /\
    (if ae || (aid =? e_aid src)
     then e_bid d = e_bid src /\ e_bid src' = None /\ fresh = false
     else e_bid d = Some nb /\ e_aid d = aid /\ e_units d = e_units src /\ e_bid src' = e_bid src /\
          e_mem src' = e_mem src /\ fresh = true).
  Proof.
    intros Ht [He Hfl]. unfold elem_move_alloc.
    destruct (ae || (aid =? e_aid src)).
    - unfold elem_holds. cbn [elem_moved_from e_bid]. repeat split; assumption.
    - unfold store_and_load. rewrite construct_fields_triv by (apply Hct). rewrite Hfl.
      pose proof (elem_from_ref_spec L Hwf Hct true (e_mem src) 0 t fc (bidn (e_bid src)) aid junk nb Ht He
                    ltac:(lia) SA_div0) as H.
      unfold elem_from_ref, store_and_load in H. rewrite construct_fields_triv in H by (apply Hct).
      cbn [e_mem e_fl e_bid e_aid e_units set_emem] in *.
      destruct H as (_ & H2 & H3 & _). repeat split; assumption.
  Qed.
End ElemCopies.
