(* LessVec.v — vector < on the element-wise path is the lexicographical comparison of the two
   lists of tuples under the element-level < (C14, vector level).
   FastLess.v covers the whole-buffer path; here: in every pair of represented states the
   library's loop (std::lexicographical_compare over the references) computes
   lexb (tuple_less L) l1 l2 - strict prefix is less, the first pair of elements that is
   ordered either way decides - where tuple_less is the element-level < as a function of the
   tuples alone (CmpContent.elem_less_content). *)
From Coq Require Import ZArith List Bool Lia.
From Cntgs Require Import Base BaseLemmas Layout LayoutThm Mem MemLemmas Vector Proxy Spec Rep ElemLemmas
     Ordered Refine CompareThm RunsThm ElemThm CmpContent.
Import ListNotations.
Local Open Scope Z_scope.

Lemma skipn_nth_cons_ {A} (d : A) : forall i (l : list A), (i < length l)%nat -> skipn i l = nth i l d :: skipn (S i) l.
Proof.
  induction i as [|i IH]; intros [|x l] H; cbn [length] in H; try lia; [reflexivity|].
  cbn [skipn nth]. apply IH. lia.
Qed.

Section LessVec.
  Variable L : list param.
  Hypothesis Hwf : wf_plist L = true.
  Variables (v1 v2 : vec) (l1 l2 : list tuple) (o1 o2 : list Z).
  Hypothesis R1 : RepO L v1 l1 o1.
  Hypothesis R2 : RepO L v2 l2 o2.

  Lemma ref_less_content i : (i < length l1)%nat -> (i < length l2)%nat ->
    ref_less L v1 (Z.of_nat i) v2 (Z.of_nat i) = tuple_less L (nth i l1 []) (nth i l2 []) /\
    ref_less L v2 (Z.of_nat i) v1 (Z.of_nat i) = tuple_less L (nth i l2 []) (nth i l1 []).
  Proof.
    intros H1 H2.
    destruct (rep_ref L Hwf v1 l1 o1 i R1 H1) as (Ht1 & He1 & Hf1).
    destruct (rep_ref L Hwf v2 l2 o2 i R2 H2) as (Ht2 & He2 & Hf2).
    unfold ref_less. rewrite Hf1, Hf2. split.
    - exact (elem_less_content L Hwf _ _ _ _ _ _ _ _ Ht1 Ht2 He1 He2).
    - exact (elem_less_content L Hwf _ _ _ _ _ _ _ _ Ht2 Ht1 He2 He1).
  Qed.

  Lemma elems_less_from_content : forall fuel i, (length l1 - i <= fuel)%nat ->
    elems_less_from L v1 v2 (Z.of_nat i) fuel = lexb _ (tuple_less L) (skipn i l1) (skipn i l2).
  Proof.
    pose proof (rep_vsize L v1 l1 o1 R1) as S1. pose proof (rep_vsize L v2 l2 o2 R2) as S2.
    assert (Hend : forall i, (length l1 <= i)%nat ->
              (vsize L v1 <=? Z.of_nat i) && (Z.of_nat i <? vsize L v2) = lexb _ (tuple_less L) (skipn i l1) (skipn i l2)).
    { intros i Hi. rewrite S1, S2. rewrite (skipn_all2 l1) by lia.
      replace (Z.of_nat (length l1) <=? Z.of_nat i) with true by (symmetry; apply Z.leb_le; lia). cbn [andb].
      destruct (Nat.lt_ge_cases i (length l2)) as [Hlt|Hge].
      - rewrite (skipn_nth_cons_ ([] : tuple) i l2 Hlt). cbn [lexb]. apply Z.ltb_lt. lia.
      - rewrite (skipn_all2 l2) by lia. cbn [lexb]. apply Z.ltb_ge. lia. }
    induction fuel as [|f IH]; intros i Hf; cbn [elems_less_from].
    - apply Hend. lia.
    - destruct (Nat.lt_ge_cases i (length l1)) as [H1|H1].
      + destruct (Nat.lt_ge_cases i (length l2)) as [H2|H2].
        * rewrite S1, S2.
          replace (Z.of_nat (length l1) <=? Z.of_nat i) with false by (symmetry; apply Z.leb_gt; lia).
          replace (Z.of_nat (length l2) <=? Z.of_nat i) with false by (symmetry; apply Z.leb_gt; lia).
          cbn [orb]. destruct (ref_less_content i H1 H2) as [E1 E2]. rewrite E1, E2.
          rewrite (skipn_nth_cons_ ([] : tuple) i l1 H1), (skipn_nth_cons_ ([] : tuple) i l2 H2). cbn [lexb].
          destruct (tuple_less L (nth i l1 []) (nth i l2 [])); [reflexivity|].
          destruct (tuple_less L (nth i l2 []) (nth i l1 [])); [reflexivity|].
          replace (Z.of_nat i + 1) with (Z.of_nat (S i)) by lia. apply IH. lia.
        * rewrite S1, S2.
          replace (Z.of_nat (length l2) <=? Z.of_nat i) with true by (symmetry; apply Z.leb_le; lia).
          rewrite orb_true_r.
          replace (Z.of_nat (length l1) <=? Z.of_nat i) with false by (symmetry; apply Z.leb_gt; lia). cbn [andb].
          rewrite (skipn_all2 l2) by lia. destruct (skipn i l1); reflexivity.
      + pose proof (Hend i H1) as E.
        assert (Hb : (vsize L v1 <=? Z.of_nat i) = true) by (rewrite S1; apply Z.leb_le; lia).
        rewrite Hb in *. cbn [orb]. exact E.
  Qed.

  (* vector <, whenever it takes the element-wise path *)
  Theorem vec_less_content_elementwise :
    (forallb lxm L && negb (has_varying L) && padfree L && list_eqb (v_fixed v1) (v_fixed v2)) = false ->
    vec_less L v1 v2 = lexb _ (tuple_less L) l1 l2.
  Proof.
    intros Hc. unfold vec_less. rewrite Hc. unfold elems_less.
    rewrite (rep_vsize L v1 l1 o1 R1), Nat2Z.id.
    change 0 with (Z.of_nat 0). rewrite (elems_less_from_content (length l1) 0 ltac:(lia)). reflexivity.
  Qed.
End LessVec.

(* ---------- vector == on the element-wise path for EVERY list, floating-point fields included:
   equal exactly when the two lists have the same length and corresponding elements hold
   field-wise equal objects under the value type's own == ---------- *)
Section EqVecEqv.
  Variable L : list param.
  Hypothesis Hwf : wf_plist L = true.
  Variables (v1 v2 : vec) (l1 l2 : list tuple) (o1 o2 : list Z).
  Hypothesis R1 : RepO L v1 l1 o1.
  Hypothesis R2 : RepO L v2 l2 o2.

  Theorem elems_equal_eqv :
    elems_equal L v1 v2 = true <->
    length l1 = length l2 /\ forall i, (i < length l1)%nat -> tuple_eqv L (nth i l1 []) (nth i l2 []).
  Proof.
    unfold elems_equal. rewrite (rep_vsize L v1 l1 o1 R1), (rep_vsize L v2 l2 o2 R2).
    rewrite andb_true_iff, Z.eqb_eq, forallb_forall, Nat2Z.id. split.
    - intros [Hlen Hall]. apply Nat2Z.inj in Hlen. split; [exact Hlen|]. intros i Hi.
      assert (Hi2 : (i < length l2)%nat) by (rewrite <- Hlen; exact Hi).
      destruct (rep_ref L Hwf v1 l1 o1 i R1 Hi) as (Ht1 & He1 & Hf1).
      destruct (rep_ref L Hwf v2 l2 o2 i R2 Hi2) as (Ht2 & He2 & Hf2).
      specialize (Hall i ltac:(apply in_seq; lia)). unfold ref_equal in Hall. rewrite Hf1, Hf2 in Hall.
      exact (proj1 (elem_equal_content_eqv L Hwf _ _ _ _ Ht1 Ht2 _ _ _ _ He1 He2) Hall).
    - intros [Hlen Hall]. split; [rewrite Hlen; reflexivity|]. intros i Hi. apply in_seq in Hi.
      assert (Hi1 : (i < length l1)%nat) by lia. assert (Hi2 : (i < length l2)%nat) by (rewrite <- Hlen; exact Hi1).
      destruct (rep_ref L Hwf v1 l1 o1 i R1 Hi1) as (Ht1 & He1 & Hf1).
      destruct (rep_ref L Hwf v2 l2 o2 i R2 Hi2) as (Ht2 & He2 & Hf2).
      unfold ref_equal. rewrite Hf1, Hf2.
      exact (proj2 (elem_equal_content_eqv L Hwf _ _ _ _ Ht1 Ht2 _ _ _ _ He1 He2) (Hall i Hi1)).
  Qed.

  Theorem vec_equal_eqv_elementwise :
    (forallb eqm L && padfree L && list_eqb (v_fixed v1) (v_fixed v2)) = false ->
    (vec_equal L v1 v2 = true <->
     length l1 = length l2 /\ forall i, (i < length l1)%nat -> tuple_eqv L (nth i l1 []) (nth i l2 [])).
  Proof. intros Hc. unfold vec_equal. rewrite Hc. exact elems_equal_eqv. Qed.
End EqVecEqv.
