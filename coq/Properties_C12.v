(* C12 — ContiguousElement is an independent deep copy.
   Proved for EVERY well-formed parameter list of trivially copy/move-constructible value
   types, every SA-aligned source position, every junk content of the fresh block and either
   construction form (copy / move): the element constructed from a reference owns a fresh
   block that holds exactly the source element's tuple (elem_at ... 0 t), its reference is the
   field table of that tuple at offset 0, the source memory is unchanged, and the number of
   storage units requested is the rounded-up byte size of the element.  In the model an
   element's bytes live in its own record, so later changes of the vector cannot reach it;
   that the real blocks are distinct, and all assignment / swap / allocator paths, are decided
   by the correspondence check (DESIGN.md, C12). *)
From Coq Require Import ZArith List Bool.
From Cntgs Require Import Base Layout Mem Vector Proxy Elem World Spec Rep ElemThm AssignThm MoveThm ByteElem.
Import ListNotations.
Local Open Scope Z_scope.

Theorem C12_element_from_reference_is_deep_copy : forall L, wf_plist L = true -> (forall mv, all_ctriv mv L = true) ->
  forall mv ms a t fc sb aid junk nb,
  tuple_ok L fc 0 t -> elem_at L ms a t -> 0 <= a -> (SA L | a) ->
  let '(ms1, el, evs) := elem_from_ref mv L ms (ref_fl L t a) sb aid junk nb in
  ms1 = ms /\ elem_at L (e_mem el) 0 t /\ e_fl el = ref_fl L t 0 /\
  e_bid el = Some nb /\ e_aid el = aid /\ e_units el = units L (elem_end L a t - a).
Proof. exact elem_from_ref_spec. Qed.
Print Assumptions C12_element_from_reference_is_deep_copy.

(* copies and assignments between elements, for trivially constructible and destructible
   value types: the target ends up holding exactly the source's tuple in a block of its
   own / in the block it took over; on the re-allocating path whatever the target held before
   (also nothing: a moved-from element) and whatever its size *)
Theorem C12_element_copy_construction : forall L, wf_plist L = true -> (forall mv, all_ctriv mv L = true) ->
  forall src t fc aid junk nb, tuple_ok L fc 0 t -> elem_holds L src t ->
  let '(d, evs) := elem_copy L src aid junk nb in
  elem_holds L d t /\ e_bid d = Some nb /\ e_aid d = aid /\ e_units d = e_units src.
Proof. exact elem_copy_spec. Qed.
Print Assumptions C12_element_copy_construction.

Theorem C12_element_copy_assignment_reallocating : forall L, wf_plist L = true ->
  (forall mv, all_ctriv mv L = true) -> all_dtriv L = true ->
  forall pocca ae d src t fc junk nb, tuple_ok L fc 0 t -> elem_holds L src t ->
  (fixed_or_plain L && (negb pocca || ae) && match e_bid d with Some _ => true | None => false end) = false ->
  let '(d', evs, nb') := elem_copy_assign pocca ae L d src junk nb in
  elem_holds L d' t /\ e_bid d' = Some nb /\ e_aid d' = (if pocca then e_aid src else e_aid d) /\
  e_units d' = e_units src.
Proof. exact elem_copy_assign_general_spec. Qed.
Print Assumptions C12_element_copy_assignment_reallocating.

(* ... and on the field-wise path (FixedSize / plain lists, every value type category and
   every shape of the run table): the target keeps its block and holds the source's tuple *)
Theorem C12_element_copy_assignment_fieldwise : forall L, wf_plist L = true ->
  forall pocca ae d src ts td fcs fcd junk nb,
  tuple_ok L fcs 0 ts -> tuple_ok L fcd 0 td -> cnts_of td = cnts_of ts ->
  elem_holds L src ts -> elem_holds L d td ->
  (fixed_or_plain L && (negb pocca || ae) && match e_bid d with Some _ => true | None => false end) = true ->
  let '(d', evs, nb') := elem_copy_assign pocca ae L d src junk nb in
  elem_holds L d' ts /\ e_bid d' = e_bid d /\ e_units d' = e_units d /\
  e_aid d' = (if pocca then e_aid src else e_aid d) /\ nb' = nb.
Proof. exact elem_copy_assign_fieldwise_spec. Qed.
Print Assumptions C12_element_copy_assignment_fieldwise.

Theorem C12_element_move_assignment_stealing : forall L pocma d src t, elem_holds L src t ->
  let '(d', src', evs) := elem_steal pocma L d src in
  elem_holds L d' t /\ e_bid d' = e_bid src /\ e_bid src' = None /\
  e_aid d' = (if pocma then e_aid src else e_aid d).
Proof. exact elem_steal_spec. Qed.
Print Assumptions C12_element_move_assignment_stealing.

(* swap exchanges the complete contents (blocks and references), the allocators only with POCS *)
Theorem C12_swap_exchanges : forall pocs a b,
  let '(a', b') := elem_swap pocs a b in
  e_mem a' = e_mem b /\ e_fl a' = e_fl b /\ e_bid a' = e_bid b /\
  e_mem b' = e_mem a /\ e_fl b' = e_fl a /\ e_bid b' = e_bid a /\
  e_aid a' = (if pocs then e_aid b else e_aid a) /\ e_aid b' = (if pocs then e_aid a else e_aid b).
Proof. intros pocs a b. cbn. repeat split. Qed.
Print Assumptions C12_swap_exchanges.

(* a moved-from element has no memory and releases nothing *)
Theorem C12_moved_from_element_is_empty : forall L e,
  e_bid (elem_moved_from e) = None /\ elem_destroy L (elem_moved_from e) = [].
Proof. intros L e. split; reflexivity. Qed.
Print Assumptions C12_moved_from_element_is_empty.

(* non-vacuity and independence on a concrete history: (size_t@8, VaryingSize<4 bytes>) -
   an element is made from v[1], then v[1] is overwritten through a reference; the element
   still reads the old values, the vector the new ones; assigning the element back restores them *)
Definition Lv : list param :=
  [ {| pk := Plain; psz := 8; pal := 8; pty := TUInt |}; {| pk := Varying; psz := 4; pal := 1; pty := TBlob |} ].
Definition Kpmr : akind := {| pocca := false; pocma := false; pocs := false; always_eq := false; soccc_bump := false |}.
Definition ops12 : list op :=
  [ OpMkVec 0 3 64 [] 1;
    OpEmplace 0 [[[2;0;0;0;0;0;0;0]]; [[1;1;1;1]; [2;2;2;2]]];
    OpEmplace 0 [[[2;0;0;0;0;0;0;0]]; [[5;5;5;5]; [6;6;6;6]]];
    OpEFromRef 0 0 1 false 2;
    OpWrite 0 1 1 0 [9;9;9;9] ].
Definition w12 := run_from Kpmr Lv world0 ops12 O.
Example C12_independent :
  read_objs (e_mem (gete w12 0)) (nth 1 Lv pparam0) (nth 1 (e_fl (gete w12 0)) fld0) = [[5;5;5;5]; [6;6;6;6]] /\
  read_objs (v_mem (getv w12 0)) (nth 1 Lv pparam0) (nth 1 (vfl Lv (getv w12 0) 1) fld0) = [[9;9;9;9]; [6;6;6;6]] /\
  e_bid (gete w12 0) <> v_bid (getv w12 0) /\ e_aid (gete w12 0) = 2.
Proof. vm_compute. repeat split; discriminate. Qed.

(* field-wise MOVE assignment (FixedSize / plain lists, unequal non-propagating allocators, the
   target owns a block): the target holds exactly the source's tuple in its own block with its
   own allocator, for every value-type category and run-table shape (MoveThm.v) *)
Theorem C12_element_move_assignment_fieldwise : forall L, wf_plist L = true ->
  forall d src ts td fcs fcd junk nb,
  tuple_ok L fcs 0 ts -> tuple_ok L fcd 0 td -> cnts_of td = cnts_of ts ->
  elem_holds L src ts -> elem_holds L d td -> e_aid d <> e_aid src ->
  (fixed_or_plain L && match e_bid d with Some _ => true | None => false end) = true ->
  let '(d', src', evs, nb') := elem_move_assign false false L d src junk nb in
  elem_holds L d' ts /\ e_bid d' = e_bid d /\ e_units d' = e_units d /\ e_aid d' = e_aid d /\
  e_bid src' = e_bid src /\ nb' = nb.
Proof. exact elem_move_assign_fieldwise_spec. Qed.
Print Assumptions C12_element_move_assignment_fieldwise.

(* an element over an allocator of std::byte (the alias cntgs::ContiguousElement): the block
   requested for it is a whole number of storage units that covers the element's
   size_in_bytes() and exceeds it by less than one unit — whatever the allocator's value_type;
   that the real element then is a faithful, aligned copy is the correspondence marker EBYTE *)
Theorem C12_byte_allocator_element_block : forall K L w s i, wf_plist L = true ->
  0 <= ref_bytes L (vfl L (getv w s) i) ->
  exists b, w_out (step K L w (OpEByte s i)) = OEByte true b :: w_out w /\
    ref_bytes L (vfl L (getv w s) i) <= b < ref_bytes L (vfl L (getv w s) i) + SA L /\ (SA L | b).
Proof. exact byte_element_block. Qed.
Print Assumptions C12_byte_allocator_element_block.

(* move assignment on the general path (unequal non-propagating allocators and a VaryingSize
   list, or a target without storage) - "also between elements of different varying sizes and
   with different allocators": whether the target's block is replaced or reused it ends up
   holding the source's tuple, with its own allocator *)
Theorem C12_element_move_assignment_general : forall L, wf_plist L = true ->
  (forall mv, all_ctriv mv L = true) -> all_dtriv L = true ->
  forall pocma ae d src t fc junk nb, tuple_ok L fc 0 t -> elem_holds L src t ->
  (ae || pocma || (e_aid d =? e_aid src)) = false ->
  (fixed_or_plain L && match e_bid d with Some _ => true | None => false end) = false ->
  let '(d', src', evs, nb') := elem_move_assign pocma ae L d src junk nb in
  elem_holds L d' t /\ e_aid d' = e_aid d /\
  e_bid d' = (if e_units d <? ref_bytes L (e_fl src) then Some nb else e_bid d) /\
  e_mem src' = e_mem src /\ e_fl src' = e_fl src /\ e_bid src' = e_bid src.
Proof. exact elem_move_assign_general_spec. Qed.
Print Assumptions C12_element_move_assignment_general.

Theorem C12_element_allocator_extended_move_construction : forall L, wf_plist L = true ->
  (forall mv, all_ctriv mv L = true) ->
  forall ae src t fc aid junk nb, tuple_ok L fc 0 t -> elem_holds L src t ->
  let '(d, src', evs, fresh) := elem_move_alloc ae L src aid junk nb in
  elem_holds L d t /\
  (if ae || (aid =? e_aid src)
   then e_bid d = e_bid src /\ e_bid src' = None /\ fresh = false
   else e_bid d = Some nb /\ e_aid d = aid /\ e_units d = e_units src /\ e_bid src' = e_bid src /\
        e_mem src' = e_mem src /\ fresh = true).
Proof. exact elem_move_alloc_spec. Qed.
Print Assumptions C12_element_allocator_extended_move_construction.

(* the block of an element always covers what is copied into it *)
Theorem C12_element_block_covers_its_content : forall mv L ms fls sb aid junk nb, wf_plist L = true ->
  0 <= ref_bytes L fls ->
  let el := snd (fst (elem_from_ref mv L ms fls sb aid junk nb)) in
  ref_bytes L fls <= SA L * e_units el.
Proof. exact elem_from_ref_block_covers. Qed.
Print Assumptions C12_element_block_covers_its_content.

(* move assignment between unequal non-propagating allocators (general path) reuses the target's
   block only when the source's bytes fit into it, otherwise a new block of the source's unit
   count is requested (seeded change C02f compared rounded-down units) *)
Theorem C12_element_move_assignment_reuses_only_fitting_blocks : forall pocma ae L d src junk nb,
  wf_plist L = true ->
  (ae || pocma || (e_aid d =? e_aid src)) = false ->
  (fixed_or_plain L && match e_bid d with Some _ => true | None => false end) = false ->
  0 <= e_units d ->
  let d' := fst (fst (fst (elem_move_assign pocma ae L d src junk nb))) in
  if e_units d <? ref_bytes L (e_fl src)
  then e_units d' = e_units src /\ e_bid d' = Some nb
  else ref_bytes L (e_fl src) <= SA L * e_units d' /\ e_units d' = e_units d.
Proof. exact elem_move_assign_block_covers. Qed.
Print Assumptions C12_element_move_assignment_reuses_only_fitting_blocks.
