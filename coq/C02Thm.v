(* C02Thm.v — capacity arithmetic: what the needed-memory formula guarantees. *)
From Coq Require Import ZArith Lia List Bool.
From Cntgs Require Import Base BaseLemmas Layout LayoutThm Mem MemLemmas Vector Spec Rep ElemLemmas Ordered EsizeThm Refine.
Import ListNotations.
Local Open Scope Z_scope.

Lemma units_ge L bytes : 0 < SA L -> 0 <= bytes -> bytes <= SA L * units L bytes.
Proof.
  intros HS Hb. unfold units.
  pose proof (Z.div_mod bytes (SA L) ltac:(lia)) as Hdm.
  pose proof (Z.mod_pos_bound bytes (SA L) HS) as Hm.
  destruct (Z.eqb_spec (bytes mod SA L) 0); lia.
Qed.

(* lists WITHOUT VaryingSize parameter: a vector constructed for N elements holds any N
   elements: element i (at stride * i) ends inside the allocated block *)
Theorem fixed_capacity_sufficient L fixed N i t :
  wf_plist L = true -> has_varying L = false -> Forall (fun c => 0 <= c) fixed ->
  tuple_ok L (fixed_counts L fixed) 0 t -> 0 <= i < N ->
  let sz := esize L fixed in
  elem_end L (snd sz * i) t <= SA L * units L (needed N 0 sz).
Proof.
  intros Hwf Hnv Hfx Ht Hi. cbv zeta.
  pose proof (wf_plist_Forall _ Hwf) as HF. pose proof (wf_plist_nonempty _ Hwf) as Hne.
  pose proof (pow2_pos _ (SA_pow2 L HF Hne)) as HSp.
  destruct (esize_stride_ok L fixed Hwf Hnv (fixed_counts_nonneg L fixed Hfx)) as (Hs0 & HsS & _).
  assert (Ha0 : 0 <= snd (esize L fixed) * i) by (apply Z.mul_nonneg_nonneg; lia).
  assert (HaS : (SA L | snd (esize L fixed) * i)) by (apply Z.divide_mul_l; auto).
  destruct (esize_exact L fixed t _ Hwf Hnv Ht Ha0 HaS) as [E1 E2].
  rewrite E1. destruct (esize L fixed) as [size stride] eqn:Es. cbn [fst snd] in *.
  pose proof (align_up_ge size (SA L) HSp) as Hge.
  assert (Hsz0 : 0 <= size).
  { pose proof (elem_end_ge L Hwf (stride * i) t). lia. }
  unfold needed. replace (N =? 0) with false by (symmetry; apply Z.eqb_neq; lia).
  eapply Z.le_trans; [|apply units_ge; auto].
  - assert (stride * i <= stride * (N - 1)) by (apply Z.mul_le_mono_nonneg_l; lia). lia.
  - assert (0 <= stride * (N - 1)) by (apply Z.mul_nonneg_nonneg; lia). lia.
Qed.

(* every element of a represented vector lies inside [0, data_end) *)
Theorem elements_inside_data L v l : wf_plist L = true -> Rep L v l ->
  exists offs, length offs = length l /\
    Forall2 (fun a t => 0 <= a /\ (SA L | a) /\ elem_end L a t <= dend L v) offs l.
Proof.
  intros Hwf [offs R]. exists offs. split.
  - eapply eo_length. exact (r_order _ _ _ _ R).
  - apply eo_bounds; auto. exact (r_order _ _ _ _ R).
Qed.

(* the worst case of the needed-memory formula is NOT sufficient in general: a plain
   field after the last VaryingSize span.  Four elements whose payloads use the budget
   exactly end 2 bytes behind the allocated block. *)
Definition f7L : list param :=
  [ {| pk := Plain; psz := 8; pal := 8; pty := TUInt |};
    {| pk := Varying; psz := 7; pal := 8; pty := TBlob |};
    {| pk := Plain; psz := 7; pal := 1; pty := TBlob |} ].

(* end offset of elements with the given varying counts, stored one after the other *)
Fixpoint fill_end (L : list param) (vcounts : list Z) (a : Z) : Z :=
  match vcounts with
  | [] => a
  | c :: r => fill_end L r (snd (place L [1; c; 1] (first_align L a)))
  end.

Theorem needed_refuted :
  exists L N B vcounts,
    wf_plist L = true /\ Z.of_nat (length vcounts) = N /\
    fold_right Z.add 0 (map (fun c => c * 7) vcounts) <= B /\
    SA L * units L (needed N B (esize L [])) < fill_end L vcounts 0.
Proof.
  exists f7L, 4, 70, [0; 4; 1; 5]. vm_compute. repeat split; try reflexivity; discriminate.
Qed.
