(* C05 — tight packing: padding only where alignment demands it. *)
From Coq Require Import ZArith List Bool.
From Cntgs Require Import Base BaseLemmas Layout LayoutThm Mem Vector Spec Rep EsizeThm Refine TightThm NtRefine.
Import ListNotations.
Local Open Scope Z_scope.

(* Each field starts at the LOWEST suitably aligned address after the previous field
   (the first one after the element's start): where the library skips the alignment step
   because the compile-time trailing alignment already guarantees it, "skipped" and
   "lowest aligned address" coincide. *)
Theorem C05_fields_tightly_packed : forall L cnts a,
  wf_plist L = true -> Forall2 cnt_ok L cnts -> 0 <= a -> (SA L | a) ->
  tight_from a L cnts (fst (place L cnts a)).
Proof. exact place_tight. Qed.
Print Assumptions C05_fields_tightly_packed.

(* align_up x a is the least multiple of a that is >= x *)
Theorem C05_align_up_is_least : forall x a y, 0 < a -> (a | y) -> x <= y ->
  (a | align_up x a) /\ x <= align_up x a <= y.
Proof.
  intros x a y Ha Hd Hxy. split; [apply align_up_div; auto|].
  split; [apply align_up_ge; auto|apply align_up_least; auto].
Qed.
Print Assumptions C05_align_up_is_least.

(* (ii) lists without VaryingSize parameter: an element occupies exactly the size the
   library computes, and the stride is the least multiple of the storage alignment >= it:
   a full vector uses stride * N bytes, nothing is wasted *)
Theorem C05_fixed_element_size_exact : forall L fixed t a,
  wf_plist L = true -> has_varying L = false ->
  tuple_ok L (fixed_counts L fixed) 0 t -> 0 <= a -> (SA L | a) ->
  elem_end L a t = a + fst (esize L fixed) /\
  snd (esize L fixed) = align_up (fst (esize L fixed)) (SA L).
Proof. exact esize_exact. Qed.
Print Assumptions C05_fixed_element_size_exact.

(* elements too are packed tightly: the next element starts at the least storage-aligned
   address at or after the end of the previous one *)
Theorem C05_elements_tightly_packed : forall L cnts a,
  wf_plist L = true -> Forall2 cnt_ok L cnts -> 0 <= a -> (SA L | a) ->
  let e := snd (place L cnts a) in
  (SA L | first_align L e) /\ e <= first_align L e /\ first_align L e = align_up e (SA L).
Proof. exact first_align_end. Qed.
Print Assumptions C05_elements_tightly_packed.

(* HISTORY level: in every represented state element i starts exactly at
   align_for_first_parameter(end of element i-1) - element 0 at the start of the block -
   and data_end() is the end of the last element or the aligned address behind it ... *)
Theorem C05_represented_states_are_tightly_packed : forall L v l, wf_plist L = true -> Rep L v l ->
  (forall i, (i < length l)%nat -> eaddr L v (Z.of_nat i) = first_align L (prev_end L v l i)) /\
  (dend L v = prev_end L v l (length l) \/ dend L v = first_align L (prev_end L v l (length l))).
Proof. exact rep_positions_tight. Qed.
Print Assumptions C05_represented_states_are_tightly_packed.

(* ... hence after EVERY valid history of emplace_back / pop_back / erase / erase(first,last) /
   clear / reserve from construction (trivially relocatable value types): no operation
   leaves a gap between two elements, whatever was erased before whatever was emplaced *)
Theorem C05_every_history_tightly_packed : forall L cap budget fixed aid junk bid tbid h,
  wf_plist L = true -> all_triv L = true -> 0 <= cap -> Forall (fun c => 0 <= c) fixed ->
  let v0 := fst (mkvec L cap budget fixed aid junk bid tbid) in
  let s0 := {| s_cap := cap; s_elems := [] |} in
  shist_valid L (fixed_counts L fixed) s0 h ->
  let v := vrun L junk v0 h in
  let l := s_elems (srun s0 h) in
  (forall i, (i < length l)%nat -> eaddr L v (Z.of_nat i) = first_align L (prev_end L v l i)) /\
  (dend L v = prev_end L v l (length l) \/ dend L v = first_align L (prev_end L v l (length l))).
Proof. exact tight_every_history. Qed.
Print Assumptions C05_every_history_tightly_packed.

(* ... and for EVERY well-formed list, non-trivial value types included (erase with elements
   behind the erased ones only on trivially relocatable lists, NtRefine.nt_hist_ok) *)
Theorem C05_every_history_tightly_packed_every_list : forall L cap budget fixed aid junk bid tbid h,
  wf_plist L = true -> 0 <= cap -> Forall (fun c => 0 <= c) fixed ->
  let v0 := fst (mkvec L cap budget fixed aid junk bid tbid) in
  let s0 := {| s_cap := cap; s_elems := [] |} in
  shist_valid L (fixed_counts L fixed) s0 h -> nt_hist_ok L s0 h ->
  let v := vrun L junk v0 h in
  let l := s_elems (srun s0 h) in
  (forall i, (i < length l)%nat -> eaddr L v (Z.of_nat i) = first_align L (prev_end L v l i)) /\
  (dend L v = prev_end L v l (length l) \/ dend L v = first_align L (prev_end L v l (length l))).
Proof. exact tight_every_history_nt. Qed.
Print Assumptions C05_every_history_tightly_packed_every_list.
