(* C05 — tight packing: padding only where alignment demands it. *)
From Coq Require Import ZArith List Bool.
From Cntgs Require Import Base BaseLemmas Layout LayoutThm Mem Vector Spec Rep EsizeThm Refine TightThm NtRefine Proxy Elem World Footprint.
Import ListNotations.
Local Open Scope Z_scope.

(* Each field starts at the LOWEST suitably aligned address after the previous field
   (the first one after the element's start): where the library skips the alignment step
   because the compile-time trailing alignment already guarantees it, "skipped" and
   "lowest aligned address" coincide. *)
Theorem C05_fields_tightly_packed : forall L cnts a,
  wf_plist L = true -> Forall2 cnt_ok L cnts -> 0 <= a -> (SA L | a) ->
  tight_from a L cnts (fst (place L cnts a)).
Proof. exact place_tight. Qed.
Print Assumptions C05_fields_tightly_packed.

(* align_up x a is the least multiple of a that is >= x *)
Theorem C05_align_up_is_least : forall x a y, 0 < a -> (a | y) -> x <= y ->
  (a | align_up x a) /\ x <= align_up x a <= y.
Proof.
  intros x a y Ha Hd Hxy. split; [apply align_up_div; auto|].
  split; [apply align_up_ge; auto|apply align_up_least; auto].
Qed.
Print Assumptions C05_align_up_is_least.

(* (ii) lists without VaryingSize parameter: an element occupies exactly the size the
   library computes, and the stride is the least multiple of the storage alignment >= it:
   a full vector uses stride * N bytes, nothing is wasted *)
Theorem C05_fixed_element_size_exact : forall L fixed t a,
  wf_plist L = true -> has_varying L = false ->
  tuple_ok L (fixed_counts L fixed) 0 t -> 0 <= a -> (SA L | a) ->
  elem_end L a t = a + fst (esize L fixed) /\
  snd (esize L fixed) = align_up (fst (esize L fixed)) (SA L).
Proof. exact esize_exact. Qed.
Print Assumptions C05_fixed_element_size_exact.

(* elements too are packed tightly: the next element starts at the least storage-aligned
   address at or after the end of the previous one *)
Theorem C05_elements_tightly_packed : forall L cnts a,
  wf_plist L = true -> Forall2 cnt_ok L cnts -> 0 <= a -> (SA L | a) ->
  let e := snd (place L cnts a) in
  (SA L | first_align L e) /\ e <= first_align L e /\ first_align L e = align_up e (SA L).
Proof. exact first_align_end. Qed.
Print Assumptions C05_elements_tightly_packed.

(* HISTORY level: in every represented state element i starts exactly at
   align_for_first_parameter(end of element i-1) - element 0 at the start of the block -
   and data_end() is the end of the last element or the aligned address behind it ... *)
Theorem C05_represented_states_are_tightly_packed : forall L v l, wf_plist L = true -> Rep L v l ->
  (forall i, (i < length l)%nat -> eaddr L v (Z.of_nat i) = first_align L (prev_end L v l i)) /\
  (dend L v = prev_end L v l (length l) \/ dend L v = first_align L (prev_end L v l (length l))).
Proof. exact rep_positions_tight. Qed.
Print Assumptions C05_represented_states_are_tightly_packed.

(* ... hence after EVERY valid history of emplace_back / pop_back / erase / erase(first,last) /
   clear / reserve from construction (trivially relocatable value types): no operation
   leaves a gap between two elements, whatever was erased before whatever was emplaced *)
Theorem C05_every_history_tightly_packed : forall L cap budget fixed aid junk bid tbid h,
  wf_plist L = true -> all_triv L = true -> 0 <= cap -> Forall (fun c => 0 <= c) fixed ->
  let v0 := fst (mkvec L cap budget fixed aid junk bid tbid) in
  let s0 := {| s_cap := cap; s_elems := [] |} in
  shist_valid L (fixed_counts L fixed) s0 h ->
  let v := vrun L junk v0 h in
  let l := s_elems (srun s0 h) in
  (forall i, (i < length l)%nat -> eaddr L v (Z.of_nat i) = first_align L (prev_end L v l i)) /\
  (dend L v = prev_end L v l (length l) \/ dend L v = first_align L (prev_end L v l (length l))).
Proof. exact tight_every_history. Qed.
Print Assumptions C05_every_history_tightly_packed.

(* ... and for EVERY well-formed list, non-trivial value types included (erase with elements
   behind the erased ones only on trivially relocatable lists and on lists
   without a VaryingSize parameter, NtRefine.nt_hist_okx) *)
Theorem C05_every_history_tightly_packed_every_list : forall L cap budget fixed aid junk bid tbid h,
  wf_plist L = true -> 0 <= cap -> Forall (fun c => 0 <= c) fixed ->
  let v0 := fst (mkvec L cap budget fixed aid junk bid tbid) in
  let s0 := {| s_cap := cap; s_elems := [] |} in
  shist_valid L (fixed_counts L fixed) s0 h -> nt_hist_okx L s0 h ->
  let v := vrun L junk v0 h in
  let l := s_elems (srun s0 h) in
  (forall i, (i < length l)%nat -> eaddr L v (Z.of_nat i) = first_align L (prev_end L v l i)) /\
  (dend L v = prev_end L v l (length l) \/ dend L v = first_align L (prev_end L v l (length l))).
Proof. exact tight_every_history_nt. Qed.
Print Assumptions C05_every_history_tightly_packed_every_list.

(* ---------- footprint of the operations that (re)allocate (third clause of C05) ---------- *)
(* reserve beyond capacity (lists with a VaryingSize parameter): exactly what a fresh vector of
   that capacity, byte budget and fixed sizes consumes; within capacity: nothing changes *)
Theorem C05_reserve_consumes_what_a_fresh_vector_consumes : forall L v n b junk bid tbid aid junk' bid' tbid',
  has_varying L = true -> v_cap v < n ->
  consumption L (fst (reserve L v n b junk bid tbid)) =
  consumption L (fst (mkvec L n b (v_fixed v) aid junk' bid' tbid')).
Proof. exact reserve_footprint_varying. Qed.
Print Assumptions C05_reserve_consumes_what_a_fresh_vector_consumes.

(* ... and for lists WITHOUT VaryingSize parameter (the grow formula differs from the constructor's
   by the padding behind the last element; both round to the same number of storage units) *)
Theorem C05_reserve_consumes_what_a_fresh_vector_consumes_fixed : forall L v n junk bid tbid aid junk' bid' tbid',
  wf_plist L = true -> has_varying L = false -> Forall (fun c => 0 <= c) (fixed_counts L (v_fixed v)) ->
  v_stride v = snd (esize L (v_fixed v)) -> 0 <= v_cap v < n ->
  consumption L (fst (reserve L v n 0 junk bid tbid)) =
  consumption L (fst (mkvec L n 0 (v_fixed v) aid junk' bid' tbid')).
Proof. exact reserve_footprint_fixed. Qed.
Print Assumptions C05_reserve_consumes_what_a_fresh_vector_consumes_fixed.

Theorem C05_reserve_within_capacity_keeps_the_footprint : forall L v n b junk bid tbid, n <= v_cap v ->
  consumption L (fst (reserve L v n b junk bid tbid)) = consumption L v.
Proof. exact reserve_within_capacity_footprint. Qed.
Print Assumptions C05_reserve_within_capacity_keeps_the_footprint.

(* copy construction, copy assignment, stealing move assignment: what the source consumes *)
Theorem C05_copies_consume_what_the_source_consumes : forall K L d src junk nb,
  consumption L (fst (fst (fst (copy_ctor K L src junk nb)))) = consumption L src /\
  consumption L (fst (fst (fst (copy_assign K L d src junk nb)))) = consumption L src.
Proof. exact copy_footprint. Qed.
Print Assumptions C05_copies_consume_what_the_source_consumes.

Theorem C05_stealing_move_takes_over_the_footprint : forall K L d src,
  consumption L (fst (fst (steal K L d src))) = consumption L src.
Proof. exact steal_footprint. Qed.
Print Assumptions C05_stealing_move_takes_over_the_footprint.

(* the full clause is FALSE of the faithful model: element-wise move assignment into a smaller
   vector requests SA times the source's consumption (known finding move-assign-units) *)
Theorem C05_move_assignment_footprint_refuted :
  let d := fst (mkvec fpL 1 0 [] 1 (mfill 170) 0%nat 1%nat) in
  let src := fst (mkvec fpL 2 0 [] 2 (mfill 170) 2%nat 3%nat) in
  let d' := fst (fst (fst (move_assign fpK fpL d src (mfill 170) 4%nat))) in
  consumption fpL d = 8 /\ consumption fpL src = 16 /\
  consumption fpL (fst (mkvec fpL (v_cap src) 0 [] 1 (mfill 170) 5%nat 6%nat)) = 16 /\
  consumption fpL d' = 128.
Proof. exact move_assign_footprint_refuted. Qed.
Print Assumptions C05_move_assignment_footprint_refuted.
