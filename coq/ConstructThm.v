(* ConstructThm.v — soundness of the memcpy fast path of emplace_back: whenever the
   dispatch copies bytes, the bytes are the object representation of T(source item). *)
From Coq Require Import ZArith List Bool Lia.
From Cntgs Require Import Base Mem MemLemmas Construct.
Import ListNotations.
Local Open Scope Z_scope.

Definition wf_vty (t : vty) : Prop := 0 < vsz t.

Lemma In_firstn_c {A} (l : list A) : forall n x, In x (firstn n l) -> In x l.
Proof.
  induction l as [|y l IH]; intros [|n] x H; cbn [firstn] in H; try contradiction.
  destruct H as [->|H]; [left; reflexivity|right; eapply IH; exact H].
Qed.

Lemma vty_eqb_eq a b : vty_eqb a b = true -> a = b.
Proof.
  destruct a, b; cbn [vty_eqb]; intros H; try discriminate; try reflexivity;
    apply Z.eqb_eq in H; subst; reflexivity.
Qed.

Lemma pow8_pos n : 0 < n -> 0 < 2 ^ (8 * n).
Proof. intros H. apply Z.pow_pos_nonneg; lia. Qed.

Lemma wrapu_idem n v : 0 < n -> wrapu n (wrapu n v) = wrapu n v.
Proof. intros H. unfold wrapu. apply Z.mod_mod. pose proof (pow8_pos n H). lia. Qed.

Lemma wrapu_wraps n v : 0 < n -> wrapu n (wraps n v) = wrapu n v.
Proof.
  intros H. unfold wraps. pose proof (pow8_pos n H) as Hp.
  destruct (wrapu n v <? 2 ^ (8 * n - 1)); [apply wrapu_idem; exact H|].
  unfold wrapu.
  replace (v mod 2 ^ (8 * n) - 2 ^ (8 * n)) with (v mod 2 ^ (8 * n) + (-1) * 2 ^ (8 * n)) by lia.
  rewrite Z_mod_plus_full. apply Z.mod_mod. lia.
Qed.

Lemma wrapu_small n v : 0 < n -> 0 <= v < 2 ^ (8 * n) -> wrapu n v = v.
Proof. intros H Hv. unfold wrapu. apply Z.mod_small. exact Hv. Qed.

(* same type: constructing a T from a T keeps the representation *)
Lemma repr_conv_same T v : wf_vty T -> trivially_copyable T = true -> in_range T v ->
  repr T (conv T T v) = repr T v.
Proof.
  unfold wf_vty. intros Hw Htc Hr. destruct T; cbn [conv repr vsz in_range trivially_copyable] in *;
    try discriminate; try reflexivity.
  - destruct Hr as [-> | ->]; reflexivity.
  - rewrite wrapu_idem by lia. reflexivity.
  - rewrite wrapu_wraps by lia. reflexivity.
  - rewrite wrapu_idem by lia. reflexivity.
  - rewrite wrapu_wraps by lia. reflexivity.
  - replace (v + base_off cls - base_off cls) with v by lia. reflexivity.
Qed.

Definition intlike (t : vty) : bool := is_integral t || is_enum t.

Lemma repr_intlike T v : intlike T = true -> repr T v = enc (Z.to_nat (vsz T)) (wrapu (vsz T) v).
Proof. destruct T; cbn [intlike is_integral is_enum orb repr]; intros H; try discriminate; reflexivity. Qed.

(* integral / enumeration types of equal size: conversion keeps the low bytes (two's
   complement), unless the target is bool *)
Lemma repr_conv_intlike T U v : wf_vty T -> vsz T = vsz U ->
  intlike T = true -> intlike U = true -> T <> VBool ->
  repr T (conv U T v) = repr U v.
Proof.
  unfold wf_vty. intros Hw Hs HT HU Hnb.
  rewrite (repr_intlike T) by exact HT. rewrite (repr_intlike U) by exact HU.
  rewrite <- Hs. f_equal.
  destruct T; cbn [intlike is_integral is_enum orb] in HT; try discriminate; try congruence;
    cbn [vsz conv] in *; destruct U; cbn [intlike is_integral is_enum orb] in HU; try discriminate;
    first [apply wrapu_idem; lia | apply wrapu_wraps; lia].
Qed.

Theorem memcpy_compatible_sound T U v :
  wf_vty T -> memcpy_compatible T U = true -> in_range U v ->
  repr T (conv U T v) = repr U v.
Proof.
  intros Hw H Hr. unfold memcpy_compatible in H.
  apply andb_true_iff in H. destruct H as [H Hcase].
  apply andb_true_iff in H. destruct H as [H HtU].
  apply andb_true_iff in H. destruct H as [Hs HtT]. apply Z.eqb_eq in Hs.
  apply orb_true_iff in Hcase. destruct Hcase as [He | Hi].
  - apply vty_eqb_eq in He. subst U. apply repr_conv_same; assumption.
  - apply andb_true_iff in Hi. destruct Hi as [Hi Hb].
    apply andb_true_iff in Hi. destruct Hi as [HiT HiU].
    apply orb_true_iff in Hb. destruct Hb as [Hb | Hb].
    + apply repr_conv_intlike; auto. intros E. subst T. discriminate.
    + apply vty_eqb_eq in Hb. subst U.
      destruct (vty_eqb T VBool) eqn:E.
      * apply vty_eqb_eq in E. subst T. apply repr_conv_same; auto.
      * apply repr_conv_intlike; auto. intros E2. subst T. discriminate.
Qed.

Lemma convm_conv b U T v : (vsz T = vsz U) -> convm b U T v = conv U T v.
Proof. intros Hs. unfold convm. destruct T; try reflexivity. destruct U; try reflexivity. cbn [vsz] in Hs. lia. Qed.

(* is the source item handed over as an rvalue? *)
Definition moves (f : form) (rv : bool) (T U : vty) : bool :=
  match dispatch f rv T U with PMove => true | PCopy => is_generated f | PMemcpy => false end.

(* whatever path the dispatch takes, the stored objects are T(source item) - T(std::move(source
   item)) where the source is consumed as an rvalue - item by item, and exactly n items are
   consumed *)
Theorem stored_is_converted f rv T U src n :
  wf_vty T -> Forall (in_range U) src ->
  stored f rv T U src n = map (fun v => repr T (convm (moves f rv T U) U T v)) (firstn n src) /\
  length (stored f rv T U src n) = Nat.min n (length src).
Proof.
  intros Hw Hsrc.
  assert (Hmain : stored f rv T U src n = map (fun v => repr T (convm (moves f rv T U) U T v)) (firstn n src)).
  { unfold stored, moves. destruct (dispatch f rv T U) eqn:D; try reflexivity.
    assert (Hc : memcpy_compatible T U = true).
    { unfold dispatch in D. destruct (is_range f).
      - destruct (has_data_and_size f && memcpy_compatible T U) eqn:E.
        + apply andb_true_iff in E. tauto.
        + destruct rv; discriminate.
      - destruct f; try discriminate; destruct (memcpy_compatible T U); try reflexivity; discriminate. }
    assert (Hsz : vsz T = vsz U).
    { unfold memcpy_compatible in Hc. apply andb_true_iff in Hc. destruct Hc as [Hc _].
      apply andb_true_iff in Hc. destruct Hc as [Hc _]. apply andb_true_iff in Hc. destruct Hc as [Hc _].
      apply Z.eqb_eq in Hc. exact Hc. }
    apply map_ext_in. intros v Hv. rewrite convm_conv by exact Hsz. symmetry. apply memcpy_compatible_sound; auto.
    rewrite Forall_forall in Hsrc. apply Hsrc. eapply In_firstn_c. exact Hv. }
  split; [exact Hmain|]. rewrite Hmain, map_length, firstn_length. reflexivity.
Qed.

(* for every pair but Handle <- Raw the value category does not matter *)
Theorem value_category_irrelevant b U T v : ~ (T = VHandle /\ U = VRaw) -> convm b U T v = conv U T v.
Proof. intros H. unfold convm. destruct T; try reflexivity. destruct U; try reflexivity. exfalso. apply H. split; reflexivity. Qed.

(* lvalue sources are never moved from; an rvalue range that is not memcpy'd and a
   move_iterator are moved from exactly once per consumed item *)
Theorem lvalue_sources_untouched f T U src n : is_range f = true ->
  moved_from f false T U src n = repeat 0 (length src).
Proof.
  intros Hr. unfold moved_from, dispatch. rewrite Hr.
  destruct (has_data_and_size f && memcpy_compatible T U); reflexivity.
Qed.

Theorem rvalue_range_moved_once f T U src n : is_range f = true ->
  (has_data_and_size f && memcpy_compatible T U) = false ->
  moved_from f true T U src n = repeat 1 (Nat.min n (length src)) ++ repeat 0 (length src - n).
Proof. intros Hr Hm. unfold moved_from, dispatch. rewrite Hr, Hm. reflexivity. Qed.

Theorem move_iterator_moved_once T U src n :
  moved_from FMoveIter false T U src n = repeat 1 (Nat.min n (length src)) ++ repeat 0 (length src - n).
Proof. reflexivity. Qed.

(* the rule of the pinned tree (equal size, trivially copyable, equal floating-point-ness)
   is refuted: bool <- uint8_t{2} keeps the byte 2, T(u) is true = 1 *)
Theorem memcpy_compatible_old_refuted :
  exists T U v, memcpy_compatible_old T U = true /\ in_range U v /\ repr T (conv U T v) <> repr U v.
Proof. exists VBool, (VUInt 1), 2. vm_compute. repeat split; try lia; discriminate. Qed.
