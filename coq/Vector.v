(* Vector.v — executable model of BasicContiguousVector (src/cntgs/vector.hpp) with its
   two element locators (detail/elementLocator.hpp), the owning pointer
   (detail/allocator.hpp) and the address table (detail/unmanagedVector.hpp).
   Definitions only.  One vector owns at most one data block; its bytes are kept in
   the vector record itself ([v_mem], a function from byte offset to byte), so that
   move/swap are exchanges of records.  Offsets are relative to memory_begin(). *)
From Coq Require Import ZArith List Bool.
From Cntgs Require Import Base Layout Mem.
Import ListNotations.
Local Open Scope Z_scope.

(* ---------- events: allocator ledger and object lifetimes ---------- *)
Inductive ev :=
| EAlloc (aid unit n : Z) (bid : nat)           (* allocator [aid]: allocate(n) of [unit]-byte objects *)
| EDealloc (aid unit n : Z) (bid : nat)
| ECtor (bid : nat) (off sz : Z)                (* object constructed from a value outside any block *)
| ECopyC (bid : nat) (off sz : Z) (sbid : nat) (soff : Z)   (* copy-constructed from a stored object *)
| EMoveC (bid : nat) (off sz : Z) (sbid : nat) (soff : Z)
| EDtor (bid : nat) (off sz : Z)
| ECopyA (bid : nat) (off sz : Z) (sbid : nat) (soff : Z)   (* copy assignment *)
| EMoveA (bid : nat) (off sz : Z) (sbid : nat) (soff : Z)
| ESwapO (bid : nat) (off sz : Z) (sbid : nat) (soff : Z)
| ERaw (bid : nat) (lo hi : Z).                 (* raw byte write (memcpy/memmove/byte swap) to [lo,hi) *)

(* ---------- state ---------- *)
Record tbl := { t_bid : option nat; t_cap : Z; t_slots : list (option Z); t_size : Z }.
Definition tbl0 : tbl := {| t_bid := None; t_cap := 0; t_slots := []; t_size := 0 |}.

Record vec := {
  v_cap : Z;              (* max_element_count_ *)
  v_bid : option nat;     (* memory_.get(): None = nullptr *)
  v_units : Z;            (* memory_.size(), in Aligned<SA> units *)
  v_aid : Z;              (* identity of memory_.get_allocator() *)
  v_mem : mem;            (* bytes of the data block *)
  v_fixed : list Z;       (* fixed sizes *)
  v_count : Z;            (* all-fixed locator: element_count_ *)
  v_stride : Z;           (* all-fixed locator: stride_ *)
  v_tbl : tbl;            (* table locator: element_addresses_ *)
  v_last : Z              (* table locator: last_element_ - memory_begin() *)
}.

Definition vec0 : vec :=
  {| v_cap := 0; v_bid := None; v_units := 0; v_aid := 0; v_mem := mfill 0; v_fixed := [];
     v_count := 0; v_stride := 0; v_tbl := tbl0; v_last := 0 |}.

Definition set_mem (v : vec) (m : mem) : vec :=
  {| v_cap := v_cap v; v_bid := v_bid v; v_units := v_units v; v_aid := v_aid v; v_mem := m;
     v_fixed := v_fixed v; v_count := v_count v; v_stride := v_stride v; v_tbl := v_tbl v;
     v_last := v_last v |}.
Definition set_count (v : vec) (c : Z) : vec :=
  {| v_cap := v_cap v; v_bid := v_bid v; v_units := v_units v; v_aid := v_aid v; v_mem := v_mem v;
     v_fixed := v_fixed v; v_count := c; v_stride := v_stride v; v_tbl := v_tbl v;
     v_last := v_last v |}.
Definition set_tbl (v : vec) (t : tbl) (last : Z) : vec :=
  {| v_cap := v_cap v; v_bid := v_bid v; v_units := v_units v; v_aid := v_aid v; v_mem := v_mem v;
     v_fixed := v_fixed v; v_count := v_count v; v_stride := v_stride v; v_tbl := t;
     v_last := last |}.
Definition set_slots (t : tbl) (s : list (option Z)) (n : Z) : tbl :=
  {| t_bid := t_bid t; t_cap := t_cap t; t_slots := s; t_size := n |}.

Fixpoint upd {A} (n : nat) (x : A) (l : list A) : list A :=
  match l, n with
  | [], _ => []
  | _ :: l', O => x :: l'
  | y :: l', S n' => y :: upd n' x l'
  end.

(* non-trivial copy ([mv] = false) / move ([mv] = true) constructor; non-trivial destructor *)
Definition ntc (mv : bool) (p : param) : bool :=
  match pty p with TTrk | TTrkC => true | TTrkCC => negb mv | TTrkMC => mv | _ => false end.
Definition ntd (p : param) : bool := match pty p with TTrk => true | _ => false end.
(* ListTraits::IS_TRIVIALLY_{COPY,MOVE}_CONSTRUCTIBLE / IS_TRIVIALLY_DESTRUCTIBLE *)
Definition all_ctriv (mv : bool) (L : list param) : bool := forallb (fun p => negb (ntc mv p)) L.
Definition all_dtriv (L : list param) : bool := forallb (fun p => negb (ntd p)) L.
(* trivially RELOCATABLE lists (ListTraits::IS_TRIVIALLY_MOVE_CONSTRUCTIBLE && IS_TRIVIALLY_DESTRUCTIBLE):
   what erase and reserve dispatch on.  Copying additionally asks for all_ctriv false *)
Definition all_triv (L : list param) : bool := all_ctriv true L && all_dtriv L.
Definition bidn (b : option nat) : nat := match b with Some n => n | None => O end.

Definition slot (v : vec) (i : Z) : option Z := nth (Z.to_nat i) (t_slots (v_tbl v)) None.
Definition slotv (v : vec) (i : Z) : Z := match slot v i with Some x => x | None => -1 end.

Definition vsize (L : list param) (v : vec) : Z :=
  if has_varying L then t_size (v_tbl v) else v_count v.
(* locator_->element_address(i, memory_begin()) - memory_begin() *)
Definition eaddr (L : list param) (v : vec) (i : Z) : Z :=
  if has_varying L then slotv v i else v_stride v * i.
(* data_end() - memory_begin() *)
Definition dend (L : list param) (v : vec) : Z :=
  if has_varying L then v_last v else v_stride v * v_count v.
Definition consumption (L : list param) (v : vec) : Z := v_units v * SA L.

(* ---------- load_element_at (elementTraits.hpp:206-254) ---------- *)
(* [(addr, count)] of every field of the element at [a]; the count of a VaryingSize
   field is the value of the preceding (plain) field, read from memory *)
Fixpoint load_from (L : list param) (prevs fc : list Z) (m : mem) (a prevval : Z)
  : list (Z * Z) * Z :=
  match L, prevs, fc with
  | p :: L', pt :: prevs', f :: fc' =>
      let a' := align_if (pt <? pal p) (pal p) a in
      let c := match pk p with Plain => 1 | Fixed => f | Varying => prevval end in
      let v := dec (mread m a' (Z.to_nat (psz p))) in
      let '(r, e) := load_from L' prevs' fc' m (a' + c * psz p) v in
      ((a', c) :: r, e)
  | _, _, _ => ([], a)
  end.
Definition load (L : list param) (fixed : list Z) (m : mem) (a : Z) : list (Z * Z) * Z :=
  load_from L (prevs L) (fixed_counts L fixed) m a 0.

(* the objects (byte strings) of a field *)
Definition read_objs (m : mem) (p : param) (ac : Z * Z) : list (list Z) :=
  map (fun j => mread m (fst ac + Z.of_nat j * psz p) (Z.to_nat (psz p))) (seq 0 (Z.to_nat (snd ac))).
(* the tuple stored at [a] *)
Definition read_elem (L : list param) (fixed : list Z) (m : mem) (a : Z) : list (list (list Z)) :=
  map (fun pa => read_objs m (fst pa) (snd pa)) (combine L (fst (load L fixed m a))).

(* ---------- emplace_at (elementTraits.hpp:190-204) ---------- *)
Definition obj_events (mk : Z -> ev) (a sz : Z) (n : nat) : list ev :=
  map (fun j => mk (a + Z.of_nat j * sz)) (seq 0 n).

(* store the objects [vals] (one list of byte strings per parameter) from address [a] *)
Fixpoint store_from (L : list param) (prevs : list Z) (vals : list (list (list Z)))
         (bid : nat) (m : mem) (a : Z) : mem * list ev * Z :=
  match L, prevs, vals with
  | p :: L', pt :: prevs', objs :: vals' =>
      let a' := align_if (pt <? pal p) (pal p) a in
      let m1 := mwrite m a' (concat objs) in
      (* the harness passes const lvalues: the objects are COPY-constructed *)
      let evs := if ntc false p then obj_events (fun x => ECtor bid x (psz p)) a' (psz p) (length objs)
                 else [] in
      let '(m2, evs2, e) := store_from L' prevs' vals' bid m1 (a' + Z.of_nat (length objs) * psz p) in
      (m2, evs ++ evs2, e)
  | _, _, _ => (m, [], a)
  end.
Definition store (L : list param) (vals : list (list (list Z))) (bid : nat) (m : mem) (a : Z) :=
  store_from L (prevs L) vals bid m a.

(* ---------- destruct (elementTraits.hpp:407-410) ---------- *)
Definition dead_bytes (n : Z) : list Z := repeat 221 (Z.to_nat n).     (* 0xDD *)
Definition moved_bytes (n : Z) : list Z := repeat 238 (Z.to_nat n).    (* 0xEE *)

Fixpoint scribble (m : mem) (a sz : Z) (n : nat) (pat : list Z) : mem :=
  match n with
  | O => m
  | S n' => scribble (mwrite m a pat) (a + sz) sz n' pat
  end.

(* destroy the objects of non-trivial fields of the element whose fields are [fl] *)
Fixpoint destruct_fields (L : list param) (fl : list (Z * Z)) (bid : nat) (m : mem) : mem * list ev :=
  match L, fl with
  | p :: L', (a, c) :: fl' =>
      let '(m2, evs2) := destruct_fields L' fl' bid
                           (if ntd p then scribble m a (psz p) (Z.to_nat c) (dead_bytes (psz p)) else m) in
      ((m2, (if ntd p then obj_events (fun x => EDtor bid x (psz p)) a (psz p) (Z.to_nat c) else []) ++ evs2))
  | _, _ => (m, [])
  end.

Definition destruct_elem (L : list param) (v : vec) (i : Z) : vec * list ev :=
  if all_dtriv L then (v, [])
  else
    let fl := fst (load L (v_fixed v) (v_mem v) (eaddr L v i)) in
    let '(m, evs) := destruct_fields L fl (bidn (v_bid v)) (v_mem v) in
    (set_mem v m, evs).

(* destruct(first, last) *)
Fixpoint destruct_range (L : list param) (v : vec) (i : Z) (n : nat) : vec * list ev :=
  match n with
  | O => (v, [])
  | S n' =>
      let '(v1, e1) := destruct_elem L v i in
      let '(v2, e2) := destruct_range L v1 (i + 1) n' in
      (v2, e1 ++ e2)
  end.

(* ---------- construction (vector.hpp:352-367, elementLocator.hpp:61-67, 245-248) ---------- *)
(* fresh ids: [bid] for the data block, [tbid] for the address table (only used when
   the list has a VaryingSize parameter); [junk]: contents of fresh memory *)
Definition mkvec (L : list param) (cap budget : Z) (fixed : list Z) (aid : Z) (junk : mem)
           (bid tbid : nat) : vec * list ev :=
  let sz := esize L fixed in
  let u := units L (needed cap budget sz) in
  let tab := has_varying L in
  ({| v_cap := cap; v_bid := Some bid; v_units := u; v_aid := aid; v_mem := junk;
      v_fixed := fixed; v_count := 0; v_stride := snd sz;
      v_tbl := if tab then {| t_bid := Some tbid; t_cap := cap;
                              t_slots := repeat None (Z.to_nat cap); t_size := 0 |} else tbl0;
      v_last := 0 |},
   EAlloc aid (SA L) u bid :: (if tab then [EAlloc aid 8 cap tbid] else [])).

(* ---------- emplace_back (elementLocator.hpp:147-155, 257-264) ---------- *)
Definition emplace_back (L : list param) (v : vec) (vals : list (list (list Z))) : vec * list ev :=
  if has_varying L then
    let a := first_align L (v_last v) in
    let '(m, evs, e) := store L vals (bidn (v_bid v)) (v_mem v) a in
    let t := v_tbl v in
    (set_tbl (set_mem v m)
       (set_slots t (upd (Z.to_nat (t_size t)) (Some a) (t_slots t)) (t_size t + 1)) e, evs)
  else
    let a := v_stride v * v_count v in
    let '(m, evs, e) := store L vals (bidn (v_bid v)) (v_mem v) a in
    (set_count (set_mem v m) (v_count v + 1), evs).

(* ---------- resize (elementLocator.hpp:91-95, 217) ---------- *)
Definition resize (L : list param) (v : vec) (n : Z) : vec :=
  if has_varying L then
    if n <? t_size (v_tbl v) then set_tbl v (set_slots (v_tbl v) (t_slots (v_tbl v)) n) (slotv v n)
    else v
  else set_count v n.

(* ---------- move_elements_forward (vector.hpp:434-447) ---------- *)
(* trivially relocatable lists: one memmove plus table update
   (elementLocator.hpp:21-28, 97-105, 219-222) *)
(* std::transform(slots + from, slots + size, slots + to, x -> x - diff): the [n] slots
   from index [from] on, decremented, overwrite the slots from index [to] on (to < from) *)
Definition shift_slots (s : list (option Z)) (from to : nat) (diff : Z) (n : nat) : list (option Z) :=
  firstn to s ++ map (option_map (fun x => x - diff)) (firstn n (skipn from s)) ++ skipn (to + n) s.

Definition move_forward_triv (L : list param) (v : vec) (from to : Z) : vec * list ev :=
  if has_varying L && (from =? t_size (v_tbl v)) then (v, []) else
  let tgt := eaddr L v to in
  let src := eaddr L v from in
  let cnt := dend L v - src in
  let m := mmove (v_mem v) src tgt cnt in
  let diff := src - tgt in
  let raw := [ERaw (bidn (v_bid v)) tgt (tgt + cnt)] in
  if has_varying L then
    let t := v_tbl v in
    let n := Z.to_nat (t_size t - from) in
    let s := shift_slots (t_slots t) (Z.to_nat from) (Z.to_nat to) diff n in
    let s' := upd (Z.to_nat to + n) (Some (v_last v - diff)) s in
    (set_tbl (set_mem v m) (set_slots t s' (t_size t)) (v_last v), raw)
  else (set_mem v m, raw).

(* non-trivial lists: every element is re-emplaced from its own fields, moved, then
   the source is destroyed (vector.hpp:442-445, 464-469; elementLocator.hpp:157-164) *)
Fixpoint move_objs (p : param) (bid : nat) (m : mem) (src dst : Z) (n : nat) : mem * list ev :=
  match n with
  | O => (m, [])
  | S n' =>
      let bs := mread m src (Z.to_nat (psz p)) in
      let m1 := mwrite m dst bs in
      let m2 := if ntc true p then mwrite m1 src (moved_bytes (psz p)) else m1 in
      let '(m3, evs) := move_objs p bid m2 (src + psz p) (dst + psz p) n' in
      (m3, (if ntc true p then [EMoveC bid dst (psz p) bid src] else []) ++ evs)
  end.

Fixpoint move_fields (L : list param) (prevs : list Z) (fl : list (Z * Z)) (bid : nat) (m : mem) (a : Z)
  : mem * list ev * Z :=
  match L, prevs, fl with
  | p :: L', pt :: prevs', (sa, c) :: fl' =>
      let a' := align_if (pt <? pal p) (pal p) a in
      let '(m1, e1) := move_objs p bid m sa a' (Z.to_nat c) in
      let '(m2, e2, e) := move_fields L' prevs' fl' bid m1 (a' + c * psz p) in
      (m2, e1 ++ e2, e)
  | _, _, _ => (m, [], a)
  end.

Definition move_one_nt (L : list param) (v : vec) (from i : Z) : vec * list ev :=
  let bid := bidn (v_bid v) in
  let fl := fst (load L (v_fixed v) (v_mem v) (eaddr L v from)) in
  let a := if has_varying L then first_align L (slotv v i) else v_stride v * i in
  let '(m1, e1, e) := move_fields L (prevs L) fl bid (v_mem v) a in
  let '(m2, e2) := destruct_fields L fl bid m1 in
  let v1 := set_mem v m2 in
  let v2 := if has_varying L then
              let t := v_tbl v1 in
              set_tbl v1 (set_slots t (upd (Z.to_nat i + 1) (Some e) (upd (Z.to_nat i) (Some a) (t_slots t)))
                                    (t_size t)) (v_last v1)
            else v1 in
  (v2, e1 ++ e2).

Fixpoint move_forward_nt (L : list param) (v : vec) (from i : Z) (n : nat) : vec * list ev :=
  match n with
  | O => (v, [])
  | S n' =>
      let '(v1, e1) := move_one_nt L v from i in
      let '(v2, e2) := move_forward_nt L v1 (from + 1) (i + 1) n' in
      (v2, e1 ++ e2)
  end.

Definition move_forward (L : list param) (v : vec) (from to : Z) : vec * list ev :=
  if all_triv L then move_forward_triv L v from to
  else move_forward_nt L v from to (Z.to_nat (vsize L v - from)).

(* ---------- emplace(position, args...) (vector.hpp:174-188, elementLocator.hpp:249-256) ----------
   lists WITHOUT a VaryingSize parameter and with trivially relocatable types - the lists on
   which the code is functional (upstream's own tests of emplace() are skipped): the new element
   is emplaced at the back, everything from the position on - the new element included - is
   memmoved up by the size of the new element (through the bytes BEHIND data_end()), and the
   copy of the new element that now lies behind data_end() is memcpy'd to the position *)
Definition emplace_pos (L : list param) (v : vec) (i : Z) (vals : list (list (list Z))) : vec * list ev :=
  let target := eaddr L v i in
  let back_begin := dend L v in
  let '(v1, e1) := emplace_back L v vals in
  let back_end := dend L v1 in
  let bc := back_end - back_begin in
  let src := eaddr L v1 i in
  let cnt := back_end - src in
  let m1 := mmove (v_mem v1) src (src + bc) cnt in
  let m2 := mmove m1 back_end target bc in
  (set_mem v1 m2, e1 ++ [ERaw (bidn (v_bid v)) (src + bc) (src + bc + cnt); ERaw (bidn (v_bid v)) target (target + bc)]).

(* ---------- pop_back, erase, clear (vector.hpp:183-225) ---------- *)
Definition pop_back (L : list param) (v : vec) : vec * list ev :=
  let n := vsize L v in
  let '(v1, e1) := destruct_elem L v (n - 1) in
  (resize L v1 (n - 1), e1).

Definition erase (L : list param) (v : vec) (i : Z) : vec * list ev :=
  let n := vsize L v in
  let '(v1, e1) := destruct_elem L v i in
  let '(v2, e2) := move_forward L v1 (i + 1) i in
  (resize L v2 (n - 1), e1 ++ e2).

Definition erase_range (L : list param) (v : vec) (i j : Z) : vec * list ev :=
  let n := vsize L v in
  let '(v1, e1) := if all_dtriv L then (v, []) else destruct_range L v i (Z.to_nat (j - i)) in
  let '(v2, e2) := if (j <? n) && negb (i =? j) then move_forward L v1 j i else (v1, []) in
  (resize L v2 (n - (j - i)), e1 ++ e2).

Definition clear (L : list param) (v : vec) : vec * list ev :=
  let '(v1, e1) := if all_dtriv L then (v, []) else destruct_range L v 0 (Z.to_nat (vsize L v)) in
  (resize L v1 0, e1).

(* ---------- relocation into a new block: insert_into (vector.hpp:394-432) ---------- *)
(* copy/move-construct the non-trivial objects of field list [fl] of a source element
   (in memory [ms], block [sbid]) onto the same offsets shifted by [d] in [m] *)
Fixpoint relocate_objs (mv : bool) (p : param) (sbid bid : nat) (ms m : mem) (src dst : Z) (n : nat)
  : mem * mem * list ev :=
  match n with
  | O => (ms, m, [])
  | S n' =>
      let bs := mread ms src (Z.to_nat (psz p)) in
      let m1 := mwrite m dst bs in
      let ms1 := if mv then mwrite ms src (moved_bytes (psz p)) else ms in
      let '(ms2, m2, evs) := relocate_objs mv p sbid bid ms1 m1 (src + psz p) (dst + psz p) n' in
      (ms2, m2, (if mv then EMoveC bid dst (psz p) sbid src else ECopyC bid dst (psz p) sbid src) :: evs)
  end.

Fixpoint relocate_fields (mv : bool) (L : list param) (fl : list (Z * Z)) (sbid bid : nat)
         (ms m : mem) (d : Z) : mem * mem * list ev :=
  match L, fl with
  | p :: L', (a, c) :: fl' =>
      let '(ms1, m1, e1) :=
        if ntc mv p then relocate_objs mv p sbid bid ms m a (a + d) (Z.to_nat c) else (ms, m, []) in
      let '(ms2, m2, e2) := relocate_fields mv L' fl' sbid bid ms1 m1 d in
      (ms2, m2, e1 ++ e2)
  | _, _ => (ms, m, [])
  end.

(* uninitialized_construct_if_non_trivial: elements i .. i+n-1 of [src] into memory [m]
   at the same offsets *)
Fixpoint relocate_elems (mv : bool) (L : list param) (src : vec) (bid : nat) (m : mem) (i : Z) (n : nat)
  : vec * mem * list ev :=
  match n with
  | O => (src, m, [])
  | S n' =>
      let fl := fst (load L (v_fixed src) (v_mem src) (eaddr L src i)) in
      let '(ms1, m1, e1) := relocate_fields mv L fl (bidn (v_bid src)) bid (v_mem src) m 0 in
      let '(src2, m2, e2) := relocate_elems mv L (set_mem src ms1) bid m1 (i + 1) n' in
      (src2, m2, e1 ++ e2)
  end.

(* insert_into<IsDestruct>(…, new_memory, from): returns the updated source, the new
   block's bytes and the events.  [mv]: USE_MOVE (source not const) *)
Definition insert_into (mv destr : bool) (L : list param) (src : vec) (bid : nat) (junk : mem)
  : vec * mem * list ev :=
  let used := dend L src in
  let m0 := mcopy (v_mem src) 0 junk 0 used in
  let raw := [ERaw bid 0 used] in
  (* IS_TRIVIAL && (!IsDestruct || IS_TRIVIALLY_DESTRUCTIBLE) (vector.hpp:401) *)
  if all_ctriv mv L && (negb destr || all_dtriv L) then (src, m0, raw)
  else
    let '(src1, m1, e1) := if all_ctriv mv L then (src, m0, [])
                           else relocate_elems mv L src bid m0 0 (Z.to_nat (vsize L src)) in
    let '(src2, e2) := if destr && negb (all_dtriv L)
                       then destruct_range L src1 0 (Z.to_nat (vsize L src1)) else (src1, []) in
    (src2, m1, raw ++ e1 ++ e2).

(* relocating locator constructor (elementLocator.hpp:50-59, 250-255): the table of a
   new block of capacity [ncap] holding the first [size] slots of the old one *)
Definition tbl_relocate (t : tbl) (ncap : Z) (tbid : nat) : tbl :=
  {| t_bid := Some tbid; t_cap := ncap;
     t_slots := firstn (Z.to_nat ncap)
                  (firstn (Z.to_nat (t_size t)) (t_slots t) ++ repeat None (Z.to_nat ncap));
     t_size := t_size t |}.

Definition dealloc_tbl (L : list param) (v : vec) : list ev :=
  match t_bid (v_tbl v) with
  | Some tb => [EDealloc (v_aid v) 8 (t_cap (v_tbl v)) tb]
  | None => []
  end.
Definition dealloc_mem (L : list param) (v : vec) : list ev :=
  match v_bid v with
  | Some b => [EDealloc (v_aid v) (SA L) (v_units v) b]
  | None => []
  end.

(* ---------- reserve / grow (vector.hpp:189-195, 377-392) ---------- *)
Definition reserve (L : list param) (v : vec) (n b : Z) (junk : mem) (bid tbid : nat) : vec * list ev :=
  if v_cap v <? n then
    let tab := has_varying L in
    let bytes := if tab then needed n b (esize L (v_fixed v)) else needed_grow_fixed n b (v_stride v) in
    let u := units L bytes in
    let ea := EAlloc (v_aid v) (SA L) u bid :: (if tab then [EAlloc (v_aid v) 8 n tbid] else []) in
    let '(v1, m, e1) := insert_into true true L v bid junk in
    ({| v_cap := n; v_bid := Some bid; v_units := u; v_aid := v_aid v; v_mem := m;
        v_fixed := v_fixed v; v_count := v_count v; v_stride := v_stride v;
        v_tbl := if tab then tbl_relocate (v_tbl v) n tbid else v_tbl v;
        v_last := v_last v |},
     ea ++ e1 ++ (if tab then dealloc_tbl L v else []) ++ dealloc_mem L v)
  else (v, []).

(* ---------- destructor (vector.hpp:156-159, 585-591; allocator.hpp:96-99) ---------- *)
Definition destroy (L : list param) (v : vec) : list ev :=
  let '(v1, e1) := match v_bid v with
                   | Some _ => if all_dtriv L then (v, [])
                               else destruct_range L v 0 (Z.to_nat (vsize L v))
                   | None => (v, []) end in
  e1 ++ dealloc_tbl L v ++ dealloc_mem L v.
