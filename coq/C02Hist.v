(* C02Hist.v — C02 / C10 at history level: along EVERY valid history of emplace_back /
   pop_back / erase / erase(first,last) / clear / reserve that respects the documented limits
   (size() < capacity() and the varying payload within the byte budget of the construction or
   of the last growing reserve), every stored element ends inside the block the vector owns.
   For trivially relocatable lists whose tail is benign (NeededThm.tail_ok).
   Ingredients: the representation invariant with tight packing (Refine.v), the sufficiency
   of the needed-memory formula for a tight fill (NeededThm.needed_sufficient), and a ghost
   budget that follows the history. *)
From Coq Require Import ZArith Lia List Bool.
From Cntgs Require Import Base BaseLemmas Layout LayoutThm Mem MemLemmas Vector Spec Rep ElemLemmas Ordered
  EsizeThm Refine C02Thm NeededThm TightThm.
Import ListNotations.
Local Open Scope Z_scope.

Definition tpayload (L : list param) (l : list tuple) : Z := payload L (map cnts_of l).

(* the ghost budget: what the block was obtained for *)
Definition bstep (s : svec) (B : Z) (o : sop) : Z :=
  match o with SReserve n b => if s_cap s <? n then b else B | _ => B end.
Definition bvalid (L : list param) (s : svec) (B : Z) (o : sop) : Prop :=
  match o with
  | SEmplace t => tpayload L (s_elems s ++ [t]) <= B
  | SReserve n b => 0 <= b /\ (s_cap s < n -> tpayload L (s_elems s) <= b)
  | _ => True
  end.
Fixpoint bhist_valid (L : list param) (s : svec) (B : Z) (h : list sop) : Prop :=
  match h with
  | [] => True
  | o :: h' => bvalid L s B o /\ bhist_valid L (sstep s o) (bstep s B o) h'
  end.

Lemma tuple_ok_cnts_fit L : forall fc prevc t, tuple_ok L fc prevc t -> cnts_fit L fc (cnts_of t).
Proof.
  induction L as [|p L IH]; intros fc prevc t H.
  - destruct t; [exact I|destruct fc; contradiction].
  - destruct fc as [|c fc]; [contradiction|]. destruct t as [|f t]; [contradiction|].
    destruct H as (Ho & Hc & Ht). cbn [cnts_of map cnts_fit hd tl]. fold (cnts_of t).
    split; [lia|]. split; [intros Hk; rewrite Hk in Hc; lia|]. split; [intros Hk; rewrite Hk in Hc; lia|].
    eapply IH; eauto.
Qed.

Lemma vbytes_nonneg L : forall fc cnts, Forall wfp L -> cnts_fit L fc cnts -> 0 <= vbytes L cnts.
Proof.
  induction L as [|p L IH]; intros fc cnts HF H; destruct cnts as [|c cnts]; cbn [vbytes]; try lia.
  destruct H as (H0 & _ & _ & H). apply Forall_cons_iff in HF. destruct HF as [[Hs _] HF].
  specialize (IH _ _ HF H). destruct (is_varying p); [|lia].
  assert (0 <= c * psz p) by (apply Z.mul_nonneg_nonneg; lia). lia.
Qed.

Lemma skipn_skipn_ {A} : forall b a (l : list A), skipn a (skipn b l) = skipn (b + a) l.
Proof.
  induction b as [|b IH]; intros a l; [reflexivity|]. destruct l as [|x l]; [now rewrite !skipn_nil|].
  cbn [skipn Nat.add]. apply IH.
Qed.

Section Hist.
  Variable L : list param.
  Hypothesis Hwf : wf_plist L = true.
  Hypothesis Htriv : all_triv L = true.
  Hypothesis Htl : tail_ok (SA L) true L = true.

  Let HF : Forall wfp L := wf_plist_Forall L Hwf.
  Let Hne : L <> [] := wf_plist_nonempty L Hwf.
  Let HSp : 0 < SA L := pow2_pos _ (SA_pow2 L HF Hne).

  (* ---------- payload arithmetic ---------- *)
  Lemma tpayload_app l1 l2 : tpayload L (l1 ++ l2) = tpayload L l1 + tpayload L l2.
  Proof.
    unfold tpayload, payload. induction l1 as [|t l1 IH]; cbn [app map fold_right]; [lia|]. rewrite IH. lia.
  Qed.

  Lemma tpayload_nonneg fc l : Forall (tuple_ok L fc 0) l -> 0 <= tpayload L l.
  Proof.
    induction 1 as [|t l Ht _ IH]; unfold tpayload, payload in *; cbn [map fold_right]; [lia|].
    pose proof (vbytes_nonneg L fc (cnts_of t) HF (tuple_ok_cnts_fit L fc 0 t Ht)). lia.
  Qed.

  Lemma tpayload_remove_range fc i j l : Forall (tuple_ok L fc 0) l -> (i <= j)%nat ->
    tpayload L (remove_range i j l) <= tpayload L l.
  Proof.
    intros Hl Hij. unfold remove_range.
    rewrite <- (firstn_skipn i l) at 3. rewrite !tpayload_app.
    assert (Hs : skipn j l = skipn (j - i) (skipn i l)).
    { rewrite skipn_skipn_. f_equal. lia. }
    rewrite Hs. rewrite <- (firstn_skipn (j - i) (skipn i l)) at 2. rewrite tpayload_app.
    assert (0 <= tpayload L (firstn (j - i) (skipn i l))).
    { apply (tpayload_nonneg fc). apply Forall_forall. intros t Ht. rewrite Forall_forall in Hl. apply Hl.
      eapply In_skipn_. eapply In_firstn_. exact Ht. }
    lia.
  Qed.

  Lemma tpayload_removelast fc l : Forall (tuple_ok L fc 0) l -> tpayload L (removelast l) <= tpayload L l.
  Proof.
    intros Hl. destruct l as [|t l]; [cbn; lia|].
    rewrite removelast_firstn_len. 
    replace (firstn (Init.Nat.pred (length (t :: l))) (t :: l)) with (remove_range (Init.Nat.pred (length (t :: l))) (length (t :: l)) (t :: l)).
    - eapply tpayload_remove_range; eauto. lia.
    - unfold remove_range. rewrite skipn_all. apply app_nil_r.
  Qed.

  (* ---------- the tight chain is the fill of NeededThm ---------- *)
  Lemma chain_is_fill : forall offs l lo hi, elems_tight L lo offs l hi ->
    eo_end L lo offs l = fill L (map cnts_of l) lo.
  Proof.
    induction offs as [|a offs IH]; intros [|t l] lo hi H; cbn [elems_tight] in H; try contradiction; [reflexivity|].
    destruct H as [Ea H]. cbn [eo_end map fill]. rewrite <- Ea. apply (IH l _ hi H).
  Qed.

  Lemma rep_end_bound v l offs : RepO L v l offs ->
    eo_end L 0 offs l <= needed (Z.of_nat (length l)) (tpayload L l) (esize L (v_fixed v)).
  Proof.
    intros R. rewrite (chain_is_fill offs l 0 _ (r_tight _ _ _ _ R)).
    pose proof (needed_sufficient L (v_fixed v) (map cnts_of l) (tpayload L l) Hwf Htl) as H.
    rewrite map_length in H. apply H.
    - apply Forall_forall. intros c Hc. apply in_map_iff in Hc. destruct Hc as (t & <- & Ht).
      pose proof (r_tuples _ _ _ _ R) as HT. rewrite Forall_forall in HT.
      eapply tuple_ok_cnts_fit. apply HT. exact Ht.
    - unfold tpayload. lia.
    - eapply tpayload_nonneg. exact (r_tuples _ _ _ _ R).
  Qed.

  (* ---------- signs ---------- *)
  Fixpoint zcnts (L' : list param) (fc : list Z) : list Z :=
    match L' with
    | [] => []
    | p :: r => (match pk p with Plain => 1 | Fixed => hd 0 fc | Varying => 0 end) :: zcnts r (tl fc)
    end.

  Lemma zcnts_fit : forall L' fc, Forall (fun c => 0 <= c) fc -> (length L' <= length fc)%nat ->
    cnts_fit L' fc (zcnts L' fc) /\ vbytes L' (zcnts L' fc) = 0.
  Proof.
    induction L' as [|p L' IH]; intros fc Hfc Hl; cbn [zcnts cnts_fit vbytes]; [auto|].
    destruct fc as [|c fc]; [cbn in Hl; lia|]. inversion Hfc; subst. cbn [hd tl].
    destruct (IH fc ltac:(assumption) ltac:(cbn in Hl; lia)) as [I1 I2]. rewrite I2.
    unfold is_varying. destruct (pk p) eqn:Hk; cbn [kind_eqb]; (split; [repeat split; try lia; try discriminate; auto|lia]).
  Qed.

  Lemma esize_signs fixed : Forall (fun c => 0 <= c) fixed ->
    0 <= fst (esize L fixed) /\ 0 <= snd (esize L fixed).
  Proof.
    intros Hfx.
    destruct (zcnts_fit L (fixed_counts L fixed) (fixed_counts_nonneg L fixed Hfx) ltac:(rewrite fixed_counts_length; lia)) as [Hfit Hvb].
    destruct (element_bound L fixed _ 0 Hwf Hfit ltac:(lia) (Z.divide_0_r _)) as [H1 H2]. cbv zeta in H1, H2.
    specialize (H2 Htl). rewrite Hvb in *.
    assert (He : 0 <= snd (place L (zcnts L (fixed_counts L fixed)) 0)).
    { unfold place. apply place_from_end_ge; auto. eapply cnts_fit_nonneg; eauto. }
    pose proof (first_align_ge L (snd (place L (zcnts L (fixed_counts L fixed)) 0)) Hwf). lia.
  Qed.

  Lemma needed_mono n n' b b' sz : 0 <= fst sz -> 0 <= snd sz -> 0 <= n <= n' -> b <= b' ->
    needed n b sz <= needed n' b' sz.
  Proof.
    intros Hs Hst Hn Hb. unfold needed. destruct sz as [size stride]. cbn [fst snd] in *.
    destruct (Z.eqb_spec n 0) as [->|Hn0]; destruct (Z.eqb_spec n' 0) as [->|Hn0']; try lia.
    - assert (0 <= stride * (n' - 1)) by (apply Z.mul_nonneg_nonneg; lia). lia.
    - assert (stride * n <= stride * n') by (apply Z.mul_le_mono_nonneg_l; lia). lia.
  Qed.

  Lemma needed_nonneg n b sz : 0 <= fst sz -> 0 <= snd sz -> 0 <= n -> 0 <= b -> 0 <= needed n b sz.
  Proof.
    intros Hs Hst Hn Hb. unfold needed. destruct sz as [size stride]. cbn [fst snd] in *.
    destruct (Z.eqb_spec n 0) as [->|Hn0]; [lia|].
    assert (0 <= stride * (n - 1)) by (apply Z.mul_nonneg_nonneg; lia). lia.
  Qed.

  (* ---------- the invariant ---------- *)
  Definition BInv (v : vec) (s : svec) (B : Z) : Prop :=
    Rep L v (s_elems s) /\ v_cap v = s_cap s /\ 0 <= v_cap v /\ 0 <= B /\ tpayload L (s_elems s) <= B /\
    Forall (fun c => 0 <= c) (v_fixed v) /\
    (has_varying L = false -> v_stride v = snd (esize L (v_fixed v))) /\
    needed (v_cap v) B (esize L (v_fixed v)) <= SA L * v_units v.

  (* in a state that satisfies the invariant every element ends inside the block *)
  Theorem binv_in_block v s B : BInv v s B ->
    exists offs, RepO L v (s_elems s) offs /\
      Forall2 (fun a t => 0 <= a /\ elem_end L a t <= SA L * v_units v) offs (s_elems s).
  Proof.
    intros ([offs R] & Hc & Hc0 & HB & Hp & Hfx & _ & Hblk).
    exists offs. split; [exact R|].
    pose proof (rep_end_bound v _ offs R) as He.
    destruct (esize_signs _ Hfx) as [Hs Hst].
    pose proof (r_cap _ _ _ _ R) as Hcap.
    assert (Hnm : needed (Z.of_nat (length (s_elems s))) (tpayload L (s_elems s)) (esize L (v_fixed v))
                  <= needed (v_cap v) B (esize L (v_fixed v))) by (apply needed_mono; auto; lia).
    pose proof (eo_bounds L Hwf _ _ _ _ (eo_tight L _ _ _ _ (r_order _ _ _ _ R))) as Hb.
    eapply Forall2_impl_; [|exact Hb]. cbn beta. intros a t (H0 & _ & H1). split; [lia|]. lia.
  Qed.

  (* what a step does to capacity-related fields *)
  Lemma vstep_frame junk v o :
    v_stride (vstep L junk v o) = v_stride v /\
    v_units (vstep L junk v o) =
      match o with
      | SReserve n b =>
          if v_cap v <? n then
            units L (if has_varying L then needed n b (esize L (v_fixed v)) else needed_grow_fixed n b (v_stride v))
          else v_units v
      | _ => v_units v
      end.
  Proof.
    pose proof (Hdt L Htriv) as Hd.
    destruct o as [t| |i|i j| |n b]; cbn [vstep].
    - unfold emplace_back. destruct (has_varying L); destruct (store _ _ _ _ _) as [[m evs] e]; cbn; auto.
    - unfold pop_back. rewrite (destruct_elem_triv L Htriv). cbn [fst].
      unfold resize. destruct (has_varying L); [destruct (_ <? _)|]; cbn; auto.
    - unfold erase. rewrite (destruct_elem_triv L Htriv), (move_forward_triv_eq L Htriv).
      unfold move_forward_triv. destruct (has_varying L && _); cbn [fst];
        unfold resize; destruct (has_varying L); cbn [fst]; try destruct (_ <? _); cbn; auto.
    - unfold erase_range. rewrite Hd, (move_forward_triv_eq L Htriv).
      destruct ((j <? vsize L v) && negb (i =? j)); cbn [fst].
      + unfold move_forward_triv. destruct (has_varying L && _); cbn [fst];
          unfold resize; destruct (has_varying L); cbn [fst]; try destruct (_ <? _); cbn; auto.
      + unfold resize; destruct (has_varying L); cbn [fst]; try destruct (_ <? _); cbn; auto.
    - unfold clear. rewrite Hd. cbn [fst].
      unfold resize. destruct (has_varying L); [destruct (_ <? _)|]; cbn; auto.
    - unfold reserve. destruct (v_cap v <? n); [|cbn; auto].
      rewrite (insert_into_triv L Htriv). cbn. auto.
  Qed.

  Theorem binv_step junk v s B o : BInv v s B ->
    svalid L (fixed_counts L (v_fixed v)) s o -> bvalid L s B o ->
    BInv (vstep L junk v o) (sstep s o) (bstep s B o).
  Proof.
    intros (R & Hc & Hc0 & HB & Hp & Hfx & Hstr & Hblk) Hv Hbv.
    destruct (vstep_rep L Hwf Htriv junk v s o R Hc Hv) as (R' & Hc' & Hf).
    destruct (vstep_frame junk v o) as [Est Eun]. unfold cap_ok in Hc'.
    destruct (esize_signs _ Hfx) as [Hs Hst].
    assert (HT : Forall (tuple_ok L (fixed_counts L (v_fixed v)) 0) (s_elems s)).
    { destruct R as [offs R]. exact (r_tuples _ _ _ _ R). }
    unfold BInv. rewrite Hf, Est. split; [exact R'|]. split; [exact Hc'|].
    destruct o as [t| |i|i j| |n b]; cbn [sstep bstep s_cap s_elems bvalid svalid] in *.
    - rewrite Hc', Eun. rewrite <- ?Hc. repeat split; auto; lia.
    - rewrite Hc', Eun. rewrite <- ?Hc. repeat split; auto; try lia.
      pose proof (tpayload_removelast _ _ HT). lia.
    - rewrite Hc', Eun. rewrite <- ?Hc. repeat split; auto; try lia.
      pose proof (tpayload_remove_range _ (Z.to_nat i) (S (Z.to_nat i)) _ HT ltac:(lia)). lia.
    - rewrite Hc', Eun. rewrite <- ?Hc. repeat split; auto; try lia.
      pose proof (tpayload_remove_range _ (Z.to_nat i) (Z.to_nat j) _ HT ltac:(lia)). lia.
    - rewrite Hc', Eun. rewrite <- ?Hc. repeat split; auto; try lia; try (unfold tpayload, payload; cbn; lia).
    - destruct Hbv as [Hb0 Hbv]. rewrite Hc', Eun. rewrite <- Hc. destruct (Z.ltb_spec (v_cap v) n) as [Hlt|Hge].
      + rewrite Z.max_r by lia. repeat split; auto; try lia.
        destruct (has_varying L) eqn:Hv'.
        * apply units_ge; auto. apply needed_nonneg; auto; lia.
        * rewrite (Hstr eq_refl). unfold needed_grow_fixed.
          eapply Z.le_trans; [|apply units_ge; auto].
          -- (* stride >= size for lists without VaryingSize parameter *)
             assert (Hge : fst (esize L (v_fixed v)) <= snd (esize L (v_fixed v))).
             { pose proof (fixed_counts_nonneg L _ Hfx) as Hfc.
               destruct (esize_spec L Hwf Hv' (v_fixed v) (canon_cnts L (fixed_counts L (v_fixed v))) 0) as [_ E]; try lia.
               - apply canon_cnts_match; auto. rewrite fixed_counts_length. lia.
               - apply Z.divide_0_r.
               - rewrite E. pose proof (esize_spec L Hwf Hv' (v_fixed v) (canon_cnts L (fixed_counts L (v_fixed v))) 0) as E2.
                 destruct E2 as [E1 _]; try lia.
                 + apply canon_cnts_match; auto. rewrite fixed_counts_length. lia.
                 + apply Z.divide_0_r.
                 + rewrite E1. apply align_up_ge. exact HSp. }
             unfold needed. destruct (esize L (v_fixed v)) as [size stride]. cbn [fst snd] in *.
             destruct (n =? 0); lia.
          -- assert (0 <= snd (esize L (v_fixed v)) * n) by (apply Z.mul_nonneg_nonneg; lia). lia.
      + rewrite Z.max_l by lia. repeat split; auto; lia.
  Qed.

  (* ---------- histories ---------- *)
  Theorem binv_run junk h : forall v s B, BInv v s B ->
    shist_valid L (fixed_counts L (v_fixed v)) s h -> bhist_valid L s B h ->
    exists B', BInv (vrun L junk v h) (srun s h) B'.
  Proof.
    induction h as [|o h IH]; intros v s B HI Hv Hb; cbn [vrun srun shist_valid bhist_valid] in *; [eauto|].
    destruct Hv as [Hv1 Hv2]. destruct Hb as [Hb1 Hb2].
    pose proof (binv_step junk v s B o HI Hv1 Hb1) as HI'.
    eapply IH; eauto.
    destruct HI as (R & Hc & _).
    destruct (vstep_rep L Hwf Htriv junk v s o R Hc Hv1) as (_ & _ & Hf). rewrite Hf. exact Hv2.
  Qed.

  Theorem binv_init cap budget fixed aid junk bid tbid : 0 <= cap -> 0 <= budget ->
    Forall (fun c => 0 <= c) fixed ->
    BInv (fst (mkvec L cap budget fixed aid junk bid tbid)) {| s_cap := cap; s_elems := [] |} budget.
  Proof.
    intros Hcap Hb Hfx.
    assert (Hst : has_varying L = false -> stride_ok L (fixed_counts L fixed) (snd (esize L fixed))).
    { intros Hnv. apply esize_stride_ok; auto. apply fixed_counts_nonneg; auto. }
    destruct (mkvec_rep L Hwf cap budget fixed aid junk bid tbid Hcap Hst) as (R0 & Hc0 & Hf0).
    cbv zeta in *. destruct (esize_signs _ Hfx) as [Hs Hs2].
    unfold BInv. rewrite Hf0, Hc0. cbn [s_cap s_elems]. split; [exact R0|].
    repeat split; auto; try lia; try (unfold tpayload, payload; cbn; lia).
    unfold mkvec. cbn [fst v_units]. apply units_ge; auto. apply needed_nonneg; auto.
  Qed.
End Hist.

(* C02 (and the capacity promise of C10) for every valid history from construction *)
Theorem every_element_inside_block_every_history : forall L cap budget fixed aid junk bid tbid h,
  wf_plist L = true -> all_triv L = true -> tail_ok (SA L) true L = true ->
  0 <= cap -> 0 <= budget -> Forall (fun c => 0 <= c) fixed ->
  let v0 := fst (mkvec L cap budget fixed aid junk bid tbid) in
  let s0 := {| s_cap := cap; s_elems := [] |} in
  shist_valid L (fixed_counts L fixed) s0 h -> bhist_valid L s0 budget h ->
  let v := vrun L junk v0 h in
  let l := s_elems (srun s0 h) in
  exists offs, RepO L v l offs /\
    Forall2 (fun a t => 0 <= a /\ elem_end L a t <= SA L * v_units v) offs l.
Proof.
  intros L cap budget fixed aid junk bid tbid h Hwf Ht Htl Hcap Hb Hfx. cbv zeta. intros Hv Hbv.
  pose proof (binv_init L Hwf Htl cap budget fixed aid junk bid tbid Hcap Hb Hfx) as H0.
  destruct (binv_run L Hwf Ht Htl junk h _ _ _ H0) as [B' HI]; auto.
  eapply binv_in_block; eauto.
Qed.

(* the hypotheses are satisfiable: (uint32, VaryingSize<uint32>), capacity 2 / 12 payload
   bytes, filled to the limit, grown by reserve(4, 40), used further *)
Definition hxL : list param :=
  [ {| pk := Plain; psz := 4; pal := 4; pty := TUInt |};
    {| pk := Varying; psz := 4; pal := 4; pty := TUInt |} ].
Definition hxA : tuple := [[[1; 0; 0; 0]]; [[7; 0; 0; 0]]].
Definition hxB : tuple := [[[2; 0; 0; 0]]; [[8; 0; 0; 0]; [9; 0; 0; 0]]].
Definition hxH : list sop := [SEmplace hxA; SEmplace hxB; SReserve 4 40; SEmplace hxA; SErase 0; SEmplace hxB; SPopBack].
Example history_theorem_applies :
  wf_plist hxL = true /\ all_triv hxL = true /\ tail_ok (SA hxL) true hxL = true /\
  shist_valid hxL (fixed_counts hxL []) {| s_cap := 2; s_elems := [] |} hxH /\
  bhist_valid hxL {| s_cap := 2; s_elems := [] |} 12 hxH.
Proof.
  split; [reflexivity|]. split; [reflexivity|]. split; [reflexivity|]. split.
  - cbn. repeat split; try lia; try discriminate; repeat constructor.
  - cbn. unfold tpayload, payload. cbn. repeat split; lia.
Qed.
