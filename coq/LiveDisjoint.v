(* C06, "its storage is never overwritten by another object while it is alive", at the level of
   states: in every represented state the objects a vector holds (every object of every
   selected field of every element) occupy pairwise DISJOINT byte ranges inside
   [0, data_end()) of its block, in increasing address order - so the multiset `live` of
   LifeHist.v is a set, and what the balance theorems count are distinct pieces of storage. *)
From Coq Require Import ZArith Lia List Bool Permutation.
From Cntgs Require Import Base BaseLemmas Layout LayoutThm Mem MemLemmas Vector Spec Rep ElemLemmas Ordered
  EsizeThm Refine LifeThm LifeHist.
Import ListNotations.
Local Open Scope Z_scope.

(* objects (offset, size) in increasing address order, one behind the other, inside [lo, hi) *)
Fixpoint ochain (lo : Z) (objs : list (Z * Z)) (hi : Z) : Prop :=
  match objs with
  | [] => lo <= hi
  | (o, s) :: r => lo <= o /\ 0 < s /\ ochain (o + s) r hi
  end.

Lemma ochain_le : forall objs lo hi, ochain lo objs hi -> lo <= hi.
Proof.
  induction objs as [|[o s] r IH]; intros lo hi H; cbn [ochain] in H; [exact H|].
  destruct H as (A & B & C). specialize (IH _ _ C). lia.
Qed.

Lemma ochain_lo : forall objs lo lo' hi, lo' <= lo -> ochain lo objs hi -> ochain lo' objs hi.
Proof.
  intros [|[o s] r] lo lo' hi Hl H; cbn [ochain] in *; [lia|]. destruct H as (A & B & C). repeat split; auto; lia.
Qed.

Lemma ochain_hi : forall objs lo hi hi', hi <= hi' -> ochain lo objs hi -> ochain lo objs hi'.
Proof.
  induction objs as [|[o s] r IH]; intros lo hi hi' Hh H; cbn [ochain] in *; [lia|].
  destruct H as (A & B & C). repeat split; auto. eapply IH; eauto.
Qed.

Lemma ochain_app : forall a lo mid b hi, ochain lo a mid -> ochain mid b hi -> ochain lo (a ++ b) hi.
Proof.
  induction a as [|[o s] r IH]; intros lo mid b hi Ha Hb; cbn [ochain app] in *.
  - eapply ochain_lo; eauto.
  - destruct Ha as (A & B & C). repeat split; auto. eapply IH; eauto.
Qed.

(* the objects of one field *)
Lemma field_chain x sz : 0 < sz -> forall c k,
  ochain (x + Z.of_nat k * sz) (map (fun j => (x + Z.of_nat j * sz, sz)) (seq k c)) (x + Z.of_nat (k + c) * sz).
Proof.
  intros Hs. induction c as [|c IH]; intros k; cbn [seq map ochain].
  - rewrite Nat.add_0_r. lia.
  - split; [lia|]. split; [exact Hs|].
    replace (x + Z.of_nat k * sz + sz) with (x + Z.of_nat (S k) * sz) by lia.
    replace (k + S c)%nat with (S k + c)%nat by lia. apply IH.
Qed.

(* the objects of the selected fields of one element, given the order of its field extents *)
Lemma obj_addrs_chain sel L : forall xs cnts lo hi, Forall wfp L -> Forall (fun c => 0 <= c) cnts ->
  ordered_from lo (extents L cnts xs) hi -> ochain lo (obj_addrs sel L xs cnts) hi.
Proof.
  induction L as [|p L IH]; intros xs cnts lo hi HF Hc Ho.
  - cbn [obj_addrs ochain]. destruct cnts; destruct xs; exact Ho.
  - destruct xs as [|x xs]; [destruct cnts; exact Ho|]. destruct cnts as [|c cnts]; [exact Ho|].
    cbn [extents ordered_from obj_addrs] in *. destruct Ho as (A & B & C).
    inversion HF as [|? ? [Hs _] HF']; subst. inversion Hc as [|? ? Hc0 Hc']; subst.
    specialize (IH xs cnts _ _ HF' Hc' C).
    destruct (sel p).
    + eapply ochain_app; [|exact IH].
      pose proof (field_chain x (psz p) Hs (Z.to_nat c) 0) as H. cbn [Nat.add] in H.
      rewrite Z2Nat.id in H by lia. change (Z.of_nat 0) with 0 in H. rewrite Z.mul_0_l, Z.add_0_r in H.
      eapply ochain_lo; [exact A|exact H].
    + cbn [app]. eapply ochain_lo; [|exact IH]. lia.
Qed.

Section LiveDisjoint.
  Variable L : list param.
  Hypothesis Hwf : wf_plist L = true.
  Let HF : Forall wfp L := wf_plist_Forall L Hwf.

  Lemma eobjs_chain sel a t fc : tuple_ok L fc 0 t -> 0 <= a -> (SA L | a) ->
    ochain a (eobjs sel L a t) (elem_end L a t).
  Proof.
    intros Ht Ha HaS. unfold eobjs, elem_end.
    apply obj_addrs_chain; [exact HF|apply cnts_of_nonneg|].
    exact (place_ordered L (cnts_of t) a Hwf (tuple_ok_cnt_ok L _ _ t Ht) Ha HaS).
  Qed.

  Lemma vobjs_chain sel fc : forall offs l lo hi, 0 <= lo -> Forall (tuple_ok L fc 0) l ->
    elems_ordered L lo offs l hi -> ochain lo (vobjs sel L offs l) hi.
  Proof.
    induction offs as [|a offs IH]; intros l lo hi Hlo Ht Ho; destruct l as [|t l]; cbn [elems_ordered vobjs] in *; try contradiction.
    - exact Ho.
    - destruct Ho as (A & B & C). inversion Ht as [|? ? Ht0 Ht']; subst.
      pose proof (eobjs_chain sel a t fc Ht0 ltac:(lia) B) as He.
      eapply ochain_app; [eapply ochain_lo; [exact A|exact He]|].
      apply IH; [|exact Ht'|exact C]. pose proof (ochain_le _ _ _ He). lia.
  Qed.

  (* in every represented state: the held objects lie one behind the other inside the data *)
  Theorem held_objects_chain sel v l offs : RepO L v l offs ->
    ochain 0 (vobjs sel L offs l) (dend L v).
  Proof.
    intros R. eapply vobjs_chain; [lia|exact (r_tuples _ _ _ _ R)|exact (r_order _ _ _ _ R)].
  Qed.
End LiveDisjoint.

(* consequences of a chain: pairwise disjoint ranges, no object twice *)
Lemma ochain_all_ge : forall objs lo hi, ochain lo objs hi -> Forall (fun b => lo <= fst b /\ fst b + snd b <= hi) objs.
Proof.
  induction objs as [|[o s] r IH]; intros lo hi H; cbn [ochain] in H; [constructor|].
  destruct H as (A & B & C). constructor.
  - cbn [fst snd]. pose proof (ochain_le _ _ _ C). lia.
  - eapply Forall_impl; [|exact (IH _ _ C)]. intros b [P Q]. split; lia.
Qed.

Theorem ochain_disjoint : forall objs lo hi, ochain lo objs hi ->
  ForallOrdPairs (fun a b => fst a + snd a <= fst b) objs.
Proof.
  induction objs as [|[o s] r IH]; intros lo hi H; cbn [ochain] in H; [constructor|].
  destruct H as (A & B & C). constructor; [|eapply IH; eauto].
  eapply Forall_impl; [|exact (ochain_all_ge _ _ _ C)]. intros b [P _]. cbn [fst snd]. exact P.
Qed.

Theorem ochain_nodup : forall objs lo hi, ochain lo objs hi -> NoDup objs.
Proof.
  induction objs as [|[o s] r IH]; intros lo hi H; cbn [ochain] in H; [constructor|].
  destruct H as (A & B & C). constructor; [|eapply IH; eauto].
  intros Hin. pose proof (ochain_all_ge _ _ _ C) as Hall. rewrite Forall_forall in Hall.
  specialize (Hall _ Hin). cbn [fst snd] in Hall. lia.
Qed.

(* the live objects of LifeHist.v form a set *)
Theorem live_nodup L : wf_plist L = true -> forall v l offs, RepO L v l offs -> NoDup (live L v l).
Proof.
  intros Hwf v l offs R. unfold live. rewrite <- (rep_cpos L v l offs R).
  pose proof (ochain_nodup _ _ _ (held_objects_chain L Hwf (ntc true) v l offs R)) as H.
  unfold tag. apply FinFun.Injective_map_NoDup; [|exact H].
  intros [o1 s1] [o2 s2] E. cbn [fst snd] in E. inversion E. reflexivity.
Qed.
