(* FixedErase.v — erase on lists WITHOUT VaryingSize parameter but with non-trivially relocatable
   value types (C01 and everything built on the refinement): the element-wise path
   (move_forward_nt: every element behind the erased ones is re-emplaced - moved field by field,
   object by object through its move constructor - one or more strides further to the front, and
   its source destroyed).  With a fixed stride source and target of a move never overlap, and
   the refinement holds. *)
From Coq Require Import ZArith Lia List Bool.
From Cntgs Require Import Base BaseLemmas Layout LayoutThm Mem MemLemmas Vector Spec Rep ElemLemmas
     Ordered EsizeThm Refine Proxy NtBase.
Import ListNotations.
Local Open Scope Z_scope.

Lemma moved_bytes_len n : length (moved_bytes n) = Z.to_nat n.
Proof. unfold moved_bytes. apply repeat_length. Qed.

(* ---------- moving the objects of one field to a range entirely in front of them ---------- *)
Lemma move_objs_spec p bid : 0 < psz p -> forall n m src dst, dst + Z.of_nat n * psz p <= src ->
  let m' := fst (move_objs p bid m src dst n) in
  (forall x, dst <= x < dst + Z.of_nat n * psz p -> m' x = m (x - dst + src)) /\
  (forall x, ~ (dst <= x < dst + Z.of_nat n * psz p) -> ~ (src <= x < src + Z.of_nat n * psz p) -> m' x = m x).
Proof.
  intros Hp. induction n as [|n IH]; intros m src dst Hd; cbv zeta.
  - cbn [move_objs fst]. split; [intros x Hx; lia|reflexivity].
  - cbn [move_objs].
    assert (HS : Z.of_nat (S n) * psz p = psz p + Z.of_nat n * psz p) by (rewrite Nat2Z.inj_succ; ring).
    assert (Hq : 0 <= Z.of_nat n * psz p) by (apply Z.mul_nonneg_nonneg; lia).
    rewrite HS in *.
    set (bs := mread m src (Z.to_nat (psz p))).
    set (m1 := mwrite m dst bs).
    set (m2 := if ntc true p then mwrite m1 src (moved_bytes (psz p)) else m1).
    assert (Hbl : Z.of_nat (length bs) = psz p) by (unfold bs; rewrite mread_length, Z2Nat.id; lia).
    assert (H2 : forall x, ~ (src <= x < src + psz p) -> m2 x = m1 x).
    { intros x Hx. unfold m2. destruct (ntc true p); [|reflexivity]. apply mwrite_out. rewrite moved_bytes_len, Z2Nat.id by lia. exact Hx. }
    assert (H1o : forall x, ~ (dst <= x < dst + psz p) -> m1 x = m x).
    { intros x Hx. unfold m1. apply mwrite_out. rewrite Hbl. exact Hx. }
    assert (H1i : forall x, dst <= x < dst + psz p -> m1 x = m (x - dst + src)).
    { intros x Hx. unfold m1, mwrite. rewrite Hbl. replace (inr dst (psz p) x) with true by (symmetry; apply inr_true; exact Hx).
      unfold bs. rewrite mread_nth by lia. f_equal. rewrite Z2Nat.id by lia. lia. }
    specialize (IH m2 (src + psz p) (dst + psz p) ltac:(lia)). cbv zeta in IH.
    destruct (move_objs p bid m2 (src + psz p) (dst + psz p) n) as [m3 evs]. cbn [fst] in *.
    destruct IH as [I1 I2]. split.
    + intros x Hx. destruct (Z.lt_ge_cases x (dst + psz p)) as [Hlt|Hge].
      * rewrite I2 by lia. rewrite H2 by lia. apply H1i. lia.
      * rewrite I1 by lia. rewrite H2 by lia. rewrite H1o by lia. f_equal. lia.
    + intros x Hx1 Hx2. rewrite I2 by lia. rewrite H2 by lia. apply H1o. lia.
Qed.

(* ---------- moving the fields of one element to a placement entirely in front of it ---------- *)
Lemma move_fields_spec bid L : forall pv xs cnts m a lo hi,
  Forall wfp L -> Forall (fun c => 0 <= c) cnts -> length xs = length L -> length cnts = length L ->
  (length L <= length pv)%nat ->
  ordered_from lo (extents L cnts xs) hi ->
  snd (place_from L pv cnts a) <= lo ->
  let T := fst (place_from L pv cnts a) in
  let m' := fst (fst (move_fields L pv (combine xs cnts) bid m a)) in
  (forall k x, (k < length L)%nat ->
     nth k T 0 <= x < nth k T 0 + nth k cnts 0 * psz (nth k L pparam0) -> m' x = m (x - nth k T 0 + nth k xs 0)) /\
  (forall x, x < a \/ snd (place_from L pv cnts a) <= x < lo \/ hi <= x -> m' x = m x).
Proof.
  induction L as [|p L IH]; intros pv xs cnts m a lo hi HF Hc Hlx Hlc Hpv Ho He; cbv zeta.
  - cbn [move_fields fst]. split; [intros k x Hk; cbn [length] in Hk; lia|reflexivity].
  - destruct xs as [|x0 xs]; [discriminate|]. destruct cnts as [|c cnts]; [discriminate|].
    destruct pv as [|pt pv]; [cbn [length] in Hpv; lia|].
    cbn [combine move_fields]. rewrite place_from_cons in *. cbn [fst snd] in *.
    cbn [extents ordered_from] in Ho. destruct Ho as (H1 & H2 & Ho).
    apply Forall_cons_iff in HF. destruct HF as [[Hs Hal] HF]. inversion Hc as [|? ? Hc0 Hcr]; subst.
    set (a' := align_if (pt <? pal p) (pal p) a) in *.
    assert (Haa : a <= a') by (unfold a'; apply align_if_ge; apply pow2_pos; exact Hal).
    pose proof (place_from_end_ge L pv cnts (a' + c * psz p) HF Hcr) as Hge.
    pose proof (ordered_from_le _ _ _ Ho) as Hle.
    assert (Hcp : 0 <= c * psz p) by (apply Z.mul_nonneg_nonneg; lia).
    pose proof (move_objs_spec p bid Hs (Z.to_nat c) m x0 a' ltac:(rewrite Z2Nat.id by lia; lia)) as Hm.
    cbv zeta in Hm. rewrite Z2Nat.id in Hm by lia.
    destruct (move_objs p bid m x0 a' (Z.to_nat c)) as [m1 e1]. cbn [fst] in Hm. destruct Hm as [M1 M2].
    specialize (IH pv xs cnts m1 (a' + c * psz p) (x0 + c * psz p) hi HF Hcr
                   ltac:(cbn [length] in Hlx; lia) ltac:(cbn [length] in Hlc; lia) ltac:(cbn [length] in Hpv; lia) Ho ltac:(lia)).
    cbv zeta in IH.
    destruct (move_fields L pv (combine xs cnts) bid m1 (a' + c * psz p)) as [[m2 e2] e]. cbn [fst] in *.
    destruct IH as [I1 I2]. split.
    + intros k x Hk Hx. destruct k as [|k]; cbn [nth] in *.
      * rewrite I2 by lia. apply M1. exact Hx.
      * rewrite (I1 k x ltac:(cbn [length] in Hk; lia) Hx).
        (* the source address lies in the source range of field k+1: behind field 0's source, behind every target *)
        assert (Hsrc : x0 + c * psz p <= x - nth k (fst (place_from L pv cnts (a' + c * psz p))) 0 + nth k xs 0).
        { clear - Ho Hk Hx HF Hcr Hlx Hlc. cbn [length] in *.
          assert (Hxs : forall L cnts xs lo hi k, ordered_from lo (extents L cnts xs) hi -> length xs = length L -> length cnts = length L ->
                          (k < length L)%nat -> lo <= nth k xs 0).
          { induction L0 as [|q L0 IHL]; intros cn ys l h j Hor Hl1 Hl2 Hj; [cbn [length] in Hj; lia|].
            destruct ys as [|y ys]; [discriminate|]. destruct cn as [|cc cn]; [discriminate|].
            cbn [extents ordered_from] in Hor. destruct Hor as (A1 & A2 & A3). destruct j as [|j]; cbn [nth]; [exact A1|].
            specialize (IHL cn ys (y + cc * psz q) h j A3 ltac:(cbn [length] in Hl1; lia) ltac:(cbn [length] in Hl2; lia) ltac:(cbn [length] in Hj; lia)).
            pose proof (ordered_from_le _ _ _ A3). lia. }
          pose proof (Hxs L cnts xs (x0 + c * psz p) hi k Ho ltac:(lia) ltac:(lia) ltac:(lia)). lia. }
        apply M2; lia.
    + intros x Hx. rewrite I2 by lia. apply M2; lia.
Qed.

From Cntgs Require Import CompareThm RunsThm ElemThm CmpContent AssignThm.

Lemma mread_shift m1 m T X n : (forall i, (i < n)%nat -> m1 (T + Z.of_nat i) = m (X + Z.of_nat i)) ->
  mread m1 T n = mread m X n.
Proof. intros H. unfold mread. apply map_ext_in. intros i Hi. apply in_seq in Hi. apply H. lia. Qed.

(* ---------- re-emplacing one element in front of itself, then destroying the source ---------- *)
Section MoveElem.
  Variable L : list param.
  Hypothesis Hwf : wf_plist L = true.
  Let HF : Forall wfp L := wf_plist_Forall L Hwf.

  Lemma move_elem_spec bid m t fc s a : tuple_ok L fc 0 t ->
    0 <= a -> (SA L | a) -> 0 <= s -> (SA L | s) -> elem_at L m s t -> elem_end L a t <= s ->
    let fl := combine (fst (place L (cnts_of t) s)) (cnts_of t) in
    let m1 := fst (fst (move_fields L (prevs L) fl bid m a)) in
    let m2 := fst (destruct_fields L fl bid m1) in
    elem_at L m2 a t /\
    (forall x, x < a \/ elem_end L a t <= x < s \/ elem_end L s t <= x -> m2 x = m x).
  Proof.
    intros Ht Ha HaS Hs HsS He Hbefore. cbv zeta.
    set (cn := cnts_of t). set (xs := fst (place L cn s)).
    pose proof (tuple_ok_cnt_ok L _ _ t Ht) as Hcok.
    assert (Hcn : Forall (fun c => 0 <= c) cn) by apply cnts_of_nonneg.
    assert (Hlc : length cn = length L) by (unfold cn; exact (cnts_length L t fc Ht)).
    assert (Hlx : length xs = length L).
    { unfold xs, place. apply place_from_fst_length; [rewrite (prevs_length L); lia|exact Hlc]. }
    pose proof (place_ordered L cn s Hwf Hcok Hs HsS) as Hord. fold xs in Hord.
    pose proof (move_fields_spec bid L (prevs L) xs cn m a s (snd (place L cn s)) HF Hcn Hlx Hlc
                  ltac:(rewrite (prevs_length L); lia) Hord Hbefore) as HM. cbv zeta in HM.
    fold (place L cn a) in HM.
    destruct (move_fields L (prevs L) (combine xs cn) bid m a) as [[m1 e1] e]. cbn [fst] in *.
    destruct HM as [M1 M2].
    assert (E1 : elem_at L m1 a t).
    { unfold elem_at. apply elem_from_of_fields.
      - eapply tuple_ok_length; eauto.
      - rewrite (prevs_length L). lia.
      - intros j Hj. fold (place L (cnts_of t) a). fold cn.
        change (concat (nth j t [])) with (fb t j).
        transitivity (mread m (nth j xs 0) (length (fb t j))); [|exact (field_bytes L m s t He j Hj)].
        apply mread_shift. intros i Hi.
        pose proof (fb_len L Hwf t fc Ht j Hj) as Hlen. fold cn in Hlen.
        rewrite (M1 j (nth j (fst (place L cn a)) 0 + Z.of_nat i) Hj) by lia. f_equal. lia. }
    pose proof (fun y => destruct_fields_frame L cn xs bid m1 s (snd (place L cn s)) y HF Hcn Hord) as Hfr.
    destruct (destruct_fields L (combine xs cn) bid m1) as [m2 e2]. cbn [fst] in *.
    pose proof (elem_end_ge L Hwf a t) as Hend. pose proof (elem_end_ge L Hwf s t) as Hends.
    unfold elem_end in Hbefore, Hend, Hends |- *. fold cn in Hbefore, Hend, Hends |- *.
    split.
    - apply (elem_at_ext L Hwf m1 m2 a t fc Ht); [|exact E1].
      intros x Hx. apply Hfr. unfold elem_end in Hx. fold cn in Hx. lia.
    - intros x Hx. rewrite Hfr by lia. apply M2. lia.
  Qed.
End MoveElem.

Lemma Forall2_of_nth_ {X Y} (P : X -> Y -> Prop) d1 d2 : forall (l1 : list X) (l2 : list Y),
  length l1 = length l2 -> (forall k, (k < length l1)%nat -> P (nth k l1 d1) (nth k l2 d2)) -> Forall2 P l1 l2.
Proof.
  induction l1 as [|x l1 IH]; intros [|y l2] Hl H; cbn [length] in Hl; try discriminate; constructor.
  - exact (H O ltac:(cbn [length]; lia)).
  - apply IH; [lia|]. intros k Hk. exact (H (Datatypes.S k) ltac:(cbn [length]; lia)).
Qed.
Lemma nth_skipn_ {A} (d : A) : forall n k (l : list A), nth k (skipn n l) d = nth (n + k) l d.
Proof.
  induction n as [|n IH]; intros k l; [reflexivity|]. destruct l as [|x l]; [destruct k; reflexivity|].
  cbn [skipn Nat.add nth]. apply IH.
Qed.

(* ---------- the loop of move_forward_nt on a list without VaryingSize parameter ---------- *)
Section FixedLoop.
  Variable L : list param.
  Hypothesis Hwf : wf_plist L = true.
  Hypothesis Hv : has_varying L = false.
  Let HF : Forall wfp L := wf_plist_Forall L Hwf.

  Lemma load_table_ fixed m a t : tuple_ok L (fixed_counts L fixed) 0 t -> elem_at L m a t ->
    fst (load L fixed m a) = combine (fst (place L (cnts_of t) a)) (cnts_of t).
  Proof.
    intros Ht He. unfold load, place.
    rewrite (load_from_spec L (prevs L) _ m a t 0 0 false HF); auto.
    - apply wf_plist_varying; auto.
    - destruct L; auto.
  Qed.

  Variables (v : vec) (l : list tuple).
  Let S := v_stride v.
  Let fc := fixed_counts L (v_fixed v).
  Hypothesis Hst : stride_ok L fc S.
  Hypothesis Htup : Forall (tuple_ok L fc 0) l.
  Variables (to from : nat).
  Hypothesis Htf : (to < from)%nat.
  Hypothesis Hfl : (from <= length l)%nat.

  Let n := length l.

  Lemma S_nonneg : 0 <= S. Proof. exact (proj1 Hst). Qed.
  Lemma S_div : (SA L | S). Proof. exact (proj1 (proj2 Hst)). Qed.
  Lemma slot_ok k : 0 <= S * Z.of_nat k /\ (SA L | S * Z.of_nat k).
  Proof. pose proof S_nonneg. split; [nia|apply Z.divide_mul_l; exact S_div]. Qed.
  Lemma tup k : (k < n)%nat -> tuple_ok L fc 0 (nth k l []).
  Proof. intros Hk. rewrite Forall_forall in Htup. apply Htup. apply nth_In. exact Hk. Qed.
  Lemma ext_in_slot k : (k < n)%nat -> elem_end L (S * Z.of_nat k) (nth k l []) <= S * Z.of_nat k + S.
  Proof. intros Hk. destruct (slot_ok k) as [A B]. exact (proj1 (proj2 (proj2 Hst) (nth k l []) _ (tup k Hk) A B)). Qed.
  (* an element stored in another slot than its own index *)
  Lemma ext_in_slot' k q : (k < n)%nat -> elem_end L (S * Z.of_nat q) (nth k l []) <= S * Z.of_nat q + S.
  Proof. intros Hk. destruct (slot_ok q) as [A B]. exact (proj1 (proj2 (proj2 Hst) (nth k l []) _ (tup k Hk) A B)). Qed.

  (* the state of the memory after j elements have been moved *)
  Definition linv (j : nat) (mj : mem) : Prop :=
    (forall k, (k < to)%nat -> elem_at L mj (S * Z.of_nat k) (nth k l [])) /\
    (forall r, (r < j)%nat -> elem_at L mj (S * Z.of_nat (to + r)) (nth (from + r) l [])) /\
    (forall r, (j <= r)%nat -> (from + r < n)%nat -> elem_at L mj (S * Z.of_nat (from + r)) (nth (from + r) l [])).

  Lemma eaddr_fixed m k : eaddr L (set_mem v m) k = S * k.
  Proof. unfold eaddr. rewrite Hv. reflexivity. Qed.

  Lemma loop_step j mj : linv j mj -> (from + j < n)%nat ->
    exists m', fst (move_one_nt L (set_mem v mj) (Z.of_nat (from + j)) (Z.of_nat (to + j))) = set_mem v m' /\ linv (Datatypes.S j) m'.
  Proof.
    intros (Ia & Ib & Ic) Hj. unfold move_one_nt. rewrite eaddr_fixed, Hv.
    change (v_fixed (set_mem v mj)) with (v_fixed v). change (v_mem (set_mem v mj)) with mj.
    change (v_bid (set_mem v mj)) with (v_bid v). change (v_stride (set_mem v mj)) with S.
    set (t := nth (from + j) l []).
    pose proof (tup (from + j) Hj) as Ht. fold t in Ht.
    pose proof (Ic j (le_n _) Hj) as Hes. fold t in Hes.
    rewrite (load_table_ (v_fixed v) mj _ t Ht Hes).
    destruct (slot_ok (from + j)) as [Hs0 HsS]. destruct (slot_ok (to + j)) as [Ha0 HaS].
    pose proof (ext_in_slot' (from + j) (to + j) Hj) as Hfit. fold t in Hfit.
    pose proof S_nonneg as HS0.
    assert (Hbefore : elem_end L (S * Z.of_nat (to + j)) t <= S * Z.of_nat (from + j)) by nia.
    pose proof (move_elem_spec L Hwf (bidn (v_bid v)) mj t fc (S * Z.of_nat (from + j)) (S * Z.of_nat (to + j))
                  Ht Ha0 HaS Hs0 HsS Hes Hbefore) as HM. cbv zeta in HM.
    destruct (move_fields L (prevs L) _ (bidn (v_bid v)) mj (S * Z.of_nat (to + j))) as [[m1 e1] e]. cbn [fst] in HM.
    destruct (destruct_fields L _ (bidn (v_bid v)) m1) as [m2 e2]. cbn [fst] in HM.
    destruct HM as [Hnew Hfr].
    exists m2. split; [reflexivity|].
    pose proof (ext_in_slot (from + j) Hj) as Hsfit. fold t in Hsfit.
    split; [|split].
    - intros k Hk. apply (elem_at_ext L Hwf mj m2 _ _ fc (tup k ltac:(lia))); [|exact (Ia k Hk)].
      intros x Hx. apply Hfr. left. pose proof (ext_in_slot k ltac:(lia)). nia.
    - intros r Hr. destruct (Nat.eq_dec r j) as [->|Hne]; [exact Hnew|].
      apply (elem_at_ext L Hwf mj m2 _ _ fc (tup (from + r) ltac:(lia))); [|exact (Ib r ltac:(lia))].
      intros x Hx. apply Hfr. left. pose proof (ext_in_slot' (from + r) (to + r) ltac:(lia)). nia.
    - intros r Hr Hrn. apply (elem_at_ext L Hwf mj m2 _ _ fc (tup (from + r) Hrn)); [|exact (Ic r ltac:(lia) Hrn)].
      intros x Hx. apply Hfr. right. right. nia.
  Qed.

  Lemma loop_all : forall cnt j mj, linv j mj -> (from + j + cnt = n)%nat ->
    exists mf, fst (move_forward_nt L (set_mem v mj) (Z.of_nat (from + j)) (Z.of_nat (to + j)) cnt) = set_mem v mf /\
               linv (j + cnt) mf.
  Proof.
    induction cnt as [|cnt IH]; intros j mj Hinv Hc.
    - exists mj. split; [reflexivity|]. rewrite Nat.add_0_r. exact Hinv.
    - cbn [move_forward_nt].
      destruct (loop_step j mj Hinv ltac:(lia)) as (m' & E & Hinv').
      destruct (move_one_nt L (set_mem v mj) (Z.of_nat (from + j)) (Z.of_nat (to + j))) as [v1 e1]. cbn [fst] in E. subst v1.
      specialize (IH (Datatypes.S j) m' Hinv' ltac:(lia)).
      replace (Z.of_nat (from + j) + 1) with (Z.of_nat (from + Datatypes.S j)) by lia.
      replace (Z.of_nat (to + j) + 1) with (Z.of_nat (to + Datatypes.S j)) by lia.
      destruct IH as (mf & E2 & Hf).
      destruct (move_forward_nt L (set_mem v m') _ _ cnt) as [v2 e2]. cbn [fst] in *.
      exists mf. split; [exact E2|]. replace (j + Datatypes.S cnt)%nat with (Datatypes.S j + cnt)%nat by lia. exact Hf.
  Qed.

  (* what the final memory holds: the list with the elements [to, from) removed, slot by slot *)
  Lemma linv_final mf : linv (n - from) mf ->
    Forall2 (fun a t => elem_at L mf a t)
            (map (fun k => S * Z.of_nat k) (seq 0 (n - (from - to))))
            (firstn to l ++ skipn from l).
  Proof.
    intros (Ia & Ib & _).
    assert (Hlen : length (firstn to l ++ skipn from l) = (n - (from - to))%nat).
    { rewrite app_length, firstn_length, skipn_length. fold n. lia. }
    apply (Forall2_of_nth_ _ 0 ([] : tuple)); [rewrite map_length, seq_length; symmetry; exact Hlen|].
    intros k Hk. rewrite map_length, seq_length in Hk.
    rewrite (nth_indep _ 0 (S * Z.of_nat 0)) by (rewrite map_length, seq_length; exact Hk).
    rewrite (map_nth (fun q => S * Z.of_nat q)). rewrite seq_nth by exact Hk. cbn [Nat.add].
    destruct (Nat.lt_ge_cases k to) as [Hlt|Hge].
    - rewrite app_nth1 by (rewrite firstn_length; fold n; lia). rewrite nth_firstn_ by exact Hlt. exact (Ia k Hlt).
    - rewrite app_nth2 by (rewrite firstn_length; fold n; lia). rewrite firstn_length. fold n.
      replace (Init.Nat.min to n) with to by lia.
      rewrite nth_skipn_. replace k with (to + (k - to))%nat at 1 by lia. exact (Ib (k - to)%nat ltac:(lia)).
  Qed.
End FixedLoop.

(* ---------- the vector level ---------- *)
Section FixedEraseRep.
  Variable L : list param.
  Hypothesis Hwf : wf_plist L = true.
  Hypothesis Hv : has_varying L = false.
  Hypothesis Hnt : all_triv L = false.
  Let HF : Forall wfp L := wf_plist_Forall L Hwf.

  Lemma rep_set_mem_elems v l offs m' : RepO L v l offs -> Forall2 (fun a t => elem_at L m' a t) offs l ->
    RepO L (set_mem v m') l offs.
  Proof.
    intros R He. constructor.
    - exact (r_tuples _ _ _ _ R).
    - exact He.
    - exact (r_order _ _ _ _ R).
    - exact (r_cap _ _ _ _ R).
    - exact (r_loc _ _ _ _ R).
    - exact (r_tight _ _ _ _ R).
  Qed.

  Variables (v : vec) (l : list tuple) (offs : list Z).
  Hypothesis R : RepO L v l offs.
  Let S := v_stride v.
  Let fc := fixed_counts L (v_fixed v).
  Let n := length l.

  Lemma fixed_loc : v_count v = Z.of_nat n /\ offs = map (fun k => S * Z.of_nat k) (seq 0 n) /\ stride_ok L fc S.
  Proof. pose proof (r_loc _ _ _ _ R) as H. rewrite Hv in H. exact H. Qed.

  Lemma orig_elem k : (k < n)%nat -> elem_at L (v_mem v) (S * Z.of_nat k) (nth k l []).
  Proof.
    intros Hk. destruct fixed_loc as (_ & Ho & _).
    pose proof (Forall2_nth_ _ offs l 0 [] k (r_elems _ _ _ _ R)) as H.
    pose proof (eo_length L _ _ _ _ (r_order _ _ _ _ R)) as Hlen.
    specialize (H ltac:(rewrite Hlen; exact Hk)). cbn beta in H.
    rewrite Ho in H at 1. rewrite (nth_indep _ 0 (S * Z.of_nat 0)) in H by (rewrite map_length, seq_length; exact Hk).
    rewrite (map_nth (fun q => S * Z.of_nat q)), seq_nth in H by exact Hk. exact H.
  Qed.

  (* destroying the elements [c, c + cnt): everything else keeps its bytes *)
  Lemma destruct_range_fixed i : forall cnt c m, (i <= c)%nat -> (c + cnt <= n)%nat ->
    (forall k, (k < i \/ c <= k)%nat -> (k < n)%nat -> elem_at L m (S * Z.of_nat k) (nth k l [])) ->
    exists m', fst (destruct_range L (set_mem v m) (Z.of_nat c) cnt) = set_mem v m' /\
      (forall k, (k < i \/ c + cnt <= k)%nat -> (k < n)%nat -> elem_at L m' (S * Z.of_nat k) (nth k l [])).
  Proof.
    destruct fixed_loc as (_ & _ & Hst).
    induction cnt as [|cnt IH]; intros c m Hic Hcn Hm.
    - exists m. split; [reflexivity|]. intros k Hk Hkn. apply Hm; [lia|exact Hkn].
    - cbn [destruct_range]. unfold destruct_elem.
      destruct (all_dtriv L) eqn:Hd.
      + destruct (IH (Datatypes.S c) m ltac:(lia) ltac:(lia) ltac:(intros k Hk Hkn; apply Hm; [lia|exact Hkn])) as (m' & E & Hm').
        replace (Z.of_nat c + 1) with (Z.of_nat (Datatypes.S c)) by lia.
        destruct (destruct_range L (set_mem v m) (Z.of_nat (Datatypes.S c)) cnt) as [v2 e2]. cbn [fst] in *.
        exists m'. split; [exact E|]. intros k Hk Hkn. apply Hm'; [lia|exact Hkn].
      + rewrite (eaddr_fixed L Hv v m (Z.of_nat c)). fold S.
        change (v_fixed (set_mem v m)) with (v_fixed v). change (v_mem (set_mem v m)) with m.
        change (v_bid (set_mem v m)) with (v_bid v).
        set (t := nth c l []).
        assert (Ht : tuple_ok L fc 0 t).
        { pose proof (r_tuples _ _ _ _ R) as H. rewrite Forall_forall in H. apply H. apply nth_In. fold n. lia. }
        pose proof (Hm c ltac:(lia) ltac:(lia)) as Hec. fold t in Hec.
        rewrite (load_table_ L Hwf Hv (v_fixed v) m _ t Ht Hec).
        assert (Hs0 : 0 <= S * Z.of_nat c) by (pose proof (proj1 Hst); nia).
        assert (HsS : (SA L | S * Z.of_nat c)) by (apply Z.divide_mul_l; exact (proj1 (proj2 Hst))).
        pose proof (place_ordered L (cnts_of t) _ Hwf (tuple_ok_cnt_ok L _ _ t Ht) Hs0 HsS) as Hord.
        pose proof (fun y => destruct_fields_frame L (cnts_of t) (fst (place L (cnts_of t) (S * Z.of_nat c))) (bidn (v_bid v)) m
                               (S * Z.of_nat c) (snd (place L (cnts_of t) (S * Z.of_nat c))) y HF (cnts_of_nonneg t) Hord) as Hfr.
        destruct (destruct_fields L _ (bidn (v_bid v)) m) as [m1 e1]. cbn [fst] in Hfr.
        pose proof (proj1 (proj2 (proj2 Hst) t _ Ht Hs0 HsS)) as Hfit. unfold elem_end in Hfit.
        assert (Hm1 : forall k, (k < i \/ Datatypes.S c <= k)%nat -> (k < n)%nat -> elem_at L m1 (S * Z.of_nat k) (nth k l [])).
        { intros k Hk Hkn.
          assert (Htk : tuple_ok L fc 0 (nth k l [])).
          { pose proof (r_tuples _ _ _ _ R) as H. rewrite Forall_forall in H. apply H. apply nth_In. exact Hkn. }
          apply (elem_at_ext L Hwf m m1 _ _ fc Htk); [|apply Hm; [lia|exact Hkn]].
          intros x Hx. apply Hfr.
          assert (Hk0 : 0 <= S * Z.of_nat k) by (pose proof (proj1 Hst); nia).
          assert (HkS : (SA L | S * Z.of_nat k)) by (apply Z.divide_mul_l; exact (proj1 (proj2 Hst))).
          pose proof (proj1 (proj2 (proj2 Hst) (nth k l []) _ Htk Hk0 HkS)) as Hfk.
          pose proof (proj1 Hst). nia. }
        destruct (IH (Datatypes.S c) m1 ltac:(lia) ltac:(lia) Hm1) as (m' & E & Hm').
        replace (Z.of_nat c + 1) with (Z.of_nat (Datatypes.S c)) by lia.
        change (set_mem (set_mem v m) m1) with (set_mem v m1).
        destruct (destruct_range L (set_mem v m1) (Z.of_nat (Datatypes.S c)) cnt) as [v2 e2]. cbn [fst] in *.
        exists m'. split; [exact E|]. intros k Hk Hkn. apply Hm'; [lia|exact Hkn].
  Qed.

  (* moving the elements behind [to, from) forward and shrinking *)
  Theorem shrink_fixed_rep to from m0 : (to < from)%nat -> (from <= n)%nat ->
    (forall k, (k < to \/ from <= k)%nat -> (k < n)%nat -> elem_at L m0 (S * Z.of_nat k) (nth k l [])) ->
    let v' := resize L (fst (move_forward L (set_mem v m0) (Z.of_nat from) (Z.of_nat to))) (Z.of_nat (n - (from - to))) in
    Rep L v' (firstn to l ++ skipn from l) /\ v_cap v' = v_cap v /\ v_fixed v' = v_fixed v /\
    v_bid v' = v_bid v /\ v_stride v' = v_stride v /\ v_units v' = v_units v.
  Proof.
    intros Htf Hfn Hm0. cbv zeta. destruct fixed_loc as (Hcnt & Hoffs & Hst).
    unfold move_forward. rewrite Hnt.
    assert (Hvs : vsize L (set_mem v m0) = Z.of_nat n) by (unfold vsize; rewrite Hv; exact Hcnt).
    rewrite Hvs. replace (Z.to_nat (Z.of_nat n - Z.of_nat from)) with (n - from)%nat by lia.
    assert (Hinv0 : linv L v l to from 0 m0).
    { unfold linv. fold S. split; [|split].
      - intros k Hk. apply Hm0; [lia|fold n; lia].
      - intros r Hr. lia.
      - intros r _ Hr. apply Hm0; [lia|exact Hr]. }
    destruct (loop_all L Hwf Hv v l Hst (r_tuples _ _ _ _ R) to from Htf Hfn (n - from) 0 m0 Hinv0 ltac:(fold n; lia)) as (mf & E & Hf).
    rewrite !Nat.add_0_r in E.
    destruct (move_forward_nt L (set_mem v m0) (Z.of_nat from) (Z.of_nat to) (n - from)) as [v2 e2]. cbn [fst] in *. subst v2.
    cbn [Nat.add] in Hf.
    pose proof (linv_final L v l to from Htf Hfn mf Hf) as Hel. fold S n in Hel.
    (* the bookkeeping is that of the trivial path, whose representation theorem holds for every list *)
    pose proof (move_resize_rep L Hwf v l to from (ex_intro _ offs R) Htf Hfn) as [offs' R'].
    fold n in R'.
    set (vt := resize L (fst (move_forward_triv L v (Z.of_nat from) (Z.of_nat to))) (Z.of_nat (n - (from - to)))) in *.
    assert (Evn : resize L (set_mem v mf) (Z.of_nat (n - (from - to))) = set_mem vt mf).
    { unfold vt, resize, move_forward_triv. rewrite Hv. cbn [andb fst]. reflexivity. }
    rewrite Evn. split; [|unfold vt, resize, move_forward_triv; rewrite Hv; cbn [andb fst]; repeat split; reflexivity].
    exists offs'. apply rep_set_mem_elems; [exact R'|].
    pose proof (r_loc _ _ _ _ R') as Hl'. rewrite Hv in Hl'. destruct Hl' as (_ & Ho' & _).
    assert (Hlen' : length (firstn to l ++ skipn from l) = (n - (from - to))%nat).
    { rewrite app_length, firstn_length, skipn_length. fold n. lia. }
    rewrite Ho', Hlen'.
    assert (Est : v_stride vt = S) by (unfold vt, resize, move_forward_triv; rewrite Hv; reflexivity).
    rewrite Est. exact Hel.
  Qed.
  Lemma set_mem_id : set_mem v (v_mem v) = v.
  Proof. destruct v; reflexivity. Qed.

  Lemma vsize_n : vsize L v = Z.of_nat n.
  Proof. unfold vsize. rewrite Hv. exact (proj1 fixed_loc). Qed.

  (* erase(position) with elements behind it *)
  Theorem erase_rep_fixed_nt i : (i + 1 < n)%nat ->
    let v' := fst (erase L v (Z.of_nat i)) in
    Rep L v' (remove_range i (Datatypes.S i) l) /\ v_cap v' = v_cap v /\ v_fixed v' = v_fixed v /\
    v_bid v' = v_bid v /\ v_stride v' = v_stride v /\ v_units v' = v_units v.
  Proof.
    intros Hi. cbv zeta. unfold erase. rewrite vsize_n.
    destruct (destruct_range_fixed i 1 i (v_mem v) (le_n _) ltac:(lia)
                ltac:(intros k _ Hk; exact (orig_elem k Hk))) as (m0 & E & Hm0).
    rewrite set_mem_id in E. cbn [destruct_range] in E.
    destruct (destruct_elem L v (Z.of_nat i)) as [v1 e1]. cbn [fst] in E. subst v1.
    pose proof (shrink_fixed_rep i (Datatypes.S i) m0 ltac:(lia) ltac:(lia)
                  ltac:(intros k Hk Hkn; apply Hm0; [lia|exact Hkn])) as H. cbv zeta in H.
    replace (Z.of_nat (Datatypes.S i)) with (Z.of_nat i + 1) in H by lia.
    destruct (move_forward L (set_mem v m0) (Z.of_nat i + 1) (Z.of_nat i)) as [v2 e2]. cbn [fst] in *.
    replace (Z.of_nat (n - (Datatypes.S i - i))) with (Z.of_nat n - 1) in H by lia.
    unfold remove_range. exact H.
  Qed.

  (* erase(first, last) with elements behind the range, and the empty range *)
  Theorem erase_range_rep_fixed_nt i j : (i <= j)%nat -> (j < n \/ i = j)%nat -> (j <= n)%nat ->
    let v' := fst (erase_range L v (Z.of_nat i) (Z.of_nat j)) in
    Rep L v' (remove_range i j l) /\ v_cap v' = v_cap v /\ v_fixed v' = v_fixed v /\
    v_bid v' = v_bid v /\ v_stride v' = v_stride v /\ v_units v' = v_units v.
  Proof.
    intros Hij Hj Hjn. cbv zeta. unfold erase_range. rewrite vsize_n.
    destruct (Nat.eq_dec i j) as [->|Hne].
    - (* empty range: nothing is destroyed, nothing moves *)
      rewrite Z.sub_diag. cbn [Z.to_nat destruct_range].
      assert (E0 : (if all_dtriv L then (v, @nil ev) else (v, [])) = (v, [])) by (destruct (all_dtriv L); reflexivity).
      rewrite E0. rewrite Z.eqb_refl, andb_false_r. cbn [fst negb]. rewrite Z.sub_0_r.
      unfold remove_range. rewrite firstn_skipn.
      pose proof (resize_rep L Hwf v l n (ex_intro _ offs R) (le_n _)) as H. unfold n in H at 2. rewrite firstn_all in H.
      split; [exact H|]. unfold resize. rewrite Hv. repeat split; reflexivity.
    - assert (Hjn' : (j < n)%nat) by lia.
      replace (Z.to_nat (Z.of_nat j - Z.of_nat i)) with (j - i)%nat by lia.
      assert (Hd : exists m0, fst (if all_dtriv L then (v, @nil ev) else destruct_range L v (Z.of_nat i) (j - i)) = set_mem v m0 /\
                   (forall k, (k < i \/ j <= k)%nat -> (k < n)%nat -> elem_at L m0 (S * Z.of_nat k) (nth k l []))).
      { destruct (all_dtriv L).
        - exists (v_mem v). split; [symmetry; apply set_mem_id|]. intros k _ Hk. exact (orig_elem k Hk).
        - destruct (destruct_range_fixed i (j - i) i (v_mem v) (le_n _) ltac:(lia)
                      ltac:(intros k _ Hk; exact (orig_elem k Hk))) as (m0 & E & Hm0).
          rewrite set_mem_id in E. exists m0. split; [exact E|]. intros k Hk Hkn. apply Hm0; [lia|exact Hkn]. }
      destruct Hd as (m0 & E & Hm0).
      destruct (if all_dtriv L then (v, @nil ev) else destruct_range L v (Z.of_nat i) (j - i)) as [v1 e1]. cbn [fst] in E. subst v1.
      replace (Z.of_nat j <? Z.of_nat n) with true by (symmetry; apply Z.ltb_lt; lia).
      replace (Z.of_nat i =? Z.of_nat j) with false by (symmetry; apply Z.eqb_neq; lia). cbn [andb negb].
      pose proof (shrink_fixed_rep i j m0 ltac:(lia) ltac:(lia) Hm0) as H. cbv zeta in H.
      destruct (move_forward L (set_mem v m0) (Z.of_nat j) (Z.of_nat i)) as [v2 e2]. cbn [fst] in *.
      replace (Z.of_nat (n - (j - i))) with (Z.of_nat n - (Z.of_nat j - Z.of_nat i)) in H by lia.
      unfold remove_range. exact H.
  Qed.
End FixedEraseRep.
