(* C14 — relational operators are mutually consistent and depend only on content.
   Proved for EVERY parameter list and arbitrary memory contents: the element-level < is a
   strict partial order (irreflexive, asymmetric, transitive), the vector-level < is
   irreflexive, and > <= >= are derived from < exactly as the property demands.
   REFUTED (known finding, see known_findings.txt): transitivity of the vector-level <. *)
From Coq Require Import ZArith List Bool.
From Cntgs Require Import Base Layout Mem Vector Proxy World Spec Rep CompareThm ElemThm CmpContent Rep FastEq FastLess LessVec LessAsym.
Import ListNotations.
Local Open Scope Z_scope.

Theorem C14_reference_less_irreflexive : forall L m fl, L <> [] -> elem_less L m fl m fl = false.
Proof. exact elem_less_irrefl. Qed.
Print Assumptions C14_reference_less_irreflexive.

Theorem C14_reference_less_asymmetric : forall L m1 fl1 m2 fl2, L <> [] ->
  elem_less L m1 fl1 m2 fl2 = true -> elem_less L m2 fl2 m1 fl1 = false.
Proof. exact elem_less_asym. Qed.
Print Assumptions C14_reference_less_asymmetric.

Theorem C14_reference_less_transitive : forall L m1 fl1 m2 fl2 m3 fl3,
  elem_less L m1 fl1 m2 fl2 = true -> elem_less L m2 fl2 m3 fl3 = true ->
  elem_less L m1 fl1 m3 fl3 = true.
Proof. exact elem_less_trans. Qed.
Print Assumptions C14_reference_less_transitive.

(* the result of < depends on the logical content only: it equals a function of the two
   tuples, whatever the memories, positions, junk and fixed sizes of the operands *)
Theorem C14_reference_less_depends_on_content_only : forall L, wf_plist L = true ->
  forall t1 t2 fc1 fc2 m1 m2 a1 a2,
  tuple_ok L fc1 0 t1 -> tuple_ok L fc2 0 t2 -> elem_at L m1 a1 t1 -> elem_at L m2 a2 t2 ->
  elem_less L m1 (ref_fl L t1 a1) m2 (ref_fl L t2 a2) = tuple_less L t1 t2.
Proof. exact elem_less_content. Qed.
Print Assumptions C14_reference_less_depends_on_content_only.

(* a == b implies neither a < b nor b < a *)
Theorem C14_equal_elements_are_not_less : forall L, wf_plist L = true ->
  forall t1 t2 fc1 fc2 m1 m2 a1 a2,
  tuple_ok L fc1 0 t1 -> tuple_ok L fc2 0 t2 -> elem_at L m1 a1 t1 -> elem_at L m2 a2 t2 ->
  elem_equal L m1 (ref_fl L t1 a1) m2 (ref_fl L t2 a2) = true ->
  elem_less L m1 (ref_fl L t1 a1) m2 (ref_fl L t2 a2) = false /\
  elem_less L m2 (ref_fl L t2 a2) m1 (ref_fl L t1 a1) = false.
Proof. exact equal_elements_are_not_less. Qed.
Print Assumptions C14_equal_elements_are_not_less.

Theorem C14_vector_less_irreflexive : forall L v, L <> [] -> vec_less L v v = false.
Proof. exact vec_less_irrefl. Qed.
Print Assumptions C14_vector_less_irreflexive.

(* a > b is b < a, a <= b is !(b < a), a >= b is !(a < b) *)
Theorem C14_derived_operators : forall L v1 v2,
  let r := cmp_vecs L v1 v2 in
  nth 2 r false = vec_less L v1 v2 /\ nth 4 r false = vec_less L v2 v1 /\
  nth 3 r false = negb (vec_less L v2 v1) /\ nth 5 r false = negb (vec_less L v1 v2).
Proof. intros L v1 v2. repeat split. Qed.
Print Assumptions C14_derived_operators.

Theorem C14_derived_operators_references : forall L v1 i v2 j,
  let r := cmp_refs L v1 i v2 j in
  nth 2 r false = ref_less L v1 i v2 j /\ nth 4 r false = ref_less L v2 j v1 i /\
  nth 3 r false = negb (ref_less L v2 j v1 i) /\ nth 5 r false = negb (ref_less L v1 i v2 j).
Proof. intros L v1 i v2 j. repeat split. Qed.
Print Assumptions C14_derived_operators_references.

(* the objects of a field are ordered by the value type's own <, a strict weak order, and
   a field by the lexicographical order over it *)
Theorem C14_field_order_is_strict : forall t,
  irrefl _ (span_lt t) /\ trans _ (span_lt t).
Proof. intros t. split; [apply span_lt_irrefl|apply span_lt_trans]. Qed.
Print Assumptions C14_field_order_is_strict.

(* ---- refuted: vector-level < is not transitive (ContiguousVector<uint16_t,uint16_t>) ---- *)
Definition L16 : list param :=
  [ {| pk := Plain; psz := 2; pal := 1; pty := TUInt |}; {| pk := Plain; psz := 2; pal := 1; pty := TUInt |} ].
Definition Kstd : akind := {| pocca := false; pocma := false; pocs := false; always_eq := true; soccc_bump := false |}.
Definition e16 (a b : Z) : list (list (list Z)) := [[[a; 0]]; [[b; 0]]].
Definition ops16 : list op :=
  [ OpMkVec 0 2 0 [] 1; OpEmplace 0 (e16 1 5); OpEmplace 0 (e16 0 0);
    OpMkVec 1 2 0 [] 1; OpEmplace 1 (e16 2 3); OpEmplace 1 (e16 1 1);
    OpMkVec 2 2 0 [] 1; OpEmplace 2 (e16 3 4); OpEmplace 2 (e16 0 0) ].
Definition w16 := run_from Kstd L16 world0 ops16 O.

Theorem C14_vector_less_transitive_refuted :
  exists L x y z, vec_less L x y = true /\ vec_less L y z = true /\ vec_less L x z = false.
Proof.
  exists L16, (getv w16 0), (getv w16 1), (getv w16 2). vm_compute. repeat split.
Qed.
Print Assumptions C14_vector_less_transitive_refuted.

(* vector <, whole-buffer fast path (all value types lexicographically memcmp-able, no
   VaryingSize parameter, IS_PADDING_FREE, equal fixed sizes): in every pair of represented
   states - any capacities, junk, histories - it is std::lexicographical_compare over the two
   lists of tuples with the elements ordered by their bytes: a function of the logical content
   only (tight packing makes the buffers the concatenation of the elements' bytes, all elements
   have the same number of bytes) *)
Theorem C14_vector_less_fast_path_is_lexicographic_on_content : forall L, wf_plist L = true ->
  padfree L = true -> has_varying L = false ->
  forall v1 l1 v2 l2, Rep L v1 l1 -> Rep L v2 l2 ->
  (forallb lxm L && negb (has_varying L) && padfree L && list_eqb (v_fixed v1) (v_fixed v2)) = true ->
  vec_less L v1 v2 = lexl lex_lt (map ebytes l1) (map ebytes l2).
Proof. exact vec_less_content_fast. Qed.
Print Assumptions C14_vector_less_fast_path_is_lexicographic_on_content.

Example C14_fast_path_lists_exist :
  let L := [ {| pk := Plain; psz := 1; pal := 1; pty := TU8 |}; {| pk := Fixed; psz := 1; pal := 1; pty := TByte |} ] in
  wf_plist L = true /\ padfree L = true /\ has_varying L = false /\ forallb lxm L = true.
Proof. vm_compute. repeat split; reflexivity. Qed.

(* ... and on the element-wise path (every other list, or operands with different fixed sizes):
   in every pair of represented states vector < is std::lexicographical_compare over the two
   lists of tuples under the element-level < - a strict prefix is less, the first pair of
   elements ordered either way decides - where the element-level < is a function of the two
   tuples only (C14_reference_less_depends_on_content_only).  (That element-level < is a
   product order and hence the vector order not a strict weak order is the known finding.) *)
Theorem C14_vector_less_elementwise_is_lexicographic_on_content : forall L, wf_plist L = true ->
  forall v1 l1 v2 l2, Rep L v1 l1 -> Rep L v2 l2 ->
  (forallb lxm L && negb (has_varying L) && padfree L && list_eqb (v_fixed v1) (v_fixed v2)) = false ->
  vec_less L v1 v2 = lexb _ (tuple_less L) l1 l2.
Proof. intros L Hwf v1 l1 v2 l2 [o1 R1] [o2 R2]. exact (vec_less_content_elementwise L Hwf v1 v2 l1 l2 o1 o2 R1 R2). Qed.
Print Assumptions C14_vector_less_elementwise_is_lexicographic_on_content.

(* what the vector order keeps on EVERY parameter list and on both paths although the element
   order is only a product order (transitivity fails: C14_vector_less_transitive_refuted):
   in every pair of represented states a < b excludes b < a ... *)
Theorem C14_vector_less_asymmetric : forall L, wf_plist L = true -> L <> [] ->
  forall v1 l1 v2 l2, Rep L v1 l1 -> Rep L v2 l2 ->
  vec_less L v1 v2 = true -> vec_less L v2 v1 = false.
Proof. intros L Hwf HL v1 l1 v2 l2. exact (vec_less_asym L Hwf HL v1 v2 l1 l2). Qed.
Print Assumptions C14_vector_less_asymmetric.

(* ... a vector whose list of elements is a strict prefix of the other's is less, whatever the
   elements are (capacities, junk, histories and fixed sizes of the two operands arbitrary) ... *)
Theorem C14_strict_prefix_is_less : forall L, wf_plist L = true -> L <> [] ->
  forall v1 l1 v2 l2, Rep L v1 l1 -> Rep L v2 l2 ->
  forall c, c <> [] -> l2 = l1 ++ c ->
  vec_less L v1 v2 = true /\ vec_less L v2 v1 = false.
Proof. intros L Hwf HL v1 l1 v2 l2. exact (vec_less_strict_prefix L Hwf HL v1 v2 l1 l2). Qed.
Print Assumptions C14_strict_prefix_is_less.

(* ... and the empty vector is below exactly the non-empty ones *)
Theorem C14_empty_vector_is_least : forall L, wf_plist L = true -> L <> [] ->
  forall v1 l1 v2 l2, Rep L v1 l1 -> Rep L v2 l2 -> l1 = [] ->
  vec_less L v1 v2 = negb (Z.of_nat (length l2) =? 0)%Z /\ vec_less L v2 v1 = false.
Proof. intros L Hwf HL v1 l1 v2 l2. exact (vec_less_empty L Hwf HL v1 v2 l1 l2). Qed.
Print Assumptions C14_empty_vector_is_least.

(* == and < are consistent at vector level on EVERY list (floating-point fields included) and
   whichever of the four path combinations the two operators take: vectors that compare equal
   are not ordered either way *)
Theorem C14_equal_vectors_are_not_less : forall L, wf_plist L = true -> L <> [] ->
  forall v1 l1 v2 l2, Rep L v1 l1 -> Rep L v2 l2 ->
  vec_equal L v1 v2 = true -> vec_less L v1 v2 = false /\ vec_less L v2 v1 = false.
Proof. exact vec_equal_not_less. Qed.
Print Assumptions C14_equal_vectors_are_not_less.

(* ... hence a < b implies a != b (!= is the negation of ==: C13_not_equal_is_negation) *)
Theorem C14_less_vectors_are_not_equal : forall L, wf_plist L = true -> L <> [] ->
  forall v1 l1 v2 l2, Rep L v1 l1 -> Rep L v2 l2 ->
  vec_less L v1 v2 = true -> vec_equal L v1 v2 = false /\ vec_equal L v2 v1 = false.
Proof. exact vec_less_not_equal. Qed.
Print Assumptions C14_less_vectors_are_not_equal.
