(* RunsThm.v — structure of the run tables (ElementTraits::calculate_consecutive_indices):
   for every parameter list, predicate and break mode the table partitions the fields into
   MANUAL fields and runs [k..e] of consecutive fields that all satisfy the predicate; every
   field is covered.  Consequences: a field whose value type is not trivially assignable /
   swappable / memcmp-able is never handled byte-wise, and no field is left out. *)
From Coq Require Import ZArith List Bool Lia.
From Cntgs Require Import Base Layout Mem Vector Proxy CompareThm.
Import ListNotations.
Local Open Scope Z_scope.

Section Runs.
  Variable pred : param -> bool.
  Variables bpad bspan : bool.

  (* field j is handled: on its own (MANUAL) or inside the run k..e *)
  Definition covered (R : list ridx) (j : nat) : Prop :=
    nth j R RSkip = RManual \/ exists k e, (k <= j <= e)%nat /\ nth k R RSkip = REnd e.

  (* every run of the table lies in [0, hi) and contains only fields satisfying pred; every
     MANUAL field violates it *)
  Definition sound (L0 : list param) (R : list ridx) (hi : nat) : Prop :=
    (forall k e, nth k R RSkip = REnd e ->
       (k <= e < hi)%nat /\ forall j, (k <= j <= e)%nat -> pred (nth j L0 pparam0) = true) /\
    (forall j, nth j R RSkip = RManual -> (j < hi)%nat /\ pred (nth j L0 pparam0) = false).

  Lemma runs_from_inv : forall L pre pv i index acc,
    let L0 := pre ++ L in
    length pre = i -> length acc = length L0 ->
    (index <= i)%nat ->
    (index < i -> nth index acc RSkip = REnd (i - 1))%nat ->
    (forall j, (j < i)%nat -> covered acc j) ->
    sound L0 acc i ->
    (length L <= length pv)%nat ->
    let R := runs_from pred bpad bspan L pv i index acc in
    length R = length L0 /\ (forall j, (j < length L0)%nat -> covered R j) /\ sound L0 R (length L0).
  Proof.
    induction L as [|p L IH]; intros pre pv i index acc L0 Hpre Hacc Hidx Hopen Hcov Hsound Hpv R.
    - subst R L0 i. cbn [runs_from]. rewrite app_nil_r in *. split; [exact Hacc|split; [exact Hcov|exact Hsound]].
    - destruct pv as [|pt pv]; [cbn [length] in Hpv; lia|].
      assert (Hi : (i < length L0)%nat) by (subst L0; rewrite app_length, Hpre; cbn [length]; lia).
      assert (Hnth : nth i L0 pparam0 = p).
      { subst L0. rewrite app_nth2 by lia. rewrite Hpre, Nat.sub_diag. reflexivity. }
      assert (HL0 : L0 = (pre ++ [p]) ++ L) by (subst L0; rewrite <- app_assoc; reflexivity).
      subst R. cbn [runs_from]. destruct (pred p) eqn:Hp.
      + set (index1 := if bpad && negb (Nat.eqb i 0) && (pt <? pal p) then i else index).
        assert (Hi1 : (index1 <= i)%nat) by (subst index1; destruct (_ && _ && _); lia).
        assert (Hi1' : index1 = i \/ (index1 = index /\ (index < i)%nat)).
        { subst index1. destruct (_ && _ && _); [left; reflexivity|].
          destruct (Nat.eq_dec index i); [left; assumption|right; split; [reflexivity|lia]]. }
        clearbody index1.
        set (acc1 := upd index1 (REnd i) acc).
        set (index2 := if bspan && negb (is_plain p) then S i else index1).
        rewrite HL0. apply IH; fold L0; rewrite <- ?HL0.
        * rewrite app_length, Hpre. cbn [length]. lia.
        * subst acc1. rewrite upd_length. exact Hacc.
        * subst index2. destruct (_ && _); lia.
        * (* the open run ends at i *)
          intros Hlt. subst index2. destruct (bspan && negb (is_plain p)); [lia|].
          replace (S i - 1)%nat with i by lia. subst acc1. apply upd_nth_same. lia.
        * (* coverage of the fields up to i *)
          intros j Hj. destruct (Nat.eq_dec j i) as [->|Hne].
          -- right. exists index1, i. split; [lia|]. subst acc1. apply upd_nth_same. lia.
          -- assert (Hj' : (j < i)%nat) by lia. destruct (Hcov j Hj') as [Hm|(k & e & Hke & Hk)].
             ++ left. subst acc1. rewrite upd_nth_other; [exact Hm|].
                intros E. destruct Hi1' as [E1|[E1 E2]].
                ** lia.
                ** rewrite E, E1 in *. rewrite (Hopen E2) in Hm. discriminate.
             ++ destruct (Nat.eq_dec k index1) as [E|E].
                ** right. exists index1, i. split; [lia|]. subst acc1. apply upd_nth_same. lia.
                ** right. exists k, e. split; [exact Hke|]. subst acc1. rewrite upd_nth_other by congruence. exact Hk.
        * (* soundness *)
          destruct Hsound as [Hs1 Hs2]. split.
          -- intros k e Hk. subst acc1. destruct (Nat.eq_dec k index1) as [E|E].
             ++ subst k. rewrite upd_nth_same in Hk by lia. injection Hk as <-.
                split; [lia|]. intros j Hj. destruct (Nat.eq_dec j i) as [->|Hne]; [rewrite Hnth; exact Hp|].
                destruct Hi1' as [E1|[E1 E2]]; [lia|].
                rewrite E1 in *. destruct (Hs1 _ _ (Hopen E2)) as [_ Hall]. apply Hall. lia.
             ++ rewrite upd_nth_other in Hk by congruence. destruct (Hs1 _ _ Hk) as [Hb Hall].
                split; [lia|exact Hall].
          -- intros j Hj. subst acc1. destruct (Nat.eq_dec j index1) as [E|E].
             ++ subst j. rewrite upd_nth_same in Hj by lia. discriminate.
             ++ rewrite upd_nth_other in Hj by congruence. destruct (Hs2 _ Hj). split; [lia|assumption].
        * cbn [length] in Hpv. lia.
      + rewrite HL0. apply IH; fold L0; rewrite <- ?HL0.
        * rewrite app_length, Hpre. cbn [length]. lia.
        * rewrite upd_length. exact Hacc.
        * lia.
        * lia.
        * intros j Hj. destruct (Nat.eq_dec j i) as [->|Hne].
          -- left. apply upd_nth_same. lia.
          -- assert (Hj' : (j < i)%nat) by lia. destruct (Hcov j Hj') as [Hm|(k & e & Hke & Hk)].
             ++ left. rewrite upd_nth_other by lia. exact Hm.
             ++ right. exists k, e. split; [exact Hke|].
                destruct Hsound as [Hs1 _]. destruct (Hs1 _ _ Hk) as [Hb _].
                rewrite upd_nth_other by lia. exact Hk.
        * destruct Hsound as [Hs1 Hs2]. split.
          -- intros k e Hk. destruct (Nat.eq_dec k i) as [E|E].
             ++ subst k. rewrite upd_nth_same in Hk by lia. discriminate.
             ++ rewrite upd_nth_other in Hk by congruence. destruct (Hs1 _ _ Hk) as [Hb Hall].
                split; [lia|exact Hall].
          -- intros j Hj. destruct (Nat.eq_dec j i) as [E|E].
             ++ subst j. split; [lia|]. rewrite Hnth. exact Hp.
             ++ rewrite upd_nth_other in Hj by congruence. destruct (Hs2 _ Hj). split; [lia|assumption].
        * cbn [length] in Hpv. lia.
  Qed.

  (* what the two break modes guarantee: inside a run no field (but the first) may be
     preceded by alignment padding [bpad]; only the last field of a run is a span [bspan] *)
  Definition tight (L0 : list param) (pv0 : list Z) (R : list ridx) : Prop :=
    forall k e, nth k R RSkip = REnd e ->
      (forall j, (k < j <= e)%nat -> bpad = true -> (nth j pv0 0 <? pal (nth j L0 pparam0)) = false) /\
      (forall j, (k <= j < e)%nat -> bspan = true -> is_plain (nth j L0 pparam0) = true).

  Lemma runs_from_tight : forall L pre prepv pv i index acc,
    let L0 := pre ++ L in let pv0 := prepv ++ pv in
    length pre = i -> length prepv = i -> length acc = length L0 ->
    (index <= i)%nat ->
    (index < i -> nth index acc RSkip = REnd (i - 1))%nat ->
    (index < i -> bspan = true -> forall j, (index <= j < i)%nat -> is_plain (nth j L0 pparam0) = true)%nat ->
    (forall k e, nth k acc RSkip = REnd e -> (k <= e < i)%nat) ->
    tight L0 pv0 acc ->
    (length L <= length pv)%nat ->
    tight L0 pv0 (runs_from pred bpad bspan L pv i index acc).
  Proof.
    induction L as [|p L IH]; intros pre prepv pv i index acc L0 pv0 Hpre Hppv Hacc Hidx Hopen Hplain Hb Ht Hpv.
    - cbn [runs_from]. exact Ht.
    - destruct pv as [|pt pv]; [cbn [length] in Hpv; lia|].
      assert (Hi : (i < length L0)%nat) by (subst L0; rewrite app_length, Hpre; cbn [length]; lia).
      assert (Hnth : nth i L0 pparam0 = p).
      { subst L0. rewrite app_nth2 by lia. rewrite Hpre, Nat.sub_diag. reflexivity. }
      assert (Hnpv : nth i pv0 0 = pt).
      { subst pv0. rewrite app_nth2 by lia. rewrite Hppv, Nat.sub_diag. reflexivity. }
      assert (HL0 : L0 = (pre ++ [p]) ++ L) by (subst L0; rewrite <- app_assoc; reflexivity).
      assert (Hpv0 : pv0 = (prepv ++ [pt]) ++ pv) by (subst pv0; rewrite <- app_assoc; reflexivity).
      cbn [runs_from]. destruct (pred p) eqn:Hp.
      + destruct (bpad && negb (Nat.eqb i 0) && (pt <? pal p)) eqn:Hc.
        * (* a new run starts at i *)
          set (acc1 := upd i (REnd i) acc).
          set (index2 := if bspan && negb (is_plain p) then S i else i).
          rewrite HL0, Hpv0. apply IH; rewrite <- ?HL0, <- ?Hpv0.
          -- rewrite app_length, Hpre. cbn [length]. lia.
          -- rewrite app_length, Hppv. cbn [length]. lia.
          -- subst acc1. rewrite upd_length. exact Hacc.
          -- subst index2. destruct (bspan && negb (is_plain p)); lia.
          -- intros Hlt. subst index2. destruct (bspan && negb (is_plain p)); [lia|].
             replace (S i - 1)%nat with i by lia. subst acc1. apply upd_nth_same. lia.
          -- intros Hlt Hbs j Hj. subst index2. rewrite Hbs in *. cbn [andb] in *.
             destruct (is_plain p) eqn:Epl; cbn [negb] in *; [|lia].
             assert (j = i) by lia. subst j. rewrite Hnth. exact Epl.
          -- intros k e Hk. subst acc1. destruct (Nat.eq_dec k i) as [->|E].
             ++ rewrite upd_nth_same in Hk by lia. injection Hk as <-. lia.
             ++ rewrite upd_nth_other in Hk by congruence. specialize (Hb _ _ Hk). lia.
          -- intros k e Hk. subst acc1. destruct (Nat.eq_dec k i) as [->|E].
             ++ rewrite upd_nth_same in Hk by lia. injection Hk as <-. split; intros j Hj; lia.
             ++ rewrite upd_nth_other in Hk by congruence. exact (Ht _ _ Hk).
          -- cbn [length] in Hpv. lia.
        * (* field i joins the open run (or opens one when there is none) *)
          set (acc1 := upd index (REnd i) acc).
          set (index2 := if bspan && negb (is_plain p) then S i else index).
          assert (Hjoin : bpad = true -> (index < i)%nat -> (pt <? pal p) = false).
          { intros Hbp Hlt. rewrite Hbp in Hc. cbn [andb] in Hc.
            destruct (Nat.eqb i 0) eqn:E0; [apply Nat.eqb_eq in E0; lia|]. cbn [negb andb] in Hc. exact Hc. }
          rewrite HL0, Hpv0. apply IH; rewrite <- ?HL0, <- ?Hpv0.
          -- rewrite app_length, Hpre. cbn [length]. lia.
          -- rewrite app_length, Hppv. cbn [length]. lia.
          -- subst acc1. rewrite upd_length. exact Hacc.
          -- subst index2. destruct (bspan && negb (is_plain p)); lia.
          -- intros Hlt. subst index2. destruct (bspan && negb (is_plain p)); [lia|].
             replace (S i - 1)%nat with i by lia. subst acc1. apply upd_nth_same. lia.
          -- intros Hlt Hbs j Hj. subst index2. rewrite Hbs in *. cbn [andb] in *.
             destruct (is_plain p) eqn:Epl; cbn [negb] in *; [|lia].
             destruct (Nat.eq_dec j i) as [->|Ej]; [rewrite Hnth; exact Epl|].
             apply Hplain; [lia|reflexivity|lia].
          -- intros k e Hk. subst acc1. destruct (Nat.eq_dec k index) as [->|E].
             ++ rewrite upd_nth_same in Hk by lia. injection Hk as <-. lia.
             ++ rewrite upd_nth_other in Hk by congruence. specialize (Hb _ _ Hk). lia.
          -- intros k e Hk. subst acc1. destruct (Nat.eq_dec k index) as [->|E].
             ++ rewrite upd_nth_same in Hk by lia. injection Hk as <-.
                destruct (Nat.eq_dec index i) as [Ei|Ei]; [split; intros j Hj; lia|].
                assert (Hlt : (index < i)%nat) by lia.
                destruct (Ht _ _ (Hopen Hlt)) as [T1 T2]. split.
                ** intros j Hj Hbp. destruct (Nat.eq_dec j i) as [->|Ej].
                   --- rewrite Hnth, Hnpv. apply Hjoin; assumption.
                   --- apply T1; [lia|exact Hbp].
                ** intros j Hj Hbs. apply Hplain; [exact Hlt|exact Hbs|lia].
             ++ rewrite upd_nth_other in Hk by congruence. exact (Ht _ _ Hk).
          -- cbn [length] in Hpv. lia.
      + rewrite HL0, Hpv0. apply IH; rewrite <- ?HL0, <- ?Hpv0.
        * rewrite app_length, Hpre. cbn [length]. lia.
        * rewrite app_length, Hppv. cbn [length]. lia.
        * rewrite upd_length. exact Hacc.
        * lia.
        * lia.
        * lia.
        * intros k e Hk. destruct (Nat.eq_dec k i) as [->|E].
          -- rewrite upd_nth_same in Hk by lia. discriminate.
          -- rewrite upd_nth_other in Hk by congruence. specialize (Hb _ _ Hk). lia.
        * intros k e Hk. destruct (Nat.eq_dec k i) as [->|E].
          -- rewrite upd_nth_same in Hk by lia. discriminate.
          -- rewrite upd_nth_other in Hk by congruence. exact (Ht _ _ Hk).
        * cbn [length] in Hpv. lia.
  Qed.

  Lemma nth_repeat_skip n j : nth j (repeat RSkip n) RSkip = RSkip.
  Proof. revert j. induction n as [|n IH]; intros [|j]; cbn [repeat nth]; auto. Qed.

  Lemma trails_from_length : forall L st, length (trails_from L st) = length L.
  Proof.
    induction L as [|p L IH]; intros st; cbn [trails_from length]; [reflexivity|].
    destruct (tr_step p st) as [st' t]. cbn [length]. rewrite IH. reflexivity.
  Qed.

  Theorem runs_structure (L : list param) :
    let R := runs pred bpad bspan L in
    length R = length L /\
    (forall j, (j < length L)%nat -> covered R j) /\
    sound L R (length L).
  Proof.
    cbv zeta. unfold runs.
    pose proof (runs_from_inv L [] (prevs L) O O (repeat RSkip (length L))) as Hinv.
    cbv zeta in Hinv. cbn [app] in Hinv. apply Hinv; try reflexivity; try (cbn [length]; lia).
    all: try (rewrite repeat_length; reflexivity).
    all: try (split; [intros k e H|intros k H]; rewrite nth_repeat_skip in H; discriminate).
    all: try (unfold prevs, trails; cbn [length]; rewrite trails_from_length; lia).
  Qed.
  Theorem runs_tight (L : list param) : tight L (prevs L) (runs pred bpad bspan L).
  Proof.
    unfold runs.
    pose proof (runs_from_tight L [] [] (prevs L) O O (repeat RSkip (length L))) as Hinv.
    cbv zeta in Hinv. cbn [app] in Hinv. apply Hinv; try reflexivity; try lia.
    - rewrite repeat_length. reflexivity.
    - intros k e H. rewrite nth_repeat_skip in H. discriminate.
    - intros k e H. rewrite nth_repeat_skip in H. discriminate.
    - unfold prevs, trails. cbn [length]. rewrite trails_from_length. lia.
  Qed.
  (* the runs do not overlap: inside a run (behind its first field) the table holds nothing,
     and nothing has been written at or behind the cursor *)
  Definition separated (R : list ridx) (i : nat) : Prop :=
    (forall j, (i <= j)%nat -> nth j R RSkip = RSkip) /\
    (forall k e, nth k R RSkip = REnd e -> (e < i)%nat /\ forall j, (k < j <= e)%nat -> nth j R RSkip = RSkip).

  Lemma runs_from_separated : forall L pv i index acc,
    (index <= i)%nat -> (i + length L <= length acc)%nat ->
    (index < i -> nth index acc RSkip = REnd (i - 1))%nat ->
    separated acc i ->
    separated (runs_from pred bpad bspan L pv i index acc) (i + length L).
  Proof.
    induction L as [|p L IH]; intros pv i index acc Hidx Hlen Hopen [D1 D2].
    - cbn [runs_from length]. rewrite Nat.add_0_r. split; assumption.
    - destruct pv as [|pt pv]; [cbn [runs_from length]; split; [intros j Hj; apply D1; lia|]|].
      { intros k e Hk. destruct (D2 k e Hk) as [He Hin]. split; [lia|exact Hin]. }
      cbn [runs_from length]. replace (i + S (length L))%nat with (S i + length L)%nat by lia.
      destruct (pred p).
      + set (index1 := if bpad && negb (Nat.eqb i 0) && (pt <? pal p) then i else index).
        assert (Hi1' : index1 = i \/ (index1 = index /\ (index < i)%nat)).
        { subst index1. destruct (_ && _ && _); [left; reflexivity|].
          destruct (Nat.eq_dec index i); [left; assumption|right; split; [reflexivity|lia]]. }
        assert (Hi1 : (index1 <= i)%nat) by (destruct Hi1' as [->|[-> ?]]; lia).
        clearbody index1.
        apply IH.
        * destruct (bspan && negb (is_plain p)); lia.
        * rewrite upd_length. cbn [length] in Hlen. lia.
        * intros Hlt. destruct (bspan && negb (is_plain p)); [lia|].
          replace (S i - 1)%nat with i by lia. apply upd_nth_same. cbn [length] in Hlen. lia.
        * split.
          -- intros j Hj. rewrite upd_nth_other by lia. apply D1. lia.
          -- intros k e Hk. destruct (Nat.eq_dec k index1) as [E|E].
             ++ subst k. rewrite upd_nth_same in Hk by (cbn [length] in Hlen; lia). injection Hk as <-.
                split; [lia|]. intros j Hj. rewrite upd_nth_other by lia.
                destruct Hi1' as [E1|[E1 E2]]; [lia|]. subst index1.
                destruct (Nat.eq_dec j i) as [->|Hne]; [apply D1; lia|].
                destruct (D2 _ _ (Hopen E2)) as [_ Hin]. apply Hin. lia.
             ++ rewrite upd_nth_other in Hk by congruence. destruct (D2 k e Hk) as [He Hin].
                split; [lia|]. intros j Hj. specialize (Hin j Hj).
                rewrite upd_nth_other; [exact Hin|]. intros Ej. subst j.
                destruct Hi1' as [E1|[E1 E2]]; [lia|]. subst index1. rewrite (Hopen E2) in Hin. discriminate.
      + apply IH.
        * lia.
        * rewrite upd_length. cbn [length] in Hlen. lia.
        * lia.
        * split.
          -- intros j Hj. rewrite upd_nth_other by lia. apply D1. lia.
          -- intros k e Hk. destruct (Nat.eq_dec k i) as [E|E].
             ++ subst k. rewrite upd_nth_same in Hk by (cbn [length] in Hlen; lia). discriminate.
             ++ rewrite upd_nth_other in Hk by congruence. destruct (D2 k e Hk) as [He Hin].
                split; [lia|]. intros j Hj. rewrite upd_nth_other by lia. apply Hin. exact Hj.
  Qed.

  Theorem runs_separated (L : list param) : separated (runs pred bpad bspan L) (length L).
  Proof.
    unfold runs.
    pose proof (runs_from_separated L (prevs L) O O (repeat RSkip (length L))) as H. cbn [Nat.add] in H.
    apply H; try lia.
    - rewrite repeat_length. lia.
    - split; [intros j _; apply nth_repeat_skip|]. intros k e Hk. rewrite nth_repeat_skip in Hk. discriminate.
  Qed.
End Runs.

(* the four tables of the library *)
Corollary runs_asg_structure mv L :
  (forall j, (j < length L)%nat -> covered (runs_asg mv L) j) /\ sound (tasg mv) L (runs_asg mv L) (length L).
Proof. destruct (runs_structure (tasg mv) false false L) as (_ & H1 & H2). split; assumption. Qed.
Corollary runs_swp_structure L :
  (forall j, (j < length L)%nat -> covered (runs_swp L) j) /\ sound tswp L (runs_swp L) (length L).
Proof. destruct (runs_structure tswp false false L) as (_ & H1 & H2). split; assumption. Qed.
Corollary runs_eq_structure L :
  (forall j, (j < length L)%nat -> covered (runs_eq L) j) /\ sound eqm L (runs_eq L) (length L).
Proof. destruct (runs_structure eqm true true L) as (_ & H1 & H2). split; assumption. Qed.
Corollary runs_lex_structure L :
  (forall j, (j < length L)%nat -> covered (runs_lex L) j) /\ sound lxm L (runs_lex L) (length L).
Proof. destruct (runs_structure lxm true false L) as (_ & H1 & H2). split; assumption. Qed.

(* two different runs of a table do not share a field, and no MANUAL field lies inside a run *)
Corollary runs_swp_separated L : forall k e, nth k (runs_swp L) RSkip = REnd e ->
  forall j, (k < j <= e)%nat -> nth j (runs_swp L) RSkip = RSkip.
Proof. intros k e Hk. destruct (runs_separated tswp false false L) as [_ H]. exact (proj2 (H k e Hk)). Qed.
Corollary runs_asg_separated mv L : forall k e, nth k (runs_asg mv L) RSkip = REnd e ->
  forall j, (k < j <= e)%nat -> nth j (runs_asg mv L) RSkip = RSkip.
Proof. intros k e Hk. destruct (runs_separated (tasg mv) false false L) as [_ H]. exact (proj2 (H k e Hk)). Qed.
