(* Extract.v — OCaml extraction of the executable model (ExtrOcamlBasic only: bool,
   option, unit, list, prod, sumbool are mapped to their OCaml counterparts; Z, positive,
   nat stay the extracted inductive types). *)
From Coq Require Import ZArith List Bool.
From Coq Require Extraction ExtrOcamlBasic.
From Cntgs Require Import Base Layout Mem Vector Proxy Elem Construct World.
Extraction Language OCaml.
Extraction "model.ml"
  align64 lowbit64 tr_align64 align_up lowbit tr_align
  wf_plist largest SA trails prev_tr next_al asz esize needed units needed_grow_fixed
  place first_align counts
  runs_asg runs_swp runs_eq runs_lex padfree
  run Z.add Z.mul Z.div Z.modulo Z.opp Z.abs Z.sub Z.ltb Z.eqb.
