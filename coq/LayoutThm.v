(* LayoutThm.v — theorems about the layout calculus of Layout.v:
   soundness of the compile-time trailing-alignment analysis (C03), ordering and
   non-overlap of fields (C04), tight packing (C05), translation invariance of the
   placement (used by every relocation argument). *)
From Coq Require Import ZArith Lia List Bool.
From Cntgs Require Import Base BaseLemmas Layout.
Import ListNotations.
Local Open Scope Z_scope.

(* ---------- well-formedness, Prop side ---------- *)
Definition wfp (p : param) : Prop := 0 < psz p /\ pow2 (pal p).

Lemma wf_param_wfp p : wf_param p = true -> wfp p.
Proof.
  unfold wf_param. rewrite andb_true_iff, Z.leb_le. intros [H1 H2].
  split; [lia|apply is_pow2b_spec; exact H2].
Qed.

Lemma wf_plist_Forall L : wf_plist L = true -> Forall wfp L.
Proof.
  unfold wf_plist. destruct L as [|p L]; [discriminate|].
  rewrite andb_true_iff. intros [H _]. rewrite forallb_forall in H.
  apply Forall_forall. intros q Hq. apply wf_param_wfp, H, Hq.
Qed.

Lemma wf_plist_nonempty L : wf_plist L = true -> L <> [].
Proof. destruct L; [discriminate|congruence]. Qed.

(* ---------- STORAGE_ELEMENT_ALIGNMENT is the largest alignment of the list ---------- *)
Definition maxal (L : list param) : Z := fold_right (fun p m => Z.max (pal p) m) 0 L.

Lemma fold_max_repeat x n m : fold_right Z.max m (repeat x n) = match n with O => m | _ => Z.max x m end.
Proof.
  induction n as [|n IH]; [reflexivity|]. cbn [repeat fold_right]. rewrite IH.
  destruct n; lia.
Qed.

Lemma fold_max_app l1 l2 : fold_right Z.max 0 (l1 ++ l2) = fold_right Z.max (fold_right Z.max 0 l2) l1.
Proof. apply fold_right_app. Qed.

Lemma fold_max_base l m : 0 <= m -> fold_right Z.max m l = Z.max m (fold_right Z.max 0 l).
Proof.
  intros Hm. induction l as [|x l IH]; cbn [fold_right]; [lia|]. rewrite IH. lia.
Qed.

Lemma fold_max_nonneg l : 0 <= fold_right Z.max 0 l.
Proof. induction l; cbn [fold_right]; lia. Qed.

Lemma maxal_nonneg L : 0 <= maxal L.
Proof. induction L; cbn [maxal fold_right]; [lia|]. fold (maxal L). lia. Qed.

Lemma lgroups_max L : forall acc n, 0 <= acc ->
  (n = O -> acc = 0) ->
  fold_right Z.max 0 (lgroups L acc n) = Z.max acc (maxal L).
Proof.
  induction L as [|p L IH]; intros acc n Hacc Hn.
  - cbn [lgroups maxal fold_right]. rewrite fold_max_repeat. destruct n; [rewrite Hn by reflexivity|]; lia.
  - cbn [lgroups maxal fold_right]. fold (maxal L). pose proof (maxal_nonneg L).
    destruct (is_varying p).
    + rewrite fold_max_app, IH by (try lia; auto).
      rewrite fold_max_repeat. lia.
    + rewrite IH; [lia|lia|discriminate].
Qed.

Lemma SA_maxal L : SA L = maxal L.
Proof. unfold SA, largest. rewrite lgroups_max by (try lia; auto). pose proof (maxal_nonneg L). lia. Qed.

Lemma maxal_ge L p : In p L -> pal p <= maxal L.
Proof.
  induction L as [|q L IH]; [intros []|]. cbn [maxal fold_right]. fold (maxal L).
  intros [->|Hin]; [lia|]. specialize (IH Hin). lia.
Qed.

Lemma maxal_pow2 L : Forall wfp L -> L <> [] -> pow2 (maxal L).
Proof.
  induction L as [|q L IH]; [congruence|]. intros Hwf _.
  inversion Hwf as [|? ? [_ Hq] HL]; subst. cbn [maxal fold_right]. fold (maxal L).
  destruct L as [|r L'].
  - cbn [maxal fold_right]. pose proof (pow2_pos _ Hq). rewrite Z.max_l by lia. exact Hq.
  - apply pow2_max; auto. apply IH; auto. congruence.
Qed.

Lemma SA_pow2 L : Forall wfp L -> L <> [] -> pow2 (SA L).
Proof. rewrite SA_maxal. apply maxal_pow2. Qed.

Lemma SA_ge L p : In p L -> pal p <= SA L.
Proof. rewrite SA_maxal. apply maxal_ge. Qed.

Lemma SA_div L p : Forall wfp L -> In p L -> (pal p | SA L).
Proof.
  intros Hwf Hin. apply pow2_divide.
  - rewrite Forall_forall in Hwf. apply Hwf, Hin.
  - apply SA_pow2; auto. intros ->. destruct Hin.
  - apply SA_ge, Hin.
Qed.

(* ---------- C03: soundness of the trailing-alignment analysis ---------- *)
(* [Inv (off, br) prev a]: the compile-time state (offset, bracket) abstracts the real
   address [a] — a ≡ off (mod br) — and the previous trailing alignment divides [a]. *)
Definition Inv (st : Z * Z) (prev a : Z) : Prop :=
  let '(off, br) := st in
  0 <= off /\ 0 <= a /\ pow2 br /\ (br | a - off) /\ pow2 prev /\ (prev | a).

Definition cnt_ok (p : param) (c : Z) : Prop := 0 <= c /\ (pk p = Plain -> c = 1).

Lemma field_aligned p prev a : wfp p -> 0 <= a -> pow2 prev -> (prev | a) ->
  let a' := align_if (prev <? pal p) (pal p) a in
  (pal p | a') /\ a <= a' /\ a' = align_up a (pal p).
Proof.
  intros [Hs Hal] Ha Hp Hd. cbv zeta. unfold align_if. pose proof (pow2_pos _ Hal).
  destruct (Z.ltb_spec prev (pal p)) as [Hlt|Hge].
  - split; [apply align_up_div; auto|]. split; [apply align_up_ge; auto|reflexivity].
  - assert (Hda : (pal p | a)) by (eapply Z.divide_trans; [|exact Hd]; apply pow2_divide; auto).
    split; [exact Hda|]. split; [lia|]. symmetry. apply align_up_id; auto.
Qed.

Lemma aligned_congr p prev a off br : wfp p -> 0 <= a -> 0 <= off -> pow2 prev -> (prev | a) ->
  pow2 br -> (br | a - off) -> pal p <= br ->
  let a' := align_if (prev <? pal p) (pal p) a in
  (br | a' - align_up off (pal p)).
Proof.
  intros Hwf Ha Hoff Hp Hd Hbr [q Hq] Hle.
  destruct (field_aligned p prev a Hwf Ha Hp Hd) as (_ & _ & E). cbv zeta in *. rewrite E.
  destruct Hwf as [Hs Hal]. pose proof (pow2_pos _ Hal).
  assert (Hab : (pal p | br)) by (apply pow2_divide; auto).
  replace a with (off + q * br) by lia.
  rewrite align_up_shift; auto; [exists q; lia|]. apply Z.divide_mul_r. exact Hab.
Qed.

Lemma span_case p off br prev a c (a' := align_if (prev <? pal p) (pal p) a) :
  0 < psz p -> pow2 (pal p) -> 0 <= c -> 0 <= off -> 0 <= a -> pow2 br -> (br | a - off) ->
  pow2 prev -> (prev | a) -> (pal p | a') -> a <= a' ->
  let ao := align_up off (pal p) in
  let br' := Z.max br (pal p) in
  let leading := Z.max (pal p) (tr_align ao br') in
  let t := tr_align (psz p) leading in
  Inv (0, t) t (a' + c * psz p).
Proof.
  intros Hs Hal Hc Hoff Ha Hbr Hd Hp Hpd Hal' Hge'. cbv zeta. unfold tr_align.
  pose proof (pow2_pos _ Hal) as Halpos. pose proof (pow2_pos _ Hbr).
  destruct (lowbit_spec (psz p) Hs) as [Hlp Hld].
  set (ao := align_up off (pal p)). set (br' := Z.max br (pal p)).
  set (leading := Z.max (pal p) (Z.min (lowbit ao) br')).
  assert (Hlead : pow2 leading /\ (leading | a')).
  { pose proof (align_up_ge off (pal p) Halpos) as Hao. fold ao in Hao.
    destruct (Z.eq_dec ao 0) as [E0|Ene].
    - unfold leading. rewrite E0, lowbit_0.
      assert (Hb' : pow2 br') by (apply pow2_max; auto). pose proof (pow2_pos _ Hb').
      rewrite Z.min_l by lia. rewrite Z.max_l by lia. auto.
    - assert (Haopos : 0 < ao) by lia.
      destruct (lowbit_spec ao Haopos) as [Hlap Hlad].
      assert (Hbr' : pow2 br') by (apply pow2_max; auto).
      assert (Hm : pow2 (Z.min (lowbit ao) br')) by (apply pow2_min; auto).
      split; [apply pow2_max; auto|].
      unfold leading. destruct (Z.max_spec (pal p) (Z.min (lowbit ao) br')) as [[Hlt ->]|[Hle ->]]; [|exact Hal'].
      assert (Hbrge : pal p <= br) by (unfold br' in *; lia).
      assert (Ebr : br' = br) by (unfold br'; lia). rewrite Ebr in *.
      pose proof (aligned_congr p prev a off br (conj Hs Hal) Ha Hoff Hp Hpd Hbr Hd Hbrge) as Hcg.
      cbv zeta in Hcg. fold a' in Hcg. fold ao in Hcg.
      replace a' with (ao + (a' - ao)) by lia.
      apply Z.divide_add_r.
      + eapply Z.divide_trans; [apply pow2_min_div_l; auto|exact Hlad].
      + eapply Z.divide_trans; [apply pow2_min_div_r; auto|exact Hcg]. }
  destruct Hlead as [Hlp2 Hldiv].
  set (t := Z.min (lowbit (psz p)) leading).
  assert (Ht : pow2 t) by (apply pow2_min; auto).
  assert (Htd : (t | a' + c * psz p)).
  { apply Z.divide_add_r.
    - eapply Z.divide_trans; [apply pow2_min_div_r; auto|exact Hldiv].
    - apply Z.divide_mul_r. eapply Z.divide_trans; [apply pow2_min_div_l; auto|exact Hld]. }
  assert (Hcp : 0 <= c * psz p) by (apply Z.mul_nonneg_nonneg; lia).
  unfold Inv. repeat split; try lia; auto.
  now rewrite Z.sub_0_r.
Qed.

Lemma step_sound p st prev a c : wfp p -> cnt_ok p c -> Inv st prev a ->
  let a' := align_if (prev <? pal p) (pal p) a in
  (pal p | a') /\ a <= a' /\ a' = align_up a (pal p) /\
  Inv (fst (tr_step p st)) (snd (tr_step p st)) (a' + c * psz p).
Proof.
  intros Hwf [Hc Hc1] HI. destruct st as [off br].
  destruct HI as (Hoff & Ha & Hbr & Hd & Hp & Hpd).
  pose proof (field_aligned p prev a Hwf Ha Hp Hpd) as (Hal' & Hge' & Eal). cbv zeta in Hal', Hge', Eal.
  destruct Hwf as [Hs Hal]. pose proof (pow2_pos _ Hal) as Halpos. pose proof (pow2_pos _ Hbr).
  cbv zeta. set (a' := align_if (prev <? pal p) (pal p) a) in *.
  split; [exact Hal'|]. split; [exact Hge'|]. split; [exact Eal|].
  unfold tr_step. destruct (pk p) eqn:Hk.
  - (* Plain *)
    rewrite (Hc1 eq_refl), Z.mul_1_l. unfold tr_align.
    destruct (Z.ltb_spec br (pal p)) as [Hlt|Hge]; cbn [fst snd].
    + rewrite Z.max_r by lia.
      destruct (lowbit_spec (psz p) Hs) as [Hlp Hld].
      unfold Inv. repeat split; try lia; auto.
      * replace (a' + psz p - psz p) with a' by lia. exact Hal'.
      * apply pow2_min; auto.
      * apply Z.divide_add_r.
        -- eapply Z.divide_trans; [apply pow2_min_div_r; auto|exact Hal'].
        -- eapply Z.divide_trans; [apply pow2_min_div_l; auto|exact Hld].
    + rewrite Z.max_l by lia.
      pose proof (aligned_congr p prev a off br (conj Hs Hal) Ha Hoff Hp Hpd Hbr Hd Hge) as Hcg.
      cbv zeta in Hcg. fold a' in Hcg.
      pose proof (align_up_ge off (pal p) Halpos).
      replace (off + (align_up off (pal p) - off + psz p)) with (align_up off (pal p) + psz p) by lia.
      set (no := align_up off (pal p) + psz p) in *.
      assert (Hno : 0 < no) by (unfold no; lia).
      destruct (lowbit_spec no Hno) as [Hlp Hld].
      unfold Inv. repeat split; try lia; auto.
      * replace (a' + psz p - no) with (a' - align_up off (pal p)) by (unfold no; lia). exact Hcg.
      * apply pow2_min; auto.
      * replace (a' + psz p) with (no + (a' - align_up off (pal p))) by (unfold no; lia).
        apply Z.divide_add_r.
        -- eapply Z.divide_trans; [apply pow2_min_div_l; auto|exact Hld].
        -- eapply Z.divide_trans; [apply pow2_min_div_r; auto|exact Hcg].
  - cbn [fst snd]. apply span_case; auto.
  - cbn [fst snd]. apply span_case; auto.
Qed.

(* what the placement guarantees for every field, given the analysis state *)
Record field_ok (p : param) (lo x c : Z) : Prop := {
  fo_aligned : (pal p | x);             (* C03 *)
  fo_after   : lo <= x;                 (* C04: after the previous field *)
  fo_tight   : x = align_up lo (pal p)  (* C05: at the least aligned address *)
}.

(* [chain L cnts lo xs e]: fields at xs, each at the least aligned address after the end
   of its predecessor (the first after [lo]); [e] is the end of the last field *)
Inductive chain : list param -> list Z -> Z -> list Z -> Z -> Prop :=
| chain_nil lo : chain [] [] lo [] lo
| chain_cons p L c cnts lo x xs e :
    field_ok p lo x c -> chain L cnts (x + c * psz p) xs e ->
    chain (p :: L) (c :: cnts) lo (x :: xs) e.

Lemma place_from_chain L : forall st prev cnts a,
  Forall wfp L -> Forall2 cnt_ok L cnts -> Inv st prev a ->
  chain L cnts a (fst (place_from L (prev :: trails_from L st) cnts a))
                 (snd (place_from L (prev :: trails_from L st) cnts a)).
Proof.
  induction L as [|p L IH]; intros st prev cnts a Hwf Hc HI.
  - inversion Hc; subst. cbn. constructor.
  - inversion Hc as [|? c ? cnts' Hc1 Hcr]; subst. inversion Hwf as [|? ? Hwp HwL]; subst.
    cbn [trails_from].
    pose proof (step_sound p st prev a c Hwp Hc1 HI) as Hs. cbv zeta in Hs.
    destruct (tr_step p st) as [st' t] eqn:Ets. cbn [fst snd] in Hs.
    destruct Hs as (Hal & Hge & Etight & HI').
    cbn [place_from].
    specialize (IH st' t cnts' (align_if (prev <? pal p) (pal p) a + c * psz p) HwL Hcr HI').
    destruct (place_from L (t :: trails_from L st') cnts' (align_if (prev <? pal p) (pal p) a + c * psz p)) as [r e].
    cbn [fst snd] in *. constructor; [constructor; auto|exact IH].
Qed.

Lemma Inv_init L a : Forall wfp L -> L <> [] -> 0 <= a -> (SA L | a) -> Inv (0, SA L) (SA L) a.
Proof.
  intros Hwf Hne Ha Hd. pose proof (SA_pow2 L Hwf Hne). unfold Inv.
  repeat split; auto; try lia. now rewrite Z.sub_0_r.
Qed.

(* Every field of an element stored at an SA-aligned address: aligned, ordered, tight *)
Theorem place_chain L cnts a :
  Forall wfp L -> L <> [] -> Forall2 cnt_ok L cnts -> 0 <= a -> (SA L | a) ->
  chain L cnts a (fst (place L cnts a)) (snd (place L cnts a)).
Proof.
  intros Hwf Hne Hc Ha Hd. unfold place, prevs, trails.
  apply place_from_chain; auto. apply Inv_init; auto.
Qed.

(* ---- consequences of [chain] ---- *)
Lemma chain_aligned L cnts lo xs e : chain L cnts lo xs e -> Forall2 (fun p x => (pal p | x)) L xs.
Proof. induction 1 as [|p L c cnts lo x xs e [H1 H2 H3] _ IH]; constructor; auto. Qed.

Lemma chain_lengths L cnts lo xs e : chain L cnts lo xs e -> length xs = length L /\ length cnts = length L.
Proof. induction 1 as [|? ? ? ? ? ? ? ? _ _ [IH1 IH2]]; cbn [length]; auto. Qed.

Lemma chain_end_ge L cnts lo xs e : Forall2 cnt_ok L cnts -> Forall wfp L -> chain L cnts lo xs e -> lo <= e.
Proof.
  intros Hc Hwf H. revert Hc Hwf. induction H as [|p L c cnts lo x xs e [H1 H2 H3] _ IH]; intros Hc Hwf; [lia|].
  inversion Hc as [|? ? ? ? [Hc0 _] Hcr]; subst. inversion Hwf as [|? ? [Hs _] HwL]; subst.
  specialize (IH Hcr HwL). assert (0 <= c * psz p) by (apply Z.mul_nonneg_nonneg; lia). lia.
Qed.

(* field extents [x_k, x_k + c_k * psz_k) are ordered and disjoint, inside [lo, e) *)
Fixpoint extents (L : list param) (cnts xs : list Z) : list (Z * Z) :=
  match L, cnts, xs with
  | p :: L', c :: cnts', x :: xs' => (x, x + c * psz p) :: extents L' cnts' xs'
  | _, _, _ => []
  end.

Fixpoint ordered_from (lo : Z) (es : list (Z * Z)) (hi : Z) : Prop :=
  match es with
  | [] => lo <= hi
  | (b, e) :: es' => lo <= b /\ b <= e /\ ordered_from e es' hi
  end.

Lemma chain_ordered L cnts lo xs e : Forall2 cnt_ok L cnts -> Forall wfp L ->
  chain L cnts lo xs e -> ordered_from lo (extents L cnts xs) e.
Proof.
  intros Hc Hwf H. revert Hc Hwf. induction H as [|p L c cnts lo x xs e [H1 H2 H3] _ IH]; intros Hc Hwf.
  - cbn. lia.
  - inversion Hc as [|? ? ? ? [Hc0 _] Hcr]; subst. inversion Hwf as [|? ? [Hs _] HwL]; subst.
    cbn [extents ordered_from]. assert (0 <= c * psz p) by (apply Z.mul_nonneg_nonneg; lia).
    repeat split; auto; lia.
Qed.

(* ---------- translation invariance ---------- *)
Lemma place_from_shift L : forall ps cnts a d,
  Forall wfp L -> (forall p, In p L -> (pal p | d)) ->
  place_from L ps cnts (a + d) =
    (map (fun x => x + d) (fst (place_from L ps cnts a)), snd (place_from L ps cnts a) + d).
Proof.
  induction L as [|p L IH]; intros ps cnts a d Hwf Hd; [reflexivity|].
  destruct ps as [|pt ps]; [reflexivity|]. destruct cnts as [|c cnts]; [reflexivity|].
  inversion Hwf as [|? ? [Hs Hal] HwL]; subst. pose proof (pow2_pos _ Hal).
  cbn [place_from].
  assert (E : align_if (pt <? pal p) (pal p) (a + d) = align_if (pt <? pal p) (pal p) a + d).
  { unfold align_if. destruct (pt <? pal p); [|reflexivity].
    apply align_up_shift; auto. apply Hd. left; reflexivity. }
  rewrite E.
  replace (align_if (pt <? pal p) (pal p) a + d + c * psz p)
    with (align_if (pt <? pal p) (pal p) a + c * psz p + d) by lia.
  rewrite IH; auto; [|intros q Hq; apply Hd; right; exact Hq].
  destruct (place_from L ps cnts (align_if (pt <? pal p) (pal p) a + c * psz p)) as [r e].
  reflexivity.
Qed.

(* shifting an element by a multiple of the storage alignment shifts every field by
   the same amount: why memmove/memcpy relocation preserves the layout *)
Theorem place_shift L cnts a d : Forall wfp L -> (SA L | d) ->
  place L cnts (a + d) = (map (fun x => x + d) (fst (place L cnts a)), snd (place L cnts a) + d).
Proof.
  intros Hwf Hd. unfold place. apply place_from_shift; auto.
  intros p Hp. eapply Z.divide_trans; [apply SA_div; eauto|exact Hd].
Qed.

(* ---------- packaged statements used by the Properties_* files ---------- *)
Theorem place_aligned L cnts a :
  wf_plist L = true -> Forall2 cnt_ok L cnts -> 0 <= a -> (SA L | a) ->
  Forall2 (fun p x => (pal p | x)) L (fst (place L cnts a)).
Proof.
  intros Hwf Hc Ha Hd. eapply chain_aligned. apply place_chain; auto.
  - apply wf_plist_Forall; auto.
  - apply wf_plist_nonempty; auto.
Qed.

Theorem place_shift_fst L cnts a d : wf_plist L = true -> (SA L | d) ->
  fst (place L cnts (a + d)) = map (fun x => x + d) (fst (place L cnts a)).
Proof. intros Hwf Hd. rewrite place_shift; auto. apply wf_plist_Forall; auto. Qed.

Theorem place_shift_snd L cnts a d : wf_plist L = true -> (SA L | d) ->
  snd (place L cnts (a + d)) = snd (place L cnts a) + d.
Proof. intros Hwf Hd. rewrite place_shift; auto. apply wf_plist_Forall; auto. Qed.

(* C04: fields in parameter order, inside [a, end), pairwise disjoint *)
Theorem place_ordered L cnts a :
  wf_plist L = true -> Forall2 cnt_ok L cnts -> 0 <= a -> (SA L | a) ->
  ordered_from a (extents L cnts (fst (place L cnts a))) (snd (place L cnts a)).
Proof.
  intros Hwf Hc Ha Hd. apply chain_ordered; auto; [apply wf_plist_Forall; auto|].
  apply place_chain; auto; [apply wf_plist_Forall; auto|apply wf_plist_nonempty; auto].
Qed.

(* C05: every field sits at the lowest suitably aligned address after its predecessor *)
Fixpoint tight_from (lo : Z) (L : list param) (cnts xs : list Z) : Prop :=
  match L, cnts, xs with
  | p :: L', c :: cnts', x :: xs' => x = align_up lo (pal p) /\ tight_from (x + c * psz p) L' cnts' xs'
  | [], [], [] => True
  | _, _, _ => False
  end.

Lemma chain_tight L cnts lo xs e : chain L cnts lo xs e -> tight_from lo L cnts xs.
Proof. induction 1 as [|p L c cnts lo x xs e [H1 H2 H3] _ IH]; cbn [tight_from]; auto. Qed.

Theorem place_tight L cnts a :
  wf_plist L = true -> Forall2 cnt_ok L cnts -> 0 <= a -> (SA L | a) ->
  tight_from a L cnts (fst (place L cnts a)).
Proof.
  intros Hwf Hc Ha Hd. eapply chain_tight. apply place_chain; auto;
    [apply wf_plist_Forall; auto|apply wf_plist_nonempty; auto].
Qed.

(* the first field of an element stored at an SA-aligned address is at that address *)
Theorem place_first L cnts a : wf_plist L = true -> Forall2 cnt_ok L cnts -> 0 <= a -> (SA L | a) ->
  hd a (fst (place L cnts a)) = a.
Proof.
  intros Hwf Hc Ha Hd. pose proof (place_tight L cnts a Hwf Hc Ha Hd) as Ht.
  destruct L as [|p L]; [discriminate|]. destruct cnts as [|c cnts]; [inversion Hc|].
  destruct (fst (place (p :: L) (c :: cnts) a)) as [|x xs] eqn:E; [reflexivity|].
  cbn [tight_from] in Ht. destruct Ht as [-> _]. cbn [hd].
  apply align_up_id.
  - apply pow2_pos. pose proof (wf_plist_Forall _ Hwf) as HF. inversion HF as [|? ? [_ H] _]; auto.
  - eapply Z.divide_trans; [|exact Hd]. apply SA_div; [apply wf_plist_Forall; auto|left; reflexivity].
Qed.

Lemma align_if_ge_ c al a : 0 < al -> a <= align_if c al a.
Proof. intros H. unfold align_if. destruct c; [apply align_up_ge; auto|lia]. Qed.

(* ---------- the end of an element: align_for_first_parameter ---------- *)
Lemma place_from_final L : forall st prev cnts a,
  Forall wfp L -> Forall2 cnt_ok L cnts -> Inv st prev a ->
  let pvs := prev :: trails_from L st in
  pow2 (last pvs 0) /\ (last pvs 0 | snd (place_from L pvs cnts a)) /\ 0 <= snd (place_from L pvs cnts a).
Proof.
  induction L as [|p L IH]; intros st prev cnts a Hwf Hc HI.
  - inversion Hc; subst. cbn. destruct st as [off br]. destruct HI as (_ & Ha & _ & _ & Hp & Hd). auto.
  - inversion Hc as [|? c ? cnts' Hc1 Hcr]; subst. inversion Hwf as [|? ? Hwp HwL]; subst.
    cbn [trails_from].
    pose proof (step_sound p st prev a c Hwp Hc1 HI) as Hs. cbv zeta in Hs.
    destruct (tr_step p st) as [st' t] eqn:Ets. cbn [fst snd] in Hs.
    destruct Hs as (_ & _ & _ & HI').
    specialize (IH st' t cnts' (align_if (prev <? pal p) (pal p) a + c * psz p) HwL Hcr HI').
    cbv zeta in *. cbn [place_from].
    destruct (place_from L (t :: trails_from L st') cnts' (align_if (prev <? pal p) (pal p) a + c * psz p)) as [r e].
    cbn [fst snd] in *.
    replace (last (prev :: t :: trails_from L st') 0) with (last (t :: trails_from L st') 0) by reflexivity.
    exact IH.
Qed.

Lemma trails_from_length L : forall st, length (trails_from L st) = length L.
Proof.
  induction L as [|q L IH]; intros st; cbn [trails_from length]; [reflexivity|].
  destruct (tr_step q st). cbn [length]. f_equal. apply IH.
Qed.

Lemma nth_last_ (ts : list Z) : forall t, nth (length ts) (t :: ts) 0 = last (t :: ts) 0.
Proof.
  induction ts as [|u ts IH]; intros t; [reflexivity|].
  cbn [length]. change (nth (S (length ts)) (t :: u :: ts) 0) with (nth (length ts) (u :: ts) 0).
  rewrite IH. reflexivity.
Qed.

Lemma prev_tr_last L : L <> [] -> prev_tr L (length L) = last (prevs L) 0.
Proof.
  intros Hne. unfold prev_tr, prevs. destruct L as [|p L]; [congruence|].
  cbn [length]. pose proof (trails_from_length (p :: L) (0, SA (p :: L))) as Hl. fold (trails (p :: L)) in Hl.
  destruct (trails (p :: L)) as [|t ts] eqn:E; [cbn in Hl; lia|].
  replace (last (SA (p :: L) :: t :: ts) 0) with (last (t :: ts) 0) by reflexivity.
  cbn [length] in Hl. injection Hl as Hl. rewrite <- Hl. apply nth_last_.
Qed.

(* the address where the NEXT element starts is a multiple of the storage alignment,
   and it is the least such address at or after the end of this element *)
Theorem first_align_end L cnts a :
  wf_plist L = true -> Forall2 cnt_ok L cnts -> 0 <= a -> (SA L | a) ->
  let e := snd (place L cnts a) in
  (SA L | first_align L e) /\ e <= first_align L e /\ first_align L e = align_up e (SA L).
Proof.
  intros Hwf Hc Ha Hd.
  pose proof (wf_plist_Forall _ Hwf) as HF. pose proof (wf_plist_nonempty _ Hwf) as Hne.
  pose proof (SA_pow2 L HF Hne) as HS. pose proof (pow2_pos _ HS) as HSp.
  pose proof (place_from_final L (0, SA L) (SA L) cnts a HF Hc (Inv_init L a HF Hne Ha Hd)) as Hf.
  cbv zeta in Hf. fold (trails L) in Hf. fold (prevs L) in Hf. fold (place L cnts a) in Hf.
  destruct Hf as (Hp & Hdv & He0). cbv zeta. unfold first_align, align_if.
  rewrite prev_tr_last by auto.
  destruct (Z.ltb_spec (last (prevs L) 0) (SA L)) as [Hlt|Hge].
  - split; [apply align_up_div; auto|]. split; [apply align_up_ge; auto|reflexivity].
  - assert (Hsd : (SA L | snd (place L cnts a))).
    { eapply Z.divide_trans; [|exact Hdv]. apply pow2_divide; auto. }
    split; [exact Hsd|]. split; [lia|]. symmetry. apply align_up_id; auto.
Qed.

Lemma first_align_aligned L a : wf_plist L = true -> (SA L | a) -> first_align L a = a.
Proof.
  intros Hwf Hd. pose proof (wf_plist_Forall _ Hwf) as HF. pose proof (wf_plist_nonempty _ Hwf) as Hne.
  pose proof (pow2_pos _ (SA_pow2 L HF Hne)).
  unfold first_align, align_if. destruct (_ <? _); [apply align_up_id; auto|reflexivity].
Qed.

Lemma first_align_shift L a d : wf_plist L = true -> (SA L | d) -> first_align L (a + d) = first_align L a + d.
Proof.
  intros Hwf Hd. pose proof (wf_plist_Forall _ Hwf) as HF. pose proof (wf_plist_nonempty _ Hwf) as Hne.
  pose proof (pow2_pos _ (SA_pow2 L HF Hne)).
  unfold first_align, align_if. destruct (_ <? _); [apply align_up_shift; auto|reflexivity].
Qed.

Lemma first_align_ge L a : wf_plist L = true -> a <= first_align L a.
Proof.
  intros Hwf. pose proof (wf_plist_Forall _ Hwf) as HF. pose proof (wf_plist_nonempty _ Hwf) as Hne.
  pose proof (pow2_pos _ (SA_pow2 L HF Hne)).
  unfold first_align. apply align_if_ge_; auto.
Qed.
