(* C17 — allocation failure leaves everything valid and leak-free.
   Scope: only the allocator throws (value types' special members do not).
   (1) For EVERY parameter list, allocator kind and operand state, each allocating operation
       of the model performs all of its allocations before any other effect: nothing is
       constructed, destroyed, moved or released before the last allocation has succeeded.
   (2) Consequently a step in which the k-th allocation fails changes no vector and no
       element (strong guarantee for every operation, in particular reserve and copy
       construction leave the source untouched) and hands back every block it obtained.
   That the real code behaves like this (it did not: see the four fix commits) is decided by
   the correspondence check: exhaustive fault enumeration over every allocation of every
   allocating step of generated histories (DESIGN.md, C17). *)
From Coq Require Import ZArith List Bool.
From Cntgs Require Import Base Layout Mem Vector Proxy Elem World FaultThm.
Import ListNotations.
Local Open Scope Z_scope.

Theorem C17_construction_allocates_first : forall L cap budget fixed aid junk bid tbid,
  allocs_first (snd (mkvec L cap budget fixed aid junk bid tbid)).
Proof. exact mkvec_allocs_first. Qed.
Print Assumptions C17_construction_allocates_first.

Theorem C17_reserve_allocates_first : forall L v n b junk bid tbid,
  allocs_first (snd (reserve L v n b junk bid tbid)).
Proof. exact reserve_allocs_first. Qed.
Print Assumptions C17_reserve_allocates_first.

Theorem C17_copy_construction_allocates_first : forall K L src junk nb,
  allocs_first (snd (fst (copy_ctor K L src junk nb))).
Proof. exact copy_ctor_allocs_first. Qed.
Print Assumptions C17_copy_construction_allocates_first.

Theorem C17_copy_assignment_allocates_first : forall K L d src junk nb,
  allocs_first (snd (fst (copy_assign K L d src junk nb))).
Proof. exact copy_assign_allocs_first. Qed.
Print Assumptions C17_copy_assignment_allocates_first.

Theorem C17_move_assignment_allocates_first : forall K L d src junk nb,
  allocs_first (snd (fst (move_assign K L d src junk nb))).
Proof. exact move_assign_allocs_first. Qed.
Print Assumptions C17_move_assignment_allocates_first.

Theorem C17_element_construction_allocates_first : forall mv L ms fls sb aid junk nb,
  allocs_first (snd (elem_from_ref mv L ms fls sb aid junk nb)).
Proof. exact elem_from_ref_allocs_first. Qed.
Print Assumptions C17_element_construction_allocates_first.

Theorem C17_element_copy_assignment_allocates_first : forall pocca ae L d src junk nb,
  allocs_first (snd (fst (elem_copy_assign pocca ae L d src junk nb))).
Proof. exact elem_copy_assign_allocs_first. Qed.
Print Assumptions C17_element_copy_assignment_allocates_first.

Theorem C17_element_move_assignment_allocates_first : forall pocma ae L d src junk nb,
  allocs_first (snd (fst (elem_move_assign pocma ae L d src junk nb))).
Proof. exact elem_move_assign_allocs_first. Qed.
Print Assumptions C17_element_move_assignment_allocates_first.

(* the step in which an allocation fails: no vector, no element changes; the failure is
   consumed; exactly the k successful allocations used up block identities *)
Theorem C17_failed_step_changes_nothing : forall K L w o k,
  w_fail w = Some k ->
  let w1 := step K L w o in
  let new := rev (firstn (length (w_out w1) - length (w_out w)) (w_out w1)) in
  (k < length (filter is_alloc new))%nat ->
  w_vecs (step_f K L w o) = w_vecs w /\ w_elems (step_f K L w o) = w_elems w /\
  w_fail (step_f K L w o) = None /\ w_nb (step_f K L w o) = (w_nb w + k)%nat.
Proof. exact step_f_failure. Qed.
Print Assumptions C17_failed_step_changes_nothing.

Theorem C17_failed_step_returns_its_blocks : forall done a u n b,
  In (OEv (EAlloc a u n b)) done -> In (OEv (EDealloc a u n b)) (flat_map dealloc_of (rev done)).
Proof. exact dealloc_of_done. Qed.
Print Assumptions C17_failed_step_returns_its_blocks.

(* non-vacuity: reserve on a VaryingSize vector with the SECOND allocation (the address
   table) failing: the vector is unchanged, the new block is returned, then a second reserve
   succeeds *)
Definition Lv : list param :=
  [ {| pk := Plain; psz := 8; pal := 8; pty := TUInt |}; {| pk := Varying; psz := 4; pal := 1; pty := TBlob |} ].
Definition Kpmr : akind := {| pocca := false; pocma := false; pocs := false; always_eq := false; soccc_bump := false |}.
Definition ops17 : list op :=
  [ OpMkVec 0 1 16 [] 1; OpEmplace 0 [[[1;0;0;0;0;0;0;0]]; [[7;7;7;7]]]; OpFailAt 1; OpReserve 0 4 64 ].
Definition w17 := run_from Kpmr Lv world0 ops17 O.
Example C17_reserve_table_allocation_fails :
  v_cap (getv w17 0) = 1 /\ v_bid (getv w17 0) = Some O /\ w_fail w17 = None /\ w_nb w17 = 3%nat /\
  In (OEv (EAlloc 1 8 14 2)) (w_out w17) /\ In (OEv (EDealloc 1 8 14 2)) (w_out w17) /\ In OThrow (w_out w17) /\
  v_cap (getv (run_from Kpmr Lv w17 [OpReserve 0 4 64] 4) 0) = 4.
Proof. vm_compute. repeat split; auto 20. Qed.
