(* C06 — every stored object is constructed once, destroyed once, never clobbered alive.
   PARTIAL: element-level theorems for every parameter list; the invariant over whole
   histories is proved for trivially relocatable lists only (where it is the C01
   refinement: no object has a lifetime to manage); histories over non-trivial lists are
   covered by the correspondence (instrumented value types) and the oracle, and erase on
   VaryingSize lists of non-trivial types is the recorded known finding. *)
From Coq Require Import ZArith List Bool.
From Cntgs Require Import Base Layout Mem Vector Spec Rep LifeThm StableThm.
Import ListNotations.
Local Open Scope Z_scope.

(* emplace_back constructs exactly one object per stored object of every
   non-trivially-constructible field, at the address the placement assigns to it *)
Theorem C06_emplace_constructs_each_object_once : forall L pv vals bid m a,
  (length L <= length pv)%nat -> length vals = length L ->
  keep ctor_of (snd (fst (store_from L pv vals bid m a))) =
    obj_addrs ntc L (fst (place_from L pv (cnts_of vals) a)) (cnts_of vals).
Proof. exact store_from_constructs. Qed.
Print Assumptions C06_emplace_constructs_each_object_once.

(* destruction destroys exactly the objects of the non-trivially-destructible fields *)
Theorem C06_destruct_destroys_each_object_once : forall L xs cnts bid m,
  length xs = length L -> length cnts = length L ->
  keep dtor_of (snd (destruct_fields L (combine xs cnts) bid m)) = obj_addrs ntd L xs cnts.
Proof. exact destruct_fields_destroys. Qed.
Print Assumptions C06_destruct_destroys_each_object_once.

(* constructed once, destroyed once: what pop_back / erase / clear / the destructor destroy
   (found through the load path, counts read back from memory) is exactly what the
   emplacement of that element constructed *)
Theorem C06_emplace_then_destruct_balanced : forall L fixed t bid m a,
  wf_plist L = true -> (forall p, In p L -> ntc p = ntd p) ->
  tuple_ok L (fixed_counts L fixed) 0 t ->
  let r := store L t bid m a in
  let m' := fst (fst r) in
  keep ctor_of (snd (fst r)) = keep dtor_of (snd (destruct_fields L (fst (load L fixed m' a)) bid m')).
Proof. exact emplace_then_destruct_balanced. Qed.
Print Assumptions C06_emplace_then_destruct_balanced.

Example C06_example :
  let L := [ {| pk := Plain; psz := 2; pal := 2; pty := TUInt |};
             {| pk := Varying; psz := 4; pal := 4; pty := TTrk |};
             {| pk := Plain; psz := 3; pal := 1; pty := TTrk |} ] in
  keep ctor_of (snd (fst (store L [[[2; 0]]; [[1; 1; 1; 1]; [2; 2; 2; 2]]; [[7; 7; 7]]] 0%nat (mfill 170) 8)))
    = [(12, 4); (16, 4); (20, 3)].
Proof. vm_compute. reflexivity. Qed.
