(* C06 — every stored object is constructed once, destroyed once, never clobbered alive.
   Proved: what every operation constructs and destroys, for every parameter list
   (the C06_emplace_... and C06_destruct_... theorems); the step invariant "held objects -> held objects" and the
   balance over a whole life - construction, ANY valid history, destruction - for every list
   whose value types are non-trivially constructible exactly when non-trivially destructible
   (C06_step_turns_held_objects_into_held_objects, C06_whole_life_objects_balanced); the objects
   of a ContiguousElement (the C06_element_... theorems).
   On lists without a VaryingSize parameter NO restriction on the history is left
   (C06_whole_life_fixed_lists_every_history, FixedLife.v).
   PARTIAL: erase with elements behind the erased ones on VaryingSize lists of non-trivial types
   (the recorded finding when source and target overlap), a no-duplicates statement over the
   whole event log, copy / move between vectors: correspondence (instrumented value types,
   registry) and the live-object oracle. *)
From Coq Require Import ZArith List Bool Lia.
From Coq Require Import Permutation.
From Cntgs Require Import Base Layout Mem Vector Spec Rep Refine LifeThm StableThm NtRefine LifeHist FixedLife LiveDisjoint Proxy Elem ElemThm ElemLife.
Import ListNotations.
Local Open Scope Z_scope.

(* emplace_back constructs exactly one object per stored object of every
   non-trivially-constructible field, at the address the placement assigns to it *)
Theorem C06_emplace_constructs_each_object_once : forall L pv vals bid m a,
  (length L <= length pv)%nat -> length vals = length L ->
  keep ctor_of (snd (fst (store_from L pv vals bid m a))) =
    obj_addrs (ntc false) L (fst (place_from L pv (cnts_of vals) a)) (cnts_of vals).
Proof. exact store_from_constructs. Qed.
Print Assumptions C06_emplace_constructs_each_object_once.

(* destruction destroys exactly the objects of the non-trivially-destructible fields *)
Theorem C06_destruct_destroys_each_object_once : forall L xs cnts bid m,
  length xs = length L -> length cnts = length L ->
  keep dtor_of (snd (destruct_fields L (combine xs cnts) bid m)) = obj_addrs ntd L xs cnts.
Proof. exact destruct_fields_destroys. Qed.
Print Assumptions C06_destruct_destroys_each_object_once.

(* constructed once, destroyed once: what pop_back / erase / clear / the destructor destroy
   (found through the load path, counts read back from memory) is exactly what the
   emplacement of that element constructed *)
Theorem C06_emplace_then_destruct_balanced : forall L fixed t bid m a,
  wf_plist L = true -> (forall mv p, In p L -> ntc mv p = ntd p) ->
  tuple_ok L (fixed_counts L fixed) 0 t ->
  let r := store L t bid m a in
  let m' := fst (fst r) in
  keep ctor_of (snd (fst r)) = keep dtor_of (snd (destruct_fields L (fst (load L fixed m' a)) bid m')).
Proof. exact emplace_then_destruct_balanced. Qed.
Print Assumptions C06_emplace_then_destruct_balanced.

Example C06_example :
  let L := [ {| pk := Plain; psz := 2; pal := 2; pty := TUInt |};
             {| pk := Varying; psz := 4; pal := 4; pty := TTrk |};
             {| pk := Plain; psz := 3; pal := 1; pty := TTrk |} ] in
  keep ctor_of (snd (fst (store L [[[2; 0]]; [[1; 1; 1; 1]; [2; 2; 2; 2]]; [[7; 7; 7]]] 0%nat (mfill 170) 8)))
    = [(12, 4); (16, 4); (20, 3)].
Proof. vm_compute. reflexivity. Qed.

(* HISTORY level (LifeHist.v).  One operation, any represented state, every well-formed list
   whose non-trivial types have a non-trivial constructor AND destructor and whose span sizes
   are of a trivially copyable type: the objects the operation constructs and destroys turn the
   objects held before into the objects held after - emplace_back constructs exactly the
   objects of the new element where it is placed; pop_back / clear / erase(first, end())
   destroy exactly the objects of the removed elements; a growing reserve constructs every
   object once in the new block (at its old offset) and destroys every object of the old block
   once, finding them through the load path in the MOVED-FROM source (the sizes of the spans
   are still there: relocate_elems_src, load_from_agree).  Objects are (block, offset, size);
   fresh block ids come from a counter. *)
Theorem C06_step_turns_held_objects_into_held_objects : forall L, wf_plist L = true ->
  (forall mv p, In p L -> ntc mv p = ntd p) -> cft L = true ->
  forall junk v nb s o offs,
  RepO L v (s_elems s) offs -> v_cap v = s_cap s -> svalid L (fixed_counts L (v_fixed v)) s o -> lt_ok s o ->
  (exists b0, v_bid v = Some b0 /\ (b0 < nb)%nat) ->
  let v' := fst (fst (lstep L junk (v, nb) o)) in
  let nb' := snd (fst (lstep L junk (v, nb) o)) in
  let evs := snd (lstep L junk (v, nb) o) in
  Rep L v' (s_elems (sstep s o)) /\ v_cap v' = s_cap (sstep s o) /\ v_fixed v' = v_fixed v /\
  (exists b0, v_bid v' = Some b0 /\ (b0 < nb')%nat) /\
  Permutation (live L v (s_elems s) ++ keep born evs) (keep died evs ++ live L v' (s_elems (sstep s o))).
Proof. exact lstep_balance. Qed.
Print Assumptions C06_step_turns_held_objects_into_held_objects.

(* a whole life: construction, ANY valid history (erase only up to the end), destruction:
   the constructions and the destructions coincide as multisets - every object constructed
   (by emplace_back or by a relocation) is destroyed exactly once, nothing else is *)
Theorem C06_whole_life_objects_balanced : forall L cap budget fixed aid junk bid tbid h,
  wf_plist L = true -> (forall mv p, In p L -> ntc mv p = ntd p) -> cft L = true ->
  0 <= cap -> Forall (fun c => 0 <= c) fixed ->
  let v0 := fst (mkvec L cap budget fixed aid junk bid tbid) in
  let s0 := {| s_cap := cap; s_elems := [] |} in
  shist_valid L (fixed_counts L fixed) s0 h -> lt_hist_ok s0 h ->
  let r := lrun L junk (v0, S (Nat.max bid tbid)) h in
  let evs := snd r ++ destroy L (fst (fst r)) in
  Permutation (keep born evs) (keep died evs).
Proof. exact whole_life_objects_balanced. Qed.
Print Assumptions C06_whole_life_objects_balanced.

(* ... and with erase() in the middle on lists WITHOUT a VaryingSize parameter (FixedLife.v):
   every following element is move-constructed into its new slot and its source destroyed;
   what was live in [to, n) dies, what is live afterwards in [to, n - removed) is born
   (lt_okx = (no VaryingSize) \/ lt_ok) *)
Theorem C06_whole_life_objects_balanced_weaker_restriction : forall L cap budget fixed aid junk bid tbid h,
  wf_plist L = true -> (forall mv p, In p L -> ntc mv p = ntd p) -> cft L = true ->
  0 <= cap -> Forall (fun c => 0 <= c) fixed ->
  let v0 := fst (mkvec L cap budget fixed aid junk bid tbid) in
  let s0 := {| s_cap := cap; s_elems := [] |} in
  shist_valid L (fixed_counts L fixed) s0 h -> lt_hist_okx L s0 h ->
  let r := lrun L junk (v0, S (Nat.max bid tbid)) h in
  let evs := snd r ++ destroy L (fst (fst r)) in
  Permutation (keep born evs) (keep died evs).
Proof. exact whole_life_objects_balanced_x. Qed.
Print Assumptions C06_whole_life_objects_balanced_weaker_restriction.

Theorem C06_whole_life_fixed_lists_every_history : forall L cap budget fixed aid junk bid tbid h,
  wf_plist L = true -> has_varying L = false -> (forall mv p, In p L -> ntc mv p = ntd p) -> cft L = true ->
  0 <= cap -> Forall (fun c => 0 <= c) fixed ->
  let v0 := fst (mkvec L cap budget fixed aid junk bid tbid) in
  let s0 := {| s_cap := cap; s_elems := [] |} in
  shist_valid L (fixed_counts L fixed) s0 h ->
  let r := lrun L junk (v0, S (Nat.max bid tbid)) h in
  let evs := snd r ++ destroy L (fst (fst r)) in
  Permutation (keep born evs) (keep died evs).
Proof. exact whole_life_fixed_list_every_history. Qed.
Print Assumptions C06_whole_life_fixed_lists_every_history.

(* one step: the objects the vector holds before, plus what the operation constructs, are
   what it destroys plus the objects the vector holds afterwards *)
Theorem C06_step_balance_weaker_restriction : forall L, wf_plist L = true ->
  (forall mv p, In p L -> ntc mv p = ntd p) -> cft L = true ->
  forall junk v nb s o offs,
  RepO L v (s_elems s) offs -> v_cap v = s_cap s -> svalid L (fixed_counts L (v_fixed v)) s o -> lt_okx L s o ->
  (exists b0, v_bid v = Some b0 /\ (b0 < nb)%nat) ->
  let v' := fst (fst (lstep L junk (v, nb) o)) in
  let nb' := snd (fst (lstep L junk (v, nb) o)) in
  let evs := snd (lstep L junk (v, nb) o) in
  Rep L v' (s_elems (sstep s o)) /\ v_cap v' = s_cap (sstep s o) /\ v_fixed v' = v_fixed v /\
  (exists b0, v_bid v' = Some b0 /\ (b0 < nb')%nat) /\
  Permutation (live L v (s_elems s) ++ keep born evs) (keep died evs ++ live L v' (s_elems (sstep s o))).
Proof. exact lstep_balance_x. Qed.
Print Assumptions C06_step_balance_weaker_restriction.

(* satisfiable: (uint32, FixedSize<Tracked 8-byte type> x 2), four elements, erase(1),
   erase(0, 1), reserve: 8 constructions by emplace_back, 2*2 + 2*2 by the two erases,
   2*2 by the relocation *)
Definition c06fL : list param :=
  [ {| pk := Plain; psz := 4; pal := 4; pty := TUInt |};
    {| pk := Fixed; psz := 8; pal := 8; pty := TTrk |} ].
Definition c06ft (b : Z) : tuple := [[[b; 0; 0; 0]]; [[b; 1; 0; 0; 0; 0; 0; 0]; [b; 2; 0; 0; 0; 0; 0; 0]]].
Definition c06fH : list sop :=
  [SEmplace (c06ft 1); SEmplace (c06ft 2); SEmplace (c06ft 3); SEmplace (c06ft 4); SErase 1; SEraseRange 0 1; SReserve 6 0].
Example C06_whole_life_fixed_lists_applies :
  wf_plist c06fL = true /\ has_varying c06fL = false /\ all_triv c06fL = false /\
  (forall mv p, In p c06fL -> ntc mv p = ntd p) /\ cft c06fL = true /\
  shist_valid c06fL (fixed_counts c06fL [2]) {| s_cap := 4; s_elems := [] |} c06fH /\
  ~ lt_hist_ok {| s_cap := 4; s_elems := [] |} c06fH /\
  (let r := lrun c06fL (fun _ => 170) (fst (mkvec c06fL 4 0 [2] 0 (fun _ => 170) 0%nat 1%nat), 2%nat) c06fH in
   length (keep born (snd r)) = 20%nat /\
   length (keep died (snd r ++ destroy c06fL (fst (fst r)))) = 20%nat).
Proof.
  split; [reflexivity|]. split; [reflexivity|]. split; [reflexivity|]. split.
  { intros mv p [<-|[<-|[]]]; destruct mv; reflexivity. }
  split; [reflexivity|]. split; [|split].
  - cbn. repeat split; try lia; try discriminate; repeat constructor.
  - cbn. intros (_ & _ & _ & _ & H & _). lia.
  - vm_compute. split; reflexivity.
Qed.

(* ---------- "its storage is never overwritten by another object while it is alive" ----------
   at the level of states: in EVERY represented state the objects a vector holds - every object
   of every selected field of every element - lie one behind the other inside
   [0, data_end()) of the block (LiveDisjoint.v: ochain), hence occupy pairwise disjoint byte
   ranges, and no object occurs twice: the multiset `live` of the balance theorems is a set *)
Theorem C06_held_objects_lie_one_behind_the_other : forall L, wf_plist L = true ->
  forall sel v l offs, RepO L v l offs -> ochain 0 (vobjs sel L offs l) (dend L v).
Proof. exact held_objects_chain. Qed.
Print Assumptions C06_held_objects_lie_one_behind_the_other.

Theorem C06_one_behind_the_other_means_disjoint : forall objs lo hi, ochain lo objs hi ->
  ForallOrdPairs (fun a b => fst a + snd a <= fst b) objs /\ NoDup objs /\
  Forall (fun b => lo <= fst b /\ fst b + snd b <= hi) objs.
Proof.
  intros objs lo hi H. split; [exact (ochain_disjoint _ _ _ H)|]. split; [exact (ochain_nodup _ _ _ H)|exact (ochain_all_ge _ _ _ H)].
Qed.
Print Assumptions C06_one_behind_the_other_means_disjoint.

Theorem C06_live_objects_form_a_set : forall L, wf_plist L = true ->
  forall v l offs, RepO L v l offs -> NoDup (live L v l).
Proof. exact live_nodup. Qed.
Print Assumptions C06_live_objects_form_a_set.

(* ... after every valid history from construction (NtRefine.nt_hist_okx) *)
Theorem C06_held_objects_disjoint_after_every_history : forall L cap budget fixed aid junk bid tbid h,
  wf_plist L = true -> 0 <= cap -> Forall (fun c => 0 <= c) fixed ->
  let v0 := fst (mkvec L cap budget fixed aid junk bid tbid) in
  let s0 := {| s_cap := cap; s_elems := [] |} in
  shist_valid L (fixed_counts L fixed) s0 h -> nt_hist_okx L s0 h ->
  let v := vrun L junk v0 h in
  let l := s_elems (srun s0 h) in
  exists offs, RepO L v l offs /\
    forall sel, ForallOrdPairs (fun a b => fst a + snd a <= fst b) (vobjs sel L offs l) /\
                Forall (fun b => 0 <= fst b /\ fst b + snd b <= dend L v) (vobjs sel L offs l).
Proof.
  intros L cap budget fixed aid junk bid tbid h Hwf Hcap Hfx. cbv zeta. intros Hv Hn.
  destruct (rep_every_history_nt L cap budget fixed aid junk bid tbid h Hwf Hcap Hfx Hv Hn) as [offs R].
  exists offs. split; [exact R|]. intros sel.
  pose proof (held_objects_chain L Hwf sel _ _ offs R) as H.
  split; [exact (ochain_disjoint _ _ _ H)|exact (ochain_all_ge _ _ _ H)].
Qed.
Print Assumptions C06_held_objects_disjoint_after_every_history.

(* the statement is about something: after the history of C06_whole_life_fixed_lists_applies the
   vector holds two elements with two instrumented 8-byte objects each, at 8, 16 and 32, 40 *)
Example C06_held_objects_disjoint_applies :
  let l := s_elems (srun {| s_cap := 4; s_elems := [] |} c06fH) in
  nt_hist_okx c06fL {| s_cap := 4; s_elems := [] |} c06fH /\
  vobjs (ntc true) c06fL (cpos c06fL 0 l) l = [(8, 8); (16, 8); (32, 8); (40, 8)].
Proof.
  cbv zeta. split; [apply nt_hist_okx_fixed; reflexivity|]. vm_compute. reflexivity.
Qed.

(* erase(first, first): no object is constructed, destroyed or touched, for every list and every
   position - also in the middle of a VaryingSize vector of non-trivial types, where a shift by
   zero elements would construct every following object on top of itself (seeded change C06m) *)
Theorem C06_erase_of_an_empty_range_touches_no_object : forall L v i, erase_range L v i i = (v, []).
Proof. exact erase_empty_range_identity. Qed.
Print Assumptions C06_erase_of_an_empty_range_touches_no_object.

(* ---------- the objects of a ContiguousElement ----------
   An element constructed from a reference (value_type{ref}: copy form, value_type{std::move(ref)}:
   move form) constructs - through the value type's copy / move constructor - exactly the objects
   of the fields whose constructor of that form is not trivial, at the placement of the tuple
   at offset 0 of its own block, and destroys nothing; its destructor destroys exactly the
   objects of the non-trivially destructible fields at those addresses.  When the value types
   are non-trivially constructible exactly when non-trivially destructible: every object of
   the element is constructed once and destroyed once. *)
Theorem C06_element_construction_constructs_each_object_once : forall L t fc, tuple_ok L fc 0 t -> forall mv ms a sb aid junk nb,
  let evs := snd (elem_from_ref mv L ms (ref_fl L t a) sb aid junk nb) in
  keep born evs = tag nb (eobjs (ntc mv) L 0 t) /\ keep died evs = [].
Proof. exact elem_from_ref_objects. Qed.
Print Assumptions C06_element_construction_constructs_each_object_once.

Theorem C06_element_destruction_destroys_each_object_once : forall L t fc, tuple_ok L fc 0 t -> forall e b, e_bid e = Some b -> e_fl e = ref_fl L t 0 ->
  keep died (elem_destroy L e) = tag b (eobjs ntd L 0 t) /\ keep born (elem_destroy L e) = [].
Proof. exact elem_destroy_objects. Qed.
Print Assumptions C06_element_destruction_destroys_each_object_once.

Theorem C06_element_life_balanced : forall L t fc, tuple_ok L fc 0 t -> forall mv ms a sb aid junk nb,
  (forall p, In p L -> ntc mv p = ntd p) ->
  let r := elem_from_ref mv L ms (ref_fl L t a) sb aid junk nb in
  let e := snd (fst r) in
  keep born (snd r) = keep died (elem_destroy L e) /\ keep died (snd r) = [] /\ keep born (elem_destroy L e) = [].
Proof. exact elem_life_balanced. Qed.
Print Assumptions C06_element_life_balanced.
