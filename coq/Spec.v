(* Spec.v — the oracle: a vector is a plain list of tuples.  Readable in minutes. *)
From Coq Require Import ZArith List Bool.
From Cntgs Require Import Base Layout Mem.
Import ListNotations.
Local Open Scope Z_scope.

(* a tuple: per parameter, the list of its objects; an object is its byte string *)
Definition tuple := list (list (list Z)).

(* operations of one vector's history *)
Inductive sop :=
| SEmplace (t : tuple)
| SPopBack
| SErase (i : Z)
| SEraseRange (i j : Z)
| SClear
| SReserve (n b : Z).

Record svec := { s_cap : Z; s_elems : list tuple }.

Definition remove_range {A} (i j : nat) (l : list A) : list A := firstn i l ++ skipn j l.

Definition sstep (s : svec) (o : sop) : svec :=
  match o with
  | SEmplace t => {| s_cap := s_cap s; s_elems := s_elems s ++ [t] |}
  | SPopBack => {| s_cap := s_cap s; s_elems := removelast (s_elems s) |}
  | SErase i => {| s_cap := s_cap s; s_elems := remove_range (Z.to_nat i) (S (Z.to_nat i)) (s_elems s) |}
  | SEraseRange i j => {| s_cap := s_cap s; s_elems := remove_range (Z.to_nat i) (Z.to_nat j) (s_elems s) |}
  | SClear => {| s_cap := s_cap s; s_elems := [] |}
  | SReserve n b => {| s_cap := Z.max (s_cap s) n; s_elems := s_elems s |}
  end.

(* shape of a tuple for list [L] with per-parameter fixed counts [fc]: every object has
   sizeof(T) bytes; a plain field has one object, a FixedSize field the fixed count, a
   VaryingSize field as many objects as the preceding (plain) field says *)
Fixpoint tuple_ok (L : list param) (fc : list Z) (prevc : Z) (t : tuple) : Prop :=
  match L, fc, t with
  | [], _, [] => True
  | p :: L', c :: fc', f :: t' =>
      Forall (fun o => length o = Z.to_nat (psz p)) f /\
      Z.of_nat (length f) = (match pk p with Plain => 1 | Fixed => c | Varying => prevc end) /\
      tuple_ok L' fc' (dec (hd [] f)) t'
  | _, _, _ => False
  end.

(* the documented preconditions *)
Definition svalid (L : list param) (fc : list Z) (s : svec) (o : sop) : Prop :=
  match o with
  | SEmplace t => Z.of_nat (length (s_elems s)) < s_cap s /\ tuple_ok L fc 0 t
  | SPopBack => s_elems s <> []
  | SErase i => 0 <= i < Z.of_nat (length (s_elems s))
  | SEraseRange i j => 0 <= i <= j /\ j <= Z.of_nat (length (s_elems s))
  | SClear => True
  | SReserve n b => True
  end.

Fixpoint shist_valid (L : list param) (fc : list Z) (s : svec) (h : list sop) : Prop :=
  match h with
  | [] => True
  | o :: h' => svalid L fc s o /\ shist_valid L fc (sstep s o) h'
  end.
