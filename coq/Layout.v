(* Layout.v — the layout calculus of contiguous, transcribed from
   src/cntgs/detail/parameterTraits.hpp and src/cntgs/detail/elementTraits.hpp.
   A parameter list is a VALUE here ([list param]); one theorem then covers every
   list the template machinery can be instantiated with.  Definitions only: the proofs
   are in LayoutThm.v so that the model still extracts and runs when a proof breaks. *)
From Coq Require Import ZArith List Bool.
From Cntgs Require Import Base.
Import ListNotations.
Local Open Scope Z_scope.

Inductive kind := Plain | Fixed | Varying.

(* pk: parameter kind; psz: sizeof(T) (VALUE_BYTES); pal: the A of AlignAs<T,A>
   (1 when there is no AlignAs) *)
(* value-type class of a parameter (what the library's type traits dispatch on):
   TBlob  trivially copyable class type with its own ==/< (bytewise lexicographic);
   TUInt / TSInt  unsigned / signed integral type wider than one byte;
   TU8 / TS8 / TByte  unsigned char / signed char / std::byte;
   TTrk   a type with non-trivial copy/move/destroy/assign/swap (instrumented);
   TTrkC  non-trivial copy/move constructors, trivial destructor (the reverse does not
          exist: std::is_trivially_*_constructible requires a trivial destructor);
   TTrkMA trivial but for a user-provided MOVE assignment operator (and an ADL swap):
          trivially copy-assignable, not trivially move-assignable;
   TTrkCA trivial but for a user-provided COPY assignment operator: trivially
          move-assignable (and trivially swappable), not trivially copy-assignable;
   TTrkCC trivial but for a user-provided COPY constructor: trivially move-constructible (the
          move constructor is defaulted), trivially destructible;
   TTrkMC trivial but for a user-provided MOVE constructor: trivially copy-constructible;
   TSw    trivially copyable in every respect (like TBlob) but with an ADL swap(T&, T&) that the
          harness instruments: not IS_TRIVIALLY_SWAPPABLE, swapped object by object;
   TFlt   float / double (psz 4 / 8): a fundamental type that is NOT integral - == and < are
          those of IEEE-754 values (+0 == -0 although the bytes differ), so it takes none of
          the memcmp fast paths.  NaN bit patterns are outside the modelled domain
          (Proxy.fkey; C13 itself demands a reflexive ==) *)
Inductive ty := TBlob | TUInt | TSInt | TU8 | TS8 | TByte | TTrk | TTrkC | TTrkMA | TTrkCA | TFlt | TTrkCC | TTrkMC | TSw.

Record param := { pk : kind; psz : Z; pal : Z; pty : ty }.

Definition kind_eqb (a b : kind) : bool :=
  match a, b with Plain, Plain | Fixed, Fixed | Varying, Varying => true | _, _ => false end.
Definition is_varying (p : param) : bool := kind_eqb (pk p) Varying.
Definition is_fixed (p : param) : bool := kind_eqb (pk p) Fixed.
Definition is_plain (p : param) : bool := kind_eqb (pk p) Plain.

(* -------- well-formed lists --------
   non-empty; sizeof >= 1; alignment a power of two; the first parameter is not
   VaryingSize (static_assert, elementTraits.hpp:61) and every VaryingSize parameter is
   preceded by a plain one, whose value the library reads as the span length
   (sizeGetter.hpp:60-63). *)
Definition wf_param (p : param) : bool := (1 <=? psz p) && is_pow2b (pal p).
Fixpoint wf_varying (prev_plain : bool) (L : list param) : bool :=
  match L with
  | [] => true
  | p :: L' => (if is_varying p then prev_plain else true) && wf_varying (is_plain p) L'
  end.
Definition wf_plist (L : list param) : bool :=
  match L with [] => false | _ => forallb wf_param L && wf_varying false L end.

(* -------- elementTraits.hpp:69-93 -------- *)
(* LARGEST_ALIGNMENT_BETWEEN_VARYING_SIZES: [n] is the number of array slots of the
   current group that are still to be filled, [acc] the running maximum *)
Fixpoint lgroups (L : list param) (acc : Z) (n : nat) : list Z :=
  match L with
  | [] => repeat acc n
  | p :: L' =>
      let acc' := Z.max acc (pal p) in
      if is_varying p then repeat acc' (S n) ++ lgroups L' 0 O
      else lgroups L' acc' (S n)
  end.
Definition largest (L : list param) : list Z := lgroups L 0 O.
(* STORAGE_ELEMENT_ALIGNMENT *)
Definition SA (L : list param) : Z := fold_right Z.max 0 (largest L).

(* -------- parameterTraits.hpp:81-97, 317-324, 386-393 --------
   ParameterTraits<P>::trailing_alignment(offset, alignment) -> {offset, bracket, trailing} *)
Definition tr_step (p : param) (st : Z * Z) : (Z * Z) * Z :=
  let '(off, br) := st in
  match pk p with
  | Plain =>
      let no := if br <? pal p then psz p
                else off + (align_up off (pal p) - off + psz p) in
      let br' := Z.max br (pal p) in
      ((no, br'), tr_align no br')
  | _ =>
      let ao := align_up off (pal p) in
      let br' := Z.max br (pal p) in
      let leading := Z.max (pal p) (tr_align ao br') in
      let t := tr_align (psz p) leading in
      ((0, t), t)
  end.

(* calculate_trailing_alignments (elementTraits.hpp:97-109) *)
Fixpoint trails_from (L : list param) (st : Z * Z) : list Z :=
  match L with
  | [] => []
  | p :: L' => let '(st', t) := tr_step p st in t :: trails_from L' st'
  end.
Definition trails (L : list param) : list Z := trails_from L (0, SA L).

(* previous_trailing_alignment<K> (elementTraits.hpp:167-178); also used with
   K = sizeof...(Parameter) by align_for_first_parameter *)
Definition prev_tr (L : list param) (k : nat) : Z :=
  match k with O => SA L | S k' => nth k' (trails L) 0 end.
(* next_alignment<K> (elementTraits.hpp:154-165) *)
Definition next_al (L : list param) (k : nat) : Z :=
  if Nat.eqb (S k) (length L) then SA L else nth (S k) (largest L) 0.

Definition align_if (c : bool) (a x : Z) : Z := if c then align_up x a else x.

(* -------- parameterTraits.hpp:99-119, 326-344, 395-416 --------
   aligned_size_in_memory<Prev,Next>(offset, alignment, fixed_size)
     -> {offset, size, padding, alignment} *)
Definition asz (p : param) (prev next off al fixed : Z) : Z * Z * Z * Z :=
  match pk p with
  | Varying =>
      let ao := if al <? pal p then align_up off al + pal p - al
                else align_if (prev <? pal p) (pal p) off in
      let tr := Z.min al (tr_align (psz p) (lowbit ao)) in
      let nd := if tr <? next then next - tr else 0 in
      (0, ao - off, nd, tr)
  | k =>
      let vs := match k with Fixed => psz p * fixed | _ => psz p end in
      let '(no, sz) :=
        if al <? pal p then
          let ao := align_up off al + pal p - al in (vs, ao - off + vs)
        else
          let ao := align_if (prev <? pal p) (pal p) off in
          let sz := ao - off + vs in (off + sz, sz) in
      let po := align_if (tr_align (psz p) (pal p) <? next) next no in
      (no, sz, po - no, Z.max al (pal p))
  end.

(* SizeGetter::get_fixed_size<I>: the i-th FixedSize parameter uses fixed[i] *)
Fixpoint fixed_counts (L : list param) (fixed : list Z) : list Z :=
  match L with
  | [] => []
  | p :: L' =>
      if is_fixed p then hd 0 fixed :: fixed_counts L' (tl fixed)
      else 0 :: fixed_counts L' fixed
  end.

(* calculate_element_size (elementTraits.hpp:256-279): fold, keeping only the last
   parameter's padding *)
Fixpoint esize_from (L0 L : list param) (k : nat) (fc : list Z) (size off pad al : Z) : Z * Z :=
  match L with
  | [] => (size, size + pad)
  | p :: L' =>
      let '(no, nsz, npad, nal) := asz p (prev_tr L0 k) (next_al L0 k) off al (hd 0 fc) in
      esize_from L0 L' (S k) (tl fc) (size + nsz) no npad nal
  end.
Definition esize (L : list param) (fixed : list Z) : Z * Z :=
  esize_from L L O (fixed_counts L fixed) 0 0 0 (SA L).

(* calculate_needed_memory_size (elementTraits.hpp:281-287) *)
Definition needed (n b : Z) (sz : Z * Z) : Z :=
  let '(size, stride) := sz in
  let padding := if n =? 0 then 0 else stride - size in
  b + stride * n - padding.

(* allocate_memory (elementTraits.hpp:217-224): number of Aligned<SA> units *)
Definition units (L : list param) (bytes : Z) : Z :=
  bytes / SA L + (if bytes mod SA L =? 0 then 0 else 1).

(* AllFixedSizeElementLocator::calculate_new_memory_size (elementLocator.hpp:278-282) *)
Definition needed_grow_fixed (n b stride : Z) : Z := b + stride * n.

(* -------- placement: emplace_at / load_element_at (elementTraits.hpp:190-254) --------
   [cnts]: object count of every parameter (1 for plain ones).  Field k goes to
   a_k := align_if (prev_tr k < pal_k) a, and occupies cnt_k * psz_k bytes. *)
Fixpoint place_from (L : list param) (prevs : list Z) (cnts : list Z) (a : Z) : list Z * Z :=
  match L, prevs, cnts with
  | p :: L', pt :: prevs', c :: cnts' =>
      let a' := align_if (pt <? pal p) (pal p) a in
      let '(r, e) := place_from L' prevs' cnts' (a' + c * psz p) in
      (a' :: r, e)
  | _, _, _ => ([], a)
  end.
Definition prevs (L : list param) : list Z := SA L :: trails L.
(* field addresses and end address of an element stored at [a] *)
Definition place (L : list param) (cnts : list Z) (a : Z) : list Z * Z :=
  place_from L (prevs L) cnts a.

(* align_for_first_parameter (elementTraits.hpp:226-230) *)
Definition first_align (L : list param) (a : Z) : Z :=
  align_if (prev_tr L (length L) <? SA L) (SA L) a.

(* object counts of an element: 1 for plain, fixed[i] for FixedSize, the given
   varying counts (in order) for VaryingSize *)
Fixpoint counts (L : list param) (fixed vary : list Z) : list Z :=
  match L with
  | [] => []
  | p :: L' =>
      match pk p with
      | Plain => 1 :: counts L' fixed vary
      | Fixed => hd 0 fixed :: counts L' (tl fixed) vary
      | Varying => hd 0 vary :: counts L' fixed (tl vary)
      end
  end.

(* bytes of varying payload of an element *)
Fixpoint vbytes (L : list param) (cnts : list Z) : Z :=
  match L, cnts with
  | p :: L', c :: cnts' => (if is_varying p then c * psz p else 0) + vbytes L' cnts'
  | _, _ => 0
  end.

Definition has_varying (L : list param) : bool := existsb is_varying L.
