(* LifeThm.v — object lifetimes at element level (C06): emplace constructs exactly one
   object per stored object of a non-trivially-constructible field, at the address the
   placement assigns to it; destruction destroys exactly the objects of the
   non-trivially-destructible fields, at the same addresses. *)
From Coq Require Import ZArith Lia List Bool.
From Cntgs Require Import Base BaseLemmas Layout LayoutThm Mem MemLemmas Vector Spec Rep ElemLemmas.
Import ListNotations.
Local Open Scope Z_scope.

(* addresses of the objects of the fields selected by [sel], field k at xs_k with cnts_k objects *)
Fixpoint obj_addrs (sel : param -> bool) (L : list param) (xs cnts : list Z) : list (Z * Z) :=
  match L, xs, cnts with
  | p :: L', x :: xs', c :: cnts' =>
      (if sel p then map (fun j => (x + Z.of_nat j * psz p, psz p)) (seq 0 (Z.to_nat c)) else [])
        ++ obj_addrs sel L' xs' cnts'
  | _, _, _ => []
  end.

Definition ctor_of (e : ev) : option (Z * Z) :=
  match e with ECtor _ o s | ECopyC _ o s _ _ | EMoveC _ o s _ _ => Some (o, s) | _ => None end.
Definition dtor_of (e : ev) : option (Z * Z) :=
  match e with EDtor _ o s => Some (o, s) | _ => None end.
Fixpoint keep {A B} (f : A -> option B) (l : list A) : list B :=
  match l with [] => [] | x :: r => match f x with Some y => y :: keep f r | None => keep f r end end.

Lemma keep_app {A B} (f : A -> option B) a b : keep f (a ++ b) = keep f a ++ keep f b.
Proof. induction a as [|x a IH]; cbn; [reflexivity|]. destruct (f x); cbn; now rewrite IH. Qed.

Lemma keep_obj_events_ctor bid a sz n :
  keep ctor_of (obj_events (fun x => ECtor bid x sz) a sz n) = map (fun j => (a + Z.of_nat j * sz, sz)) (seq 0 n).
Proof. unfold obj_events. induction (seq 0 n) as [|j l IH]; cbn; [reflexivity|]. now rewrite IH. Qed.
Lemma keep_obj_events_dtor bid a sz n :
  keep dtor_of (obj_events (fun x => EDtor bid x sz) a sz n) = map (fun j => (a + Z.of_nat j * sz, sz)) (seq 0 n).
Proof. unfold obj_events. induction (seq 0 n) as [|j l IH]; cbn; [reflexivity|]. now rewrite IH. Qed.
Lemma keep_obj_events_none_d bid a sz n : keep dtor_of (obj_events (fun x => ECtor bid x sz) a sz n) = [].
Proof. unfold obj_events. induction (seq 0 n) as [|j l IH]; cbn; auto. Qed.

(* emplace_at: the constructions reported are exactly the objects of the
   non-trivially-constructible fields, in order, at the placed addresses *)
Theorem store_from_constructs L : forall pv vals bid m a,
  (length L <= length pv)%nat -> length vals = length L ->
  keep ctor_of (snd (fst (store_from L pv vals bid m a))) =
    obj_addrs (ntc false) L (fst (place_from L pv (cnts_of vals) a)) (cnts_of vals).
Proof.
  induction L as [|p L IH]; intros pv vals bid m a Hl Hv; [reflexivity|].
  destruct pv as [|pt pv]; [cbn in Hl; lia|]. destruct vals as [|f vals]; [discriminate|].
  cbn [store_from cnts_of map]. fold (cnts_of vals). rewrite place_from_cons. cbn [fst obj_addrs].
  specialize (IH pv vals bid (mwrite m (align_if (pt <? pal p) (pal p) a) (concat f))
                 (align_if (pt <? pal p) (pal p) a + Z.of_nat (length f) * psz p)
                 ltac:(cbn in Hl; lia) ltac:(cbn in Hv; lia)).
  destruct (store_from L pv vals bid _ _) as [[m2 evs2] e]. cbn [fst snd] in *.
  rewrite keep_app, IH. f_equal. destruct (ntc _ p); [|reflexivity].
  rewrite keep_obj_events_ctor, Nat2Z.id. reflexivity.
Qed.

(* ElementTraits::destruct: exactly the objects of the non-trivially-destructible fields *)
Theorem destruct_fields_destroys L : forall xs cnts bid m,
  length xs = length L -> length cnts = length L ->
  keep dtor_of (snd (destruct_fields L (combine xs cnts) bid m)) = obj_addrs ntd L xs cnts.
Proof.
  induction L as [|p L IH]; intros xs cnts bid m Hx Hc; [reflexivity|].
  destruct xs as [|x xs]; [discriminate|]. destruct cnts as [|c cnts]; [discriminate|].
  cbn [combine destruct_fields obj_addrs].
  specialize (IH xs cnts bid (if ntd p then scribble m x (psz p) (Z.to_nat c) (dead_bytes (psz p)) else m)
                 ltac:(cbn in Hx; lia) ltac:(cbn in Hc; lia)).
  destruct (destruct_fields L (combine xs cnts) bid _) as [m2 evs2]. cbn [snd] in *.
  rewrite keep_app, IH. f_equal. destruct (ntd p); [|reflexivity]. apply keep_obj_events_dtor.
Qed.

(* Constructed once, destroyed once: for a list whose non-trivial types have both a
   non-trivial constructor and destructor, destroying an element that was just stored at
   an SA-aligned address destroys exactly the objects its emplacement constructed — found
   again through the LOAD path (counts read back from memory). *)
Theorem emplace_then_destruct_balanced L fixed t bid m a :
  wf_plist L = true -> (forall mv p, In p L -> ntc mv p = ntd p) ->
  tuple_ok L (fixed_counts L fixed) 0 t ->
  let r := store L t bid m a in
  let m' := fst (fst r) in
  keep ctor_of (snd (fst r)) = keep dtor_of (snd (destruct_fields L (fst (load L fixed m' a)) bid m')).
Proof.
  intros Hwf Hsame Ht. cbv zeta.
  pose proof (wf_plist_Forall _ Hwf) as HF.
  assert (Hlen : (length L <= length (prevs L))%nat).
  { unfold prevs, trails. cbn [length]. rewrite trails_from_length. lia. }
  pose proof (store_from_spec L (prevs L) t bid m a _ 0 HF Ht Hlen) as Hs. cbv zeta in Hs.
  destruct Hs as (_ & Hel & _ & _).
  unfold store. rewrite store_from_constructs by (auto; eapply tuple_ok_length; eauto).
  unfold load.
  rewrite (load_from_spec L (prevs L) _ _ a t 0 0 false HF); auto.
  - cbn [fst]. rewrite destruct_fields_destroys.
    + clear - Hsame. revert Hsame. generalize (fst (place_from L (prevs L) (cnts_of t) a)). generalize (cnts_of t).
      induction L as [|p L IH]; intros cnts xs Hs; [reflexivity|].
      destruct xs as [|x xs]; [reflexivity|]. destruct cnts as [|c cnts]; [reflexivity|].
      cbn [obj_addrs]. rewrite (Hs false p ltac:(left; reflexivity)). f_equal. apply IH. intros mv' q Hq. apply Hs. right; exact Hq.
    + pose proof (place_chain L (cnts_of t) a) as _. 
      assert (Hl2 : length (fst (place_from L (prevs L) (cnts_of t) a)) = length L).
      { pose proof (tuple_ok_length _ _ _ _ Ht) as Htl. clear - Hlen Htl. unfold cnts_of. revert Hlen Htl. generalize (prevs L). generalize t. generalize a.
        induction L as [|p L IH]; intros a0 t0 pv Hl Htl; [reflexivity|].
        destruct pv as [|pt pv]; [cbn in Hl; lia|]. destruct t0 as [|f t0]; [discriminate|].
        cbn [map]. rewrite place_from_cons. cbn [fst length]. f_equal.
        apply IH; [cbn [length] in Hl; lia|cbn [length] in Htl; lia]. }
      exact Hl2.
    + unfold cnts_of. rewrite map_length. eapply tuple_ok_length; eauto.
  - unfold wf_plist in Hwf. destruct L; [discriminate|]. apply andb_true_iff in Hwf. tauto.
  - destruct L; auto.
Qed.
