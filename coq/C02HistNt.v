(* C02HistNt.v — C02 / C10 at history level for EVERY well-formed list with a benign tail,
   non-trivial value types included (erase with elements behind the erased ones only on
   trivially relocatable lists): same invariant as C02Hist.v, carried by NtRefine.vstep_rep_nt. *)
From Coq Require Import ZArith Lia List Bool.
From Cntgs Require Import Base BaseLemmas Layout LayoutThm Mem MemLemmas Vector Spec Rep ElemLemmas Ordered
  EsizeThm Refine C02Thm NeededThm TightThm C02Hist NtRefine FixedErase.
Import ListNotations.
Local Open Scope Z_scope.

Section HistNt.
  Variable L : list param.
  Hypothesis Hwf : wf_plist L = true.
  Hypothesis Htl : tail_ok (SA L) true L = true.

  Let HF : Forall wfp L := wf_plist_Forall L Hwf.
  Let Hne : L <> [] := wf_plist_nonempty L Hwf.
  Let HSp : 0 < SA L := pow2_pos _ (SA_pow2 L HF Hne).

  (* what a step does to the stride and to the size of the block, every list *)
  Lemma vstep_frame_nt junk v s o : Rep L v (s_elems s) ->
    svalid L (fixed_counts L (v_fixed v)) s o -> nt_ok L s o ->
    v_stride (vstep L junk v o) = v_stride v /\
    v_units (vstep L junk v o) =
      match o with
      | SReserve n b =>
          if v_cap v <? n then
            units L (if has_varying L then needed n b (esize L (v_fixed v)) else needed_grow_fixed n b (v_stride v))
          else v_units v
      | _ => v_units v
      end.
  Proof.
    intros R Hv [Ht|Hnt].
    { exact (vstep_frame L Ht junk v o). }
    destruct (all_triv L) eqn:Ht.
    { exact (vstep_frame L Ht junk v o). }
    assert (Esm : set_mem v (v_mem v) = v) by (destruct v; reflexivity).
    destruct R as [offs R].
    pose proof (rep_vsize L v _ offs R) as Hsz.
    assert (Hres : forall w n, v_stride (resize L w n) = v_stride w /\ v_units (resize L w n) = v_units w).
    { intros w n. unfold resize. destruct (has_varying L); [destruct (n <? _)|]; split; reflexivity. }
    destruct o as [t| |i|i j| |n b]; cbn [vstep svalid] in *.
    - unfold emplace_back. destruct (has_varying L); destruct (store _ _ _ _ _) as [[m evs] e]; cbn; auto.
    - unfold pop_back.
      assert (Hn : (0 < length (s_elems s))%nat) by (destruct (s_elems s); [congruence|cbn; lia]).
      rewrite Hsz. replace (Z.of_nat (length (s_elems s)) - 1) with (Z.of_nat (Init.Nat.pred (length (s_elems s)))) by lia.
      destruct (destruct_elem_mem L Hwf v _ offs (Init.Nat.pred (length (s_elems s))) (v_mem v) R ltac:(lia) ltac:(auto)) as (m' & E & _).
      rewrite Esm in E. destruct (destruct_elem L v _) as [v1 e1]. cbn [fst] in *. subst v1.
      destruct (Hres (set_mem v m') (Z.of_nat (Init.Nat.pred (length (s_elems s))))) as [A B]. rewrite A, B. split; reflexivity.
    - assert (Hi : i = Z.of_nat (Init.Nat.pred (length (s_elems s)))) by lia.
      unfold erase. rewrite Hsz.
      destruct (destruct_elem_mem L Hwf v _ offs (Init.Nat.pred (length (s_elems s))) (v_mem v) R ltac:(lia) ltac:(auto)) as (m' & E & _).
      rewrite Esm in E. rewrite <- Hi in E.
      destruct (destruct_elem L v i) as [v1 e1]. cbn [fst] in *. subst v1.
      rewrite (move_forward_none L (set_mem v m') (i + 1) i Ht) by (change (vsize L (set_mem v m')) with (vsize L v); lia).
      cbn [fst]. destruct (Hres (set_mem v m') (Z.of_nat (length (s_elems s)) - 1)) as [A B]. rewrite A, B. split; reflexivity.
    - destruct Hv as [Hi Hj]. subst j. unfold erase_range. rewrite Hsz.
      replace (Z.of_nat (length (s_elems s)) <? Z.of_nat (length (s_elems s))) with false by (symmetry; apply Z.ltb_irrefl).
      cbn [andb].
      destruct (all_dtriv L).
      + cbn [fst]. apply Hres.
      + destruct (destruct_range_mem L Hwf v _ offs R (Z.to_nat (Z.of_nat (length (s_elems s)) - i)) (Z.to_nat i) (v_mem v) ltac:(lia) ltac:(auto)) as (m' & E & _).
        rewrite Esm in E. rewrite Z2Nat.id in E by lia.
        destruct (destruct_range L v i _) as [v1 e1]. cbn [fst] in *. subst v1.
        destruct (Hres (set_mem v m') (Z.of_nat (length (s_elems s)) - (Z.of_nat (length (s_elems s)) - i))) as [A B]. rewrite A, B. split; reflexivity.
    - unfold clear. rewrite Hsz, Nat2Z.id.
      destruct (all_dtriv L).
      + cbn [fst]. apply Hres.
      + destruct (destruct_range_mem L Hwf v _ offs R (length (s_elems s)) 0 (v_mem v) ltac:(lia) ltac:(auto)) as (m' & E & _).
        rewrite Esm in E. change (Z.of_nat 0) with 0 in E.
        destruct (destruct_range L v 0 _) as [v1 e1]. cbn [fst] in *. subst v1.
        destruct (Hres (set_mem v m') 0) as [A B]. rewrite A, B. split; reflexivity.
    - unfold reserve. destruct (v_cap v <? n); [|cbn; auto].
      destruct (insert_into true true L v 0 junk) as [[v1 m] e1]. cbn. auto.
  Qed.

  (* the step of the invariant, given what the operation does to the representation and to
     the stride / block size *)
  Lemma binv_step_core junk v s B o : BInv L v s B ->
    svalid L (fixed_counts L (v_fixed v)) s o -> bvalid L s B o ->
    (Rep L (vstep L junk v o) (s_elems (sstep s o)) /\ v_cap (vstep L junk v o) = s_cap (sstep s o) /\
     v_fixed (vstep L junk v o) = v_fixed v) ->
    (v_stride (vstep L junk v o) = v_stride v /\
     v_units (vstep L junk v o) =
       match o with
       | SReserve n b =>
           if v_cap v <? n then
             units L (if has_varying L then needed n b (esize L (v_fixed v)) else needed_grow_fixed n b (v_stride v))
           else v_units v
       | _ => v_units v
       end) ->
    BInv L (vstep L junk v o) (sstep s o) (bstep s B o).
  Proof.
    intros (R & Hc & Hc0 & HB & Hp & Hfx & Hstr & Hblk) Hv Hbv (R' & Hc' & Hf) [Est Eun].
    destruct (esize_signs L Hwf Htl _ Hfx) as [Hs Hst].
    assert (HT : Forall (tuple_ok L (fixed_counts L (v_fixed v)) 0) (s_elems s)).
    { destruct R as [offs R]. exact (r_tuples _ _ _ _ R). }
    unfold BInv. rewrite Hf, Est. split; [exact R'|]. split; [exact Hc'|].
    destruct o as [t| |i|i j| |n b]; cbn [sstep bstep s_cap s_elems bvalid svalid] in *.
    - rewrite Hc', Eun. rewrite <- ?Hc. repeat split; auto; lia.
    - rewrite Hc', Eun. rewrite <- ?Hc. repeat split; auto; try lia.
      pose proof (tpayload_removelast L Hwf _ _ HT). lia.
    - rewrite Hc', Eun. rewrite <- ?Hc. repeat split; auto; try lia.
      pose proof (tpayload_remove_range L Hwf _ (Z.to_nat i) (S (Z.to_nat i)) _ HT ltac:(lia)). lia.
    - rewrite Hc', Eun. rewrite <- ?Hc. repeat split; auto; try lia.
      pose proof (tpayload_remove_range L Hwf _ (Z.to_nat i) (Z.to_nat j) _ HT ltac:(lia)). lia.
    - rewrite Hc', Eun. rewrite <- ?Hc. repeat split; auto; try lia; try (unfold tpayload, payload; cbn; lia).
    - destruct Hbv as [Hb0 Hbv]. rewrite Hc', Eun. rewrite <- Hc. destruct (Z.ltb_spec (v_cap v) n) as [Hlt|Hge].
      + rewrite Z.max_r by lia. repeat split; auto; try lia.
        destruct (has_varying L) eqn:Hv'.
        * apply units_ge; auto. apply needed_nonneg; auto; lia.
        * rewrite (Hstr eq_refl). unfold needed_grow_fixed.
          eapply Z.le_trans; [|apply units_ge; auto].
          -- (* stride >= size for lists without VaryingSize parameter *)
             assert (Hge : fst (esize L (v_fixed v)) <= snd (esize L (v_fixed v))).
             { pose proof (fixed_counts_nonneg L _ Hfx) as Hfc.
               destruct (esize_spec L Hwf Hv' (v_fixed v) (canon_cnts L (fixed_counts L (v_fixed v))) 0) as [_ E]; try lia.
               - apply canon_cnts_match; auto. rewrite fixed_counts_length. lia.
               - apply Z.divide_0_r.
               - rewrite E. pose proof (esize_spec L Hwf Hv' (v_fixed v) (canon_cnts L (fixed_counts L (v_fixed v))) 0) as E2.
                 destruct E2 as [E1 _]; try lia.
                 + apply canon_cnts_match; auto. rewrite fixed_counts_length. lia.
                 + apply Z.divide_0_r.
                 + rewrite E1. apply align_up_ge. exact HSp. }
             unfold needed. destruct (esize L (v_fixed v)) as [size stride]. cbn [fst snd] in *.
             destruct (n =? 0); lia.
          -- assert (0 <= snd (esize L (v_fixed v)) * n) by (apply Z.mul_nonneg_nonneg; lia). lia.
      + rewrite Z.max_l by lia. repeat split; auto; lia.
  Qed.

  Theorem binv_step_nt junk v s B o : BInv L v s B ->
    svalid L (fixed_counts L (v_fixed v)) s o -> bvalid L s B o -> nt_ok L s o ->
    BInv L (vstep L junk v o) (sstep s o) (bstep s B o).
  Proof.
    intros HI Hv Hbv Hnt. pose proof HI as (R & Hc & _).
    apply binv_step_core; auto.
    - exact (vstep_rep_nt L Hwf junk v s o R Hc Hv Hnt).
    - exact (vstep_frame_nt junk v s o R Hv Hnt).
  Qed.

  (* lists without a VaryingSize parameter: every operation (FixedErase.v) *)
  Lemma vstep_frame_ntx junk v s o : Rep L v (s_elems s) ->
    svalid L (fixed_counts L (v_fixed v)) s o -> nt_okx L s o ->
    v_stride (vstep L junk v o) = v_stride v /\
    v_units (vstep L junk v o) =
      match o with
      | SReserve n b =>
          if v_cap v <? n then
            units L (if has_varying L then needed n b (esize L (v_fixed v)) else needed_grow_fixed n b (v_stride v))
          else v_units v
      | _ => v_units v
      end.
  Proof.
    intros R Hv [Hnv|Hn]; [|exact (vstep_frame_nt junk v s o R Hv Hn)].
    destruct (all_triv L) eqn:Ht.
    { exact (vstep_frame L Ht junk v o). }
    destruct o as [t| |i|i j| |n b]; try (exact (vstep_frame_nt junk v s _ R Hv (or_intror I))).
    - cbn [svalid] in Hv.
      destruct (Z.eq_dec (i + 1) (Z.of_nat (length (s_elems s)))) as [E|E].
      { exact (vstep_frame_nt junk v s (SErase i) R Hv (or_intror E)). }
      destruct R as [offs R]. cbn [vstep].
      pose proof (erase_rep_fixed_nt L Hwf Hnv Ht v _ offs R (Z.to_nat i) ltac:(lia)) as H.
      rewrite Z2Nat.id in H by lia. cbv zeta in H. destruct H as (_ & _ & _ & _ & H1 & H2). auto.
    - destruct (Z.eq_dec j (Z.of_nat (length (s_elems s)))) as [E|E].
      { exact (vstep_frame_nt junk v s (SEraseRange i j) R Hv (or_intror E)). }
      cbn [svalid] in Hv. destruct Hv as [Hi Hj].
      destruct R as [offs R]. cbn [vstep].
      pose proof (erase_range_rep_fixed_nt L Hwf Hnv Ht v _ offs R (Z.to_nat i) (Z.to_nat j)
                    ltac:(lia) ltac:(left; lia) ltac:(lia)) as H.
      rewrite !Z2Nat.id in H by lia. cbv zeta in H. destruct H as (_ & _ & _ & _ & H1 & H2). auto.
  Qed.

  Theorem binv_step_ntx junk v s B o : BInv L v s B ->
    svalid L (fixed_counts L (v_fixed v)) s o -> bvalid L s B o -> nt_okx L s o ->
    BInv L (vstep L junk v o) (sstep s o) (bstep s B o).
  Proof.
    intros HI Hv Hbv Hnt. pose proof HI as (R & Hc & _).
    apply binv_step_core; auto.
    - exact (vstep_rep_ntx L Hwf junk v s o R Hc Hv Hnt).
    - exact (vstep_frame_ntx junk v s o R Hv Hnt).
  Qed.

  Theorem binv_run_ntx junk h : forall v s B, BInv L v s B ->
    shist_valid L (fixed_counts L (v_fixed v)) s h -> bhist_valid L s B h -> nt_hist_okx L s h ->
    exists B', BInv L (vrun L junk v h) (srun s h) B'.
  Proof.
    induction h as [|o h IH]; intros v s B HI Hv Hb Hn; cbn [vrun srun shist_valid bhist_valid nt_hist_okx] in *; [eauto|].
    destruct Hv as [Hv1 Hv2]. destruct Hb as [Hb1 Hb2]. destruct Hn as [Hn1 Hn2].
    pose proof (binv_step_ntx junk v s B o HI Hv1 Hb1 Hn1) as HI'.
    eapply IH; eauto.
    destruct HI as (R & Hc & _).
    destruct (vstep_rep_ntx L Hwf junk v s o R Hc Hv1 Hn1) as (_ & _ & Hf). rewrite Hf. exact Hv2.
  Qed.

  Theorem binv_run_nt junk h : forall v s B, BInv L v s B ->
    shist_valid L (fixed_counts L (v_fixed v)) s h -> bhist_valid L s B h -> nt_hist_ok L s h ->
    exists B', BInv L (vrun L junk v h) (srun s h) B'.
  Proof.
    induction h as [|o h IH]; intros v s B HI Hv Hb Hn; cbn [vrun srun shist_valid bhist_valid nt_hist_ok] in *; [eauto|].
    destruct Hv as [Hv1 Hv2]. destruct Hb as [Hb1 Hb2]. destruct Hn as [Hn1 Hn2].
    pose proof (binv_step_nt junk v s B o HI Hv1 Hb1 Hn1) as HI'.
    eapply IH; eauto.
    destruct HI as (R & Hc & _).
    destruct (vstep_rep_nt L Hwf junk v s o R Hc Hv1 Hn1) as (_ & _ & Hf). rewrite Hf. exact Hv2.
  Qed.
End HistNt.

Theorem every_element_inside_block_every_history_nt : forall L cap budget fixed aid junk bid tbid h,
  wf_plist L = true -> tail_ok (SA L) true L = true ->
  0 <= cap -> 0 <= budget -> Forall (fun c => 0 <= c) fixed ->
  let v0 := fst (mkvec L cap budget fixed aid junk bid tbid) in
  let s0 := {| s_cap := cap; s_elems := [] |} in
  shist_valid L (fixed_counts L fixed) s0 h -> bhist_valid L s0 budget h -> nt_hist_ok L s0 h ->
  let v := vrun L junk v0 h in
  let l := s_elems (srun s0 h) in
  exists offs, RepO L v l offs /\
    Forall2 (fun a t => 0 <= a /\ elem_end L a t <= SA L * v_units v) offs l.
Proof.
  intros L cap budget fixed aid junk bid tbid h Hwf Htl Hcap Hb Hfx. cbv zeta. intros Hv Hbv Hn.
  pose proof (binv_init L Hwf Htl cap budget fixed aid junk bid tbid Hcap Hb Hfx) as H0.
  destruct (binv_run_nt L Hwf Htl junk h _ _ _ H0) as [B' HI]; auto.
  eapply binv_in_block; eauto.
Qed.

(* ... with the weaker restriction: none at all on lists without a VaryingSize parameter *)
Theorem every_element_inside_block_every_history_ntx : forall L cap budget fixed aid junk bid tbid h,
  wf_plist L = true -> tail_ok (SA L) true L = true ->
  0 <= cap -> 0 <= budget -> Forall (fun c => 0 <= c) fixed ->
  let v0 := fst (mkvec L cap budget fixed aid junk bid tbid) in
  let s0 := {| s_cap := cap; s_elems := [] |} in
  shist_valid L (fixed_counts L fixed) s0 h -> bhist_valid L s0 budget h -> nt_hist_okx L s0 h ->
  let v := vrun L junk v0 h in
  let l := s_elems (srun s0 h) in
  exists offs, RepO L v l offs /\
    Forall2 (fun a t => 0 <= a /\ elem_end L a t <= SA L * v_units v) offs l.
Proof.
  intros L cap budget fixed aid junk bid tbid h Hwf Htl Hcap Hb Hfx. cbv zeta. intros Hv Hbv Hn.
  pose proof (binv_init L Hwf Htl cap budget fixed aid junk bid tbid Hcap Hb Hfx) as H0.
  destruct (binv_run_ntx L Hwf Htl junk h _ _ _ H0) as [B' HI]; auto.
  eapply binv_in_block; eauto.
Qed.
