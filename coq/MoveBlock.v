(* MoveBlock.v — the block a move-assigned vector owns afterwards (C02, assignment clause).
   Whatever the allocator traits and the parameter list: the target reports the source's
   capacity, and the block it owns then - stolen, freshly allocated or its own one reused -
   has at least as many bytes as the source's block had.  Together with
   C02_every_history_stays_inside_the_block (the source's block suffices for its capacity)
   this is what keeps filling the target to its new capacity inside its block; the reuse
   branch is the one that depends on comparing BLOCK sizes, not the bytes in use. *)
From Coq Require Import ZArith List Bool Lia.
From Cntgs Require Import Base Layout Mem Vector Proxy World NtLedger.
Import ListNotations.
Local Open Scope Z_scope.

Theorem move_assign_block_suffices K L d src junk nb : 0 < SA L -> 0 <= v_units src ->
  let '(d', _, _, _) := move_assign K L d src junk nb in
  v_cap d' = v_cap src /\ consumption L src <= consumption L d'.
Proof.
  intros HSA Hu. unfold move_assign.
  destruct (always_eq K || pocma K || (v_aid d =? v_aid src)).
  - unfold steal. destruct (all_dtriv L); [|destruct (destruct_range L d 0 (Z.to_nat (vsize L d)))];
      cbn [v_cap v_units consumption]; unfold consumption; cbn [v_units]; split; try reflexivity; lia.
  - destruct (consumption L d <? consumption L src) eqn:E.
    + destruct (all_dtriv L); [|destruct (destruct_range L d 0 (Z.to_nat (vsize L d))) as [d1 e1]];
        destruct (insert_into true false L src nb junk) as [[src1 m] e2];
        unfold consumption; cbn [v_cap v_units]; (split; [reflexivity|]); unfold consumption; nia.
    + apply Z.ltb_ge in E.
      destruct (all_dtriv L) eqn:Hd.
      * destruct (insert_into true false L src (bidn (v_bid d)) (v_mem d)) as [[src1 m] e2].
        unfold consumption in *; cbn [v_cap v_units]. split; [reflexivity|exact E].
      * destruct (destruct_range_frame L (Z.to_nat (vsize L d)) d 0) as [_ (_ & _ & Hk & _)].
        destruct (destruct_range L d 0 (Z.to_nat (vsize L d))) as [d1 e1]. cbn [fst] in Hk.
        destruct (insert_into true false L src (bidn (v_bid d1)) (v_mem d1)) as [[src1 m] e2].
        unfold consumption in *; cbn [v_cap v_units]. split; [reflexivity|]. rewrite Hk. exact E.
Qed.
