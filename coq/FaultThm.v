(* FaultThm.v — allocation failure (C17).
   (1) every allocating operation of the model requests all its memory BEFORE any other
       effect (no object constructed, destroyed or moved, no block returned before the last
       allocation) — this is what makes "the exception leaves everything as it was" the
       behaviour of the code and not a wish;
   (2) a step in which an allocation fails changes no vector and no element, and returns
       every block it had already obtained. *)
From Coq Require Import ZArith List Bool Lia.
From Cntgs Require Import Base Layout Mem Vector Proxy Elem Construct World.
Import ListNotations.
Local Open Scope Z_scope.

Definition is_ealloc (e : ev) : bool := match e with EAlloc _ _ _ _ => true | _ => false end.
Definition noalloc (evs : list ev) : Prop := forallb (fun e => negb (is_ealloc e)) evs = true.
(* all allocations come first *)
Definition allocs_first (evs : list ev) : Prop :=
  exists pre post, evs = pre ++ post /\ forallb is_ealloc pre = true /\ noalloc post.

Lemma noalloc_nil : noalloc []. Proof. reflexivity. Qed.
Lemma noalloc_app a b : noalloc a -> noalloc b -> noalloc (a ++ b).
Proof. unfold noalloc. intros Ha Hb. rewrite forallb_app, Ha, Hb. reflexivity. Qed.
Lemma noalloc_cons e a : is_ealloc e = false -> noalloc a -> noalloc (e :: a).
Proof. unfold noalloc. intros He Ha. cbn [forallb]. rewrite He, Ha. reflexivity. Qed.
Lemma noalloc_if (c : bool) a b : noalloc a -> noalloc b -> noalloc (if c then a else b).
Proof. destruct c; auto. Qed.

Lemma allocs_first_intro pre post : forallb is_ealloc pre = true -> noalloc post -> allocs_first (pre ++ post).
Proof. intros H1 H2. exists pre, post. auto. Qed.
Lemma allocs_first_noalloc evs : noalloc evs -> allocs_first evs.
Proof. intros H. exists [], evs. repeat split; auto. Qed.

Lemma noalloc_obj_events mk a sz n : (forall x, is_ealloc (mk x) = false) -> noalloc (obj_events mk a sz n).
Proof.
  intros Hmk. unfold obj_events, noalloc. rewrite forallb_forall. intros e He.
  apply in_map_iff in He. destruct He as (j & <- & _). rewrite Hmk. reflexivity.
Qed.

Lemma noalloc_destruct_fields : forall L fl bid m, noalloc (snd (destruct_fields L fl bid m)).
Proof.
  induction L as [|p L IH]; intros fl bid m; [apply noalloc_nil|].
  destruct fl as [|[a c] fl]; [apply noalloc_nil|]. cbn [destruct_fields].
  specialize (IH fl bid (if ntd p then scribble m a (psz p) (Z.to_nat c) (dead_bytes (psz p)) else m)).
  destruct (destruct_fields L fl bid _) as [m2 evs2]. cbn [snd] in *.
  apply noalloc_app; [|exact IH]. destruct (ntd p); [|apply noalloc_nil].
  apply noalloc_obj_events. reflexivity.
Qed.

Lemma noalloc_destruct_elem L v i : noalloc (snd (destruct_elem L v i)).
Proof.
  unfold destruct_elem. destruct (all_dtriv L); [apply noalloc_nil|].
  pose proof (noalloc_destruct_fields L (fst (load L (v_fixed v) (v_mem v) (eaddr L v i))) (bidn (v_bid v)) (v_mem v)) as H.
  destruct (destruct_fields L _ _ _) as [m evs]. exact H.
Qed.

Lemma noalloc_destruct_range L : forall n v i, noalloc (snd (destruct_range L v i n)).
Proof.
  induction n as [|n IH]; intros v i; [apply noalloc_nil|]. cbn [destruct_range].
  pose proof (noalloc_destruct_elem L v i) as H1.
  destruct (destruct_elem L v i) as [v1 e1]. specialize (IH v1 (i + 1)).
  destruct (destruct_range L v1 (i + 1) n) as [v2 e2]. cbn [snd] in *. apply noalloc_app; assumption.
Qed.

Lemma noalloc_relocate_objs mv p sb b : forall n ms m src dst,
  noalloc (snd (relocate_objs mv p sb b ms m src dst n)).
Proof.
  induction n as [|n IH]; intros ms m src dst; [apply noalloc_nil|]. cbn [relocate_objs].
  specialize (IH (if mv then mwrite ms src (moved_bytes (psz p)) else ms)
                 (mwrite m dst (mread ms src (Z.to_nat (psz p)))) (src + psz p) (dst + psz p)).
  destruct (relocate_objs mv p sb b _ _ _ _ n) as [[ms2 m2] evs]. cbn [snd] in *.
  apply noalloc_cons; [destruct mv; reflexivity|exact IH].
Qed.

Lemma noalloc_relocate_fields mv : forall L fl sb b ms m d,
  noalloc (snd (relocate_fields mv L fl sb b ms m d)).
Proof.
  induction L as [|p L IH]; intros fl sb b ms m d; [apply noalloc_nil|].
  destruct fl as [|[a c] fl]; [apply noalloc_nil|]. cbn [relocate_fields].
  destruct (ntc _ p).
  - pose proof (noalloc_relocate_objs mv p sb b (Z.to_nat c) ms m a (a + d)) as H1.
    destruct (relocate_objs mv p sb b ms m a (a + d) (Z.to_nat c)) as [[ms1 m1] e1].
    specialize (IH fl sb b ms1 m1 d). destruct (relocate_fields mv L fl sb b ms1 m1 d) as [[ms2 m2] e2].
    cbn [snd] in *. apply noalloc_app; assumption.
  - specialize (IH fl sb b ms m d). destruct (relocate_fields mv L fl sb b ms m d) as [[ms2 m2] e2].
    cbn [snd] in *. exact IH.
Qed.

Lemma noalloc_relocate_elems mv L : forall n src b m i, noalloc (snd (relocate_elems mv L src b m i n)).
Proof.
  induction n as [|n IH]; intros src b m i; [apply noalloc_nil|]. cbn [relocate_elems].
  pose proof (noalloc_relocate_fields mv L (fst (load L (v_fixed src) (v_mem src) (eaddr L src i)))
                (bidn (v_bid src)) b (v_mem src) m 0) as H1.
  destruct (relocate_fields mv L _ _ _ _ _ _) as [[ms1 m1] e1].
  specialize (IH (set_mem src ms1) b m1 (i + 1)).
  destruct (relocate_elems mv L (set_mem src ms1) b m1 (i + 1) n) as [[src2 m2] e2].
  cbn [snd] in *. apply noalloc_app; assumption.
Qed.

Lemma noalloc_insert_into mv destr L src b junk : noalloc (snd (insert_into mv destr L src b junk)).
Proof.
  unfold insert_into. destruct (all_ctriv _ L && (negb destr || all_dtriv L)).
  - cbn [snd]. apply noalloc_cons; [reflexivity|apply noalloc_nil].
  - destruct (all_ctriv _ L).
    + destruct (destr && negb (all_dtriv L)).
      * pose proof (noalloc_destruct_range L (Z.to_nat (vsize L src)) src 0) as H.
        destruct (destruct_range L src 0 (Z.to_nat (vsize L src))) as [s2 e2]. cbn [snd] in *.
        apply noalloc_app; [apply noalloc_cons; [reflexivity|apply noalloc_nil]|exact H].
      * cbn [snd]. apply noalloc_app; [apply noalloc_cons; [reflexivity|apply noalloc_nil]|apply noalloc_nil].
    + pose proof (noalloc_relocate_elems mv L (Z.to_nat (vsize L src)) src b (mcopy (v_mem src) 0 junk 0 (dend L src)) 0) as H1.
      destruct (relocate_elems mv L src b (mcopy (v_mem src) 0 junk 0 (dend L src)) 0 (Z.to_nat (vsize L src))) as [[src1 m1] e1].
      destruct (destr && negb (all_dtriv L)).
      * pose proof (noalloc_destruct_range L (Z.to_nat (vsize L src1)) src1 0) as H2.
        destruct (destruct_range L src1 0 (Z.to_nat (vsize L src1))) as [s2 e2]. cbn [snd] in *.
        apply noalloc_app; [apply noalloc_cons; [reflexivity|apply noalloc_nil]|].
        apply noalloc_app; assumption.
      * cbn [snd] in *. apply noalloc_app; [apply noalloc_cons; [reflexivity|apply noalloc_nil]|].
        apply noalloc_app; [exact H1|apply noalloc_nil].
Qed.

Lemma noalloc_dealloc_tbl L v : noalloc (dealloc_tbl L v).
Proof. unfold dealloc_tbl. destruct (t_bid (v_tbl v)); [apply noalloc_cons; [reflexivity|apply noalloc_nil]|apply noalloc_nil]. Qed.
Lemma noalloc_dealloc_mem L v : noalloc (dealloc_mem L v).
Proof. unfold dealloc_mem. destruct (v_bid v); [apply noalloc_cons; [reflexivity|apply noalloc_nil]|apply noalloc_nil]. Qed.

Lemma ealloc_block a u n b (c : bool) a' n' b' :
  forallb is_ealloc (EAlloc a u n b :: (if c then [EAlloc a' 8 n' b'] else [])) = true.
Proof. destruct c; reflexivity. Qed.

(* ---------- the allocating operations of the vector ---------- *)
Theorem mkvec_allocs_first L cap budget fixed aid junk bid tbid :
  allocs_first (snd (mkvec L cap budget fixed aid junk bid tbid)).
Proof.
  unfold mkvec. cbn [snd].
  rewrite <- (app_nil_r (EAlloc _ _ _ _ :: _)). apply allocs_first_intro; [apply ealloc_block|apply noalloc_nil].
Qed.

Theorem reserve_allocs_first L v n b junk bid tbid : allocs_first (snd (reserve L v n b junk bid tbid)).
Proof.
  unfold reserve. destruct (v_cap v <? n); [|apply allocs_first_noalloc, noalloc_nil].
  pose proof (noalloc_insert_into true true L v bid junk) as H.
  destruct (insert_into true true L v bid junk) as [[v1 m] e1]. cbn [snd] in *.
  apply allocs_first_intro; [apply ealloc_block|].
  apply noalloc_app; [exact H|]. apply noalloc_app; [apply noalloc_if; [apply noalloc_dealloc_tbl|apply noalloc_nil]|apply noalloc_dealloc_mem].
Qed.

Theorem copy_ctor_allocs_first K L src junk nb :
  allocs_first (snd (fst (copy_ctor K L src junk nb))).
Proof.
  unfold copy_ctor. pose proof (noalloc_insert_into false false L src nb junk) as H.
  destruct (insert_into false false L src nb junk) as [[s1 m] e1]. cbn [fst snd] in *.
  apply allocs_first_intro; [apply ealloc_block|exact H].
Qed.

Theorem copy_assign_allocs_first K L d src junk nb :
  allocs_first (snd (fst (copy_assign K L d src junk nb))).
Proof.
  unfold copy_assign. pose proof (noalloc_insert_into false false L src nb junk) as H.
  destruct (insert_into false false L src nb junk) as [[s1 m] e1].
  assert (Hd : noalloc (snd (if all_dtriv L then (d, []) else destruct_range L d 0 (Z.to_nat (vsize L d))))).
  { destruct (all_dtriv L); [apply noalloc_nil|apply noalloc_destruct_range]. }
  destruct (if all_dtriv L then (d, []) else destruct_range L d 0 (Z.to_nat (vsize L d))) as [d1 e2].
  cbn [fst snd] in *.
  apply allocs_first_intro; [apply ealloc_block|].
  apply noalloc_app; [exact H|]. apply noalloc_app; [exact Hd|].
  apply noalloc_app; [apply noalloc_if; [apply noalloc_dealloc_tbl|apply noalloc_nil]|apply noalloc_dealloc_mem].
Qed.

Lemma noalloc_steal K L d src : noalloc (snd (steal K L d src)).
Proof.
  unfold steal.
  assert (Hd : noalloc (snd (if all_dtriv L then (d, []) else destruct_range L d 0 (Z.to_nat (vsize L d))))).
  { destruct (all_dtriv L); [apply noalloc_nil|apply noalloc_destruct_range]. }
  destruct (if all_dtriv L then (d, []) else destruct_range L d 0 (Z.to_nat (vsize L d))) as [d1 e1].
  cbn [snd] in *. apply noalloc_app; [exact Hd|].
  apply noalloc_app; [apply noalloc_if; [apply noalloc_dealloc_tbl|apply noalloc_nil]|apply noalloc_dealloc_mem].
Qed.

Theorem move_assign_allocs_first K L d src junk nb :
  allocs_first (snd (fst (move_assign K L d src junk nb))).
Proof.
  unfold move_assign. destruct (always_eq K || pocma K || (v_aid d =? v_aid src)).
  - pose proof (noalloc_steal K L d src) as H. destruct (steal K L d src) as [[d1 s1] e].
    cbn [fst snd] in *. apply allocs_first_noalloc. exact H.
  - assert (Hd : noalloc (snd (if all_dtriv L then (d, []) else destruct_range L d 0 (Z.to_nat (vsize L d))))).
    { destruct (all_dtriv L); [apply noalloc_nil|apply noalloc_destruct_range]. }
    destruct (consumption L d <? consumption L src).
    + destruct (if all_dtriv L then (d, []) else destruct_range L d 0 (Z.to_nat (vsize L d))) as [d1 e1].
      pose proof (noalloc_insert_into true false L src nb junk) as H.
      destruct (insert_into true false L src nb junk) as [[s1 m] e2]. cbn [fst snd] in *.
      apply allocs_first_intro; [apply ealloc_block|].
      apply noalloc_app; [exact Hd|]. apply noalloc_app; [exact H|].
      apply noalloc_app; [apply noalloc_dealloc_mem|apply noalloc_if; [apply noalloc_dealloc_tbl|apply noalloc_nil]].
    + destruct (if all_dtriv L then (d, []) else destruct_range L d 0 (Z.to_nat (vsize L d))) as [d1 e1].
      pose proof (noalloc_insert_into true false L src (bidn (v_bid d1)) (v_mem d1)) as H.
      destruct (insert_into true false L src (bidn (v_bid d1)) (v_mem d1)) as [[s1 m] e2]. cbn [fst snd] in *.
      apply (allocs_first_intro (if has_varying L then [EAlloc (v_aid d) 8 (v_cap src) nb] else [])).
      * destruct (has_varying L); reflexivity.
      * apply noalloc_app; [exact Hd|]. apply noalloc_app; [exact H|].
        apply noalloc_if; [apply noalloc_dealloc_tbl|apply noalloc_nil].
Qed.

(* ---------- the allocating operations of ContiguousElement ---------- *)
Lemma noalloc_construct_fields mv : forall L fls fld sb db ms md,
  noalloc (snd (construct_fields mv L fls fld sb db ms md)).
Proof.
  induction L as [|p L IH]; intros fls fld sb db ms md; [apply noalloc_nil|].
  destruct fls as [|[sa c] fls]; [apply noalloc_nil|]. destruct fld as [|[da c'] fld]; [apply noalloc_nil|].
  cbn [construct_fields]. destruct (ntc _ p).
  - pose proof (noalloc_relocate_objs mv p sb db (Z.to_nat c) ms md sa da) as H1.
    destruct (relocate_objs mv p sb db ms md sa da (Z.to_nat c)) as [[ms1 md1] e1].
    specialize (IH fls fld sb db ms1 md1). destruct (construct_fields mv L fls fld sb db ms1 md1) as [[ms2 md2] e2].
    cbn [snd] in *. apply noalloc_app; assumption.
  - specialize (IH fls fld sb db ms md). destruct (construct_fields mv L fls fld sb db ms md) as [[ms2 md2] e2].
    cbn [snd] in *. exact IH.
Qed.

Lemma noalloc_store_and_load mv L ms fls sb n md db : noalloc (snd (store_and_load mv L ms fls sb n md db)).
Proof.
  unfold store_and_load.
  pose proof (noalloc_construct_fields mv L fls (fl_at0 L fls) sb db ms (mcopy ms (fst (hd fld0 fls)) md 0 n)) as H.
  destruct (construct_fields mv L fls (fl_at0 L fls) sb db ms _) as [[ms1 md1] evs]. cbn [snd] in *.
  apply noalloc_cons; [reflexivity|exact H].
Qed.

Lemma noalloc_elem_destruct L e : noalloc (snd (elem_destruct L e)).
Proof.
  unfold elem_destruct. destruct (e_bid e); [|apply noalloc_nil].
  destruct (all_dtriv L); [apply noalloc_nil|].
  pose proof (noalloc_destruct_fields L (e_fl e) n (e_mem e)) as H.
  destruct (destruct_fields L (e_fl e) n (e_mem e)) as [m evs]. exact H.
Qed.
Lemma noalloc_elem_dealloc L e : noalloc (elem_dealloc L e).
Proof. unfold elem_dealloc. destruct (e_bid e); [apply noalloc_cons; [reflexivity|apply noalloc_nil]|apply noalloc_nil]. Qed.

Lemma noalloc_assign_objs mv p sb db : forall n x sa da, noalloc (snd (assign_objs mv p sb db x sa da n)).
Proof.
  induction n as [|n IH]; intros x sa da; [apply noalloc_nil|]. cbn [assign_objs].
  set (x1 := wr_d x da (mread (m_s x) sa (Z.to_nat (psz p)))).
  set (x2 := if mv && negb (m_same x && (sa =? da)) then wr_s x1 sa (moved_bytes (psz p)) else x1).
  specialize (IH x2 (sa + psz p) (da + psz p)).
  destruct (assign_objs mv p sb db x2 (sa + psz p) (da + psz p) n) as [x3 evs]. cbn [snd] in *.
  apply noalloc_cons; [destruct mv; reflexivity|exact IH].
Qed.
Lemma noalloc_assign_one mv L sb db fls fld x k : noalloc (snd (assign_one mv L sb db fls fld x k)).
Proof.
  unfold assign_one. destruct (nth k (runs_asg mv L) RSkip).
  - apply noalloc_nil.
  - apply noalloc_assign_objs.
  - cbn [snd]. apply noalloc_cons; [reflexivity|apply noalloc_nil].
Qed.
Lemma noalloc_assign_all mv L sb db fls fld : forall ks x, noalloc (snd (assign_all mv L sb db fls fld x ks)).
Proof.
  induction ks as [|k ks IH]; intros x; [apply noalloc_nil|]. cbn [assign_all].
  pose proof (noalloc_assign_one mv L sb db fls fld x k) as H1.
  destruct (assign_one mv L sb db fls fld x k) as [x1 e1]. specialize (IH x1).
  destruct (assign_all mv L sb db fls fld x1 ks) as [x2 e2]. cbn [snd] in *. apply noalloc_app; assumption.
Qed.
Lemma noalloc_assign_fl mv L same ms fls sb md fld db : noalloc (snd (assign_fl mv L same ms fls sb md fld db)).
Proof.
  unfold assign_fl.
  pose proof (noalloc_assign_all mv L sb db fls fld (seq 0 (length L)) {| m_s := ms; m_d := md; m_same := same |}) as H.
  destruct (assign_all mv L sb db fls fld _ _) as [x evs]. exact H.
Qed.

Theorem elem_from_ref_allocs_first mv L ms fls sb aid junk nb :
  allocs_first (snd (elem_from_ref mv L ms fls sb aid junk nb)).
Proof.
  unfold elem_from_ref.
  pose proof (noalloc_store_and_load mv L ms fls sb (ref_bytes L fls) junk nb) as H.
  destruct (store_and_load mv L ms fls sb (ref_bytes L fls) junk nb) as [[[ms1 md1] fld] evs]. cbn [snd] in *.
  apply (allocs_first_intro [EAlloc aid (SA L) (units L (ref_bytes L fls)) nb]); [reflexivity|exact H].
Qed.

Theorem elem_copy_allocs_first L src aid junk nb : allocs_first (snd (elem_copy L src aid junk nb)).
Proof.
  unfold elem_copy.
  pose proof (noalloc_store_and_load false L (e_mem src) (e_fl src) (bidn (e_bid src)) (ref_bytes L (e_fl src)) junk nb) as H.
  destruct (store_and_load false L _ _ _ _ junk nb) as [[[ms1 md1] fld] evs]. cbn [snd] in *.
  apply (allocs_first_intro [EAlloc aid (SA L) (e_units src) nb]); [reflexivity|exact H].
Qed.

Theorem elem_copy_assign_allocs_first pocca ae L d src junk nb :
  allocs_first (snd (fst (elem_copy_assign pocca ae L d src junk nb))).
Proof.
  unfold elem_copy_assign.
  destruct (fixed_or_plain L && (negb pocca || ae) && match e_bid d with Some _ => true | None => false end).
  - pose proof (noalloc_assign_fl false L false (e_mem src) (e_fl src) (bidn (e_bid src)) (e_mem d) (e_fl d) (bidn (e_bid d))) as H.
    destruct (assign_fl false L false _ _ _ _ _ _) as [[ms md] evs]. cbn [fst snd] in *.
    apply allocs_first_noalloc. exact H.
  - pose proof (noalloc_elem_destruct L d) as H1. destruct (elem_destruct L d) as [d1 e1].
    pose proof (noalloc_store_and_load false L (e_mem src) (e_fl src) (bidn (e_bid src)) (ref_bytes L (e_fl src)) junk nb) as H3.
    destruct (store_and_load false L _ _ _ _ junk nb) as [[[ms1 md1] fld] e3]. cbn [fst snd] in *.
    apply (allocs_first_intro [EAlloc (if pocca then e_aid src else e_aid d) (SA L) (e_units src) nb]); [reflexivity|].
    apply noalloc_app; [exact H1|]. apply noalloc_app; [apply noalloc_elem_dealloc|exact H3].
Qed.

Theorem elem_move_assign_allocs_first pocma ae L d src junk nb :
  allocs_first (snd (fst (elem_move_assign pocma ae L d src junk nb))).
Proof.
  unfold elem_move_assign. destruct (ae || pocma || (e_aid d =? e_aid src)).
  - unfold elem_steal. pose proof (noalloc_elem_destruct L d) as H1. destruct (elem_destruct L d) as [d1 e1].
    cbn [fst snd] in *. apply allocs_first_noalloc. apply noalloc_app; [exact H1|apply noalloc_elem_dealloc].
  - destruct (fixed_or_plain L && match e_bid d with Some _ => true | None => false end).
    + pose proof (noalloc_assign_fl true L false (e_mem src) (e_fl src) (bidn (e_bid src)) (e_mem d) (e_fl d) (bidn (e_bid d))) as H.
      destruct (assign_fl true L false _ _ _ _ _ _) as [[ms md] evs]. cbn [fst snd] in *.
      apply allocs_first_noalloc. exact H.
    + destruct (e_units d <? ref_bytes L (e_fl src)).
      * pose proof (noalloc_elem_destruct L d) as H1. destruct (elem_destruct L d) as [d1 e1].
        pose proof (noalloc_store_and_load true L (e_mem src) (e_fl src) (bidn (e_bid src)) (ref_bytes L (e_fl src)) junk nb) as H2.
        destruct (store_and_load true L _ _ _ _ junk nb) as [[[ms md] fld] e2]. cbn [fst snd] in *.
        apply (allocs_first_intro [EAlloc (e_aid d) (SA L) (e_units src) nb]); [reflexivity|].
        apply noalloc_app; [exact H1|]. apply noalloc_app; [exact H2|apply noalloc_elem_dealloc].
      * pose proof (noalloc_elem_destruct L d) as H1. destruct (elem_destruct L d) as [d1 e1].
        pose proof (noalloc_store_and_load true L (e_mem src) (e_fl src) (bidn (e_bid src)) (ref_bytes L (e_fl src)) (e_mem d1) (bidn (e_bid d1))) as H2.
        destruct (store_and_load true L _ _ _ _ (e_mem d1) (bidn (e_bid d1))) as [[[ms md] fld] e2]. cbn [fst snd] in *.
        apply allocs_first_noalloc. apply noalloc_app; assumption.
Qed.

(* ---------- what a failing step does ---------- *)
Lemma step_f_failure K L w o k :
  w_fail w = Some k ->
  let w1 := step K L w o in
  let new := rev (firstn (length (w_out w1) - length (w_out w)) (w_out w1)) in
  (k < length (filter is_alloc new))%nat ->
  w_vecs (step_f K L w o) = w_vecs w /\ w_elems (step_f K L w o) = w_elems w /\
  w_fail (step_f K L w o) = None /\ w_nb (step_f K L w o) = (w_nb w + k)%nat.
Proof.
  intros Hf w1 new Hk. unfold step_f. rewrite Hf. fold w1. fold new.
  apply Nat.ltb_lt in Hk. rewrite Hk. unfold emit. cbn [w_vecs w_elems w_fail w_nb]. auto.
Qed.

(* every block the failing step had obtained is returned in the same step *)
Lemma dealloc_of_done : forall done a u n b,
  In (OEv (EAlloc a u n b)) done -> In (OEv (EDealloc a u n b)) (flat_map dealloc_of (rev done)).
Proof.
  intros done a u n b H. apply in_flat_map. exists (OEv (EAlloc a u n b)).
  split; [apply -> in_rev; exact H|left; reflexivity].
Qed.

(* a step without pending failure is the plain step *)
Lemma step_f_no_failure K L w o : w_fail w = None -> step_f K L w o = step K L w o.
Proof. intros H. unfold step_f. rewrite H. reflexivity. Qed.
