(* FastEq.v — the whole-buffer fast path of vector == (vector.hpp equal(): all value types
   memcmp-able, IS_PADDING_FREE, equal fixed sizes): the bytes [data_begin(), data_end())
   of a vector in a represented state are exactly the concatenation of the bytes of its
   elements' fields - there is no gap anywhere (tight packing, Rep.r_tight, under padfree) -
   and that byte string determines the list of tuples.  Together with
   CmpContent.vec_equal_content_elementwise: vector == is equality of the lists of tuples in
   EVERY represented state, on both paths (C13). *)
From Coq Require Import ZArith Lia List Bool.
From Cntgs Require Import Base BaseLemmas Layout LayoutThm Mem MemLemmas Vector Proxy Spec Rep ElemLemmas Ordered
  CompareThm Refine CmpContent TightThm.
Import ListNotations.
Local Open Scope Z_scope.

Definition ebytes (t : tuple) : list Z := concat (map (@concat Z) t).

Lemma mread_app m a n1 n2 : mread m a (n1 + n2) = mread m a n1 ++ mread m (a + Z.of_nat n1) n2.
Proof.
  unfold mread. rewrite seq_app, map_app. f_equal. cbn [Nat.add].
  rewrite <- (seq_shift_by n1 0 n2) at 1. rewrite map_map. apply map_ext. intros i. f_equal. lia.
Qed.

Lemma concat_objs_length (s : nat) (f : list (list Z)) : Forall (fun o => length o = s) f ->
  length (concat f) = (length f * s)%nat.
Proof. induction 1 as [|o f Ho _ IH]; cbn [concat length]; [reflexivity|]. rewrite app_length, IH, Ho. lia. Qed.

(* no padding between the fields: the known alignment is never smaller than required *)
Definition fields_packed (L : list param) (pv : list Z) : bool :=
  forallb (fun pp => negb (snd pp <? pal (fst pp))) (combine L pv).

Lemma elem_from_packed : forall L pv fc prevc m a t,
  Forall wfp L -> fields_packed L pv = true -> (length L <= length pv)%nat ->
  tuple_ok L fc prevc t -> elem_from L pv m a t ->
  mread m a (length (ebytes t)) = ebytes t /\
  snd (place_from L pv (cnts_of t) a) = a + Z.of_nat (length (ebytes t)).
Proof.
  induction L as [|p L IH]; intros pv fc prevc m a t HF Hp Hl Ht He.
  - destruct t; [|destruct fc; contradiction]. cbn. split; [reflexivity|lia].
  - destruct fc as [|c fc]; [contradiction|]. destruct t as [|f t]; [contradiction|].
    destruct pv as [|pt pv]; [cbn in Hl; lia|].
    destruct Ht as (Ho & Hc & Ht). cbn [elem_from] in He.
    unfold fields_packed in Hp. cbn [combine forallb fst snd] in Hp. apply andb_true_iff in Hp. destruct Hp as [Hp1 Hp].
    apply negb_true_iff in Hp1. unfold align_if in He. rewrite Hp1 in He. destruct He as [Hr He].
    apply Forall_cons_iff in HF. destruct HF as [[Hs _] HF].
    pose proof (concat_objs_length _ _ Ho) as Hlen.
    assert (Hadv : a + Z.of_nat (length f) * psz p = a + Z.of_nat (length (concat f))).
    { rewrite Hlen, Nat2Z.inj_mul, Z2Nat.id by lia. reflexivity. }
    rewrite Hadv in He.
    destruct (IH pv fc _ m _ t HF Hp ltac:(cbn in Hl; lia) Ht He) as [IH1 IH2].
    unfold ebytes in *. cbn [map concat cnts_of place_from]. fold (cnts_of t).
    unfold align_if. rewrite Hp1.
    destruct (place_from L pv (cnts_of t) (a + Z.of_nat (length f) * psz p)) as [rr e] eqn:Ep.
    cbn [snd]. rewrite Hadv in Ep. rewrite Ep in IH2. cbn [snd] in IH2.
    rewrite app_length. split.
    + rewrite mread_app, Hr, IH1. reflexivity.
    + rewrite IH2. lia.
Qed.

(* the bytes of a tuple determine the tuple (the object counts are fixed by the list, the
   fixed sizes and - for a VaryingSize field - the value of the field in front of it) *)
Lemma ebytes_inj_prefix : forall L fc prevc t1 t2 r1 r2,
  Forall wfp L -> tuple_ok L fc prevc t1 -> tuple_ok L fc prevc t2 ->
  ebytes t1 ++ r1 = ebytes t2 ++ r2 -> t1 = t2 /\ r1 = r2.
Proof.
  induction L as [|p L IH]; intros fc prevc t1 t2 r1 r2 HF H1 H2 He.
  - destruct t1; [|destruct fc; contradiction]. destruct t2; [|destruct fc; contradiction]. cbn in He. auto.
  - destruct fc as [|c fc]; [contradiction|].
    destruct t1 as [|f1 t1]; [contradiction|]. destruct t2 as [|f2 t2]; [contradiction|].
    destruct H1 as (Ho1 & Hc1 & H1). destruct H2 as (Ho2 & Hc2 & H2).
    apply Forall_cons_iff in HF. destruct HF as [[Hs _] HF].
    unfold ebytes in He. cbn [map concat] in He. rewrite <- !app_assoc in He.
    assert (Hlf : length f1 = length f2) by lia.
    apply app_eq_len in He.
    + destruct He as [Ef He].
      apply (concat_chunks_inj (Z.to_nat (psz p))) in Ef; auto; [|lia]. subst f2.
      destruct (IH fc _ t1 t2 r1 r2 HF H1 H2 He) as [-> ->]. auto.
    + rewrite (concat_objs_length _ _ Ho1), (concat_objs_length _ _ Ho2). lia.
Qed.

Lemma ebytes_list_inj L fc : Forall wfp L -> forall l1 l2,
  Forall (tuple_ok L fc 0) l1 -> Forall (tuple_ok L fc 0) l2 -> length l1 = length l2 ->
  concat (map ebytes l1) = concat (map ebytes l2) -> l1 = l2.
Proof.
  intros HF. induction l1 as [|t1 l1 IH]; intros [|t2 l2] H1 H2 Hl He; try discriminate; [reflexivity|].
  inversion H1; subst. inversion H2; subst. cbn [map concat] in He.
  destruct (ebytes_inj_prefix L fc 0 t1 t2 _ _ HF ltac:(assumption) ltac:(assumption) He) as [-> He'].
  f_equal. apply IH; auto.
Qed.

Section Fast.
  Variable L : list param.
  Hypothesis Hwf : wf_plist L = true.
  Hypothesis Hpf : padfree L = true.

  Let HF : Forall wfp L := wf_plist_Forall L Hwf.

  Lemma pf_first_align x : first_align L x = x.
  Proof.
    unfold padfree in Hpf. apply andb_true_iff in Hpf. destruct Hpf as [H _].
    apply andb_true_iff in H. destruct H as [H _]. apply negb_true_iff in H.
    unfold first_align, align_if. rewrite H. reflexivity.
  Qed.

  Lemma pf_fields : fields_packed L (prevs L) = true.
  Proof.
    unfold padfree in Hpf. apply andb_true_iff in Hpf. destruct Hpf as [H _].
    apply andb_true_iff in H. destruct H as [_ H]. exact H.
  Qed.

  Lemma prevs_len : (length L <= length (prevs L))%nat.
  Proof. unfold prevs, trails. cbn [length]. rewrite trails_from_length. lia. Qed.

  (* one element: its bytes, and where it ends *)
  Lemma elem_packed fc m a t : tuple_ok L fc 0 t -> elem_at L m a t ->
    mread m a (length (ebytes t)) = ebytes t /\ elem_end L a t = a + Z.of_nat (length (ebytes t)).
  Proof.
    intros Ht He. unfold elem_end, place.
    apply (elem_from_packed L (prevs L) fc 0 m a t HF pf_fields prevs_len Ht He).
  Qed.

  (* all elements: the data of the vector *)
  Lemma chain_bytes fc m : forall offs l lo hi,
    elems_tight L lo offs l hi -> Forall (tuple_ok L fc 0) l ->
    Forall2 (fun a t => elem_at L m a t) offs l -> 0 <= lo ->
    hi = lo + Z.of_nat (length (concat (map ebytes l))) /\
    mread m lo (length (concat (map ebytes l))) = concat (map ebytes l).
  Proof.
    induction offs as [|a offs IH]; intros [|t l] lo hi HT Ht He Hlo; cbn [elems_tight] in HT; try contradiction.
    - cbn. rewrite pf_first_align in HT. split; [lia|reflexivity].
    - destruct HT as [Ea HT]. rewrite pf_first_align in Ea. subst a.
      inversion Ht; subst. inversion He; subst.
      destruct (elem_packed fc m lo t ltac:(assumption) ltac:(assumption)) as [Hb Hend].
      rewrite Hend in HT.
      destruct (IH l _ hi HT ltac:(assumption) ltac:(assumption) ltac:(lia)) as [Hhi Hr].
      cbn [map concat]. rewrite app_length. split; [lia|].
      rewrite mread_app, Hb, Hr. reflexivity.
  Qed.

  Lemma rep_buffer v l : Rep L v l -> buffer L v = concat (map ebytes l).
  Proof.
    intros [offs R]. unfold buffer.
    destruct (chain_bytes _ (v_mem v) offs l 0 (dend L v) (r_tight _ _ _ _ R) (r_tuples _ _ _ _ R) (r_elems _ _ _ _ R) ltac:(lia)) as [Hd Hb].
    rewrite Hd. cbn [Z.add]. rewrite Nat2Z.id. exact Hb.
  Qed.

  (* vector ==, whenever it takes the whole-buffer path *)
  Theorem vec_equal_content_fast v1 l1 v2 l2 : Rep L v1 l1 -> Rep L v2 l2 ->
    (forallb eqm L && padfree L && list_eqb (v_fixed v1) (v_fixed v2)) = true ->
    (vec_equal L v1 v2 = true <-> l1 = l2).
  Proof.
    intros R1 R2 Hc. unfold vec_equal. rewrite Hc.
    apply andb_true_iff in Hc. destruct Hc as [_ Hfx]. apply list_eqb_eq in Hfx.
    pose proof (rep_buffer v1 l1 R1) as B1. pose proof (rep_buffer v2 l2 R2) as B2.
    destruct R1 as [o1 R1]. destruct R2 as [o2 R2].
    rewrite (rep_vsize L v1 l1 o1 R1), (rep_vsize L v2 l2 o2 R2).
    destruct (Z.eqb_spec (Z.of_nat (length l1)) (Z.of_nat (length l2))) as [Hl|Hl]; cbn [negb].
    - destruct (Z.eqb_spec (Z.of_nat (length l1)) 0) as [H0|H0].
      + split; [intros _|reflexivity]. destruct l1; [|cbn in H0; lia]. destruct l2; [reflexivity|cbn in Hl; lia].
      + rewrite B1, B2. rewrite list_eqb_eq. split; [|intros ->; reflexivity].
        intros He. apply (ebytes_list_inj L (fixed_counts L (v_fixed v1)) HF); auto.
        * exact (r_tuples _ _ _ _ R1).
        * rewrite Hfx. exact (r_tuples _ _ _ _ R2).
        * lia.
    - split; [discriminate|]. intros ->. lia.
  Qed.
End Fast.

(* C13, vector level, both paths: in every pair of represented states the library's
   vector == is equality of the two lists of tuples *)
Theorem vec_equal_content L v1 l1 v2 l2 : wf_plist L = true -> noflt L ->
  Rep L v1 l1 -> Rep L v2 l2 -> (vec_equal L v1 v2 = true <-> l1 = l2).
Proof.
  intros Hwf Hnf R1 R2.
  destruct (forallb eqm L && padfree L && list_eqb (v_fixed v1) (v_fixed v2)) eqn:Hc.
  - assert (Hpf : padfree L = true).
    { apply andb_true_iff in Hc. destruct Hc as [Hc _]. apply andb_true_iff in Hc. tauto. }
    apply vec_equal_content_fast; auto.
  - apply vec_equal_content_elementwise; auto.
Qed.

(* the hypotheses are satisfiable on the fast path: (uint32, VaryingSize<uint32>) is
   padding-free and memcmp-able; two vectors with different capacities and different junk,
   filled by different histories with the same two elements, are both represented states
   (C01) and compare equal; with a different payload they compare unequal *)
Definition fxL : list param :=
  [ {| pk := Plain; psz := 4; pal := 4; pty := TUInt |};
    {| pk := Varying; psz := 4; pal := 4; pty := TUInt |} ].
Definition fxA : tuple := [[[1; 0; 0; 0]]; [[7; 0; 0; 0]]].
Definition fxB : tuple := [[[2; 0; 0; 0]]; [[8; 0; 0; 0]; [9; 0; 0; 0]]].
Definition fxC : tuple := [[[1; 0; 0; 0]]; [[6; 0; 0; 0]]].
Definition fxV1 := vrun fxL (fun _ => 170) (fst (mkvec fxL 2 12 [] 0 (fun _ => 170) 1 2)) [SEmplace fxA; SEmplace fxB].
Definition fxV2 := vrun fxL (fun _ => 85) (fst (mkvec fxL 4 64 [] 0 (fun _ => 85) 3 4))
                     [SEmplace fxC; SEmplace fxA; SEmplace fxB; SErase 0].
Definition fxV3 := vrun fxL (fun _ => 85) (fst (mkvec fxL 4 64 [] 0 (fun _ => 85) 3 4)) [SEmplace fxA; SEmplace fxC].

Example fast_path_applies :
  wf_plist fxL = true /\ padfree fxL = true /\ forallb eqm fxL = true /\
  Rep fxL fxV1 [fxA; fxB] /\ Rep fxL fxV2 [fxA; fxB] /\
  vec_equal fxL fxV1 fxV2 = true /\ vec_equal fxL fxV1 fxV3 = false.
Proof.
  assert (Hwf : wf_plist fxL = true) by reflexivity.
  assert (Htr : all_triv fxL = true) by reflexivity.
  split; [reflexivity|]. split; [reflexivity|]. split; [reflexivity|].
  split; [|split; [|split; vm_compute; reflexivity]].
  - apply (rep_every_history fxL 2 12 [] 0 (fun _ => 170) 1%nat 2%nat [SEmplace fxA; SEmplace fxB] Hwf Htr); [lia|constructor|].
    cbn. repeat split; try lia; repeat constructor.
  - apply (rep_every_history fxL 4 64 [] 0 (fun _ => 85) 3%nat 4%nat [SEmplace fxC; SEmplace fxA; SEmplace fxB; SErase 0] Hwf Htr); [lia|constructor|].
    cbn. repeat split; try lia; repeat constructor.
Qed.
