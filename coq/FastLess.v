(* FastLess.v — the whole-buffer fast path of vector < (vector.hpp lexicographical_compare:
   all value types lexicographically memcmp-able, no VaryingSize parameter, IS_PADDING_FREE,
   equal fixed sizes): in every pair of represented states it is std::lexicographical_compare
   over the two lists of tuples, the elements being ordered by their bytes - a function of
   the logical content only (C14). *)
From Coq Require Import ZArith Lia List Bool.
From Cntgs Require Import Base BaseLemmas Layout LayoutThm Mem MemLemmas Vector Proxy Spec Rep ElemLemmas Ordered
  CompareThm EsizeThm Refine CmpContent TightThm FastEq.
Import ListNotations.
Local Open Scope Z_scope.

(* std::lexicographical_compare over two sequences under a strict order *)
Fixpoint lexl {A} (lt : A -> A -> bool) (l1 l2 : list A) : bool :=
  match l1, l2 with
  | _, [] => false
  | [], _ :: _ => true
  | a :: x, b :: y => if lt a b then true else if lt b a then false else lexl lt x y
  end.

Lemma lex_lt_app : forall a b x y, length a = length b ->
  lex_lt (a ++ x) (b ++ y) = if lex_lt a b then true else if lex_lt b a then false else lex_lt x y.
Proof.
  induction a as [|x0 a IH]; intros [|y0 b] x y Hl; cbn [length] in Hl; try discriminate.
  - cbn [app lex_lt]. destruct x, y; reflexivity.
  - cbn [app lex_lt]. destruct (x0 <? y0) eqn:E1; [reflexivity|]. destruct (y0 <? x0) eqn:E2; [reflexivity|].
    apply IH. lia.
Qed.

Lemma lex_chunks (c : nat) : (0 < c)%nat -> forall cs1 cs2,
  Forall (fun ch => length ch = c) cs1 -> Forall (fun ch => length ch = c) cs2 ->
  lex_lt (concat cs1) (concat cs2) = lexl lex_lt cs1 cs2.
Proof.
  intros Hc. induction cs1 as [|a cs1 IH]; intros [|b cs2] H1 H2; cbn [concat lexl].
  - reflexivity.
  - inversion H2; subst. destruct b as [|z b]; [cbn [length] in *; lia|]. reflexivity.
  - destruct (a ++ concat cs1); reflexivity.
  - inversion H1; subst. inversion H2; subst. rewrite lex_lt_app by congruence.
    rewrite IH by assumption. reflexivity.
Qed.

Lemma lexl_empties n1 n2 : lexl lex_lt (repeat ([] : list Z) n1) (repeat [] n2) = (n1 <? n2)%nat.
Proof.
  revert n2. induction n1 as [|n1 IH]; intros [|n2]; cbn [repeat lexl lex_lt]; try reflexivity.
  rewrite IH. reflexivity.
Qed.

Lemma concat_empties n : concat (repeat ([] : list Z) n) = [].
Proof. induction n as [|n IH]; [reflexivity|]. cbn [repeat concat app]. exact IH. Qed.

Section FastLess.
  Variable L : list param.
  Hypothesis Hwf : wf_plist L = true.
  Hypothesis Hpf : padfree L = true.
  Hypothesis Hnv : has_varying L = false.

  (* every element of a list without VaryingSize parameter has the same number of bytes *)
  Lemma ebytes_length fixed t m a : tuple_ok L (fixed_counts L fixed) 0 t -> elem_at L m a t ->
    0 <= a -> (SA L | a) -> Z.of_nat (length (ebytes t)) = fst (esize L fixed).
  Proof.
    intros Ht He Ha HaS.
    destruct (elem_packed L Hwf Hpf _ m a t Ht He) as [_ Hend].
    destruct (esize_exact L fixed t a Hwf Hnv Ht Ha HaS) as [E _]. lia.
  Qed.

  Lemma rep_chunks v l : Rep L v l ->
    Forall (fun ch => length ch = Z.to_nat (fst (esize L (v_fixed v)))) (map ebytes l).
  Proof.
    intros [offs R]. pose proof (eo_bounds L Hwf _ _ _ _ (r_order _ _ _ _ R)) as Hb.
    pose proof (r_tuples _ _ _ _ R) as HT. pose proof (r_elems _ _ _ _ R) as HE.
    clear R. revert l Hb HT HE. induction offs as [|a offs IH]; intros [|t l] Hb HT HE; inversion Hb; subst; cbn [map]; constructor.
    - inversion HT; subst. inversion HE; subst.
      match goal with H : 0 <= a /\ _ |- _ => destruct H as (Ha0 & HaS & _) end.
      pose proof (ebytes_length (v_fixed v) t (v_mem v) a ltac:(assumption) ltac:(assumption) Ha0 HaS). lia.
    - inversion HT; subst. inversion HE; subst. apply IH; assumption.
  Qed.

  Theorem vec_less_content_fast v1 l1 v2 l2 : Rep L v1 l1 -> Rep L v2 l2 ->
    (forallb lxm L && negb (has_varying L) && padfree L && list_eqb (v_fixed v1) (v_fixed v2)) = true ->
    vec_less L v1 v2 = lexl lex_lt (map ebytes l1) (map ebytes l2).
  Proof.
    intros R1 R2 Hc. unfold vec_less. rewrite Hc.
    apply andb_true_iff in Hc. destruct Hc as [_ Hfx]. apply list_eqb_eq in Hfx.
    pose proof (rep_buffer L Hwf Hpf v1 l1 R1) as B1. pose proof (rep_buffer L Hwf Hpf v2 l2 R2) as B2.
    pose proof (rep_chunks v1 l1 R1) as C1. pose proof (rep_chunks v2 l2 R2) as C2. rewrite <- Hfx in C2.
    set (c := Z.to_nat (fst (esize L (v_fixed v1)))) in *.
    destruct R1 as [o1 R1]. destruct R2 as [o2 R2].
    rewrite (rep_vsize L v1 l1 o1 R1), (rep_vsize L v2 l2 o2 R2).
    destruct l1 as [|t1 l1].
    { cbn [length map lexl]. destruct l2; reflexivity. }
    destruct l2 as [|t2 l2].
    { cbn [length map lexl]. reflexivity. }
    replace (Z.of_nat (length (t1 :: l1)) =? 0) with false by (symmetry; apply Z.eqb_neq; cbn [length]; lia).
    replace (Z.of_nat (length (t2 :: l2)) =? 0) with false by (symmetry; apply Z.eqb_neq; cbn [length]; lia).
    (* the data of v1 is the concatenation of its chunks *)
    assert (Hd1 : dend L v1 = Z.of_nat (length (concat (map ebytes (t1 :: l1))))).
    { destruct (chain_bytes L Hwf Hpf _ (v_mem v1) o1 (t1 :: l1) 0 (dend L v1) (r_tight _ _ _ _ R1) (r_tuples _ _ _ _ R1) (r_elems _ _ _ _ R1) ltac:(lia)) as [H _]. lia. }
    destruct (Nat.eq_dec c 0) as [Hc0|Hc0].
    - (* elements without any bytes *)
      assert (E1 : map ebytes (t1 :: l1) = repeat [] (length (t1 :: l1))).
      { clear - C1 Hc0. induction (t1 :: l1) as [|t l IH]; [reflexivity|]. cbn [map length repeat]. inversion C1; subst.
        f_equal; [destruct (ebytes t); [reflexivity|cbn [length] in *; lia]|apply IH; assumption]. }
      assert (E2 : map ebytes (t2 :: l2) = repeat [] (length (t2 :: l2))).
      { clear - C2 Hc0. induction (t2 :: l2) as [|t l IH]; [reflexivity|]. cbn [map length repeat]. inversion C2; subst.
        f_equal; [destruct (ebytes t); [reflexivity|cbn [length] in *; lia]|apply IH; assumption]. }
      rewrite E1 in Hd1. 
      pose proof (concat_empties (length (t1 :: l1))) as Hz.
      rewrite Hz in Hd1. cbn [length] in Hd1. replace (dend L v1 =? 0) with true by (symmetry; apply Z.eqb_eq; lia).
      rewrite E1, E2, lexl_empties.
      destruct (Nat.ltb_spec (length (t1 :: l1)) (length (t2 :: l2))); [apply Z.ltb_lt|apply Z.ltb_ge]; lia.
    - assert (Hpos : (0 < length (concat (map ebytes (t1 :: l1))))%nat).
      { cbn [map concat]. rewrite app_length. inversion C1; subst. lia. }
      replace (dend L v1 =? 0) with false by (symmetry; apply Z.eqb_neq; lia).
      rewrite B1, B2. apply (lex_chunks c); auto. lia.
  Qed.
End FastLess.
