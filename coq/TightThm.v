(* TightThm.v — tight packing at history level (C05): in every represented state, hence
   after every valid history (C01), every element starts exactly where
   align_for_first_parameter puts it after the end of its predecessor - the first one at the
   start of the block - and data_end() is the end of the last element or the aligned
   address behind it. *)
From Coq Require Import ZArith Lia List Bool.
From Cntgs Require Import Base BaseLemmas Layout LayoutThm Mem MemLemmas Vector Spec Rep ElemLemmas Ordered EsizeThm Refine.
Import ListNotations.
Local Open Scope Z_scope.

Lemma eo_end_firstn_S L : forall k lo offs l, length offs = length l -> (k < length offs)%nat ->
  eo_end L lo (firstn (S k) offs) (firstn (S k) l) = elem_end L (nth k offs 0) (nth k l []).
Proof.
  induction k as [|k IH]; intros lo [|a offs] [|t l] Hl Hk; cbn [length] in *; try lia; try discriminate.
  - cbn. destruct offs, l; reflexivity.
  - change (firstn (S (S k)) (a :: offs)) with (a :: firstn (S k) offs).
    change (firstn (S (S k)) (t :: l)) with (t :: firstn (S k) l).
    cbn [eo_end nth]. apply IH; lia.
Qed.

(* where element [i] of a represented vector starts *)
Definition prev_end (L : list param) (v : vec) (l : list tuple) (i : nat) : Z :=
  match i with
  | O => 0
  | S k => elem_end L (eaddr L v (Z.of_nat k)) (nth k l [])
  end.

Theorem rep_positions_tight L v l : wf_plist L = true -> Rep L v l ->
  (forall i, (i < length l)%nat -> eaddr L v (Z.of_nat i) = first_align L (prev_end L v l i)) /\
  (dend L v = prev_end L v l (length l) \/ dend L v = first_align L (prev_end L v l (length l))).
Proof.
  intros Hwf [offs R].
  pose proof (r_tight _ _ _ _ R) as HT. pose proof (et_length _ _ _ _ _ HT) as Hlen.
  assert (Hpe : forall i, (i <= length l)%nat -> prev_end L v l i = eo_end L 0 (firstn i offs) (firstn i l)).
  { intros [|k] Hk; [reflexivity|]. unfold prev_end.
    rewrite (rep_eaddr L v l offs k R) by lia.
    rewrite eo_end_firstn_S by lia. reflexivity. }
  split.
  - intros i Hi. rewrite (rep_eaddr L v l offs i R Hi). rewrite Hpe by lia.
    eapply et_nth; [exact HT|lia].
  - rewrite Hpe by lia. rewrite <- Hlen at 1. rewrite !firstn_all.
    clear - HT. revert HT. generalize 0 at 1 2 3. revert l.
    induction offs as [|a offs IH]; intros [|t l] lo H; cbn [elems_tight eo_end] in *; try contradiction; [exact H|].
    destruct H as [_ H]. apply IH. exact H.
Qed.

(* the invariant itself after every valid history from construction *)
Theorem rep_every_history : forall L cap budget fixed aid junk bid tbid h,
  wf_plist L = true -> all_triv L = true -> 0 <= cap -> Forall (fun c => 0 <= c) fixed ->
  let v0 := fst (mkvec L cap budget fixed aid junk bid tbid) in
  let s0 := {| s_cap := cap; s_elems := [] |} in
  shist_valid L (fixed_counts L fixed) s0 h ->
  Rep L (vrun L junk v0 h) (s_elems (srun s0 h)).
Proof.
  intros L cap budget fixed aid junk bid tbid h Hwf Ht Hcap Hfx. cbv zeta. intros Hv.
  assert (Hst : has_varying L = false -> stride_ok L (fixed_counts L fixed) (snd (esize L fixed))).
  { intros Hnv. apply esize_stride_ok; auto. apply fixed_counts_nonneg; auto. }
  destruct (mkvec_rep L Hwf cap budget fixed aid junk bid tbid Hcap Hst) as (R0 & Hc0 & Hf0).
  cbv zeta in *.
  destruct (vrun_rep L Hwf Ht junk h _ {| s_cap := cap; s_elems := [] |} R0 Hc0) as (R & Hc).
  { rewrite Hf0. exact Hv. }
  exact R.
Qed.

Theorem tight_every_history : forall L cap budget fixed aid junk bid tbid h,
  wf_plist L = true -> all_triv L = true -> 0 <= cap -> Forall (fun c => 0 <= c) fixed ->
  let v0 := fst (mkvec L cap budget fixed aid junk bid tbid) in
  let s0 := {| s_cap := cap; s_elems := [] |} in
  shist_valid L (fixed_counts L fixed) s0 h ->
  let v := vrun L junk v0 h in
  let l := s_elems (srun s0 h) in
  (forall i, (i < length l)%nat -> eaddr L v (Z.of_nat i) = first_align L (prev_end L v l i)) /\
  (dend L v = prev_end L v l (length l) \/ dend L v = first_align L (prev_end L v l (length l))).
Proof.
  intros L cap budget fixed aid junk bid tbid h Hwf Ht Hcap Hfx. cbv zeta. intros Hv.
  apply rep_positions_tight; auto. apply rep_every_history; auto.
Qed.
