(* Footprint.v — how much memory the operations that (re)allocate make a vector consume (C05,
   third clause): reserve beyond capacity on a list with a VaryingSize parameter requests
   exactly what a freshly constructed vector of that capacity, byte budget and fixed sizes
   requests; copy construction and copy assignment request what the source consumes; stealing
   move assignment takes over the source's block; no other operation changes the consumption. *)
From Coq Require Import ZArith Lia List Bool.
From Cntgs Require Import Base BaseLemmas Layout Mem Vector Proxy Elem World.
Import ListNotations.
Local Open Scope Z_scope.

Theorem reserve_footprint_varying L v n b junk bid tbid aid junk' bid' tbid' :
  has_varying L = true -> v_cap v < n ->
  consumption L (fst (reserve L v n b junk bid tbid)) =
  consumption L (fst (mkvec L n b (v_fixed v) aid junk' bid' tbid')).
Proof.
  intros Hv Hn. unfold reserve, mkvec, consumption.
  replace (v_cap v <? n) with true by (symmetry; apply Z.ltb_lt; exact Hn). rewrite Hv.
  destruct (insert_into true true L v bid junk) as [[v1 m] e1]. reflexivity.
Qed.

Theorem reserve_within_capacity_footprint L v n b junk bid tbid : n <= v_cap v ->
  consumption L (fst (reserve L v n b junk bid tbid)) = consumption L v.
Proof.
  intros Hn. unfold reserve. replace (v_cap v <? n) with false by (symmetry; apply Z.ltb_ge; exact Hn). reflexivity.
Qed.

Theorem copy_footprint K L d src junk nb :
  consumption L (fst (fst (fst (copy_ctor K L src junk nb)))) = consumption L src /\
  consumption L (fst (fst (fst (copy_assign K L d src junk nb)))) = consumption L src.
Proof.
  unfold copy_ctor, copy_assign, consumption.
  destruct (insert_into false false L src nb junk) as [[s1 m] e1].
  destruct (if all_dtriv L then (d, []) else destruct_range L d 0 (Z.to_nat (vsize L d))) as [d1 e2].
  split; reflexivity.
Qed.

Theorem steal_footprint K L d src :
  consumption L (fst (fst (steal K L d src))) = consumption L src.
Proof.
  unfold steal, consumption.
  destruct (if all_dtriv L then (d, []) else destruct_range L d 0 (Z.to_nat (vsize L d))) as [d1 e1]. reflexivity.
Qed.

(* ... except element-wise move assignment into a smaller vector (unequal, non-propagating
   allocators): the library passes memory_consumption() BYTES where storage UNITS are expected
   (vector.hpp:497), so the target ends up consuming SA times what the source consumes - more
   than it consumed before, more than the source, more than a fresh vector of that capacity.
   This is the recorded finding `move-assign-units`; the model reproduces it. *)
Definition fpL : list param := [ {| pk := Plain; psz := 8; pal := 8; pty := TUInt |} ].
Definition fpK : akind := {| pocca := false; pocma := false; pocs := false; always_eq := false; soccc_bump := false |}.
Theorem move_assign_footprint_refuted :
  let d := fst (mkvec fpL 1 0 [] 1 (mfill 170) 0%nat 1%nat) in
  let src := fst (mkvec fpL 2 0 [] 2 (mfill 170) 2%nat 3%nat) in
  let d' := fst (fst (fst (move_assign fpK fpL d src (mfill 170) 4%nat))) in
  consumption fpL d = 8 /\ consumption fpL src = 16 /\
  consumption fpL (fst (mkvec fpL (v_cap src) 0 [] 1 (mfill 170) 5%nat 6%nat)) = 16 /\
  consumption fpL d' = 128.
Proof. vm_compute. repeat split; reflexivity. Qed.

(* ---------- reserve of a list WITHOUT VaryingSize parameter: the grow formula stride * n, a fresh
   vector stride * n - (stride - size); both round to the same number of storage units ---------- *)
From Cntgs Require Import LayoutThm EsizeThm.

Lemma units_round L x p : 0 < SA L -> (SA L | x) -> 0 <= p < SA L -> units L (x - p) = units L x.
Proof.
  intros HS [q ->] Hp. unfold units.
  rewrite Z.mod_mul by lia. rewrite Z.div_mul by lia. rewrite Z.eqb_refl.
  destruct (Z.eq_dec p 0) as [->|Hne].
  - rewrite Z.sub_0_r, Z.mod_mul by lia. rewrite Z.div_mul by lia. rewrite Z.eqb_refl. reflexivity.
  - replace (q * SA L - p) with ((SA L - p) + (q - 1) * SA L) by ring.
    rewrite Z.div_add by lia. rewrite Z.mod_add by lia.
    rewrite Z.div_small by lia. rewrite Z.mod_small by lia.
    replace (SA L - p =? 0) with false by (symmetry; apply Z.eqb_neq; lia). lia.
Qed.

Theorem reserve_footprint_fixed L v n junk bid tbid aid junk' bid' tbid' :
  wf_plist L = true -> has_varying L = false -> Forall (fun c => 0 <= c) (fixed_counts L (v_fixed v)) ->
  v_stride v = snd (esize L (v_fixed v)) -> 0 <= v_cap v < n ->
  consumption L (fst (reserve L v n 0 junk bid tbid)) =
  consumption L (fst (mkvec L n 0 (v_fixed v) aid junk' bid' tbid')).
Proof.
  intros Hwf Hv Hfc Hst Hn. unfold reserve, mkvec, consumption.
  replace (v_cap v <? n) with true by (symmetry; apply Z.ltb_lt; lia). rewrite Hv.
  destruct (insert_into true true L v bid junk) as [[v1 m] e1]. cbn [fst v_units]. f_equal.
  unfold needed_grow_fixed, needed. rewrite Hst.
  pose proof (wf_plist_Forall _ Hwf) as HF. pose proof (wf_plist_nonempty _ Hwf) as Hne.
  pose proof (pow2_pos _ (SA_pow2 L HF Hne)) as HSp.
  destruct (esize_spec L Hwf Hv (v_fixed v) (canon_cnts L (fixed_counts L (v_fixed v))) 0) as [E1 E2]; auto; try lia.
  { apply canon_cnts_match; auto. rewrite fixed_counts_length. lia. }
  { apply Z.divide_0_r. }
  destruct (esize L (v_fixed v)) as [size stride]. cbn [fst snd] in *.
  replace (n =? 0) with false by (symmetry; apply Z.eqb_neq; lia).
  rewrite <- E1 in E2. pose proof (align_up_ge size (SA L) HSp) as Hge. rewrite <- E2 in Hge.
  rewrite !Z.add_0_l. symmetry. apply units_round; [exact HSp| |lia].
  apply Z.divide_mul_l. rewrite E2. apply align_up_div. exact HSp.
Qed.
