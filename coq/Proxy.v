(* Proxy.v — executable model of what the library does THROUGH element references:
   the run tables of ElementTraits::calculate_consecutive_indices (elementTraits.hpp:113-146),
   equality and ordering of references and of vectors (elementTraits.hpp equal /
   lexicographical_compare, vector.hpp equal / lexicographical_compare,
   parameterTraits.hpp equal / lexicographical_compare, typeTraits.hpp *_MEMCMP_COMPATIBLE),
   assignment and swap between references (elementTraits.hpp assign / swap).
   Definitions only. *)
From Coq Require Import ZArith List Bool.
From Cntgs Require Import Base Layout Mem Vector.
Import ListNotations.
Local Open Scope Z_scope.

(* ---------- typeTraits.hpp: which value types take the memcmp fast paths ---------- *)
(* EQUALITY_MEMCMP_COMPATIBLE<T,T>: integral types and std::byte (pointers too; none here) *)
Definition eqm (p : param) : bool :=
  match pty p with TUInt | TSInt | TU8 | TS8 | TByte => true | _ => false end.
(* LEXICOGRAPHICAL_MEMCMP_COMPATIBLE<T>: byte types with T(-1) > T(1) *)
Definition lxm (p : param) : bool :=
  match pty p with TU8 | TByte => true | _ => false end.
(* std::is_trivially_copy_assignable ([mv] = false) / std::is_trivially_move_assignable
   ([mv] = true): the library keeps one run table for each (the instrumented type TTrkC has
   defaulted, hence trivial, assignment operators) *)
Definition tasg (mv : bool) (p : param) : bool :=
  match pty p with TTrk => false | TTrkMA => negb mv | TTrkCA => mv | _ => true end.
(* IS_TRIVIALLY_SWAPPABLE: trivially destructible, move constructible and move assignable,
   no ADL swap (std::byte lives in namespace std, so ADL finds std::swap for it and the
   library swaps it object by object) *)
Definition tswp (p : param) : bool := match pty p with TTrk | TTrkC | TByte | TTrkMA | TTrkMC | TSw => false | _ => true end.

(* ---------- calculate_consecutive_indices ---------- *)
Inductive ridx := RSkip | RManual | REnd (e : nat).

(* [bpad] (BreakAtPadding): a run is broken in front of a field that may be preceded by
   alignment padding (previous trailing alignment smaller than the field's alignment), so
   that a byte-wise comparison of a run never reads padding; [bspan] (BreakBehindSpan): a
   run ends behind every FixedSize/VaryingSize field, so that a run compared for equality
   holds at most one field of varying length *)
Fixpoint runs_from (pred : param -> bool) (bpad bspan : bool) (L : list param) (pv : list Z)
         (i index : nat) (acc : list ridx) : list ridx :=
  match L, pv with
  | p :: L', pt :: pv' =>
      if pred p then
        let index1 := if bpad && negb (Nat.eqb i 0) && (pt <? pal p) then i else index in
        let acc1 := upd index1 (REnd i) acc in
        let index2 := if bspan && negb (is_plain p) then S i else index1 in
        runs_from pred bpad bspan L' pv' (S i) index2 acc1
      else runs_from pred bpad bspan L' pv' (S i) (S i) (upd i RManual acc)
  | _, _ => acc
  end.
Definition runs (pred : param -> bool) (bpad bspan : bool) (L : list param) : list ridx :=
  runs_from pred bpad bspan L (prevs L) 0 0 (repeat RSkip (length L)).
Definition runs_asg (mv : bool) (L : list param) := runs (tasg mv) false false L.
Definition runs_swp (L : list param) := runs tswp false false L.
Definition runs_eq (L : list param) := runs eqm true true L.
Definition runs_lex (L : list param) := runs lxm true false L.

(* ElementTraits::IS_PADDING_FREE: no alignment step is ever taken, neither between the
   fields of an element nor between elements *)
Definition pparam0 : param := {| pk := Plain; psz := 1; pal := 1; pty := TBlob |}.
Definition padfree (L : list param) : bool :=
  negb (prev_tr L (length L) <? SA L)
  && forallb (fun pp => negb (snd pp <? pal (fst pp))) (combine L (prevs L))
  && (if has_varying L then true
      else let p := last L pparam0 in negb (tr_align (psz p) (pal p) <? SA L)).

(* ---------- an element seen through a reference: memory + field table ---------- *)
Definition fld0 : Z * Z := (0, 0).
Definition fend (p : param) (ac : Z * Z) : Z := fst ac + snd ac * psz p.
(* the bytes [data_begin(field k), data_end(field e)) *)
Definition run_bytes (L : list param) (m : mem) (fl : list (Z * Z)) (k e : nat) : list Z :=
  let a := fst (nth k fl fld0) in
  mread m a (Z.to_nat (fend (nth e L pparam0) (nth e fl fld0) - a)).
Definition fld_objs (L : list param) (m : mem) (fl : list (Z * Z)) (k : nat) : list (list Z) :=
  read_objs m (nth k L pparam0) (nth k fl fld0).

(* ---------- comparison of single objects: the value type's own == and < ---------- *)
Definition sval (bs : list Z) : Z :=
  let v := dec bs in
  let h := 2 ^ (8 * Z.of_nat (length bs) - 1) in
  if v <? h then v else v - 2 * h.
(* IEEE-754 binary32 / binary64 objects (little endian) are sign-magnitude numbers: apart from
   NaNs, == and < of two floats are == and < of these keys (+0 and -0 both have key 0).  The
   model compares floats by their keys: NaN bit patterns ([fnan]) are outside its domain -
   the generators never produce them - and [ieee_eq] / [ieee_lt] below say what the real
   operators do on them (CompareThm.ieee_agrees: the two coincide on non-NaN objects) *)
Definition fhalf (bs : list Z) : Z := 2 ^ (8 * Z.of_nat (length bs) - 1).
Definition fmag (bs : list Z) : Z := dec bs mod fhalf bs.
Definition fneg (bs : list Z) : bool := fhalf bs <=? dec bs.
Definition fkey (bs : list Z) : Z := if fneg bs then - fmag bs else fmag bs.
Definition finf (n : nat) : Z :=
  match n with 4%nat => 2139095040 | 8%nat => 9218868437227405312 | _ => 2 ^ (8 * Z.of_nat n) end.
Definition fnan (bs : list Z) : bool := finf (length bs) <? fmag bs.
Definition ieee_eq (a b : list Z) : bool := negb (fnan a) && negb (fnan b) && (fkey a =? fkey b).
Definition ieee_lt (a b : list Z) : bool := negb (fnan a) && negb (fnan b) && (fkey a <? fkey b).

Definition obj_eq (t : ty) (a b : list Z) : bool :=
  match t with
  | TFlt => fkey a =? fkey b
  | _ => list_eqb a b
  end.
Definition obj_lt (t : ty) (a b : list Z) : bool :=
  match t with
  | TUInt | TU8 | TByte => dec a <? dec b
  | TSInt | TS8 => sval a <? sval b
  | TFlt => fkey a <? fkey b
  | _ => lex_lt a b
  end.
(* four-iterator std::equal over the objects of a span *)
Fixpoint span_eq (t : ty) (a b : list (list Z)) : bool :=
  match a, b with
  | [], [] => true
  | x :: a', y :: b' => obj_eq t x y && span_eq t a' b'
  | _, _ => false
  end.
(* std::lexicographical_compare over the objects of a span *)
Fixpoint span_lt (t : ty) (a b : list (list Z)) : bool :=
  match a, b with
  | _, [] => false
  | [], _ :: _ => true
  | x :: a', y :: b' =>
      if obj_lt t x y then true else if obj_lt t y x then false else span_lt t a' b'
  end.

(* ---------- ElementTraits::equal ---------- *)
Definition equal_one (L : list param) (m1 : mem) (fl1 : list (Z * Z)) (m2 : mem) (fl2 : list (Z * Z))
           (k : nat) : bool :=
  match nth k (runs_eq L) RSkip with
  | RSkip => true
  | RManual => span_eq (pty (nth k L pparam0)) (fld_objs L m1 fl1 k) (fld_objs L m2 fl2 k)
  | REnd e => list_eqb (run_bytes L m1 fl1 k e) (run_bytes L m2 fl2 k e)
  end.
Definition elem_equal (L : list param) (m1 : mem) (fl1 : list (Z * Z)) (m2 : mem) (fl2 : list (Z * Z)) : bool :=
  forallb (equal_one L m1 fl1 m2 fl2) (seq 0 (length L)).

(* ---------- ElementTraits::lexicographical_compare ----------
   the CONJUNCTION over the runs / fields of "this component of lhs is less than that of
   rhs" (a product order; a pinned test of the suite depends on it) *)
Definition less_one (L : list param) (m1 : mem) (fl1 : list (Z * Z)) (m2 : mem) (fl2 : list (Z * Z))
           (k : nat) : bool :=
  match nth k (runs_lex L) RSkip with
  | RSkip => true
  | RManual => span_lt (pty (nth k L pparam0)) (fld_objs L m1 fl1 k) (fld_objs L m2 fl2 k)
  | REnd e => lex_lt (run_bytes L m1 fl1 k e) (run_bytes L m2 fl2 k e)
  end.
Definition elem_less (L : list param) (m1 : mem) (fl1 : list (Z * Z)) (m2 : mem) (fl2 : list (Z * Z)) : bool :=
  forallb (less_one L m1 fl1 m2 fl2) (seq 0 (length L)).

(* ---------- vector.hpp equal / lexicographical_compare ---------- *)
Definition vfl (L : list param) (v : vec) (i : Z) : list (Z * Z) :=
  fst (load L (v_fixed v) (v_mem v) (eaddr L v i)).
Definition ref_equal (L : list param) (v1 : vec) (i : Z) (v2 : vec) (j : Z) : bool :=
  elem_equal L (v_mem v1) (vfl L v1 i) (v_mem v2) (vfl L v2 j).
Definition ref_less (L : list param) (v1 : vec) (i : Z) (v2 : vec) (j : Z) : bool :=
  elem_less L (v_mem v1) (vfl L v1 i) (v_mem v2) (vfl L v2 j).

(* four-iterator std::equal over the elements *)
Definition elems_equal (L : list param) (v1 v2 : vec) : bool :=
  (vsize L v1 =? vsize L v2)
  && forallb (fun i => ref_equal L v1 (Z.of_nat i) v2 (Z.of_nat i)) (seq 0 (Z.to_nat (vsize L v1))).
(* std::lexicographical_compare over the elements *)
Fixpoint elems_less_from (L : list param) (v1 v2 : vec) (i : Z) (fuel : nat) : bool :=
  match fuel with
  | O => (vsize L v1 <=? i) && (i <? vsize L v2)
  | S f =>
      if (vsize L v1 <=? i) || (vsize L v2 <=? i) then (vsize L v1 <=? i) && (i <? vsize L v2)
      else if ref_less L v1 i v2 i then true
      else if ref_less L v2 i v1 i then false
      else elems_less_from L v1 v2 (i + 1) f
  end.
Definition elems_less (L : list param) (v1 v2 : vec) : bool :=
  elems_less_from L v1 v2 0 (Z.to_nat (vsize L v1)).

Definition buffer (L : list param) (v : vec) : list Z := mread (v_mem v) 0 (Z.to_nat (dend L v)).

Definition vec_equal (L : list param) (v1 v2 : vec) : bool :=
  if forallb eqm L && padfree L && list_eqb (v_fixed v1) (v_fixed v2) then
    (* elements can be empty (all fixed sizes zero): the number of elements is compared first *)
    if negb (vsize L v1 =? vsize L v2) then false
    else if vsize L v1 =? 0 then true
    else list_eqb (buffer L v1) (buffer L v2)
  else elems_equal L v1 v2.

Definition vec_less (L : list param) (v1 v2 : vec) : bool :=
  if forallb lxm L && negb (has_varying L) && padfree L && list_eqb (v_fixed v1) (v_fixed v2) then
    if vsize L v1 =? 0 then negb (vsize L v2 =? 0)
    else if vsize L v2 =? 0 then false
    else if dend L v1 =? 0 then vsize L v1 <? vsize L v2       (* elements without any bytes *)
    else lex_lt (buffer L v1) (buffer L v2)
  else elems_less L v1 v2.

(* the six operators, as the library derives them from == and < *)
Definition six (eq lt gt : bool) : list bool := [eq; negb eq; lt; negb gt; gt; negb lt].
Definition cmp_vecs (L : list param) (v1 v2 : vec) : list bool :=
  six (vec_equal L v1 v2) (vec_less L v1 v2) (vec_less L v2 v1).
Definition cmp_refs (L : list param) (v1 : vec) (i : Z) (v2 : vec) (j : Z) : list bool :=
  six (ref_equal L v1 i v2 j) (ref_less L v1 i v2 j) (ref_less L v2 j v1 i).

(* ====================================================================================
   assignment and swap between element references (reference.hpp assign / swap,
   elementTraits.hpp assign_one / swap_one, parameterTraits.hpp copy / move / swap)
   ==================================================================================== *)
(* the source's and the target's memory; [same]: both references point into one vector,
   every write is then seen by both *)
Record mm := { m_s : mem; m_d : mem; m_same : bool }.
Definition wr_d (x : mm) (a : Z) (bs : list Z) : mm :=
  let md := mwrite (m_d x) a bs in
  {| m_s := if m_same x then md else m_s x; m_d := md; m_same := m_same x |}.
Definition wr_s (x : mm) (a : Z) (bs : list Z) : mm :=
  let ms := mwrite (m_s x) a bs in
  {| m_s := ms; m_d := if m_same x then ms else m_d x; m_same := m_same x |}.

(* object-wise copy / move assignment of [n] objects of a MANUAL field (std::copy /
   std::move over the span, or the single assignment of a plain field) *)
Fixpoint assign_objs (mv : bool) (p : param) (sb db : nat) (x : mm) (sa da : Z) (n : nat) : mm * list ev :=
  match n with
  | O => (x, [])
  | S n' =>
      let bs := mread (m_s x) sa (Z.to_nat (psz p)) in
      let x1 := wr_d x da bs in
      (* a moved-from instrumented object is scribbled (self-move leaves it alone) *)
      let x2 := if mv && negb (m_same x && (sa =? da)) then wr_s x1 sa (moved_bytes (psz p)) else x1 in
      let '(x3, evs) := assign_objs mv p sb db x2 (sa + psz p) (da + psz p) n' in
      (x3, (if mv then EMoveA db da (psz p) sb sa else ECopyA db da (psz p) sb sa) :: evs)
  end.

(* ElementTraits::assign<UseMove>(source, target) *)
Definition assign_one (mv : bool) (L : list param) (sb db : nat) (fls fld : list (Z * Z)) (x : mm) (k : nat)
  : mm * list ev :=
  match nth k (runs_asg mv L) RSkip with
  | RSkip => (x, [])
  | RManual =>
      assign_objs mv (nth k L pparam0) sb db x (fst (nth k fls fld0)) (fst (nth k fld fld0))
                  (Z.to_nat (snd (nth k fls fld0)))
  | REnd e =>
      let sa := fst (nth k fls fld0) in
      let n := fend (nth e L pparam0) (nth e fls fld0) - sa in
      let da := fst (nth k fld fld0) in
      (* memmove: all bytes are read before any is written *)
      (wr_d x da (mread (m_s x) sa (Z.to_nat n)), [ERaw db da (da + n)])
  end.
Fixpoint assign_all (mv : bool) (L : list param) (sb db : nat) (fls fld : list (Z * Z)) (x : mm) (ks : list nat)
  : mm * list ev :=
  match ks with
  | [] => (x, [])
  | k :: ks' =>
      let '(x1, e1) := assign_one mv L sb db fls fld x k in
      let '(x2, e2) := assign_all mv L sb db fls fld x1 ks' in
      (x2, e1 ++ e2)
  end.

(* target vector [vd] element [i] := source vector [vs] element [j] *)
Definition ref_assign (mv : bool) (L : list param) (same : bool) (vd : vec) (i : Z) (vs : vec) (j : Z)
  : vec * vec * list ev :=
  let fls := vfl L vs j in
  let fld := vfl L vd i in
  let '(x, evs) := assign_all mv L (bidn (v_bid vs)) (bidn (v_bid vd)) fls fld
                     {| m_s := v_mem vs; m_d := v_mem vd; m_same := same |} (seq 0 (length L)) in
  (set_mem vd (m_d x), set_mem vs (m_s x), evs).

(* object-wise swap of a MANUAL field; the instrumented types (TTrk, and TSw - whose only
   non-trivial operation is its ADL swap) report it *)
Fixpoint swap_objs (p : param) (xb yb : nat) (x : mm) (xa ya : Z) (n : nat) : mm * list ev :=
  match n with
  | O => (x, [])
  | S n' =>
      let sz := Z.to_nat (psz p) in
      let bx := mread (m_s x) xa sz in
      let by_ := mread (m_d x) ya sz in
      let x1 := wr_d (wr_s x xa by_) ya bx in
      let '(x2, evs) := swap_objs p xb yb x1 (xa + psz p) (ya + psz p) n' in
      (x2, (match pty p with TTrk | TSw => [ESwapO xb xa (psz p) yb ya] | _ => [] end) ++ evs)
  end.

(* ElementTraits::swap(lhs, rhs): here "s" is lhs and "d" is rhs *)
Definition swap_one (L : list param) (xb yb : nat) (flx fly : list (Z * Z)) (x : mm) (k : nat) : mm * list ev :=
  match nth k (runs_swp L) RSkip with
  | RSkip => (x, [])
  | RManual =>
      swap_objs (nth k L pparam0) xb yb x (fst (nth k flx fld0)) (fst (nth k fly fld0))
                (Z.to_nat (snd (nth k flx fld0)))
  | REnd e =>
      let xa := fst (nth k flx fld0) in
      let n := Z.to_nat (fend (nth e L pparam0) (nth e flx fld0) - xa) in
      let ya := fst (nth k fly fld0) in
      let bx := mread (m_s x) xa n in
      let by_ := mread (m_d x) ya n in
      (wr_d (wr_s x xa by_) ya bx, [ERaw xb xa (xa + Z.of_nat n); ERaw yb ya (ya + Z.of_nat n)])
  end.
Fixpoint swap_all (L : list param) (xb yb : nat) (flx fly : list (Z * Z)) (x : mm) (ks : list nat) : mm * list ev :=
  match ks with
  | [] => (x, [])
  | k :: ks' =>
      let '(x1, e1) := swap_one L xb yb flx fly x k in
      let '(x2, e2) := swap_all L xb yb flx fly x1 ks' in
      (x2, e1 ++ e2)
  end.

(* swap(va[i], vb[j]): the friend function hands its arguments to ElementTraits::swap in
   reverse order, so ElementTraits' lhs is vb[j] *)
Definition ref_swap (L : list param) (same : bool) (va : vec) (i : Z) (vb : vec) (j : Z) : vec * vec * list ev :=
  let flx := vfl L vb j in
  let fly := vfl L va i in
  let '(x, evs) := swap_all L (bidn (v_bid vb)) (bidn (v_bid va)) flx fly
                     {| m_s := v_mem vb; m_d := v_mem va; m_same := same |} (seq 0 (length L)) in
  (set_mem va (m_d x), set_mem vb (m_s x), evs).

(* ---------- iterators: a (vector, index) pair (iterator.hpp) ---------- *)
(* the results of the battery of iterator expressions the harness evaluates for the
   positions i and j of a vector of size n *)
Definition b2z (b : bool) : Z := if b then 1 else 0.
Definition iter_battery (i j n : Z) : list Z :=
  [ i - j;                                  (* it_i - it_j *)
    b2z (i =? j); b2z (negb (i =? j)); b2z (i <? j); b2z (i <=? j); b2z (j <? i); b2z (j <=? i);
    i + (j - i);                            (* (it_i + (j - i)).index() *)
    j - (j - i);                            (* (it_j - (j - i)).index() *)
    i + 1; i; i - 1 + 1;                    (* ++it, it++ (old value), --(++it) ... *)
    n - 0; 0 ].                             (* end() - begin(), begin().index() *)
