(* ByteElem.v — an element over an allocator whose value_type is std::byte (the alias
   cntgs::ContiguousElement): the block it requests is a whole number of SA-sized storage
   units that covers the element's bytes and exceeds them by less than one unit. *)
From Coq Require Import ZArith Lia List Bool.
From Cntgs Require Import Base BaseLemmas Layout LayoutThm Mem Vector Proxy Elem World C02Thm.
Import ListNotations.
Local Open Scope Z_scope.

Lemma units_tight L bytes : 0 < SA L -> 0 <= bytes ->
  bytes <= SA L * units L bytes < bytes + SA L /\ (SA L | SA L * units L bytes).
Proof.
  intros HS Hb. split; [split; [apply units_ge; assumption|]|exists (units L bytes); lia].
  unfold units.
  pose proof (Z.div_mod bytes (SA L) ltac:(lia)) as Hdm.
  pose proof (Z.mod_pos_bound bytes (SA L) HS) as Hm.
  destruct (Z.eqb_spec (bytes mod SA L) 0); lia.
Qed.

Lemma byte_element_block K L w s i : wf_plist L = true ->
  0 <= ref_bytes L (vfl L (getv w s) i) ->
  exists b, w_out (step K L w (OpEByte s i)) = OEByte true b :: w_out w /\
    ref_bytes L (vfl L (getv w s) i) <= b < ref_bytes L (vfl L (getv w s) i) + SA L /\ (SA L | b).
Proof.
  intros Hwf Hb. pose proof (wf_plist_nonempty L Hwf) as Hne. eexists. split; [reflexivity|].
  apply units_tight; [|exact Hb].
  apply pow2_pos. apply SA_pow2; [apply wf_plist_Forall; exact Hwf|exact Hne].
Qed.
