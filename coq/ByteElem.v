(* ByteElem.v — an element over an allocator whose value_type is std::byte (the alias
   cntgs::ContiguousElement): the block it requests is a whole number of SA-sized storage
   units that covers the element's bytes and exceeds them by less than one unit. *)
From Coq Require Import ZArith Lia List Bool.
From Cntgs Require Import Base BaseLemmas Layout LayoutThm Mem Vector Proxy Elem World C02Thm.
Import ListNotations.
Local Open Scope Z_scope.

Lemma units_tight L bytes : 0 < SA L -> 0 <= bytes ->
  bytes <= SA L * units L bytes < bytes + SA L /\ (SA L | SA L * units L bytes).
Proof.
  intros HS Hb. split; [split; [apply units_ge; assumption|]|exists (units L bytes); lia].
  unfold units.
  pose proof (Z.div_mod bytes (SA L) ltac:(lia)) as Hdm.
  pose proof (Z.mod_pos_bound bytes (SA L) HS) as Hm.
  destruct (Z.eqb_spec (bytes mod SA L) 0); lia.
Qed.

Lemma byte_element_block K L w s i : wf_plist L = true ->
  0 <= ref_bytes L (vfl L (getv w s) i) ->
  exists b, w_out (step K L w (OpEByte s i)) = OEByte true b :: w_out w /\
    ref_bytes L (vfl L (getv w s) i) <= b < ref_bytes L (vfl L (getv w s) i) + SA L /\ (SA L | b).
Proof.
  intros Hwf Hb. pose proof (wf_plist_nonempty L Hwf) as Hne. eexists. split; [reflexivity|].
  apply units_tight; [|exact Hb].
  apply pow2_pos. apply SA_pow2; [apply wf_plist_Forall; exact Hwf|exact Hne].
Qed.

(* ---------- an element's block always covers what is copied into it (C02 for elements) ---------- *)
Lemma SA_pos_wf L : wf_plist L = true -> 0 < SA L.
Proof.
  intros Hwf. apply pow2_pos. apply SA_pow2; [apply wf_plist_Forall; exact Hwf|apply wf_plist_nonempty; exact Hwf].
Qed.

(* value_type{reference}: the new block holds at least size_in_bytes() bytes *)
Theorem elem_from_ref_block_covers mv L ms fls sb aid junk nb : wf_plist L = true ->
  0 <= ref_bytes L fls ->
  let el := snd (fst (elem_from_ref mv L ms fls sb aid junk nb)) in
  ref_bytes L fls <= SA L * e_units el.
Proof.
  intros Hwf Hb. cbv zeta. unfold elem_from_ref.
  destruct (store_and_load mv L ms fls sb (ref_bytes L fls) junk nb) as [[[ms1 md1] fld] evs].
  cbn [fst snd e_units]. apply units_ge; [apply SA_pos_wf; exact Hwf|exact Hb].
Qed.

(* element move assignment between unequal non-propagating allocators on the general path: the
   target's block is reused ONLY when the source's bytes fit into it (the library compares the
   byte count with the unit count - conservative, never too small), otherwise a block of the
   source's unit count is requested *)
Theorem elem_move_assign_block_covers pocma ae L d src junk nb : wf_plist L = true ->
  (ae || pocma || (e_aid d =? e_aid src)) = false ->
  (fixed_or_plain L && match e_bid d with Some _ => true | None => false end) = false ->
  0 <= e_units d ->
  let d' := fst (fst (fst (elem_move_assign pocma ae L d src junk nb))) in
  if e_units d <? ref_bytes L (e_fl src)
  then e_units d' = e_units src /\ e_bid d' = Some nb
  else ref_bytes L (e_fl src) <= SA L * e_units d' /\ e_units d' = e_units d.
Proof.
  intros Hwf Hns Hpath Hu. cbv zeta. unfold elem_move_assign. rewrite Hns, Hpath.
  destruct (Z.ltb_spec (e_units d) (ref_bytes L (e_fl src))) as [Hlt|Hge].
  - destruct (elem_destruct L d) as [d1 e1].
    destruct (store_and_load true L (e_mem src) (e_fl src) (bidn (e_bid src)) (ref_bytes L (e_fl src)) junk nb) as [[[ms md] fld] e2].
    cbn [fst snd e_units e_bid]. split; reflexivity.
  - assert (Hd1 : e_units (fst (elem_destruct L d)) = e_units d).
    { unfold elem_destruct. destruct (e_bid d); [|reflexivity]. destruct (all_dtriv L); [reflexivity|].
      destruct (destruct_fields L (e_fl d) n (e_mem d)) as [m evs]. reflexivity. }
    destruct (elem_destruct L d) as [d1 e1]. cbn [fst] in Hd1.
    destruct (store_and_load true L (e_mem src) (e_fl src) (bidn (e_bid src)) (ref_bytes L (e_fl src)) (e_mem d1) (bidn (e_bid d1)))
      as [[[ms md] fld] e2].
    cbn [fst snd e_units]. rewrite Hd1. split; [|reflexivity].
    pose proof (SA_pos_wf L Hwf) as HS. nia.
Qed.
