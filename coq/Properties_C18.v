(* C18 — empty, zero-capacity and default-constructed vectors are fully usable. *)
From Coq Require Import ZArith List Bool.
From Cntgs Require Import Base Layout Mem Vector World Spec Rep StableThm Refine NtRefine LayoutHist.
Import ListNotations.
Local Open Scope Z_scope.

(* the refinement theorems (C01) hold from the empty state on and impose no lower bound on
   the capacity: capacity 0 is covered; an emptied vector represents the empty list *)
Theorem C18_clear_gives_empty : forall L v l, wf_plist L = true -> all_triv L = true ->
  Rep L v l -> Rep L (fst (clear L v)) [].
Proof. intros L v l Hwf Ht R. exact (clear_rep L Hwf Ht v l R). Qed.
Print Assumptions C18_clear_gives_empty.

(* [zero_inv]: element 0 starts at offset 0 and an empty vector has data_end() =
   data_begin(); established by construction, kept by emplace_back and every shrink *)
Theorem C18_fresh_vector : forall L cap budget fixed aid junk bid tbid,
  zero_inv L (fst (mkvec L cap budget fixed aid junk bid tbid)).
Proof. exact zero_inv_mkvec. Qed.
Print Assumptions C18_fresh_vector.

Theorem C18_emplace_keeps_zero_inv : forall L v t, wf_plist L = true -> 0 <= vsize L v ->
  (has_varying L = true -> (Z.to_nat (t_size (v_tbl v)) < length (t_slots (v_tbl v)))%nat) ->
  zero_inv L v -> zero_inv L (fst (emplace_back L v t)).
Proof. exact zero_inv_emplace. Qed.
Print Assumptions C18_emplace_keeps_zero_inv.

Theorem C18_shrink_keeps_zero_inv : forall L v n, 0 <= n -> zero_inv L v -> zero_inv L (resize L v n).
Proof. exact zero_inv_resize. Qed.
Print Assumptions C18_shrink_keeps_zero_inv.

Theorem C18_cleared_vector : forall L v, all_triv L = true -> 0 <= vsize L v -> zero_inv L v ->
  let v' := fst (clear L v) in
  vsize L v' = 0 /\ dend L v' = 0 /\ zero_inv L v'.
Proof. exact clear_empty. Qed.
Print Assumptions C18_cleared_vector.

(* a default-constructed vector: size 0, no memory, data_end() = data_begin(), nothing to
   free, clear() keeps it empty *)
Theorem C18_default_constructed : forall L,
  vsize L (vec_default L) = 0 /\ v_bid (vec_default L) = None /\ dend L (vec_default L) = 0 /\
  destroy L (vec_default L) = [] /\ vsize L (fst (clear L (vec_default L))) = 0.
Proof. exact default_vector_empty. Qed.
Print Assumptions C18_default_constructed.

(* ---------- every list, every way of becoming empty ---------- *)
Theorem C18_clear_gives_empty_every_list : forall L, wf_plist L = true ->
  forall v l, Rep L v l -> Rep L (fst (clear L v)) [].
Proof. exact clear_rep_nt. Qed.
Print Assumptions C18_clear_gives_empty_every_list.

Theorem C18_empty_state : forall L v, wf_plist L = true -> Rep L v [] -> vsize L v = 0 /\ dend L v = 0.
Proof. exact rep_empty. Qed.
Print Assumptions C18_empty_state.

(* a vector that is empty after ANY valid history from construction (never filled; emptied by
   pop_back / erase / erase(first,last) / clear, in any mixture with emplace_back and reserve;
   capacity 0 included): size() = 0, data_end() = data_begin(), and it represents the empty
   list - so whatever valid history follows is covered by the refinement theorem (C01) again:
   "after reserve / emplace_back it behaves like any other vector" *)
Theorem C18_emptied_after_every_history : forall L cap budget fixed aid junk bid tbid h,
  wf_plist L = true -> 0 <= cap -> Forall (fun c => 0 <= c) fixed ->
  let v0 := fst (mkvec L cap budget fixed aid junk bid tbid) in
  let s0 := {| s_cap := cap; s_elems := [] |} in
  shist_valid L (fixed_counts L fixed) s0 h -> nt_hist_okx L s0 h ->
  s_elems (srun s0 h) = [] ->
  let v := vrun L junk v0 h in
  Rep L v [] /\ vsize L v = 0 /\ dend L v = 0.
Proof. exact emptied_after_every_history. Qed.
Print Assumptions C18_emptied_after_every_history.
