(* C03 — objects of AlignAs<T,A> parameters are always A-aligned.
   Statements only; proofs are in LayoutThm.v (placement) and Refine.v (vector level). *)
From Coq Require Import ZArith List Bool.
From Cntgs Require Import Base BaseLemmas Layout LayoutThm Mem Vector Proxy Spec Rep Refine NtRefine LayoutHist.
Import ListNotations.
Local Open Scope Z_scope.

(* Soundness of the compile-time trailing-alignment analysis: for EVERY well-formed
   parameter list, every object count per field and every address that is a multiple of
   the storage alignment, every field is stored at (emplace_at) / loaded from
   (load_element_at) an address that is a multiple of its parameter's alignment. *)
Theorem C03_placement_aligned : forall L cnts a,
  wf_plist L = true -> Forall2 cnt_ok L cnts -> 0 <= a -> (SA L | a) ->
  Forall2 (fun p x => (pal p | x)) L (fst (place L cnts a)).
Proof. exact place_aligned. Qed.
Print Assumptions C03_placement_aligned.

(* relocation by a multiple of the storage alignment (memmove in erase, memcpy into a new
   block whose base is SA-aligned) shifts every field by that amount: alignment is kept *)
Theorem C03_relocation_keeps_alignment : forall L cnts a d,
  wf_plist L = true -> (SA L | d) ->
  fst (place L cnts (a + d)) = map (fun x => x + d) (fst (place L cnts a)).
Proof. exact place_shift_fst. Qed.
Print Assumptions C03_relocation_keeps_alignment.

(* the as-written bit tricks of memory.hpp compute the mathematical functions the
   theorems above are stated with, in the no-overflow domain *)
Theorem C03_align_as_written : forall pos k, 0 <= k < 62 -> 0 <= pos < 2^62 ->
  align64 pos (2^k) = align_up pos (2^k).
Proof. exact align64_spec. Qed.
Print Assumptions C03_align_as_written.

Theorem C03_lowbit_as_written : forall v, 0 <= v < 2^64 -> lowbit64 v = lowbit v.
Proof. exact lowbit64_spec. Qed.
Print Assumptions C03_lowbit_as_written.

(* non-vacuity: a mixed list with decreasing and increasing alignments *)
Example C03_example :
  let L := [ {| pk := Plain; psz := 4; pal := 1; pty := TUInt |};
             {| pk := Plain; psz := 8; pal := 8; pty := TUInt |};
             {| pk := Varying; psz := 4; pal := 16; pty := TBlob |};
             {| pk := Fixed; psz := 3; pal := 2; pty := TBlob |} ] in
  wf_plist L = true /\ place L [1; 1; 3; 5] 32 = ([32; 40; 48; 60], 75).
Proof. vm_compute. split; reflexivity. Qed.

(* ---------- vector level: what the library computes when element i is accessed ----------
   In EVERY represented state (Rep: list of tuples, offsets, bookkeeping - what every valid
   history reaches) the field table loaded for element i (address and object count of each
   field) is the placement of that element's tuple: the element starts at a multiple of the
   storage alignment and every field at a multiple of its parameter's alignment (C03); every
   field has exactly the object count of the stored tuple, the first field starts at the
   element start, the byte extents of the fields are ordered, disjoint and inside the
   element, the element ends before data_end() and before every later element starts (C04).
   Offsets are relative to the block, whose base the allocator aligns to the storage unit. *)
Theorem C03_represented_states : forall L, wf_plist L = true -> forall v l offs, RepO L v l offs ->
  forall i, (i < length l)%nat ->
    let t := nth i l [] in
    let a := eaddr L v (Z.of_nat i) in
    let fl := vfl L v (Z.of_nat i) in
    0 <= a /\ (SA L | a) /\
    Forall2 (fun p x => (pal p | x)) L (map fst fl) /\
    map snd fl = cnts_of t /\
    hd a (map fst fl) = a /\
    ordered_from a (extents L (cnts_of t) (map fst fl)) (elem_end L a t) /\
    elem_end L a t <= dend L v /\
    (forall k, (i < k < length l)%nat -> elem_end L a t <= eaddr L v (Z.of_nat k)).
Proof. exact rep_element_layout. Qed.
Print Assumptions C03_represented_states.

(* ... hence after EVERY valid history of emplace_back / pop_back / erase / clear / reserve from
   construction, for every well-formed list (erase with elements behind the erased ones on
   trivially relocatable lists and on lists
   without a VaryingSize parameter, NtRefine.nt_hist_okx) *)
Theorem C03_every_history : forall L cap budget fixed aid junk bid tbid h,
  wf_plist L = true -> 0 <= cap -> Forall (fun c => 0 <= c) fixed ->
  let v0 := fst (mkvec L cap budget fixed aid junk bid tbid) in
  let s0 := {| s_cap := cap; s_elems := [] |} in
  shist_valid L (fixed_counts L fixed) s0 h -> nt_hist_okx L s0 h ->
  let v := vrun L junk v0 h in
  let l := s_elems (srun s0 h) in
  forall i, (i < length l)%nat ->
    let t := nth i l [] in
    let a := eaddr L v (Z.of_nat i) in
    let fl := vfl L v (Z.of_nat i) in
    0 <= a /\ (SA L | a) /\
    Forall2 (fun p x => (pal p | x)) L (map fst fl) /\
    map snd fl = cnts_of t /\
    hd a (map fst fl) = a /\
    ordered_from a (extents L (cnts_of t) (map fst fl)) (elem_end L a t) /\
    elem_end L a t <= dend L v /\
    (forall k, (i < k < length l)%nat -> elem_end L a t <= eaddr L v (Z.of_nat k)).
Proof. exact layout_every_history. Qed.
Print Assumptions C03_every_history.
