(* C03 — objects of AlignAs<T,A> parameters are always A-aligned.
   Statements only; proofs are in LayoutThm.v (placement) and Refine.v (vector level). *)
From Coq Require Import ZArith List Bool.
From Cntgs Require Import Base BaseLemmas Layout LayoutThm.
Import ListNotations.
Local Open Scope Z_scope.

(* Soundness of the compile-time trailing-alignment analysis: for EVERY well-formed
   parameter list, every object count per field and every address that is a multiple of
   the storage alignment, every field is stored at (emplace_at) / loaded from
   (load_element_at) an address that is a multiple of its parameter's alignment. *)
Theorem C03_placement_aligned : forall L cnts a,
  wf_plist L = true -> Forall2 cnt_ok L cnts -> 0 <= a -> (SA L | a) ->
  Forall2 (fun p x => (pal p | x)) L (fst (place L cnts a)).
Proof. exact place_aligned. Qed.
Print Assumptions C03_placement_aligned.

(* relocation by a multiple of the storage alignment (memmove in erase, memcpy into a new
   block whose base is SA-aligned) shifts every field by that amount: alignment is kept *)
Theorem C03_relocation_keeps_alignment : forall L cnts a d,
  wf_plist L = true -> (SA L | d) ->
  fst (place L cnts (a + d)) = map (fun x => x + d) (fst (place L cnts a)).
Proof. exact place_shift_fst. Qed.
Print Assumptions C03_relocation_keeps_alignment.

(* the as-written bit tricks of memory.hpp compute the mathematical functions the
   theorems above are stated with, in the no-overflow domain *)
Theorem C03_align_as_written : forall pos k, 0 <= k < 62 -> 0 <= pos < 2^62 ->
  align64 pos (2^k) = align_up pos (2^k).
Proof. exact align64_spec. Qed.
Print Assumptions C03_align_as_written.

Theorem C03_lowbit_as_written : forall v, 0 <= v < 2^64 -> lowbit64 v = lowbit v.
Proof. exact lowbit64_spec. Qed.
Print Assumptions C03_lowbit_as_written.

(* non-vacuity: a mixed list with decreasing and increasing alignments *)
Example C03_example :
  let L := [ {| pk := Plain; psz := 4; pal := 1; pty := TUInt |};
             {| pk := Plain; psz := 8; pal := 8; pty := TUInt |};
             {| pk := Varying; psz := 4; pal := 16; pty := TBlob |};
             {| pk := Fixed; psz := 3; pal := 2; pty := TBlob |} ] in
  wf_plist L = true /\ place L [1; 1; 3; 5] 32 = ([32; 40; 48; 60], 75).
Proof. vm_compute. split; reflexivity. Qed.
