(* SameVec.v — reference assignment and swap WITHIN ONE VECTOR (C11).
   AssignThm / MoveThm / SwapThm state what assignment and swap do between references into
   two memories.  Inside one vector both references see every write (Proxy.mm, m_same = true).
   This file proves that, as long as every access through the "source" reference stays off the
   target element's extent D and every access through the "target" reference stays inside it -
   which is what two different elements of a vector give -, the one-memory run is the
   two-memory run glued together: at every address the single memory holds what the target
   memory holds inside D and what the source memory holds elsewhere; the events are the same.
   The two-memory theorems then carry over: v[i] = v[j], v[i] = std::move(v[j]) and
   swap(v[i], v[j]) for i <> j. *)
From Coq Require Import ZArith List Bool Lia.
From Cntgs Require Import Base BaseLemmas Layout LayoutThm Mem MemLemmas Vector Proxy.
Import ListNotations.
Local Open Scope Z_scope.

Section Sim.
  Variable D : Z -> bool.

  Definition simr (x y : mm) : Prop :=
    m_same x = true /\ m_same y = false /\ (forall a, m_s x a = m_d x a) /\
    (forall a, m_d x a = if D a then m_d y a else m_s y a).

  Definition inD (a n : Z) : Prop := forall z, a <= z < a + n -> D z = true.
  Definition offD (a n : Z) : Prop := forall z, a <= z < a + n -> D z = false.

  Lemma inD_sub a n a' n' : inD a n -> a <= a' -> a' + n' <= a + n -> inD a' n'.
  Proof. intros H H1 H2 z Hz. apply H. lia. Qed.
  Lemma offD_sub a n a' n' : offD a n -> a <= a' -> a' + n' <= a + n -> offD a' n'.
  Proof. intros H H1 H2 z Hz. apply H. lia. Qed.

  Lemma sim_read_s x y a n : simr x y -> offD a (Z.of_nat n) -> mread (m_s x) a n = mread (m_s y) a n.
  Proof.
    intros (_ & _ & Hsd & Hm) Ho. apply mread_ext. intros z Hz. rewrite Hsd, Hm, (Ho z Hz). reflexivity.
  Qed.
  Lemma sim_read_d x y a n : simr x y -> inD a (Z.of_nat n) -> mread (m_d x) a n = mread (m_d y) a n.
  Proof.
    intros (_ & _ & _ & Hm) Hi. apply mread_ext. intros z Hz. rewrite Hm, (Hi z Hz). reflexivity.
  Qed.

  Lemma sim_wr_d x y a bs : simr x y -> inD a (Z.of_nat (length bs)) -> simr (wr_d x a bs) (wr_d y a bs).
  Proof.
    intros (Hx & Hy & Hsd & Hm) Hi. unfold simr, wr_d. rewrite Hx, Hy. cbn [m_s m_d m_same].
    repeat split; intros z. unfold mwrite.
    destruct (inr a (Z.of_nat (length bs)) z) eqn:E.
    - apply inr_true in E. rewrite (Hi z E). reflexivity.
    - apply Hm.
  Qed.
  Lemma sim_wr_s x y a bs : simr x y -> offD a (Z.of_nat (length bs)) -> simr (wr_s x a bs) (wr_s y a bs).
  Proof.
    intros (Hx & Hy & Hsd & Hm) Ho. unfold simr, wr_s. rewrite Hx, Hy. cbn [m_s m_d m_same].
    repeat split; intros z. unfold mwrite.
    destruct (inr a (Z.of_nat (length bs)) z) eqn:E.
    - apply inr_true in E. rewrite (Ho z E). reflexivity.
    - rewrite Hsd. apply Hm.
  Qed.

  Lemma moved_bytes_length n : length (moved_bytes n) = Z.to_nat n.
  Proof. unfold moved_bytes. apply repeat_length. Qed.

  (* object-wise assignment of a MANUAL field *)
  Lemma assign_objs_sim mv p sb db : 0 < psz p -> forall n x y sa da, simr x y ->
    offD sa (Z.of_nat n * psz p) -> inD da (Z.of_nat n * psz p) ->
    simr (fst (assign_objs mv p sb db x sa da n)) (fst (assign_objs mv p sb db y sa da n)) /\
    snd (assign_objs mv p sb db x sa da n) = snd (assign_objs mv p sb db y sa da n).
  Proof.
    intros Hp. induction n as [|n IH]; intros x y sa da Hsim Ho Hi; [cbn [assign_objs fst snd]; auto|].
    cbn [assign_objs].
    assert (Hq : 0 <= Z.of_nat n * psz p) by (apply Z.mul_nonneg_nonneg; lia).
    assert (HS : Z.of_nat (S n) * psz p = psz p + Z.of_nat n * psz p) by (rewrite Nat2Z.inj_succ; ring).
    rewrite HS in Ho, Hi.
    rewrite (sim_read_s x y sa (Z.to_nat (psz p)) Hsim)
      by (apply (offD_sub _ _ _ _ Ho); rewrite ?Z2Nat.id; lia).
    set (bs := mread (m_s y) sa (Z.to_nat (psz p))).
    assert (Hbl : Z.of_nat (length bs) = psz p) by (unfold bs; rewrite mread_length, Z2Nat.id; lia).
    assert (H1 : simr (wr_d x da bs) (wr_d y da bs)).
    { apply sim_wr_d; [exact Hsim|]. apply (inD_sub _ _ _ _ Hi); lia. }
    assert (Hne : (sa =? da) = false).
    { apply Z.eqb_neq. intros ->. pose proof (Ho da ltac:(lia)). pose proof (Hi da ltac:(lia)). congruence. }
    destruct Hsim as (Hx & Hy & _). rewrite Hx, Hy, Hne. cbn [andb negb]. rewrite andb_true_r.
    assert (H2 : simr (if mv then wr_s (wr_d x da bs) sa (moved_bytes (psz p)) else wr_d x da bs)
                      (if mv then wr_s (wr_d y da bs) sa (moved_bytes (psz p)) else wr_d y da bs)).
    { destruct mv; [|exact H1]. apply sim_wr_s; [exact H1|]. rewrite moved_bytes_length.
      apply (offD_sub _ _ _ _ Ho); rewrite ?Z2Nat.id; lia. }
    specialize (IH _ _ (sa + psz p) (da + psz p) H2
                   ltac:(apply (offD_sub _ _ _ _ Ho); lia) ltac:(apply (inD_sub _ _ _ _ Hi); lia)).
    destruct (assign_objs mv p sb db (if mv then wr_s (wr_d x da bs) sa (moved_bytes (psz p)) else wr_d x da bs)
                          (sa + psz p) (da + psz p) n) as [x3 e3].
    destruct (assign_objs mv p sb db (if mv then wr_s (wr_d y da bs) sa (moved_bytes (psz p)) else wr_d y da bs)
                          (sa + psz p) (da + psz p) n) as [y3 f3].
    cbn [fst snd] in *. destruct IH as [I1 I2]. split; [exact I1|]. rewrite I2. reflexivity.
  Qed.

  (* object-wise swap of a MANUAL field: "s" is one element, "d" the other *)
  Lemma swap_objs_sim p xb yb : 0 < psz p -> forall n x y xa ya, simr x y ->
    offD xa (Z.of_nat n * psz p) -> inD ya (Z.of_nat n * psz p) ->
    simr (fst (swap_objs p xb yb x xa ya n)) (fst (swap_objs p xb yb y xa ya n)) /\
    snd (swap_objs p xb yb x xa ya n) = snd (swap_objs p xb yb y xa ya n).
  Proof.
    intros Hp. induction n as [|n IH]; intros x y xa ya Hsim Ho Hi; [cbn [swap_objs fst snd]; auto|].
    cbn [swap_objs].
    assert (Hq : 0 <= Z.of_nat n * psz p) by (apply Z.mul_nonneg_nonneg; lia).
    assert (HS : Z.of_nat (S n) * psz p = psz p + Z.of_nat n * psz p) by (rewrite Nat2Z.inj_succ; ring).
    rewrite HS in Ho, Hi.
    rewrite (sim_read_s x y xa (Z.to_nat (psz p)) Hsim)
      by (apply (offD_sub _ _ _ _ Ho); rewrite ?Z2Nat.id; lia).
    rewrite (sim_read_d x y ya (Z.to_nat (psz p)) Hsim)
      by (apply (inD_sub _ _ _ _ Hi); rewrite ?Z2Nat.id; lia).
    set (bx := mread (m_s y) xa (Z.to_nat (psz p))). set (by_ := mread (m_d y) ya (Z.to_nat (psz p))).
    assert (H1 : simr (wr_d (wr_s x xa by_) ya bx) (wr_d (wr_s y xa by_) ya bx)).
    { apply sim_wr_d; [apply sim_wr_s; [exact Hsim|]|].
      - unfold by_. rewrite mread_length. apply (offD_sub _ _ _ _ Ho); rewrite ?Z2Nat.id; lia.
      - unfold bx. rewrite mread_length. apply (inD_sub _ _ _ _ Hi); rewrite ?Z2Nat.id; lia. }
    specialize (IH _ _ (xa + psz p) (ya + psz p) H1
                   ltac:(apply (offD_sub _ _ _ _ Ho); lia) ltac:(apply (inD_sub _ _ _ _ Hi); lia)).
    destruct (swap_objs p xb yb (wr_d (wr_s x xa by_) ya bx) (xa + psz p) (ya + psz p) n) as [x3 e3].
    destruct (swap_objs p xb yb (wr_d (wr_s y xa by_) ya bx) (xa + psz p) (ya + psz p) n) as [y3 f3].
    cbn [fst snd] in *. destruct IH as [I1 I2]. split; [exact I1|]. rewrite I2. reflexivity.
  Qed.

  (* ---------- one step and all steps of ElementTraits::assign / swap ---------- *)
  Variable L : list param.
  Hypothesis Hpos : forall k, 0 < psz (nth k L pparam0).

  (* number of bytes step [k] of a run table touches, as the code computes it *)
  Definition steplen (R : list ridx) (fl : list (Z * Z)) (k : nat) : Z :=
    match nth k R RSkip with
    | RSkip => 0
    | RManual => Z.of_nat (Z.to_nat (snd (nth k fl fld0))) * psz (nth k L pparam0)
    | REnd e => Z.of_nat (Z.to_nat (fend (nth e L pparam0) (nth e fl fld0) - fst (nth k fl fld0)))
    end.

  Lemma assign_one_sim mv sb db fls fld x y k : simr x y ->
    offD (fst (nth k fls fld0)) (steplen (runs_asg mv L) fls k) ->
    inD (fst (nth k fld fld0)) (steplen (runs_asg mv L) fls k) ->
    simr (fst (assign_one mv L sb db fls fld x k)) (fst (assign_one mv L sb db fls fld y k)) /\
    snd (assign_one mv L sb db fls fld x k) = snd (assign_one mv L sb db fls fld y k).
  Proof.
    intros Hsim Ho Hi. unfold assign_one, steplen in *.
    destruct (nth k (runs_asg mv L) RSkip) as [| |e]; [cbn [fst snd]; auto| |].
    - apply assign_objs_sim; [apply Hpos|exact Hsim|exact Ho|exact Hi].
    - cbn [fst snd]. split; [|reflexivity].
      rewrite (sim_read_s x y _ _ Hsim Ho).
      apply sim_wr_d; [exact Hsim|]. rewrite mread_length. exact Hi.
  Qed.

  Lemma assign_all_sim mv sb db fls fld : forall ks x y, simr x y ->
    (forall k, In k ks -> offD (fst (nth k fls fld0)) (steplen (runs_asg mv L) fls k)) ->
    (forall k, In k ks -> inD (fst (nth k fld fld0)) (steplen (runs_asg mv L) fls k)) ->
    simr (fst (assign_all mv L sb db fls fld x ks)) (fst (assign_all mv L sb db fls fld y ks)) /\
    snd (assign_all mv L sb db fls fld x ks) = snd (assign_all mv L sb db fls fld y ks).
  Proof.
    induction ks as [|k ks IH]; intros x y Hsim Ho Hi; [cbn [assign_all fst snd]; auto|].
    cbn [assign_all].
    pose proof (assign_one_sim mv sb db fls fld x y k Hsim (Ho k (or_introl eq_refl)) (Hi k (or_introl eq_refl))) as H1.
    destruct (assign_one mv L sb db fls fld x k) as [x1 e1]. destruct (assign_one mv L sb db fls fld y k) as [y1 f1].
    cbn [fst snd] in H1. destruct H1 as [S1 E1].
    specialize (IH x1 y1 S1 (fun j Hj => Ho j (or_intror Hj)) (fun j Hj => Hi j (or_intror Hj))).
    destruct (assign_all mv L sb db fls fld x1 ks) as [x2 e2]. destruct (assign_all mv L sb db fls fld y1 ks) as [y2 f2].
    cbn [fst snd] in *. destruct IH as [S2 E2]. split; [exact S2|]. rewrite E1, E2. reflexivity.
  Qed.

  Lemma swap_one_sim xb yb flx fly x y k : simr x y ->
    offD (fst (nth k flx fld0)) (steplen (runs_swp L) flx k) ->
    inD (fst (nth k fly fld0)) (steplen (runs_swp L) flx k) ->
    simr (fst (swap_one L xb yb flx fly x k)) (fst (swap_one L xb yb flx fly y k)) /\
    snd (swap_one L xb yb flx fly x k) = snd (swap_one L xb yb flx fly y k).
  Proof.
    intros Hsim Ho Hi. unfold swap_one, steplen in *.
    destruct (nth k (runs_swp L) RSkip) as [| |e]; [cbn [fst snd]; auto| |].
    - apply swap_objs_sim; [apply Hpos|exact Hsim|exact Ho|exact Hi].
    - cbn [fst snd]. split; [|reflexivity].
      rewrite (sim_read_s x y _ _ Hsim Ho), (sim_read_d x y _ _ Hsim Hi).
      apply sim_wr_d; [apply sim_wr_s; [exact Hsim|]|]; rewrite mread_length; assumption.
  Qed.

  Lemma swap_all_sim xb yb flx fly : forall ks x y, simr x y ->
    (forall k, In k ks -> offD (fst (nth k flx fld0)) (steplen (runs_swp L) flx k)) ->
    (forall k, In k ks -> inD (fst (nth k fly fld0)) (steplen (runs_swp L) flx k)) ->
    simr (fst (swap_all L xb yb flx fly x ks)) (fst (swap_all L xb yb flx fly y ks)) /\
    snd (swap_all L xb yb flx fly x ks) = snd (swap_all L xb yb flx fly y ks).
  Proof.
    induction ks as [|k ks IH]; intros x y Hsim Ho Hi; [cbn [swap_all fst snd]; auto|].
    cbn [swap_all].
    pose proof (swap_one_sim xb yb flx fly x y k Hsim (Ho k (or_introl eq_refl)) (Hi k (or_introl eq_refl))) as H1.
    destruct (swap_one L xb yb flx fly x k) as [x1 e1]. destruct (swap_one L xb yb flx fly y k) as [y1 f1].
    cbn [fst snd] in H1. destruct H1 as [S1 E1].
    specialize (IH x1 y1 S1 (fun j Hj => Ho j (or_intror Hj)) (fun j Hj => Hi j (or_intror Hj))).
    destruct (swap_all L xb yb flx fly x1 ks) as [x2 e2]. destruct (swap_all L xb yb flx fly y1 ks) as [y2 f2].
    cbn [fst snd] in *. destruct IH as [S2 E2]. split; [exact S2|]. rewrite E1, E2. reflexivity.
  Qed.
End Sim.

From Cntgs Require Import Spec Rep ElemLemmas CompareThm RunsThm ElemThm CmpContent AssignThm MoveThm SwapThm.

(* ---------- every field of an element lies inside the element's extent ---------- *)
Section Inside.
  Variable L : list param.
  Hypothesis Hwf : wf_plist L = true.
  Variables (t : tuple) (fc : list Z).
  Hypothesis Ht : tuple_ok L fc 0 t.
  Variable a : Z.
  Hypothesis Ha : 0 <= a /\ (SA L | a).

  Let cn := cnts_of t.
  Let A := fst (place L cn a).
  Let n := length L.

  Lemma field_inside k e : (k <= e < n)%nat ->
    a <= nth k A 0 /\ nth k A 0 <= nth e A 0 + nth e cn 0 * psz (nth e L pparam0) <= elem_end L a t.
  Proof.
    intros Hke.
    assert (HlenA : length A = n).
    { unfold A, place. apply place_from_fst_length; [rewrite (prevs_length L); lia|apply (cn_len L t fc Ht)]. }
    assert (Hfirst : nth 0 A 0 = a).
    { rewrite (nth0_hd A a) by (intros E; rewrite E in HlenA; cbn [length] in HlenA; lia).
      exact (place_first L cn a Hwf (tuple_ok_cnt_ok L _ _ _ Ht) (proj1 Ha) (proj2 Ha)). }
    assert (Hlast : nth e A 0 + nth e cn 0 * psz (nth e L pparam0) <= elem_end L a t).
    { pose proof (As_end_mono L Hwf t fc Ht a (n - 1 - e) e ltac:(fold n; lia)) as M.
      replace (e + (n - 1 - e))%nat with (n - 1)%nat in M by lia.
      assert (Hend : nth (n - 1) A 0 + nth (n - 1) cn 0 * psz (nth (n - 1) L pparam0) = snd (place L cn a)).
      { pose proof (place_from_last L (prevs L) cn a (wf_plist_nonempty L Hwf)
                      ltac:(rewrite (prevs_length L); lia) (cn_len L t fc Ht)) as Hl.
        unfold fend in Hl. fold (place L cn a) in Hl. rewrite <- Hl.
        assert (Hlen2 : length (combine (fst (place L cn a)) cn) = n).
        { rewrite combine_length. fold A. rewrite HlenA. unfold cn. rewrite (cn_len L t fc Ht). apply Nat.min_id. }
        rewrite (last_nth_ (combine (fst (place L cn a)) cn) fld0), Hlen2.
        rewrite (last_nth_ L pparam0). fold n.
        pose proof (nth_fls L t fc Ht a (n - 1)%nat ltac:(fold n; lia)) as E. unfold ref_fl in E. fold cn in E. rewrite E. reflexivity. }
      unfold elem_end. fold cn. fold cn in M. fold A in M. lia. }
    pose proof (As_mono L Hwf t fc Ht a k 0 ltac:(fold n; lia)) as M0. cbn [Nat.add] in M0. fold cn in M0. fold A in M0.
    pose proof (As_mono L Hwf t fc Ht a (e - k) k ltac:(fold n; lia)) as M1.
    replace (k + (e - k))%nat with e in M1 by lia. fold cn in M1. fold A in M1.
    pose proof (len_nonneg L Hwf t e ltac:(fold n; lia)) as M2. fold cn in M2.
    lia.
  Qed.
End Inside.

From Cntgs Require Import Ordered Refine.

(* ---------- two different elements of ONE vector ---------- *)
Section SameVector.
  Variable L : list param.
  Hypothesis Hwf : wf_plist L = true.
  Variables (ts td : tuple) (fcs fcd : list Z).
  Hypothesis Hts : tuple_ok L fcs 0 ts.
  Hypothesis Htd : tuple_ok L fcd 0 td.
  Hypothesis Hcn : cnts_of td = cnts_of ts.          (* equal field sizes *)
  Variables (m : mem) (sa da : Z).                   (* ONE memory, two element starts *)
  Hypothesis Hsa : 0 <= sa /\ (SA L | sa).
  Hypothesis Hda : 0 <= da /\ (SA L | da).
  Hypothesis Hes : elem_at L m sa ts.

  Let len := elem_end L sa ts - sa.
  (* the two elements do not overlap *)
  Hypothesis Hdisj : sa + len <= da \/ da + len <= sa.

  Let D : Z -> bool := inr da len.
  Let cn := cnts_of ts.
  Let As := fst (place L cn sa).
  Let Ad := fst (place L cn da).
  Let n := length L.
  Let fls := ref_fl L ts sa.
  Let fld := ref_fl L td da.

  Lemma Hpos k : 0 < psz (nth k L pparam0).
  Proof.
    destruct (Nat.lt_ge_cases k (length L)) as [Hk|Hk]; [exact (psz_pos L Hwf k Hk)|].
    rewrite nth_overflow by lia. reflexivity.
  Qed.

  Lemma end_da : elem_end L da ts = da + len.
  Proof.
    replace da with (sa + (da - sa)) at 1 by lia. rewrite (elem_end_shift L Hwf).
    - unfold len. lia.
    - apply Z.divide_sub_r; tauto.
  Qed.

  Lemma sim0 : simr D {| m_s := m; m_d := m; m_same := true |} {| m_s := m; m_d := m; m_same := false |}.
  Proof. unfold simr. cbn [m_s m_d m_same]. repeat split. intros a. destruct (D a); reflexivity. Qed.

  (* the bytes a step handles lie inside the source element, resp. (shifted) the target element *)
  Lemma step_inside (R : list ridx) k : (k < n)%nat ->
    (forall e, nth k R RSkip = REnd e -> (k <= e < n)%nat) ->
    sa <= nth k As 0 /\ 0 <= steplen L R fls k /\ nth k As 0 + steplen L R fls k <= sa + len.
  Proof.
    intros Hk HR. unfold steplen.
    pose proof (nth_fls L ts fcs Hts sa k Hk) as Ek. fold fls in Ek. fold cn in Ek. fold As in Ek.
    pose proof (field_inside L Hwf ts fcs Hts sa Hsa k k ltac:(fold n; lia)) as Hkk. fold cn in Hkk. fold As in Hkk.
    destruct (nth k R RSkip) as [| |e] eqn:ER.
    - unfold len. lia.
    - rewrite Ek. cbn [snd]. pose proof (cn_nonneg L ts k) as Hc. fold cn in Hc.
      rewrite Z2Nat.id by exact Hc. unfold len. lia.
    - specialize (HR e eq_refl).
      pose proof (nth_fls L ts fcs Hts sa e ltac:(fold n; lia)) as Ee. fold fls in Ee. fold cn in Ee. fold As in Ee.
      pose proof (field_inside L Hwf ts fcs Hts sa Hsa k e ltac:(fold n; lia)) as Hke. fold cn in Hke. fold As in Hke.
      rewrite Ek, Ee. unfold fend. cbn [fst snd]. rewrite Z2Nat.id by lia. unfold len. lia.
  Qed.

  Lemma step_off (R : list ridx) k : (k < n)%nat ->
    (forall e, nth k R RSkip = REnd e -> (k <= e < n)%nat) ->
    offD D (fst (nth k fls fld0)) (steplen L R fls k).
  Proof.
    intros Hk HR z Hz. destruct (step_inside R k Hk HR) as (H1 & H2 & H3).
    pose proof (nth_fls L ts fcs Hts sa k Hk) as Ek. fold fls in Ek. rewrite Ek in Hz. cbn [fst] in Hz.
    fold cn in Hz. fold As in Hz. unfold D. apply inr_false. lia.
  Qed.

  Lemma step_in (R : list ridx) k : (k < n)%nat ->
    (forall e, nth k R RSkip = REnd e -> (k <= e < n)%nat) ->
    inD D (fst (nth k fld fld0)) (steplen L R fls k).
  Proof.
    intros Hk HR z Hz. destruct (step_inside R k Hk HR) as (H1 & H2 & H3).
    pose proof (nth_fld L ts td fcd Htd Hcn da k Hk) as Ek. fold fld in Ek. rewrite Ek in Hz. cbn [fst] in Hz.
    fold cn in Hz. fold Ad in Hz.
    pose proof (Ad_As L Hwf ts fcs Hts sa da Hsa Hda k Hk) as E. fold cn in E. fold As in E. fold Ad in E.
    unfold D. apply inr_true. lia.
  Qed.

  Lemma asg_bounds mv k e : nth k (runs_asg mv L) RSkip = REnd e -> (k <= e < n)%nat.
  Proof. intros H. destruct (runs_asg_structure mv L) as [_ [Hs _]]. destruct (Hs _ _ H) as [Hb _]. exact Hb. Qed.
  Lemma swp_bounds k e : nth k (runs_swp L) RSkip = REnd e -> (k <= e < n)%nat.
  Proof. intros H. destruct (runs_swp_structure L) as [_ [Hs _]]. destruct (Hs _ _ H) as [Hb _]. exact Hb. Qed.

  (* the one-memory run is the two-memory run glued together, with the same events *)
  Lemma assign_same_is_glued mv sb db :
    let x := assign_all mv L sb db fls fld {| m_s := m; m_d := m; m_same := true |} (seq 0 n) in
    let y := assign_all mv L sb db fls fld {| m_s := m; m_d := m; m_same := false |} (seq 0 n) in
    simr D (fst x) (fst y) /\ snd x = snd y.
  Proof.
    cbv zeta. apply (assign_all_sim D L Hpos); [exact sim0| |].
    - intros k Hk. apply in_seq in Hk. apply step_off; [lia|apply asg_bounds].
    - intros k Hk. apply in_seq in Hk. apply step_in; [lia|apply asg_bounds].
  Qed.

  Lemma swap_same_is_glued xb yb :
    let x := swap_all L xb yb fls fld {| m_s := m; m_d := m; m_same := true |} (seq 0 n) in
    let y := swap_all L xb yb fls fld {| m_s := m; m_d := m; m_same := false |} (seq 0 n) in
    simr D (fst x) (fst y) /\ snd x = snd y.
  Proof.
    cbv zeta. apply (swap_all_sim D L Hpos); [exact sim0| |].
    - intros k Hk. apply in_seq in Hk. apply step_off; [lia|apply swp_bounds].
    - intros k Hk. apply in_seq in Hk. apply step_in; [lia|apply swp_bounds].
  Qed.

  (* ---------- v[i] = v[j], i <> j ---------- *)
  Theorem same_vector_copy_assign sb db :
    let x' := fst (assign_all false L sb db fls fld {| m_s := m; m_d := m; m_same := true |} (seq 0 n)) in
    (forall a, m_s x' a = m_d x' a) /\
    elem_at L (m_d x') da ts /\
    (forall y, ~ (da <= y < da + len) -> m_d x' y = m y).
  Proof.
    cbv zeta. destruct (assign_same_is_glued false sb db) as [(_ & _ & Hsd & Hm) _].
    pose proof (ref_assign_copy L Hwf ts td fcs fcd Hts Htd Hcn m m sa da Hsa Hda Hes sb db) as H.
    cbv zeta in H. fold fls in H. fold fld in H. fold n in H. fold len in H.
    destruct H as (H1 & H2 & H3).
    split; [exact Hsd|]. split.
    - apply (elem_at_ext L Hwf _ _ da ts fcs Hts) with (2 := H2).
      intros z Hz. rewrite end_da in Hz. rewrite Hm. unfold D.
      replace (inr da len z) with true by (symmetry; apply inr_true; lia). reflexivity.
    - intros z Hz. rewrite Hm. unfold D. replace (inr da len z) with false by (symmetry; apply inr_false; lia).
      rewrite H1. reflexivity.
  Qed.

  (* ---------- v[i] = std::move(v[j]), i <> j ---------- *)
  Theorem same_vector_move_assign sb db :
    let x' := fst (assign_all true L sb db fls fld {| m_s := m; m_d := m; m_same := true |} (seq 0 n)) in
    (forall a, m_s x' a = m_d x' a) /\
    elem_at L (m_d x') da ts /\
    (forall y, ~ (da <= y < da + len) ->
       m_d x' y = if existsb (fun k => man L k && MoveThm.rx L ts sa k y) (seq 0 n) then 238 else m y).
  Proof.
    cbv zeta. destruct (assign_same_is_glued true sb db) as [(_ & _ & Hsd & Hm) _].
    pose proof (ref_move_assign L Hwf ts td fcs fcd Hts Htd Hcn m m sa da Hsa Hda Hes sb db) as H.
    cbv zeta in H. fold fls in H. fold fld in H. fold n in H. fold len in H.
    destruct H as (H1 & H2 & H3).
    split; [exact Hsd|]. split.
    - apply (elem_at_ext L Hwf _ _ da ts fcs Hts) with (2 := H1).
      intros z Hz. rewrite end_da in Hz. rewrite Hm. unfold D.
      replace (inr da len z) with true by (symmetry; apply inr_true; lia). reflexivity.
    - intros z Hz. rewrite Hm. unfold D. replace (inr da len z) with false by (symmetry; apply inr_false; lia).
      apply H3.
  Qed.

  (* ---------- swap(v[i], v[j]), i <> j ---------- *)
  Hypothesis Hed : elem_at L m da td.

  Theorem same_vector_swap xb yb :
    let x' := fst (swap_all L xb yb fls fld {| m_s := m; m_d := m; m_same := true |} (seq 0 n)) in
    (forall a, m_s x' a = m_d x' a) /\
    elem_at L (m_d x') sa td /\ elem_at L (m_d x') da ts /\
    (forall y, ~ (sa <= y < sa + len) -> ~ (da <= y < da + len) -> m_d x' y = m y).
  Proof.
    cbv zeta. destruct (swap_same_is_glued xb yb) as [(_ & _ & Hsd & Hm) _].
    pose proof (ref_swap_exchanges L Hwf ts td fcs fcd Hts Htd Hcn m m sa da Hsa Hda Hes Hed xb yb) as H.
    cbv zeta in H. fold fls in H. fold fld in H. fold n in H. fold len in H.
    destruct H as (H1 & H2 & H3 & H4).
    assert (Hend_s : elem_end L sa td = sa + len).
    { unfold elem_end. rewrite Hcn. fold (elem_end L sa ts). unfold len. lia. }
    split; [exact Hsd|]. split; [|split].
    - apply (elem_at_ext L Hwf _ _ sa td fcd Htd) with (2 := H1).
      intros z Hz. rewrite Hend_s in Hz. rewrite Hm. unfold D.
      replace (inr da len z) with false by (symmetry; apply inr_false; lia). reflexivity.
    - apply (elem_at_ext L Hwf _ _ da ts fcs Hts) with (2 := H2).
      intros z Hz. rewrite end_da in Hz. rewrite Hm. unfold D.
      replace (inr da len z) with true by (symmetry; apply inr_true; lia). reflexivity.
    - intros z Hz1 Hz2. rewrite Hm. unfold D. replace (inr da len z) with false by (symmetry; apply inr_false; lia).
      apply H3. exact Hz1.
  Qed.
End SameVector.

(* ---------- self-assignment and self-swap: v[i] = v[i], v[i] = std::move(v[i]), swap(v[i], v[i]) ----------
   Both references are the same element of the same memory: every step reads bytes and writes
   them back where they came from (the move form does not scribble a self-moved object), so
   no byte changes - whatever the field table, whatever the run table. *)
Section Self.
  Definition selfinv (m : mem) (x : mm) : Prop :=
    m_same x = true /\ (forall z, m_s x z = m_d x z) /\ (forall z, m_d x z = m z).

  Lemma self_wr m x a n : selfinv m x -> selfinv m (wr_d x a (mread (m_s x) a n)).
  Proof.
    intros (Hs & Hsd & Hm). unfold selfinv, wr_d. rewrite Hs. cbn [m_s m_d m_same].
    repeat split; intros z. rewrite (mwrite_mread_at (m_s x) a (m_d x) a n z ltac:(lia)).
    destruct (inr a (Z.of_nat n) z); [|apply Hm]. replace (z - a + a) with z by lia. rewrite Hsd. apply Hm.
  Qed.

  Lemma self_assign_objs mv p sb db m : forall n x a, selfinv m x ->
    selfinv m (fst (assign_objs mv p sb db x a a n)).
  Proof.
    induction n as [|n IH]; intros x a Hx; [exact Hx|]. cbn [assign_objs].
    pose proof (self_wr m x a (Z.to_nat (psz p)) Hx) as H1.
    destruct Hx as (Hs & _). rewrite Hs, Z.eqb_refl. cbn [andb negb]. rewrite andb_false_r.
    specialize (IH _ (a + psz p) H1).
    destruct (assign_objs mv p sb db (wr_d x a (mread (m_s x) a (Z.to_nat (psz p)))) (a + psz p) (a + psz p) n) as [x3 e3].
    exact IH.
  Qed.

  Lemma self_assign_all mv L sb db fl m : forall ks x, selfinv m x ->
    selfinv m (fst (assign_all mv L sb db fl fl x ks)).
  Proof.
    induction ks as [|k ks IH]; intros x Hx; [exact Hx|]. cbn [assign_all].
    assert (H1 : selfinv m (fst (assign_one mv L sb db fl fl x k))).
    { unfold assign_one. destruct (nth k (runs_asg mv L) RSkip); [exact Hx|apply self_assign_objs; exact Hx|].
      cbn [fst]. apply self_wr. exact Hx. }
    destruct (assign_one mv L sb db fl fl x k) as [x1 e1]. cbn [fst] in H1.
    specialize (IH x1 H1). destruct (assign_all mv L sb db fl fl x1 ks) as [x2 e2]. exact IH.
  Qed.

  Lemma self_swap_wr m x a n : selfinv m x ->
    selfinv m (wr_d (wr_s x a (mread (m_d x) a n)) a (mread (m_s x) a n)).
  Proof.
    intros (Hs & Hsd & Hm). unfold selfinv, wr_d, wr_s. cbn [m_s m_d m_same]. rewrite !Hs. cbn [m_s m_d m_same].
    repeat split; intros z.
    rewrite (mwrite_mread_at (m_s x) a _ a n z ltac:(lia)).
    destruct (inr a (Z.of_nat n) z) eqn:E; [replace (z - a + a) with z by lia; rewrite Hsd; apply Hm|].
    rewrite (mwrite_mread_at (m_d x) a (m_s x) a n z ltac:(lia)), E. rewrite Hsd. apply Hm.
  Qed.

  Lemma self_swap_objs p xb yb m : forall n x a, selfinv m x -> selfinv m (fst (swap_objs p xb yb x a a n)).
  Proof.
    induction n as [|n IH]; intros x a Hx; [exact Hx|]. cbn [swap_objs].
    pose proof (self_swap_wr m x a (Z.to_nat (psz p)) Hx) as H1.
    specialize (IH _ (a + psz p) H1).
    destruct (swap_objs p xb yb _ (a + psz p) (a + psz p) n) as [x3 e3]. exact IH.
  Qed.

  Lemma self_swap_all L xb yb fl m : forall ks x, selfinv m x -> selfinv m (fst (swap_all L xb yb fl fl x ks)).
  Proof.
    induction ks as [|k ks IH]; intros x Hx; [exact Hx|]. cbn [swap_all].
    assert (H1 : selfinv m (fst (swap_one L xb yb fl fl x k))).
    { unfold swap_one. destruct (nth k (runs_swp L) RSkip); [exact Hx|apply self_swap_objs; exact Hx|].
      cbn [fst]. apply self_swap_wr. exact Hx. }
    destruct (swap_one L xb yb fl fl x k) as [x1 e1]. cbn [fst] in H1.
    specialize (IH x1 H1). destruct (swap_all L xb yb fl fl x1 ks) as [x2 e2]. exact IH.
  Qed.

  Theorem self_assignment_changes_nothing mv L sb db fl m ks :
    let x' := fst (assign_all mv L sb db fl fl {| m_s := m; m_d := m; m_same := true |} ks) in
    (forall z, m_s x' z = m z) /\ (forall z, m_d x' z = m z).
  Proof.
    cbv zeta. destruct (self_assign_all mv L sb db fl m ks {| m_s := m; m_d := m; m_same := true |}) as (_ & H1 & H2).
    - unfold selfinv. cbn [m_s m_d m_same]. auto.
    - split; intros z; [rewrite H1|]; apply H2.
  Qed.

  Theorem self_swap_changes_nothing L xb yb fl m ks :
    let x' := fst (swap_all L xb yb fl fl {| m_s := m; m_d := m; m_same := true |} ks) in
    (forall z, m_s x' z = m z) /\ (forall z, m_d x' z = m z).
  Proof.
    cbv zeta. destruct (self_swap_all L xb yb fl m ks {| m_s := m; m_d := m; m_same := true |}) as (_ & H1 & H2).
    - unfold selfinv. cbn [m_s m_d m_same]. auto.
    - split; intros z; [rewrite H1|]; apply H2.
  Qed.
End Self.
