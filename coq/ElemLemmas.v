(* ElemLemmas.v — one element in byte memory: store establishes it, load reads it back,
   it depends only on its own bytes, it survives translation by multiples of the
   storage alignment. *)
From Coq Require Import ZArith Lia List Bool.
From Cntgs Require Import Base BaseLemmas Layout LayoutThm Mem MemLemmas Vector Spec Rep.
Import ListNotations.
Local Open Scope Z_scope.

Lemma mread_S m a n : mread m a (S n) = m a :: mread m (a + 1) n.
Proof.
  unfold mread. cbn [seq map]. rewrite Z.add_0_r. f_equal.
  rewrite <- seq_shift, map_map. apply map_ext. intros i. f_equal. lia.
Qed.

Lemma mread_app m n1 : forall a n2,
  mread m a (n1 + n2) = mread m a n1 ++ mread m (a + Z.of_nat n1) n2.
Proof.
  induction n1 as [|n1 IH]; intros a n2.
  - cbn [Nat.add]. unfold mread at 2. cbn. now rewrite Z.add_0_r.
  - cbn [Nat.add]. rewrite !mread_S, IH. cbn [app].
    replace (a + Z.of_nat (S n1)) with (a + 1 + Z.of_nat n1) by lia. reflexivity.
Qed.

Lemma mread_shift m m' a n d : (forall x, a <= x < a + Z.of_nat n -> m' (x + d) = m x) ->
  mread m' (a + d) n = mread m a n.
Proof.
  intros H. unfold mread. apply map_ext_in. intros i Hi. apply in_seq in Hi.
  replace (a + d + Z.of_nat i) with (a + Z.of_nat i + d) by lia. apply H. lia.
Qed.

Lemma app_eq_len {A} (a b c d : list A) : length a = length c -> a ++ b = c ++ d -> a = c /\ b = d.
Proof.
  revert c. induction a as [|x a IH]; intros [|y c] Hl H; try discriminate; [auto|].
  cbn in *. inversion H; subst. destruct (IH c) as [-> ->]; auto.
Qed.

(* ---------- objects of a field ---------- *)
Definition objs_ok (p : param) (f : list (list Z)) : Prop :=
  Forall (fun o => length o = Z.to_nat (psz p)) f.

Lemma concat_length_objs p f : 0 < psz p -> objs_ok p f ->
  Z.of_nat (length (concat f)) = Z.of_nat (length f) * psz p.
Proof.
  intros Hs H. induction H as [|o f Ho _ IH]; [reflexivity|].
  cbn [concat length]. rewrite app_length, Nat2Z.inj_add, IH, Ho. rewrite Z2Nat.id by lia. lia.
Qed.

Lemma read_objs_concat m p f : 0 < psz p -> objs_ok p f -> forall a,
  mread m a (length (concat f)) = concat f ->
  read_objs m p (a, Z.of_nat (length f)) = f.
Proof.
  intros Hs H. unfold read_objs. cbn [fst snd]. rewrite Nat2Z.id.
  induction H as [|o f Ho Hf IH]; intros a Hr; [reflexivity|].
  cbn [concat length] in *. rewrite app_length, mread_app in Hr.
  apply app_eq_len in Hr; [|apply mread_length]. destruct Hr as [H1 H2].
  cbn [length seq map]. rewrite <- seq_shift, map_map. f_equal.
  - cbn. rewrite Z.add_0_r. rewrite <- Ho. exact H1.
  - rewrite <- (IH (a + Z.of_nat (length o)) H2) at 2.
    apply map_ext. intros j. f_equal. rewrite Ho, Z2Nat.id by lia. lia.
Qed.

(* ---------- tuple_ok: consequences ---------- *)
Lemma tuple_ok_cnt_ok L : forall fc prevc t,
  tuple_ok L fc prevc t -> Forall2 cnt_ok L (cnts_of t).
Proof.
  induction L as [|p L IH]; intros fc prevc t H.
  - destruct t; [constructor|destruct fc; contradiction].
  - destruct fc as [|c fc]; [contradiction|]. destruct t as [|f t]; [contradiction|].
    destruct H as (Ho & Hc & Ht). cbn [cnts_of map]. constructor.
    + split; [lia|]. intros Hk. rewrite Hk in Hc. exact Hc.
    + eapply IH; eauto.
Qed.

Lemma tuple_ok_length L : forall fc prevc t, tuple_ok L fc prevc t -> length t = length L.
Proof.
  induction L as [|p L IH]; intros fc prevc t H.
  - destruct t; [reflexivity|destruct fc; contradiction].
  - destruct fc as [|c fc]; [contradiction|]. destruct t as [|f t]; [contradiction|].
    destruct H as (_ & _ & Ht). cbn [length]. f_equal. eapply IH; eauto.
Qed.

(* ---------- place_from basics ---------- *)
Lemma place_from_cons p L pt pv c cnts a :
  place_from (p :: L) (pt :: pv) (c :: cnts) a =
    (align_if (pt <? pal p) (pal p) a :: fst (place_from L pv cnts (align_if (pt <? pal p) (pal p) a + c * psz p)),
     snd (place_from L pv cnts (align_if (pt <? pal p) (pal p) a + c * psz p))).
Proof. cbn [place_from]. destruct (place_from L pv cnts _). reflexivity. Qed.

Lemma place_from_end_ge L : forall pv cnts a, Forall wfp L -> Forall (fun c => 0 <= c) cnts ->
  a <= snd (place_from L pv cnts a).
Proof.
  induction L as [|p L IH]; intros pv cnts a Hwf Hc; [cbn; lia|].
  destruct pv as [|pt pv]; [cbn; lia|]. destruct cnts as [|c cnts]; [cbn; lia|].
  inversion Hwf as [|? ? [Hs Hal] HwL]; subst. inversion Hc; subst.
  cbn [place_from].
  specialize (IH pv cnts (align_if (pt <? pal p) (pal p) a + c * psz p) HwL ltac:(assumption)).
  destruct (place_from L pv cnts (align_if (pt <? pal p) (pal p) a + c * psz p)) as [r e]. cbn [snd] in *.
  assert (a <= align_if (pt <? pal p) (pal p) a).
  { unfold align_if. destruct (pt <? pal p); [|lia]. apply align_up_ge. apply pow2_pos; auto. }
  assert (0 <= c * psz p) by (apply Z.mul_nonneg_nonneg; lia). lia.
Qed.

Lemma cnts_of_nonneg t : Forall (fun c => 0 <= c) (cnts_of t).
Proof. unfold cnts_of. apply Forall_forall. intros c Hc. apply in_map_iff in Hc. destruct Hc as [f [<- _]]. lia. Qed.

Lemma align_if_ge c al a : 0 < al -> a <= align_if c al a.
Proof. intros H. unfold align_if. destruct c; [apply align_up_ge; auto|lia]. Qed.

(* ---------- store establishes the element (emplace_at) ---------- *)
Lemma store_from_spec L : forall pv vals bid m a fc prevc,
  Forall wfp L -> tuple_ok L fc prevc vals -> (length L <= length pv)%nat ->
  let r := store_from L pv vals bid m a in
  snd r = snd (place_from L pv (cnts_of vals) a) /\
  elem_from L pv (fst (fst r)) a vals /\
  (forall x, x < a \/ snd r <= x -> fst (fst r) x = m x) /\
  a <= snd r.
Proof.
  induction L as [|p L IH]; intros pv vals bid m a fc prevc Hwf Ht Hlen.
  - destruct vals; [|destruct fc; contradiction]. cbn. repeat split; auto. lia.
  - destruct fc as [|c fc]; [contradiction|]. destruct vals as [|f vals]; [contradiction|].
    destruct pv as [|pt pv]; [cbn in Hlen; lia|].
    destruct Ht as (Ho & Hc & Ht). inversion Hwf as [|? ? [Hs Hal] HwL]; subst.
    pose proof (pow2_pos _ Hal) as Halp.
    cbn [store_from cnts_of map place_from elem_from].
    set (a' := align_if (pt <? pal p) (pal p) a).
    set (m1 := mwrite m a' (concat f)).
    specialize (IH pv vals bid m1 (a' + Z.of_nat (length f) * psz p) fc (dec (hd [] f)) HwL Ht ltac:(cbn in Hlen; lia)).
    cbv zeta in IH.
    destruct (store_from L pv vals bid m1 (a' + Z.of_nat (length f) * psz p)) as [[m2 evs2] e] eqn:Es.
    cbn [fst snd] in IH. destruct IH as (He & Hel & Hfr & Hge).
    fold (cnts_of vals).
    destruct (place_from L pv (cnts_of vals) (a' + Z.of_nat (length f) * psz p)) as [r e'] eqn:Ep.
    cbn [fst snd] in *. subst e'.
    pose proof (align_if_ge (pt <? pal p) (pal p) a Halp) as Ha'. fold a' in Ha'.
    pose proof (concat_length_objs p f Hs Ho) as Hcl.
    assert (0 <= Z.of_nat (length f) * psz p) by (apply Z.mul_nonneg_nonneg; lia).
    repeat split; auto.
    + rewrite (mread_ext m2 m1).
      * apply mread_mwrite_same.
      * intros x Hx. apply Hfr. left. lia.
    + intros x Hx. rewrite Hfr by lia. unfold m1. apply mwrite_out. lia.
    + lia.
Qed.

(* ---------- an element depends only on its own bytes ---------- *)
Lemma elem_from_ext L : forall pv m m' a t fc prevc,
  Forall wfp L -> tuple_ok L fc prevc t ->
  (forall x, a <= x < snd (place_from L pv (cnts_of t) a) -> m' x = m x) ->
  elem_from L pv m a t -> elem_from L pv m' a t.
Proof.
  induction L as [|p L IH]; intros pv m m' a t fc prevc Hwf Ht Hext H.
  - destruct t; auto.
  - destruct pv as [|pt pv]; [destruct t; exact H|]. destruct t as [|f t]; [exact H|].
    destruct fc as [|c fc]; [contradiction|].
    destruct Ht as (Ho & Hc & Ht). inversion Hwf as [|? ? [Hs Hal] HwL]; subst.
    pose proof (pow2_pos _ Hal) as Halp.
    cbn [elem_from cnts_of map] in *. fold (cnts_of t) in *. rewrite place_from_cons in Hext. cbn [snd] in Hext.
    set (a' := align_if (pt <? pal p) (pal p) a) in *.
    pose proof (align_if_ge (pt <? pal p) (pal p) a Halp) as Ha'. fold a' in Ha'.
    pose proof (place_from_end_ge L pv (cnts_of t) (a' + Z.of_nat (length f) * psz p) HwL (cnts_of_nonneg t)) as Hge.
    destruct H as [H1 H2].
    pose proof (concat_length_objs p f Hs Ho) as Hcl.
    assert (0 <= Z.of_nat (length f) * psz p) by (apply Z.mul_nonneg_nonneg; lia).
    split.
    + rewrite <- H1 at 2. apply mread_ext. intros x Hx. apply Hext. lia.
    + apply (IH pv m m' _ t fc (dec (hd [] f)) HwL Ht); [|exact H2]. intros x Hx. apply Hext. lia.
Qed.

(* ---------- translation by a multiple of every alignment ---------- *)
Lemma elem_from_shift L : forall pv m m' a t fc prevc d,
  Forall wfp L -> tuple_ok L fc prevc t -> (forall p, In p L -> (pal p | d)) ->
  (forall x, a <= x < snd (place_from L pv (cnts_of t) a) -> m' (x + d) = m x) ->
  elem_from L pv m a t -> elem_from L pv m' (a + d) t.
Proof.
  induction L as [|p L IH]; intros pv m m' a t fc prevc d Hwf Ht Hd Hext H.
  - destruct t; auto.
  - destruct pv as [|pt pv]; [destruct t; exact H|]. destruct t as [|f t]; [exact H|].
    destruct fc as [|c fc]; [contradiction|].
    destruct Ht as (Ho & Hc & Ht). inversion Hwf as [|? ? [Hs Hal] HwL]; subst.
    pose proof (pow2_pos _ Hal) as Halp.
    cbn [elem_from cnts_of map] in *. fold (cnts_of t) in *.
    assert (E : align_if (pt <? pal p) (pal p) (a + d) = align_if (pt <? pal p) (pal p) a + d).
    { unfold align_if. destruct (pt <? pal p); [|reflexivity].
      apply align_up_shift; auto. apply Hd. left; reflexivity. }
    rewrite E. rewrite place_from_cons in Hext. cbn [snd] in Hext.
    set (a' := align_if (pt <? pal p) (pal p) a) in *.
    pose proof (align_if_ge (pt <? pal p) (pal p) a Halp) as Ha'. fold a' in Ha'.
    pose proof (place_from_end_ge L pv (cnts_of t) (a' + Z.of_nat (length f) * psz p) HwL (cnts_of_nonneg t)) as Hge.
    destruct H as [H1 H2].
    pose proof (concat_length_objs p f Hs Ho) as Hcl.
    assert (0 <= Z.of_nat (length f) * psz p) by (apply Z.mul_nonneg_nonneg; lia).
    split.
    + rewrite <- H1 at 2. apply mread_shift. intros x Hx. apply Hext. lia.
    + replace (a' + d + Z.of_nat (length f) * psz p) with (a' + Z.of_nat (length f) * psz p + d) by lia.
      apply (IH pv m m' _ t fc (dec (hd [] f)) d HwL Ht); [| |exact H2].
      * intros q Hq. apply Hd. right; exact Hq.
      * intros x Hx. apply Hext. lia.
Qed.

(* ---------- load reads the element back (load_element_at) ---------- *)
Lemma load_from_spec L : forall pv fc m a t prevc prevval isplain,
  Forall wfp L -> wf_varying isplain L = true ->
  (match L with p :: _ => pk p = Varying -> prevval = prevc | [] => True end) ->
  tuple_ok L fc prevc t -> elem_from L pv m a t ->
  load_from L pv fc m a prevval =
    (combine (fst (place_from L pv (cnts_of t) a)) (cnts_of t), snd (place_from L pv (cnts_of t) a)).
Proof.
  induction L as [|p L IH]; intros pv fc m a t prevc prevval isplain Hwf Hwv Hpv Ht H.
  - destruct t; [reflexivity|destruct fc; contradiction].
  - destruct fc as [|c fc]; [contradiction|]. destruct t as [|f t]; [contradiction|].
    destruct pv as [|pt pv]; [contradiction|].
    destruct Ht as (Ho & Hc & Ht). inversion Hwf as [|? ? [Hs Hal] HwL]; subst.
    cbn [wf_varying] in Hwv. apply andb_true_iff in Hwv. destruct Hwv as [Hv1 Hv2].
    cbn [elem_from] in H. destruct H as [H1 H2].
    cbn [load_from cnts_of map place_from]. fold (cnts_of t).
    set (a' := align_if (pt <? pal p) (pal p) a) in *.
    assert (Ec : (match pk p with Plain => 1 | Fixed => c | Varying => prevval end) = Z.of_nat (length f)).
    { rewrite Hc. destruct (pk p); auto. }
    rewrite Ec.
    rewrite (IH pv fc m (a' + Z.of_nat (length f) * psz p) t (dec (hd [] f))
               (dec (mread m a' (Z.to_nat (psz p)))) (is_plain p) HwL Hv2); auto.
    + destruct (place_from L pv (cnts_of t) (a' + Z.of_nat (length f) * psz p)) as [r e]. reflexivity.
    + (* if the next parameter is varying, this one is plain: one object, read back exactly *)
      destruct L as [|q L']; [exact I|]. intros Hq.
      cbn [wf_varying] in Hv2. apply andb_true_iff in Hv2. destruct Hv2 as [Hv2 _].
      unfold is_varying in Hv2. rewrite Hq in Hv2. cbn [kind_eqb] in Hv2.
      unfold is_plain in Hv2. destruct (pk p) eqn:Hk; try discriminate.
      destruct f as [|o [|o' f']]; cbn [length] in Hc; try lia.
      cbn [hd]. inversion Ho as [|? ? Hol _]; subst.
      cbn [concat] in H1. rewrite app_nil_r in H1. rewrite <- Hol, H1. reflexivity.
Qed.

(* the tuple read back through load is the tuple stored *)
Lemma read_fields_spec L : forall pv m a t fc prevc,
  Forall wfp L -> tuple_ok L fc prevc t -> elem_from L pv m a t ->
  map (fun pa => read_objs m (fst pa) (snd pa))
      (combine L (combine (fst (place_from L pv (cnts_of t) a)) (cnts_of t))) = t.
Proof.
  induction L as [|p L IH]; intros pv m a t fc prevc Hwf Ht H.
  - destruct t; [reflexivity|destruct fc; contradiction].
  - destruct fc as [|c fc]; [contradiction|]. destruct t as [|f t]; [contradiction|].
    destruct pv as [|pt pv]; [contradiction|].
    destruct Ht as (Ho & Hc & Ht). inversion Hwf as [|? ? [Hs Hal] HwL]; subst.
    cbn [elem_from] in H. destruct H as [H1 H2].
    cbn [cnts_of map place_from]. fold (cnts_of t).
    set (a' := align_if (pt <? pal p) (pal p) a) in *.
    specialize (IH pv m (a' + Z.of_nat (length f) * psz p) t fc (dec (hd [] f)) HwL Ht H2).
    destruct (place_from L pv (cnts_of t) (a' + Z.of_nat (length f) * psz p)) as [r e].
    cbn [fst snd combine map] in *. f_equal; [|exact IH].
    apply read_objs_concat; auto.
Qed.
