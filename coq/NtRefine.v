(* NtRefine.v — the refinement for parameter lists with NON-trivial value types (C01, C06):
   emplace_back, pop_back, clear, erase(first, end()) and reserve preserve the representation
   invariant for EVERY well-formed list - destruction scribbles over the destroyed objects
   only, relocation through copy/move constructors reproduces the bytes - and each of them
   constructs and destroys exactly the objects the operation adds or removes.
   erase() with elements behind the erased ones re-emplaces every following element and is
   the known finding (overlap): it is not covered here. *)
From Coq Require Import ZArith Lia List Bool.
From Cntgs Require Import Base BaseLemmas Layout LayoutThm Mem MemLemmas Vector Spec Rep ElemLemmas Ordered
  EsizeThm Refine LifeThm FixedErase.
From Cntgs Require Export NtBase.
Import ListNotations.
Local Open Scope Z_scope.

(* ---------- scribbling over destroyed objects ---------- *)
(* ---------- relocation through copy / move constructors ---------- *)
Lemma moved_bytes_length n : length (moved_bytes n) = Z.to_nat n.
Proof. unfold moved_bytes. apply repeat_length. Qed.

Lemma mwrite_same m a bs x : mread m a (length bs) = bs -> mwrite m a bs x = m x.
Proof.
  intros H. unfold mwrite. destruct (inr a (Z.of_nat (length bs)) x) eqn:E; [|reflexivity].
  apply inr_true in E. rewrite <- H at 1. rewrite mread_nth by lia. f_equal. lia.
Qed.

(* objects are visited in increasing address order: what has been overwritten in the source
   (moved-from bytes) lies below the current object; the target block, which already holds a
   byte-wise copy, is written with the bytes it holds *)
Lemma relocate_objs_spec orig mv p sbid bid : forall n ms m src,
  0 < psz p ->
  (forall x, src <= x -> ms x = orig x) ->
  (forall x, src <= x < src + Z.of_nat n * psz p -> m x = orig x) ->
  let r := relocate_objs mv p sbid bid ms m src src n in
  (forall x, src + Z.of_nat n * psz p <= x -> fst (fst r) x = orig x) /\
  (forall x, snd (fst r) x = m x) /\
  (forall x, x < src -> fst (fst r) x = ms x).
Proof.
  induction n as [|n IH]; intros ms m src Hs Hms Hm; cbv zeta.
  - cbn [relocate_objs fst snd]. split; [intros x Hx; apply Hms; lia|]. split; auto.
  - cbn [relocate_objs].
    set (bs := mread ms src (Z.to_nat (psz p))).
    assert (Hbs : mread m src (length bs) = bs).
    { unfold bs. rewrite mread_length. apply mread_ext. intros x Hx. rewrite Hm, Hms by nia. reflexivity. }
    set (m1 := mwrite m src bs).
    set (ms1 := if mv then mwrite ms src (moved_bytes (psz p)) else ms).
    assert (Hms1 : forall x, src + psz p <= x -> ms1 x = orig x).
    { intros x Hx. unfold ms1. destruct mv; [|apply Hms; lia].
      rewrite mwrite_out; [apply Hms; lia|]. rewrite moved_bytes_length, Z2Nat.id by lia. lia. }
    assert (Hm1 : forall x, m1 x = m x) by (intros x; unfold m1; apply mwrite_same; exact Hbs).
    specialize (IH ms1 m1 (src + psz p) Hs Hms1).
    assert (Hm1' : forall x, src + psz p <= x < src + psz p + Z.of_nat n * psz p -> m1 x = orig x).
    { intros x Hx. rewrite Hm1. apply Hm. nia. }
    specialize (IH Hm1'). cbv zeta in IH.
    destruct (relocate_objs mv p sbid bid ms1 m1 (src + psz p) (src + psz p) n) as [[ms2 m2] evs]. cbn [fst snd] in *.
    destruct IH as (I1 & I2 & I3). split; [|split].
    + intros x Hx. apply I1. nia.
    + intros x. rewrite I2. apply Hm1.
    + intros x Hx. rewrite I3 by lia. unfold ms1. destruct mv; [|reflexivity].
      apply mwrite_out. lia.
Qed.

Lemma relocate_fields_spec orig mv sbid bid L : forall cnts xs ms m lo hi,
  Forall wfp L -> Forall (fun c => 0 <= c) cnts -> ordered_from lo (extents L cnts xs) hi ->
  (forall x, lo <= x -> ms x = orig x) -> (forall x, lo <= x < hi -> m x = orig x) ->
  let r := relocate_fields mv L (combine xs cnts) sbid bid ms m 0 in
  (forall x, hi <= x -> fst (fst r) x = orig x) /\
  (forall x, snd (fst r) x = m x) /\
  (forall x, x < lo -> fst (fst r) x = ms x).
Proof.
  induction L as [|p L IH]; intros cnts xs ms m lo hi HF Hc Ho Hms Hm; cbv zeta.
  - cbn [relocate_fields fst snd]. pose proof (ordered_from_le _ _ _ Ho). split; [intros; apply Hms; lia|auto].
  - destruct xs as [|x0 xs]; [cbn [combine relocate_fields fst snd]; pose proof (ordered_from_le _ _ _ Ho); split; [intros; apply Hms; lia|auto]|].
    destruct cnts as [|c cnts]; [cbn [combine relocate_fields fst snd]; pose proof (ordered_from_le _ _ _ Ho); split; [intros; apply Hms; lia|auto]|].
    cbn [combine relocate_fields]. cbn [extents ordered_from] in Ho. destruct Ho as (H1 & H2 & Ho).
    apply Forall_cons_iff in HF. destruct HF as [[Hs _] HF]. inversion Hc; subst.
    pose proof (ordered_from_le _ _ _ Ho) as Hle.
    destruct (ntc _ p).
    + rewrite Z.add_0_r.
      pose proof (relocate_objs_spec orig mv p sbid bid (Z.to_nat c) ms m x0 Hs
                    ltac:(intros; apply Hms; lia)
                    ltac:(intros y Hy; apply Hm; rewrite Z2Nat.id in Hy by lia; lia)) as Hr.
      cbv zeta in Hr. rewrite Z2Nat.id in Hr by lia.
      destruct (relocate_objs mv p sbid bid ms m x0 x0 (Z.to_nat c)) as [[ms1 m1] e1]. cbn [fst snd] in Hr.
      destruct Hr as (R1 & R2 & R3).
      specialize (IH cnts xs ms1 m1 (x0 + c * psz p) hi HF ltac:(assumption) Ho R1
                     ltac:(intros y Hy; rewrite R2; apply Hm; lia)).
      cbv zeta in IH.
      destruct (relocate_fields mv L (combine xs cnts) sbid bid ms1 m1 0) as [[ms2 m2] e2]. cbn [fst snd] in *.
      destruct IH as (I1 & I2 & I3). split; [exact I1|]. split.
      * intros y. rewrite I2. apply R2.
      * intros y Hy. rewrite I3 by lia. apply R3. lia.
    + specialize (IH cnts xs ms m (x0 + c * psz p) hi HF ltac:(assumption) Ho
                     ltac:(intros; apply Hms; lia) ltac:(intros; apply Hm; lia)).
      cbv zeta in IH.
      destruct (relocate_fields mv L (combine xs cnts) sbid bid ms m 0) as [[ms2 m2] e2]. cbn [fst snd] in *.
      destruct IH as (I1 & I2 & I3). split; [exact I1|]. split; [exact I2|]. intros y Hy. apply I3. lia.
Qed.

From Cntgs Require Import TightThm CmpContent WorldThm.

Section Nt.
  Variable L : list param.
  Hypothesis Hwf : wf_plist L = true.

  Let HF : Forall wfp L := wf_plist_Forall L Hwf.
  Let Hne : L <> [] := wf_plist_nonempty L Hwf.

  Lemma prevs_len_ : (length L <= length (prevs L))%nat.
  Proof. unfold prevs, trails. cbn [length]. rewrite trails_from_length. lia. Qed.

  (* the field table the load path finds for a stored tuple *)
  Lemma load_table fixed m a t : tuple_ok L (fixed_counts L fixed) 0 t -> elem_at L m a t ->
    fst (load L fixed m a) = combine (fst (place L (cnts_of t) a)) (cnts_of t).
  Proof.
    intros Ht He. unfold load, place.
    rewrite (load_from_spec L (prevs L) _ m a t 0 0 false HF); auto.
    - apply wf_plist_varying; auto.
    - destruct L; auto.
  Qed.

  Lemma nth_elem_at v l offs i : RepO L v l offs -> (i < length l)%nat ->
    elem_at L (v_mem v) (nth i offs 0) (nth i l []) /\
    tuple_ok L (fixed_counts L (v_fixed v)) 0 (nth i l []).
  Proof.
    intros R Hi. split.
    - pose proof (eo_length _ _ _ _ _ (r_order _ _ _ _ R)) as Hlen.
      apply (Forall2_nth_ _ offs l 0 [] i (r_elems _ _ _ _ R)). lia.
    - pose proof (r_tuples _ _ _ _ R) as H. rewrite Forall_forall in H. apply H. apply nth_In. exact Hi.
  Qed.

  (* ---------- relocation of all elements into a block that holds a byte-wise copy ---------- *)
  Lemma relocate_elems_mem mv bid v l offs : RepO L v l offs ->
    forall n k ms m,
    (k + n = length l)%nat ->
    (forall x, eo_end L 0 (firstn k offs) (firstn k l) <= x -> ms x = v_mem v x) ->
    (forall x, 0 <= x < dend L v -> m x = v_mem v x) ->
    forall x, snd (fst (relocate_elems mv L (set_mem v ms) bid m (Z.of_nat k) n)) x = m x.
  Proof.
    intros R.
    pose proof (r_order _ _ _ _ R) as Hord. pose proof (eo_length _ _ _ _ _ Hord) as Hlen.
    induction n as [|n IH]; intros k ms m Hk Hms Hm x; [reflexivity|].
    cbn [relocate_elems].
    assert (Hkl : (k < length l)%nat) by lia.
    destruct (nth_elem_at v l offs k R Hkl) as [Hel Htk].
    set (a := nth k offs 0) in *. set (t := nth k l []) in *.
    destruct (eo_end_firstn_le L k 0 offs l _ Hord ltac:(lia)) as [Hle HaS]. fold a in Hle, HaS.
    pose proof (eo_end_le L Hwf _ _ _ _ (eo_firstn L k _ _ _ _ Hord)) as [Hlo0 _].
    (* the element is still intact in the (partly moved-from) source *)
    assert (Hel' : elem_at L ms a t).
    { eapply (elem_at_ext L Hwf (v_mem v) ms a t); eauto. intros y Hy. apply Hms. lia. }
    change (v_fixed (set_mem v ms)) with (v_fixed v). change (v_mem (set_mem v ms)) with ms.
    change (v_bid (set_mem v ms)) with (v_bid v).
    replace (eaddr L (set_mem v ms) (Z.of_nat k)) with a
      by (symmetry; change (eaddr L (set_mem v ms) (Z.of_nat k)) with (eaddr L v (Z.of_nat k)); apply (rep_eaddr L v l offs k R Hkl)).
    rewrite (load_table (v_fixed v) ms a t Htk Hel').
    pose proof (place_ordered L (cnts_of t) a Hwf (tuple_ok_cnt_ok L _ _ t Htk) ltac:(lia) HaS) as Hpo.
    fold (elem_end L a t) in Hpo.
    (* the element lies inside the data *)
    pose proof (eo_bounds L Hwf _ _ _ _ Hord) as Hb.
    assert (Hin : elem_end L a t <= dend L v).
    { pose proof (Forall2_nth_ _ offs l 0 [] k Hb ltac:(lia)) as Hk'. cbv beta in Hk'. fold a t in Hk'. tauto. }
    pose proof (relocate_fields_spec (v_mem v) mv (bidn (v_bid v)) bid L (cnts_of t) (fst (place L (cnts_of t) a)) ms m a (elem_end L a t)
                  HF (cnts_of_nonneg t) Hpo ltac:(intros y Hy; apply Hms; lia) ltac:(intros y Hy; apply Hm; lia)) as Hrf.
    cbv zeta in Hrf.
    destruct (relocate_fields mv L (combine (fst (place L (cnts_of t) a)) (cnts_of t)) (bidn (v_bid v)) bid ms m 0) as [[ms1 m1] e1].
    cbn [fst snd] in Hrf. destruct Hrf as (F1 & F2 & _).
    change (set_mem (set_mem v ms) ms1) with (set_mem v ms1).
    replace (Z.of_nat k + 1) with (Z.of_nat (S k)) by lia.
    specialize (IH (S k) ms1 m1 ltac:(lia)).
    assert (Hms1 : forall y, eo_end L 0 (firstn (S k) offs) (firstn (S k) l) <= y -> ms1 y = v_mem v y).
    { intros y Hy. rewrite eo_end_firstn_S in Hy by lia. fold a t in Hy. apply F1. exact Hy. }
    specialize (IH Hms1 ltac:(intros y Hy; rewrite F2; apply Hm; exact Hy) x).
    destruct (relocate_elems mv L (set_mem v ms1) bid m1 (Z.of_nat (S k)) n) as [[s2 m2] e2]. cbn [fst snd] in *.
    rewrite IH. apply F2.
  Qed.

  Lemma insert_into_mem mv destr v l offs bid junk : RepO L v l offs ->
    forall x, 0 <= x < dend L v -> snd (fst (insert_into mv destr L v bid junk)) x = v_mem v x.
  Proof.
    intros R x Hx. unfold insert_into.
    assert (Hm0 : forall y, 0 <= y < dend L v -> mcopy (v_mem v) 0 junk 0 (dend L v) y = v_mem v y).
    { intros y Hy. rewrite mcopy_in by lia. f_equal. lia. }
    destruct (all_ctriv _ L && (negb destr || all_dtriv L)); [cbn [fst snd]; apply Hm0; exact Hx|].
    destruct (all_ctriv _ L) eqn:Hct.
    - destruct (destr && negb (all_dtriv L)); [destruct (destruct_range L v 0 _)|]; cbn [fst snd]; apply Hm0; exact Hx.
    - pose proof (relocate_elems_mem mv bid v l offs R (length l) 0 (v_mem v) (mcopy (v_mem v) 0 junk 0 (dend L v))
                    ltac:(lia) ltac:(intros; reflexivity) Hm0) as Hre.
      change (set_mem v (v_mem v)) with v in Hre || idtac.
      rewrite (rep_vsize L v l offs R), Nat2Z.id.
      assert (Esm : set_mem v (v_mem v) = v) by (destruct v; reflexivity).
      rewrite Esm in Hre. change (Z.of_nat 0) with 0 in Hre.
      destruct (relocate_elems mv L v bid (mcopy (v_mem v) 0 junk 0 (dend L v)) 0 (length l)) as [[s1 m1] e1].
      cbn [fst snd] in Hre.
      destruct (destr && negb (all_dtriv L)); [destruct (destruct_range L s1 0 _)|]; cbn [fst snd]; rewrite Hre; apply Hm0; exact Hx.
  Qed.

  (* reserve, every list *)
  Theorem reserve_rep_nt v l n b junk bid tbid : Rep L v l ->
    Rep L (fst (reserve L v n b junk bid tbid)) l /\
    v_cap (fst (reserve L v n b junk bid tbid)) = Z.max (v_cap v) n /\
    v_fixed (fst (reserve L v n b junk bid tbid)) = v_fixed v.
  Proof.
    intros [offs R]. unfold reserve.
    destruct (Z.ltb_spec (v_cap v) n) as [Hlt|Hge]; [|cbn [fst]; split; [exists offs; exact R|split; [lia|reflexivity]]].
    pose proof (insert_into_mem true true v l offs bid junk R) as Hm.
    destruct (insert_into true true L v bid junk) as [[v1 m] e1]. cbn [fst snd] in *. cbn [fst v_cap v_fixed].
    split; [|split; [lia|reflexivity]].
    apply (relocate_rep L Hwf v l n (Some bid) _ (v_aid v) m tbid (v_tbl v)).
    - exists offs. exact R.
    - pose proof (r_cap _ _ _ _ R). lia.
    - exact Hm.
  Qed.

  (* ---------- destruction ---------- *)
  Lemma destruct_elem_mem v l offs i ms : RepO L v l offs -> (i < length l)%nat ->
    (forall x, nth i offs 0 <= x -> ms x = v_mem v x) ->
    exists m', fst (destruct_elem L (set_mem v ms) (Z.of_nat i)) = set_mem v m' /\
      forall y, ~ (nth i offs 0 <= y < elem_end L (nth i offs 0) (nth i l [])) -> m' y = ms y.
  Proof.
    intros R Hi Hms. unfold destruct_elem.
    destruct (all_dtriv L); [exists ms; split; [reflexivity|auto]|].
    pose proof (r_order _ _ _ _ R) as Hord. pose proof (eo_length _ _ _ _ _ Hord) as Hlen.
    destruct (nth_elem_at v l offs i R Hi) as [Hel Hti].
    set (a := nth i offs 0) in *. set (t := nth i l []) in *.
    destruct (eo_end_firstn_le L i 0 offs l _ Hord ltac:(lia)) as [Hle HaS]. fold a in Hle, HaS.
    pose proof (eo_end_le L Hwf _ _ _ _ (eo_firstn L i _ _ _ _ Hord)) as [Hlo0 _].
    assert (Hel' : elem_at L ms a t).
    { eapply (elem_at_ext L Hwf (v_mem v) ms a t); eauto. intros y Hy. apply Hms. lia. }
    change (v_fixed (set_mem v ms)) with (v_fixed v). change (v_mem (set_mem v ms)) with ms.
    change (v_bid (set_mem v ms)) with (v_bid v).
    replace (eaddr L (set_mem v ms) (Z.of_nat i)) with a
      by (symmetry; change (eaddr L (set_mem v ms) (Z.of_nat i)) with (eaddr L v (Z.of_nat i)); apply (rep_eaddr L v l offs i R Hi)).
    rewrite (load_table (v_fixed v) ms a t Hti Hel').
    pose proof (place_ordered L (cnts_of t) a Hwf (tuple_ok_cnt_ok L _ _ t Hti) ltac:(lia) HaS) as Hpo.
    fold (elem_end L a t) in Hpo.
    pose proof (fun y => destruct_fields_frame L (cnts_of t) (fst (place L (cnts_of t) a)) (bidn (v_bid v)) ms a (elem_end L a t) y
                           HF (cnts_of_nonneg t) Hpo) as Hfr.
    destruct (destruct_fields L (combine (fst (place L (cnts_of t) a)) (cnts_of t)) (bidn (v_bid v)) ms) as [m' evs].
    cbn [fst] in *. exists m'. split; [reflexivity|exact Hfr].
  Qed.

  Lemma destruct_range_mem v l offs : RepO L v l offs -> forall n i ms,
    (i + n <= length l)%nat ->
    (forall x, nth i offs 0 <= x -> ms x = v_mem v x) ->
    exists m', fst (destruct_range L (set_mem v ms) (Z.of_nat i) n) = set_mem v m' /\
      forall y, y < nth i offs 0 -> m' y = ms y.
  Proof.
    intros R. pose proof (r_order _ _ _ _ R) as Hord. pose proof (eo_length _ _ _ _ _ Hord) as Hlen.
    induction n as [|n IH]; intros i ms Hin Hms; [exists ms; split; [reflexivity|auto]|].
    cbn [destruct_range].
    destruct (destruct_elem_mem v l offs i ms R ltac:(lia) Hms) as (m1 & E1 & F1).
    destruct (destruct_elem L (set_mem v ms) (Z.of_nat i)) as [v1 e1]. cbn [fst] in E1. subst v1.
    replace (Z.of_nat i + 1) with (Z.of_nat (S i)) by lia.
    destruct (Nat.eq_dec n 0) as [->|Hn0].
    - cbn [destruct_range]. exists m1. split; [reflexivity|]. intros y Hy. apply F1. lia.
    - (* the next element starts behind this one *)
      assert (Hnext : elem_end L (nth i offs 0) (nth i l []) <= nth (S i) offs 0).
      { destruct (eo_end_firstn_le L (S i) 0 offs l _ Hord ltac:(lia)) as [Hle _].
        rewrite eo_end_firstn_S in Hle by lia. exact Hle. }
      pose proof (elem_end_ge L Hwf (nth i offs 0) (nth i l [])) as Hge.
      destruct (IH (S i) m1 ltac:(lia)) as (m2 & E2 & F2).
      { intros x Hx. rewrite F1 by lia. apply Hms. lia. }
      destruct (destruct_range L (set_mem v m1) (Z.of_nat (S i)) n) as [v2 e2]. cbn [fst] in *.
      exists m2. split; [exact E2|]. intros y Hy. rewrite F2 by lia. apply F1. lia.
  Qed.

  Lemma resize_set_mem v m n : resize L (set_mem v m) n = set_mem (resize L v n) m.
  Proof. unfold resize. destruct (has_varying L); [destruct (n <? _)|]; reflexivity. Qed.

  Lemma resize_mem v n : v_mem (resize L v n) = v_mem v.
  Proof. unfold resize. destruct (has_varying L); [destruct (n <? _)|]; reflexivity. Qed.

  (* dropping a suffix of the elements after their objects have been destroyed *)
  Lemma rep_drop_suffix v l offs k m' : RepO L v l offs -> (k < length l)%nat ->
    (forall y, y < nth k offs 0 -> m' y = v_mem v y) ->
    Rep L (resize L (set_mem v m') (Z.of_nat k)) (firstn k l).
  Proof.
    intros R Hk Hm. rewrite resize_set_mem.
    pose proof (r_order _ _ _ _ R) as Hord. pose proof (eo_length _ _ _ _ _ Hord) as Hlen.
    destruct (resize_rep L Hwf v l k (ex_intro _ offs R) ltac:(lia)) as [offs' R'].
    exists offs'. apply (rep_mem_ext L Hwf); [exact R'|].
    intros x Hx. rewrite resize_mem. apply Hm.
    (* the data of the shrunk vector ends where element k started *)
    assert (Hd : dend L (resize L v (Z.of_nat k)) = nth k offs 0).
    { unfold dend, resize. pose proof (r_loc _ _ _ _ R) as Hloc.
      destruct (has_varying L) eqn:Hv.
      - destruct Hloc as (Hsz & _). rewrite Hsz.
        replace (Z.of_nat k <? Z.of_nat (length l)) with true by (symmetry; apply Z.ltb_lt; lia).
        cbn [v_last set_tbl]. rewrite <- (rep_eaddr L v l offs k R Hk). unfold eaddr. rewrite Hv. reflexivity.
      - destruct Hloc as (_ & Hoffs & _). cbn [v_stride v_count set_count].
        rewrite Hoffs. rewrite nth_map_seq by lia. reflexivity. }
    lia.
  Qed.

  (* pop_back, every list *)
  Theorem pop_back_rep_nt v l : Rep L v l -> l <> [] -> Rep L (fst (pop_back L v)) (removelast l).
  Proof.
    intros [offs R] Hl. unfold pop_back.
    rewrite (rep_vsize L v l offs R).
    assert (Hn : (0 < length l)%nat) by (destruct l; [congruence|cbn; lia]).
    replace (Z.of_nat (length l) - 1) with (Z.of_nat (Init.Nat.pred (length l))) by lia.
    set (k := Init.Nat.pred (length l)).
    assert (Esm : set_mem v (v_mem v) = v) by (destruct v; reflexivity).
    destruct (destruct_elem_mem v l offs k (v_mem v) R ltac:(unfold k; lia) ltac:(auto)) as (m' & E & F).
    rewrite Esm in E.
    destruct (destruct_elem L v (Z.of_nat k)) as [v1 e1]. cbn [fst] in *. subst v1.
    rewrite removelast_firstn_len. fold k.
    apply (rep_drop_suffix v l offs k m' R ltac:(unfold k; lia)).
    intros y Hy. apply F. lia.
  Qed.

  (* erase(first, end()) and clear, every list: the elements from [i] on are destroyed, nothing
     is moved *)
  Lemma destroy_tail_rep v l i : Rep L v l -> (i <= length l)%nat ->
    Rep L (resize L (fst (if all_dtriv L then (v, []) else destruct_range L v (Z.of_nat i) (length l - i))) (Z.of_nat i))
          (firstn i l).
  Proof.
    intros [offs R] Hi.
    destruct (Nat.eq_dec i (length l)) as [->|Hne'].
    - rewrite Nat.sub_diag. cbn [destruct_range]. destruct (all_dtriv L); cbn [fst]; apply resize_rep; auto; exists offs; exact R.
    - assert (Esm : set_mem v (v_mem v) = v) by (destruct v; reflexivity).
      destruct (all_dtriv L); cbn [fst].
      + apply resize_rep; auto. exists offs; exact R.
      + destruct (destruct_range_mem v l offs R (length l - i) i (v_mem v) ltac:(lia) ltac:(auto)) as (m' & E & F).
        rewrite Esm in E. rewrite E.
        apply (rep_drop_suffix v l offs i m' R ltac:(lia)). exact F.
  Qed.

  Theorem clear_rep_nt v l : Rep L v l -> Rep L (fst (clear L v)) [].
  Proof.
    intros R. unfold clear.
    pose proof (destroy_tail_rep v l 0 R ltac:(lia)) as H. cbn [firstn] in H.
    destruct R as [offs R]. rewrite (rep_vsize L v l offs R), Nat2Z.id. rewrite Nat.sub_0_r in H.
    change (Z.of_nat 0) with 0 in H.
    destruct (all_dtriv L); [exact H|].
    destruct (destruct_range L v 0 (length l)) as [v1 e1]. exact H.
  Qed.

  Theorem erase_to_end_rep_nt v l i : Rep L v l -> 0 <= i <= Z.of_nat (length l) ->
    Rep L (fst (erase_range L v i (Z.of_nat (length l)))) (firstn (Z.to_nat i) l).
  Proof.
    intros R Hi. unfold erase_range.
    pose proof (destroy_tail_rep v l (Z.to_nat i) R ltac:(lia)) as H.
    destruct R as [offs R]. rewrite (rep_vsize L v l offs R).
    replace (Z.of_nat (length l) <? Z.of_nat (length l)) with false by (symmetry; apply Z.ltb_irrefl).
    cbn [andb]. rewrite Z2Nat.id in H by lia.
    replace (Z.to_nat (Z.of_nat (length l) - i)) with (length l - Z.to_nat i)%nat by lia.
    replace (Z.of_nat (length l) - (Z.of_nat (length l) - i)) with i by lia.
    destruct (all_dtriv L); [exact H|].
    destruct (destruct_range L v i (length l - Z.to_nat i)) as [v1 e1]. exact H.
  Qed.

  (* ---------- one step, every list ---------- *)
  (* erase with elements behind the erased ones re-emplaces them one by one and is covered
     for trivially relocatable lists only (Refine.v); everything else for every list *)
  Definition nt_ok (s : svec) (o : sop) : Prop :=
    all_triv L = true \/
    match o with
    | SErase i => i + 1 = Z.of_nat (length (s_elems s))
    | SEraseRange i j => j = Z.of_nat (length (s_elems s))
    | _ => True
    end.

  Lemma move_forward_none v from to : all_triv L = false -> vsize L v = from ->
    move_forward L v from to = (v, []).
  Proof.
    intros Hnt Hsz. unfold move_forward. rewrite Hnt.
    rewrite Hsz, Z.sub_diag. reflexivity.
  Qed.

  Theorem vstep_rep_nt junk v s o :
    Rep L v (s_elems s) -> v_cap v = s_cap s -> svalid L (fixed_counts L (v_fixed v)) s o -> nt_ok s o ->
    Rep L (vstep L junk v o) (s_elems (sstep s o)) /\ v_cap (vstep L junk v o) = s_cap (sstep s o) /\
    v_fixed (vstep L junk v o) = v_fixed v.
  Proof.
    intros R Hc Hv [Ht|Hnt].
    { exact (vstep_rep L Hwf Ht junk v s o R Hc Hv). }
    destruct (all_triv L) eqn:Ht.
    { exact (vstep_rep L Hwf Ht junk v s o R Hc Hv). }
    assert (Esm : set_mem v (v_mem v) = v) by (destruct v; reflexivity).
    destruct R as [offs R].
    pose proof (rep_vsize L v _ offs R) as Hsz.
    destruct o as [t| |i|i j| |n b]; cbn [vstep sstep s_elems s_cap svalid] in *.
    - destruct Hv as [Hlt Htk]. split; [apply emplace_rep; auto; [exists offs; exact R|lia]|].
      unfold emplace_back. destruct (has_varying L); destruct (store _ _ _ _ _) as [[m evs] e]; cbn; auto.
    - split; [apply pop_back_rep_nt; auto; exists offs; exact R|].
      unfold pop_back.
      assert (Hn : (0 < length (s_elems s))%nat) by (destruct (s_elems s); [congruence|cbn; lia]).
      rewrite Hsz. replace (Z.of_nat (length (s_elems s)) - 1) with (Z.of_nat (Init.Nat.pred (length (s_elems s)))) by lia.
      destruct (destruct_elem_mem v _ offs (Init.Nat.pred (length (s_elems s))) (v_mem v) R ltac:(lia) ltac:(auto)) as (m' & E & _).
      rewrite Esm in E. destruct (destruct_elem L v _) as [v1 e1]. cbn [fst] in *. subst v1.
      rewrite resize_set_mem. cbn [v_cap v_fixed set_mem].
      unfold resize. destruct (has_varying L); [destruct (_ <? _)|]; cbn; auto.
    - (* erase of the last element = pop_back *)
      assert (Hi : i = Z.of_nat (Init.Nat.pred (length (s_elems s)))) by lia.
      assert (Hlist : remove_range (Z.to_nat i) (S (Z.to_nat i)) (s_elems s) = removelast (s_elems s)).
      { unfold remove_range. rewrite skipn_all2 by lia. rewrite app_nil_r, removelast_firstn_len. f_equal. lia. }
      rewrite Hlist. unfold erase. rewrite Hsz.
      destruct (destruct_elem_mem v _ offs (Init.Nat.pred (length (s_elems s))) (v_mem v) R ltac:(lia) ltac:(auto)) as (m' & E & F).
      rewrite Esm in E. rewrite <- Hi in E.
      destruct (destruct_elem L v i) as [v1 e1]. cbn [fst] in *. subst v1.
      rewrite (move_forward_none (set_mem v m') (i + 1) i Ht) by (change (vsize L (set_mem v m')) with (vsize L v); lia).
      cbn [fst]. split.
      + rewrite removelast_firstn_len.
        replace (Z.of_nat (length (s_elems s)) - 1) with (Z.of_nat (Init.Nat.pred (length (s_elems s)))) by lia.
        apply (rep_drop_suffix v _ offs (Init.Nat.pred (length (s_elems s))) m' R ltac:(lia)). intros y Hy. apply F. lia.
      + rewrite resize_set_mem. cbn [v_cap v_fixed set_mem].
        unfold resize. destruct (has_varying L); [destruct (_ <? _)|]; cbn; auto.
    - destruct Hv as [Hi Hj]. subst j.
      assert (Hlist : remove_range (Z.to_nat i) (Z.to_nat (Z.of_nat (length (s_elems s)))) (s_elems s) = firstn (Z.to_nat i) (s_elems s)).
      { unfold remove_range. rewrite skipn_all2 by lia. apply app_nil_r. }
      rewrite Hlist. split; [apply erase_to_end_rep_nt; [exists offs; exact R|lia]|].
      unfold erase_range. rewrite Hsz.
      replace (Z.of_nat (length (s_elems s)) <? Z.of_nat (length (s_elems s))) with false by (symmetry; apply Z.ltb_irrefl).
      cbn [andb].
      destruct (all_dtriv L).
      + cbn [fst]. unfold resize. destruct (has_varying L); [destruct (_ <? _)|]; cbn; auto.
      + destruct (destruct_range_mem v _ offs R (Z.to_nat (Z.of_nat (length (s_elems s)) - i)) (Z.to_nat i) (v_mem v) ltac:(lia) ltac:(auto)) as (m' & E & _).
        rewrite Esm in E. rewrite Z2Nat.id in E by lia.
        destruct (destruct_range L v i _) as [v1 e1]. cbn [fst] in *. subst v1.
        rewrite resize_set_mem. cbn [v_cap v_fixed set_mem].
        unfold resize. destruct (has_varying L); [destruct (_ <? _)|]; cbn; auto.
    - split; [apply (clear_rep_nt v (s_elems s)); exists offs; exact R|].
      unfold clear. rewrite Hsz, Nat2Z.id.
      destruct (all_dtriv L).
      + cbn [fst]. unfold resize. destruct (has_varying L); [destruct (_ <? _)|]; cbn; auto.
      + destruct (destruct_range_mem v _ offs R (length (s_elems s)) 0 (v_mem v) ltac:(lia) ltac:(auto)) as (m' & E & _).
        rewrite Esm in E. change (Z.of_nat 0) with 0 in E.
        destruct (destruct_range L v 0 _) as [v1 e1]. cbn [fst] in *. subst v1.
        rewrite resize_set_mem. cbn [v_cap v_fixed set_mem].
        unfold resize. destruct (has_varying L); [destruct (_ <? _)|]; cbn; auto.
    - destruct (reserve_rep_nt v (s_elems s) n b junk O O (ex_intro _ offs R)) as (H1 & H2 & H3).
      split; [exact H1|]. split; [lia|exact H3].
  Qed.

  (* ---------- observations and histories ---------- *)
  Lemma read_elem_spec_nt m a t fixed :
    tuple_ok L (fixed_counts L fixed) 0 t -> elem_at L m a t -> read_elem L fixed m a = t.
  Proof.
    intros Ht He. unfold read_elem, load.
    rewrite (load_from_spec L (prevs L) _ m a t 0 0 false); auto.
    - cbn [fst]. eapply read_fields_spec; eauto.
    - apply wf_plist_varying; auto.
    - destruct L; auto.
  Qed.

  Theorem rep_obs_nt v l : Rep L v l ->
    vsize L v = Z.of_nat (length l) /\
    forall i, (i < length l)%nat ->
      read_elem L (v_fixed v) (v_mem v) (eaddr L v (Z.of_nat i)) = nth i l [].
  Proof.
    intros [offs R]. split; [eapply rep_vsize; eauto|]. intros i Hi.
    rewrite (rep_eaddr L v l offs i R Hi).
    destruct (nth_elem_at v l offs i R Hi) as [He Ht].
    apply read_elem_spec_nt; auto.
  Qed.

  Fixpoint nt_hist_ok (s : svec) (h : list sop) : Prop :=
    match h with
    | [] => True
    | o :: h' => nt_ok s o /\ nt_hist_ok (sstep s o) h'
    end.

  Theorem vrun_rep_nt junk h : forall v s,
    Rep L v (s_elems s) -> v_cap v = s_cap s -> shist_valid L (fixed_counts L (v_fixed v)) s h ->
    nt_hist_ok s h ->
    Rep L (vrun L junk v h) (s_elems (srun s h)) /\ v_cap (vrun L junk v h) = s_cap (srun s h).
  Proof.
    induction h as [|o h IH]; intros v s R Hc Hv Hn; cbn [vrun srun shist_valid nt_hist_ok] in *; [auto|].
    destruct Hv as [Hv1 Hv2]. destruct Hn as [Hn1 Hn2].
    destruct (vstep_rep_nt junk v s o R Hc Hv1 Hn1) as (R' & Hc' & Hf).
    apply IH; auto. rewrite Hf. exact Hv2.
  Qed.

  (* ---------- lists without a VaryingSize parameter: every operation ---------- *)
  (* on such a list erase() with elements behind the erased ones move-constructs them forward
     field by field (FixedErase.v), whatever the value types are; so NO restriction on the
     history is left there *)
  Definition nt_okx (s : svec) (o : sop) : Prop := has_varying L = false \/ nt_ok s o.

  Theorem vstep_rep_ntx junk v s o :
    Rep L v (s_elems s) -> v_cap v = s_cap s -> svalid L (fixed_counts L (v_fixed v)) s o -> nt_okx s o ->
    Rep L (vstep L junk v o) (s_elems (sstep s o)) /\ v_cap (vstep L junk v o) = s_cap (sstep s o) /\
    v_fixed (vstep L junk v o) = v_fixed v.
  Proof.
    intros R Hc Hv [Hnv|Hn]; [|exact (vstep_rep_nt junk v s o R Hc Hv Hn)].
    destruct (all_triv L) eqn:Ht.
    { apply vstep_rep_nt; auto. left. exact Ht. }
    destruct o as [t| |i|i j| |n b]; try (apply vstep_rep_nt; auto; right; exact I).
    - cbn [svalid] in Hv.
      destruct (Z.eq_dec (i + 1) (Z.of_nat (length (s_elems s)))) as [E|E].
      { apply vstep_rep_nt; auto. right. exact E. }
      destruct R as [offs R]. cbn [vstep sstep s_elems s_cap].
      pose proof (erase_rep_fixed_nt L Hwf Hnv Ht v _ offs R (Z.to_nat i) ltac:(lia)) as H.
      rewrite Z2Nat.id in H by lia. cbv zeta in H. destruct H as (H1 & H2 & H3 & _).
      split; [exact H1|]. split; [congruence|exact H3].
    - cbn [svalid] in Hv. destruct Hv as [Hi Hj].
      destruct (Z.eq_dec j (Z.of_nat (length (s_elems s)))) as [E|E].
      { apply vstep_rep_nt; auto. cbn [svalid]. auto. right. exact E. }
      destruct R as [offs R]. cbn [vstep sstep s_elems s_cap].
      pose proof (erase_range_rep_fixed_nt L Hwf Hnv Ht v _ offs R (Z.to_nat i) (Z.to_nat j)
                    ltac:(lia) ltac:(left; lia) ltac:(lia)) as H.
      rewrite !Z2Nat.id in H by lia. cbv zeta in H. destruct H as (H1 & H2 & H3 & _).
      split; [exact H1|]. split; [congruence|exact H3].
  Qed.

  Fixpoint nt_hist_okx (s : svec) (h : list sop) : Prop :=
    match h with
    | [] => True
    | o :: h' => nt_okx s o /\ nt_hist_okx (sstep s o) h'
    end.

  Lemma nt_hist_ok_okx h : forall s, nt_hist_ok s h -> nt_hist_okx s h.
  Proof.
    induction h as [|o h IH]; intros s H; cbn [nt_hist_ok nt_hist_okx] in *; [exact I|].
    destruct H as [H1 H2]. split; [right; exact H1|apply IH; exact H2].
  Qed.

  Lemma nt_hist_okx_fixed h : has_varying L = false -> forall s, nt_hist_okx s h.
  Proof.
    intros Hnv. induction h as [|o h IH]; intros s; cbn [nt_hist_okx]; [exact I|].
    split; [left; exact Hnv|apply IH].
  Qed.

  Theorem vrun_rep_ntx junk h : forall v s,
    Rep L v (s_elems s) -> v_cap v = s_cap s -> shist_valid L (fixed_counts L (v_fixed v)) s h ->
    nt_hist_okx s h ->
    Rep L (vrun L junk v h) (s_elems (srun s h)) /\ v_cap (vrun L junk v h) = s_cap (srun s h).
  Proof.
    induction h as [|o h IH]; intros v s R Hc Hv Hn; cbn [vrun srun shist_valid nt_hist_okx] in *; [auto|].
    destruct Hv as [Hv1 Hv2]. destruct Hn as [Hn1 Hn2].
    destruct (vstep_rep_ntx junk v s o R Hc Hv1 Hn1) as (R' & Hc' & Hf).
    apply IH; auto. rewrite Hf. exact Hv2.
  Qed.
End Nt.

(* C01 for EVERY well-formed parameter list - trivially copyable and non-trivial value types
   alike: construction, then any valid history in which erase() is either applied to a list
   of trivially relocatable types or removes elements up to the end *)
Theorem refinement_every_list : forall L cap budget fixed aid junk bid tbid h,
  wf_plist L = true -> 0 <= cap -> Forall (fun c => 0 <= c) fixed ->
  let v0 := fst (mkvec L cap budget fixed aid junk bid tbid) in
  let s0 := {| s_cap := cap; s_elems := [] |} in
  shist_valid L (fixed_counts L fixed) s0 h -> nt_hist_ok L s0 h ->
  let v := vrun L junk v0 h in
  let s := srun s0 h in
  vsize L v = Z.of_nat (length (s_elems s)) /\
  v_cap v = s_cap s /\
  forall i, (i < length (s_elems s))%nat ->
    read_elem L (v_fixed v) (v_mem v) (eaddr L v (Z.of_nat i)) = nth i (s_elems s) [].
Proof.
  intros L cap budget fixed aid junk bid tbid h Hwf Hcap Hfx. cbv zeta. intros Hv Hn.
  assert (Hst : has_varying L = false -> stride_ok L (fixed_counts L fixed) (snd (esize L fixed))).
  { intros Hnv. apply esize_stride_ok; auto. apply fixed_counts_nonneg; auto. }
  destruct (mkvec_rep L Hwf cap budget fixed aid junk bid tbid Hcap Hst) as (R0 & Hc0 & Hf0).
  cbv zeta in *.
  destruct (vrun_rep_nt L Hwf junk h _ {| s_cap := cap; s_elems := [] |} R0 Hc0) as (R & Hc); auto.
  destruct (rep_obs_nt L Hwf _ _ R) as (H1 & H2). auto.
Qed.

(* the same with the weaker restriction: NO restriction at all on a list without a VaryingSize
   parameter - there every valid history, erase() in the middle over non-trivially relocatable
   value types included, keeps the vector a faithful image of the list of tuples *)
Theorem refinement_every_list_x : forall L cap budget fixed aid junk bid tbid h,
  wf_plist L = true -> 0 <= cap -> Forall (fun c => 0 <= c) fixed ->
  let v0 := fst (mkvec L cap budget fixed aid junk bid tbid) in
  let s0 := {| s_cap := cap; s_elems := [] |} in
  shist_valid L (fixed_counts L fixed) s0 h -> nt_hist_okx L s0 h ->
  let v := vrun L junk v0 h in
  let s := srun s0 h in
  vsize L v = Z.of_nat (length (s_elems s)) /\
  v_cap v = s_cap s /\
  forall i, (i < length (s_elems s))%nat ->
    read_elem L (v_fixed v) (v_mem v) (eaddr L v (Z.of_nat i)) = nth i (s_elems s) [].
Proof.
  intros L cap budget fixed aid junk bid tbid h Hwf Hcap Hfx. cbv zeta. intros Hv Hn.
  assert (Hst : has_varying L = false -> stride_ok L (fixed_counts L fixed) (snd (esize L fixed))).
  { intros Hnv. apply esize_stride_ok; auto. apply fixed_counts_nonneg; auto. }
  destruct (mkvec_rep L Hwf cap budget fixed aid junk bid tbid Hcap Hst) as (R0 & Hc0 & Hf0).
  cbv zeta in *.
  destruct (vrun_rep_ntx L Hwf junk h _ {| s_cap := cap; s_elems := [] |} R0 Hc0) as (R & Hc); auto.
  destruct (rep_obs_nt L Hwf _ _ R) as (H1 & H2). auto.
Qed.

Corollary refinement_fixed_list_every_history : forall L cap budget fixed aid junk bid tbid h,
  wf_plist L = true -> has_varying L = false -> 0 <= cap -> Forall (fun c => 0 <= c) fixed ->
  let v0 := fst (mkvec L cap budget fixed aid junk bid tbid) in
  let s0 := {| s_cap := cap; s_elems := [] |} in
  shist_valid L (fixed_counts L fixed) s0 h ->
  let v := vrun L junk v0 h in
  let s := srun s0 h in
  vsize L v = Z.of_nat (length (s_elems s)) /\
  v_cap v = s_cap s /\
  forall i, (i < length (s_elems s))%nat ->
    read_elem L (v_fixed v) (v_mem v) (eaddr L v (Z.of_nat i)) = nth i (s_elems s) [].
Proof.
  intros L cap budget fixed aid junk bid tbid h Hwf Hnv Hcap Hfx. cbv zeta. intros Hv.
  apply refinement_every_list_x; auto. apply nt_hist_okx_fixed. exact Hnv.
Qed.

(* the hypotheses are satisfiable for a list with a non-trivial type:
   (uint32, VaryingSize<Tracked 8-byte type>), emplace x3, reserve, pop_back, erase of the last
   element, erase(first, end()), emplace, clear, emplace *)
Definition ntL : list param :=
  [ {| pk := Plain; psz := 4; pal := 4; pty := TUInt |};
    {| pk := Varying; psz := 8; pal := 8; pty := TTrk |} ].
Definition ntA : tuple := [[[1; 0; 0; 0]]; [[1; 2; 3; 4; 5; 6; 7; 8]]].
Definition ntB : tuple := [[[2; 0; 0; 0]]; [[9; 9; 9; 9; 9; 9; 9; 9]; [8; 8; 8; 8; 8; 8; 8; 8]]].
Definition ntC : tuple := [[[0; 0; 0; 0]]; []].
Definition ntH : list sop :=
  [SEmplace ntA; SEmplace ntB; SEmplace ntC; SReserve 6 64; SPopBack; SEmplace ntB; SErase 2;
   SEmplace ntA; SEraseRange 1 3; SEmplace ntC; SClear; SEmplace ntB].
Example refinement_every_list_applies :
  wf_plist ntL = true /\ all_triv ntL = false /\
  shist_valid ntL (fixed_counts ntL []) {| s_cap := 3; s_elems := [] |} ntH /\
  nt_hist_ok ntL {| s_cap := 3; s_elems := [] |} ntH /\
  s_elems (srun {| s_cap := 3; s_elems := [] |} ntH) = [ntB].
Proof.
  split; [reflexivity|]. split; [reflexivity|]. split; [|split].
  - cbn. repeat split; try lia; try discriminate; repeat constructor.
  - cbn. unfold nt_ok. cbn. repeat split; try (right; lia); auto.
  - reflexivity.
Qed.

(* C05 at history level for every list: the representation invariant (with tight packing)
   holds after every valid history in which erase with a tail only occurs on trivially
   relocatable lists *)
Theorem rep_every_history_nt : forall L cap budget fixed aid junk bid tbid h,
  wf_plist L = true -> 0 <= cap -> Forall (fun c => 0 <= c) fixed ->
  let v0 := fst (mkvec L cap budget fixed aid junk bid tbid) in
  let s0 := {| s_cap := cap; s_elems := [] |} in
  shist_valid L (fixed_counts L fixed) s0 h -> nt_hist_okx L s0 h ->
  Rep L (vrun L junk v0 h) (s_elems (srun s0 h)).
Proof.
  intros L cap budget fixed aid junk bid tbid h Hwf Hcap Hfx. cbv zeta. intros Hv Hn.
  assert (Hst : has_varying L = false -> stride_ok L (fixed_counts L fixed) (snd (esize L fixed))).
  { intros Hnv. apply esize_stride_ok; auto. apply fixed_counts_nonneg; auto. }
  destruct (mkvec_rep L Hwf cap budget fixed aid junk bid tbid Hcap Hst) as (R0 & Hc0 & Hf0).
  cbv zeta in *.
  destruct (vrun_rep_ntx L Hwf junk h _ {| s_cap := cap; s_elems := [] |} R0 Hc0) as (R & Hc); auto.
Qed.

Theorem tight_every_history_nt : forall L cap budget fixed aid junk bid tbid h,
  wf_plist L = true -> 0 <= cap -> Forall (fun c => 0 <= c) fixed ->
  let v0 := fst (mkvec L cap budget fixed aid junk bid tbid) in
  let s0 := {| s_cap := cap; s_elems := [] |} in
  shist_valid L (fixed_counts L fixed) s0 h -> nt_hist_okx L s0 h ->
  let v := vrun L junk v0 h in
  let l := s_elems (srun s0 h) in
  (forall i, (i < length l)%nat -> eaddr L v (Z.of_nat i) = first_align L (prev_end L v l i)) /\
  (dend L v = prev_end L v l (length l) \/ dend L v = first_align L (prev_end L v l (length l))).
Proof.
  intros L cap budget fixed aid junk bid tbid h Hwf Hcap Hfx. cbv zeta. intros Hv Hn.
  apply rep_positions_tight; auto. apply rep_every_history_nt; auto.
Qed.
