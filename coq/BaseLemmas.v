(* BaseLemmas.v — characterisation of the primitives of Base.v. *)
From Coq Require Import ZArith Lia List Bool.
From Cntgs Require Import Base.
Local Open Scope Z_scope.

Lemma pow2_pos a : pow2 a -> 0 < a.
Proof. intros [k [Hk ->]]. apply Z.pow_pos_nonneg; lia. Qed.

Lemma pow2_1 : pow2 1.
Proof. exists 0. split; [lia|reflexivity]. Qed.

Lemma pow2_divide a b : pow2 a -> pow2 b -> a <= b -> (a | b).
Proof.
  intros [k [Hk ->]] [j [Hj ->]] Hle.
  assert (k <= j) by (apply (Z.pow_le_mono_r_iff 2); lia).
  exists (2 ^ (j - k)). rewrite <- Z.pow_add_r by lia. f_equal. lia.
Qed.

Lemma pow2_min a b : pow2 a -> pow2 b -> pow2 (Z.min a b).
Proof. intros; destruct (Z.min_spec a b) as [[_ ->]|[_ ->]]; assumption. Qed.
Lemma pow2_max a b : pow2 a -> pow2 b -> pow2 (Z.max a b).
Proof. intros; destruct (Z.max_spec a b) as [[_ ->]|[_ ->]]; assumption. Qed.
Lemma pow2_min_div_l a b : pow2 a -> pow2 b -> (Z.min a b | a).
Proof. intros Ha Hb. apply pow2_divide; auto using pow2_min. lia. Qed.
Lemma pow2_min_div_r a b : pow2 a -> pow2 b -> (Z.min a b | b).
Proof. intros Ha Hb. apply pow2_divide; auto using pow2_min. lia. Qed.
Lemma pow2_total a b : pow2 a -> pow2 b -> (a | b) \/ (b | a).
Proof. intros Ha Hb. destruct (Z.le_ge_cases a b); [left|right]; apply pow2_divide; auto. Qed.

(* ---------- lowbit ---------- *)
Lemma lowbit_pos_spec p : exists k, 0 <= k /\ Zpos (lowbit_pos p) = 2 ^ k /\ (2 ^ k | Zpos p).
Proof.
  induction p as [p IH|p IH|].
  - exists 0. cbn [lowbit_pos]. split; [lia|]. split; [reflexivity|]. apply Z.divide_1_l.
  - destruct IH as [k [Hk [E D]]]. exists (k + 1). cbn [lowbit_pos].
    rewrite Pos2Z.inj_xO, E, (Pos2Z.inj_xO p), Z.pow_add_r by lia.
    split; [lia|]. split; [ring|].
    rewrite (Z.mul_comm (2^k)). apply Z.mul_divide_mono_l. exact D.
  - exists 0. split; [lia|]. split; [reflexivity|]. apply Z.divide_1_l.
Qed.

Lemma lowbit_0 : lowbit 0 = 0.
Proof. reflexivity. Qed.

Lemma lowbit_spec v : 0 < v -> pow2 (lowbit v) /\ (lowbit v | v).
Proof.
  intros Hv. destruct v as [|p|p]; try lia. cbn [lowbit].
  destruct (lowbit_pos_spec p) as [k [Hk [E D]]]. rewrite E. split; [exists k; auto|exact D].
Qed.

Lemma lowbit_nonneg v : 0 <= lowbit v.
Proof. destruct v; cbn [lowbit]; lia. Qed.

Lemma lowbit_le v : 0 < v -> lowbit v <= v.
Proof.
  intros Hv. destruct (lowbit_spec v Hv) as [Hp Hd]. apply Z.divide_pos_le; auto.
Qed.

(* lowbit is the LARGEST power of two dividing v *)
Lemma lowbit_pos_max p : forall k, 0 <= k -> (2 ^ k | Zpos p) -> 2 ^ k <= Zpos (lowbit_pos p).
Proof.
  induction p as [p IH|p IH|]; intros k Hk Hd.
  - cbn [lowbit_pos]. destruct (Z.eq_dec k 0) as [->|Hk0]; [simpl; lia|].
    exfalso. destruct Hd as [q Hq]. replace k with (Z.succ (k - 1)) in Hq by lia.
    rewrite Z.pow_succ_r in Hq by lia. lia.
  - cbn [lowbit_pos]. destruct (Z.eq_dec k 0) as [->|Hk0]; [simpl; lia|].
    assert (Hd' : (2 ^ (k - 1) | Zpos p)).
    { destruct Hd as [q Hq]. exists q. replace k with (Z.succ (k - 1)) in Hq by lia.
      rewrite Z.pow_succ_r in Hq by lia. lia. }
    specialize (IH (k - 1) ltac:(lia) Hd').
    replace k with (Z.succ (k - 1)) by lia. rewrite Z.pow_succ_r by lia. lia.
  - cbn [lowbit_pos]. destruct (Z.eq_dec k 0) as [->|Hk0]; [simpl; lia|].
    exfalso. destruct Hd as [q Hq]. replace k with (Z.succ (k - 1)) in Hq by lia.
    rewrite Z.pow_succ_r in Hq by lia.
    assert (0 < 2 ^ (k - 1)) by (apply Z.pow_pos_nonneg; lia). nia.
Qed.

Lemma lowbit_max v a : 0 < v -> pow2 a -> (a | v) -> a <= lowbit v.
Proof.
  intros Hv [k [Hk ->]] Hd. destruct v as [|p|p]; try lia. cbn [lowbit].
  apply lowbit_pos_max; auto.
Qed.

Lemma is_pow2b_spec a : is_pow2b a = true -> pow2 a.
Proof.
  destruct a as [|p|p]; cbn [is_pow2b]; try discriminate.
  intros H. apply Pos.eqb_eq in H. destruct (lowbit_pos_spec p) as [k [Hk [E _]]].
  exists k. split; auto. rewrite <- E, H. reflexivity.
Qed.

(* ---------- align_up ---------- *)
Lemma align_up_div x a : 0 < a -> (a | align_up x a).
Proof. intros Ha. unfold align_up. apply Z.divide_factor_r. Qed.

Lemma align_up_ge x a : 0 < a -> x <= align_up x a < x + a.
Proof.
  intros Ha. unfold align_up.
  pose proof (Z.div_mod (x + a - 1) a ltac:(lia)) as Hdm.
  pose proof (Z.mod_pos_bound (x + a - 1) a Ha) as Hb.
  rewrite (Z.mul_comm _ a). lia.
Qed.

Lemma align_up_unique x a y : 0 < a -> (a | y) -> x <= y < x + a -> y = align_up x a.
Proof.
  intros Ha [q Hq] Hy.
  destruct (align_up_div x a Ha) as [r Hr]. pose proof (align_up_ge x a Ha).
  assert (q = r) by nia. subst. lia.
Qed.

Lemma align_up_shift x a b : 0 < a -> (a | b) -> align_up (x + b) a = align_up x a + b.
Proof.
  intros Ha Hab. symmetry. apply align_up_unique; auto.
  - apply Z.divide_add_r; [apply align_up_div; auto | auto].
  - pose proof (align_up_ge x a Ha). lia.
Qed.

Lemma align_up_id x a : 0 < a -> (a | x) -> align_up x a = x.
Proof. intros Ha Hd. symmetry. apply align_up_unique; auto. lia. Qed.

Lemma align_up_1 x : align_up x 1 = x.
Proof. apply align_up_id; [lia|apply Z.divide_1_l]. Qed.

Lemma align_up_mono x y a : 0 < a -> x <= y -> align_up x a <= align_up y a.
Proof.
  intros Ha Hxy. unfold align_up. apply Z.mul_le_mono_nonneg_r; [lia|].
  apply Z.div_le_mono; lia.
Qed.

Lemma align_up_least x a y : 0 < a -> (a | y) -> x <= y -> align_up x a <= y.
Proof.
  intros Ha Hd Hxy. rewrite <- (align_up_id y a Ha Hd). apply align_up_mono; auto.
Qed.

(* ---------- the as-written versions agree in the no-overflow domain ---------- *)
Definition Lnd (v : Z) := Z.land v (- v).

Lemma Lnd_even v : Lnd (2 * v) = 2 * Lnd v.
Proof.
  unfold Lnd. replace (- (2 * v)) with (2 * (- v)) by ring.
  apply Z.bits_inj'. intros n Hn.
  destruct (Z.eq_dec n 0) as [->|Hn0].
  - rewrite Z.land_spec, !Z.testbit_even_0. reflexivity.
  - replace n with (Z.succ (n - 1)) by lia.
    rewrite Z.land_spec, !Z.testbit_even_succ by lia. now rewrite Z.land_spec.
Qed.

Lemma Lnd_odd v : Lnd (2 * v + 1) = 1.
Proof.
  unfold Lnd. replace (- (2 * v + 1)) with (2 * (- v - 1) + 1) by ring.
  apply Z.bits_inj'. intros n Hn.
  destruct (Z.eq_dec n 0) as [->|Hn0].
  - rewrite Z.land_spec, !Z.testbit_odd_0. reflexivity.
  - replace n with (Z.succ (n - 1)) by lia.
    rewrite Z.land_spec, !Z.testbit_odd_succ by lia.
    replace (- v - 1) with (Z.lnot v) by (unfold Z.lnot; lia).
    rewrite Z.lnot_spec by lia. rewrite andb_negb_r.
    change 1 with (2 * 0 + 1). rewrite Z.testbit_odd_succ by lia. now rewrite Z.testbit_0_l.
Qed.

Lemma Lnd_lowbit p : Lnd (Zpos p) = Zpos (lowbit_pos p).
Proof.
  induction p as [p IH|p IH|].
  - rewrite Pos2Z.inj_xI, Lnd_odd. reflexivity.
  - rewrite Pos2Z.inj_xO, Lnd_even, IH. reflexivity.
  - reflexivity.
Qed.

Lemma lowbit64_Lnd v : 0 <= v < W -> lowbit64 v = Lnd v.
Proof.
  intros Hv. unfold lowbit64, Lnd, wrap. replace (Z.lnot v + 1) with (- v) by (unfold Z.lnot; lia).
  unfold W. rewrite <- Z.land_ones by lia.
  rewrite (Z.land_comm (- v) (Z.ones 64)), Z.land_assoc. rewrite Z.land_ones by lia.
  rewrite (Z.mod_small v) by (unfold W in Hv; lia). reflexivity.
Qed.

Theorem lowbit64_spec v : 0 <= v < W -> lowbit64 v = lowbit v.
Proof.
  intros Hv. rewrite lowbit64_Lnd by exact Hv.
  destruct v as [|p|p]; [reflexivity| apply Lnd_lowbit | lia].
Qed.

Lemma land_high_mask x k : 0 <= k <= 64 -> 0 <= x < 2^64 ->
  Z.land x (Z.ldiff (Z.ones 64) (Z.ones k)) = Z.ldiff x (Z.ones k).
Proof.
  intros Hk Hx. apply Z.bits_inj'. intros n Hn.
  rewrite Z.land_spec, !Z.ldiff_spec.
  destruct (Z.ltb_spec n 64) as [H64|H64].
  - rewrite (Z.ones_spec_low 64) by lia. now rewrite andb_true_l.
  - rewrite (Z.bits_above_log2 x n); [reflexivity| lia |].
    destruct (Z.eq_dec x 0) as [->|Hx0]; [simpl; lia|].
    apply Z.log2_lt_pow2; try lia.
    assert (2^64 <= 2^n) by (apply Z.pow_le_mono_r; lia). lia.
Qed.

Lemma ldiff_ones_mod x k : 0 <= k -> 0 <= x -> Z.ldiff x (Z.ones k) = x - x mod 2^k.
Proof.
  intros Hk Hx. rewrite Z.ldiff_ones_r by lia.
  rewrite Z.shiftr_div_pow2, Z.shiftl_mul_pow2 by lia.
  assert (0 < 2^k) by (apply Z.pow_pos_nonneg; lia).
  pose proof (Z.div_mod x (2^k)). lia.
Qed.

Lemma mask_eq k : 0 <= k < 64 -> wrap (2^k * (W - 1)) = Z.ldiff (Z.ones 64) (Z.ones k).
Proof.
  intros Hk. rewrite ldiff_ones_mod by (try lia; rewrite Z.ones_equiv; unfold Z.pred; assert (0 < 2^64) by reflexivity; lia).
  rewrite Z.ones_equiv.
  assert (Hp : 0 < 2^k) by (apply Z.pow_pos_nonneg; lia).
  assert (Hle : 2^k <= 2^63) by (apply Z.pow_le_mono_r; lia).
  assert (E64 : 2^64 = 2^(64-k) * 2^k) by (rewrite <- Z.pow_add_r by lia; f_equal; lia).
  assert (Hm : (Z.pred (2^64)) mod 2^k = 2^k - 1).
  { unfold Z.pred. rewrite E64.
    replace (2^(64-k) * 2^k + -1) with ((2^k - 1) + (2^(64-k) - 1) * 2^k) by ring.
    rewrite Z.mod_add by lia. apply Z.mod_small. lia. }
  rewrite Hm. unfold wrap, W.
  replace (2^k * (2^64 - 1)) with ((2^64 - 2^k) + (2^k - 1) * 2^64) by ring.
  rewrite Z.mod_add by lia. rewrite Z.mod_small; [unfold Z.pred; lia|].
  change (2^64) with (2 * 2^63) in *. lia.
Qed.

Lemma align64_props pos k : 0 <= k < 62 -> 0 <= pos < 2^62 ->
  (2^k | align64 pos (2^k)) /\ pos <= align64 pos (2^k) < pos + 2^k.
Proof.
  intros Hk Hpos.
  assert (Hp : 0 < 2^k) by (apply Z.pow_pos_nonneg; lia).
  assert (Hle : 2^k <= 2^61) by (apply Z.pow_le_mono_r; lia).
  unfold align64. rewrite mask_eq by lia.
  assert (Hx : 0 <= pos - 1 + 2^k < 2^64).
  { change (2^64) with (8 * 2^61). change (2^62) with (2 * 2^61) in Hpos. lia. }
  unfold wrap, W. rewrite (Z.mod_small (pos - 1 + 2^k)) by lia.
  rewrite land_high_mask by lia. rewrite ldiff_ones_mod by lia.
  remember (2^k) as a eqn:Ea. remember (pos - 1 + a) as x eqn:Ex.
  pose proof (Z.mod_pos_bound x a Hp) as Hb.
  pose proof (Z.div_mod x a) as Hdm.
  split.
  - exists (x / a). lia.
  - lia.
Qed.

Theorem align64_spec pos k : 0 <= k < 62 -> 0 <= pos < 2^62 ->
  align64 pos (2^k) = align_up pos (2^k).
Proof.
  intros Hk Hpos. destruct (align64_props pos k Hk Hpos) as [Hd Hb].
  apply align_up_unique; auto. apply Z.pow_pos_nonneg; lia.
Qed.
