(* RaceThm.v — const operations are conflict free under every interleaving. *)
From Coq Require Import ZArith List Bool Lia.
From Cntgs Require Import Base Layout Mem Vector Proxy Race.
Import ListNotations.
Local Open Scope Z_scope.

Definition is_priv (l : loc) : bool := match l with LPriv _ _ => true | _ => false end.

Lemma table_reads_shared L s i : Forall (fun l => is_priv l = false) (table_reads L s i).
Proof. unfold table_reads. destruct (has_varying L); repeat constructor. Qed.

Lemma elem_reads_shared L v s i : Forall (fun l => is_priv l = false) (elem_reads L v s i).
Proof.
  unfold elem_reads. constructor; [reflexivity|]. apply Forall_app. split; [apply table_reads_shared|].
  apply Forall_forall. intros l Hl. apply in_map_iff in Hl. destruct Hl as (k & <- & _). reflexivity.
Qed.

Lemma all_reads_shared L v s : Forall (fun l => is_priv l = false) (all_reads L v s).
Proof.
  unfold all_reads. constructor; [reflexivity|]. apply Forall_forall. intros l Hl.
  apply in_flat_map in Hl. destruct Hl as (i & _ & Hl).
  pose proof (elem_reads_shared L v s (Z.of_nat i)) as H. rewrite Forall_forall in H. apply H. exact Hl.
Qed.

(* reads only touch shared state *)
Lemma reads_shared L vs c : Forall (fun l => is_priv l = false) (reads L vs c).
Proof.
  destruct c; cbn [reads].
  - constructor; [reflexivity|apply table_reads_shared].
  - apply elem_reads_shared.
  - apply all_reads_shared.
  - apply Forall_app. split; apply all_reads_shared.
  - apply all_reads_shared.
  - apply elem_reads_shared.
Qed.

(* writes only touch memory private to the writing thread *)
Lemma writes_private L vs tid c : Forall (fun l => exists k, l = LPriv tid k) (writes L vs tid c).
Proof.
  destruct c; cbn [writes]; try constructor;
    apply Forall_forall; intros l Hl; apply in_map_iff in Hl; destruct Hl as (k & <- & _); eexists; reflexivity.
Qed.

Lemma access_cases L vs tid c x : In x (accesses L vs tid c) ->
  a_tid x = tid /\
  ((a_write x = false /\ is_priv (a_loc x) = false) \/ (a_write x = true /\ exists k, a_loc x = LPriv tid k)).
Proof.
  unfold accesses. intros H. apply in_app_or in H. destruct H as [H|H]; apply in_map_iff in H; destruct H as (l & <- & Hl).
  - split; [reflexivity|left]. split; [reflexivity|].
    pose proof (reads_shared L vs c) as Hs. rewrite Forall_forall in Hs. apply Hs. exact Hl.
  - split; [reflexivity|right]. split; [reflexivity|].
    pose proof (writes_private L vs tid c) as Hp. rewrite Forall_forall in Hp. apply Hp. exact Hl.
Qed.

(* any number of threads, any programs of const operations, any interleaving: no two
   accesses conflict *)
Theorem const_operations_never_conflict L vs progs tr :
  from_programs L vs progs tr ->
  forall x y, In x tr -> In y tr -> ~ conflict x y.
Proof.
  intros Hfp x y Hx Hy (Htid & Hloc & Hw).
  destruct (Hfp x Hx) as (cx & _ & Hax). destruct (Hfp y Hy) as (cy & _ & Hay).
  destruct (access_cases _ _ _ _ _ Hax) as (_ & Hcx). destruct (access_cases _ _ _ _ _ Hay) as (_ & Hcy).
  destruct Hcx as [(Hwx & Hsx) | (Hwx & kx & Hlx)]; destruct Hcy as [(Hwy & Hsy) | (Hwy & ky & Hly)].
  - destruct Hw as [Hw|Hw]; congruence.
  - rewrite Hloc, Hly in Hsx. discriminate.
  - rewrite <- Hloc, Hlx in Hsy. discriminate.
  - rewrite Hlx, Hly in Hloc. injection Hloc as E _. apply Htid. exact E.
Qed.

(* threads working on DISTINCT vectors (also copies of one another) do not even read common
   locations: the locations of vector s carry s *)
Definition loc_of (l : loc) : option nat :=
  match l with LRec s | LSlot s _ | LByte s _ => Some s | LPriv _ _ => None end.
Lemma all_reads_own L v s : Forall (fun l => loc_of l = Some s) (all_reads L v s).
Proof.
  unfold all_reads. constructor; [reflexivity|]. apply Forall_forall. intros l Hl.
  apply in_flat_map in Hl. destruct Hl as (i & _ & Hl). unfold elem_reads in Hl.
  destruct Hl as [<-|Hl]; [reflexivity|]. apply in_app_or in Hl. destruct Hl as [Hl|Hl].
  - unfold table_reads in Hl. destruct (has_varying L); [destruct Hl as [<-|[]]; reflexivity|destruct Hl].
  - apply in_map_iff in Hl. destruct Hl as (k & <- & _). reflexivity.
Qed.
