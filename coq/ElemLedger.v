(* ElemLedger.v — the block of a ContiguousElement is obtained once and returned once (C07,
   elements): over the whole life of an element made from a reference - construction (either
   form), destruction - the allocation ledger is balanced: one block is requested from the
   element's allocator and returned to that allocator with the unit size and count it was
   requested with; nothing else is allocated or freed. *)
From Coq Require Import ZArith Lia List Bool.
From Cntgs Require Import Base BaseLemmas Layout LayoutThm Mem MemLemmas Vector Proxy Elem Spec Rep
     StableThm WorldThm NtLedger.
Import ListNotations.
Local Open Scope Z_scope.

Lemma construct_fields_no_alloc mv sb db : forall L fls fld ms md,
  no_alloc (snd (construct_fields mv L fls fld sb db ms md)).
Proof.
  induction L as [|p L IH]; intros fls fld ms md; [reflexivity|].
  destruct fls as [|[sa c] fls]; [reflexivity|]. destruct fld as [|[da c'] fld]; [reflexivity|].
  cbn [construct_fields]. destruct (ntc mv p).
  - pose proof (relocate_objs_no_alloc mv p sb db (Z.to_nat c) ms md sa da) as H1.
    destruct (relocate_objs mv p sb db ms md sa da (Z.to_nat c)) as [[ms1 md1] e1].
    specialize (IH fls fld ms1 md1). destruct (construct_fields mv L fls fld sb db ms1 md1) as [[ms2 md2] e2].
    cbn [snd] in *. apply no_alloc_app; assumption.
  - specialize (IH fls fld ms md). destruct (construct_fields mv L fls fld sb db ms md) as [[ms2 md2] e2].
    cbn [snd app] in *. exact IH.
Qed.

Lemma destruct_fields_no_alloc : forall L fl bid m, no_alloc (snd (destruct_fields L fl bid m)).
Proof.
  induction L as [|p L IH]; intros fl bid m; [reflexivity|].
  destruct fl as [|[x c] fl]; [reflexivity|]. cbn [destruct_fields].
  specialize (IH fl bid (if ntd p then scribble m x (psz p) (Z.to_nat c) (dead_bytes (psz p)) else m)).
  destruct (destruct_fields L fl bid _) as [m2 e2]. cbn [snd] in *.
  apply no_alloc_app; [|exact IH]. destruct (ntd p); [|reflexivity]. apply no_alloc_obj_events. reflexivity.
Qed.

Theorem elem_life_ledger mv L ms fls sb aid junk nb :
  let r := elem_from_ref mv L ms fls sb aid junk nb in
  let e := snd (fst r) in
  ledger [] (snd r) = Some [(nb, (aid, SA L, units L (ref_bytes L fls)))] /\
  ledger [] (snd r ++ elem_destroy L e) = Some [].
Proof.
  cbv zeta. unfold elem_from_ref, store_and_load.
  pose proof (construct_fields_no_alloc mv sb nb L fls (fl_at0 L fls) ms
                (mcopy ms (fst (hd fld0 fls)) junk 0 (ref_bytes L fls))) as Hc.
  destruct (construct_fields mv L fls (fl_at0 L fls) sb nb ms _) as [[ms1 md1] evs]. cbn [fst snd] in *.
  assert (H1 : ledger [] (EAlloc aid (SA L) (units L (ref_bytes L fls)) nb :: ERaw nb 0 (ref_bytes L fls) :: evs) =
               Some [(nb, (aid, SA L, units L (ref_bytes L fls)))]).
  { cbn [ledger has_blk existsb app]. apply no_alloc_ledger. exact Hc. }
  split; [exact H1|].
  rewrite (ledger_app [] _ _ _ H1).
  unfold elem_destroy, elem_destruct, elem_dealloc. cbn [e_bid e_aid e_units e_fl e_mem].
  assert (Hd : forall evd, no_alloc evd ->
            ledger [(nb, (aid, SA L, units L (ref_bytes L fls)))]
                   (evd ++ [EDealloc aid (SA L) (units L (ref_bytes L fls)) nb]) = Some []).
  { intros evd Hn. rewrite (ledger_app _ evd _ _ (no_alloc_ledger evd _ Hn)).
    cbn [ledger find_blk find fst snd]. rewrite Nat.eqb_refl. rewrite !Z.eqb_refl. cbn [andb drop_blk filter fst negb]. rewrite Nat.eqb_refl. reflexivity. }
  destruct (all_dtriv L); [apply (Hd []); reflexivity|].
  pose proof (destruct_fields_no_alloc L (fl_at0 L fls) nb md1) as Hn.
  destruct (destruct_fields L (fl_at0 L fls) nb md1) as [m2 e2]. cbn [snd] in *. apply Hd. exact Hn.
Qed.
