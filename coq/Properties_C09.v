(* C09 — copy, move and swap have value semantics. *)
From Coq Require Import ZArith List Bool.
From Cntgs Require Import Base Layout Mem Vector World Spec Rep WorldThm StableThm NtWorld.
Import ListNotations.
Local Open Scope Z_scope.

(* copies represent the same list of tuples as the source, in their own block, and leave
   the source record untouched; since a vector's bytes live in its own record, later
   operations on one cannot change what the other represents (independence) *)
Theorem C09_copy_construction : forall L, wf_plist L = true -> all_triv L = true -> all_ctriv false L = true ->
  forall K src l junk nb, Rep L src l ->
  let '(d, src', evs, nb') := copy_ctor K L src junk nb in
  Rep L d l /\ src' = src /\ v_aid d = soccc K (v_aid src) /\
  v_cap d = v_cap src /\ v_fixed d = v_fixed src /\ v_bid d = Some nb.
Proof. exact copy_ctor_spec. Qed.
Print Assumptions C09_copy_construction.

Theorem C09_copy_assignment : forall L, wf_plist L = true -> all_triv L = true -> all_ctriv false L = true ->
  forall K d src l junk nb, Rep L src l ->
  let '(d', src', evs, nb') := copy_assign K L d src junk nb in
  Rep L d' l /\ src' = src /\
  v_aid d' = (if pocca K then v_aid src else v_aid d) /\
  v_cap d' = v_cap src /\ v_fixed d' = v_fixed src.
Proof. exact copy_assign_spec. Qed.
Print Assumptions C09_copy_assignment.

(* move assignment gives the target exactly the source's former contents, whatever the
   target held and however large it was *)
Theorem C09_move_assignment : forall L, wf_plist L = true -> all_triv L = true ->
  forall K d src l junk nb, Rep L src l ->
  let '(d', src', evs, nb') := move_assign K L d src junk nb in
  Rep L d' l /\
  v_aid d' = (if pocma K then v_aid src else v_aid d) /\
  (src' = moved_from src \/ src' = src).
Proof. exact move_assign_spec. Qed.
Print Assumptions C09_move_assignment.

(* swap exchanges the complete contents *)
Theorem C09_swap : forall L K a b la lb, Rep L a la -> Rep L b lb ->
  Rep L (fst (swap_vec K a b)) lb /\ Rep L (snd (swap_vec K a b)) la /\
  v_aid (fst (swap_vec K a b)) = (if pocs K then v_aid b else v_aid a) /\
  v_aid (snd (swap_vec K a b)) = (if pocs K then v_aid a else v_aid b).
Proof. exact swap_spec. Qed.
Print Assumptions C09_swap.

(* a moved-from vector has no memory and size 0; destroying it frees nothing *)
Theorem C09_moved_from_state : forall L v,
  vsize L (moved_from v) = 0 /\ v_bid (moved_from v) = None /\ destroy L (moved_from v) = [].
Proof. exact moved_from_empty. Qed.
Print Assumptions C09_moved_from_state.

(* ... and for EVERY well-formed parameter list, non-trivial value types included
   (NtWorld.v): the relocation through the copy / move constructors reproduces every byte in
   the target (NtRefine.insert_into_mem); a copy leaves the source record untouched; after an
   element-wise move the source keeps its block, only its memory differs (moved-from
   objects) *)
Theorem C09_copy_construction_every_list : forall L, wf_plist L = true ->
  forall K src l junk nb, Rep L src l ->
  let '(d, src', evs, nb') := copy_ctor K L src junk nb in
  Rep L d l /\ src' = src /\ v_aid d = soccc K (v_aid src) /\
  v_cap d = v_cap src /\ v_fixed d = v_fixed src /\ v_bid d = Some nb.
Proof. exact copy_ctor_spec_nt. Qed.
Print Assumptions C09_copy_construction_every_list.

Theorem C09_copy_assignment_every_list : forall L, wf_plist L = true ->
  forall K d src l junk nb, Rep L src l ->
  let '(d', src', evs, nb') := copy_assign K L d src junk nb in
  Rep L d' l /\ src' = src /\
  v_aid d' = (if pocca K then v_aid src else v_aid d) /\
  v_cap d' = v_cap src /\ v_fixed d' = v_fixed src.
Proof. exact copy_assign_spec_nt. Qed.
Print Assumptions C09_copy_assignment_every_list.

Theorem C09_move_assignment_every_list : forall L, wf_plist L = true ->
  forall K d src l junk nb, Rep L src l ->
  let '(d', src', evs, nb') := move_assign K L d src junk nb in
  Rep L d' l /\
  v_aid d' = (if pocma K then v_aid src else v_aid d) /\
  (src' = moved_from src \/ exists ms, src' = set_mem src ms).
Proof. exact move_assign_spec_nt. Qed.
Print Assumptions C09_move_assignment_every_list.
