(* Mem.v — byte memory as a function, little-endian object encoding. Definitions only. *)
From Coq Require Import ZArith List Bool.
Import ListNotations.
Local Open Scope Z_scope.

Definition mem := Z -> Z.
Definition inr (a n x : Z) : bool := (a <=? x) && (x <? a + n).

(* store the bytes [bs] at [a] *)
Definition mwrite (m : mem) (a : Z) (bs : list Z) : mem :=
  fun x => if inr a (Z.of_nat (length bs)) x then nth (Z.to_nat (x - a)) bs 0 else m x.
(* the [n] bytes at [a] *)
Definition mread (m : mem) (a : Z) (n : nat) : list Z :=
  map (fun i => m (a + Z.of_nat i)) (seq 0 n).
(* memmove within one memory: [n] bytes from [src] to [dst] (read-then-write) *)
Definition mmove (m : mem) (src dst n : Z) : mem :=
  fun x => if inr dst n x then m (x - dst + src) else m x.
(* memcpy from another memory *)
Definition mcopy (msrc : mem) (src : Z) (m : mem) (dst n : Z) : mem :=
  fun x => if inr dst n x then msrc (x - dst + src) else m x.
(* std::swap_ranges over bytes of two disjoint ranges (possibly of two memories) *)
Definition mfill (b : Z) : mem := fun _ => b.

Fixpoint enc (n : nat) (v : Z) : list Z :=
  match n with O => [] | S n' => (v mod 256) :: enc n' (v / 256) end.
Fixpoint dec (bs : list Z) : Z :=
  match bs with [] => 0 | b :: bs' => b + 256 * dec bs' end.

(* compare two byte strings as the library's value types do *)
Fixpoint lex_lt (a b : list Z) : bool :=     (* std::lexicographical_compare on bytes *)
  match a, b with
  | _, [] => false
  | [], _ :: _ => true
  | x :: a', y :: b' => if x <? y then true else if y <? x then false else lex_lt a' b'
  end.
Fixpoint list_eqb (a b : list Z) : bool :=
  match a, b with
  | [], [] => true
  | x :: a', y :: b' => (x =? y) && list_eqb a' b'
  | _, _ => false
  end.
