(* C13 — equality means equal logical content, nothing else.
   What is proved here, for EVERY parameter list and for arbitrary memory contents (so
   also for every junk fill, spare capacity and allocator): == is reflexive and symmetric
   on vectors and on element references, != is its negation, field-level equality is
   exactly equality of the stored objects including their number.  The characterisation
   "== holds iff the operands hold the same tuples" for the byte-wise compared runs is
   decided by the correspondence check and its content oracle (see DESIGN.md, C13). *)
From Coq Require Import ZArith List Bool.
From Cntgs Require Import Base Layout Mem Vector Proxy World CompareThm.
Import ListNotations.
Local Open Scope Z_scope.

Theorem C13_vector_equality_reflexive : forall L v, vec_equal L v v = true.
Proof. exact vec_equal_refl. Qed.
Print Assumptions C13_vector_equality_reflexive.

Theorem C13_vector_equality_symmetric : forall L v1 v2, vec_equal L v1 v2 = vec_equal L v2 v1.
Proof. exact vec_equal_sym. Qed.
Print Assumptions C13_vector_equality_symmetric.

Theorem C13_reference_equality_reflexive : forall L m fl, elem_equal L m fl m fl = true.
Proof. exact elem_equal_refl. Qed.
Print Assumptions C13_reference_equality_reflexive.

Theorem C13_reference_equality_symmetric : forall L m1 fl1 m2 fl2,
  elem_equal L m1 fl1 m2 fl2 = elem_equal L m2 fl2 m1 fl1.
Proof. exact elem_equal_sym. Qed.
Print Assumptions C13_reference_equality_symmetric.

(* a field compared object by object is equal exactly when it holds the same objects,
   the same number of them included (four-iterator std::equal) *)
Theorem C13_field_equality_is_content_equality : forall a b : list (list Z), span_eq a b = true <-> a = b.
Proof. exact span_eq_eq. Qed.
Print Assumptions C13_field_equality_is_content_equality.

(* != is the negation of ==, <= / >= the negations of > / < : how the library derives them *)
Theorem C13_not_equal_is_negation : forall L v1 v2,
  nth 1 (cmp_vecs L v1 v2) false = negb (nth 0 (cmp_vecs L v1 v2) false) /\
  forall i j, nth 1 (cmp_refs L v1 i v2 j) false = negb (nth 0 (cmp_refs L v1 i v2 j) false).
Proof. intros L v1 v2. split; [reflexivity|intros i j; reflexivity]. Qed.
Print Assumptions C13_not_equal_is_negation.

(* non-vacuity and the repaired defect: (uint8, AlignAs<uint32,4>) has padding inside what
   used to be one memcmp run; two vectors with the same contents built under junk fills
   170 and 85 now compare equal, element by element and as a whole *)
Definition Lpad : list param :=
  [ {| pk := Plain; psz := 1; pal := 1; pty := TU8 |}; {| pk := Plain; psz := 4; pal := 4; pty := TUInt |} ].
Definition Kstd : akind := {| pocca := false; pocma := false; pocs := false; always_eq := true; soccc_bump := false |}.
Definition ops_pad : list op :=
  [ OpJunk 170; OpMkVec 0 2 0 [] 1; OpEmplace 0 [[[1]]; [[2;2;2;2]]]; OpEmplace 0 [[[3]]; [[1;1;1;1]]];
    OpJunk 85; OpMkVec 1 3 0 [] 1; OpEmplace 1 [[[1]]; [[2;2;2;2]]]; OpEmplace 1 [[[3]]; [[1;1;1;1]]] ].
Definition wpad := run_from Kstd Lpad world0 ops_pad O.
Example C13_padding_is_not_compared :
  padfree Lpad = false /\ runs_eq Lpad = [REnd 0; REnd 1] /\
  vec_equal Lpad (getv wpad 0) (getv wpad 1) = true /\
  ref_equal Lpad (getv wpad 0) 1 (getv wpad 1) 1 = true /\
  ref_equal Lpad (getv wpad 0) 0 (getv wpad 1) 1 = false.
Proof. vm_compute. repeat split. Qed.
