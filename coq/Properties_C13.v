(* C13 — equality means equal logical content, nothing else.
   Proved for EVERY well-formed parameter list:
   * two elements stored anywhere - in any memories, at any aligned positions, whatever
     junk surrounds them, with the same or different fixed sizes - compare equal with the
     library's operator== (memcmp-able runs compared byte-wise, the other fields object-wise)
     EXACTLY when they hold the same tuple: same field sizes, same values
     (C13_reference_equality_is_content_equality).  The proof rests on the structure of the
     run table: a compared run contains no alignment padding and at most one span, at its
     end, so its bytes are the concatenated bytes of its fields.
   * references into vectors that represent lists of tuples, and whole vectors on the
     element-wise path, likewise (C13_vector_elements_…, C13_vector_equality_elementwise_…).
   * for arbitrary memory contents: == is reflexive and symmetric on vectors and references,
     != is its negation.
   * the whole-buffer fast path of vector == (all value types memcmp-able, no padding possible,
     equal fixed sizes) as well: tight packing is part of the representation invariant, so the
     buffers are the concatenation of the elements' bytes, which determine the tuples
     (C13_vector_equality_fast_path_is_content_equality; both paths:
     C13_vector_equality_is_content_equality).  The first attempt to prove it exposed a
     genuine defect - vectors of zero-byte elements compare equal whatever their size - which
     is repaired (DESIGN.md, section 7, F28).
   * lists with floating-point fields: equality is field-wise equality under the value type's
     own == (C13_reference_equality_is_field_equivalence); the tuple-identity statements carry
     the hypothesis noflt L. *)
From Coq Require Import ZArith List Bool.
From Cntgs Require Import Base Layout Mem Vector Proxy World Spec Rep CompareThm ElemThm CmpContent FastEq LessVec.
Import ListNotations.
Local Open Scope Z_scope.

Theorem C13_reference_equality_is_content_equality : forall L, wf_plist L = true ->
  forall t1 t2 fc1 fc2, tuple_ok L fc1 0 t1 -> tuple_ok L fc2 0 t2 ->
  forall m1 m2 a1 a2, elem_at L m1 a1 t1 -> elem_at L m2 a2 t2 -> noflt L ->
  (elem_equal L m1 (ref_fl L t1 a1) m2 (ref_fl L t2 a2) = true <-> t1 = t2).
Proof. exact elem_equal_content. Qed.
Print Assumptions C13_reference_equality_is_content_equality.

Theorem C13_vector_elements_equal_iff_same_tuple : forall L, wf_plist L = true -> noflt L ->
  forall v1 l1 v2 l2 i j, Rep L v1 l1 -> Rep L v2 l2 -> (i < length l1)%nat -> (j < length l2)%nat ->
  (ref_equal L v1 (Z.of_nat i) v2 (Z.of_nat j) = true <-> nth i l1 [] = nth j l2 []).
Proof. exact ref_equal_content. Qed.
Print Assumptions C13_vector_elements_equal_iff_same_tuple.

Theorem C13_vector_equality_elementwise_is_content_equality : forall L, wf_plist L = true -> noflt L ->
  forall v1 l1 v2 l2, Rep L v1 l1 -> Rep L v2 l2 ->
  (forallb eqm L && padfree L && list_eqb (v_fixed v1) (v_fixed v2)) = false ->
  (vec_equal L v1 v2 = true <-> l1 = l2).
Proof. exact vec_equal_content_elementwise. Qed.
Print Assumptions C13_vector_equality_elementwise_is_content_equality.

(* ... and on the whole-buffer path (all value types memcmp-able, IS_PADDING_FREE, equal
   fixed sizes): the bytes [data_begin(), data_end()) are exactly the bytes of the stored
   tuples, without any gap (tight packing is part of the representation invariant), and they
   determine the tuples *)
Theorem C13_vector_equality_fast_path_is_content_equality : forall L, wf_plist L = true -> padfree L = true ->
  forall v1 l1 v2 l2, Rep L v1 l1 -> Rep L v2 l2 ->
  (forallb eqm L && padfree L && list_eqb (v_fixed v1) (v_fixed v2)) = true ->
  (vec_equal L v1 v2 = true <-> l1 = l2).
Proof. exact vec_equal_content_fast. Qed.
Print Assumptions C13_vector_equality_fast_path_is_content_equality.

(* BOTH paths: in every pair of represented states - hence after any two valid histories
   (C01), whatever the capacities, junk, allocators or histories - vector == is equality of
   the two lists of tuples, nothing else *)
Theorem C13_vector_equality_is_content_equality : forall L v1 l1 v2 l2, wf_plist L = true -> noflt L ->
  Rep L v1 l1 -> Rep L v2 l2 -> (vec_equal L v1 v2 = true <-> l1 = l2).
Proof. exact vec_equal_content. Qed.
Print Assumptions C13_vector_equality_is_content_equality.

Theorem C13_vector_equality_reflexive : forall L v, vec_equal L v v = true.
Proof. exact vec_equal_refl. Qed.
Print Assumptions C13_vector_equality_reflexive.

Theorem C13_vector_equality_symmetric : forall L v1 v2, vec_equal L v1 v2 = vec_equal L v2 v1.
Proof. exact vec_equal_sym. Qed.
Print Assumptions C13_vector_equality_symmetric.

Theorem C13_reference_equality_reflexive : forall L m fl, elem_equal L m fl m fl = true.
Proof. exact elem_equal_refl. Qed.
Print Assumptions C13_reference_equality_reflexive.

Theorem C13_reference_equality_symmetric : forall L m1 fl1 m2 fl2,
  elem_equal L m1 fl1 m2 fl2 = elem_equal L m2 fl2 m1 fl1.
Proof. exact elem_equal_sym. Qed.
Print Assumptions C13_reference_equality_symmetric.

(* a field compared object by object is equal exactly when it holds the same objects,
   the same number of them included (four-iterator std::equal) *)
Theorem C13_field_equality_is_content_equality : forall t, t <> TFlt ->
  forall a b : list (list Z), span_eq t a b = true <-> a = b.
Proof. exact span_eq_eq. Qed.
Print Assumptions C13_field_equality_is_content_equality.

(* lists WITH floating-point fields (float / double: fundamental, not integral, so never on a
   memcmp path): two elements compare equal exactly when every field holds objects that are
   equal under the value type's own == - identity of the bytes for every other type, equality
   of the IEEE values for floats (+0 == -0 although the bytes differ).  The model compares
   floats through the sign-magnitude key Proxy.fkey; NaN bit patterns are outside its domain
   (C13 demands a reflexive ==), and on everything else the key comparison IS the IEEE one *)
Theorem C13_reference_equality_is_field_equivalence : forall L, wf_plist L = true ->
  forall t1 t2 fc1 fc2, tuple_ok L fc1 0 t1 -> tuple_ok L fc2 0 t2 ->
  forall m1 m2 a1 a2, elem_at L m1 a1 t1 -> elem_at L m2 a2 t2 ->
  (elem_equal L m1 (ref_fl L t1 a1) m2 (ref_fl L t2 a2) = true <->
   forall j, (j < length L)%nat -> span_eq (pty (nth j L pparam0)) (nth j t1 []) (nth j t2 []) = true).
Proof. exact elem_equal_content_eqv. Qed.
Print Assumptions C13_reference_equality_is_field_equivalence.

Theorem C13_float_comparison_is_ieee_off_nan : forall a b, fnan a = false -> fnan b = false ->
  ieee_eq a b = obj_eq TFlt a b /\ ieee_lt a b = obj_lt TFlt a b.
Proof. exact ieee_agrees. Qed.
Print Assumptions C13_float_comparison_is_ieee_off_nan.

(* +0.0f and -0.0f (bytes 00 00 00 00 / 00 00 00 80) are equal and unordered; 1.0f < 2.0f;
   -1.0f < +0.0f; 0x7FC00000 is a NaN, 0x7F800000 (infinity) is not *)
Example C13_float_values :
  obj_eq TFlt [0;0;0;0] [0;0;0;128] = true /\ obj_lt TFlt [0;0;0;0] [0;0;0;128] = false /\
  obj_lt TFlt [0;0;0;128] [0;0;0;0] = false /\
  obj_lt TFlt [0;0;128;63] [0;0;0;64] = true /\ obj_lt TFlt [0;0;128;191] [0;0;0;0] = true /\
  fnan [0;0;192;127] = true /\ fnan [0;0;128;127] = false /\ fnan [0;0;0;0;0;0;240;127] = false /\
  fnan [1;0;0;0;0;0;240;127] = true.
Proof. vm_compute. repeat split. Qed.

(* != is the negation of ==, <= / >= the negations of > / < : how the library derives them *)
Theorem C13_not_equal_is_negation : forall L v1 v2,
  nth 1 (cmp_vecs L v1 v2) false = negb (nth 0 (cmp_vecs L v1 v2) false) /\
  forall i j, nth 1 (cmp_refs L v1 i v2 j) false = negb (nth 0 (cmp_refs L v1 i v2 j) false).
Proof. intros L v1 v2. split; [reflexivity|intros i j; reflexivity]. Qed.
Print Assumptions C13_not_equal_is_negation.

(* non-vacuity and the repaired defect: (uint8, AlignAs<uint32,4>) has padding inside what
   used to be one memcmp run; two vectors with the same contents built under junk fills
   170 and 85 now compare equal, element by element and as a whole *)
Definition Lpad : list param :=
  [ {| pk := Plain; psz := 1; pal := 1; pty := TU8 |}; {| pk := Plain; psz := 4; pal := 4; pty := TUInt |} ].
Definition Kstd : akind := {| pocca := false; pocma := false; pocs := false; always_eq := true; soccc_bump := false |}.
Definition ops_pad : list op :=
  [ OpJunk 170; OpMkVec 0 2 0 [] 1; OpEmplace 0 [[[1]]; [[2;2;2;2]]]; OpEmplace 0 [[[3]]; [[1;1;1;1]]];
    OpJunk 85; OpMkVec 1 3 0 [] 1; OpEmplace 1 [[[1]]; [[2;2;2;2]]]; OpEmplace 1 [[[3]]; [[1;1;1;1]]] ].
Definition wpad := run_from Kstd Lpad world0 ops_pad O.
Example C13_padding_is_not_compared :
  padfree Lpad = false /\ runs_eq Lpad = [REnd 0; REnd 1] /\
  vec_equal Lpad (getv wpad 0) (getv wpad 1) = true /\
  ref_equal Lpad (getv wpad 0) 1 (getv wpad 1) 1 = true /\
  ref_equal Lpad (getv wpad 0) 0 (getv wpad 1) 1 = false.
Proof. vm_compute. repeat split. Qed.

(* vector == for EVERY list (floating-point fields included) on the element-wise path - which
   lists with a non-memcmp-able type always take: in every pair of represented states it is true
   exactly when the two lists have the same length and corresponding elements hold field-wise
   equal objects under the value type's own == *)
Theorem C13_vector_equality_is_field_equivalence : forall L, wf_plist L = true ->
  forall v1 l1 v2 l2, Rep L v1 l1 -> Rep L v2 l2 ->
  (forallb eqm L && padfree L && list_eqb (v_fixed v1) (v_fixed v2)) = false ->
  (vec_equal L v1 v2 = true <->
   length l1 = length l2 /\ forall i, (i < length l1)%nat -> tuple_eqv L (nth i l1 []) (nth i l2 [])).
Proof. intros L Hwf v1 l1 v2 l2 [o1 R1] [o2 R2]. exact (vec_equal_eqv_elementwise L Hwf v1 v2 l1 l2 o1 o2 R1 R2). Qed.
Print Assumptions C13_vector_equality_is_field_equivalence.
