(* C06 on lists WITHOUT a VaryingSize parameter, EVERY history: the objects constructed and
   destroyed by erase() / erase(first,last) with elements behind the erased ones, when the
   value types are not trivially relocatable (move_forward_nt: every following element is
   move-constructed into its new slot, then its source is destroyed).  Together with
   LifeHist.lstep_balance this gives the balance of constructions and destructions for every
   operation of such a list, and with it for every valid history (no restriction left). *)
From Coq Require Import ZArith Lia List Bool Permutation.
From Cntgs Require Import Base BaseLemmas Layout LayoutThm Mem MemLemmas Vector Spec Rep ElemLemmas Ordered
  EsizeThm Refine LifeThm TightThm CmpContent WorldThm NtRefine FixedErase LifeHist ElemThm.
Import ListNotations.
Local Open Scope Z_scope.

(* ---------- the events of the element-wise move ---------- *)
Lemma move_objs_born p bid : forall n m src dst,
  keep born (snd (move_objs p bid m src dst n)) =
    (if ntc true p then tag bid (map (fun j => (dst + Z.of_nat j * psz p, psz p)) (seq 0 n)) else []) /\
  keep died (snd (move_objs p bid m src dst n)) = [].
Proof.
  induction n as [|n IH]; intros m src dst; [destruct (ntc true p); split; reflexivity|].
  cbn [move_objs]. destruct (ntc true p) eqn:Hn.
  - specialize (IH (mwrite (mwrite m dst (mread m src (Z.to_nat (psz p)))) src (moved_bytes (psz p))) (src + psz p) (dst + psz p)).
    destruct (move_objs p bid _ (src + psz p) (dst + psz p) n) as [m3 evs]. cbn [snd] in *.
    destruct IH as [I1 I2]. split.
    + assert (E : tag bid (map (fun j => (dst + Z.of_nat j * psz p, psz p)) (seq 0 (S n))) =
                  (bid, dst, psz p) :: tag bid (map (fun j => (dst + psz p + Z.of_nat j * psz p, psz p)) (seq 0 n))).
      { unfold tag. cbn [seq map fst snd]. rewrite <- seq_shift, !map_map. f_equal; [f_equal; f_equal; lia|].
        apply map_ext. intros j. cbn [fst snd]. f_equal. f_equal. lia. }
      rewrite E. cbn [app keep born]. rewrite I1. reflexivity.
    + cbn [app keep died]. exact I2.
  - specialize (IH (mwrite m dst (mread m src (Z.to_nat (psz p)))) (src + psz p) (dst + psz p)).
    destruct (move_objs p bid _ (src + psz p) (dst + psz p) n) as [m3 evs]. cbn [snd app] in *. exact IH.
Qed.

Lemma move_fields_born bid L : forall pv xs cnts m a,
  (length L <= length pv)%nat -> length xs = length L -> length cnts = length L ->
  keep born (snd (fst (move_fields L pv (combine xs cnts) bid m a))) =
    tag bid (obj_addrs (ntc true) L (fst (place_from L pv cnts a)) cnts) /\
  keep died (snd (fst (move_fields L pv (combine xs cnts) bid m a))) = [].
Proof.
  induction L as [|p L IH]; intros pv xs cnts m a Hpv Hx Hc; [split; reflexivity|].
  destruct pv as [|pt pv]; [cbn in Hpv; lia|]. destruct xs as [|x xs]; [discriminate|].
  destruct cnts as [|c cnts]; [discriminate|].
  cbn [combine move_fields]. rewrite place_from_cons. cbn [fst obj_addrs].
  set (a' := align_if (pt <? pal p) (pal p) a).
  pose proof (move_objs_born p bid (Z.to_nat c) m x a') as Ho.
  destruct (move_objs p bid m x a' (Z.to_nat c)) as [m1 e1]. cbn [snd] in Ho.
  specialize (IH pv xs cnts m1 (a' + c * psz p) ltac:(cbn in Hpv; lia) ltac:(cbn in Hx; lia) ltac:(cbn in Hc; lia)).
  destruct (move_fields L pv (combine xs cnts) bid m1 (a' + c * psz p)) as [[m2 e2] e]. cbn [fst snd] in *.
  destruct Ho as [O1 O2]. destruct IH as [I1 I2]. rewrite !keep_app, O1, O2, I1, I2, tag_app.
  destruct (ntc true p); split; reflexivity.
Qed.

(* ---------- the loop ---------- *)
Section FixedLoopEvs.
  Variable L : list param.
  Hypothesis Hwf : wf_plist L = true.
  Hypothesis Hv : has_varying L = false.
  Variables (v : vec) (l : list tuple).
  Let S := v_stride v.
  Let fc := fixed_counts L (v_fixed v).
  Hypothesis Hst : stride_ok L fc S.
  Hypothesis Htup : Forall (tuple_ok L fc 0) l.
  Variables (to from : nat).
  Hypothesis Htf : (to < from)%nat.
  Hypothesis Hfl : (from <= length l)%nat.
  Let n := length l.
  Let bid := bidn (v_bid v).
  Let slot (k : nat) : Z := S * Z.of_nat k.

  Lemma step_evs j mj : linv L v l to from j mj -> (from + j < n)%nat ->
    let e := snd (move_one_nt L (set_mem v mj) (Z.of_nat (from + j)) (Z.of_nat (to + j))) in
    keep born e = tag bid (eobjs (ntc true) L (slot (to + j)) (nth (from + j) l [])) /\
    keep died e = tag bid (eobjs ntd L (slot (from + j)) (nth (from + j) l [])).
  Proof.
    intros (Ia & Ib & Ic) Hj. cbv zeta. unfold move_one_nt. rewrite (eaddr_fixed L Hv), Hv.
    change (v_fixed (set_mem v mj)) with (v_fixed v). change (v_mem (set_mem v mj)) with mj.
    change (v_bid (set_mem v mj)) with (v_bid v). change (v_stride (set_mem v mj)) with S. fold S.
    set (t := nth (from + j) l []).
    pose proof (tup L v l Htup (from + j)%nat Hj) as Ht. fold t in Ht.
    pose proof (Ic j (le_n _) Hj) as Hes. fold S t in Hes.
    rewrite (load_table_ L Hwf Hv (v_fixed v) mj _ t Ht Hes).
    destruct (place_len L t (S * Z.of_nat (from + j)) _ Ht) as [Hx Hc].
    pose proof (move_fields_born (bidn (v_bid v)) L (prevs L) _ (cnts_of t) mj (S * Z.of_nat (to + j))
                  ltac:(rewrite (prevs_length L); lia) Hx Hc) as HB.
    destruct (move_fields L (prevs L) _ (bidn (v_bid v)) mj (S * Z.of_nat (to + j))) as [[m1 e1] e].
    pose proof (destruct_fields_died L _ (cnts_of t) (bidn (v_bid v)) m1 Hx Hc) as HD.
    destruct (destruct_fields L _ (bidn (v_bid v)) m1) as [m2 e2]. cbn [fst snd] in *.
    destruct HB as [B1 B2]. destruct HD as [D1 D2].
    rewrite !keep_app, B1, B2, D1, D2. cbn [app]. rewrite app_nil_r. split; reflexivity.
  Qed.

  Lemma loop_evs : forall cnt j mj, linv L v l to from j mj -> (from + j + cnt = n)%nat ->
    let e := snd (move_forward_nt L (set_mem v mj) (Z.of_nat (from + j)) (Z.of_nat (to + j)) cnt) in
    keep born e = tag bid (vobjs (ntc true) L (map slot (seq (to + j) cnt)) (firstn cnt (skipn (from + j) l))) /\
    keep died e = tag bid (vobjs ntd L (map slot (seq (from + j) cnt)) (firstn cnt (skipn (from + j) l))).
  Proof.
    induction cnt as [|cnt IH]; intros j mj Hinv Hc; cbv zeta.
    - cbn [move_forward_nt snd keep seq map vobjs]. split; reflexivity.
    - cbn [move_forward_nt].
      destruct (loop_step L Hwf Hv v l Hst Htup to from Htf Hfl j mj Hinv ltac:(fold n; lia)) as (m' & E & Hinv').
      pose proof (step_evs j mj Hinv ltac:(lia)) as HS. cbv zeta in HS.
      destruct (move_one_nt L (set_mem v mj) (Z.of_nat (from + j)) (Z.of_nat (to + j))) as [v1 e1].
      cbn [fst snd] in *. subst v1. destruct HS as [B1 D1].
      specialize (IH (Datatypes.S j) m' Hinv' ltac:(lia)). cbv zeta in IH.
      replace (Z.of_nat (from + j) + 1) with (Z.of_nat (from + Datatypes.S j)) by lia.
      replace (Z.of_nat (to + j) + 1) with (Z.of_nat (to + Datatypes.S j)) by lia.
      destruct (move_forward_nt L (set_mem v m') _ _ cnt) as [v2 e2]. cbn [snd] in *.
      destruct IH as [B2 D2]. rewrite !keep_app, B1, B2, D1, D2.
      rewrite (skipn_nth_cons ([] : tuple) (from + j) l) by (fold n; lia).
      cbn [seq map firstn vobjs]. rewrite !tag_app.
      replace (to + Datatypes.S j)%nat with (Datatypes.S (to + j)) by lia.
      replace (from + Datatypes.S j)%nat with (Datatypes.S (from + j)) by lia.
      split; reflexivity.
  Qed.
End FixedLoopEvs.

(* small facts about seq / firstn / skipn *)
Lemma skipn_seq_ : forall k a n, skipn k (seq a n) = seq (a + k) (n - k).
Proof.
  induction k as [|k IH]; intros a n; [rewrite Nat.add_0_r, Nat.sub_0_r; reflexivity|].
  destruct n as [|n]; [reflexivity|]. cbn [seq skipn]. rewrite IH. f_equal; lia.
Qed.
Lemma firstn_seq_ : forall k a n, (k <= n)%nat -> firstn k (seq a n) = seq a k.
Proof.
  induction k as [|k IH]; intros a n Hk; [reflexivity|].
  destruct n as [|n]; [lia|]. cbn [seq firstn]. rewrite IH by lia. reflexivity.
Qed.

Lemma skipn_skipn_ {A} : forall y x (l : list A), skipn x (skipn y l) = skipn (x + y) l.
Proof.
  induction y as [|y IH]; intros x l; [rewrite Nat.add_0_r; reflexivity|]. rewrite Nat.add_succ_r.
  destruct l as [|a l]; [rewrite !skipn_nil; reflexivity|]. cbn [skipn]. apply IH.
Qed.

(* ---------- the vector level ---------- *)
Section FixedEraseLife.
  Variable L : list param.
  Hypothesis Hwf : wf_plist L = true.
  Hypothesis Hv : has_varying L = false.
  Hypothesis Hnt : all_triv L = false.
  Hypothesis Hsame : forall mv p, In p L -> ntc mv p = ntd p.

  Variables (v : vec) (l : list tuple) (offs : list Z).
  Hypothesis R : RepO L v l offs.
  Let S := v_stride v.
  Let n := length l.
  Let bid := bidn (v_bid v).
  Let slot (k : nat) : Z := S * Z.of_nat k.

  Lemma offs_slots : offs = map slot (seq 0 n).
  Proof. exact (proj1 (proj2 (fixed_loc L Hv v l offs R))). Qed.

  Lemma ntd_not_all : all_dtriv L = false.
  Proof.
    destruct (all_dtriv L) eqn:Hd; [|reflexivity].
    assert (Hc : all_ctriv true L = true).
    { unfold all_ctriv. unfold all_dtriv in Hd. rewrite forallb_forall in *. intros p Hp.
      rewrite (Hsame true p Hp). apply Hd. exact Hp. }
    unfold all_triv in Hnt. rewrite Hc, Hd in Hnt. discriminate.
  Qed.

  (* the events of move_forward(from -> to) followed by nothing else *)
  Lemma forward_evs to from m0 : (to < from)%nat -> (from <= n)%nat ->
    (forall k, (k < to \/ from <= k)%nat -> (k < n)%nat -> elem_at L m0 (slot k) (nth k l [])) ->
    let e := snd (move_forward L (set_mem v m0) (Z.of_nat from) (Z.of_nat to)) in
    keep born e = tag bid (vobjs (ntc true) L (map slot (seq to (n - from))) (skipn from l)) /\
    keep died e = tag bid (vobjs ntd L (skipn from offs) (skipn from l)).
  Proof.
    intros Htf Hfn Hm0. cbv zeta. destruct (fixed_loc L Hv v l offs R) as (Hcnt & Hoffs & Hst).
    unfold move_forward. rewrite Hnt.
    assert (Hvs : vsize L (set_mem v m0) = Z.of_nat n) by (unfold vsize; rewrite Hv; exact Hcnt).
    rewrite Hvs. replace (Z.to_nat (Z.of_nat n - Z.of_nat from)) with (n - from)%nat by lia.
    assert (Hinv0 : linv L v l to from 0 m0).
    { unfold linv. split; [|split].
      - intros k Hk. apply Hm0; [lia|fold n; lia].
      - intros r Hr. lia.
      - intros r _ Hr. apply Hm0; [lia|exact Hr]. }
    pose proof (loop_evs L Hwf Hv v l Hst (r_tuples _ _ _ _ R) to from Htf Hfn (n - from) 0 m0 Hinv0 ltac:(fold n; lia)) as HE.
    cbv zeta in HE. rewrite !Nat.add_0_r in HE.
    rewrite (firstn_all2 (n := (n - from)%nat)) in HE by (rewrite skipn_length; fold n; lia).
    destruct HE as [B D]. split; [exact B|].
    rewrite D. fold S. rewrite offs_slots, skipn_map, skipn_seq_. reflexivity.
  Qed.

  (* the live objects of the shrunk vector *)
  Lemma live_after v' to from : (to < from)%nat -> (from <= n)%nat ->
    Rep L v' (firstn to l ++ skipn from l) -> v_bid v' = v_bid v -> v_stride v' = v_stride v ->
    live L v' (firstn to l ++ skipn from l) =
      tag bid (vobjs (ntc true) L (firstn to offs) (firstn to l)) ++
      tag bid (vobjs (ntc true) L (map slot (seq to (n - from))) (skipn from l)).
  Proof.
    intros Htf Hfn [offs' R'] Hb Hs. unfold live. rewrite Hb. fold bid.
    rewrite <- (rep_cpos L v' _ offs' R').
    destruct (fixed_loc L Hv v' _ offs' R') as (_ & Ho' & _). rewrite Hs in Ho'. fold S in Ho'.
    assert (Hlen' : length (firstn to l ++ skipn from l) = (to + (n - from))%nat).
    { rewrite app_length, firstn_length, skipn_length. fold n. lia. }
    rewrite Hlen' in Ho'. rewrite Ho'. rewrite seq_app, map_app. cbn [Nat.add].
    rewrite vobjs_app by (rewrite map_length, seq_length, firstn_length; fold n; lia).
    rewrite tag_app. f_equal. f_equal. f_equal.
    rewrite offs_slots, firstn_map, firstn_seq_ by (fold n; lia). reflexivity.
  Qed.

  (* the balance of a removal of [to, from): what was live in [to, n) dies, what is live
     afterwards in [to, n - (from - to)) is born *)
  Lemma removal_balance to from X Y v' : (to < from)%nat -> (from <= n)%nat ->
    Rep L v' (firstn to l ++ skipn from l) -> v_bid v' = v_bid v -> v_stride v' = v_stride v ->
    X = tag bid (vobjs (ntc true) L (map slot (seq to (n - from))) (skipn from l)) ->
    Permutation Y (tag bid (vobjs ntd L (firstn (from - to) (skipn to offs)) (firstn (from - to) (skipn to l))) ++
                   tag bid (vobjs ntd L (skipn from offs) (skipn from l))) ->
    Permutation (live L v l ++ X) (Y ++ live L v' (firstn to l ++ skipn from l)).
  Proof.
    intros Htf Hfn R' Hb Hs EX PY.
    rewrite (live_after v' to from Htf Hfn R' Hb Hs). rewrite <- EX.
    pose proof (eo_length _ _ _ _ _ (r_order _ _ _ _ R)) as Hlen.
    unfold live. fold bid. rewrite <- (rep_cpos L v l offs R).
    rewrite (vobjs_split L (ntc true) to offs l Hlen), tag_app.
    rewrite (vobjs_split L (ntc true) (from - to) (skipn to offs) (skipn to l)) by (rewrite !skipn_length; lia).
    rewrite tag_app. rewrite !skipn_skipn_.
    replace (from - to + to)%nat with from by lia.
    rewrite !(vobjs_same L Hsame true).
    set (A := tag bid (vobjs ntd L (firstn to offs) (firstn to l))).
    set (B1 := tag bid (vobjs ntd L (firstn (from - to) (skipn to offs)) (firstn (from - to) (skipn to l)))) in *.
    set (B2 := tag bid (vobjs ntd L (skipn from offs) (skipn from l))) in *.
    eapply Permutation_trans; [|apply Permutation_app_tail; apply Permutation_sym; exact PY].
    rewrite <- !app_assoc.
    eapply Permutation_trans; [apply Permutation_app_comm|].
    rewrite <- !app_assoc. apply Permutation_app_head. apply Permutation_app_head. apply Permutation_app_comm.
  Qed.

  (* erase(position) with elements behind it *)
  Theorem erase_balance_fixed_nt i : (i + 1 < n)%nat ->
    let r := erase L v (Z.of_nat i) in
    Permutation (live L v l ++ keep born (snd r)) (keep died (snd r) ++ live L (fst r) (remove_range i (Datatypes.S i) l)).
  Proof.
    intros Hi. cbv zeta.
    pose proof (erase_rep_fixed_nt L Hwf Hv Hnt v l offs R i Hi) as HR. cbv zeta in HR.
    destruct HR as (R' & _ & _ & Hb & Hs & _).
    unfold erase in *. rewrite (vsize_n L Hv v l offs R) in *.
    destruct (destruct_range_fixed L Hwf Hv v l offs R i 1 i (v_mem v) (le_n _) ltac:(fold n; lia)
                ltac:(intros k _ Hk; exact (orig_elem L Hv v l offs R k Hk))) as (m0 & E & Hm0).
    pose proof (destruct_elem_evs L Hwf v l offs i (v_mem v) R ltac:(fold n; lia) ltac:(auto)) as [D1 B1].
    assert (Esm : set_mem v (v_mem v) = v) by (destruct v; reflexivity).
    rewrite Esm in E, D1, B1. cbn [destruct_range] in E.
    destruct (destruct_elem L v (Z.of_nat i)) as [v1 e1]. cbn [fst snd] in *. subst v1.
    pose proof (forward_evs i (Datatypes.S i) m0 ltac:(lia) ltac:(lia)
                  ltac:(intros k Hk Hkn; apply Hm0; [lia|exact Hkn])) as HE. cbv zeta in HE.
    replace (Z.of_nat (Datatypes.S i)) with (Z.of_nat i + 1) in HE by lia.
    destruct (move_forward L (set_mem v m0) (Z.of_nat i + 1) (Z.of_nat i)) as [v2 e2]. cbn [fst snd] in *.
    destruct HE as [B2 D2]. rewrite !keep_app, B1, D1, B2, D2. cbn [app].
    unfold remove_range in *.
    apply (removal_balance i (Datatypes.S i)); try assumption; try lia; [reflexivity|].
    replace (Datatypes.S i - i)%nat with 1%nat by lia.
    pose proof (eo_length _ _ _ _ _ (r_order _ _ _ _ R)) as Hlen.
    rewrite (skipn_nth_cons 0 i offs) by (rewrite Hlen; fold n; lia).
    rewrite (skipn_nth_cons ([] : tuple) i l) by (fold n; lia).
    cbn [firstn vobjs]. rewrite app_nil_r. apply Permutation_refl.
  Qed.

  (* erase(first, last) with elements behind the range *)
  Theorem erase_range_balance_fixed_nt i j : (i < j)%nat -> (j < n)%nat ->
    let r := erase_range L v (Z.of_nat i) (Z.of_nat j) in
    Permutation (live L v l ++ keep born (snd r)) (keep died (snd r) ++ live L (fst r) (remove_range i j l)).
  Proof.
    intros Hij Hjn. cbv zeta.
    pose proof (erase_range_rep_fixed_nt L Hwf Hv Hnt v l offs R i j ltac:(lia) ltac:(left; exact Hjn) ltac:(fold n; lia)) as HR.
    cbv zeta in HR. destruct HR as (R' & _ & _ & Hb & Hs & _).
    unfold erase_range in *. rewrite (vsize_n L Hv v l offs R) in *. rewrite ntd_not_all in *.
    replace (Z.to_nat (Z.of_nat j - Z.of_nat i)) with (j - i)%nat in * by lia.
    destruct (destruct_range_fixed L Hwf Hv v l offs R i (j - i) i (v_mem v) (le_n _) ltac:(fold n; lia)
                ltac:(intros k _ Hk; exact (orig_elem L Hv v l offs R k Hk))) as (m0 & E & Hm0).
    pose proof (destruct_range_evs L Hwf v l offs R (j - i) i (v_mem v) ltac:(fold n; lia) ltac:(auto)) as [D1 B1].
    assert (Esm : set_mem v (v_mem v) = v) by (destruct v; reflexivity).
    rewrite Esm in E, D1, B1.
    destruct (destruct_range L v (Z.of_nat i) (j - i)) as [v1 e1]. cbn [fst snd] in *. subst v1.
    replace (Z.of_nat j <? Z.of_nat (length l)) with true in * by (symmetry; apply Z.ltb_lt; fold n; lia).
    replace (Z.of_nat i =? Z.of_nat j) with false in * by (symmetry; apply Z.eqb_neq; lia). cbn [andb negb] in *.
    pose proof (forward_evs i j m0 Hij ltac:(lia)
                  ltac:(intros k Hk Hkn; apply Hm0; [lia|exact Hkn])) as HE. cbv zeta in HE.
    destruct (move_forward L (set_mem v m0) (Z.of_nat j) (Z.of_nat i)) as [v2 e2]. cbn [fst snd] in *.
    destruct HE as [B2 D2]. rewrite !keep_app, B1, D1, B2, D2. cbn [app].
    unfold remove_range in *.
    apply (removal_balance i j); try assumption; try lia; [reflexivity|]. apply Permutation_refl.
  Qed.
End FixedEraseLife.

(* ---------- one step and histories: lists without a VaryingSize parameter ---------- *)
Section FixedLifeHist.
  Variable L : list param.
  Hypothesis Hwf : wf_plist L = true.
  Hypothesis Hsame : forall mv p, In p L -> ntc mv p = ntd p.
  Hypothesis Hcft : cft L = true.

  Definition lt_okx (s : svec) (o : sop) : Prop := has_varying L = false \/ lt_ok s o.

  (* a trivially relocatable list holds no object with a lifetime: nothing is born, nothing dies *)
  Lemma triv_erase_balance junk v nb s o offs : all_triv L = true ->
    match o with SErase _ | SEraseRange _ _ => True | _ => False end ->
    RepO L v (s_elems s) offs -> v_cap v = s_cap s -> svalid L (fixed_counts L (v_fixed v)) s o ->
    (exists b0, v_bid v = Some b0 /\ (b0 < nb)%nat) ->
    let v' := fst (fst (lstep L junk (v, nb) o)) in
    let nb' := snd (fst (lstep L junk (v, nb) o)) in
    let evs := snd (lstep L junk (v, nb) o) in
    Rep L v' (s_elems (sstep s o)) /\ v_cap v' = s_cap (sstep s o) /\ v_fixed v' = v_fixed v /\
    (exists b0, v_bid v' = Some b0 /\ (b0 < nb')%nat) /\
    Permutation (live L v (s_elems s) ++ keep born evs) (keep died evs ++ live L v' (s_elems (sstep s o))).
  Proof.
    intros Htr Ho R Hc Hv Hb. cbv zeta.
    assert (Hnc : forallb (fun p => negb (ntc true p)) L = true) by (unfold all_triv, all_ctriv in Htr; apply andb_true_iff in Htr; tauto).
    assert (Hnd : all_dtriv L = true) by (unfold all_triv in Htr; apply andb_true_iff in Htr; tauto).
    destruct (vstep_rep L Hwf Htr junk v s o (ex_intro _ offs R) Hc Hv) as (R' & Hc' & Hf').
    assert (Hbm : forall w from to, v_bid (fst (move_forward_triv L w from to)) = v_bid w /\
                  keep born (snd (move_forward_triv L w from to)) = [] /\
                  keep died (snd (move_forward_triv L w from to)) = []).
    { intros w from to. unfold move_forward_triv. destruct (has_varying L && _); [repeat split; reflexivity|].
      destruct (has_varying L); repeat split; reflexivity. }
    destruct o as [t| |i|i j| |n b]; try contradiction; cbn [lstep fst snd vstep] in *.
    - split; [exact R'|]. split; [exact Hc'|]. split; [exact Hf'|].
      unfold erase in *. unfold destruct_elem in *. rewrite Hnd in *.
      rewrite (move_forward_triv_eq L Htr) in *.
      destruct (Hbm v (i + 1) i) as (Hb2 & Bm & Dm).
      destruct (move_forward_triv L v (i + 1) i) as [v2 e2]. cbn [fst snd] in *.
      rewrite resize_bid, Hb2. split; [exact Hb|].
      cbn [app]. rewrite Bm, Dm. unfold live. rewrite !(vobjs_none L (ntc true) Hnc). cbn [tag map app]. apply Permutation_refl.
    - split; [exact R'|]. split; [exact Hc'|]. split; [exact Hf'|].
      unfold erase_range in *. rewrite Hnd in *.
      destruct ((j <? vsize L v) && negb (i =? j)).
      + rewrite (move_forward_triv_eq L Htr) in *.
        destruct (Hbm v j i) as (Hb2 & Bm & Dm).
        destruct (move_forward_triv L v j i) as [v2 e2]. cbn [fst snd] in *.
        rewrite resize_bid, Hb2. split; [exact Hb|].
        cbn [app]. rewrite Bm, Dm. unfold live. rewrite !(vobjs_none L (ntc true) Hnc). cbn [tag map app]. apply Permutation_refl.
      + cbn [fst snd app keep] in *. rewrite resize_bid. split; [exact Hb|].
        unfold live. rewrite !(vobjs_none L (ntc true) Hnc). cbn [tag map app]. apply Permutation_refl.
  Qed.

  Theorem lstep_balance_x junk v nb s o offs :
    RepO L v (s_elems s) offs -> v_cap v = s_cap s -> svalid L (fixed_counts L (v_fixed v)) s o -> lt_okx s o ->
    (exists b0, v_bid v = Some b0 /\ (b0 < nb)%nat) ->
    let v' := fst (fst (lstep L junk (v, nb) o)) in
    let nb' := snd (fst (lstep L junk (v, nb) o)) in
    let evs := snd (lstep L junk (v, nb) o) in
    Rep L v' (s_elems (sstep s o)) /\ v_cap v' = s_cap (sstep s o) /\ v_fixed v' = v_fixed v /\
    (exists b0, v_bid v' = Some b0 /\ (b0 < nb')%nat) /\
    Permutation (live L v (s_elems s) ++ keep born evs) (keep died evs ++ live L v' (s_elems (sstep s o))).
  Proof.
    intros R Hc Hv [Hnv|Hlt] Hb; [|exact (lstep_balance L Hwf Hsame Hcft junk v nb s o offs R Hc Hv Hlt Hb)].
    destruct (all_triv L) eqn:Htr.
    { destruct o as [t| |i|i j| |n b];
        try (apply (lstep_balance L Hwf Hsame Hcft junk v nb s _ offs R Hc Hv I Hb)).
      - exact (triv_erase_balance junk v nb s (SErase i) offs Htr I R Hc Hv Hb).
      - exact (triv_erase_balance junk v nb s (SEraseRange i j) offs Htr I R Hc Hv Hb). }
    destruct o as [t| |i|i j| |n b];
      try (apply (lstep_balance L Hwf Hsame Hcft junk v nb s _ offs R Hc Hv I Hb)).
    - (* erase(position) *)
      destruct (Z.eq_dec (i + 1) (Z.of_nat (length (s_elems s)))) as [E|E].
      { exact (lstep_balance L Hwf Hsame Hcft junk v nb s (SErase i) offs R Hc Hv E Hb). }
      cbv zeta. cbn [svalid] in Hv.
      destruct (vstep_rep_ntx L Hwf junk v s (SErase i) (ex_intro _ offs R) Hc Hv (or_introl Hnv)) as (R' & Hc' & Hf').
      cbn [lstep fst snd vstep sstep s_elems s_cap] in *.
      split; [exact R'|]. split; [exact Hc'|]. split; [exact Hf'|].
      pose proof (erase_rep_fixed_nt L Hwf Hnv Htr v _ offs R (Z.to_nat i) ltac:(lia)) as HR.
      pose proof (erase_balance_fixed_nt L Hwf Hnv Htr Hsame v _ offs R (Z.to_nat i) ltac:(lia)) as HP.
      rewrite Z2Nat.id in HR, HP by lia. cbv zeta in HR, HP.
      destruct HR as (_ & _ & _ & Hbid & _). rewrite Hbid. split; [exact Hb|exact HP].
    - (* erase(first, last) *)
      cbn [svalid] in Hv.
      destruct (Z.eq_dec j (Z.of_nat (length (s_elems s)))) as [E|E].
      { exact (lstep_balance L Hwf Hsame Hcft junk v nb s (SEraseRange i j) offs R Hc Hv E Hb). }
      cbv zeta.
      destruct (vstep_rep_ntx L Hwf junk v s (SEraseRange i j) (ex_intro _ offs R) Hc Hv (or_introl Hnv)) as (R' & Hc' & Hf').
      cbn [lstep fst snd vstep sstep s_elems s_cap] in *. destruct Hv as [Hi Hj].
      split; [exact R'|]. split; [exact Hc'|]. split; [exact Hf'|].
      pose proof (erase_range_rep_fixed_nt L Hwf Hnv Htr v _ offs R (Z.to_nat i) (Z.to_nat j)
                    ltac:(lia) ltac:(left; lia) ltac:(lia)) as HR.
      rewrite !Z2Nat.id in HR by lia. cbv zeta in HR.
      destruct HR as (_ & _ & _ & Hbid & _). rewrite Hbid. split; [exact Hb|].
      destruct (Z.eq_dec i j) as [Eij|Nij].
      + (* the empty range: nothing happens at all *)
        subst j. unfold erase_range in *. rewrite Z.sub_diag in *. cbn [Z.to_nat destruct_range] in *.
        assert (E0 : (if all_dtriv L then (v, @nil ev) else (v, [])) = (v, [])) by (destruct (all_dtriv L); reflexivity).
        rewrite E0 in *. rewrite Z.eqb_refl, andb_false_r in *. cbn [fst snd app keep] in *.
        unfold remove_range. rewrite firstn_skipn, app_nil_r. unfold live. rewrite Hbid. apply Permutation_refl.
      + pose proof (erase_range_balance_fixed_nt L Hwf Hnv Htr Hsame v _ offs R (Z.to_nat i) (Z.to_nat j)
                      ltac:(lia) ltac:(lia)) as HP.
        rewrite !Z2Nat.id in HP by lia. exact HP.
  Qed.

  Fixpoint lt_hist_okx (s : svec) (h : list sop) : Prop :=
    match h with
    | [] => True
    | o :: h' => lt_okx s o /\ lt_hist_okx (sstep s o) h'
    end.

  Lemma lt_hist_okx_fixed h : has_varying L = false -> forall s, lt_hist_okx s h.
  Proof.
    intros Hnv. induction h as [|o h IH]; intros s; cbn [lt_hist_okx]; [exact I|].
    split; [left; exact Hnv|apply IH].
  Qed.

  Lemma lt_hist_ok_okx h : forall s, lt_hist_ok s h -> lt_hist_okx s h.
  Proof.
    induction h as [|o h IH]; intros s H; cbn [lt_hist_ok lt_hist_okx] in *; [exact I|].
    destruct H as [H1 H2]. split; [right; exact H1|apply IH; exact H2].
  Qed.

  Theorem lrun_balance_x junk h : forall v nb s,
    Rep L v (s_elems s) -> v_cap v = s_cap s -> shist_valid L (fixed_counts L (v_fixed v)) s h ->
    lt_hist_okx s h -> (exists b0, v_bid v = Some b0 /\ (b0 < nb)%nat) ->
    let r := lrun L junk (v, nb) h in
    Rep L (fst (fst r)) (s_elems (srun s h)) /\ v_bid (fst (fst r)) <> None /\
    Permutation (live L v (s_elems s) ++ keep born (snd r)) (keep died (snd r) ++ live L (fst (fst r)) (s_elems (srun s h))).
  Proof.
    induction h as [|o h IH]; intros v nb s R Hc Hv Hlt Hb; cbv zeta.
    - cbn [lrun fst snd srun keep app]. split; [exact R|]. split; [destruct Hb as (b0 & Eb0 & _); congruence|]. rewrite app_nil_r. apply Permutation_refl.
    - cbn [lrun srun shist_valid lt_hist_okx] in *. destruct Hv as [Hv1 Hv2]. destruct Hlt as [Hl1 Hl2].
      destruct R as [offs R].
      pose proof (lstep_balance_x junk v nb s o offs R Hc Hv1 Hl1 Hb) as Hs. cbv zeta in Hs.
      destruct (lstep L junk (v, nb) o) as [[v1 nb1] e1]. cbn [fst snd] in *.
      destruct Hs as (R1 & Hc1 & Hf1 & Hb1 & P1).
      specialize (IH v1 nb1 (sstep s o) R1 Hc1 ltac:(rewrite Hf1; exact Hv2) Hl2 Hb1). cbv zeta in IH.
      destruct (lrun L junk (v1, nb1) h) as [[v2 nb2] e2]. cbn [fst snd] in *.
      destruct IH as (R2 & Hn2 & P2). split; [exact R2|]. split; [exact Hn2|].
      rewrite !keep_app.
      rewrite app_assoc. eapply Permutation_trans; [apply Permutation_app_tail; exact P1|].
      rewrite <- !app_assoc. apply Permutation_app_head. exact P2.
  Qed.
End FixedLifeHist.

(* C06 along a whole life on a list WITHOUT a VaryingSize parameter: construction, ANY valid
   history - erase() in the middle included, whatever the value types are - then destruction:
   the constructions and the destructions, as multisets of (block, offset, size), coincide. *)
Theorem whole_life_objects_balanced_x : forall L cap budget fixed aid junk bid tbid h,
  wf_plist L = true -> (forall mv p, In p L -> ntc mv p = ntd p) -> cft L = true ->
  0 <= cap -> Forall (fun c => 0 <= c) fixed ->
  let v0 := fst (mkvec L cap budget fixed aid junk bid tbid) in
  let s0 := {| s_cap := cap; s_elems := [] |} in
  shist_valid L (fixed_counts L fixed) s0 h -> lt_hist_okx L s0 h ->
  let r := lrun L junk (v0, S (Nat.max bid tbid)) h in
  let evs := snd r ++ destroy L (fst (fst r)) in
  Permutation (keep born evs) (keep died evs).
Proof.
  intros L cap budget fixed aid junk bid tbid h Hwf Hsame Hcft Hcap Hfx. cbv zeta. intros Hv Hlt.
  assert (Hst : has_varying L = false -> stride_ok L (fixed_counts L fixed) (snd (esize L fixed))).
  { intros Hnv. apply esize_stride_ok; auto. apply fixed_counts_nonneg; auto. }
  destruct (mkvec_rep L Hwf cap budget fixed aid junk bid tbid Hcap Hst) as (R0 & Hc0 & Hf0).
  cbv zeta in *.
  pose proof (lrun_balance_x L Hwf Hsame Hcft junk h _ (S (Nat.max bid tbid)) {| s_cap := cap; s_elems := [] |} R0 Hc0) as Hb.
  cbv zeta in Hb.
  destruct Hb as (R & Hbid & P); auto.
  { unfold mkvec. cbn [fst v_bid]. exists bid. split; [reflexivity|lia]. }
  set (r := lrun L junk (fst (mkvec L cap budget fixed aid junk bid tbid), S (Nat.max bid tbid)) h) in *.
  destruct (destroy_balance L Hwf Hsame _ _ R Hbid) as [Pd Bd].
  rewrite !keep_app, Bd, app_nil_r.
  unfold live at 1 in P. cbn [s_elems cpos vobjs tag map app] in P.
  eapply Permutation_trans; [exact P|]. apply Permutation_app_head. exact Pd.
Qed.

Corollary whole_life_fixed_list_every_history : forall L cap budget fixed aid junk bid tbid h,
  wf_plist L = true -> has_varying L = false -> (forall mv p, In p L -> ntc mv p = ntd p) -> cft L = true ->
  0 <= cap -> Forall (fun c => 0 <= c) fixed ->
  let v0 := fst (mkvec L cap budget fixed aid junk bid tbid) in
  let s0 := {| s_cap := cap; s_elems := [] |} in
  shist_valid L (fixed_counts L fixed) s0 h ->
  let r := lrun L junk (v0, S (Nat.max bid tbid)) h in
  let evs := snd r ++ destroy L (fst (fst r)) in
  Permutation (keep born evs) (keep died evs).
Proof.
  intros L cap budget fixed aid junk bid tbid h Hwf Hnv Hsame Hcft Hcap Hfx. cbv zeta. intros Hv.
  apply whole_life_objects_balanced_x; auto. apply lt_hist_okx_fixed. exact Hnv.
Qed.
