(* C02 — no access outside the allocated block while within declared capacity. *)
From Coq Require Import ZArith List Bool Lia.
From Cntgs Require Import Base Layout Mem Vector Spec Rep EsizeThm Refine C02Thm NeededThm C02Hist NtRefine C02HistNt EmplacePos World MoveBlock.
Import ListNotations.
Local Open Scope Z_scope.

(* (a) arithmetic sufficiency, lists WITHOUT VaryingSize parameter: a vector constructed for
   N elements holds any N elements — element i ends inside the block of
   SA * units (needed N 0 (esize L fixed)) bytes, for every list, fixed sizes and N. *)
Theorem C02_fixed_capacity_sufficient : forall L fixed N i t,
  wf_plist L = true -> has_varying L = false -> Forall (fun c => 0 <= c) fixed ->
  tuple_ok L (fixed_counts L fixed) 0 t -> 0 <= i < N ->
  let sz := esize L fixed in
  elem_end L (snd sz * i) t <= SA L * units L (needed N 0 sz).
Proof. exact fixed_capacity_sufficient. Qed.
Print Assumptions C02_fixed_capacity_sufficient.

(* (b) in every represented state (hence after every valid history, by C01) every element
   lies inside [data_begin(), data_end()) at a storage-aligned offset *)
Theorem C02_elements_inside_data : forall L v l, wf_plist L = true -> Rep L v l ->
  exists offs, length offs = length l /\
    Forall2 (fun a t => 0 <= a /\ (SA L | a) /\ elem_end L a t <= dend L v) offs l.
Proof. exact elements_inside_data. Qed.
Print Assumptions C02_elements_inside_data.

(* (a) arithmetic sufficiency, worst-case formula, lists WITH VaryingSize parameters: N
   elements stored one after the other as emplace_back does (fill), whose varying payload
   adds up to at most B bytes, end inside the block of
   SA * units (needed N B (esize L fixed)) bytes - for every well-formed list whose tail is
   benign (tail_ok: the last parameter is a VaryingSize one, or a parameter with the storage
   alignment follows the last VaryingSize one, or there is no VaryingSize parameter), every
   N, every B, every fixed sizes and every choice of the varying counts. *)
Theorem C02_varying_capacity_sufficient : forall L fixed cs B,
  wf_plist L = true -> tail_ok (SA L) true L = true ->
  Forall (cnts_fit L (fixed_counts L fixed)) cs -> payload L cs <= B -> 0 <= B ->
  0 <= fill L cs 0 <= SA L * units L (needed (Z.of_nat (length cs)) B (esize L fixed)).
Proof. exact needed_sufficient_block. Qed.
Print Assumptions C02_varying_capacity_sufficient.

(* the lists people write most: the last parameter is a VaryingSize one *)
Theorem C02_last_varying_is_benign : forall S0 L b, L <> [] ->
  is_varying (last L {| pk := Plain; psz := 1; pal := 1; pty := TBlob |}) = true ->
  tail_ok S0 b L = true.
Proof. intros S0 L b. exact (tail_ok_last_varying S0 L b). Qed.
Print Assumptions C02_last_varying_is_benign.

(* one element of ANY well-formed list (benign tail or not) stored at a storage-aligned
   address ends inside size + payload bytes: a vector constructed for one element holds it *)
Theorem C02_single_element_fits : forall L fixed cnts a,
  wf_plist L = true -> cnts_fit L (fixed_counts L fixed) cnts -> 0 <= a -> (SA L | a) ->
  snd (place L cnts a) - a <= fst (esize L fixed) + vbytes L cnts.
Proof. intros L fixed cnts a Hwf Hc Ha Hd. exact (proj1 (element_bound L fixed cnts a Hwf Hc Ha Hd)). Qed.
Print Assumptions C02_single_element_fits.

(* HISTORY level: construction for (cap, budget), then ANY history of emplace_back /
   pop_back / erase / erase(first,last) / clear / reserve that respects the documented limits
   (size() < capacity() at emplace_back - shist_valid; the varying payload after each
   emplace_back within the byte budget of the construction or of the last growing reserve, and
   reserve(n, b) with b covering what is stored - bhist_valid): in the state reached, every
   stored element lies at a non-negative offset and ends inside the SA * units bytes the
   vector owns.  For trivially relocatable lists with a benign tail.  Tight packing (C05) is
   what makes the fill of the proof above the actual layout after erase and pop_back. *)
Theorem C02_every_history_stays_inside_the_block : forall L cap budget fixed aid junk bid tbid h,
  wf_plist L = true -> all_triv L = true -> tail_ok (SA L) true L = true ->
  0 <= cap -> 0 <= budget -> Forall (fun c => 0 <= c) fixed ->
  let v0 := fst (mkvec L cap budget fixed aid junk bid tbid) in
  let s0 := {| s_cap := cap; s_elems := [] |} in
  shist_valid L (fixed_counts L fixed) s0 h -> bhist_valid L s0 budget h ->
  let v := vrun L junk v0 h in
  let l := s_elems (srun s0 h) in
  exists offs, RepO L v l offs /\
    Forall2 (fun a t => 0 <= a /\ elem_end L a t <= SA L * v_units v) offs l.
Proof. exact every_element_inside_block_every_history. Qed.
Print Assumptions C02_every_history_stays_inside_the_block.

(* (a) is FALSE for lists with a plain/fixed parameter behind the last VaryingSize
   parameter: the faithful model overruns its block within the documented limits.  This is
   the recorded known finding "needed-tail-after-varying"; the witness replayed on the
   implementation trips the allocator's guard zone (corpus/f7.script).  The witness list has
   tail_ok = false (NeededThm.f7L_tail_not_ok): the two theorems meet at that predicate. *)
Theorem C02_varying_capacity_refuted :
  exists L N B vcounts,
    wf_plist L = true /\ Z.of_nat (length vcounts) = N /\
    fold_right Z.add 0 (map (fun c => c * 7) vcounts) <= B /\
    SA L * units L (needed N B (esize L [])) < fill_end L vcounts 0.
Proof. exact needed_refuted. Qed.
Print Assumptions C02_varying_capacity_refuted.

(* ... and for EVERY well-formed list with a benign tail, non-trivial value types included
   (C02HistNt.v; erase with elements behind the erased ones only on trivially relocatable
   lists and on lists without a VaryingSize parameter, NtRefine.nt_hist_okx) *)
Theorem C02_every_history_stays_inside_the_block_every_list : forall L cap budget fixed aid junk bid tbid h,
  wf_plist L = true -> tail_ok (SA L) true L = true ->
  0 <= cap -> 0 <= budget -> Forall (fun c => 0 <= c) fixed ->
  let v0 := fst (mkvec L cap budget fixed aid junk bid tbid) in
  let s0 := {| s_cap := cap; s_elems := [] |} in
  shist_valid L (fixed_counts L fixed) s0 h -> bhist_valid L s0 budget h -> nt_hist_okx L s0 h ->
  let v := vrun L junk v0 h in
  let l := s_elems (srun s0 h) in
  exists offs, RepO L v l offs /\
    Forall2 (fun a t => 0 <= a /\ elem_end L a t <= SA L * v_units v) offs l.
Proof. exact every_element_inside_block_every_history_ntx. Qed.
Print Assumptions C02_every_history_stays_inside_the_block_every_list.

(* ---------- emplace(position, args...) ----------
   "no operation reads or writes outside the memory": emplace(position) is an operation too
   (vector.hpp:174-188; upstream's own tests of it are skipped).  Modelled where the code is
   functional - lists without a VaryingSize parameter (the model is the trivially relocatable
   path: memmove + memcpy).  What it does to the represented list is an insert ... *)
Theorem C02_emplace_position_inserts : forall L, wf_plist L = true -> has_varying L = false ->
  forall v l offs, RepO L v l offs ->
  forall i t, (i <= length l)%nat -> Z.of_nat (length l) < v_cap v ->
  tuple_ok L (fixed_counts L (v_fixed v)) 0 t ->
  let v' := fst (emplace_pos L v (Z.of_nat i) t) in
  Rep L v' (linsert i t l) /\ v_cap v' = v_cap v /\ v_fixed v' = v_fixed v.
Proof. exact emplace_pos_rep. Qed.
Print Assumptions C02_emplace_position_inserts.

(* ... but on the way it writes the bytes [stride*(i+1), stride*(n+2)): one element BEYOND the
   n+1 elements the vector holds afterwards (the scratch copy of the new element) *)
Theorem C02_emplace_position_writes_one_element_behind_the_end : forall L, has_varying L = false ->
  forall v l offs, RepO L v l offs ->
  forall i t, (i <= length l)%nat ->
  In (ERaw (bidn (v_bid v)) (v_stride v * (Z.of_nat i + 1)) (v_stride v * (Z.of_nat (length l) + 2)))
     (snd (emplace_pos L v (Z.of_nat i) t)).
Proof. exact emplace_pos_writes. Qed.
Print Assumptions C02_emplace_position_writes_one_element_behind_the_end.

(* ... hence outside the block when the vector becomes full: the recorded finding
   emplace-position-scratch.  ContiguousVector<uint64_t> v{3}; two emplace_back;
   v.emplace(v.begin(), x): the block has 24 bytes, the call writes up to byte 32 *)
Definition c02eL : list param := [ {| pk := Plain; psz := 8; pal := 8; pty := TUInt |} ].
Definition c02et (b : Z) : tuple := [[[b; 0; 0; 0; 0; 0; 0; 0]]].
Theorem C02_emplace_position_refuted :
  let v0 := fst (mkvec c02eL 3 0 [] 0 (fun _ => 170) 0%nat 1%nat) in
  let v2 := fst (emplace_back c02eL (fst (emplace_back c02eL v0 (c02et 1))) (c02et 2)) in
  wf_plist c02eL = true /\ has_varying c02eL = false /\ all_triv c02eL = true /\
  Rep c02eL v2 [c02et 1; c02et 2] /\ v_cap v2 = 3 /\
  exists lo hi, In (ERaw (bidn (v_bid v2)) lo hi) (snd (emplace_pos c02eL v2 0 (c02et 7))) /\
                SA c02eL * v_units v2 < hi.
Proof.
  cbv zeta.
  split; [reflexivity|]. split; [reflexivity|]. split; [reflexivity|].
  assert (Hwf : wf_plist c02eL = true) by reflexivity.
  assert (Hst : has_varying c02eL = false -> stride_ok c02eL (fixed_counts c02eL []) (snd (esize c02eL []))).
  { intros Hnv. apply esize_stride_ok; auto. apply fixed_counts_nonneg; auto. }
  destruct (mkvec_rep c02eL Hwf 3 0 [] 0 (fun _ => 170) 0%nat 1%nat ltac:(lia) Hst) as (R0 & Hc0 & Hf0).
  cbv zeta in *.
  assert (T : forall b, tuple_ok c02eL (fixed_counts c02eL []) 0 (c02et b)).
  { intros b. cbn. repeat split; try reflexivity. repeat constructor. }
  pose proof (emplace_rep c02eL Hwf _ _ (c02et 1) R0 ltac:(rewrite Hc0; cbn; lia)
                ltac:(rewrite Hf0; apply T)) as R1.
  assert (Hf1 : v_fixed (fst (emplace_back c02eL (fst (mkvec c02eL 3 0 [] 0 (fun _ => 170) 0%nat 1%nat)) (c02et 1))) = []) by reflexivity.
  assert (Hc1 : v_cap (fst (emplace_back c02eL (fst (mkvec c02eL 3 0 [] 0 (fun _ => 170) 0%nat 1%nat)) (c02et 1))) = 3) by reflexivity.
  pose proof (emplace_rep c02eL Hwf _ _ (c02et 2) R1 ltac:(rewrite Hc1; cbn; lia)
                ltac:(rewrite Hf1; apply T)) as R2.
  split; [exact R2|]. split; [reflexivity|].
  exists 8, 32. split; [|vm_compute; reflexivity].
  vm_compute. left. reflexivity.
Qed.
Print Assumptions C02_emplace_position_refuted.

(* ... and erase(position) undoes it: the two operations are inverse on the represented list *)
Theorem C02_emplace_position_then_erase_gives_back_the_list : forall L, wf_plist L = true ->
  has_varying L = false -> all_triv L = true ->
  forall v l offs, RepO L v l offs ->
  forall i t, (i <= length l)%nat -> Z.of_nat (length l) < v_cap v ->
  tuple_ok L (fixed_counts L (v_fixed v)) 0 t ->
  Rep L (fst (erase L (fst (emplace_pos L v (Z.of_nat i) t)) (Z.of_nat i))) l.
Proof. exact emplace_then_erase. Qed.
Print Assumptions C02_emplace_position_then_erase_gives_back_the_list.

(* assignment clause, move assignment under EVERY allocator trait combination and parameter
   list: the target reports the source's capacity and owns a block - stolen, new, or its own
   one reused - of at least the source's block's bytes; C02_every_history_stays_inside_the_block
   says those bytes hold that capacity.  (The reuse branch must compare the BLOCKS, not the
   bytes in use: seed C02n.) *)
Theorem C02_move_assigned_block_holds_the_new_capacity : forall K L d src junk nb,
  0 < SA L -> 0 <= v_units src ->
  let '(d', _, _, _) := move_assign K L d src junk nb in
  v_cap d' = v_cap src /\ consumption L src <= consumption L d'.
Proof. exact move_assign_block_suffices. Qed.
Print Assumptions C02_move_assigned_block_holds_the_new_capacity.
