(* C02 — no access outside the allocated block while within declared capacity. *)
From Coq Require Import ZArith List Bool.
From Cntgs Require Import Base Layout Mem Vector Spec Rep EsizeThm C02Thm.
Import ListNotations.
Local Open Scope Z_scope.

(* (a) arithmetic sufficiency, lists WITHOUT VaryingSize parameter: a vector constructed for
   N elements holds any N elements — element i ends inside the block of
   SA * units (needed N 0 (esize L fixed)) bytes, for every list, fixed sizes and N. *)
Theorem C02_fixed_capacity_sufficient : forall L fixed N i t,
  wf_plist L = true -> has_varying L = false -> Forall (fun c => 0 <= c) fixed ->
  tuple_ok L (fixed_counts L fixed) 0 t -> 0 <= i < N ->
  let sz := esize L fixed in
  elem_end L (snd sz * i) t <= SA L * units L (needed N 0 sz).
Proof. exact fixed_capacity_sufficient. Qed.
Print Assumptions C02_fixed_capacity_sufficient.

(* (b) in every represented state (hence after every valid history, by C01) every element
   lies inside [data_begin(), data_end()) at a storage-aligned offset *)
Theorem C02_elements_inside_data : forall L v l, wf_plist L = true -> Rep L v l ->
  exists offs, length offs = length l /\
    Forall2 (fun a t => 0 <= a /\ (SA L | a) /\ elem_end L a t <= dend L v) offs l.
Proof. exact elements_inside_data. Qed.
Print Assumptions C02_elements_inside_data.

(* (a) is FALSE for lists with a plain/fixed parameter behind the last VaryingSize
   parameter: the faithful model overruns its block within the documented limits.  This is
   the recorded known finding "needed-tail-after-varying"; the witness replayed on the
   implementation trips the allocator's guard zone (corpus/f7.script).  The full statement
   for lists ending in a VaryingSize parameter is not proved (DESIGN.md section 5, C02). *)
Theorem C02_varying_capacity_refuted :
  exists L N B vcounts,
    wf_plist L = true /\ Z.of_nat (length vcounts) = N /\
    fold_right Z.add 0 (map (fun c => c * 7) vcounts) <= B /\
    SA L * units L (needed N B (esize L [])) < fill_end L vcounts 0.
Proof. exact needed_refuted. Qed.
Print Assumptions C02_varying_capacity_refuted.
